(* C17 — proofs, part B: signed min/max, long division (unsigned, signed, pipelined),
   carry-save adder, adder with carry vector, counters. *)
From Coq Require Import List Bool Arith NArith ZArith Lia.
From Gatery Require Import SclMathDefs SclMathSpec.
Import ListNotations.
Open Scope N_scope.

(* ------------------------------------------------------------------ helpers *)
Lemma pow2_pos n : 0 < 2 ^ n.
Proof. apply N.neq_0_lt_0, N.pow_nonzero. discriminate. Qed.

Lemma pow2_split w : 1 <= w -> 2 ^ w = 2 * 2 ^ (w - 1).
Proof. intro H. rewrite <- N.pow_succ_r'. f_equal. lia. Qed.

Lemma testbit_top w y : 1 <= w -> y < 2 ^ w -> N.testbit y (w - 1) = (2 ^ (w - 1) <=? y).
Proof.
  intros Hw Hy. rewrite N.testbit_eqb. rewrite (pow2_split w Hw) in Hy.
  set (P := 2 ^ (w - 1)) in *. assert (HP : 0 < P) by apply pow2_pos.
  destruct (N.leb_spec P y) as [H|H].
  - assert (E : y / P = 1).
    { symmetry. apply (N.div_unique y P 1 (y - P)); lia. }
    rewrite E. reflexivity.
  - rewrite N.div_small by exact H. reflexivity.
Qed.

Lemma to_signed_range w x : 1 <= w -> x < 2 ^ w ->
  (- 2 ^ Z.of_N (w - 1) <= to_signed w x < 2 ^ Z.of_N (w - 1))%Z.
Proof.
  intros Hw Hx. unfold to_signed. rewrite testbit_top by assumption.
  pose proof (pow2_split w Hw) as Hs.
  assert (HZ : (2 ^ Z.of_N w = 2 * 2 ^ Z.of_N (w - 1))%Z).
  { rewrite <- Z.pow_succ_r by lia. f_equal. lia. }
  assert (HP : Z.of_N (2 ^ (w - 1)) = (2 ^ Z.of_N (w - 1))%Z) by (rewrite N2Z.inj_pow; reflexivity).
  destruct (N.leb_spec (2 ^ (w - 1)) x); lia.
Qed.

(* ------------------------------------------------------------------ min/max on SInt *)
Lemma sub_w_small w a b : a < 2 ^ w -> b < 2 ^ w ->
  sub_w w a b = if b <=? a then a - b else a + 2 ^ w - b.
Proof.
  intros Ha Hb. unfold sub_w. rewrite (N.mod_small b) by exact Hb.
  destruct (N.leb_spec b a) as [H|H].
  - replace (a + 2 ^ w - b) with ((a - b) + 1 * 2 ^ w) by lia.
    rewrite N.mod_add by (apply N.pow_nonzero; discriminate). apply N.mod_small. lia.
  - apply N.mod_small. lia.
Qed.

Lemma sext1_lt w x : 1 <= w -> x < 2 ^ w -> sext1 w x < 2 ^ (w + 1).
Proof.
  intros Hw Hx. unfold sext1. rewrite N.add_1_r, N.pow_succ_r'. destruct (N.testbit x (w - 1)); lia.
Qed.

(* sign bit of the difference taken one bit wider = "difference negative", for ALL operands *)
Lemma slt_correct w a b :
  1 <= w -> a < 2 ^ w -> b < 2 ^ w ->
  slt w a b = (to_signed w a <? to_signed w b)%Z.
Proof.
  intros Hw Ha Hb. unfold slt.
  pose proof (sext1_lt w a Hw Ha) as Hsa. pose proof (sext1_lt w b Hw Hb) as Hsb.
  rewrite sub_w_small by assumption.
  pose proof (pow2_split w Hw) as Hs.
  assert (Hs1 : 2 ^ (w + 1) = 2 * 2 ^ w) by (rewrite N.add_1_r, N.pow_succ_r'; reflexivity).
  assert (HZ : (2 ^ Z.of_N w = 2 * 2 ^ Z.of_N (w - 1))%Z).
  { rewrite <- Z.pow_succ_r by lia. f_equal. lia. }
  assert (HP : Z.of_N (2 ^ (w - 1)) = (2 ^ Z.of_N (w - 1))%Z) by (rewrite N2Z.inj_pow; reflexivity).
  assert (Ht : forall y, y < 2 ^ (w + 1) -> N.testbit y w = (2 ^ w <=? y)).
  { intros y Hy. pose proof (testbit_top (w + 1) y) as H. replace (w + 1 - 1) with w in H by lia.
    apply H; [lia|exact Hy]. }
  rewrite Ht by (destruct (N.leb_spec (sext1 w b) (sext1 w a)); lia).
  unfold to_signed, sext1 in *.
  rewrite (testbit_top w a Hw Ha), (testbit_top w b Hw Hb) in *.
  set (P := 2 ^ (w - 1)) in *. set (PZ := (2 ^ Z.of_N (w - 1))%Z) in *.
  set (M := 2 ^ w) in *.
  destruct (N.leb_spec P a), (N.leb_spec P b); cbv iota in *;
    match goal with |- (_ <=? (if ?x <=? ?y then _ else _)) = _ => destruct (N.leb_spec x y) end; cbv iota;
    match goal with |- (?x <=? ?y) = (?u <? ?v)%Z =>
      destruct (N.leb_spec x y), (Z.ltb_spec u v) end; try reflexivity; exfalso; lia.
Qed.

(* min<SInt> / max<SInt> are the signed minimum / maximum for ALL operands *)
Theorem smin_correct w a b :
  1 <= w -> a < 2 ^ w -> b < 2 ^ w ->
  to_signed w (smin w a b) = Z.min (to_signed w a) (to_signed w b) /\
  to_signed w (smax w a b) = Z.max (to_signed w a) (to_signed w b).
Proof.
  intros Hw Ha Hb. unfold smin, smax, sgt.
  rewrite !slt_correct by assumption.
  destruct (Z.ltb_spec (to_signed w b) (to_signed w a)), (Z.ltb_spec (to_signed w a) (to_signed w b)); lia.
Qed.

(* regression: operands whose difference does not fit the operand width
   (4 bits: min(3, -7) used to be 3) *)
Example smin_overflow_examples :
  smin 4 3 9 = 9 /\ smax 4 3 9 = 3 /\ smin 4 9 3 = 9 /\ smax 4 8 7 = 7 /\ smin 1 1 0 = 1.
Proof. vm_compute. repeat split; reflexivity. Qed.

(* ------------------------------------------------------------------ longDivision *)
Lemma ldiv_indices_S k : ldiv_indices (S k) = N.of_nat (S k) :: ldiv_indices k.
Proof.
  unfold ldiv_indices. rewrite seq_S, map_app, rev_app_distr. reflexivity.
Qed.

(* num / 2^j = 2 * (num / 2^(j+1)) + bit_j ;  num mod 2^(j+1) = bit_j * 2^j + num mod 2^j *)
Lemma split_bit num j :
  let b := (num / 2 ^ j) mod 2 in
  num / 2 ^ j = 2 * (num / 2 ^ (j + 1)) + b /\
  num mod 2 ^ (j + 1) = b * 2 ^ j + num mod 2 ^ j /\ b < 2.
Proof.
  intro b. assert (HP : 2 ^ j <> 0) by (apply N.pow_nonzero; discriminate).
  rewrite N.add_1_r, N.pow_succ_r', (N.mul_comm 2 (2 ^ j)).
  split; [|split].
  - rewrite <- N.div_div by (try exact HP; discriminate).
    apply N.div_mod. discriminate.
  - rewrite N.mod_mul_r by (try exact HP; discriminate). fold b. lia.
  - apply N.mod_lt. discriminate.
Qed.

(* one compare-subtract step keeps "remainder register = partial remainder * 2^j + untouched
   low bits, quotient register = partial quotient * 2^j" *)
Lemma ldiv_step_inv denW den num j Q R :
  0 < den -> den < 2 ^ denW ->
  num / 2 ^ (j + 1) = den * Q + R -> R < den ->
  exists Q' R',
    ldiv_step denW den (R * 2 ^ (j + 1) + num mod 2 ^ (j + 1), Q * 2 ^ (j + 1)) (j + 1)
    = (R' * 2 ^ j + num mod 2 ^ j, Q' * 2 ^ j) /\
    num / 2 ^ j = den * Q' + R' /\ R' < den.
Proof.
  intros Hd0 Hd HQR HR.
  destruct (split_bit num j) as (Hdiv & Hmod & Hb). cbv zeta in *.
  set (b := (num / 2 ^ j) mod 2) in *.
  set (P := 2 ^ j) in *. assert (HP : 0 < P) by apply pow2_pos.
  assert (HL : num mod P < P) by (apply N.mod_lt; lia).
  set (L := num mod P) in *.
  set (T := 2 * R + b).
  assert (Hsw : 2 ^ (denW + 1) = 2 * 2 ^ denW) by (rewrite N.add_1_r, N.pow_succ_r'; reflexivity).
  assert (HT : T < 2 * den) by (unfold T; lia).
  unfold ldiv_step. replace (j + 1 - 1) with j by lia. fold P.
  assert (Hrm : R * 2 ^ (j + 1) + num mod 2 ^ (j + 1) = T * P + L).
  { rewrite Hmod. rewrite N.add_1_r, N.pow_succ_r'. fold P. unfold T. ring. }
  rewrite Hrm.
  assert (Hsl : (T * P + L) / P = T).
  { rewrite N.div_add_l by lia. rewrite (N.div_small L P) by exact HL. lia. }
  rewrite Hsl. rewrite (N.mod_small T) by lia.
  assert (Hq2 : Q * 2 ^ (j + 1) = 2 * Q * P).
  { rewrite N.add_1_r, N.pow_succ_r'. fold P. ring. }
  destruct (N.leb_spec den T) as [Hge|Hlt].
  - exists (2 * Q + 1), (T - den).
    assert (Hsub : (T + 2 ^ (denW + 1) - den) mod 2 ^ (denW + 1) = T - den).
    { replace (T + 2 ^ (denW + 1) - den) with ((T - den) + 1 * 2 ^ (denW + 1)) by lia.
      rewrite N.mod_add by (apply N.pow_nonzero; discriminate). apply N.mod_small. lia. }
    rewrite Hsub. split; [|split].
    + f_equal.
      * replace (T * P + L - T * P) with L by lia. lia.
      * rewrite Hq2. ring.
    + rewrite Hdiv, HQR. unfold T. 
      replace (2 * (den * Q + R) + b) with (den * (2 * Q + 1) + (2 * R + b - den)); [reflexivity|].
      unfold T in Hge. nia.
    + lia.
  - exists (2 * Q), T. split; [|split].
    + f_equal.
      * replace (T * P + L - T * P) with L by lia. lia.
      * rewrite Hq2. reflexivity.
    + rewrite Hdiv, HQR. unfold T. ring.
    + exact Hlt.
Qed.

Lemma ldiv_loop denW den num :
  0 < den -> den < 2 ^ denW ->
  forall k Q R,
    num / 2 ^ N.of_nat k = den * Q + R -> R < den ->
    fold_left (ldiv_step denW den) (ldiv_indices k)
              (R * 2 ^ N.of_nat k + num mod 2 ^ N.of_nat k, Q * 2 ^ N.of_nat k)
    = (num mod den, num / den).
Proof.
  intros Hd0 Hd. induction k as [|k IH]; intros Q R HQR HR.
  - cbn [ldiv_indices seq map rev fold_left]. change (2 ^ N.of_nat 0) with 1 in *.
    rewrite N.div_1_r in HQR. rewrite N.mod_1_r, !N.mul_1_r, N.add_0_r.
    assert (HqQ : num / den = Q) by (symmetry; apply (N.div_unique num den Q R); lia).
    assert (HrR : num mod den = R) by (symmetry; apply (N.mod_unique num den Q R); lia).
    rewrite HqQ, HrR. reflexivity.
  - rewrite ldiv_indices_S. cbn [fold_left].
    replace (N.of_nat (S k)) with (N.of_nat k + 1) in * by lia.
    destruct (ldiv_step_inv denW den num (N.of_nat k) Q R Hd0 Hd HQR HR) as (Q' & R' & E & HQR' & HR').
    rewrite E. apply IH; assumption.
Qed.

(* unsigned long division: floor(numerator / denominator), for every operand width *)
Theorem ldiv_correct numW denW num den :
  num < 2 ^ N.of_nat numW -> 0 < den -> den < 2 ^ denW ->
  ldiv_state numW denW num den = (num mod den, num / den).
Proof.
  intros Hn Hd0 Hd. unfold ldiv_state.
  pose proof (ldiv_loop denW den num Hd0 Hd numW 0 0) as H.
  rewrite N.div_small, N.mod_small in H by exact Hn.
  rewrite !N.mul_0_l, N.add_0_l in H. apply H; lia.
Qed.

Theorem ldiv_quotient numW denW num den :
  num < 2 ^ N.of_nat numW -> 0 < den -> den < 2 ^ denW ->
  ldiv numW denW num den = num / den.
Proof. intros. unfold ldiv. rewrite ldiv_correct by assumption. reflexivity. Qed.

(* denominator 0: every compare succeeds, nothing is subtracted, the quotient is all ones *)
Lemma ldiv_loop_zero denW k rm quo :
  fold_left (ldiv_step denW 0) (ldiv_indices k) (rm, quo) = (rm, quo + (2 ^ N.of_nat k - 1)).
Proof.
  revert rm quo; induction k as [|k IH]; intros rm quo.
  - cbn. f_equal. lia.
  - rewrite ldiv_indices_S. cbn [fold_left]. unfold ldiv_step at 2.
    replace (N.of_nat (S k) - 1) with (N.of_nat k) by lia.
    set (P := 2 ^ N.of_nat k). assert (HP : 0 < P) by apply pow2_pos.
    set (sl := (rm / P) mod 2 ^ (denW + 1)).
    replace (0 <=? sl) with true by (symmetry; apply N.leb_le; lia). cbv iota.
    assert (Hsl : (sl + 2 ^ (denW + 1) - 0) mod 2 ^ (denW + 1) = sl).
    { rewrite N.sub_0_r. replace (sl + 2 ^ (denW + 1)) with (sl + 1 * 2 ^ (denW + 1)) by lia.
      rewrite N.mod_add by (apply N.pow_nonzero; discriminate).
      apply N.mod_small. apply N.mod_lt. apply N.pow_nonzero; discriminate. }
    rewrite Hsl.
    assert (Hle : sl * P <= rm).
    { assert (sl <= rm / P) by (apply N.mod_le; apply N.pow_nonzero; discriminate).
      assert (P * (rm / P) <= rm) by (apply N.mul_div_le; lia). nia. }
    replace (rm - sl * P + sl * P) with rm by lia.
    rewrite IH. f_equal. rewrite Nat2N.inj_succ, N.pow_succ_r'. fold P. lia.
Qed.

Theorem ldiv_by_zero numW denW num :
  ldiv numW denW num 0 = 2 ^ N.of_nat numW - 1.
Proof. unfold ldiv, ldiv_state. rewrite ldiv_loop_zero. reflexivity. Qed.

(* pipelined variant: the quotient of the operands of L cycles ago, L = ldiv_latency *)
Theorem ldiv_pipe_correct numW denW steps inp t :
  let L := ldiv_latency numW steps in
  (L <= t)%nat ->
  fst (inp (t - L)%nat) < 2 ^ N.of_nat numW -> 0 < snd (inp (t - L)%nat) -> snd (inp (t - L)%nat) < 2 ^ denW ->
  ldiv_pipe numW denW steps inp t = Some (fst (inp (t - L)%nat) / snd (inp (t - L)%nat)).
Proof.
  intros L Ht Hn Hd0 Hd. unfold ldiv_pipe. fold L.
  replace (t <? L)%nat with false by (symmetry; apply Nat.ltb_ge; exact Ht).
  rewrite ldiv_quotient by assumption. reflexivity.
Qed.

Lemma ldiv_latency_zero numW : ldiv_latency numW 0 = 0%nat.
Proof. reflexivity. Qed.

(* ------------------------------------------------------------------ signed long division *)
Lemma quot_N a b : 0 < b -> Z.quot (Z.of_N a) (Z.of_N b) = Z.of_N (a / b).
Proof. intro Hb. rewrite Z.quot_div_nonneg by lia. rewrite N2Z.inj_div. reflexivity. Qed.

(* SInt numerator / UInt denominator rounds towards zero (C semantics), every width *)
Theorem sldiv_correct numW denW num den :
  (1 <= numW)%nat -> num < 2 ^ N.of_nat numW -> 0 < den -> den < 2 ^ denW ->
  to_signed (N.of_nat numW) (sldiv numW denW num den) = Z.quot (to_signed (N.of_nat numW) num) (Z.of_N den)
  /\ sldiv numW denW num den < 2 ^ N.of_nat numW.
Proof.
  intros Hw Hn Hd0 Hd. unfold sldiv. set (w := N.of_nat numW) in *.
  assert (Hw1 : 1 <= w) by (unfold w; lia).
  pose proof (pow2_split w Hw1) as Hs.
  assert (HZ : (2 ^ Z.of_N w = 2 * 2 ^ Z.of_N (w - 1))%Z).
  { rewrite <- Z.pow_succ_r by lia. f_equal. lia. }
  assert (HPz : Z.of_N (2 ^ (w - 1)) = (2 ^ Z.of_N (w - 1))%Z) by (rewrite N2Z.inj_pow; reflexivity).
  rewrite (testbit_top w num Hw1 Hn).
  set (P := 2 ^ (w - 1)) in *. assert (HP : 0 < P) by apply pow2_pos.
  destruct (N.leb_spec P num) as [Hneg|Hpos].
  - (* negative numerator *)
    assert (Hmag : neg_w w num = 2 ^ w - num).
    { unfold neg_w. replace (2 ^ w - 1 - num + 1) with (2 ^ w - num) by lia. apply N.mod_small. lia. }
    rewrite Hmag. set (mag := 2 ^ w - num) in *.
    assert (Hmag_lt : mag < 2 ^ N.of_nat numW) by (fold w; unfold mag; lia).
    rewrite (ldiv_quotient numW denW mag den Hmag_lt Hd0 Hd).
    set (q := mag / den).
    assert (Hq : q <= mag).
    { unfold q. apply N.div_le_upper_bound; [lia|]. nia. }
    assert (Hsn : to_signed w num = (- Z.of_N mag)%Z).
    { unfold to_signed. rewrite (testbit_top w num Hw1 Hn). fold P.
      replace (P <=? num) with true by (symmetry; apply N.leb_le; exact Hneg).
      unfold mag. rewrite N2Z.inj_sub by lia. rewrite N2Z.inj_pow. simpl Z.of_N. lia. }
    rewrite Hsn, Z.quot_opp_l by lia. rewrite quot_N by exact Hd0. fold q.
    destruct (N.eq_dec q 0) as [Hq0|Hq0].
    + rewrite Hq0. unfold neg_w. rewrite N.sub_0_r, N.sub_add by lia.
      rewrite N.mod_same by (apply N.pow_nonzero; discriminate).
      split; [reflexivity|apply pow2_pos].
    + assert (Hres : neg_w w q = 2 ^ w - q).
      { unfold neg_w. replace (2 ^ w - 1 - q + 1) with (2 ^ w - q) by (unfold mag in *; lia).
        apply N.mod_small. lia. }
      rewrite Hres. split; [|lia].
      unfold to_signed. rewrite testbit_top by (try assumption; lia). fold P.
      replace (P <=? 2 ^ w - q) with true by (symmetry; apply N.leb_le; unfold mag in *; lia).
      rewrite N2Z.inj_sub by (unfold mag in *; lia). rewrite N2Z.inj_pow. simpl Z.of_N. lia.
  - (* non-negative numerator *)
    rewrite (ldiv_quotient numW denW num den Hn Hd0 Hd).
    assert (Hq : num / den <= num).
    { apply N.div_le_upper_bound; [lia|]. nia. }
    split; [|fold w; lia].
    unfold to_signed. rewrite !testbit_top by (try assumption; lia). fold P.
    replace (P <=? num) with false by (symmetry; apply N.leb_gt; exact Hpos).
    replace (P <=? num / den) with false by (symmetry; apply N.leb_gt; lia).
    symmetry. apply quot_N; exact Hd0.
Qed.

(* a 1-bit SInt numerator is rejected at design time (SInt(1) literal is 2 bits wide) *)
Theorem sldiv_narrow_refuted : forall denW num den, sldiv_gen 1 denW num den = None.
Proof. reflexivity. Qed.

Theorem sldiv_gen_correct numW denW num den :
  (2 <= numW)%nat -> sldiv_gen numW denW num den = Some (sldiv numW denW num den).
Proof.
  intro H. unfold sldiv_gen, sldiv_supported.
  replace (2 <=? numW)%nat with true by (symmetry; apply Nat.leb_le; exact H). reflexivity.
Qed.

(* ------------------------------------------------------------------ carry-save adder *)
Lemma add3_value a b c :
  length a = length b -> length b = length c ->
  N_of_bits (map3 xor3 a b c) + 2 * N_of_bits (map3 maj a b c) = N_of_bits a + N_of_bits b + N_of_bits c.
Proof.
  revert b c; induction a as [|x a IH]; intros [|y b] [|z c] H1 H2; try discriminate; [reflexivity|].
  cbn [map3 N_of_bits]. injection H1 as H1. injection H2 as H2. specialize (IH b c H1 H2).
  destruct x, y, z; cbn [xor3 maj xorb andb orb N.b2n]; lia.
Qed.

Lemma map3_length {A} (f : bool -> bool -> bool -> A) a b c :
  length a = length b -> length b = length c -> length (map3 f a b c) = length a.
Proof.
  revert b c; induction a as [|x a IH]; intros [|y b] [|z c] H1 H2; try discriminate; [reflexivity|].
  cbn [map3 length]. f_equal. apply IH; [injection H1|injection H2]; auto.
Qed.

Lemma removelast_length {A} (l : list A) : length (removelast l) = (length l - 1)%nat.
Proof.
  induction l as [|x l IH]; [reflexivity|]. destruct l as [|y l]; [reflexivity|].
  cbn [removelast length] in *. rewrite IH. lia.
Qed.

Lemma shl1_length v : length (shl1 v) = length v.
Proof.
  destruct v as [|x v]; [reflexivity|]. unfold shl1. cbn [length]. rewrite removelast_length.
  cbn [length]. lia.
Qed.

Lemma shl1_value v : N_of_bits (shl1 v) = (2 * N_of_bits v) mod 2 ^ N.of_nat (length v).
Proof.
  destruct v as [|x v]; [reflexivity|].
  unfold shl1.
  change (N_of_bits (false :: removelast (x :: v))) with (0 + 2 * N_of_bits (removelast (x :: v))).
  rewrite N.add_0_l.
  assert (Hl : x :: v = removelast (x :: v) ++ [last (x :: v) false]) by (apply app_removelast_last; discriminate).
  remember (removelast (x :: v)) as r eqn:Er. remember (last (x :: v) false) as z eqn:Ez.
  rewrite Hl. clear Hl Er Ez. rewrite app_length. cbn [length]. rewrite Nat.add_1_r, Nat2N.inj_succ, N.pow_succ_r'.
  rewrite N.mul_mod_distr_l by (try (apply N.pow_nonzero); discriminate).
  f_equal. rewrite N_of_bits_app.
  cbn [N_of_bits]. rewrite N.mul_comm, N.mod_add by (apply N.pow_nonzero; discriminate).
  symmetry. apply N.mod_small. apply N_of_bits_lt.
Qed.

Definition csa_inv (w : nat) (st : csa_state) (total : N) : Prop :=
  match csa_count st with
  | O => total = 0
  | S O => length (csa_sum st) = w /\ N_of_bits (csa_sum st) = total
  | S (S _) => length (csa_sum st) = w /\ length (csa_carry st) = w /\
               (N_of_bits (csa_sum st) + N_of_bits (csa_carry st)) mod 2 ^ N.of_nat w = total mod 2 ^ N.of_nat w
  end.

Lemma csa_add_inv w st total b :
  csa_inv w st total -> length b = w -> csa_inv w (csa_add st b) (total + N_of_bits b).
Proof.
  unfold csa_inv, csa_add. intros H Hb.
  destruct (csa_count st) as [|[|n]] eqn:E; cbn [csa_count csa_sum csa_carry].
  - subst total. split; [exact Hb|lia].
  - destruct H as [H1 H2]. repeat split; auto. rewrite H2. reflexivity.
  - destruct H as (H1 & H2 & H3).
    unfold add_carry_save. cbn [csa_count csa_sum csa_carry].
    assert (L1 : length (csa_sum st) = length (csa_carry st)) by congruence.
    assert (L2 : length (csa_carry st) = length b) by congruence.
    repeat split.
    + rewrite map3_length; auto.
    + rewrite shl1_length, map3_length; auto.
    + rewrite shl1_value, map3_length by auto. rewrite H1.
      assert (HM : 2 ^ N.of_nat w <> 0) by (apply N.pow_nonzero; discriminate).
      rewrite N.add_mod_idemp_r by exact HM.
      rewrite (add3_value _ _ _ L1 L2).
      rewrite <- (N.add_mod_idemp_l (N_of_bits (csa_sum st) + N_of_bits (csa_carry st))) by exact HM.
      rewrite H3. rewrite N.add_mod_idemp_l by exact HM. reflexivity.
Qed.

Lemma csa_run_inv w ops st total :
  csa_inv w st total -> Forall (fun b => length b = w) ops ->
  csa_inv w (fold_left csa_add ops st) (total + fold_right (fun b s => N_of_bits b + s) 0 ops).
Proof.
  revert st total; induction ops as [|b ops IH]; intros st total H Hall.
  - cbn. rewrite N.add_0_r. exact H.
  - inversion Hall; subst. cbn [fold_left fold_right].
    replace (total + (N_of_bits b + fold_right (fun b s => N_of_bits b + s) 0 ops))
      with ((total + N_of_bits b) + fold_right (fun b s => N_of_bits b + s) 0 ops) by lia.
    apply IH; [apply csa_add_inv; auto|auto].
Qed.

Definition sum_bits (ops : list bits) : N := fold_right (fun b s => N_of_bits b + s) 0 ops.

(* CarrySafeAdder: sum() of any number (>= 1) of operands of w bits = their sum mod 2^w;
   with three or more operands intermediateSum + intermediateCarry is the same value *)
Theorem csa_correct w ops :
  ops <> [] -> Forall (fun b => length b = w) ops ->
  csa_result (csa_run ops) = sum_bits ops mod 2 ^ N.of_nat w.
Proof.
  intros Hne Hall. unfold csa_run.
  pose proof (csa_run_inv w ops csa_init 0 eq_refl Hall) as H. rewrite N.add_0_l in H.
  fold (sum_bits ops) in H. unfold csa_result.
  assert (Hc : csa_count (fold_left csa_add ops csa_init) <> 0%nat).
  { destruct ops as [|b ops]; [congruence|]. cbn [fold_left].
    assert (G : forall l st, csa_count st <> 0%nat -> csa_count (fold_left csa_add l st) <> 0%nat).
    { induction l as [|x l IHl]; intros st Hst; [exact Hst|]. cbn [fold_left]. apply IHl.
      unfold csa_add. destruct (csa_count st) as [|[|n]]; cbn; try discriminate. }
    apply G. cbn. discriminate. }
  unfold csa_inv in H. destruct (csa_count (fold_left csa_add ops csa_init)) as [|[|n]]; [congruence| |].
  - destruct H as [H1 H2]. cbn [Nat.leb]. rewrite H2.
    symmetry. apply N.mod_small. rewrite <- H2, <- H1. apply N_of_bits_lt.
  - destruct H as (H1 & H2 & H3). cbn [Nat.leb]. rewrite H1. exact H3.
Qed.

Theorem add_carry_save_correct a b c :
  length a = length b -> length b = length c ->
  let '(s, cy) := add_carry_save a b c in
  N_of_bits s + 2 * N_of_bits cy = N_of_bits a + N_of_bits b + N_of_bits c /\
  length s = length a /\ length cy = length a.
Proof.
  intros H1 H2. unfold add_carry_save. repeat split.
  - apply add3_value; assumption.
  - apply map3_length; assumption.
  - apply map3_length; assumption.
Qed.

(* ------------------------------------------------------------------ counters *)
(* the specification: a counter modulo `e` with load *)
Definition counter_spec (e value : N) (inc dec load : bool) (lv : N) : N :=
  if load then lv
  else if inc && negb dec then (value + 1) mod e
  else if dec && negb inc then (value + e - 1) mod e
  else value.

Lemma mod_wrap_up e v : v < e -> (v + 1) mod e = if v =? e - 1 then 0 else v + 1.
Proof.
  intro H. destruct (N.eqb_spec v (e - 1)) as [E|E].
  - replace (v + 1) with e by lia. apply N.mod_same. lia.
  - apply N.mod_small. lia.
Qed.

Lemma mod_wrap_down e v : v < e -> (v + e - 1) mod e = if v =? 0 then e - 1 else v - 1.
Proof.
  intro H. destruct (N.eqb_spec v 0) as [E|E].
  - subst v. rewrite N.add_0_l. apply N.mod_small. lia.
  - replace (v + e - 1) with ((v - 1) + 1 * e) by lia. rewrite N.mod_add by lia. apply N.mod_small. lia.
Qed.

(* Counter with overflow checks (checkOverflows = true) *)
Lemma counter_checked_next c e value inc dec load lv :
  cc_check c = true -> cc_never c = false -> 1 <= cc_w c ->
  1 <= e -> e <= 2 ^ cc_w c -> counter_lastv c e = e - 1 -> value < e ->
  counter_next c e value inc dec load lv = counter_spec e value inc dec load lv.
Proof.
  intros Hck Hnv Hw He1 He2 Hlast Hv.
  unfold counter_next, counter_spec, counter_delta. rewrite Hck, Hnv, Hlast. cbv zeta.
  destruct load; [reflexivity|].
  set (w := cc_w c) in *. assert (HM : 2 <= 2 ^ w).
  { change 2 with (2 ^ 1) at 1. apply N.pow_le_mono_r; lia. }
  assert (Hlor : N.lor 0 (2 ^ w - 1) = 2 ^ w - 1) by apply N.lor_0_l.
  destruct inc, dec; cbn [andb negb]; rewrite ?Hlor.
  - (* both: delta = 0 *)
    rewrite N.add_0_r, (N.mod_small value) by lia.
    change (0 =? 1) with false. cbn [andb].
    replace (0 =? 2 ^ w - 1) with false by (symmetry; apply N.eqb_neq; lia). reflexivity.
  - (* inc *)
    rewrite (mod_wrap_up e value Hv). change (1 =? 1) with true. cbn [andb].
    destruct (N.eqb_spec value (e - 1)) as [El|El].
    + destruct (N.eqb_spec 1 (2 ^ w - 1)) as [Em|Em]; cbn [andb]; [|reflexivity].
      destruct (N.eqb_spec value 0); [lia|reflexivity].
    + rewrite (N.mod_small (value + 1)) by lia.
      destruct (N.eqb_spec 1 (2 ^ w - 1)) as [Em|Em]; cbn [andb]; [|reflexivity].
      destruct (N.eqb_spec value 0); [lia|reflexivity].
  - (* dec *)
    rewrite (mod_wrap_down e value Hv).
    rewrite N.eqb_refl. cbn [andb].
    assert (Hv1 : (value + (2 ^ w - 1)) mod 2 ^ w = if value =? 0 then 2 ^ w - 1 else value - 1).
    { destruct (N.eqb_spec value 0) as [->|Hn]; [apply N.mod_small; lia|].
      replace (value + (2 ^ w - 1)) with ((value - 1) + 1 * 2 ^ w) by lia.
      rewrite N.mod_add by lia. apply N.mod_small. lia. }
    rewrite Hv1.
    destruct (N.eqb_spec value 0) as [E0|E0]; [reflexivity|].
    destruct (N.eqb_spec (2 ^ w - 1) 1) as [Em|Em]; cbn [andb]; [|reflexivity].
    destruct (N.eqb_spec value (e - 1)); [lia|reflexivity].
  - (* neither *)
    rewrite N.add_0_r, (N.mod_small value) by lia.
    change (0 =? 1) with false. cbn [andb].
    replace (0 =? 2 ^ w - 1) with false by (symmetry; apply N.eqb_neq; lia). reflexivity.
Qed.


Lemma counter_lastv_calc c e :
  1 <= e -> e <= 2 ^ cc_endw c -> e <= 2 ^ cc_w c -> counter_lastv c e = e - 1.
Proof.
  intros H1 H2 H3. unfold counter_lastv.
  replace (e + 2 ^ cc_endw c - 1) with ((e - 1) + 1 * 2 ^ cc_endw c) by lia.
  rewrite N.mod_add by (apply N.pow_nonzero; discriminate).
  rewrite (N.mod_small (e - 1) (2 ^ cc_endw c)) by lia. apply N.mod_small. lia.
Qed.

Lemma pow2_ge2 w : 1 <= w -> 2 <= 2 ^ w.
Proof. intro H. change 2 with (2 ^ 1) at 1. apply N.pow_le_mono_r; lia. Qed.

(* Counter(BitWidth w): counts modulo 2^w, isLast at 2^w - 1 *)
Theorem counter_w_correct w rv value inc dec load lv :
  1 <= w -> value < 2 ^ w ->
  counter_next (counter_cfg_w w rv false) (2 ^ w) value inc dec load lv
  = counter_spec (2 ^ w) value inc dec load lv
  /\ counter_lastv (counter_cfg_w w rv false) (2 ^ w) = 2 ^ w - 1.
Proof.
  intros Hw Hv. pose proof (pow2_ge2 w Hw) as HM.
  assert (Hl : counter_lastv (counter_cfg_w w rv false) (2 ^ w) = 2 ^ w - 1).
  { apply counter_lastv_calc; cbn [cc_w cc_endw counter_cfg_w]; try lia.
    apply N.pow_le_mono_r; lia. }
  split; [|exact Hl].
  apply counter_checked_next; cbn [cc_check cc_never cc_w counter_cfg_w]; auto; lia.
Qed.

(* Counter(UInt end): counts modulo the (dynamic) end value, 1 <= end < 2^w *)
Theorem counter_dyn_correct w rv e value inc dec load lv :
  1 <= w -> 1 <= e -> e < 2 ^ w -> value < e ->
  counter_next (counter_cfg_dyn w rv false) e value inc dec load lv
  = counter_spec e value inc dec load lv
  /\ counter_lastv (counter_cfg_dyn w rv false) e = e - 1.
Proof.
  intros Hw He1 He2 Hv.
  assert (Hl : counter_lastv (counter_cfg_dyn w rv false) e = e - 1).
  { apply counter_lastv_calc; cbn [cc_w cc_endw counter_cfg_dyn]; lia. }
  split; [|exact Hl].
  apply counter_checked_next; cbn [cc_check cc_never cc_w counter_cfg_dyn]; auto; lia.
Qed.

Lemma is_pow2_spec e : is_pow2 e = true -> e = 2 ^ N.log2 e.
Proof. unfold is_pow2. intro H. apply andb_prop in H as [_ H]. apply N.eqb_eq; exact H. Qed.

(* Counter(size_t end): counts modulo end for EVERY end >= 2 (power of two: natural wrap of a
   log2(end)-bit register; otherwise the explicit wrap logic) *)
Theorem counter_end_correct e rv value inc dec load lv :
  2 <= e -> value < e ->
  let c := counter_cfg_end e rv false in
  counter_next c e value inc dec load lv = counter_spec e value inc dec load lv
  /\ counter_lastv c e = e - 1 /\ e <= 2 ^ cc_w c.
Proof.
  intros He Hv c. unfold c, counter_cfg_end.
  destruct (is_pow2 e) eqn:Ep.
  - (* power of two, no overflow checks *)
    apply is_pow2_spec in Ep. set (k := N.log2 e) in *.
    assert (Hk : 1 <= k).
    { destruct (N.eq_dec k 0) as [E|E]; [rewrite E in Ep; simpl in Ep; lia|lia]. }
    assert (Hw : bw_count e = k).
    { unfold bw_count. destruct (N.leb_spec e 1); [lia|].
      rewrite log2c_log2_up by lia. rewrite Ep. apply N.log2_up_pow2. lia. }
    assert (Hew : bw_last e = k + 1).
    { unfold bw_last. rewrite log2c_log2_up by lia. rewrite Ep, N.add_1_r.
      rewrite N.log2_up_succ_pow2 by lia. lia. }
    rewrite Hw, Hew.
    assert (Hl : counter_lastv {| cc_w := k; cc_endw := k + 1; cc_check := false; cc_reset := rv; cc_never := false |} e = e - 1).
    { apply counter_lastv_calc; cbn [cc_w cc_endw]; try lia.
      rewrite Ep at 1. apply N.pow_le_mono_r; lia. }
    split; [|split; [exact Hl|cbn [cc_w]; lia]].
    unfold counter_next, counter_spec, counter_delta. rewrite Hl. cbn [cc_w cc_check cc_never]. cbv zeta.
    destruct load; [reflexivity|]. rewrite <- Ep.
    destruct inc, dec; cbn [andb negb]; rewrite ?N.lor_0_l.
    + rewrite N.add_0_r. apply N.mod_small; exact Hv.
    + reflexivity.
    + f_equal. lia.
    + rewrite N.add_0_r. apply N.mod_small; exact Hv.
  - (* not a power of two: overflow checks *)
    assert (He3 : 3 <= e).
    { destruct (N.eq_dec e 2) as [E|E]; [subst e; discriminate|lia]. }
    pose proof (bw_last_spec e) as Hlt.
    assert (Hw : 1 <= bw_last e).
    { destruct (N.eq_dec (bw_last e) 0) as [E|E]; [rewrite E in Hlt; simpl in Hlt; lia|lia]. }
    assert (Hl : counter_lastv {| cc_w := bw_last e; cc_endw := bw_last e; cc_check := true; cc_reset := rv; cc_never := false |} e = e - 1).
    { apply counter_lastv_calc; cbn [cc_w cc_endw]; lia. }
    split; [|split; [exact Hl|cbn [cc_w]; lia]].
    apply counter_checked_next; cbn [cc_check cc_never cc_w]; auto; lia.
Qed.

(* auto-increment mode (neither inc() nor dec() used anywhere): +1 mod e every cycle *)
Lemma counter_next_never c e value load lv :
  counter_next c e value false false load lv =
  counter_next {| cc_w := cc_w c; cc_endw := cc_endw c; cc_check := cc_check c; cc_reset := cc_reset c; cc_never := false |}
               e value (cc_never c) false load lv.
Proof.
  unfold counter_next, counter_delta, counter_lastv. cbn [cc_w cc_endw cc_check cc_never].
  destruct (cc_never c); reflexivity.
Qed.

(* trace level: the counter refines the modulo-e specification as a state machine *)
Fixpoint counter_spec_run (e value : N) (tr : list counter_in) : list (N * bool * bool * bool) :=
  match tr with
  | [] => []
  | i :: r =>
    let nxt := counter_spec e value (ci_inc i) (ci_dec i) (ci_load i) (ci_loadv i) in
    (value, value =? e - 1, value =? 0, nxt =? 0) :: counter_spec_run e nxt r
  end.

Lemma counter_spec_lt e value inc dec load lv :
  1 <= e -> value < e -> lv < e -> counter_spec e value inc dec load lv < e.
Proof.
  intros He Hv Hl. unfold counter_spec.
  destruct load; [exact Hl|]. destruct (inc && negb dec); [apply N.mod_lt; lia|].
  destruct (dec && negb inc); [apply N.mod_lt; lia|exact Hv].
Qed.

Theorem counter_end_run e rv value tr :
  2 <= e -> value < e ->
  Forall (fun i => ci_end i = e /\ ci_loadv i < e) tr ->
  counter_run (counter_cfg_end e rv false) value tr = counter_spec_run e value tr.
Proof.
  intros He. revert value; induction tr as [|i r IH]; intros value Hv Hall; [reflexivity|].
  apply Forall_cons_iff in Hall as [[Hend Hlv] Hall'].
  cbn [counter_run counter_spec_run]. unfold counter_out. rewrite Hend.
  destruct (counter_end_correct e rv value (ci_inc i) (ci_dec i) (ci_load i) (ci_loadv i) He Hv) as (Hn & Hl & _).
  rewrite Hn, Hl. f_equal. apply IH; [|exact Hall'].
  apply counter_spec_lt; auto; lia.
Qed.

Theorem counter_w_run w rv value tr :
  1 <= w -> value < 2 ^ w ->
  Forall (fun i => ci_end i = 2 ^ w /\ ci_loadv i < 2 ^ w) tr ->
  counter_run (counter_cfg_w w rv false) value tr = counter_spec_run (2 ^ w) value tr.
Proof.
  intros Hw. revert value; induction tr as [|i r IH]; intros value Hv Hall; [reflexivity|].
  apply Forall_cons_iff in Hall as [[Hend Hlv] Hall'].
  cbn [counter_run counter_spec_run]. unfold counter_out. rewrite Hend.
  destruct (counter_w_correct w rv value (ci_inc i) (ci_dec i) (ci_load i) (ci_loadv i) Hw Hv) as (Hn & Hl).
  rewrite Hn, Hl. f_equal. apply IH; [|exact Hall'].
  pose proof (pow2_ge2 w Hw). apply counter_spec_lt; auto; lia.
Qed.

(* counterUpDown: saturating up/down counter; note the behaviour when increment and decrement
   are both asserted at a bound (the suppressed direction loses, the counter moves) *)
Definition updown_spec (w rv value : N) (inc dec rst : bool) : N :=
  let top := 2 ^ w - 1 in
  if rst then rv
  else match inc, dec with
       | true, false => N.min (value + 1) top
       | false, true => value - 1
       | true, true => if value =? top then value - 1 else if value =? 0 then 1 else value
       | false, false => value
       end.

Theorem updown_correct w rv value inc dec rst :
  1 <= w -> value < 2 ^ w ->
  updown_next w rv value inc dec rst = updown_spec w rv value inc dec rst.
Proof.
  intros Hw Hv. unfold updown_next, updown_spec. cbv zeta.
  destruct (counter_w_correct w rv value (inc && negb (value =? 2 ^ w - 1)) (dec && negb (value =? 0)) rst rv Hw Hv) as [Hn Hl].
  rewrite Hl, Hn. unfold counter_spec.
  pose proof (pow2_ge2 w Hw) as HM.
  destruct rst; [reflexivity|].
  destruct inc, dec;
    destruct (N.eqb_spec value (2 ^ w - 1)) as [Et|Et], (N.eqb_spec value 0) as [E0|E0]; cbn [andb negb];
    rewrite ?(mod_wrap_up _ _ Hv), ?(mod_wrap_down _ _ Hv);
    repeat match goal with |- context[N.eqb ?a ?b] => destruct (N.eqb_spec a b) end;
    try reflexivity; lia.
Qed.

(* a plain "value + inc - dec, clamped" counter would stay put when both are asserted;
   counterUpDown does not at the bounds *)
Theorem updown_both_at_bounds_refuted :
  exists w rv value, value < 2 ^ w /\
    updown_next w rv value true true false <> N.min (N.max (value + 1 - 1) 0) (2 ^ w - 1).
Proof. exists 2, 0, 0. split; [reflexivity|]. vm_compute. discriminate. Qed.

(* ------------------------------------------------------------------ add(a, b, cin) *)
(* sum = a + b + cin (mod 2^w); cout bit i = carry out of bit position i, where the carries are
   the carry word c of the addition (N.add_carry_bits): c_0 = cin, c_(i+1) = maj(a_i, b_i, c_i) *)
Theorem addc_correct w a b cin :
  fst (addc w a b cin) = (a + b + N.b2n cin) mod 2 ^ w /\
  exists c, a + b + N.b2n cin = N.lxor (N.lxor a b) c /\ N.testbit c 0 = cin /\
            c / 2 = N.lor (N.land a b) (N.land c (N.lor a b)) /\
            forall i, i < w -> N.testbit (snd (addc w a b cin)) i = N.testbit c (i + 1).
Proof.
  split; [reflexivity|].
  destruct (N.add_carry_bits a b cin) as (c & Hsum & Hc & Hc0).
  exists c. repeat split; auto.
  intros i Hi. unfold addc. cbn [snd].
  rewrite N.lor_spec, !N.land_spec, N.lor_spec, N.lnot_spec_low by exact Hi.
  rewrite N.mod_pow2_bits_low by exact Hi. rewrite Hsum, !N.lxor_spec.
  rewrite N.add_1_r, <- N.div2_bits, Hc, N.lor_spec, !N.land_spec, N.lor_spec.
  destruct (N.testbit a i), (N.testbit b i), (N.testbit c i); reflexivity.
Qed.

(* ------------------------------------------------------------------ counter usage variants *)
(* which of inc() / dec() a design calls only matters through m_incrementNeverUsed; a counter
   that calls neither is the counter with inc tied high, every other variant is the plain
   modulo counter driven by the conjunction of its call-site conditions *)
Definition counter_rebuild (c : counter_cfg) : counter_cfg :=
  {| cc_w := cc_w c; cc_endw := cc_endw c; cc_check := cc_check c; cc_reset := cc_reset c; cc_never := false |}.

Lemma counter_never_lift (mk : bool -> counter_cfg) e v load lv :
  counter_rebuild (mk true) = mk false -> cc_never (mk true) = true ->
  (forall inc dec, counter_next (mk false) e v inc dec load lv = counter_spec e v inc dec load lv) ->
  forall (u : counter_use) inc dec en,
    let eff := counter_eff u inc dec en in
    counter_next (mk (counter_never u)) e v (fst eff) (snd eff) load lv
    = counter_spec e v (fst eff || counter_never u) (snd eff) load lv.
Proof.
  intros Hrb Hn Hspec u inc dec en eff. subst eff. unfold counter_never, counter_eff.
  destruct (match cu_scope u with
            | 0 => (inc, dec) | 1 => (true, true) | 2 => (en && inc, en && dec)
            | 3 => (en && inc, negb en && dec) | 4 => (en, en) | _ => (inc || en, dec || en) end) as [i d].
  destruct (cu_inc u), (cu_dec u); cbn [orb negb andb fst snd]; rewrite ?orb_false_r; try apply Hspec.
  rewrite counter_next_never. fold (counter_rebuild (mk true)). rewrite Hrb, Hn. apply Hspec.
Qed.

Lemma counter_rebuild_end e rv : counter_rebuild (counter_cfg_end e rv true) = counter_cfg_end e rv false.
Proof. unfold counter_cfg_end, counter_rebuild. destruct (is_pow2 e); reflexivity. Qed.
Lemma counter_never_end e rv : cc_never (counter_cfg_end e rv true) = true.
Proof. unfold counter_cfg_end. destruct (is_pow2 e); reflexivity. Qed.

(* Counter(size_t end), every usage variant (inc only / dec only / both / neither; any call-site
   scope): one step = the modulo-end counter driven by the call-site conditions *)
Theorem counter_end_use e rv v (u : counter_use) inc dec en load lv :
  2 <= e -> v < e ->
  let eff := counter_eff u inc dec en in
  counter_next (counter_cfg_end e rv (counter_never u)) e v (fst eff) (snd eff) load lv
  = counter_spec e v (fst eff || counter_never u) (snd eff) load lv.
Proof.
  intros He Hv. apply (counter_never_lift (counter_cfg_end e rv)).
  - apply counter_rebuild_end.
  - apply counter_never_end.
  - intros i d. apply (counter_end_correct e rv v i d load lv He Hv).
Qed.

Theorem counter_w_use w rv v (u : counter_use) inc dec en load lv :
  1 <= w -> v < 2 ^ w ->
  let eff := counter_eff u inc dec en in
  counter_next (counter_cfg_w w rv (counter_never u)) (2 ^ w) v (fst eff) (snd eff) load lv
  = counter_spec (2 ^ w) v (fst eff || counter_never u) (snd eff) load lv.
Proof.
  intros Hw Hv. apply (counter_never_lift (counter_cfg_w w rv)); try reflexivity.
  intros i d. apply (counter_w_correct w rv v i d load lv Hw Hv).
Qed.

Theorem counter_dyn_use w rv e v (u : counter_use) inc dec en load lv :
  1 <= w -> 1 <= e -> e < 2 ^ w -> v < e ->
  let eff := counter_eff u inc dec en in
  counter_next (counter_cfg_dyn w rv (counter_never u)) e v (fst eff) (snd eff) load lv
  = counter_spec e v (fst eff || counter_never u) (snd eff) load lv.
Proof.
  intros Hw He1 He2 Hv. apply (counter_never_lift (counter_cfg_dyn w rv)); try reflexivity.
  intros i d. apply (counter_dyn_correct w rv e v i d load lv Hw He1 He2 Hv).
Qed.

(* the four binding variants in closed form (call sites IF(inc) c.inc(); IF(dec) c.dec();):
   an up-only counter holds when idle, a DOWN-ONLY counter holds when idle (it does not
   auto-increment), a counter with neither call is free running *)
Theorem counter_end_variants e rv v inc dec load lv :
  2 <= e -> v < e ->
  let nx := fun bi bd =>
    let u := {| cu_inc := bi; cu_dec := bd; cu_scope := 0; cu_ldkind := 1 |} in
    counter_next (counter_cfg_end e rv (counter_never u)) e v
                 (fst (counter_eff u inc dec false)) (snd (counter_eff u inc dec false)) load lv in
  nx true false = (if load then lv else if inc then (v + 1) mod e else v) /\
  nx false true = (if load then lv else if dec then (v + e - 1) mod e else v) /\
  nx true true = counter_spec e v inc dec load lv /\
  nx false false = (if load then lv else (v + 1) mod e).
Proof.
  intros He Hv nx. unfold nx.
  repeat split; rewrite (counter_end_use e rv v _ inc dec false load lv He Hv);
    unfold counter_spec, counter_eff, counter_never; cbn [cu_inc cu_dec cu_scope fst snd andb orb negb];
    destruct load, inc, dec; reflexivity.
Qed.

(* trace level, any usage variant of Counter(size_t end) *)
Fixpoint counter_use_spec_run (e : N) (never : bool) (value : N) (tr : list counter_in) : list (N * bool * bool * bool) :=
  match tr with
  | [] => []
  | i :: r =>
    let nxt := counter_spec e value (ci_inc i || never) (ci_dec i) (ci_load i) (ci_loadv i) in
    (value, value =? e - 1, value =? 0, nxt =? 0) :: counter_use_spec_run e never nxt r
  end.

Theorem counter_end_use_run e rv (u : counter_use) value (raw : list (bool * bool * bool * bool * N)) :
  2 <= e -> value < e -> rv < e ->
  Forall (fun '(_, _, _, _, lv) => lv < e) raw ->
  let c := counter_cfg_end e rv (counter_never u) in
  let tr := map (fun '(inc, dec, en, load, lv) => counter_use_in c u inc dec en load lv e) raw in
  counter_run c value tr = counter_use_spec_run e (counter_never u) value tr.
Proof.
  intros He Hv Hrv Hall c tr. subst tr. revert value Hv.
  induction Hall as [|[[[[inc dec] en] load] lv] raw Hlv Hall IH]; intros value Hv; [reflexivity|].
  cbn [map counter_run counter_use_spec_run]. unfold counter_out.
  set (ci := counter_use_in c u inc dec en load lv e).
  assert (Hend : ci_end ci = e).
  { unfold ci, counter_use_in. destruct (counter_eff u inc dec en). reflexivity. }
  assert (Hstep : counter_next c e value (ci_inc ci) (ci_dec ci) (ci_load ci) (ci_loadv ci)
                  = counter_spec e value (ci_inc ci || counter_never u) (ci_dec ci) (ci_load ci) (ci_loadv ci)).
  { unfold ci, counter_use_in.
    pose proof (counter_end_use e rv value u inc dec en) as H. cbv zeta in H.
    destruct (counter_eff u inc dec en) as [i d]. cbn [ci_inc ci_dec ci_load ci_loadv fst snd] in *.
    apply H; assumption. }
  assert (Hlast : counter_lastv c e = e - 1).
  { unfold c. destruct (counter_never u).
    - pose proof (counter_end_correct e rv value false false false 0 He Hv) as (_ & Hl & _).
      unfold counter_lastv in *. rewrite <- Hl. unfold counter_cfg_end. destruct (is_pow2 e); reflexivity.
    - apply (counter_end_correct e rv value false false false 0 He Hv). }
  rewrite Hend, Hstep, Hlast. f_equal. apply IH.
  apply counter_spec_lt; [lia|exact Hv|].
  unfold ci, counter_use_in. destruct (counter_eff u inc dec en). cbn [ci_loadv].
  destruct (cu_ldkind u) as [|[[|[]|]|[|[]|]|]]; try exact Hlv.
  unfold c, counter_cfg_end. destruct (is_pow2 e); exact Hrv.
Qed.

(* ------------------------------------------------------------------ Adder<UInt> *)
Theorem adder_correct w ops :
  ops <> [] -> Forall (fun a => a < 2 ^ w) ops ->
  adder_run w ops = fold_right N.add 0 ops mod 2 ^ w.
Proof.
  intros Hne Hall. destruct ops as [|a r]; [congruence|]. cbn [adder_run fold_right].
  assert (HM : 2 ^ w <> 0) by (apply N.pow_nonzero; discriminate).
  apply Forall_cons_iff in Hall as [Ha _].
  assert (G : forall l s, fold_left (fun s b => (s + b) mod 2 ^ w) l (s mod 2 ^ w) = (s + fold_right N.add 0 l) mod 2 ^ w).
  { induction l as [|b l IH]; intro s; cbn [fold_left fold_right].
    - rewrite N.add_0_r. reflexivity.
    - rewrite N.add_mod_idemp_l by exact HM. rewrite IH. f_equal. lia. }
  rewrite <- (N.mod_small a (2 ^ w)) at 1 by exact Ha. apply G.
Qed.
