(* C16 -- the packet-level width converters of scl/stream/Packet.h (widthExtend, widthReduce; matchWidth
   is the elaboration-time choice [matchD]) for streams without Empty/EmptyBits:
   * widthExtend: delivered = ppack m r accepted, exactly (a group ends after r beats or at eop; the
     slots above a short group keep their previous contents), unconditional; hold rule conditional on
     the producer's.
   * widthReduce: under the producer-hold hypothesis its run is EVENT-IDENTICAL to the run of utils.h
     reduceWidth (the sentBits bookkeeping register is the counter plus one, eop(out) therefore sits on
     the last slice), so all reduceWidth theorems carry over. *)
From Coq Require Import List NArith Bool Arith Lia.
From Gatery Require Import StreamDefs StreamSpec StreamCompose StreamStages StreamHold.
Import ListNotations.

(* ------------------------------------------------------------------ set_nth *)
Lemma set_nth_twice : forall A n (l : list A) a b, set_nth n (set_nth n l a) b = set_nth n l b.
Proof.
  intros A n; induction n as [|n IH]; intros [|y l] a b; simpl; try reflexivity. now rewrite IH.
Qed.

Lemma set_nth_length : forall A n (l : list A) a, length (set_nth n l a) = length l.
Proof. intros A n; induction n as [|n IH]; intros [|y l] a; simpl; auto. Qed.

(* ------------------------------------------------------------------ the data function of widthExtend *)
(* replay of the slot register over the accepted transfers: state = (counter, slots) *)
Definition pp_step (r : nat) (s : list xfer * (nat * list (list N))) (x : xfer) : list xfer * (nat * list (list N)) :=
  let c := fst (snd s) in let sl := snd (snd s) in
  let sl' := set_nth c sl (xdata x) in
  ((if isLast r c || xeop x then fst s ++ [(concat sl', xeop x, xmeta x)] else fst s),
   ((if xeop x then 0 else cntInc r c), sl')).

Definition ppk (m r : nat) (l : list xfer) := fold_left (pp_step r) l ([], (0, repeat (repeat XD m) r)).
Definition ppack (m r : nat) (l : list xfer) : list xfer := fst (ppk m r l).

Lemma ppk_snoc : forall m r l x, ppk m r (l ++ [x]) = pp_step r (ppk m r l) x.
Proof. intros; unfold ppk; now rewrite fold_left_app. Qed.

Lemma pp_step_eq : forall r o c sl x,
  pp_step r (o, (c, sl)) x =
  if isLast r c || xeop x
  then (o ++ [(concat (set_nth c sl (xdata x)), xeop x, xmeta x)], ((if xeop x then 0 else cntInc r c), set_nth c sl (xdata x)))
  else (o, ((if xeop x then 0 else cntInc r c), set_nth c sl (xdata x))).
Proof. intros; unfold pp_step; cbn [fst snd]. destruct (isLast r c || xeop x); reflexivity. Qed.

Lemma pp_fold_gen : forall r l o st,
  fst (fold_left (pp_step r) l (o, st)) = o ++ fst (fold_left (pp_step r) l ([], st)) /\
  snd (fold_left (pp_step r) l (o, st)) = snd (fold_left (pp_step r) l ([], st)).
Proof.
  intros r l; induction l as [|x l IH]; intros o [c sl].
  - simpl. now rewrite app_nil_r.
  - cbn [fold_left]. rewrite !pp_step_eq.
    destruct (isLast r c || xeop x).
    + cbn [app].
      destruct (IH (o ++ [(concat (set_nth c sl (xdata x)), xeop x, xmeta x)])
                   (if xeop x then 0 else cntInc r c, set_nth c sl (xdata x))) as [H1 H2].
      destruct (IH [(concat (set_nth c sl (xdata x)), xeop x, xmeta x)]
                   (if xeop x then 0 else cntInc r c, set_nth c sl (xdata x))) as [H3 H4].
      rewrite H1, H2, H3, H4. split; [|reflexivity]. now rewrite <- app_assoc.
    + apply IH.
Qed.

Lemma mono_ppack : forall m r, mono (ppack m r).
Proof.
  intros m r l1 l2 [t ->]. unfold ppack, ppk. rewrite fold_left_app.
  destruct (fold_left (pp_step r) l1 ([], (0, repeat (repeat XD m) r))) as [o st] eqn:E. simpl.
  destruct (pp_fold_gen r t o st) as [H _]. rewrite H. apply prefix_app.
Qed.

Lemma ppack_length_snoc : forall m r l x, length (ppack m r (l ++ [x])) <= length (ppack m r l) + 1.
Proof.
  intros. unfold ppack. rewrite ppk_snoc. unfold pp_step. cbn [fst].
  destruct (isLast r _ || xeop x); rewrite ?app_length; simpl; lia.
Qed.

Lemma lip_ppack : forall m r, lip (ppack m r) 1.
Proof.
  intros m r l u. revert l. induction u as [|x u IH] using rev_ind; intros l.
  - rewrite app_nil_r; simpl; lia.
  - rewrite app_assoc. pose proof (ppack_length_snoc m r (l ++ u) x). specialize (IH l).
    rewrite app_length; simpl. lia.
Qed.

(* what ppack means for one packet that fits into one wide beat: k <= r beats, eop on the last only,
   starting with the counter at 0: the leading k slots are the packet, eop and meta of its last beat *)
Lemma ppack_snoc : forall m r l x,
  ppack m r (l ++ [x]) =
  let c := fst (snd (ppk m r l)) in let sl := snd (snd (ppk m r l)) in
  if isLast r c || xeop x then ppack m r l ++ [(concat (set_nth c sl (xdata x)), xeop x, xmeta x)] else ppack m r l.
Proof. intros. unfold ppack. rewrite ppk_snoc. unfold pp_step. cbn [fst snd]. destruct (isLast r _ || xeop x); reflexivity. Qed.

(* packet boundaries survive: every accepted eop yields exactly one delivered record carrying eop (and that beat's meta
   word), in order; records without eop are delivered only for full groups *)
Lemma ppack_keeps_eops : forall m r l,
  map xmeta (filter xeop (ppack m r l)) = map xmeta (filter xeop l).
Proof.
  intros m r l. induction l as [|x l IH] using rev_ind; [reflexivity|].
  rewrite ppack_snoc. cbv zeta.
  assert (F : forall (d : list N) (e : bool) (mm : N), filter xeop [(d, e, mm)] = if e then [(d, e, mm)] else []).
  { intros d e mm. simpl. unfold xeop. simpl. reflexivity. }
  rewrite (filter_app xeop l [x]), map_app. simpl (filter xeop [x]).
  destruct (xeop x) eqn:E.
  - rewrite orb_true_r, filter_app, map_app, F, IH. reflexivity.
  - rewrite orb_false_r. simpl. rewrite app_nil_r. destruct (isLast r _).
    + rewrite filter_app, map_app, F, IH. simpl. now rewrite app_nil_r.
    + exact IH.
Qed.

(* ------------------------------------------------------------------ widthExtend: transfers *)
Section PExtend.
Variables m r : nat.

Definition pext_inv (cs : list cyc) : Prop :=
  let s := after (pextendS m r) cs in
  let tr := trace (pextendS m r) cs in
  let k := ppk m r (Tin tr) in
  Tout tr = fst k /\ fst s = fst (snd k) /\
  (forall d, set_nth (fst s) (snd s) d = set_nth (fst s) (snd (snd k)) d).

Lemma pext_inv_all : forall cs, pext_inv cs.
Proof.
  induction cs as [|c cs IH] using rev_ind.
  - unfold pext_inv, trace, after; simpl. repeat split.
  - unfold pext_inv in *. rewrite trace_snoc, after_snoc, Tin_snoc, Tout_snoc.
    destruct IH as (I1 & I2 & I3).
    set (s := after (pextendS m r) cs) in *. set (tr := trace (pextendS m r) cs) in *.
    destruct s as [cnt sl]. destruct c as [ctl b rdy]. simpl in I2, I3.
    unfold xin, xout, evAt, stepS; simpl.
    destruct (bvalid b) eqn:Eb; simpl.
    2:{ rewrite !app_nil_r. repeat split; try assumption. intro d. rewrite set_nth_twice. apply I3. }
    destruct (isLast r cnt || beop b) eqn:El; simpl.
    + destruct rdy; simpl.
      * rewrite ppk_snoc. unfold pp_step. cbn [fst snd]. rewrite <- I2.
        unfold xf at 1 2 3; unfold xeop, xdata, xmeta; simpl. rewrite El. simpl.
        repeat split.
        -- rewrite I1. f_equal. f_equal. unfold xf; simpl. now rewrite I3.
        -- intro d. now rewrite I3.
      * rewrite !app_nil_r. repeat split; try assumption. intro d. rewrite set_nth_twice. apply I3.
    + rewrite app_nil_r. rewrite ppk_snoc. unfold pp_step. cbn [fst snd]. rewrite <- I2.
      unfold xf at 1 2 3; unfold xeop, xdata, xmeta; simpl. rewrite El. simpl.
      apply orb_false_elim in El. destruct El as [El1 El2]. rewrite El2.
      repeat split.
      * exact I1.
      * intro d. now rewrite I3.
Qed.

Lemma pextend_transfers_eq : forall cs, Tout (trace (pextendS m r) cs) = ppack m r (Tin (trace (pextendS m r) cs)).
Proof. intro cs; apply (pext_inv_all cs). Qed.

Lemma pextend_Good : Good (pextendS m r) ETrue (ppack m r) 0 /\ Strong (pextendS m r) ETrue (ppack m r).
Proof.
  repeat split.
  - intros cs c _. destruct (pext_inv_all cs) as (I1 & I2 & I3).
    set (s := after (pextendS m r) cs) in *. set (tr := trace (pextendS m r) cs) in *.
    destruct s as [cnt sl]. destruct c as [ctl b rdy]. simpl in I2, I3.
    unfold offin, offout, evAt; simpl.
    destruct (bvalid b) eqn:Eb; simpl.
    2:{ rewrite !app_nil_r, I1. apply prefix_refl. }
    rewrite ppack_snoc. cbv zeta. rewrite <- I2. unfold xf at 1 2; unfold xeop, xdata, xmeta; simpl.
    destruct (isLast r cnt || beop b); simpl.
    + unfold ppack. rewrite I1. unfold xf; simpl. rewrite I3. apply prefix_refl.
    + rewrite app_nil_r. unfold ppack. rewrite I1. apply prefix_refl.
  - intros cs _. rewrite pextend_transfers_eq. lia.
  - intros cs _. rewrite pextend_transfers_eq. apply prefix_refl.
Qed.

Lemma pextend_HoldC : HoldC (pextendS m r) (QTrue _).
Proof.
  intros [cnt sl] [ctl1 b1 r1] [ctl2 b2 r2] _; unfold outhold2, inhold2, hold2, evAt, stepS; simpl.
  intros HI Hv Hr. subst r1. apply andb_prop in Hv. destruct Hv as [Hv Hl].
  rewrite Hl in *. simpl in *. rewrite Hv in *. simpl in *.
  destruct (HI eq_refl eq_refl) as [Hv2 Hx]. rewrite Hv2.
  unfold xf in *; simpl in *. injection Hx as -> -> ->. rewrite Hl. simpl. split; [reflexivity|].
  now rewrite set_nth_twice.
Qed.
End PExtend.

(* ------------------------------------------------------------------ widthReduce = reduceWidth under hold *)
Section PReduce.
Variable r : nat.
Hypothesis Hr : 1 <= r.

Lemma leb_isLast : forall c, c < r -> Nat.leb r (S c) = isLast r c.
Proof.
  intros c Hc. unfold isLast. destruct (Nat.eqb c (pred r)) eqn:E.
  - apply Nat.eqb_eq in E. apply Nat.leb_le. lia.
  - apply Nat.eqb_neq in E. apply Nat.leb_gt. lia.
Qed.

Lemma pred_ev_eq : forall c x, c < r -> evAt (preduceS r) (c, S c) x = evAt (reduceS r) c x.
Proof.
  intros c [ctl b rdy] Hc. unfold evAt; simpl. rewrite (leb_isLast c Hc).
  f_equal. destruct (isLast r c), (beop b), rdy; reflexivity.
Qed.

Lemma app_inj_tail2 : forall A (a b : list A) x y, a ++ [x] = b ++ [y] -> a = b /\ x = y.
Proof. intros; now apply app_inj_tail. Qed.

Lemma pre_red_sim : forall cs, EHold (preduceS r) cs ->
  trace (preduceS r) cs = trace (reduceS r) cs /\
  after (preduceS r) cs = (after (reduceS r) cs, S (after (reduceS r) cs)).
Proof.
  induction cs as [|c cs IH] using rev_ind; intro HE.
  - split; reflexivity.
  - assert (HE' : EHold (preduceS r) cs).
    { unfold EHold in *. rewrite trace_snoc in HE. unfold inW in HE. rewrite map_app in HE. eapply holdW_app_l, HE. }
    destruct (IH HE') as [T A].
    assert (HR : EHold (reduceS r) cs) by (unfold EHold; rewrite <- T; exact HE').
    destruct (red_inv_all r Hr cs HR) as (I1 & pend & I2 & I3 & I4).
    set (cnt := after (reduceS r) cs) in *.
    assert (EV : evAt (preduceS r) (after (preduceS r) cs) c = evAt (reduceS r) cnt c).
    { rewrite A. apply pred_ev_eq, I1. }
    split.
    + rewrite !trace_snoc, T. f_equal. f_equal. exact EV.
    + rewrite !after_snoc, A. fold cnt.
      (* an idle producer is only possible with nothing pending *)
      assert (HP : 0 < cnt -> bvalid (c_in c) = true).
      { intro Hc. destruct (I4 Hc) as (cs' & c1 & Ecs & Hv & Hr1 & _). subst cs.
        assert (E1 : evAt (preduceS r) (after (preduceS r) cs') c1 = evAt (reduceS r) (after (reduceS r) cs') c1).
        { rewrite !trace_snoc in T. apply app_inj_tail2 in T. apply T. }
        unfold EHold in HE. rewrite inW_snoc2 in HE. apply holdW_snoc2 in HE. unfold hold2 in HE. cbn [fst snd] in HE.
        rewrite E1 in HE. destruct (HE Hv Hr1) as [Hv2 _]. exact Hv2. }
      destruct c as [ctl b rdy]. unfold stepS; simpl. simpl in HP.
      rewrite (leb_isLast cnt I1).
      destruct (bvalid b) eqn:Eb; simpl.
      2:{ assert (cnt = 0) by (destruct (Nat.eq_dec cnt 0); [assumption| specialize (HP ltac:(lia)); discriminate]).
          rewrite H. reflexivity. }
      destruct rdy; simpl; [|reflexivity].
      unfold cntInc. destruct (isLast r cnt) eqn:El; simpl.
      * destruct (beop b); reflexivity.
      * rewrite andb_false_r. simpl. reflexivity.
Qed.

Lemma preduce_EHold : forall cs, EHold (preduceS r) cs -> EHold (reduceS r) cs.
Proof. intros cs HE. unfold EHold. rewrite <- (proj1 (pre_red_sim cs HE)). exact HE. Qed.

Lemma preduce_ev_snoc : forall cs c, EHold (preduceS r) (cs ++ [c]) ->
  evAt (preduceS r) (after (preduceS r) cs) c = evAt (reduceS r) (after (reduceS r) cs) c.
Proof.
  intros cs c HE. destruct (pre_red_sim _ HE) as [T _]. rewrite !trace_snoc in T.
  apply app_inj_tail2 in T. apply T.
Qed.

Lemma preduce_Good : Good (preduceS r) (EHold (preduceS r)) (unpack r) 0.
Proof.
  destruct (reduce_Good r Hr) as [S L]. split.
  - intros cs c HE.
    assert (HE' : EHold (preduceS r) cs).
    { unfold EHold in *. rewrite trace_snoc in HE. unfold inW in HE. rewrite map_app in HE. eapply holdW_app_l, HE. }
    rewrite (proj1 (pre_red_sim cs HE')), (preduce_ev_snoc cs c HE). apply S, preduce_EHold, HE.
  - intros cs HE. rewrite (proj1 (pre_red_sim cs HE)). apply L, preduce_EHold, HE.
Qed.

Lemma preduce_transfers_eq : forall cs, EHold (preduceS r) cs ->
  exists pend, Tout (trace (preduceS r) cs) = unpack r (Tin (trace (preduceS r) cs)) ++ pend /\ length pend < r.
Proof.
  intros cs HE. rewrite (proj1 (pre_red_sim cs HE)). apply reduce_transfers_eq; [exact Hr | apply preduce_EHold, HE].
Qed.

(* the bookkeeping register: sentBits / bitsPerBeatOut = counter + 1 in every reachable state *)
Lemma preduce_sentBits : forall cs, EHold (preduceS r) cs ->
  snd (after (preduceS r) cs) = S (fst (after (preduceS r) cs)) /\ fst (after (preduceS r) cs) < r.
Proof.
  intros cs HE. destruct (pre_red_sim cs HE) as [_ A]. rewrite A. simpl. split; [reflexivity|].
  apply (red_inv_all r Hr cs (preduce_EHold cs HE)).
Qed.
End PReduce.

Lemma preduce_HoldC : forall r, HoldC (preduceS r) (QTrue _).
Proof.
  intros r [cnt q] [ctl1 b1 r1] [ctl2 b2 r2] _; unfold outhold2, inhold2, hold2, evAt, stepS; simpl.
  intros HI Hv Hr. subst r1. rewrite Hv in *. simpl in *.
  assert (Hrin : (if isLast r cnt || beop b1 && Nat.leb r q then false else false) = false) by (destruct (_ || _); reflexivity).
  destruct (HI eq_refl Hrin) as [Hv2 Hx]. split; [exact Hv2|].
  unfold xf in *; simpl in *. injection Hx as -> -> ->. reflexivity.
Qed.
