(* C05 -- conditional scopes and assignments of the gatery frontend.

   Two semantics of one small program language:

   (i)  [run_block]  : the obvious sequential interpreter on concrete (four-state)
                       values; IF/ELSEIF/ELSE are ordinary software conditionals.
   (ii) [elab_block] : what the C++ frontend does when the same program is executed
                       as a *circuit description*: every statement only adds nodes to a
                       graph; the bookkeeping state is transcribed from

         frontend/ConditionalScope.cpp  ctor(IF) / ctor(ElseCase) / ctor(ElseCase,cond),
                                        setCondition, dtor, static m_lastCondition, s_nextId
         frontend/Signal.cpp            ElementarySignal(): m_initialScopeId
         frontend/BitVector.cpp         BaseBitVector::assign  (scope id test, 2-input mux)
         frontend/Bit.cpp               Bit::assign            (same, plus signal_in node)
         frontend/BitVectorSlice.cpp    BitVectorSlice::assign, BitVectorSliceStatic /
                                        BitVectorSliceDynamic::assignLocal, replaceSelection
         hlim/coreNodes/Node_Multiplexer.cpp, Node_Rewire.cpp, Node_Logic.cpp,
         Node_Arithmetic.cpp, Node_Compare.cpp   simulateEvaluate (node semantics)

   The result of (ii) is a node table (a DAG: operands are indices of earlier nodes) which
   [eval_all] evaluates under an input valuation.  No proofs in this file. *)
From Gatery Require Import Bits.
Import ListNotations.

Definition sig := nat.   (* program variable (a frontend UInt / Bit object) *)
Definition nid := nat.   (* node index in the elaborated graph *)

(* ------------------------------------------------------------------------- *)
(** * Four-state value level operations (shared by both semantics)            *)
(* ------------------------------------------------------------------------- *)

Definition tnot (a : tbit) : tbit := match a with B0 => B1 | B1 => B0 | BX => BX end.
(* Node_Logic: a defined 0 dominates AND, a defined 1 dominates OR *)
Definition tand (a b : tbit) : tbit :=
  match a, b with B0, _ => B0 | _, B0 => B0 | B1, B1 => B1 | _, _ => BX end.
Definition tor (a b : tbit) : tbit :=
  match a, b with B1, _ => B1 | _, B1 => B1 | B0, B0 => B0 | _, _ => BX end.
Definition txor (a b : tbit) : tbit :=
  match a, b with
  | BX, _ | _, BX => BX
  | _, _ => of_bool (xorb (bit_val a) (bit_val b))
  end.

Fixpoint map2 {A B C} (f : A -> B -> C) (l1 : list A) (l2 : list B) : list C :=
  match l1, l2 with
  | a :: r1, b :: r2 => f a b :: map2 f r1 r2
  | _, _ => []
  end.

Definition bv_not (a : bv) : bv := map tnot a.
Definition bv_and (a b : bv) : bv := map2 tand a b.
Definition bv_or (a b : bv) : bv := map2 tor a b.
Definition bv_xor (a b : bv) : bv := map2 txor a b.

(* Node_Arithmetic ADD: all-or-nothing definedness, result modulo 2^width(left) *)
Definition bv_add (a b : bv) : bv :=
  match bv_val a, bv_val b with
  | Some x, Some y => bv_of_N (length a) (x + y)
  | _, _ => all_X (length a)
  end.

(* Node_Compare EQ: one BOOL bit, all-or-nothing; zero width operands compare equal *)
Definition bv_eq (a b : bv) : bv :=
  match bv_val a, bv_val b with
  | Some x, Some y => [of_bool (N.eqb x y)]
  | _, _ => [BX]
  end.

(* Node_Rewire::setExtract(off, w): the part inside the source, then CONST_UNDEFINED padding *)
Definition extract_sem (v : bv) (off w : nat) : bv :=
  let inr := firstn w (skipn off v) in inr ++ all_X (w - length inr).

(* BitVectorSlice.cpp replaceSelection(off, w, |cur|):
     input0[0,off) ++ input1[0, min(w, |cur|-off)) ++ input0[off+w, |cur|)           *)
Definition replace_sem (cur new : bv) (off w : nat) : bv :=
  firstn off cur ++ firstn (Nat.min w (length cur - off)) new ++ skipn (off + w) cur.

(* Node_Multiplexer: undefined selector => bitwise merge of all data inputs
   (a bit stays defined iff it is defined and equal in every input);
   defined selector >= #inputs => all undefined; otherwise copy.                *)
Definition tmerge (a b : tbit) : tbit := if tbit_eqb a b then a else BX.
Definition merge2 (x y : bv) : bv := map2 tmerge x y.
Definition merge_all (ins : list bv) : bv :=
  match ins with [] => [] | x :: r => fold_left merge2 r x end.

Definition mux_sem (sel : bv) (ins : list bv) : bv :=
  if all_def sel then
    match bv_val sel with
    | Some k => nth (N.to_nat k) ins (all_X (length (hd [] ins)))
    | None => all_X (length (hd [] ins))
    end
  else merge_all ins.

(* The scope bookkeeping logic (AND with the parent's full condition, NOT / OR / AND of the
   ELSE / ELSEIF constructors) works on BOOL typed ports.  The model reads such a port as a
   single four-state bit; on width-1 values this coincides with bv_and/bv_or/bv_not
   (lemma [cand_is_bv_and] & co in FrontendProofs). *)
Definition bit_of (v : bv) : tbit := match v with [b] => b | _ => BX end.
Definition cand (a b : bv) : bv := [tand (bit_of a) (bit_of b)].
Definition cor (a b : bv) : bv := [tor (bit_of a) (bit_of b)].
Definition cnot (a : bv) : bv := [tnot (bit_of a)].

(* a condition as software sees it *)
Definition cond_val (v : bv) : option bool :=
  match v with [B1] => Some true | [B0] => Some false | _ => None end.

(* ------------------------------------------------------------------------- *)
(** * Programs                                                                *)
(* ------------------------------------------------------------------------- *)

Inductive expr :=
| EIn (i : nat)                      (* input pin i *)
| EConst (v : bv)                    (* literal, may contain X *)
| ESig (x : sig)                     (* current value of a variable *)
| ENot (a : expr)
| EAnd (a b : expr)
| EOr (a b : expr)
| EXor (a b : expr)
| EAdd (a b : expr)
| EEq (a b : expr)
| ESlice (a : expr) (off w : nat)    (* a(off, w_b)  /  a[off] when w = 1 *)
| EDynSlice (a idx : expr) (idxw w : nat)      (* a(idx, w_b)         read through BitVectorSliceDynamic::readPort *)
| EDynBit (a idx : expr) (idxw pw : nat)       (* a[idx], |a| = pw *)
| EDynPart (a idx : expr) (parts pw : nat).    (* a.part(parts, idx), |a| = pw *)

(* one level of an assignment target  x(..)(..)[..] = rhs *)
Inductive sel :=
| SStatic (off w : nat)                      (* x(off, w_b)             BitVectorSliceStatic *)
| SBit (i : nat)                             (* x[i]                    BitVectorSliceStatic, Bit alias *)
| SDynSlice (idx : expr) (idxw w : nat)      (* x(idx, w_b)             BitVectorSliceDynamic(idx, idx.width().last(), 1, w) *)
| SDynBit (idx : expr) (idxw pw : nat)       (* x[idx], |x| = pw        BitVectorSliceDynamic(idx, min(pw-1, idx.width().last()), 1, 1) *)
| SDynPart (idx : expr) (parts pw : nat).    (* x.part(parts, idx)      BitVectorSliceDynamic(idx, parts-1, pw/parts, pw/parts) *)

Inductive stmt :=
| Decl (x : sig) (isbit : bool) (e : expr)          (* UInt x = e;  /  Bit x = e;   (new C++ variable, shadows) *)
| Assign (x : sig) (p : list sel) (e : expr)        (* x p1 p2 .. = e;  p = [] is a plain assignment *)
| Read (t : nat) (x : sig)                          (* snapshot of x at this program point *)
| If (c : expr) (th : block) (ch : chain)           (* IF (c) { th } ch *)
with block :=
| BNil
| BCons (s : stmt) (b : block)
with chain :=
| CEnd
| CElse (b : block)                                 (* ELSE { b } *)
| CElseIf (c : expr) (b : block) (ch : chain)       (* ELSEIF (c) { b } ch *)
| CElseSp (c : expr) (b : block) (ch : chain).      (* ELSE IF (c) { b } ch   -- with a space: by the macros an IF
                                                       scope nested in an ELSE scope (dangling-else idiom); the
                                                       destructor of ConditionalScope has a special case for it *)

(* The brief's presentation  If c then_s (list (c * s)) (option else_s)  *)
Fixpoint mk_chain (elifs : list (expr * block)) (els : option block) : chain :=
  match elifs with
  | [] => match els with Some b => CElse b | None => CEnd end
  | (c, b) :: r => CElseIf c b (mk_chain r els)
  end.
Definition mk_if (c : expr) (th : block) (elifs : list (expr * block)) (els : option block) : stmt :=
  If c th (mk_chain elifs els).
Fixpoint block_of (l : list stmt) : block :=
  match l with [] => BNil | s :: r => BCons s (block_of r) end.

(* the statement forms of DESIGN.md section 6 as instances of [Assign] *)
Definition AssignFull (x : sig) (rhs : expr) : stmt := Assign x [] rhs.                           (* x = rhs *)
Definition AssignSlice (x : sig) (off w : nat) (rhs : expr) : stmt := Assign x [SStatic off w] rhs. (* x(off, w_b) = rhs *)
Definition AssignBit (x : sig) (i : nat) (rhs : expr) : stmt := Assign x [SBit i] rhs.              (* x[i] = rhs *)
Definition AssignDyn (x : sig) (idx : expr) (idxw w : nat) (rhs : expr) : stmt :=
  Assign x [SDynSlice idx idxw w] rhs.                                                              (* x(idx, w_b) = rhs *)

(* static parameters of a dynamic slice exactly as the C++ computes them:
   (maxDynamicIndex, offsetMul, width) *)
Definition dyn_slice_params (idxw w : nat) : nat * nat * nat := (2 ^ idxw - 1, 1, w).
Definition dyn_bit_params (idxw pw : nat) : nat * nat * nat := (Nat.min (pw - 1) (2 ^ idxw - 1), 1, 1).
Definition dyn_part_params (parts pw : nat) : nat * nat * nat := (parts - 1, pw / parts, pw / parts).

(* ------------------------------------------------------------------------- *)
(** * (i) The sequential interpreter                                          *)
(* ------------------------------------------------------------------------- *)

Definition env := list (sig * bv).     (* innermost declaration first *)

Fixpoint lookup {A} (x : sig) (l : list (sig * A)) : option A :=
  match l with
  | [] => None
  | (y, a) :: r => if Nat.eqb x y then Some a else lookup x r
  end.

Fixpoint update {A} (x : sig) (a : A) (l : list (sig * A)) : list (sig * A) :=
  match l with
  | [] => []
  | (y, b) :: r => if Nat.eqb x y then (y, a) :: r else (y, b) :: update x a r
  end.

(* the last n elements: leaving a C++ block destroys the variables declared in it *)
Definition lastn {A} (n : nat) (l : list A) : list A := skipn (length l - n) l.

(* a dynamic read selects among the maxIdx+1 static positions with the index value AT THIS PROGRAM
   POINT; index above maxIdx => undefined, undefined index => merge (the multiplexer's semantics) *)
Definition dyn_read (av iv : bv) (prm : nat * nat * nat) : bv :=
  let '(maxi, mul, w) := prm in
  mux_sem iv (map (fun k => extract_sem av (k * mul) w) (seq 0 (S maxi))).

Section WithInputs.
Variable inp : list bv.                (* input pin valuation *)

Fixpoint eval_expr (E : env) (e : expr) : bv :=
  match e with
  | EIn i => nth i inp []
  | EConst v => v
  | ESig x => match lookup x E with Some v => v | None => [] end
  | ENot a => bv_not (eval_expr E a)
  | EAnd a b => bv_and (eval_expr E a) (eval_expr E b)
  | EOr a b => bv_or (eval_expr E a) (eval_expr E b)
  | EXor a b => bv_xor (eval_expr E a) (eval_expr E b)
  | EAdd a b => bv_add (eval_expr E a) (eval_expr E b)
  | EEq a b => bv_eq (eval_expr E a) (eval_expr E b)
  | ESlice a off w => extract_sem (eval_expr E a) off w
  | EDynSlice a idx idxw w => dyn_read (eval_expr E a) (eval_expr E idx) (dyn_slice_params idxw w)
  | EDynBit a idx idxw pw => dyn_read (eval_expr E a) (eval_expr E idx) (dyn_bit_params idxw pw)
  | EDynPart a idx parts pw => dyn_read (eval_expr E a) (eval_expr E idx) (dyn_part_params parts pw)
  end.

(* write [new] into the part of [cur] selected by the path.  A dynamic level selects among
   the maxIdx+1 static positions; an index above maxIdx makes the whole value at that level
   undefined, an undefined index merges the candidates -- both exactly what the
   multiplexer built by the frontend evaluates to ([mux_sem]). *)
Definition dyn_write (cur : bv) (iv : bv) (prm : nat * nat * nat) (inner : bv -> bv) : bv :=
  let '(maxi, mul, w) := prm in
  mux_sem iv (map (fun k => replace_sem cur (inner (extract_sem cur (k * mul) w)) (k * mul) w)
                  (seq 0 (S maxi))).

Fixpoint write_path (E : env) (p : list sel) (new : bv) (cur : bv) : bv :=
  match p with
  | [] => new
  | SStatic off w :: p' => replace_sem cur (write_path E p' new (extract_sem cur off w)) off w
  | SBit i :: p' => replace_sem cur (write_path E p' new (extract_sem cur i 1)) i 1
  | SDynSlice idx idxw w :: p' =>
      dyn_write cur (eval_expr E idx) (dyn_slice_params idxw w) (write_path E p' new)
  | SDynBit idx idxw pw :: p' =>
      dyn_write cur (eval_expr E idx) (dyn_bit_params idxw pw) (write_path E p' new)
  | SDynPart idx parts pw :: p' =>
      dyn_write cur (eval_expr E idx) (dyn_part_params parts pw) (write_path E p' new)
  end.

Definition rdval := (nat * bv)%type.   (* (tmp, value seen) *)

(* None = the software run evaluates a condition that is not a defined single bit *)
Fixpoint run_stmt (s : stmt) (E : env) : option (env * list rdval) :=
  match s with
  | Decl x _ e => Some ((x, eval_expr E e) :: E, [])
  | Assign x p e =>
      match lookup x E with
      | Some cur => Some (update x (write_path E p (eval_expr E e) cur) E, [])
      | None => Some (E, [])
      end
  | Read t x => Some (E, [(t, match lookup x E with Some v => v | None => [] end)])
  | If c th ch =>
      match cond_val (eval_expr E c) with
      | None => None
      | Some true =>
          match run_block th E with
          | Some (E', r) => Some (lastn (length E) E', r)
          | None => None
          end
      | Some false => run_chain ch E
      end
  end
with run_block (b : block) (E : env) : option (env * list rdval) :=
  match b with
  | BNil => Some (E, [])
  | BCons s b' =>
      match run_stmt s E with
      | Some (E1, r1) =>
          match run_block b' E1 with
          | Some (E2, r2) => Some (E2, r1 ++ r2)
          | None => None
          end
      | None => None
      end
  end
with run_chain (ch : chain) (E : env) : option (env * list rdval) :=
  match ch with
  | CEnd => Some (E, [])
  | CElse b =>
      match run_block b E with
      | Some (E', r) => Some (lastn (length E) E', r)
      | None => None
      end
  | CElseIf c b ch' =>
      match cond_val (eval_expr E c) with
      | None => None
      | Some true =>
          match run_block b E with
          | Some (E', r) => Some (lastn (length E) E', r)
          | None => None
          end
      | Some false => run_chain ch' E
      end
  | CElseSp c b ch' =>
      match cond_val (eval_expr E c) with
      | None => None
      | Some true =>
          match run_block b E with
          | Some (E', r) => Some (lastn (length E) E', r)
          | None => None
          end
      | Some false => run_chain ch' E
      end
  end.

End WithInputs.

(* ------------------------------------------------------------------------- *)
(** * The elaborated graph                                                    *)
(* ------------------------------------------------------------------------- *)

Inductive gnode :=
| NIn (i : nat)                              (* Node_Pin (input) *)
| NConst (v : bv)                            (* Node_Constant *)
| NSig (a : nid)                             (* Node_Signal: identity *)
| NNot (a : nid)                             (* Node_Logic on vectors *)
| NAnd (a b : nid)
| NOr (a b : nid)
| NXor (a b : nid)
| NAdd (a b : nid)                           (* Node_Arithmetic ADD *)
| NEq (a b : nid)                            (* Node_Compare EQ *)
| NExtract (a : nid) (off w : nat)           (* Node_Rewire setExtract *)
| NReplace (cur new : nid) (off w : nat)     (* Node_Rewire replaceSelection *)
| NMux (sel : nid) (ins : list nid)          (* Node_Multiplexer *)
| NCNot (a : nid)                            (* Node_Logic on BOOL ports created by ConditionalScope *)
| NCAnd (a b : nid)
| NCOr (a b : nid).

Definition getv (vs : list bv) (n : nid) : bv := nth n vs [].

Definition eval_node (inp : list bv) (vs : list bv) (n : gnode) : bv :=
  match n with
  | NIn i => nth i inp []
  | NConst v => v
  | NSig a => getv vs a
  | NNot a => bv_not (getv vs a)
  | NAnd a b => bv_and (getv vs a) (getv vs b)
  | NOr a b => bv_or (getv vs a) (getv vs b)
  | NXor a b => bv_xor (getv vs a) (getv vs b)
  | NAdd a b => bv_add (getv vs a) (getv vs b)
  | NEq a b => bv_eq (getv vs a) (getv vs b)
  | NExtract a off w => extract_sem (getv vs a) off w
  | NReplace c n off w => replace_sem (getv vs c) (getv vs n) off w
  | NMux s ins => mux_sem (getv vs s) (map (getv vs) ins)
  | NCNot a => cnot (getv vs a)
  | NCAnd a b => cand (getv vs a) (getv vs b)
  | NCOr a b => cor (getv vs a) (getv vs b)
  end.

(* nodes are evaluated in creation order; node k only sees nodes < k *)
Definition eval_all (inp : list bv) (G : list gnode) : list bv :=
  fold_left (fun vs n => vs ++ [eval_node inp vs n]) G [].

(* ------------------------------------------------------------------------- *)
(** * (ii) Elaboration                                                        *)
(* ------------------------------------------------------------------------- *)

(* one live ConditionalScope object *)
Record scope := mkScope {
  sc_id : nat;                    (* m_id *)
  sc_cond : nid;                  (* m_condition *)
  sc_full : nid;                  (* m_fullCondition *)
  sc_loe : option nid;            (* m_lastConditionOnEntry (ELSE only) *)
  sc_comb : option nid            (* m_combinedelseChainConditon (ELSEIF only) *)
}.

(* one live frontend signal object *)
Record sigrec := mkSig {
  sr_drv : nid;                   (* rawDriver(): what m_node is currently driven by *)
  sr_isc : nat;                   (* m_initialScopeId *)
  sr_bit : bool                   (* Bit (true) or UInt (false) *)
}.

(* a recorded snapshot: (tmp, node read, full condition of the enclosing scope if any) *)
Record rd := mkRd { rd_tmp : nat; rd_node : nid; rd_guard : option nid }.

Record est := mkSt {
  eG : list gnode;                (* the circuit *)
  eNext : nat;                    (* static s_nextId *)
  eLast : option nid;             (* static m_lastCondition (None = null NodePort) *)
  eStack : list scope;            (* m_currentScope and its m_parentScope chain, innermost first *)
  eSigs : list (sig * sigrec);    (* C++ variables in scope, innermost first *)
  eReads : list rd
}.

Definition set_G (st : est) (G : list gnode) : est :=
  mkSt G (eNext st) (eLast st) (eStack st) (eSigs st) (eReads st).
Definition set_sigs (st : est) (S : list (sig * sigrec)) : est :=
  mkSt (eG st) (eNext st) (eLast st) (eStack st) S (eReads st).
Definition set_last (st : est) (l : option nid) : est :=
  mkSt (eG st) (eNext st) l (eStack st) (eSigs st) (eReads st).

(* DesignScope::createNode: append, the new node's index is the old length *)
Definition emit (G : list gnode) (n : gnode) : nid * list gnode := (length G, G ++ [n]).

(* BitVectorSliceDynamic::readPort: one Rewire(setExtract(k*mul, w)) per position, then the multiplexer *)
Fixpoint emit_extracts (a : nid) (mul w : nat) (ks : list nat) (G : list gnode) : list nid * list gnode :=
  match ks with
  | [] => ([], G)
  | k :: ks' =>
      let (ex, G1) := emit G (NExtract a (k * mul) w) in
      let (os, G2) := emit_extracts a mul w ks' G1 in
      (ex :: os, G2)
  end.

Definition elab_dyn_read (na ni : nid) (prm : nat * nat * nat) (G : list gnode) : nid * list gnode :=
  let '(maxi, mul, w) := prm in
  let (opts, G1) := emit_extracts na mul w (seq 0 (S maxi)) G in
  emit G1 (NMux ni opts).

Fixpoint elab_expr (S : list (sig * sigrec)) (e : expr) (G : list gnode) : nid * list gnode :=
  match e with
  | EIn i => emit G (NIn i)
  | EConst v => emit G (NConst v)
  | ESig x => match lookup x S with
              | Some r => (sr_drv r, G)               (* readPort(): the current driver, no new node *)
              | None => emit G (NConst [])
              end
  | ENot a => let (na, G1) := elab_expr S a G in emit G1 (NNot na)
  | EAnd a b => let (na, G1) := elab_expr S a G in let (nb, G2) := elab_expr S b G1 in emit G2 (NAnd na nb)
  | EOr a b => let (na, G1) := elab_expr S a G in let (nb, G2) := elab_expr S b G1 in emit G2 (NOr na nb)
  | EXor a b => let (na, G1) := elab_expr S a G in let (nb, G2) := elab_expr S b G1 in emit G2 (NXor na nb)
  | EAdd a b => let (na, G1) := elab_expr S a G in let (nb, G2) := elab_expr S b G1 in emit G2 (NAdd na nb)
  | EEq a b => let (na, G1) := elab_expr S a G in let (nb, G2) := elab_expr S b G1 in emit G2 (NEq na nb)
  | ESlice a off w => let (na, G1) := elab_expr S a G in emit G1 (NExtract na off w)
  (* the index port is idx.readPort() when the alias is created: the index's value at this program point *)
  | EDynSlice a idx idxw w =>
      let (na, G1) := elab_expr S a G in let (ni, G2) := elab_expr S idx G1 in
      elab_dyn_read na ni (dyn_slice_params idxw w) G2
  | EDynBit a idx idxw pw =>
      let (na, G1) := elab_expr S a G in let (ni, G2) := elab_expr S idx G1 in
      elab_dyn_read na ni (dyn_bit_params idxw pw) G2
  | EDynPart a idx parts pw =>
      let (na, G1) := elab_expr S a G in let (ni, G2) := elab_expr S idx G1 in
      elab_dyn_read na ni (dyn_part_params parts pw) G2
  end.

(* an assignment target level after its index expression has been elaborated
   (BitVectorSliceDynamic's constructor stores idx.readPort()) *)
Inductive gsel :=
| GStatic (off w : nat)
| GDyn (idx : nid) (prm : nat * nat * nat).

Fixpoint elab_sels (S : list (sig * sigrec)) (p : list sel) (G : list gnode) : list gsel * list gnode :=
  match p with
  | [] => ([], G)
  | s :: p' =>
      match s with
      | SStatic off w => let (r, G1) := elab_sels S p' G in (GStatic off w :: r, G1)
      | SBit i => let (r, G1) := elab_sels S p' G in (GStatic i 1 :: r, G1)
      | SDynSlice idx idxw w =>
          let (ni, G1) := elab_expr S idx G in
          let (r, G2) := elab_sels S p' G1 in (GDyn ni (dyn_slice_params idxw w) :: r, G2)
      | SDynBit idx idxw pw =>
          let (ni, G1) := elab_expr S idx G in
          let (r, G2) := elab_sels S p' G1 in (GDyn ni (dyn_bit_params idxw pw) :: r, G2)
      | SDynPart idx parts pw =>
          let (ni, G1) := elab_expr S idx G in
          let (r, G2) := elab_sels S p' G1 in (GDyn ni (dyn_part_params parts pw) :: r, G2)
      end
  end.

(* BitVectorSlice::assign: the chain of assignLocal calls, outermost slice first.
   Static level:   extract = Rewire(cur).setExtract(off,w);
                   result  = Rewire(cur, child(extract)).setOp(replaceSelection(off,w,|cur|))
   Dynamic level:  the same for every i in 0..maxIdx at offset i*mul, then a multiplexer
                   with maxIdx+1 inputs selected by the stored index port.
   (The C++ creates the multiplexer node before its inputs; operand structure is identical.) *)
Section DynOpts.
  Variable ew : nid -> list gnode -> nid * list gnode.   (* the child assignment *)
  Variables (cur : nid) (mul w : nat).
  Fixpoint dyn_opts (ks : list nat) (G : list gnode) : list nid * list gnode :=
    match ks with
    | [] => ([], G)
    | k :: ks' =>
        let (ex, Gb) := emit G (NExtract cur (k * mul) w) in
        let (r, Gc) := ew ex Gb in
        let (rw, Gd) := emit Gc (NReplace cur r (k * mul) w) in
        let (os, Ge) := dyn_opts ks' Gd in
        (rw :: os, Ge)
    end.
End DynOpts.

Fixpoint elab_write (p : list gsel) (next : nid) (cur : nid) (G : list gnode) : nid * list gnode :=
  match p with
  | [] => (next, G)
  | GStatic off w :: p' =>
      let (ex, G1) := emit G (NExtract cur off w) in
      let (r, G2) := elab_write p' next ex G1 in
      emit G2 (NReplace cur r off w)
  | GDyn idx (maxi, mul, w) :: p' =>
      let (opts, G1) := dyn_opts (elab_write p' next) cur mul w (seq 0 (S maxi)) G in
      emit G1 (NMux idx opts)
  end.

Definition last_is_bit (p : list sel) (dflt : bool) : bool :=
  match last (map Some p) None with
  | Some (SBit _) | Some (SDynBit _ _ _) => true
  | Some _ => false
  | None => dflt
  end.

(* BaseBitVector::assign / Bit::assign, after the right hand side has been built *)
Definition do_assign (x : sig) (p : list sel) (rhs : nid) (st : est) : est :=
  match lookup x (eSigs st) with
  | None => st
  | Some r =>
      let (gp, G0) := elab_sels (eSigs st) p (eG st) in
      (* if (m_range) in = m_range->assign(rawDriver(), in); *)
      let (inn, G1) := elab_write gp rhs (sr_drv r) G0 in
      (* if (scope && scope->getId() > m_initialScopeId)  in = mux(fullCondition; rawDriver(), in) *)
      let (fin, G2) :=
        match eStack st with
        | sc :: _ =>
            if Nat.ltb (sr_isc r) (sc_id sc) then
              if last_is_bit p (sr_bit r) then
                let (sg, Ga) := emit G1 (NSig (sr_drv r)) in        (* Bit::assign: signal_in *)
                emit Ga (NMux (sc_full sc) [sg; inn])
              else emit G1 (NMux (sc_full sc) [sr_drv r; inn])
            else (inn, G1)
        | [] => (inn, G1)
        end in
      (* m_node->connectInput(in) *)
      set_sigs (set_G st G2) (update x (mkSig fin (sr_isc r) (sr_bit r)) (eSigs st))
  end.

(* ConditionalScope::setCondition (override = false), including BaseScope's push *)
Definition set_condition (port : nid) (loe comb : option nid) (st : est) : est :=
  let id := eNext st in
  match eStack st with
  | [] =>
      mkSt (eG st) (S id) (eLast st) [mkScope id port port loe comb] (eSigs st) (eReads st)
  | par :: _ =>
      let (a, G1) := emit (eG st) (NCAnd port (sc_full par)) in
      let (s, G2) := emit G1 (NSig a) in                            (* SPAM_SIGNAL_NODES *)
      mkSt G2 (S id) (eLast st) (mkScope id port s loe comb :: eStack st) (eSigs st) (eReads st)
  end.

(* m_lastCondition as a node; a null port (no IF has ever been closed) reads as undefined.
   Unreachable from the program syntax: ELSE / ELSEIF always follow a closed IF / ELSEIF. *)
Definition get_last (st : est) : nid * list gnode :=
  match eLast st with
  | Some l => (l, eG st)
  | None => emit (eG st) (NConst [BX])
  end.

(* IF(c): ConditionalScope(const Bit &condition) *)
Definition ctor_if (c : nid) (st : est) : est := set_condition c None None st.

(* ELSE: ConditionalScope(ElseCase) *)
Definition ctor_else (st : est) : est :=
  let (l, G0) := get_last st in
  let (inv, G1) := emit G0 (NCNot l) in
  let (sg, G2) := emit G1 (NSig inv) in
  set_condition sg (Some l) None (set_G st G2).

(* ELSEIF(c): ConditionalScope(ElseCase, const Bit &condition) *)
Definition ctor_elseif (c : nid) (st : est) : est :=
  let (l, G0) := get_last st in
  let (orn, G1) := emit G0 (NCOr l c) in
  let (inv, G2) := emit G1 (NCNot l) in
  let (andn, G3) := emit G2 (NCAnd c inv) in
  set_condition andn None (Some orn) (set_G st G3).

Definition opt_nid_eqb (a b : option nid) : bool :=
  match a, b with
  | Some x, Some y => Nat.eqb x y
  | None, None => true
  | _, _ => false
  end.

(* ~ConditionalScope (and BaseScope's pop) *)
Definition dtor (st : est) : est :=
  match eStack st with
  | [] => st
  | sc :: rest =>
      match sc_comb sc with
      | Some c => mkSt (eG st) (eNext st) (Some c) rest (eSigs st) (eReads st)
      | None =>
          match sc_loe sc with
          | Some l =>
              if opt_nid_eqb (Some l) (eLast st) then
                mkSt (eG st) (eNext st) (Some (sc_cond sc)) rest (eSigs st) (eReads st)
              else
                let (cur, G0) := get_last st in
                let (orn, G1) := emit G0 (NCOr cur l) in
                mkSt G1 (eNext st) (Some orn) rest (eSigs st) (eReads st)
          | None => mkSt (eG st) (eNext st) (Some (sc_cond sc)) rest (eSigs st) (eReads st)
          end
      end
  end.

Definition cur_scope_id (st : est) : nat :=
  match eStack st with sc :: _ => sc_id sc | [] => 0 end.
Definition cur_guard (st : est) : option nid :=
  match eStack st with sc :: _ => Some (sc_full sc) | [] => None end.

(* leaving a C++ block: the variables declared inside are gone *)
Definition leave_block (n : nat) (st : est) : est := set_sigs st (lastn n (eSigs st)).

Fixpoint elab_stmt (s : stmt) (st : est) : est :=
  match s with
  | Decl x isbit e =>
      let (n, G1) := elab_expr (eSigs st) e (eG st) in
      (* ElementarySignal(): m_initialScopeId = current scope's id (0 outside any scope) *)
      set_sigs (set_G st G1) ((x, mkSig n (cur_scope_id st) isbit) :: eSigs st)
  | Assign x p e =>
      let (n, G1) := elab_expr (eSigs st) e (eG st) in
      do_assign x p n (set_G st G1)
  | Read t x =>
      let (n, G1) := elab_expr (eSigs st) (ESig x) (eG st) in
      mkSt G1 (eNext st) (eLast st) (eStack st) (eSigs st) (eReads st ++ [mkRd t n (cur_guard st)])
  | If c th ch =>
      let (cn, G1) := elab_expr (eSigs st) c (eG st) in
      let st1 := ctor_if cn (set_G st G1) in
      let st2 := leave_block (length (eSigs st)) (elab_block th st1) in
      elab_chain ch (dtor st2)
  end
with elab_block (b : block) (st : est) : est :=
  match b with
  | BNil => st
  | BCons s b' => elab_block b' (elab_stmt s st)
  end
with elab_chain (ch : chain) (st : est) : est :=
  match ch with
  | CEnd => st
  | CElse b =>
      let st1 := ctor_else st in
      dtor (leave_block (length (eSigs st)) (elab_block b st1))
  | CElseIf c b ch' =>
      let (cn, G1) := elab_expr (eSigs st) c (eG st) in
      let st1 := ctor_elseif cn (set_G st G1) in
      elab_chain ch' (dtor (leave_block (length (eSigs st)) (elab_block b st1)))
  | CElseSp c b ch' =>
      (* if (ConditionalScope{ElseCase{}}) if (ConditionalScope{c}) { b }   then both destructors *)
      let st1 := ctor_else st in
      let (cn, G1) := elab_expr (eSigs st1) c (eG st1) in
      let st2 := ctor_if cn (set_G st1 G1) in
      let st3 := dtor (leave_block (length (eSigs st)) (elab_block b st2)) in
      elab_chain ch' (dtor st3)
  end.

(* The ELSE destructor recognises "a nested scope was closed" by comparing node ports
   (m_lastConditionOnEntry != m_lastCondition).  That test fails when the IF of an `ELSE IF (c)`
   has the very port the chain's previous condition had, which needs c to be a bare variable
   reference; any operator creates a fresh node.  [no_bare_else_if] excludes exactly that. *)
Definition fresh_cond (c : expr) : bool := match c with ESig _ => false | _ => true end.
Fixpoint nbe_stmt (s : stmt) : bool :=
  match s with
  | If _ th ch => nbe_block th && nbe_chain ch
  | _ => true
  end
with nbe_block (b : block) : bool :=
  match b with BNil => true | BCons s b' => nbe_stmt s && nbe_block b' end
with nbe_chain (ch : chain) : bool :=
  match ch with
  | CEnd => true
  | CElse b => nbe_block b
  | CElseIf _ b ch' => nbe_block b && nbe_chain ch'
  | CElseSp c b ch' => fresh_cond c && nbe_block b && nbe_chain ch'
  end.
Definition no_bare_else_if (p : block) : bool := nbe_block p.

(* s_nextId is a thread_local static initialised to 1 and never reset; n0 is its value when
   the design is started. *)
Definition init_st (n0 : nat) : est := mkSt [] n0 None [] [] [].

Definition elab_prog (n0 : nat) (p : block) : est := elab_block p (init_st n0).

(* what an observer of the circuit sees *)
Definition sig_values (vs : list bv) (S : list (sig * sigrec)) : env :=
  map (fun xr => (fst xr, getv vs (sr_drv (snd xr)))) S.

Definition guard_true (vs : list bv) (r : rd) : bool :=
  match rd_guard r with
  | None => true
  | Some g => match cond_val (getv vs g) with Some true => true | _ => false end
  end.

Definition live_reads (vs : list bv) (rs : list rd) : list rdval :=
  map (fun r => (rd_tmp r, getv vs (rd_node r))) (filter (guard_true vs) rs).

(* everything the driver prints for one program and one input valuation *)
Definition run_prog (inp : list bv) (p : block) : option (env * list rdval) := run_block inp p [].

Definition elab_eval (n0 : nat) (inp : list bv) (p : block)
  : env * list (nat * option bv * bv) :=
  let st := elab_prog n0 p in
  let vs := eval_all inp (eG st) in
  (sig_values vs (eSigs st),
   map (fun r => (rd_tmp r, match rd_guard r with Some g => Some (getv vs g) | None => None end,
                  getv vs (rd_node r))) (eReads st)).
