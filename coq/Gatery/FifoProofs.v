(* C15 -- the theorems about scl::Fifo's control machine (statements restated in
   Properties_C15.v).  Everything is for ALL depths 2^k, all latencies L >= 1 (dual clock:
   L >= 2), all schedules of push/pop clock edges and all request sequences. *)
From Coq Require Import NArith List Bool Arith Lia.
From Gatery Require Import FifoDefs FifoGray FifoArith FifoInv.
Import ListNotations.
Open Scope N_scope.

(* ---------------- one event ---------------- *)
Definition gstep (c : cfg) (s : st) (g : ghost) (e : event) : ghost :=
  gen_gstep s g (has_push c e) (has_pop c e) (e_pushReq e) (e_data e) (e_popReq e)
            (ev_metaP c e) (ev_metaG c e).

Fixpoint grun (c : cfg) (s : st) (g : ghost) (evs : list event) : ghost :=
  match evs with
  | [] => g
  | e :: r => grun c (step c s e) (gstep c s g e) r
  end.

Lemma inv_lines c g s : cfg_ok c -> Inv c g s ->
  c_dual c = true -> (2 <= c_lat c)%nat /\ s_toPop s <> [] /\ s_toPush s <> [].
Proof.
  intros [_ Hd] HI E. specialize (Hd E). split; [exact Hd|].
  rewrite (i_lp c g s HI), (i_lg c g s HI).
  pose proof (i_lenp c g s HI) as Lp. pose proof (i_leng c g s HI) as Lg.
  split; [destruct (g_lp g) | destruct (g_lg g)]; cbn in *; try lia; discriminate.
Qed.

Lemma step_inv c g s e : cfg_ok c -> Inv c g s ->
  Inv c (gstep c s g e) (step c s e) /\
  q_step_ok (depth c) (q_of g) (observe c s e) /\
  q_next (q_of g) (observe c s e) = q_of (gstep c s g e).
Proof.
  intros Hc HI. rewrite (step_gen c s e (inv_lines c g s Hc HI)). split.
  - apply inv_step. exact HI.
  - apply (obs_ok c g s HI (has_push c e) (has_pop c e) (e_pushReq e) (e_data e) (e_popReq e)
                  (ev_metaP c e) (ev_metaG c e)).
Qed.

Lemma run_cons c s e r :
  run c s (e :: r) = (observe c s e :: fst (run c (step c s e) r), snd (run c (step c s e) r)).
Proof. cbn [run]. destruct (run c (step c s e) r); reflexivity. Qed.

Lemma run_inv c : cfg_ok c -> forall evs s g, Inv c g s ->
  queue_spec (depth c) (q_of g) (fst (run c s evs)) /\
  Inv c (grun c s g evs) (snd (run c s evs)) /\
  q_after (q_of g) (fst (run c s evs)) = q_of (grun c s g evs).
Proof.
  intros Hc. induction evs as [|e r IH]; intros s g HI.
  - cbn. auto.
  - rewrite run_cons. cbn [fst snd queue_spec q_after grun].
    destruct (step_inv c g s e Hc HI) as [HI' [Hok Hq]].
    destruct (IH _ _ HI') as [A [B C]]. rewrite Hq. auto.
Qed.

Lemma q_of_init c : q_of (g_init c) = [].
Proof. reflexivity. Qed.

(* ---------------- refinement ---------------- *)
Lemma fifo_refines_queue_proof : forall c evs, cfg_ok c ->
  queue_spec (depth c) [] (fst (run c (init c) evs)).
Proof.
  intros c evs Hc. rewrite <- (q_of_init c).
  apply (run_inv c Hc evs (init c) (g_init c) (inv_init c)).
Qed.

(* a legal queue trace neither loses, duplicates nor reorders *)
Lemma queue_spec_conservation cap : forall tr q, queue_spec cap q tr ->
  map Some q ++ map Some (accepted tr) = delivered tr ++ map Some (q_after q tr).
Proof.
  induction tr as [|o r IH]; intros q H.
  - cbn. rewrite app_nil_r. reflexivity.
  - destruct H as [[_ [Hpk [Hdel _]]] Hr]. specialize (IH _ Hr).
    unfold accepted, delivered in *. cbn [flat_map q_after]. rewrite map_app.
    unfold q_next in IH. unfold q_next.
    destruct (o_del o) eqn:Ed.
    + destruct (Hpk (Hdel eq_refl)) as [h [t [Hq Hp]]]. subst q. rewrite Hp. cbn [tl] in *.
      cbn [map app]. f_equal. rewrite map_app in IH. rewrite <- IH.
      rewrite <- !app_assoc. reflexivity.
    + cbn [app]. rewrite map_app in IH. rewrite <- IH. rewrite <- !app_assoc. reflexivity.
Qed.

Lemma fifo_no_loss_no_dup_in_order_proof : forall c evs, cfg_ok c ->
  let tr := fst (run c (init c) evs) in
  delivered tr ++ map Some (q_after [] tr) = map Some (accepted tr) /\
  N.of_nat (length (q_after [] tr)) <= depth c.
Proof.
  intros c evs Hc tr. split.
  - symmetry. apply (queue_spec_conservation (depth c) tr []).
    apply fifo_refines_queue_proof. exact Hc.
  - destruct (run_inv c Hc evs (init c) (g_init c) (inv_init c)) as [_ [HI Hq]].
    rewrite q_of_init in Hq. unfold tr. rewrite Hq.
    pose proof (i_lo _ _ _ HI). pose proof (i_hi _ _ _ HI).
    unfold q_of. rewrite length_skipn_N by assumption. unfold depth, gP in *. lia.
Qed.

Corollary delivered_is_prefix : forall c evs, cfg_ok c ->
  let tr := fst (run c (init c) evs) in
  exists rest, map Some (accepted tr) = delivered tr ++ rest.
Proof.
  intros c evs Hc tr. destruct (fifo_no_loss_no_dup_in_order_proof c evs Hc) as [H _].
  eexists. symmetry. exact H.
Qed.

(* ---------------- almost flags ---------------- *)
Definition almost_ok (c : cfg) (q : list N) (o : obs) : Prop :=
  (c_lvlF c < depth c -> o_afull o = false -> N.of_nat (length q) + c_lvlF c < depth c) /\
  (o_aempty o = false -> c_lvlE c < N.of_nat (length q)).

Lemma almost_inv c g s e : Inv c g s -> almost_ok c (q_of g) (observe c s e).
Proof.
  intros HI. pose proof (i_lo _ _ _ HI). pose proof (i_hi _ _ _ HI).
  pose proof (desc_last_le _ _ (i_descp _ _ _ HI)). pose proof (desc_last_le _ _ (i_descg _ _ _ HI)).
  unfold almost_ok, q_of, depth. rewrite length_skipn_N by assumption. cbn [observe o_afull o_aempty].
  split.
  - intros Hl Ha. pose proof (i_af _ _ _ HI Hl Ha). unfold gP in *. lia.
  - intros Ha. pose proof (i_ae _ _ _ HI Ha). unfold gP in *. lia.
Qed.

Lemma almost_run c : cfg_ok c -> forall evs s g, Inv c g s ->
  Forall2 (almost_ok c) (queues (q_of g) (fst (run c s evs))) (fst (run c s evs)).
Proof.
  intros Hc. induction evs as [|e r IH]; intros s g HI.
  - constructor.
  - rewrite run_cons. cbn [fst queues].
    destruct (step_inv c g s e Hc HI) as [HI' [_ Hq]].
    constructor; [apply almost_inv; exact HI|]. rewrite Hq. apply IH. exact HI'.
Qed.

Lemma almost_flags_conservative_proof : forall c evs, cfg_ok c ->
  let tr := fst (run c (init c) evs) in
  Forall2 (almost_ok c) (queues [] tr) tr.
Proof.
  intros c evs Hc. cbn zeta. rewrite <- (q_of_init c).
  apply (almost_run c Hc evs (init c) (g_init c) (inv_init c)).
Qed.

(* ---------------- liveness ---------------- *)
Definition stale (G : N) (l : list N) : nat := length (filter (fun x => x <=? G) l).

Lemma stale_cons G a l : stale G (a :: l) = ((if (a <=? G)%N then 1 else 0) + stale G l)%nat.
Proof. unfold stale. cbn [filter]. destruct (a <=? G); reflexivity. Qed.

Lemma stale_le_length G l : (stale G l <= length l)%nat.
Proof.
  induction l as [|a t IH]; [cbn; lia|]. rewrite stale_cons. cbn [length].
  destruct (a <=? G); lia.
Qed.

Lemma stale_zero_last G l d : stale G l = 0%nat -> G < d -> G < last l d.
Proof.
  revert d. induction l as [|a t IH]; intros d H Hd; [exact Hd|].
  rewrite stale_cons in H. destruct (N.leb_spec a G) as [L|L]; [cbn in H; lia|].
  destruct t as [|b t']; [exact L|].
  change (last (a :: b :: t') d) with (last (b :: t') d). apply IH; [lia | exact Hd].
Qed.

Lemma stale_removelast_desc G l : desc l -> (0 < stale G l)%nat ->
  S (stale G (removelast l)) = stale G l.
Proof.
  induction l as [|a [|b t] IH]; intros Hd Hs.
  - cbn in Hs. lia.
  - cbn [removelast]. rewrite stale_cons in *. cbn in *. destruct (a <=? G); cbn in *; lia.
  - destruct Hd as [Hba Hd].
    change (removelast (a :: b :: t)) with (a :: removelast (b :: t)).
    rewrite (stale_cons G a (removelast (b :: t))), (stale_cons G a (b :: t)).
    destruct (Nat.eq_dec (stale G (b :: t)) 0) as [Z|NZ].
    + (* then a itself is stale, but b <= a: contradiction *)
      rewrite stale_cons in Hs. rewrite stale_cons in Z.
      destruct (N.leb_spec a G) as [La|La]; destruct (N.leb_spec b G) as [Lb|Lb]; cbn in *; try lia.
    + rewrite <- (IH Hd) by lia. lia.
Qed.

Definition phi (g : ghost) (s : st) : nat :=
  if s_empty s then S (stale (g_G g) (g_lp g)) else 0%nat.

Lemma live_step c g s e : cfg_ok c -> Inv c g s -> g_G g < gP g -> e_popReq e = false ->
  let g' := gstep c s g e in
  let s' := step c s e in
  g_G g' = g_G g /\ g_G g < gP g' /\
  nth (N.to_nat (g_G g)) (g_items g') 0 = nth (N.to_nat (g_G g)) (g_items g) 0 /\
  (phi g' s' <= phi g s)%nat /\
  (has_pop c e = true -> (phi g' s' <= pred (phi g s))%nat).
Proof.
  intros Hc HI Hne Hreq g' s'.
  unfold s'. rewrite (step_gen c s e (inv_lines c g s Hc HI)). unfold g', gstep.
  set (pe := has_push c e). set (po := has_pop c e).
  set (mP := ev_metaP c e). set (mG := ev_metaG c e).
  pose proof (G'_eq c g s pe po (e_pushReq e) (e_data e) (e_popReq e) mP mG) as HG.
  rewrite Hreq, andb_false_r in HG. cbn [andb] in HG. rewrite N.add_0_r in HG.
  pose proof (P'_eq c g s pe po (e_pushReq e) (e_data e) (e_popReq e) mP mG) as HP.
  pose proof (s'_empty c g s HI pe po (e_pushReq e) (e_data e) (e_popReq e) mP mG) as HE.
  pose proof (obsP_bounds c g s HI pe po (e_pushReq e) (e_data e) (e_popReq e) mP mG) as [OB1 [OB2 OB3]].
  pose proof (g'_lp g s pe po (e_pushReq e) (e_data e) (e_popReq e) mP mG) as HL.
  pose proof (pe_false_P c g s pe po (e_pushReq e) (e_data e) (e_popReq e) mP mG) as HPf.
  rewrite Hreq in *.
  set (gn := gen_gstep s g pe po (e_pushReq e) (e_data e) false mP mG) in *.
  set (sn := gen_step c s pe po (e_pushReq e) (e_data e) false mP mG) in *.
  assert (HPle : gP g <= gP gn) by (rewrite HP; destruct (pe && e_pushReq e && negb (s_full s)); lia).
  split; [exact HG|]. split; [lia|]. split.
  { unfold gn, gen_gstep. cbn [g_items]. destruct (pe && e_pushReq e && negb (s_full s)); [|reflexivity].
    apply app_nth1. unfold gP in Hne. lia. }
  unfold phi. rewrite HE, HG, HL.
  pose proof (i_descp _ _ _ HI) as Hd. pose proof (i_hdp _ _ _ HI) as Hh.
  pose proof (i_empty _ _ _ HI) as Hemp.
  destruct (g_lp g) as [|h t] eqn:El.
  - (* no line: the pop side sees the put pointer directly *)
    cbn [line_upd stale filter length last] in *.
    destruct po.
    + assert (E : (gP gn =? g_G g) = false) by (apply N.eqb_neq; lia). rewrite E.
      split; [lia | intros _; lia].
    + split; [destruct (s_empty s); lia | discriminate].
  - cbn [hd] in Hh. subst h.
    assert (Hfirst : (if pe then gP gn else gP g) = gP gn).
    { destruct pe eqn:Epe; [reflexivity|]. symmetry. apply HPf. reflexivity. }
    cbn [line_upd]. rewrite Hfirst.
    assert (Hns : (gP gn <=? g_G g) = false) by (apply N.leb_gt; lia).
    assert (Hns0 : (gP g <=? g_G g) = false) by (apply N.leb_gt; lia).
    rewrite !stale_cons, Hns, Hns0. cbn [Nat.add].
    destruct po.
    + set (smp := if mP && pe then gP gn else gP g).
      assert (Hsmp : gP g <= smp) by (unfold smp; destruct (mP && pe); lia).
      assert (Hds : desc (smp :: t)) by (apply (desc_raise (gP g)); [exact Hsmp | apply desc_tl in Hd; exact Hd]).
      assert (Hss : stale (g_G g) (smp :: t) = stale (g_G g) t).
      { rewrite stale_cons. replace (smp <=? g_G g) with false by (symmetry; apply N.leb_gt; lia). reflexivity. }
      destruct (s_empty s) eqn:Ee.
      * destruct (Nat.eq_dec (stale (g_G g) t) 0) as [Z|NZ].
        -- (* every line entry is fresh: this pop edge clears empty *)
           assert (g_G g < last (gP g :: t) (gP gn)).
           { apply stale_zero_last; [|lia]. rewrite stale_cons, Hns0. exact Z. }
           assert (E : (last (gP g :: t) (gP gn) =? g_G g) = false) by (apply N.eqb_neq; lia).
           rewrite E. split; [lia | intros _; lia].
        -- assert (Hdec : S (stale (g_G g) (shift_in smp t)) = stale (g_G g) t).
           { unfold shift_in. rewrite <- Hss. apply stale_removelast_desc; [exact Hds | lia]. }
           destruct (last (gP g :: t) (gP gn) =? g_G g); split; try lia; intros _; lia.
      * specialize (Hemp eq_refl).
        assert (E : (last (gP g :: t) (gP gn) =? g_G g) = false) by (apply N.eqb_neq; lia).
        rewrite E. split; [lia | intros _; lia].
    + split; [destruct (s_empty s); lia | discriminate].
Qed.

Definition count_pop (c : cfg) (evs : list event) : nat := length (filter (has_pop c) evs).

Lemma live_run c : cfg_ok c -> forall evs s g, Inv c g s -> g_G g < gP g ->
  Forall (fun e => e_popReq e = false) evs ->
  let g2 := grun c s g evs in
  let s2 := snd (run c s evs) in
  Inv c g2 s2 /\ g_G g2 = g_G g /\ g_G g < gP g2 /\
  nth (N.to_nat (g_G g)) (g_items g2) 0 = nth (N.to_nat (g_G g)) (g_items g) 0 /\
  (phi g2 s2 <= phi g s - count_pop c evs)%nat.
Proof.
  intros Hc. induction evs as [|e r IH]; intros s g HI Hne Hall.
  - cbn [grun run snd count_pop filter length]. split; [exact HI|]. split; [reflexivity|].
    split; [exact Hne|]. split; [reflexivity|]. lia.
  - inversion Hall as [|? ? He Hr]; subst.
    rewrite run_cons. cbn [snd grun].
    destruct (step_inv c g s e Hc HI) as [HI' _].
    destruct (live_step c g s e Hc HI Hne He) as [A [B [C [D E]]]].
    destruct (IH _ _ HI' ltac:(rewrite A; exact B) Hr) as [I1 [I2 [I3 [I4 I5]]]].
    rewrite A in *.
    split; [exact I1|]. split; [exact I2|]. split; [exact I3|]. split; [congruence|].
    unfold count_pop in *. cbn [filter].
    destruct (has_pop c e) eqn:Ep; cbn [length].
    + specialize (E eq_refl). lia.
    + lia.
Qed.

Lemma phi_bound c g s : Inv c g s -> g_G g < gP g -> (phi g s <= Nat.max 1 (c_lat c - 1))%nat.
Proof.
  intros HI Hne. unfold phi. destruct (s_empty s); [|apply Nat.le_0_l].
  pose proof (i_lenp _ _ _ HI) as Hl. pose proof (i_hdp _ _ _ HI) as Hh.
  destruct (g_lp g) as [|h t]; [unfold stale; cbn [filter length]; lia|].
  cbn [hd] in Hh. subst h. rewrite stale_cons.
  replace (gP g <=? g_G g) with false by (symmetry; apply N.leb_gt; lia).
  pose proof (stale_le_length (g_G g) t). cbn [length] in Hl. lia.
Qed.

Lemma eventually_visible_proof : forall c evs1 evs2, cfg_ok c ->
  let tr1 := fst (run c (init c) evs1) in
  let s1 := snd (run c (init c) evs1) in
  q_after [] tr1 <> [] ->
  Forall (fun e => e_popReq e = false) evs2 ->
  (Nat.max 1 (c_lat c - 1) <= count_pop c evs2)%nat ->
  let s2 := snd (run c s1 evs2) in
  s_empty s2 = false /\ s_peek s2 = hd_error (q_after [] tr1).
Proof.
  intros c evs1 evs2 Hc tr1 s1 Hq Hall Hcnt s2.
  destruct (run_inv c Hc evs1 (init c) (g_init c) (inv_init c)) as [_ [HI Hqa]].
  rewrite q_of_init in Hqa. fold tr1 in Hqa. fold s1 in HI.
  set (g1 := grun c (init c) (g_init c) evs1) in *.
  assert (Hne : g_G g1 < gP g1).
  { pose proof (i_lo _ _ _ HI). destruct (N.eq_dec (g_G g1) (gP g1)) as [E|E]; [|lia].
    exfalso. apply Hq. rewrite Hqa. unfold q_of. apply skipn_all2. unfold gP in E. lia. }
  destruct (live_run c Hc evs2 s1 g1 HI Hne Hall) as [HI2 [HG [HP [Hn Hphi]]]].
  fold s2 in HI2, Hphi.
  pose proof (phi_bound c g1 s1 HI Hne) as Hb.
  assert (He : s_empty s2 = false).
  { unfold phi in Hphi at 1. destruct (s_empty s2); [lia | reflexivity]. }
  split; [exact He|].
  rewrite (i_peek _ _ _ HI2 He), HG, Hn, Hqa. unfold q_of.
  rewrite (skipn_nth_cons (g_items g1) (N.to_nat (g_G g1))) by (unfold gP in Hne; lia).
  reflexivity.
Qed.

(* ---------------- gray code, stated on N widths ---------------- *)
Lemma gray_roundtrip_proof : forall (w : nat) x, x < 2 ^ N.of_nat w -> gray_dec w (gray_enc x) = x.
Proof. exact gray_roundtrip_w. Qed.

Lemma gray_one_bit_proof : forall w x, 0 < w -> x < 2 ^ w ->
  exists j, j < w /\ N.lxor (gray_enc x) (gray_enc ((x + 1) mod 2 ^ w)) = 2 ^ j.
Proof. exact gray_one_bit_w. Qed.

(* the word in the inStage register of a pointer crossing goes from enc(p) to enc(inc p b);
   whatever bitwise mixture a synchroniser captures is one of the two: exactly the
   choice [sampled meta] of the model *)
Lemma cdc_sample_two_outcomes_proof : forall k p (b : bool) s, p < cmod k ->
  bitwise_mix (gray_enc p) (gray_enc (inc k p b)) s ->
  exists meta, s = sampled meta (gray_enc p) (gray_enc (inc k p b)).
Proof.
  intros k p b s Hp Hm. unfold inc, cmod in *.
  destruct (gray_sample_safe_w (k + 1) p b s) as [H|H]; try lia; try exact Hp.
  - destruct b; exact Hm.
  - exists false. exact H.
  - exists true. destruct b; exact H.
Qed.

(* the dual-clock instance spelled out: any interleaving of push-clock and pop-clock edges
   (coincident or not), any metastable capture choice at coincident edges *)
Lemma fifo_dual_clock_refines_queue_proof : forall k L lvlF lvlE evs, (2 <= L)%nat ->
  let c := mkCfg k L true lvlF lvlE in
  queue_spec (2 ^ k) [] (fst (run c (init c) evs)).
Proof.
  intros k L lvlF lvlE evs HL c. apply (fifo_refines_queue_proof c evs).
  split; cbn; intros; lia.
Qed.
