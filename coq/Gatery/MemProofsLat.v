(* C07 -- read latency (L registers behind the asynchronous read) and the read-modify-write hazard
   bypass network of ReadModifyWriteHazardLogicBuilder (register mode). *)
From Gatery Require Import Bits MemDefs.
Import ListNotations.

(* ------------------------------------------------------------------ register pipeline *)

Lemma pipe_run_firstn : forall (xs : list bv) (p : pipe),
  pipe_run p xs = firstn (length xs) (rev p ++ xs).
Proof.
  induction xs as [|x r IH]; intro p; simpl; auto.
  destruct p as [|y p'] using rev_ind.
  - simpl. rewrite IH. simpl. reflexivity.
  - clear IHp'. unfold pipe_out, pipe_step. rewrite last_last.
    destruct (p' ++ [y]) eqn:E; [destruct p'; discriminate|]. rewrite <- E. clear E.
    rewrite removelast_last, IH, rev_app_distr. simpl. rewrite <- app_assoc. reflexivity.
Qed.

Lemma nth_firstn_lt {A} (l : list A) d : forall k n, (n < k)%nat -> nth n (firstn k l) d = nth n l d.
Proof.
  induction l as [|x l IH]; intros [|k] [|n] H; simpl; auto; try lia. apply IH; lia.
Qed.

Lemma pipe_latency_proof : forall (L : nat) (p : pipe) (xs : list bv) (t : nat) (d : bv),
  length p = L -> (t + L < length xs)%nat ->
  nth (t + L) (pipe_run p xs) d = nth t xs d.
Proof.
  intros L p xs t d Hp Ht. rewrite pipe_run_firstn, nth_firstn_lt by lia.
  rewrite app_nth2 by (rewrite rev_length; lia). rewrite rev_length. f_equal. lia.
Qed.

(* before that, the registers' initial contents come out, whatever the memory does *)
Lemma pipe_initial_proof : forall (L : nat) (p : pipe) (xs : list bv) (t : nat) (d : bv),
  length p = L -> (t < L)%nat -> (t < length xs)%nat ->
  nth t (pipe_run p xs) d = nth (L - 1 - t) p d.
Proof.
  intros L p xs t d Hp Ht Hx. rewrite pipe_run_firstn, nth_firstn_lt by lia.
  rewrite app_nth1 by (rewrite rev_length; lia). rewrite rev_nth by lia. f_equal. lia.
Qed.

(* column k of a run: the asynchronous read data of port k over the cycles *)
Definition col (k : nat) (outs : list (list (option bv))) (w : nat) : list bv :=
  map (fun rds => match nth k rds None with Some v => v | None => all_X w end) outs.

Lemma latency_L_proof : forall c ps m cycles (L k t : nat) (p : pipe) (d : bv),
  length p = L -> (t + L < length cycles)%nat ->
  let async := col k (fst (run c ps m cycles)) (c_width c) in
  nth (t + L) (pipe_run p async) d = nth t async d.
Proof.
  intros c ps m cycles L k t p d Hp Ht async. apply pipe_latency_proof; auto.
  unfold async, col. rewrite map_length.
  assert (H : forall m0, length (fst (run c ps m0 cycles)) = length cycles).
  { clear. induction cycles as [|i r IH]; intro m0; simpl; auto.
    destruct (cycle c ps m0 i) as [rds m1]. specialize (IH m1).
    destruct (run c ps m1 r) as [o m2]. simpl in *. lia. }
  rewrite H. exact Ht.
Qed.

(* ------------------------------------------------------------------ hazard bypass *)

Definition scan (a : N) (s : cstate) (wss : list (list wr)) : cstate := fold_left (stage a) wss s.

Definition res (s : cstate) (base : bv) : bv :=
  match s with Some (true, o) => o | _ => base end.

Lemma addr_sr_delay ainit ra i : forall t, addr_sr ainit ra i (t + i) = ra t.
Proof.
  induction i as [|i IH]; intro t; simpl.
  - f_equal; lia.
  - replace (t + S i)%nat with (S (t + i)) by lia. simpl. apply IH.
Qed.

Lemma delayed_delay {A} (init : nat -> A) (x : stream A) k : forall t, delayed init x k (t + k) = x t.
Proof.
  induction k as [|k IH]; intro t; simpl.
  - f_equal; lia.
  - replace (t + S k)%nat with (S (t + k)) by lia. simpl. apply IH.
Qed.

Lemma bypass_stage_scan ainit cinit ra pw i : forall t,
  bypass_stage ainit cinit ra pw i (t + i + 1) = scan (ra t) None (map pw (seq t (S i))).
Proof.
  induction i as [|i IH]; intro t.
  - replace (t + 0 + 1)%nat with (S t) by lia. simpl. f_equal.
  - replace (t + S i + 1)%nat with (S (t + S i)) by lia.
    cbn [bypass_stage sreg].
    rewrite addr_sr_delay.
    replace (t + S i)%nat with (t + i + 1)%nat at 1 by lia. rewrite IH.
    rewrite (seq_S (S i) t), map_app. unfold scan. rewrite fold_left_app.
    cbn [map fold_left]. reflexivity.
Qed.

Lemma stage_slice a : forall ws s base (g : arr),
  res s base = g a -> res (stage a s ws) base = fold_left apply_wr ws g a.
Proof.
  induction ws as [|p ws IH]; intros s base g H; simpl; auto.
  apply IH. unfold stage_port, apply_wr, arr_upd.
  destruct (w_en p); rewrite ?andb_false_r, ?andb_true_r.
  - destruct (N.eqb a (w_addr p)); destruct s as [[[|] o]|]; simpl in *; auto.
  - destruct s as [[[|] o]|]; simpl in *; auto.
Qed.

Lemma phys_scan f0 pw a k : forall t,
  phys f0 pw (t + k) a = res (scan a None (map pw (seq t k))) (phys f0 pw t a).
Proof.
  induction k as [|k IH]; intro t.
  - simpl. f_equal. f_equal. lia.
  - replace (t + S k)%nat with (S (t + k)) by lia. cbn [phys].
    rewrite (seq_S k t), map_app. unfold scan. rewrite fold_left_app. cbn [map fold_left].
    symmetry. apply stage_slice. symmetry. apply IH.
Qed.

Lemma bypass_out_phys_proof : forall K ainit cinit rinit f0 ra pw t, (1 <= K)%nat ->
  bypass_out K ainit cinit rinit f0 ra pw (t + K) = phys f0 pw (t + K) (ra t).
Proof.
  intros K ainit cinit rinit f0 ra pw t HK. unfold bypass_out.
  rewrite (delayed_delay rinit (fun u => phys f0 pw u (ra u)) K t).
  replace (t + K)%nat with (t + (K - 1) + 1)%nat at 1 by lia.
  rewrite bypass_stage_scan. replace (S (K - 1)) with K by lia.
  rewrite phys_scan. unfold res. destruct (scan _ _ _) as [[[|] o]|]; reflexivity.
Qed.

Lemma phys_delay_writes f0 lw K : forall t, phys f0 (delay_writes K lw) (t + K) = phys f0 lw t.
Proof.
  assert (H0 : forall k, (k <= K)%nat -> phys f0 (delay_writes K lw) k = f0).
  { induction k as [|k IH]; intro Hk; simpl; auto. rewrite IH by lia.
    unfold delay_writes. destruct (Nat.ltb_spec k K); [reflexivity | lia]. }
  induction t as [|t IH]; simpl.
  - apply H0. lia.
  - rewrite IH. unfold delay_writes. destruct (Nat.ltb_spec (t + K) K); [lia|].
    replace (t + K - K)%nat with t by lia. reflexivity.
Qed.

(* The delayed memory (K-cycle read latency, writes delayed by K cycles and disabled during the
   first K cycles) plus the bypass network returns, K cycles after the address was presented, what
   an asynchronous read of the array -- with the user's undelayed writes -- returns in the cycle the
   address was presented.  Register initial contents are arbitrary. *)
Lemma rmw_bypass_correct_proof : forall K ainit cinit rinit f0 ra lw t, (1 <= K)%nat ->
  bypass_out K ainit cinit rinit f0 ra (delay_writes K lw) (t + K) = phys f0 lw t (ra t).
Proof.
  intros. rewrite bypass_out_phys_proof by assumption. rewrite phys_delay_writes. reflexivity.
Qed.
