(* C15 -- scl::TransactionalFifo (single clock) refines a queue with checkpoints. *)
From Coq Require Import NArith List Bool Arith Lia.
From Gatery Require Import FifoDefs FifoGray FifoArith FifoInv FifoTxDefs.
Import ListNotations.
Open Scope N_scope.

(* put -= cutoff on wrapped pointers *)
Lemma csub_general k a b : b <= a -> csub k (a mod cmod k) b = (a - b) mod cmod k.
Proof.
  intros H. pose proof (cmod_pos k) as HM. unfold csub. set (M := cmod k) in *.
  assert (HM0 : M <> 0) by lia.
  assert (Ha : a mod M = ((a - b) mod M + b mod M) mod M).
  { rewrite <- N.add_mod by exact HM0. f_equal. lia. }
  assert (U : (a - b) mod M < M) by (apply N.mod_upper_bound; exact HM0).
  assert (V : b mod M < M) by (apply N.mod_upper_bound; exact HM0).
  assert (Uu : ((a - b) mod M) mod M = (a - b) mod M) by (apply N.mod_mod; exact HM0).
  set (u := (a - b) mod M) in *. set (v := b mod M) in *.
  destruct (N.lt_ge_cases (u + v) M) as [L|L].
  - rewrite (N.mod_small (u + v) M) in Ha by exact L. rewrite Ha.
    replace (u + v + M - v) with (u + 1 * M) by lia.
    rewrite N.mod_add by exact HM0. exact Uu.
  - assert (Ha' : a mod M = u + v - M).
    { rewrite Ha. symmetry. apply (N.mod_unique _ _ 1); lia. }
    rewrite Ha'.
    replace (u + v - M + M - v) with u by lia.
    exact Uu.
Qed.

Lemma nth_error_skipn' {A} (l : list A) n m : nth_error (skipn n l) m = nth_error l (n + m).
Proof.
  revert l. induction n as [|n IH]; intros l; [reflexivity|].
  destruct l as [|a t]; [destruct m; reflexivity|]. cbn [skipn plus nth_error]. apply IH.
Qed.

Lemma skipn_skipn' {A} (l : list A) n m : skipn n (skipn m l) = skipn (n + m) l.
Proof.
  revert l. induction m as [|m IH]; intros l.
  - rewrite Nat.add_0_r. reflexivity.
  - destruct l as [|a t]; [rewrite !skipn_nil; reflexivity|].
    rewrite Nat.add_succ_r. cbn [skipn]. apply IH.
Qed.

Record tghost := mkTg {
  tg_C  : list N;   (* every item ever committed *)
  tg_S  : list N;   (* pushed, uncommitted *)
  tg_G  : N;        (* working get pointer (unbounded) *)
  tg_GC : N;        (* get checkpoint *)
  tg_lp : list N;   (* history of the put checkpoint on its way to the pop side *)
  tg_lg : list N    (* history of the get checkpoint on its way to the push side *)
}.
Definition tPC (g : tghost) : N := N.of_nat (length (tg_C g)).
Definition tP (g : tghost) : N := tPC g + N.of_nat (length (tg_S g)).
Definition cq_of (g : tghost) : cq :=
  mkCq (skipn (N.to_nat (tg_GC g)) (tg_C g)) (N.to_nat (tg_G g - tg_GC g)) (tg_S g).

Definition wrapm (c : cfg) (x : N) : N := x mod cmod (c_k c).

Record TInv (c : cfg) (g : tghost) (s : tst) : Prop := mkTInv {
  ti_put   : t_put s = tP g mod cmod (c_k c);
  ti_putCk : t_putCk s = tPC g mod cmod (c_k c);
  ti_get   : t_get s = tg_G g mod cmod (c_k c);
  ti_getCk : t_getCk s = tg_GC g mod cmod (c_k c);
  ti_GC    : tg_GC g <= tg_G g;
  ti_lp    : t_toPop s = map (wrapm c) (tg_lp g);
  ti_lg    : t_toPush s = map (wrapm c) (tg_lg g);
  ti_lenp  : length (tg_lp g) = (c_lat c - 1)%nat;
  ti_leng  : length (tg_lg g) = (c_lat c - 1)%nat;
  ti_descp : desc (tPC g :: tg_lp g);
  ti_descg : desc (tg_GC g :: tg_lg g);
  ti_hdp   : hd (tPC g) (tg_lp g) = tPC g;
  ti_hdg   : hd (tg_GC g) (tg_lg g) = tg_GC g;
  ti_vis   : tg_G g <= last (tg_lp g) (tPC g);
  ti_empty : t_empty s = false -> tg_G g < last (tg_lp g) (tPC g);
  ti_room  : tP g <= last (tg_lg g) (tg_GC g) + 2 ^ c_k c;
  ti_full  : t_full s = false -> tP g < last (tg_lg g) (tg_GC g) + 2 ^ c_k c;
  ti_memC  : forall i, tg_GC g <= i -> i < tPC g ->
             t_mem s (i mod 2 ^ c_k c) = Some (nth (N.to_nat i) (tg_C g) 0);
  ti_memS  : forall i, tPC g <= i -> i < tP g ->
             t_mem s (i mod 2 ^ c_k c) = Some (nth (N.to_nat (i - tPC g)) (tg_S g) 0);
  ti_peek  : t_empty s = false -> t_peek s = Some (nth (N.to_nat (tg_G g)) (tg_C g) 0)
}.

Definition tgstep (s : tst) (g : tghost) (e : tevent) : tghost :=
  let acc := te_pushReq e && negb (t_full s) in
  let del := te_popReq e && negb (t_empty s) in
  let S1 := if acc then tg_S g ++ [te_data e] else tg_S g in
  let S2 := if te_rollback e then [] else S1 in
  let add := if te_commit e then firstn (length S2 - N.to_nat (te_cutoff e)) S2 else [] in
  let S' := if te_commit e then [] else S2 in
  let G1 := if del then tg_G g + 1 else tg_G g in
  let G2 := if te_popRollback e then tg_GC g else G1 in
  let GC' := if te_popCommit e then G2 else tg_GC g in
  let C' := tg_C g ++ add in
  mkTg C' S' G2 GC'
       (line_upd true true false (N.of_nat (length C')) (tg_lp g))
       (line_upd true true false GC' (tg_lg g)).

Lemma shift_in_line_upd x l : shift_in x l = line_upd true true false x l.
Proof. destruct l as [|h t]; reflexivity. Qed.

Section TxStep.
  Variable c : cfg.
  Variables (g : tghost) (s : tst) (e : tevent).
  Hypothesis HI : TInv c g s.
  Hypothesis Hev : tev_ok (cq_of g) (tobserve s) e.

  Let k := c_k c.
  Let K := 2 ^ k.
  Let M := cmod k.
  Let PC := tPC g.
  Let P := tP g.
  Let G := tg_G g.
  Let GC := tg_GC g.
  Let pv := te_pushReq e && negb (t_full s).
  Let ov := te_popReq e && negb (t_empty s).
  Let cm := te_commit e.
  Let rb := te_rollback e.
  Let pcm := te_popCommit e.
  Let prb := te_popRollback e.
  Let cut := te_cutoff e.
  Let g' := tgstep s g e.
  Let s' := tstep c s e.
  Let P1 := P + (if pv then 1 else 0).
  Let P2 := if rb then PC else P1.
  Let P3 := if cm then P2 - cut else P2.
  Let PC' := if cm then P3 else PC.
  Let G1 := G + (if ov then 1 else 0).
  Let G2 := if prb then GC else G1.
  Let GC' := if pcm then G2 else GC.
  Let S1 := if pv then tg_S g ++ [te_data e] else tg_S g.
  Let lastp := last (tg_lp g) PC.
  Let lastg := last (tg_lg g) GC.
  Let obsP := last (tg_lp g) PC'.
  Let obsG := last (tg_lg g) GC'.

  Ltac ulia := unfold K, k in *; lia.

  Lemma tK_pos : 0 < K. Proof. apply pow2_pos. Qed.

  Lemma not_both : cm && rb = false /\ pcm && prb = false.
  Proof. destruct Hev as [A [B _]]. split; assumption. Qed.

  Lemma S1_len : N.of_nat (length S1) = P1 - PC.
  Proof.
    unfold S1, P1, P, tP. fold PC. destruct pv.
    - rewrite app_length. cbn. lia.
    - lia.
  Qed.

  Lemma cut_ok : cm = true -> cut <= P1 - PC.
  Proof.
    intros H. destruct Hev as [_ [_ C]]. specialize (C H).
    cbn [tobserve to_full cq_of cq_S] in C. fold pv in C. fold S1 in C.
    rewrite <- S1_len. unfold cut. lia.
  Qed.

  Lemma lastp_le' : lastp <= PC. Proof. apply desc_last_le, (ti_descp c g s HI). Qed.
  Lemma lastg_le' : lastg <= GC. Proof. apply desc_last_le, (ti_descg c g s HI). Qed.

  Lemma pv_room' : pv = true -> P < lastg + K.
  Proof.
    unfold pv. intros H. apply andb_prop in H. destruct H as [_ H].
    apply negb_true_iff in H. apply (ti_full c g s HI H).
  Qed.
  Lemma ov_vis' : ov = true -> G < lastp.
  Proof.
    unfold ov. intros H. apply andb_prop in H. destruct H as [_ H].
    apply negb_true_iff in H. apply (ti_empty c g s HI H).
  Qed.

  (* the order of all the pointers around the step *)
  Lemma order :
    GC <= GC' /\ GC' <= G2 /\ G2 <= G1 /\ G1 <= lastp /\ lastp <= PC /\ PC <= PC' /\ PC' <= P3 /\
    P3 <= P1 /\ P1 <= lastg + K /\ lastg <= GC /\ PC <= P /\ P <= P1 /\ GC <= G /\
    (cm = false -> rb = false -> P3 = P1) /\ (cm = false -> rb = true -> P3 = PC) /\
    (cm = true -> P3 = P1 - cut /\ cut <= P1 - PC).
  Proof.
    pose proof lastp_le'. pose proof lastg_le'. pose proof (ti_GC c g s HI) as HG. fold GC G in HG.
    pose proof (ti_vis c g s HI) as Hv. fold G lastp PC in Hv.
    pose proof (ti_room c g s HI) as Hr. fold P lastg GC k K in Hr.
    destruct not_both as [NB1 NB2].
    assert (HPP : PC <= P) by (unfold P, tP; fold PC; lia).
    assert (HG1 : G1 <= lastp) by (unfold G1; destruct ov eqn:E; [apply ov_vis' in E|]; lia).
    assert (HP1 : P1 <= lastg + K) by (unfold P1; destruct pv eqn:E; [apply pv_room' in E|]; ulia).
    assert (HPP1 : P <= P1) by (unfold P1; destruct pv; lia).
    assert (HGG1 : G <= G1) by (unfold G1; destruct ov; lia).
    pose proof cut_ok as HC.
    unfold GC', G2, PC', P3, P2 in *.
    destruct cm, rb, pcm, prb; try discriminate; cbn [andb] in *;
      try specialize (HC eq_refl); repeat split; intros; try discriminate; ulia.
  Qed.

  Lemma obsP_b : G2 <= obsP /\ obsP <= PC' /\ lastp <= obsP.
  Proof.
    destruct order as (O1 & O2 & O3 & O4 & O5 & O6 & O7 & O8 & O9 & O10 & O11 & O12 & O13 & O14 & O15 & O16).
    assert (lastp <= obsP) by (apply last_mono_default; assumption).
    assert (obsP <= PC').
    { apply desc_last_le. apply (desc_raise PC); [assumption | apply (ti_descp c g s HI)]. }
    repeat split; try assumption. lia.
  Qed.
  Lemma obsG_b : obsG <= GC' /\ P3 <= obsG + K /\ lastg <= obsG.
  Proof.
    destruct order as (O1 & O2 & O3 & O4 & O5 & O6 & O7 & O8 & O9 & O10 & O11 & O12 & O13 & O14 & O15 & O16).
    assert (lastg <= obsG) by (apply last_mono_default; assumption).
    assert (obsG <= GC').
    { apply desc_last_le. apply (desc_raise GC); [assumption | apply (ti_descg c g s HI)]. }
    repeat split; try assumption. ulia.
  Qed.

  (* ghost next values *)
  Lemma g'_C_len : N.of_nat (length (tg_C g')) = PC'.
  Proof.
    destruct order as (O1 & O2 & O3 & O4 & O5 & O6 & O7 & O8 & O9 & O10 & O11 & O12 & O13 & O14 & O15 & O16).
    destruct not_both as [NB1 _].
    unfold g', tgstep. cbn [tg_C]. fold pv cm rb cut. fold S1. rewrite app_length.
    unfold PC', P3, P2. fold PC.
    assert (Hc : cm = true \/ cm = false) by (destruct cm; auto). destruct Hc as [Hc|Hc]; rewrite Hc in *.
    - assert (Hrb : rb = false) by (destruct rb; [discriminate | reflexivity]).
      rewrite Hrb. rewrite firstn_length. pose proof S1_len.
      destruct (O16 eq_refl) as [_ Hcut]. unfold PC, tPC in *. lia.
    - cbn [length]. unfold PC, tPC. lia.
  Qed.
  Lemma g'_P : tP g' = P3.
  Proof.
    destruct order as (O1 & O2 & O3 & O4 & O5 & O6 & O7 & O8 & O9 & O10 & O11 & O12 & O13 & O14 & O15 & O16).
    destruct not_both as [NB1 _].
    unfold tP, tPC. rewrite g'_C_len. unfold g', tgstep. cbn [tg_S]. fold pv cm rb. fold S1.
    pose proof S1_len. unfold PC'.
    assert (Hc : cm = true \/ cm = false) by (destruct cm; auto). destruct Hc as [Hc|Hc]; rewrite Hc in *.
    - cbn [length]. lia.
    - assert (Hr : rb = true \/ rb = false) by (destruct rb; auto). destruct Hr as [Hr|Hr]; rewrite Hr in *.
      + cbn [length]. rewrite (O15 eq_refl eq_refl). lia.
      + rewrite (O14 eq_refl eq_refl). lia.
  Qed.
  Lemma G_next_eq : (if ov then G + 1 else G) = G1.
  Proof. unfold G1. destruct ov; lia. Qed.
  Lemma g'_G : tg_G g' = G2.
  Proof. unfold g', tgstep. cbn [tg_G]. fold ov prb G GC. rewrite G_next_eq. reflexivity. Qed.
  Lemma g'_GC : tg_GC g' = GC'.
  Proof. unfold g', tgstep. cbn [tg_GC]. fold ov prb pcm G GC. rewrite G_next_eq. reflexivity. Qed.

  (* concrete next values *)
  Lemma put3_eq :
    (if te_commit e then csubw k (if te_rollback e then t_putCk s else inc k (t_put s) pv) (te_cutoff e)
     else (if te_rollback e then t_putCk s else inc k (t_put s) pv)) = P3 mod M.
  Proof.
    destruct order as (O1 & O2 & O3 & O4 & O5 & O6 & O7 & O8 & O9 & O10 & O11 & O12 & O13 & O14 & O15 & O16).
    assert (E2 : (if te_rollback e then t_putCk s else inc k (t_put s) pv) = P2 mod M).
    { unfold P2. fold rb. destruct rb.
      - apply (ti_putCk c g s HI).
      - rewrite (ti_put c g s HI). unfold P1. apply inc_mod. }
    rewrite E2. unfold P3. fold cm cut.
    assert (Hc : cm = true \/ cm = false) by (destruct cm; auto). destruct Hc as [Hc|Hc]; rewrite Hc in *; [|reflexivity].
    unfold csubw. apply csub_general.
    destruct not_both as [NB _]. rewrite Hc in NB. cbn in NB. unfold P2. rewrite NB.
    destruct (O16 eq_refl). lia.
  Qed.
  Lemma putCk'_eq :
    (if te_commit e then
       (if te_commit e then csubw k (if te_rollback e then t_putCk s else inc k (t_put s) pv) (te_cutoff e)
        else (if te_rollback e then t_putCk s else inc k (t_put s) pv))
     else t_putCk s) = PC' mod M.
  Proof.
    unfold PC'. fold cm.
    assert (Hc : cm = true \/ cm = false) by (destruct cm; auto). destruct Hc as [Hc|Hc]; rewrite Hc.
    - pose proof put3_eq as H. fold cm in H. rewrite Hc in H. exact H.
    - apply (ti_putCk c g s HI).
  Qed.
  Lemma get2_eq : (if te_popRollback e then t_getCk s else inc k (t_get s) ov) = G2 mod M.
  Proof.
    unfold G2. fold prb. destruct prb.
    - apply (ti_getCk c g s HI).
    - rewrite (ti_get c g s HI). unfold G1. apply inc_mod.
  Qed.
  Lemma getCk'_eq :
    (if te_popCommit e then (if te_popRollback e then t_getCk s else inc k (t_get s) ov) else t_getCk s) = GC' mod M.
  Proof.
    unfold GC'. fold pcm. destruct pcm.
    - apply get2_eq.
    - apply (ti_getCk c g s HI).
  Qed.

  Lemma t_popPut_eq x : x = PC' mod M -> last (t_toPop s) x = obsP mod M.
  Proof. intros ->. rewrite (ti_lp c g s HI). change (PC' mod M) with (wrapm c PC'). rewrite last_map. reflexivity. Qed.
  Lemma t_pushGet_eq x : x = GC' mod M -> last (t_toPush s) x = obsG mod M.
  Proof. intros ->. rewrite (ti_lg c g s HI). change (GC' mod M) with (wrapm c GC'). rewrite last_map. reflexivity. Qed.

  Lemma s'_t_empty : t_empty s' = (obsP =? G2).
  Proof.
    unfold s', tstep. cbn [t_empty]. fold k pv ov.
    rewrite (t_popPut_eq _ putCk'_eq), get2_eq.
    destruct order as (O1 & O2 & O3 & O4 & O5 & O6 & O7 & O8 & O9 & O10 & O11 & O12 & O13 & O14 & O15 & O16). destruct obsP_b as [A [B _]].
    apply cmp_empty_spec; ulia.
  Qed.
  Lemma s'_t_full : t_full s' = (P3 =? obsG + K).
  Proof.
    unfold s', tstep. cbn [t_full]. fold k pv ov.
    rewrite (t_pushGet_eq _ getCk'_eq), put3_eq.
    destruct order as (O1 & O2 & O3 & O4 & O5 & O6 & O7 & O8 & O9 & O10 & O11 & O12 & O13 & O14 & O15 & O16). destruct obsG_b as [A [B _]].
    apply cmp_full_spec; ulia.
  Qed.

  Lemma tlp'_facts :
    desc (PC' :: tg_lp g') /\ hd PC' (tg_lp g') = PC' /\ lastp <= last (tg_lp g') PC' /\
    obsP <= last (tg_lp g') PC'.
  Proof.
    destruct order as (O1 & O2 & O3 & O4 & O5 & O6 & O7 & O8 & O9 & O10 & O11 & O12 & O13 & O14 & O15 & O16).
    assert (E : tg_lp g' = line_upd true true false PC' (tg_lp g)).
    { unfold g', tgstep. cbn [tg_lp]. f_equal. apply g'_C_len. }
    rewrite E.
    destruct (line_upd_inv true true false PC PC' (tg_lp g) (ti_descp c g s HI) (ti_hdp c g s HI))
      as [A [B [C D]]]; try assumption; try discriminate.
    repeat split; try assumption. apply D. reflexivity.
  Qed.
  Lemma tlg'_facts :
    desc (GC' :: tg_lg g') /\ hd GC' (tg_lg g') = GC' /\ lastg <= last (tg_lg g') GC' /\
    obsG <= last (tg_lg g') GC'.
  Proof.
    destruct order as (O1 & O2 & O3 & O4 & O5 & O6 & O7 & O8 & O9 & O10 & O11 & O12 & O13 & O14 & O15 & O16).
    assert (E : tg_lg g' = line_upd true true false GC' (tg_lg g)).
    { unfold g', tgstep. cbn [tg_lg]. f_equal. fold ov prb pcm G GC. rewrite G_next_eq. reflexivity. }
    rewrite E.
    destruct (line_upd_inv true true false GC GC' (tg_lg g) (ti_descg c g s HI) (ti_hdg c g s HI))
      as [A [B [C D]]]; try assumption; try discriminate.
    repeat split; try assumption. apply D. reflexivity.
  Qed.

  (* memory after this cycle's write: committed range and the extended staged range *)
  Lemma mem1_C i : GC <= i -> i < PC ->
    t_mem s' (i mod K) = Some (nth (N.to_nat i) (tg_C g) 0).
  Proof.
    intros Hlo Hhi. destruct order as (O1 & O2 & O3 & O4 & O5 & O6 & O7 & O8 & O9 & O10 & O11 & O12 & O13 & O14 & O15 & O16). pose proof tK_pos.
    unfold s', tstep. cbn [t_mem]. fold k pv.
    destruct pv eqn:Epv.
    - pose proof (pv_room' Epv). rewrite (ti_put c g s HI). fold k. rewrite low_mod. fold K P.
      unfold mem_write.
      assert (Hd : i mod K <> P mod K) by (apply slot_distinct; ulia).
      apply N.eqb_neq in Hd. rewrite Hd. apply (ti_memC c g s HI); assumption.
    - apply (ti_memC c g s HI); assumption.
  Qed.
  Lemma mem1_S i : PC <= i -> i < P1 ->
    t_mem s' (i mod K) = Some (nth (N.to_nat (i - PC)) S1 0).
  Proof.
    intros Hlo Hhi. destruct order as (O1 & O2 & O3 & O4 & O5 & O6 & O7 & O8 & O9 & O10 & O11 & O12 & O13 & O14 & O15 & O16). pose proof tK_pos.
    unfold s', tstep. cbn [t_mem]. fold k pv. unfold S1, P1 in *.
    destruct pv eqn:Epv.
    - pose proof (pv_room' Epv). rewrite (ti_put c g s HI). fold k. rewrite low_mod. fold K P.
      unfold mem_write.
      destruct (N.eq_dec i P) as [->|Hne].
      + rewrite N.eqb_refl. f_equal.
        replace (N.to_nat (P - PC)) with (length (tg_S g)) by (unfold P, tP, PC; lia).
        symmetry. apply nth_middle.
      + assert (Hd : i mod K <> P mod K) by (apply slot_distinct; ulia).
        apply N.eqb_neq in Hd. rewrite Hd.
        rewrite app_nth1 by (unfold P, tP, PC in *; lia).
        apply (ti_memS c g s HI); fold PC P; lia.
    - apply (ti_memS c g s HI); fold PC P; lia.
  Qed.

  Lemma C'_nth_old i : i < PC -> nth (N.to_nat i) (tg_C g') 0 = nth (N.to_nat i) (tg_C g) 0.
  Proof.
    intros H. unfold g', tgstep. cbn [tg_C]. apply app_nth1. unfold PC, tPC in H. lia.
  Qed.

  Lemma mem'_C i : GC' <= i -> i < PC' ->
    t_mem s' (i mod K) = Some (nth (N.to_nat i) (tg_C g') 0).
  Proof.
    intros Hlo Hhi. destruct order as (O1 & O2 & O3 & O4 & O5 & O6 & O7 & O8 & O9 & O10 & O11 & O12 & O13 & O14 & O15 & O16).
    destruct (N.lt_ge_cases i PC) as [L|L].
    - rewrite C'_nth_old by exact L. apply mem1_C; lia.
    - (* freshly committed: it was staged *)
      assert (Hc : cm = true) by (unfold PC' in Hhi; destruct cm; [reflexivity | lia]).
      destruct not_both as [NB _]. rewrite Hc in NB. cbn in NB.
      destruct (O16 Hc) as [HP3 Hcut].
      unfold PC' in Hhi. rewrite Hc in Hhi.
      rewrite mem1_S by lia. f_equal.
      unfold g', tgstep. cbn [tg_C]. fold pv cm rb cut. fold S1. rewrite Hc, NB.
      rewrite app_nth2 by (unfold PC, tPC in L; lia).
      replace (N.to_nat i - length (tg_C g))%nat with (N.to_nat (i - PC)) by (unfold PC, tPC; lia).
      pose proof S1_len as HS.
      rewrite <- (firstn_skipn (length S1 - N.to_nat cut) S1) at 1.
      apply app_nth1. rewrite firstn_length. lia.
  Qed.

  Lemma mem'_S i : PC' <= i -> i < P3 ->
    t_mem s' (i mod K) = Some (nth (N.to_nat (i - PC')) (tg_S g') 0).
  Proof.
    intros Hlo Hhi. destruct order as (O1 & O2 & O3 & O4 & O5 & O6 & O7 & O8 & O9 & O10 & O11 & O12 & O13 & O14 & O15 & O16).
    assert (Hc : cm = false) by (unfold PC' in Hlo; destruct cm; [lia | reflexivity]).
    assert (Hr : rb = false).
    { destruct rb eqn:Er; [|reflexivity]. rewrite (O15 Hc eq_refl) in Hhi. unfold PC' in Hlo. rewrite Hc in Hlo. lia. }
    rewrite (O14 Hc Hr) in Hhi. unfold PC' in *. rewrite Hc in *.
    rewrite mem1_S by lia. f_equal.
    unfold g', tgstep. cbn [tg_S]. fold pv cm rb. fold S1. rewrite Hc, Hr. reflexivity.
  Qed.

  Theorem tinv_step : TInv c g' s'.
  Proof.
    pose proof tK_pos as HK. destruct order as (O1 & O2 & O3 & O4 & O5 & O6 & O7 & O8 & O9 & O10 & O11 & O12 & O13 & O14 & O15 & O16).
    destruct obsP_b as [OP1 [OP2 OP3]]. destruct obsG_b as [OG1 [OG2 OG3]].
    destruct tlp'_facts as [LP1 [LP2 [LP3 LP4]]]. destruct tlg'_facts as [LG1 [LG2 [LG3 LG4]]].
    pose proof g'_C_len as EC. pose proof g'_P as EP. pose proof g'_G as EG. pose proof g'_GC as EGC.
    assert (EPC : tPC g' = PC') by exact EC.
    constructor; rewrite ?EPC, ?EP, ?EG, ?EGC.
    - unfold s', tstep. cbn [t_put]. fold k pv ov. apply put3_eq.
    - unfold s', tstep. cbn [t_putCk]. fold k pv ov. apply putCk'_eq.
    - unfold s', tstep. cbn [t_get]. fold k pv ov. apply get2_eq.
    - unfold s', tstep. cbn [t_getCk]. fold k pv ov. apply getCk'_eq.
    - assumption.
    - unfold s', tstep, g', tgstep. cbn [t_toPop tg_lp]. fold k pv ov.
      rewrite shift_in_line_upd, line_upd_map, <- (ti_lp c g s HI). f_equal.
      rewrite putCk'_eq. unfold wrapm. f_equal. symmetry. apply g'_C_len.
    - unfold s', tstep, g', tgstep. cbn [t_toPush tg_lg]. fold k pv ov.
      rewrite shift_in_line_upd, line_upd_map, <- (ti_lg c g s HI). f_equal.
      rewrite getCk'_eq. unfold wrapm. f_equal. fold prb pcm G GC. rewrite G_next_eq. reflexivity.
    - unfold g', tgstep. cbn [tg_lp]. rewrite line_upd_length. apply (ti_lenp c g s HI).
    - unfold g', tgstep. cbn [tg_lg]. rewrite line_upd_length. apply (ti_leng c g s HI).
    - exact LP1.
    - exact LG1.
    - exact LP2.
    - exact LG2.
    - lia.
    - rewrite s'_t_empty. intros E. apply N.eqb_neq in E. lia.
    - ulia.
    - rewrite s'_t_full. intros E. apply N.eqb_neq in E. ulia.
    - fold k K. apply mem'_C.
    - fold k K. apply mem'_S.
    - rewrite s'_t_empty. intros E. apply N.eqb_neq in E.
      unfold s', tstep. cbn [t_peek]. fold k pv ov. rewrite get2_eq. fold k. rewrite low_mod. fold K.
      destruct (c_lat c <=? 1)%nat eqn:EL.
      + apply Nat.leb_le in EL.
        assert (Hnil : tg_lp g = []).
        { pose proof (ti_lenp c g s HI) as Hl. destruct (tg_lp g); [reflexivity | cbn in Hl; lia]. }
        assert (obsP = PC') by (unfold obsP; rewrite Hnil; reflexivity).
        pose proof (mem'_C G2 ltac:(lia) ltac:(lia)) as Hm.
        unfold s', tstep in Hm. cbn [t_mem] in Hm. fold k pv in Hm. exact Hm.
      + apply Nat.leb_gt in EL.
        assert (Hne : tg_lp g <> []).
        { pose proof (ti_lenp c g s HI) as Hl. destruct (tg_lp g); [cbn in Hl; lia | discriminate]. }
        assert (obsP = lastp) by (apply last_nonempty_default; exact Hne).
        rewrite C'_nth_old by lia. apply (ti_memC c g s HI); fold GC PC; lia.
  Qed.

  (* what the interface shows, against the checkpointed queue *)
  Lemma tobs_ok :
    cq_step_ok K (cq_of g) (tobserve s) e /\ cq_next (cq_of g) (tobserve s) e = cq_of g'.
  Proof.
    pose proof tK_pos as HK. destruct order as (O1 & O2 & O3 & O4 & O5 & O6 & O7 & O8 & O9 & O10 & O11 & O12 & O13 & O14 & O15 & O16).
    pose proof lastg_le'. pose proof lastp_le'.
    pose proof (ti_room c g s HI) as Hroom. fold P lastg GC k K in Hroom.
    pose proof (ti_vis c g s HI) as Hvis. fold G lastp PC in Hvis.
    assert (HlenQ : length (cq_Q (cq_of g)) = N.to_nat (PC - GC)).
    { cbn [cq_of cq_Q]. rewrite skipn_length. fold GC. unfold PC, tPC. lia. }
    assert (HlenS : N.of_nat (length (cq_S (cq_of g))) = P - PC).
    { cbn [cq_of cq_S]. unfold P, tP. fold PC. lia. }
    split.
    - unfold cq_step_ok. rewrite Nat2N.inj_add, HlenS, HlenQ.
      split; [ulia|]. split; [cbn [cq_of cq_r]; fold G GC; lia|]. split.
      + cbn [tobserve to_empty to_peek]. intros E.
        pose proof (ti_empty c g s HI E) as Hv. fold G lastp PC in Hv.
        exists (nth (N.to_nat G) (tg_C g) 0). split; [|apply (ti_peek c g s HI E)].
        cbn [cq_of cq_Q cq_r]. fold G GC.
        rewrite nth_error_skipn'.
        replace (N.to_nat GC + N.to_nat (G - GC))%nat with (N.to_nat G) by lia.
        apply nth_error_nth'. unfold PC, tPC in *. lia.
      + cbn [tobserve to_full]. intros Hp Hf.
        assert (Epv : pv = true) by (unfold pv; rewrite Hp, Hf; reflexivity).
        pose proof (pv_room' Epv). ulia.
    - unfold cq_next. unfold cq_of. cbn [tobserve to_full to_empty cq_Q cq_r cq_S].
      fold pv ov cm rb pcm prb cut GC G.
      rewrite g'_G, g'_GC.
      unfold g', tgstep. cbn [tg_C tg_S]. fold pv ov cm rb pcm prb cut. fold S1.
      f_equal.
      + (* committed part *)
        set (add := if cm then firstn (length (if rb then [] else S1) - N.to_nat cut) (if rb then [] else S1) else []).
        rewrite skipn_skipn'.
        assert (Hdrop : ((if pcm then if prb then 0 else if ov then S (N.to_nat (G - GC)) else N.to_nat (G - GC) else 0)
                          + N.to_nat GC)%nat = N.to_nat GC').
        { unfold GC', G2, G1. destruct pcm, prb, ov; lia. }
        rewrite Hdrop. rewrite skipn_app.
        replace (N.to_nat GC' - length (tg_C g))%nat with 0%nat by (unfold PC, tPC in *; lia).
        reflexivity.
      + unfold GC', G2, G1. destruct pcm, prb, ov; lia.
  Qed.
End TxStep.

(* ---------------- runs ---------------- *)
Definition tg_init (c : cfg) : tghost :=
  mkTg [] [] 0 0 (repeat 0 (c_lat c - 1)%nat) (repeat 0 (c_lat c - 1)%nat).

Lemma map_wrap_repeat0 c n : map (wrapm c) (repeat 0 n) = repeat 0 n.
Proof.
  induction n as [|n IH]; [reflexivity|]. cbn [repeat map]. rewrite IH. reflexivity.
Qed.

Lemma tinv_init c : TInv c (tg_init c) (tinit c).
Proof.
  pose proof (pow2_pos (c_k c)) as HK. pose proof (cmod_pos (c_k c)) as HM.
  constructor; unfold tg_init, tinit, tP, tPC; cbn [tg_C tg_S tg_G tg_GC tg_lp tg_lg t_put t_putCk t_get t_getCk
    t_toPop t_toPush t_empty t_full t_mem t_peek length N.of_nat N.add];
    rewrite ?last_repeat0, ?hd_repeat0, ?map_wrap_repeat0, ?repeat_length;
    try reflexivity; try (symmetry; apply N.mod_0_l; lia); try lia;
    try apply desc_repeat0; try discriminate.
Qed.

Lemma trun_cons c s e r :
  trun c s (e :: r) = ((tobserve s, e) :: fst (trun c (tstep c s e) r), snd (trun c (tstep c s e) r)).
Proof. cbn [trun]. destruct (trun c (tstep c s e) r); reflexivity. Qed.

Lemma trun_inv c : forall evs s g, TInv c g s ->
  cq_spec (depth c) (cq_of g) (fst (trun c s evs)).
Proof.
  induction evs as [|e r IH]; intros s g HI.
  - exact I.
  - rewrite trun_cons. cbn [fst cq_spec]. intros Hev.
    destruct (tobs_ok c g s e HI Hev) as [Hok Hn]. split; [exact Hok|].
    rewrite Hn. apply IH. apply tinv_step; assumption.
Qed.

Lemma txfifo_refines_checkpoint_queue_proof : forall c evs,
  cq_spec (depth c) (mkCq [] 0 []) (fst (trun c (tinit c) evs)).
Proof.
  intros c evs. apply (trun_inv c evs (tinit c) (tg_init c) (tinv_init c)).
Qed.
