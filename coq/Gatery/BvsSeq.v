(* C18 -- proofs, part 11: operation sequences.
   abs (run ops regs) = run_spec ops (abs regs)  and equal observations, for every sequence
   whose operations satisfy the (boolean) C++ preconditions [ops_ok] at the sizes current
   when they execute. *)
From Coq Require Import List NArith ZArith Bool Lia.
From Gatery Require Import Bits BvsDefs BvsSpec BvsLeaf BvsWords BvsCopy BvsAbs BvsOps BvsEq
     BvsQuery BvsCmp BvsMerge BvsBig BvsMore.
Import ListNotations.
Ltac Zify.zify_post_hook ::= Z.to_euclidean_division_equations.
Local Open Scope N_scope.

Definition good (np : nat) (s : bvs) : Prop := wf s /\ clean s /\ length (planes s) = np.
Definition inv (np : nat) (rs : regs) : Prop := Forall (good np) rs.

(* ---- number of planes ---- *)
Lemma np_on_plane s p f : length (planes (on_plane s p f)) = length (planes s).
Proof. unfold on_plane. cbn [planes]. apply length_upd_nat. Qed.
Lemma np_resize s n : length (planes (resize s n)) = length (planes s).
Proof. unfold resize. cbn [planes]. apply map_length. Qed.
Lemma np_setb s p i b : length (planes (setb s p i b)) = length (planes s).
Proof. unfold setb, set1, clear1. destruct b; apply np_on_plane. Qed.
Lemma np_copyRange d dOff s sOff size :
  length (planes s) = length (planes d) -> length (planes (copyRange d dOff s sOff size)) = length (planes d).
Proof. intro H. unfold copyRange. cbn [planes]. rewrite length_map2. lia. Qed.
Lemma np_extractS s start size : length (planes (extractS s start size)) = length (planes s).
Proof.
  unfold extractS. destruct ((start mod 8 =? 0) && (size mod 8 =? 0)); unfold copyRange; cbn [planes];
    rewrite planes_resize_empty, length_map2, repeat_length; lia.
Qed.
Lemma np_insertS d st off size :
  length (planes st) = length (planes d) -> length (planes (insertS d st off size)) = length (planes d).
Proof. intro H. unfold insertS. cbn [planes]. rewrite length_map2. lia. Qed.
Lemma np_append d s :
  length (planes s) = length (planes d) -> length (planes (append d s)) = length (planes d).
Proof. intro H. unfold append. rewrite np_copyRange; rewrite np_resize; auto. Qed.

(* ---- registers ---- *)
Lemma good_empty np : good np (mk_empty np).
Proof.
  unfold good, wf, clean, mk_empty. cbn [bsize planes]. repeat split.
  - apply Forall_forall. intros w Hw. apply repeat_spec in Hw. subst w. split; [reflexivity | constructor].
  - apply Forall_forall. intros w Hw. apply repeat_spec in Hw. subst w. intros i _. apply wbit_nil.
  - apply repeat_length.
Qed.

Lemma good_getr np rs r : inv np rs -> good np (getr np rs r).
Proof.
  intro H. unfold getr. destruct (Nat.lt_ge_cases r (length rs)) as [Hr | Hr].
  - eapply Forall_forall; [exact H | apply nth_In; exact Hr].
  - rewrite nth_overflow by exact Hr. apply good_empty.
Qed.

Lemma abs_empty np : abs (mk_empty np) = repeat [] np.
Proof. unfold abs, mk_empty. cbn [bsize planes]. induction np; simpl; [reflexivity | f_equal; assumption]. Qed.

Lemma abs_getr np rs r : abs (getr np rs r) = sgetr np (map abs rs) r.
Proof.
  unfold getr, sgetr. rewrite <- abs_empty. symmetry. apply (map_nth abs).
Qed.

Lemma bsize_getr np rs r : bsize (getr np rs r) = sz_of (map bsize rs) r.
Proof. unfold getr, sz_of. change 0 with (bsize (mk_empty np)). symmetry. apply (map_nth bsize). Qed.

Lemma upd_nat_same_val {A} (l : list A) k d : upd_nat l k (nth k l d) = l.
Proof.
  revert k; induction l as [|x l IH]; intros [|k]; simpl; auto. f_equal. apply IH.
Qed.

Lemma mut_case np nr rs r s' :
  inv np rs -> length rs = nr -> good np s' ->
  inv np (upd_nat rs r s') /\ length (upd_nat rs r s') = nr
  /\ map bsize (upd_nat rs r s') = upd_nat (map bsize rs) r (bsize s')
  /\ map abs (upd_nat rs r s') = upd_nat (map abs rs) r (abs s').
Proof.
  intros H Hl Hg. repeat split.
  - apply Forall_upd_nat; assumption.
  - rewrite length_upd_nat. exact Hl.
  - apply map_upd_nat.
  - apply map_upd_nat.
Qed.

Lemma same_size np rs r n : n = bsize (getr np rs r) -> upd_nat (map bsize rs) r n = map bsize rs.
Proof.
  intros ->. rewrite bsize_getr. unfold sz_of. apply upd_nat_same_val.
Qed.

(* turn the boolean precondition into propositions *)
Ltac okprops H :=
  repeat match type of H with
  | (_ && _) = true => let H1 := fresh "K" in let H2 := fresh "K" in
                       apply andb_true_iff in H; destruct H as [H1 H2]; okprops H1; okprops H2
  end.
Ltac okconv :=
  repeat match goal with
  | H : (_ || _) = true |- _ => apply orb_true_iff in H
  | H : Nat.eqb _ _ = true |- _ => apply Nat.eqb_eq in H
  | H : Nat.ltb _ _ = true |- _ => apply Nat.ltb_lt in H
  | H : N.ltb _ _ = true |- _ => apply N.ltb_lt in H
  | H : N.leb _ _ = true |- _ => apply N.leb_le in H
  | H : N.eqb _ _ = true |- _ => apply N.eqb_eq in H
  | H : negb (Nat.eqb _ _) = true |- _ => apply negb_true_iff in H; apply Nat.eqb_neq in H
  end.

Ltac orconv :=
  match goal with
  | H : (?a <=? ?b) = true \/ (?c =? ?d) = true |- _ =>
    assert (a <= b \/ c = d) by (destruct H as [H|H]; [left; apply N.leb_le | right; apply N.eqb_eq]; exact H)
  end.

Section Step.
Variables (np nr : nat).
Hypothesis Hnp : (np = 2 \/ np = 4)%nat.

Lemma step_correct o rs :
  length rs = nr -> inv np rs -> op_ok np nr o (map bsize rs) = true ->
  inv np (fst (step np o rs)) /\ length (fst (step np o rs)) = nr
  /\ map bsize (fst (step np o rs)) = op_sizes o (map bsize rs)
  /\ map abs (fst (step np o rs)) = fst (step_spec np o (map abs rs))
  /\ snd (step np o rs) = snd (step_spec np o (map abs rs)).
Proof.
  intros Hl Hinv Hok.
  assert (G : forall r, good np (getr np rs r)) by (intro r; apply good_getr; exact Hinv).
  assert (A : forall r, abs (getr np rs r) = sgetr np (map abs rs) r) by (intro r; apply abs_getr).
  assert (S : forall r, sz_of (map bsize rs) r = bsize (getr np rs r)) by (intro r; symmetry; apply bsize_getr).
  assert (Hnp0 : (0 < np)%nat) by lia.
  assert (Q : inv np rs /\ length rs = nr /\ map bsize rs = map bsize rs /\ map abs rs = map abs rs)
    by (repeat split; assumption).
  destruct o; cbn [op_ok] in Hok; okprops Hok; okconv; rewrite ?S in *;
    cbn [step step_spec fst snd op_sizes];
    try (match goal with
         | |- context [upd_nat rs ?r ?s'] =>
           let M := fresh "M" in
           assert (M : good np s'); [ | destruct (mut_case np nr rs r s' Hinv Hl M) as (M1 & M2 & M3 & M4);
                                         split; [exact M1 | split; [exact M2 | split; [ rewrite M3 | split; [ rewrite M4 | reflexivity ]]]] ]
         end).
  (* OResize *)
  - destruct (G r) as (W & C & P). repeat split; [apply wf_resize | apply clean_resize | rewrite np_resize]; assumption.
  - reflexivity.
  - f_equal. rewrite <- A. destruct (G r) as (W & C & P). apply abs_resize; assumption.
  (* OGet *)
  - destruct (G r) as (W & C & P). split; [exact Hinv|]. repeat split; try assumption.
    rewrite <- ?A. rewrite get_abs by (try assumption; try (unfold VALUE, DEFINED, HIGH_IMPEDANCE in *; lia); try (cbv zeta; split; assumption)). reflexivity.
  (* OSet1 *)
  - destruct (G r) as (W & C & P). repeat split; [apply wf_set1 | apply clean_set1 | unfold set1; rewrite np_on_plane]; assumption.
  - apply (same_size np). reflexivity.
  - f_equal. rewrite <- A. destruct (G r) as (W & C & P). apply abs_set1; assumption.
  (* OSetB *)
  - destruct (G r) as (W & C & P). repeat split; [apply wf_setb | apply clean_setb | rewrite np_setb]; assumption.
  - apply (same_size np). unfold setb, set1, clear1. destruct b; reflexivity.
  - f_equal. rewrite <- A. destruct (G r) as (W & C & P). apply abs_setb; assumption.
  (* OClear *)
  - destruct (G r) as (W & C & P). repeat split; [apply wf_clear1 | apply clean_clear1 | unfold clear1; rewrite np_on_plane]; assumption.
  - apply (same_size np). reflexivity.
  - f_equal. rewrite <- A. destruct (G r) as (W & C & P). apply abs_clear1; assumption.
  (* OToggle *)
  - destruct (G r) as (W & C & P). repeat split; [apply wf_toggle | apply clean_toggle | unfold toggle; rewrite np_on_plane]; assumption.
  - apply (same_size np). reflexivity.
  - f_equal. rewrite <- A. destruct (G r) as (W & C & P). apply abs_toggle; assumption.
  (* OSetRange *)
  - destruct (G r) as (W & C & P). repeat split; [apply wf_setRange | apply clean_setRange | unfold setRange; rewrite np_on_plane]; assumption.
  - apply (same_size np). reflexivity.
  - f_equal. rewrite <- A. destruct (G r) as (W & C & P). apply abs_setRange; assumption.
  (* OInsertW *)
  - destruct (G r) as (W & C & P). repeat split; [apply wf_insertW | apply clean_insertW | unfold insertW; rewrite np_on_plane]; assumption.
  - apply (same_size np). reflexivity.
  - f_equal. rewrite <- A. destruct (G r) as (W & C & P). apply abs_insertW; assumption.
  (* OExtractW *)
  - destruct (G r) as (W & C & P). split; [exact Hinv|]. repeat split; try assumption.
    rewrite <- ?A. rewrite extractW_abs by (try assumption; try (unfold VALUE, DEFINED, HIGH_IMPEDANCE in *; lia); try (cbv zeta; split; assumption)). reflexivity.
  (* OInsertNS *)
  - destruct (G r) as (W & C & P). repeat split; [apply wf_insertNS | apply clean_insertNS | unfold insertNS; rewrite np_on_plane]; assumption.
  - apply (same_size np). reflexivity.
  - f_equal. rewrite <- A. destruct (G r) as (W & C & P). apply abs_insertNS; assumption.
  (* OExtractNS *)
  - destruct (G r) as (W & C & P). split; [exact Hinv|]. repeat split; try assumption.
    rewrite <- ?A. rewrite extractNS_abs by (try assumption; try (unfold VALUE, DEFINED, HIGH_IMPEDANCE in *; lia); try (cbv zeta; split; assumption)). reflexivity.
  (* OCopyRange *)
  - destruct (G rd) as (W & C & P). destruct (G rs0) as (W' & C' & P').
    repeat split; [apply wf_copyRange | apply clean_copyRange | rewrite np_copyRange]; try assumption; lia.
  - apply (same_size np). reflexivity.
  - f_equal. rewrite <- !A. destruct (G rd) as (W & C & P). destruct (G rs0) as (W' & C' & P').
    apply abs_copyRange; assumption.
  (* OCompareRange *)
  - destruct (G rd) as (W & C & P). destruct (G rs0) as (W' & C' & P').
    split; [exact Hinv|]. repeat split; try assumption.
    rewrite <- ?A.
    destruct Hnp as [E | E]; rewrite E in *; cbn [Nat.eqb].
    + rewrite compareRangeD_abs by (try assumption; try (unfold VALUE, DEFINED, HIGH_IMPEDANCE in *; lia); try (cbv zeta; split; assumption)). reflexivity.
    + rewrite compareRangeX_abs by (try assumption; try (unfold VALUE, DEFINED, HIGH_IMPEDANCE in *; lia); try (cbv zeta; split; assumption)). reflexivity.
  (* OExtractS *)
  - destruct (G rs0) as (W & C & P).
    repeat split; [apply wf_extractS | apply clean_extractS | rewrite np_extractS]; assumption.
  - f_equal. apply bsize_extractS.
  - f_equal. rewrite <- A. destruct (G rs0) as (W & C & P). apply abs_extractS; assumption.
  (* OInsertS *)
  - destruct (G rd) as (W & C & P). destruct (G rs0) as (W' & C' & P').
    repeat split; [apply wf_insertS | apply clean_insertS | rewrite np_insertS]; try assumption; lia.
  - apply (same_size np). reflexivity.
  - f_equal. rewrite <- !A. destruct (G rd) as (W & C & P). destruct (G rs0) as (W' & C' & P').
    apply abs_insertS; assumption.
  (* OAppend *)
  - destruct (G rd) as (W & C & P). destruct (G rs0) as (W' & C' & P').
    repeat split; [apply wf_append | apply clean_append | rewrite np_append]; try assumption; lia.
  - f_equal. rewrite bsize_append, !S. reflexivity.
  - f_equal. rewrite <- !A. destruct (G rd) as (W & C & P). destruct (G rs0) as (W' & C' & P').
    apply abs_append; assumption.
  (* OEq *)
  - destruct (G ra) as (W & C & P). destruct (G rb) as (W' & C' & P').
    split; [exact Hinv|]. repeat split; try assumption.
    rewrite <- ?A. rewrite eqS_abs; [reflexivity | assumption | assumption | lia |].
    intro E. rewrite E in P. simpl in P. lia.
  (* OAllOne *)
  - destruct (G r) as (W & C & P). split; [exact Hinv|]. repeat split; try assumption.
    rewrite <- ?A. rewrite allOne_abs by (try assumption; try (unfold VALUE, DEFINED, HIGH_IMPEDANCE in *; lia); try (cbv zeta; split; assumption)). reflexivity.
  (* OAllZero *)
  - destruct (G r) as (W & C & P). split; [exact Hinv|]. repeat split; try assumption.
    rewrite <- ?A. rewrite allZero_abs by (try assumption; try (unfold VALUE, DEFINED, HIGH_IMPEDANCE in *; lia); try (cbv zeta; split; assumption)). reflexivity.
  (* OAnyDefined *)
  - destruct (G r) as (W & C & P). split; [exact Hinv|]. repeat split; try assumption.
    rewrite <- ?A. rewrite anyDefined_abs by (try assumption; try (unfold VALUE, DEFINED, HIGH_IMPEDANCE in *; lia); try (cbv zeta; split; assumption)). reflexivity.
  (* OCompareValues *)
  - destruct (G ra) as (W & C & P). destruct (G rb) as (W' & C' & P').
    split; [exact Hinv|]. repeat split; try assumption.
    rewrite <- ?A. rewrite compareValues_abs by (try assumption; try (unfold VALUE, DEFINED, HIGH_IMPEDANCE in *; lia); try (cbv zeta; split; assumption)). reflexivity.
  (* OEqualOnDefined *)
  - destruct (G ra) as (W & C & P). destruct (G rb) as (W' & C' & P').
    split; [exact Hinv|]. repeat split; try assumption.
    rewrite <- ?A. rewrite equalOnDefined_abs by (try assumption; try (unfold VALUE, DEFINED, HIGH_IMPEDANCE in *; lia); try (cbv zeta; split; assumption)). reflexivity.
  (* OCanBeReplaced *)
  - destruct (G ra) as (W & C & P). destruct (G rb) as (W' & C' & P').
    split; [exact Hinv|]. repeat split; try assumption.
    rewrite <- ?A. rewrite canBeReplaced_abs by (try assumption; try (unfold VALUE, DEFINED, HIGH_IMPEDANCE in *; lia); try (cbv zeta; split; assumption)). reflexivity.
  (* OMerge *)
  - destruct (G rd) as (W & C & P). destruct (G rs0) as (W' & C' & P').
    destruct (merge_all (getr np rs rd) sd (getr np rs rs0) ss size) as (M1 & M2 & M3 & M4 & M5); try assumption; try lia.
    repeat split; try assumption. lia.
  - destruct (G rd) as (W & C & P). destruct (G rs0) as (W' & C' & P').
    destruct (merge_all (getr np rs rd) sd (getr np rs rs0) ss size) as (M1' & M2' & M3' & M4' & M5'); try assumption; try lia.
    apply (same_size np). exact M3'.
  - destruct (G rd) as (W & C & P). destruct (G rs0) as (W' & C' & P').
    destruct (merge_all (getr np rs rd) sd (getr np rs rs0) ss size) as (M1' & M2' & M3' & M4' & M5'); try assumption; try lia.
    f_equal. rewrite <- !A. exact M5'.
  (* OInsertBig *)
  - orconv. destruct (G r) as (W & C & P).
    repeat split; [apply wf_insertBigInt | apply clean_insertBigInt | unfold insertBigInt; rewrite np_on_plane]; assumption.
  - apply (same_size np). reflexivity.
  - orconv. f_equal. rewrite <- A. destruct (G r) as (W & C & P). apply abs_insertBigInt; assumption.
  (* OExtractBig *)
  - orconv. destruct (G r) as (W & C & P). split; [exact Hinv|]. repeat split; try assumption.
    rewrite <- ?A. rewrite extractBigInt_abs by (try assumption; try (unfold VALUE, DEFINED, HIGH_IMPEDANCE in *; lia); try (cbv zeta; split; assumption)). reflexivity.
  (* OAssign *)
  - apply G.
  - rewrite S. reflexivity.
  - f_equal. apply A.
  (* OSwap *)
  - destruct (mut_case np nr rs ra (getr np rs rb) Hinv Hl (G rb)) as (I1 & L1 & B1 & A1).
    destruct (mut_case np nr _ rb (getr np rs ra) I1 L1 (G ra)) as (I2 & L2 & B2 & A2).
    split; [exact I2 | split; [exact L2 | split; [|split; [|reflexivity]]]].
    + rewrite B2, B1, !S. reflexivity.
    + rewrite A2, A1, !A. reflexivity.
  (* OMove *)
  - destruct (mut_case np nr rs rd (getr np rs rs0) Hinv Hl (G rs0)) as (I1 & L1 & B1 & A1).
    destruct (mut_case np nr _ rs0 (mk_empty np) I1 L1 (good_empty np)) as (I2 & L2 & B2 & A2).
    split; [exact I2 | split; [exact L2 | split; [|split; [|reflexivity]]]].
    + rewrite B2, B1, !S. reflexivity.
    + rewrite A2, A1, !A, abs_empty. reflexivity.
  (* OClearResize *)
  - destruct (G r) as (W & C & P).
    destruct (clearResize_all (getr np rs r) n) as (M1 & M2 & M3 & M4 & M5).
    repeat split; try assumption. lia.
  - reflexivity.
  - f_equal. rewrite <- A. destruct (clearResize_all (getr np rs r) n) as (_ & _ & _ & _ & M5). exact M5.
  (* OHead *)
  - destruct (G r) as (W & C & P). split; [exact Hinv|]. repeat split; try assumption.
    rewrite <- ?A. rewrite head_abs by (try assumption; lia). reflexivity.
  (* OAllDefNS *)
  - destruct (G r) as (W & C & P). split; [exact Hinv|]. repeat split; try assumption.
    rewrite <- ?A. rewrite allDefinedNS_abs by (try assumption; lia). reflexivity.
  (* OAsBytes *)
  - destruct (G r) as (W & C & P). split; [exact Hinv|]. repeat split; try assumption.
    rewrite <- ?A. rewrite asBytes_abs by (try assumption; lia). reflexivity.
  (* OEqBytes *)
  - destruct (G r) as (W & C & P). split; [exact Hinv|]. repeat split; try assumption.
    rewrite <- ?A. rewrite eqBytes_abs; [reflexivity | assumption | unfold DEFINED; lia | assumption |].
    apply Forall_forall. intros b Hb.
    match goal with H : forallb _ bytes = true |- _ => rewrite forallb_forall in H; apply H in Hb end.
    apply N.ltb_lt. exact Hb.
  (* OIterRead *)
  - destruct (G r) as (W & C & P). split; [exact Hinv|]. repeat split; try assumption.
    rewrite <- ?A. rewrite iterRead_abs by (try assumption; lia). reflexivity.
  (* OIterWrite *)
  - destruct (G r) as (W & C & P).
    repeat split; [apply wf_iterWrite | apply clean_iterWrite | unfold iterWrite; rewrite np_on_plane]; assumption.
  - apply (same_size np). reflexivity.
  - f_equal. rewrite <- A. destruct (G r) as (W & C & P). apply abs_iterWrite; assumption.
Qed.

Lemma run_gen ops : forall rs (acc : list (option Z)),
  length rs = nr -> inv np rs -> ops_ok np nr ops (map bsize rs) = true ->
  let R := fold_left (fun st o => let r := step np o (fst st) in (fst r, snd st ++ [snd r])) ops (rs, acc) in
  let S := fold_left (fun st o => let r := step_spec np o (fst st) in (fst r, snd st ++ [snd r])) ops (map abs rs, acc) in
  map abs (fst R) = fst S /\ snd R = snd S /\ inv np (fst R).
Proof.
  induction ops as [|o ops IH]; intros rs acc Hl Hinv Hok.
  - cbn. repeat split; auto.
  - cbn [ops_ok] in Hok. apply andb_true_iff in Hok. destruct Hok as [Ho Hr].
    destruct (step_correct o rs Hl Hinv Ho) as (I & L & Sz & Ab & Ob).
    cbn [fold_left fst snd]. cbv zeta. rewrite <- Ab, <- Ob.
    apply (IH (fst (step np o rs)) (acc ++ [snd (step np o rs)])); [exact L | exact I | rewrite Sz; exact Hr].
Qed.

Theorem run_correct ops rs :
  length rs = nr -> inv np rs -> ops_ok np nr ops (map bsize rs) = true ->
  map abs (fst (run np ops rs)) = fst (run_spec np ops (map abs rs))
  /\ snd (run np ops rs) = snd (run_spec np ops (map abs rs))
  /\ inv np (fst (run np ops rs)).
Proof. intros. apply (run_gen ops rs []); assumption. Qed.
End Step.
