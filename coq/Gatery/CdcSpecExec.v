(* C12 -- the executable specification (influence sets + has_crossing_b) that the driver runs on the
   dumped netlists decides exactly the declarative specification [has_crossing], provided the
   computed sets pass the run-time closedness check [infl_closed]. *)
From Coq Require Import List NArith Bool Arith Lia.
From Gatery Require Import CdcDefs CdcCheck CdcSound CdcWorklist.
Import ListNotations.

Lemma in_add_src : forall s x l, In s (add_src x l) <-> s = x \/ In s l.
Proof.
  intros. unfold add_src. destruct (existsb (src_eqb x) l) eqn:E; simpl.
  - split; auto. intros [->|H]; auto. apply existsb_exists in E. destruct E as (y & Hy & Ey).
    apply src_eqb_eq in Ey. subst. exact Hy.
  - split; [intros [H|H]; auto | intros [H|H]; auto].
Qed.

Lemma in_union_src : forall a b s, In s (union_src a b) <-> In s a \/ In s b.
Proof.
  unfold union_src. induction a as [|x a IH]; intros b s; simpl.
  - split; [auto | intros [[]|H]; auto].
  - rewrite IH, in_add_src. split; [intros [H|[H|H]]; auto | intros [[H|H]|H]; auto].
Qed.

Lemma in_fold_union : forall (S : port -> list src) D acc s,
  In s (fold_left (fun acc q => union_src (S q) acc) D acc) <-> In s acc \/ exists q, In q D /\ In s (S q).
Proof.
  induction D as [|q D IH]; intros acc s; simpl.
  - split; [auto | intros [H|(q & [] & _)]; auto].
  - rewrite IH, in_union_src. split.
    + intros [[H|H]|(q' & Hq' & H)]; auto; right; [exists q | exists q']; auto.
    + intros [H|(q' & [<-|Hq'] & H)]; auto. right. exists q'; auto.
Qed.

Lemma in_infl_of : forall n S p s,
  In s (infl_of n S p) <->
  exists nd, get_node n (fst p) = Some nd /\
    match relation nd (snd p) with
    | (_, c :: _) => s = src_of c
    | (deps, []) => exists q, In q (dep_drivers nd deps) /\ In s (S q)
    end.
Proof.
  intros. unfold infl_of. destruct (get_node n (fst p)) as [nd|].
  - destruct (relation nd (snd p)) as [deps cks] eqn:Hr. destruct cks as [|c cs].
    + rewrite in_fold_union. split.
      * intros [[]|H]. exists nd. rewrite Hr. split; [reflexivity | exact H].
      * intros (nd' & E & H). inversion E; subst. rewrite Hr in H. right. exact H.
    + simpl. split.
      * intros [<-|[]]. exists nd. rewrite Hr. split; reflexivity.
      * intros (nd' & E & H). inversion E; subst. rewrite Hr in H. left. symmetry. exact H.
  - split; [intros [] | intros (nd & E & _); discriminate].
Qed.

Lemma subset_src_spec : forall a b, subset_src a b = true <-> (forall s, In s a -> In s b).
Proof.
  intros. unfold subset_src. rewrite forallb_forall. split; intros H s Hs.
  - specialize (H s Hs). apply existsb_exists in H. destruct H as (y & Hy & E). apply src_eqb_eq in E. subst. exact Hy.
  - apply existsb_exists. exists s. split; auto. apply src_eqb_eq. reflexivity.
Qed.

(* a closed family of sets contains every influence *)
Lemma closed_complete : forall n S, infl_closed n S = true -> forall s p, influences n s p -> In s (S p).
Proof.
  intros n S Hc s p H. unfold infl_closed in Hc. rewrite forallb_forall in Hc.
  induction H as [p nd deps c rest Hin Hg Hr | p nd deps i q s Hin Hg Hr Hi Hq Hinf IH].
  - specialize (Hc p Hin). apply (proj1 (subset_src_spec _ _) Hc). apply in_infl_of.
    exists nd. split; auto. rewrite Hr. reflexivity.
  - specialize (Hc p Hin). apply (proj1 (subset_src_spec _ _) Hc). apply in_infl_of.
    exists nd. split; auto. rewrite Hr. exists q. split; auto. apply in_dep_drivers. exists i. auto.
Qed.

Definition isound (n : netlist) (S : port -> list src) : Prop := forall s p, In s (S p) -> influences n s p.

Lemma infl_of_sound : forall n S p s,
  isound n S -> In p (all_outputs n) -> In s (infl_of n S p) -> influences n s p.
Proof.
  intros n S p s Hs Hp H. apply in_infl_of in H. destruct H as (nd & Hg & H).
  destruct (relation nd (snd p)) as [deps cks] eqn:Hr. destruct cks as [|c cs].
  - destruct H as (q & Hq & Hin). apply in_dep_drivers in Hq. destruct Hq as (i & Hi & Hqi).
    eapply infl_step; eauto.
  - subst s. eapply infl_src; eauto.
Qed.

Lemma fold_set_get : forall (f : port -> list src) l m0 q s,
  In s (pm_list (fold_left (fun m p => pm_set m p (f p)) l m0) q) ->
  In s (pm_list m0 q) \/ (In q l /\ In s (f q)).
Proof.
  induction l as [|p l IH]; intros m0 q s H; simpl in *; auto.
  destruct (IH _ _ _ H) as [H1|[H1 H2]]; auto.
  destruct (port_eq_dec p q) as [<-|Hne].
  - rewrite pm_list_gss in H1. auto.
  - rewrite pm_list_gso in H1; auto.
Qed.

Lemma infl_round_sound : forall n S, isound n (pm_list S) -> isound n (pm_list (infl_round n S)).
Proof.
  intros n S Hs s p H. unfold infl_round in H. apply fold_set_get in H.
  destruct H as [H|[Hp H]].
  - rewrite pm_list_empty in H. contradiction.
  - eapply infl_of_sound; eauto.
Qed.

Lemma infl_fix_sound : forall n fuel S, isound n (pm_list S) -> isound n (pm_list (infl_fix n fuel S)).
Proof.
  induction fuel as [|f IH]; intros S Hs; simpl.
  - destruct (infl_closed n (pm_list S)); auto.
  - destruct (infl_closed n (pm_list S)); auto. apply IH. apply infl_round_sound. exact Hs.
Qed.

Theorem infl_sets_exact : forall n,
  infl_closed n (infl_sets n) = true -> forall s p, In s (infl_sets n p) <-> influences n s p.
Proof.
  intros n Hc s p. split.
  - unfold infl_sets. apply infl_fix_sound. intros s' p' H. rewrite pm_list_empty in H. contradiction.
  - apply closed_complete. exact Hc.
Qed.

(* ------------------------------------------------------------------ *)
(* reflection of the crossing predicate                                 *)

Section Reflect.
  Variable n : netlist.
  Variable S : port -> list src.
  Hypothesis Hex : forall s q, In s (S q) <-> influences n s q.

  Let ps := pin_source n.

  Lemma in_in_srcs : forall nd i s, In s (in_srcs S nd i) <-> infl_in n nd i s.
  Proof.
    intros. unfold in_srcs, infl_in. destruct (nth_error (nins nd) i) as [[q|]|].
    - rewrite Hex. split; [intros H; exists q; auto | intros (q' & E & H); inversion E; subst; auto].
    - split; [intros [] | intros (q' & E & _); discriminate].
    - split; [intros [] | intros (q' & E & _); discriminate].
  Qed.

  Lemma infl_in_idx : forall nd i s, infl_in n nd i s -> In i (seq 0 (length (nins nd))).
  Proof.
    intros nd i s (q & E & _). apply in_seq. split; [lia|]. simpl. apply nth_error_Some. congruence.
  Qed.

  Lemma in_all_srcs : forall nd s,
    In s (flat_map (in_srcs S nd) (seq 0 (length (nins nd)))) <-> exists i, infl_in n nd i s.
  Proof.
    intros. rewrite in_flat_map. split.
    - intros (i & _ & H). exists i. apply in_in_srcs. exact H.
    - intros (i & H). exists i. split; [eapply infl_in_idx; eauto | apply in_in_srcs; exact H].
  Qed.

  Lemma site_base_iff : forall nd,
    site_base n S nd = true <->
    (exists i j a b, infl_in n nd i (SrcClk a) /\ infl_in n nd j (SrcClk b) /\ ps a <> ps b)
    \/ (exists i j s, i <> j /\ infl_in n nd i SrcUnk /\ infl_in n nd j s)
    \/ (exists c i s, own_clock nd = Some c /\ infl_in n nd i s /\ ~ same_dom ps s (SrcClk c)).
  Proof.
    intros nd. unfold site_base. fold ps. rewrite !orb_true_iff.
    set (idx := seq 0 (length (nins nd))). set (all := flat_map (in_srcs S nd) idx).
    assert (Hall : forall s, In s all <-> exists i, infl_in n nd i s) by (intro; apply in_all_srcs).
    split.
    - intros [[H|H]|H].
      + left. apply existsb_exists in H. destruct H as (s1 & H1 & H). apply existsb_exists in H. destruct H as (s2 & H2 & H).
        destruct s1 as [a|]; [|discriminate]. destruct s2 as [b|]; [|discriminate].
        apply Hall in H1. apply Hall in H2. destruct H1 as [i Hi]. destruct H2 as [j Hj].
        exists i, j, a, b. repeat split; auto. apply Nat.eqb_neq. apply negb_true_iff. exact H.
      + right. left. apply existsb_exists in H. destruct H as (i & Hi & H). apply andb_true_iff in H. destruct H as [Hu Hj].
        apply existsb_exists in Hu. destruct Hu as (s & Hs & Hsu). destruct s; [discriminate|].
        apply existsb_exists in Hj. destruct Hj as (j & Hj & H). apply andb_true_iff in H. destruct H as [Hne Hnz].
        apply negb_true_iff, Nat.eqb_neq in Hne.
        destruct (in_srcs S nd j) as [|s l] eqn:Ej; [discriminate|].
        exists i, j, s. repeat split; auto; apply in_in_srcs; [exact Hs | rewrite Ej; left; reflexivity].
      + right. right. destruct (own_clock nd) as [c|] eqn:Ec; [|discriminate].
        apply existsb_exists in H. destruct H as (s & Hs & H). apply Hall in Hs. destruct Hs as [i Hi].
        exists c, i, s. repeat split; auto. destruct s as [d|]; simpl; auto.
        apply Nat.eqb_neq. apply negb_true_iff. exact H.
    - intros [(i & j & a & b & Hi & Hj & Hne) | [(i & j & s & Hij & Hi & Hj) | (c & i & s & Hc & Hi & Hns)]].
      + left. left. apply existsb_exists. exists (SrcClk a). split; [apply Hall; exists i; auto|].
        apply existsb_exists. exists (SrcClk b). split; [apply Hall; exists j; auto|].
        apply negb_true_iff. apply Nat.eqb_neq. exact Hne.
      + left. right. apply existsb_exists. exists i. split; [eapply infl_in_idx; eauto|].
        apply andb_true_iff. split.
        * apply existsb_exists. exists SrcUnk. split; [apply in_in_srcs; exact Hi | reflexivity].
        * apply existsb_exists. exists j. split; [eapply infl_in_idx; eauto|].
          apply andb_true_iff. split; [apply negb_true_iff; apply Nat.eqb_neq; exact Hij|].
          apply in_in_srcs in Hj. destruct (in_srcs S nd j); [contradiction | reflexivity].
      + right. rewrite Hc. apply existsb_exists. exists s. split; [apply Hall; exists i; auto|].
        destruct s as [d|]; auto. simpl in Hns. apply negb_true_iff. apply Nat.eqb_neq. exact Hns.
  Qed.

  Lemma site_cdc_iff : forall nd,
    site_cdc n S nd = true <->
    exists s, infl_in n nd 0 s /\
      match s, nth_error (nclocks nd) 0 with
      | SrcClk d, Some (Some ic) => ps d <> ps ic
      | _, _ => True
      end.
  Proof.
    intros nd. unfold site_cdc. fold ps. rewrite existsb_exists. split.
    - intros (s & Hs & H). exists s. split; [apply in_in_srcs; exact Hs|].
      destruct s as [d|]; auto. destruct (nth_error (nclocks nd) 0) as [[ic|]|]; auto.
      apply Nat.eqb_neq. apply negb_true_iff. exact H.
    - intros (s & Hs & H). exists s. split; [apply in_in_srcs; exact Hs|].
      destruct s as [d|]; auto. destruct (nth_error (nclocks nd) 0) as [[ic|]|]; auto.
      apply negb_true_iff. apply Nat.eqb_neq. exact H.
  Qed.

  Lemma site_ext_iff : forall nd,
    site_ext n S nd = true <->
    exists i s, infl_in n nd i s /\
      match s, nth_error (ninclk nd) i with
      | SrcClk d, Some (Some ic) => ps d <> ps ic
      | _, _ => True
      end.
  Proof.
    intros nd. unfold site_ext. fold ps. rewrite existsb_exists. split.
    - intros (i & _ & H). apply existsb_exists in H. destruct H as (s & Hs & H).
      exists i, s. split; [apply in_in_srcs; exact Hs|].
      destruct s as [d|]; auto. destruct (nth_error (ninclk nd) i) as [[ic|]|]; auto.
      apply Nat.eqb_neq. apply negb_true_iff. exact H.
    - intros (i & s & Hs & H). exists i. split; [eapply infl_in_idx; eauto|].
      apply existsb_exists. exists s. split; [apply in_in_srcs; exact Hs|].
      destruct s as [d|]; auto. destruct (nth_error (ninclk nd) i) as [[ic|]|]; auto.
      apply negb_true_iff. apply Nat.eqb_neq. exact H.
  Qed.

  Lemma crossing_cases : forall v, crossing_at n v ->
    exists nd, get_node n v = Some nd /\
      ((uses_base_check (nkind nd) = true /\
         ((exists i j a b, infl_in n nd i (SrcClk a) /\ infl_in n nd j (SrcClk b) /\ ps a <> ps b)
          \/ (exists i j s, i <> j /\ infl_in n nd i SrcUnk /\ infl_in n nd j s)
          \/ (exists c i s, own_clock nd = Some c /\ infl_in n nd i s /\ ~ same_dom ps s (SrcClk c))))
       \/ (nkind nd = KCdc /\ exists s, infl_in n nd 0 s /\
             match s, nth_error (nclocks nd) 0 with
             | SrcClk d, Some (Some ic) => ps d <> ps ic
             | _, _ => True
             end)
       \/ (nkind nd = KExt /\ exists i s, infl_in n nd i s /\
             match s, nth_error (ninclk nd) i with
             | SrcClk d, Some (Some ic) => ps d <> ps ic
             | _, _ => True
             end)).
  Proof.
    intros v H.
    inversion H as [nd i j a b Hg Hb Hi Hj Hne | nd i j s Hg Hb Hij Hi Hj | nd c i s Hg Hb Hc Hi Hns | nd s Hg Hk Hi Hm | nd i s Hg Hk Hi Hm];
      exists nd; (split; [exact Hg|]).
    - left. split; auto. left. exists i, j, a, b. auto.
    - left. split; auto. right. left. exists i, j, s. auto.
    - left. split; auto. right. right. exists c, i, s. auto.
    - right. left. split; auto. exists s. auto.
    - right. right. split; auto. exists i, s. auto.
  Qed.

  Lemma site_b_iff : forall v nd, get_node n v = Some nd -> (site_b n S nd = true <-> crossing_at n v).
  Proof.
    intros v nd Hg. split.
    - unfold site_b. destruct (uses_base_check (nkind nd)) eqn:Hb.
      + rewrite site_base_iff.
        intros [(i & j & a & b & Hi & Hj & Hne) | [(i & j & s & Hij & Hi & Hj) | (c & i & s & Hc & Hi & Hns)]].
        * exact (cr_mix n v nd i j a b Hg Hb Hi Hj Hne).
        * exact (cr_unk n v nd i j s Hg Hb Hij Hi Hj).
        * exact (cr_own n v nd c i s Hg Hb Hc Hi Hns).
      + destruct (nkind nd) eqn:Hk; try discriminate.
        * rewrite site_cdc_iff. intros (s & Hs & H). exact (cr_cdc n v nd s Hg Hk Hs H).
        * rewrite site_ext_iff. intros (i & s & Hs & H). exact (cr_ext n v nd i s Hg Hk Hs H).
    - intros H. destruct (crossing_cases v H) as (nd' & Hg' & Hc).
      rewrite Hg in Hg'. inversion Hg'; subst nd'. unfold site_b.
      destruct Hc as [[Hb Hc] | [[Hk Hc] | [Hk Hc]]].
      + rewrite Hb. apply site_base_iff. exact Hc.
      + rewrite Hk. simpl. apply site_cdc_iff. exact Hc.
      + rewrite Hk. simpl. apply site_ext_iff. exact Hc.
  Qed.

  Theorem has_crossing_b_iff : has_crossing_b n S = true <-> has_crossing n.
  Proof.
    unfold has_crossing_b, has_crossing. rewrite existsb_exists. split.
    - intros (nd & Hnd & H). destruct (In_get_node _ _ Hnd) as [v Hg]. exists v. apply (site_b_iff v nd Hg). exact H.
    - intros (v & H).
      assert (exists nd, get_node n v = Some nd) as (nd & Hg) by (inversion H; eauto).
      exists nd. split; [eapply get_node_In; eauto | apply (site_b_iff v nd Hg); exact H].
  Qed.
End Reflect.

(* what the driver computes is the declarative verdict *)
Theorem spec_verdict_exact : forall n,
  infl_closed n (infl_sets n) = true ->
  (has_crossing_b n (infl_sets n) = true <-> has_crossing n).
Proof. intros n Hc. apply has_crossing_b_iff. apply infl_sets_exact. exact Hc. Qed.
