(* C13 — model of the VHDL name allocator (no proofs in this file).

   Transcribed from
     source/gatery/export/vhdl/NamespaceScope.cpp   (allocate*, isNameInUse, constructor)
     source/gatery/export/vhdl/CodeFormatting.cpp   (formatDuplicateName, get*Name, prefixes)
   following the C++ control flow:

     initialName = cf.get<Kind>Name(desiredName [, type]);
     auto &attempt = m_nextNameAttempt[initialName];            // per scope, keyed CASE-SENSITIVELY
     do { name = cf.formatDuplicateName(initialName, attempt++);
          lowerCaseName = boost::to_lower_copy(name);
     } while (isNameInUse(lowerCaseName));                       // own set, then the parent chain
     m_namesInUse.insert(lowerCaseName);

   The do/while loop has no bound in C++.  Here it is a fuelled recursion whose fuel is
   1 + (number of in-use entries reachable through the parent chain); NamesProofs.v proves
   (pigeonhole) that this fuel always suffices, so the fuel-exhausted branch is dead code
   and is not reported as a value.

   Lower-casing is the "C"-locale std::tolower used by boost::to_lower_copy (A–Z only).
   `attempt+1` is a size_t in C++; the model uses N without the 2^64 wrap (reaching it needs
   2^64 allocations of one name). *)
Require Import String Ascii List NArith Bool Arith DecimalString.
From Gatery.gen Require Import Keywords.
Import ListNotations.
Open Scope string_scope.

(* ------------------------------------------------------------------ characters *)

Definition in_range (lo hi : N) (c : ascii) : bool :=
  let n := N_of_ascii c in (N.leb lo n) && (N.leb n hi).
Definition is_upper (c : ascii) : bool := in_range 65 90 c.
Definition is_lower (c : ascii) : bool := in_range 97 122 c.
Definition is_digit (c : ascii) : bool := in_range 48 57 c.
Definition is_letter (c : ascii) : bool := is_upper c || is_lower c.
Definition is_us (c : ascii) : bool := Ascii.eqb c "_"%char.
Definition is_idchar (c : ascii) : bool := is_letter c || is_digit c || is_us c.

Definition lower_ascii (c : ascii) : ascii :=
  if is_upper c then ascii_of_N (N_of_ascii c + 32) else c.
Definition upper_ascii (c : ascii) : ascii :=
  if is_lower c then ascii_of_N (N_of_ascii c - 32) else c.

Fixpoint smap (f : ascii -> ascii) (s : string) : string :=
  match s with
  | EmptyString => EmptyString
  | String c r => String (f c) (smap f r)
  end.

Definition lower (s : string) : string := smap lower_ascii s.   (* boost::to_lower_copy *)
Definition upper (s : string) : string := smap upper_ascii s.   (* boost::to_upper      *)

Fixpoint sall (p : ascii -> bool) (s : string) : bool :=
  match s with
  | EmptyString => true
  | String c r => p c && sall p r
  end.

Definition first_char (s : string) : option ascii :=
  match s with EmptyString => None | String c _ => Some c end.
Fixpoint last_char (s : string) : option ascii :=
  match s with
  | EmptyString => None
  | String c EmptyString => Some c
  | String _ r => last_char r
  end.
(* no two adjacent underscores *)
Fixpoint no_dus (s : string) : bool :=
  match s with
  | EmptyString => true
  | String c r =>
      negb (is_us c && match first_char r with Some d => is_us d | None => false end) && no_dus r
  end.
Definition opt_is (p : ascii -> bool) (o : option ascii) : bool :=
  match o with Some c => p c | None => false end.

(* VHDL basic identifier (IEEE 1076-2008 15.4.2), restricted to ASCII letters:
   letter { [underline] letter_or_digit }  *)
Definition legal_basic_ident (s : string) : bool :=
  opt_is is_letter (first_char s) && sall is_idchar s && no_dus s
  && negb (opt_is is_us (last_char s)).

Fixpoint memb (x : string) (l : list string) : bool :=
  match l with
  | [] => false
  | y :: r => String.eqb x y || memb x r
  end.

(* ------------------------------------------------------------------ CodeFormatting *)

(* boost::format("%s_%d") % name % (attempt+1) : plain decimal *)
Definition dec (n : N) : string := NilEmpty.string_of_uint (N.to_uint n).

Definition format_duplicate_name (name : string) (attempt : N) : string :=
  if N.eqb attempt 0 then name else name ++ "_" ++ dec (attempt + 1).

Inductive sigtype :=
| SIG_ENTITY_INPUT | SIG_ENTITY_OUTPUT | SIG_CHILD_ENTITY_INPUT | SIG_CHILD_ENTITY_OUTPUT
| SIG_REGISTER_INPUT | SIG_REGISTER_OUTPUT | SIG_ATTRIBUTED_SIGNAL | SIG_LOCAL_SIGNAL
| SIG_LOCAL_VARIABLE | SIG_CONSTANT.

Definition or_default (desired dflt : string) : string :=
  match desired with EmptyString => dflt | _ => desired end.

Definition get_signal_name (desired : string) (t : sigtype) : string :=
  let n := or_default desired "unnamed" in
  match t with
  | SIG_ENTITY_INPUT => "in_" ++ n
  | SIG_ENTITY_OUTPUT => "out_" ++ n
  | SIG_CHILD_ENTITY_INPUT => "c_in_" ++ n
  | SIG_CHILD_ENTITY_OUTPUT => "c_out_" ++ n
  | SIG_REGISTER_INPUT => "r_in_" ++ n
  | SIG_REGISTER_OUTPUT => "r_out_" ++ n
  | SIG_ATTRIBUTED_SIGNAL => n
  | SIG_LOCAL_SIGNAL => "s_" ++ n
  | SIG_LOCAL_VARIABLE => "v_" ++ n
  | SIG_CONSTANT => "C_" ++ upper n
  end.

(* one constructor per NamespaceScope::allocate* entry point *)
Inductive kind :=
| KSignal (t : sigtype)      (* allocateName(NodePort, ..., SignalType) *)
| KClock                     (* allocateName(Clock ptr)      -> getClockName *)
| KReset                     (* allocateResetName(Clock ptr) -> getClockName *)
| KIoPin                     (* allocateName(Node_Pin ptr)   -> getIoPinName *)
| KPackage                   (* allocatePackageName, root scope only         *)
| KEntity                    (* allocateEntityName,  root scope only         *)
| KBlock
| KProcess (clocked : bool)
| KInstance.

Definition initial_name (k : kind) (desired : string) : string :=
  match k with
  | KSignal t => get_signal_name desired t
  | KClock | KReset => or_default desired "unnamedClock"
  | KIoPin => or_default desired "unnamedIoPin"
  | KPackage => or_default desired "UnnamedPackage"
  | KEntity => or_default desired "UnnamedEntity"
  | KBlock => or_default desired "unnamedBlock"
  | KProcess clocked => or_default desired "unnamedProcess" ++ (if clocked then "_reg" else "_comb")
  | KInstance => or_default desired "unnamedInstance"
  end.

Definition root_only (k : kind) : bool :=
  match k with KPackage | KEntity => true | _ => false end.

(* ------------------------------------------------------------------ NamespaceScope *)

Record scope := mkScope {
  sc_parent  : option nat;              (* m_parent, as index into the tree *)
  sc_in_use  : list string;             (* m_namesInUse: lower-cased names, keywords first *)
  sc_attempt : list (string * N)        (* m_nextNameAttempt (latest binding first; default 0) *)
}.

Definition tree := list scope.

Fixpoint att_get (m : list (string * N)) (k : string) : N :=
  match m with
  | [] => 0%N
  | (k', v) :: r => if String.eqb k k' then v else att_get r k
  end.

Definition new_scope (parent : option nat) : scope := mkScope parent impl_keywords [].

Fixpoint set_nth {A} (l : list A) (i : nat) (x : A) : list A :=
  match l, i with
  | [], _ => []
  | _ :: r, O => x :: r
  | y :: r, S j => y :: set_nth r j x
  end.

Definition parents (t : tree) : list (option nat) := map sc_parent t.

(* the scope itself, its parent, grand-parent, ... ; fuel S s suffices because parents are older *)
Fixpoint chain_f (fuel : nat) (ps : list (option nat)) (s : nat) : list nat :=
  match fuel with
  | O => []
  | S f =>
      match nth_error ps s with
      | None => []
      | Some None => [s]
      | Some (Some p) => s :: chain_f f ps p
      end
  end.
Definition chain (ps : list (option nat)) (s : nat) : list nat := chain_f (S s) ps s.

Definition in_use_of (t : tree) (i : nat) : list string :=
  match nth_error t i with Some sc => sc_in_use sc | None => [] end.

(* NamespaceScope::isNameInUse: own set first, then the parent's isNameInUse *)
Definition name_in_use (t : tree) (s : nat) (lc : string) : bool :=
  existsb (fun i => memb lc (in_use_of t i)) (chain (parents t) s).

Definition chain_names (t : tree) (s : nat) : list string :=
  flat_map (in_use_of t) (chain (parents t) s).

(* the do { } while (isNameInUse) loop; returns the name and the final value of `attempt` *)
Fixpoint retry (fuel : nat) (inuse : string -> bool) (initial : string) (attempt : N) : string * N :=
  let name := format_duplicate_name initial attempt in
  match fuel with
  | O => (name, N.succ attempt)           (* dead: see NamesProofs.retry_fresh *)
  | S f =>
      if inuse (lower name) then retry f inuse initial (N.succ attempt)
      else (name, N.succ attempt)
  end.

Definition alloc_core (t : tree) (s : nat) (initial : string) : option (tree * string) :=
  match nth_error t s with
  | None => None
  | Some sc =>
      let a0 := att_get (sc_attempt sc) initial in
      let '(name, a1) := retry (S (length (chain_names t s))) (name_in_use t s) initial a0 in
      let sc' := mkScope (sc_parent sc) (lower name :: sc_in_use sc)
                         ((initial, a1) :: sc_attempt sc) in
      Some (set_nth t s sc', name)
  end.

(* None = one of the HCL_ASSERTs fires (empty desired name; entity/package name requested in
   a non-root scope) or the scope does not exist *)
Definition allocate (t : tree) (s : nat) (k : kind) (desired : string) : option (tree * string) :=
  match desired with
  | EmptyString => None
  | _ =>
      match nth_error t s with
      | None => None
      | Some sc =>
          if root_only k && match sc_parent sc with Some _ => true | None => false end
          then None
          else alloc_core t s (initial_name k desired)
      end
  end.

(* ------------------------------------------------------------------ operation sequences *)

Inductive op :=
| OpNew (parent : option nat)                     (* NamespaceScope(ast, parent) *)
| OpAlloc (s : nat) (k : kind) (desired : string).

Record state := mkState {
  st_tree : tree;
  st_log  : list (nat * string)      (* (scope, returned name), newest first *)
}.

Definition init_state : state := mkState [] [].

Definition parent_ok (t : tree) (p : option nat) : bool :=
  match p with None => true | Some i => Nat.ltb i (length t) end.

Definition step (st : state) (o : op) : state * option string :=
  match o with
  | OpNew p =>
      if parent_ok (st_tree st) p
      then (mkState (st_tree st ++ [new_scope p])%list (st_log st), None)
      else (st, None)
  | OpAlloc s k d =>
      match allocate (st_tree st) s k d with
      | Some (t', n) => (mkState t' ((s, n) :: st_log st), Some n)
      | None => (st, None)
      end
  end.

Fixpoint run (st : state) (ops : list op) : state * list (option string) :=
  match ops with
  | [] => (st, [])
  | o :: r =>
      let '(st1, res) := step st o in
      let '(st2, rs) := run st1 r in
      (st2, res :: rs)
  end.

Definition run_state (st : state) (ops : list op) : state := fst (run st ops).

(* ------------------------------------------------------------------ specification predicates *)

(* parents are older than their children (true of C++ object construction order) *)
Definition wf_parents (ps : list (option nat)) : Prop :=
  forall i p, nth_error ps i = Some (Some p) -> p < i.

(* The history property: every allocation returned a name that, ignoring case, is not in the
   implementation's keyword table and differs from every name handed out EARLIER in the same
   scope or in one of its ancestors (the scopes isNameInUse consults). *)
Fixpoint hist_ok (ps : list (option nat)) (log : list (nat * string)) : Prop :=
  match log with
  | [] => True
  | (s, n) :: older =>
      ~ In (lower n) impl_keywords
      /\ (forall s' n', In (s', n') older -> In s' (chain ps s) -> lower n' <> lower n)
      /\ hist_ok ps older
  end.

(* a is a proper ancestor of d *)
Definition proper_anc (ps : list (option nat)) (a d : nat) : Prop :=
  a <> d /\ In a (chain ps d).

(* allocation discipline "ancestors first": no allocation goes into a scope after one of its
   proper descendants has already received a name *)
Fixpoint top_down (ps : list (option nat)) (log : list (nat * string)) : Prop :=
  match log with
  | [] => True
  | (s, _) :: older => (forall s' n', In (s', n') older -> ~ proper_anc ps s s') /\ top_down ps older
  end.

(* names visible in the declarative region r: allocated in r or an ancestor of r *)
Definition visible (ps : list (option nat)) (log : list (nat * string)) (r : nat) : list string :=
  map snd (filter (fun e => existsb (Nat.eqb (fst e)) (chain ps r)) log).
