(* C04 -- the schedule of clock-pin events: no drift, no interference, no skipped edge. *)
From Coq Require Import QArith Qreduction Qfield Permutation Lia.
Require Import Gatery.Bits.
Require Import Gatery.gen.EventOrder.
Require Import Gatery.SchedDefs.
Require Import Gatery.SchedClocks.
Import ListNotations.
Local Close Scope Q_scope.

(* ------------------------------------------------------------------------- *)
(** * next_time is the minimum of the pending times *)

Definition pending (s : sched) : list Q :=
  map ps_next (sc_pins s) ++ map (fun e => fst (fst e)) (sc_rst s) ++ map (fun e => fst (fst e)) (sc_stim s).

Lemma fold_qmin_map {A} (f : A -> Q) l a :
  fold_left (fun a p => qmin_opt a (f p)) l a = fold_left qmin_opt (map f l) a.
Proof. revert a; induction l; simpl; auto. Qed.

Lemma next_time_pending s : next_time s = fold_left qmin_opt (pending s) None.
Proof.
  unfold next_time, pending. rewrite !fold_left_app, <- !fold_qmin_map. reflexivity.
Qed.

Lemma fold_qmin_spec l : forall a,
  match fold_left qmin_opt l a with
  | None => a = None /\ l = []
  | Some t => (a = Some t \/ In t l) /\ (forall x, a = Some x -> (t <= x)%Q) /\ (forall x, In x l -> (t <= x)%Q)
  end.
Proof.
  induction l as [|y l IH]; intro a; simpl.
  - destruct a as [t|]; [|auto]. repeat split; auto.
    + intros x E. inversion E; subst. apply Qle_refl.
    + intros x [].
  - specialize (IH (qmin_opt a y)).
    destruct (fold_left qmin_opt l (qmin_opt a y)) as [t|].
    + destruct IH as (H1 & H2 & H3).
      unfold qmin_opt in H1, H2.
      destruct a as [x0|].
      * destruct (Qle_bool x0 y) eqn:E.
        -- apply Qle_bool_iff in E. repeat split.
           ++ destruct H1 as [H1|H1]; [left; exact H1 | right; right; exact H1].
           ++ intros x Ex. inversion Ex; subst. apply H2. reflexivity.
           ++ intros x [Hx|Hx]; [subst; eapply Qle_trans; [apply (H2 x0 eq_refl) | exact E] | apply H3, Hx].
        -- assert (E' : (y < x0)%Q).
           { apply Qnot_le_lt. intro C. apply Qle_bool_iff in C. congruence. }
           repeat split.
           ++ destruct H1 as [H1|H1]; [right; left; inversion H1; reflexivity | right; right; exact H1].
           ++ intros x Ex. inversion Ex; subst. eapply Qle_trans; [apply (H2 y eq_refl) | apply Qlt_le_weak, E'].
           ++ intros x [Hx|Hx]; [subst; apply (H2 x eq_refl) | apply H3, Hx].
      * repeat split.
        -- destruct H1 as [H1|H1]; [right; left; inversion H1; reflexivity | right; right; exact H1].
        -- intros x Ex. discriminate.
        -- intros x [Hx|Hx]; [subst; apply (H2 x eq_refl) | apply H3, Hx].
    + destruct IH as (H1 & _). destruct a as [x0|]; simpl in H1; [destruct (Qle_bool x0 y)|]; discriminate.
Qed.

Lemma next_time_spec s t :
  next_time s = Some t -> In t (pending s) /\ forall x, In x (pending s) -> (t <= x)%Q.
Proof.
  rewrite next_time_pending. intro E.
  pose proof (fold_qmin_spec (pending s) None) as H. rewrite E in H.
  destruct H as (H1 & _ & H3). split; [|exact H3].
  destruct H1 as [H1|H1]; [discriminate | exact H1].
Qed.

Lemma next_time_none s : next_time s = None -> pending s = [].
Proof.
  rewrite next_time_pending. intro E.
  pose proof (fold_qmin_spec (pending s) None) as H. rewrite E in H. apply H.
Qed.

(* ------------------------------------------------------------------------- *)
(** * One step of the scheduler, seen from one pin *)

Definition step_pin (t : Q) (p : pinstate) : pinstate := if Qeq_bool (ps_next p) t then pin_rearm p else p.

Lemma sched_step_inv s s' ie :
  sched_step s = Some (s', ie) ->
  exists t, next_time s = Some t /\ ie_time ie = t /\ sc_now s' = t /\
    sc_pins s' = map (step_pin t) (sc_pins s) /\
    ie_clk ie = map (fun p => (ps_clk p, ps_next_rising p, N.succ (ps_count p)))
                    (filter (fun p => Qeq_bool (ps_next p) t) (sc_pins s)) /\
    sc_rst s' = filter (fun e => negb (Qeq_bool (fst (fst e)) t)) (sc_rst s) /\
    sc_stim s' = filter (fun e => negb (Qeq_bool (fst (fst e)) t)) (sc_stim s).
Proof.
  unfold sched_step. destruct (next_time s) as [t|]; [|discriminate].
  intro E. inversion E; subst; clear E. exists t. simpl. repeat split; reflexivity.
Qed.

(* state after n steps (stays where it is once nothing is pending) *)
Fixpoint sched_after (n : nat) (s : sched) : sched :=
  match n with
  | O => s
  | S m => match sched_step s with
           | None => s
           | Some (s', _) => sched_after m s'
           end
  end.

(* ------------------------------------------------------------------------- *)
(** * Invariants *)

Definition edge_pol (start_high : bool) (k : N) : bool := xorb start_high (N.odd k).

Definition start_high (cfg : config) (c : nat) : bool :=
  trigger_eqb (ck_trig (get_clock (cfg_clocks cfg) c)) RISING.

Definition pin_inv (cfg : config) (p : pinstate) : Prop :=
  In (ps_clk p) (clock_pins cfg) /\
  ps_half p = half_period (absfreq (cfg_clocks cfg) (ps_clk p)) /\
  (ps_next p == (Q_of_N (ps_count p) + 1) * ps_half p)%Q /\
  ps_next_rising p = edge_pol (start_high cfg (ps_clk p)) (N.succ (ps_count p)).

Definition sinv (cfg : config) (s : sched) : Prop :=
  map ps_clk (sc_pins s) = clock_pins cfg /\ Forall (pin_inv cfg) (sc_pins s).

Lemma Q_of_N_succ n : (Q_of_N (N.succ n) == Q_of_N n + 1)%Q.
Proof.
  unfold Q_of_N. rewrite N2Z.inj_succ. unfold Z.succ. rewrite inject_Z_plus. reflexivity.
Qed.

Lemma pin_rearm_inv cfg p : pin_inv cfg p -> pin_inv cfg (pin_rearm p).
Proof.
  intros (H1 & H2 & H3 & H4). unfold pin_rearm, pin_inv; cbn [ps_clk ps_half ps_next ps_next_rising ps_count]. repeat split; auto.
  - rewrite Qred_correct, H3, Q_of_N_succ. ring.
  - rewrite H4. unfold edge_pol. rewrite (N.odd_succ (N.succ (ps_count p))), N.even_succ, N.odd_succ, <- N.negb_odd.
    destruct (start_high cfg (ps_clk p)), (N.odd (ps_count p)); reflexivity.
Qed.

Lemma step_pin_inv cfg t p : pin_inv cfg p -> pin_inv cfg (step_pin t p).
Proof. unfold step_pin. destruct (Qeq_bool (ps_next p) t); auto using pin_rearm_inv. Qed.

Lemma step_pin_clk t p : ps_clk (step_pin t p) = ps_clk p.
Proof. unfold step_pin. destruct (Qeq_bool (ps_next p) t); reflexivity. Qed.

Lemma sinv_step cfg s s' ie : sinv cfg s -> sched_step s = Some (s', ie) -> sinv cfg s'.
Proof.
  intros [H1 H2] E. apply sched_step_inv in E. destruct E as (t & _ & _ & _ & Hp & _).
  split; rewrite Hp.
  - rewrite map_map. rewrite <- H1. apply map_ext. intro p. apply step_pin_clk.
  - rewrite Forall_forall in *. intros p Hin. apply in_map_iff in Hin. destruct Hin as (q & <- & Hq).
    apply step_pin_inv, H2, Hq.
Qed.

Lemma clock_pins_in cfg c : In c (clock_pins cfg) ->
  relevant cfg c = true /\ pinsrc (cfg_clocks cfg) c = c.
Proof.
  unfold clock_pins. intro H. apply filter_In in H. destruct H as [_ H].
  apply andb_prop in H. destruct H as [H1 H2]. apply Nat.eqb_eq in H2. auto.
Qed.

Lemma sinv_init cfg : sinv cfg (sched_init cfg).
Proof.
  unfold sched_init, sinv; simpl. split.
  - rewrite map_map. simpl. apply map_id.
  - rewrite Forall_forall. intros p Hin. apply in_map_iff in Hin. destruct Hin as (c & <- & Hc).
    unfold pin_inv, pin_init; cbn [ps_clk ps_half ps_next ps_next_rising ps_count]. repeat split; auto.
    rewrite Qred_correct. change (Q_of_N 0) with 0%Q. ring.
Qed.

Lemma sinv_after cfg n : forall s, sinv cfg s -> sinv cfg (sched_after n s).
Proof.
  induction n as [|n IH]; intros s H; simpl; auto.
  destruct (sched_step s) as [[s' ie]|] eqn:E; auto.
  apply IH. eapply sinv_step; eassumption.
Qed.

(* ------------------------------------------------------------------------- *)
(** * edge_times: every event of pin c carries its index k and happens at exactly k/(2 f_c) *)

Definition half_of (cfg : config) (c : nat) : Q := ((1 # 2) / absfreq (cfg_clocks cfg) c)%Q.

Lemma half_period_eq f : (half_period f == (1 # 2) / f)%Q.
Proof. unfold half_period. apply Qred_correct. Qed.

Lemma step_events cfg s s' ie c r k :
  sinv cfg s -> sched_step s = Some (s', ie) -> In (c, r, k) (ie_clk ie) ->
  In c (clock_pins cfg) /\ (1 <= k)%N /\
  (ie_time ie == Q_of_N k * half_of cfg c)%Q /\
  r = edge_pol (start_high cfg c) k.
Proof.
  intros [H1 H2] E Hin. apply sched_step_inv in E.
  destruct E as (t & _ & Ht & _ & _ & Hclk & _). rewrite Hclk in Hin.
  apply in_map_iff in Hin. destruct Hin as (p & Ep & Hp). inversion Ep as [[Ec Er Ek]]. subst c r k. clear Ep.
  apply filter_In in Hp. destruct Hp as [Hp Hf]. apply Qeq_bool_eq in Hf.
  rewrite Forall_forall in H2. destruct (H2 p Hp) as (I1 & I2 & I3 & I4).
  repeat split; auto.
  - lia.
  - rewrite Ht, <- Hf, I3, Q_of_N_succ, I2, half_period_eq. reflexivity.
Qed.

Lemma run_events cfg n : forall s ie c r k,
  sinv cfg s -> In ie (sched_run n s) -> In (c, r, k) (ie_clk ie) ->
  In c (clock_pins cfg) /\ (1 <= k)%N /\
  (ie_time ie == Q_of_N k * half_of cfg c)%Q /\
  r = edge_pol (start_high cfg c) k.
Proof.
  induction n as [|n IH]; intros s ie c r k Hs Hin Hc; simpl in Hin; [contradiction|].
  destruct (sched_step s) as [[s' ie0]|] eqn:E; [|contradiction].
  destruct Hin as [<-|Hin].
  - eapply step_events; eassumption.
  - eapply IH; [eapply sinv_step; eassumption | eassumption | eassumption].
Qed.

(* ------------------------------------------------------------------------- *)
(** * No event is skipped and events are numbered consecutively *)

Lemma nth_error_map_ {A B} (f : A -> B) l i : nth_error (map f l) i = option_map f (nth_error l i).
Proof. revert i; induction l; intros [|i]; simpl; auto. Qed.

(* the pin at position i between two states: every index in (count before, count after] fired in between *)
Lemma run_complete cfg n : forall s i p pn k,
  sinv cfg s ->
  nth_error (sc_pins s) i = Some p ->
  nth_error (sc_pins (sched_after n s)) i = Some pn ->
  (ps_count p < k <= ps_count pn)%N ->
  exists ie, In ie (sched_run n s) /\ In (ps_clk p, edge_pol (start_high cfg (ps_clk p)) k, k) (ie_clk ie).
Proof.
  induction n as [|n IH]; intros s i p pn k Hs Hp Hpn Hk; simpl in *.
  - rewrite Hp in Hpn. inversion Hpn; subst. lia.
  - destruct (sched_step s) as [[s' ie0]|] eqn:E.
    2:{ rewrite Hp in Hpn. inversion Hpn; subst. lia. }
    pose proof (sinv_step _ _ _ _ Hs E) as Hs'.
    pose proof E as E0. apply sched_step_inv in E0.
    destruct E0 as (t & _ & _ & _ & Hpins & Hclk & _).
    assert (Hp' : nth_error (sc_pins s') i = Some (step_pin t p)).
    { rewrite Hpins, nth_error_map_, Hp. reflexivity. }
    destruct Hs as [_ Hall]. rewrite Forall_forall in Hall.
    assert (Hpin : In p (sc_pins s)) by (eapply nth_error_In; eassumption).
    destruct (Hall p Hpin) as (_ & _ & _ & I4).
    unfold step_pin in Hp'. destruct (Qeq_bool (ps_next p) t) eqn:Ef.
    + (* fired now: index count+1 *)
      destruct (N.eq_dec k (N.succ (ps_count p))) as [->|Hne].
      * exists ie0. split; [left; reflexivity|].
        rewrite Hclk. apply in_map_iff. exists p. split.
        -- rewrite I4. reflexivity.
        -- apply filter_In. split; assumption.
      * destruct (IH s' i (pin_rearm p) pn k Hs' Hp' Hpn) as (ie & Hie & Hin).
        { simpl. lia. }
        exists ie. split; [right; exact Hie | exact Hin].
    + destruct (IH s' i p pn k Hs' Hp' Hpn Hk) as (ie & Hie & Hin).
      exists ie. split; [right; exact Hie | exact Hin].
Qed.

(* counts never decrease, static fields never change *)
Lemma after_pin_static n : forall s i p,
  nth_error (sc_pins s) i = Some p ->
  exists pn, nth_error (sc_pins (sched_after n s)) i = Some pn /\
             ps_clk pn = ps_clk p /\ ps_half pn = ps_half p /\ (ps_count p <= ps_count pn)%N.
Proof.
  induction n as [|n IH]; intros s i p Hp; simpl.
  - exists p. repeat split; auto. lia.
  - destruct (sched_step s) as [[s' ie0]|] eqn:E.
    2:{ exists p. repeat split; auto. lia. }
    apply sched_step_inv in E. destruct E as (t & _ & _ & _ & Hpins & _).
    assert (Hp' : nth_error (sc_pins s') i = Some (step_pin t p)).
    { rewrite Hpins, nth_error_map_, Hp. reflexivity. }
    destruct (IH s' i _ Hp') as (pn & H1 & H2 & H3 & H4).
    exists pn. split; [exact H1|].
    unfold step_pin in *. destruct (Qeq_bool (ps_next p) t); simpl in *; repeat split; auto; lia.
Qed.

(* ------------------------------------------------------------------------- *)
(** * Positive frequencies: time moves forward, nothing pending lies in the past *)

Definition freqs_positive (cfg : config) : Prop :=
  forall c, In c (clock_pins cfg) -> (0 < absfreq (cfg_clocks cfg) c)%Q.

Definition future (s : sched) : Prop := forall x, In x (pending s) -> (sc_now s < x)%Q.

Lemma half_of_pos cfg c : freqs_positive cfg -> In c (clock_pins cfg) -> (0 < half_of cfg c)%Q.
Proof.
  intros H Hc. unfold half_of, Qdiv. apply Qmult_lt_0_compat; [reflexivity|].
  apply Qinv_lt_0_compat, H, Hc.
Qed.

Lemma pin_half_pos cfg p : freqs_positive cfg -> pin_inv cfg p -> (0 < ps_half p)%Q.
Proof.
  intros H (I1 & I2 & _). rewrite I2, half_period_eq. apply (half_of_pos cfg _ H I1).
Qed.

Lemma in_pending_step s s' ie t x :
  sched_step s = Some (s', ie) -> next_time s = Some t -> In x (pending s') ->
  (exists p, In p (sc_pins s) /\ x = ps_next (step_pin t p)) \/
  (In x (pending s) /\ ~ (x == t)%Q).
Proof.
  intros E Et Hx. apply sched_step_inv in E.
  destruct E as (t' & Et' & _ & _ & Hp & _ & Hr & Hst). rewrite Et in Et'. inversion Et'; subst t'.
  unfold pending in Hx. rewrite Hp, Hr, Hst in Hx.
  apply in_app_or in Hx. destruct Hx as [Hx|Hx].
  - left. rewrite map_map in Hx. apply in_map_iff in Hx. destruct Hx as (p & <- & Hin). eauto.
  - right. apply in_app_or in Hx. destruct Hx as [Hx|Hx];
      apply in_map_iff in Hx; destruct Hx as (e & <- & Hin); apply filter_In in Hin; destruct Hin as [Hin Hf];
      (split; [unfold pending; apply in_or_app; right; apply in_or_app;
               first [left; apply in_map_iff; eexists; split; [reflexivity | exact Hin]
                     | right; apply in_map_iff; eexists; split; [reflexivity | exact Hin]]
              | intro C; apply Qeq_bool_iff in C; rewrite C in Hf; discriminate]).
Qed.

Lemma future_step cfg s s' ie :
  freqs_positive cfg -> sinv cfg s -> future s -> sched_step s = Some (s', ie) ->
  future s' /\ (sc_now s < sc_now s')%Q.
Proof.
  intros Hf Hs Hfut E.
  pose proof E as E0. apply sched_step_inv in E0. destruct E0 as (t & Et & _ & Hnow & _).
  destruct (next_time_spec _ _ Et) as [Hin Hmin].
  split.
  - intros x Hx. rewrite Hnow.
    destruct (in_pending_step _ _ _ _ _ E Et Hx) as [(p & Hp & ->)|[Hp Hne]].
    + unfold step_pin. destruct (Qeq_bool (ps_next p) t) eqn:Eq.
      * apply Qeq_bool_eq in Eq. unfold pin_rearm. cbn [ps_next]. rewrite Qred_correct, Eq.
        destruct Hs as [_ Hall]. rewrite Forall_forall in Hall.
        pose proof (pin_half_pos cfg p Hf (Hall p Hp)) as Hpos.
        rewrite <- (Qplus_0_r t) at 1. apply Qplus_lt_r. exact Hpos.
      * assert (Hle : (t <= ps_next p)%Q).
        { apply Hmin. unfold pending. apply in_or_app. left. apply in_map. exact Hp. }
        apply Qle_lt_or_eq in Hle. destruct Hle as [Hl|Heq]; [exact Hl|].
        exfalso. symmetry in Heq. apply Qeq_bool_iff in Heq. congruence.
    + specialize (Hmin x Hp). apply Qle_lt_or_eq in Hmin. destruct Hmin as [Hl|Heq]; [exact Hl|].
      exfalso. apply Hne. symmetry. exact Heq.
  - rewrite Hnow. apply Hfut, Hin.
Qed.

(* every pending event of the initial schedule lies strictly after time 0 *)
Definition init_future (cfg : config) : Prop :=
  (forall e, In e (cfg_rstev cfg) -> (0 < fst (fst e))%Q) /\
  (forall s, In s (reset_pins cfg) -> (0 <= reset_hold_time cfg s)%Q).

Lemma Qis_zero_false_pos q : Qis_zero q = false -> (0 <= q)%Q -> (0 < q)%Q.
Proof.
  unfold Qis_zero. intros H1 H2. apply Qle_lt_or_eq in H2. destruct H2 as [H2|H2]; [exact H2|].
  exfalso. symmetry in H2. apply Qeq_bool_iff in H2. congruence.
Qed.

Lemma number_stims_in k l e : In e (number_stims k l) -> exists w, In (fst (fst e), w) l.
Proof.
  revert k; induction l as [|[t w] l IH]; intros k H; simpl in *; [contradiction|].
  destruct H as [<-|H]; [exists w; left; reflexivity|].
  destruct (IH _ H) as (w' & Hw). exists w'. right. exact Hw.
Qed.

Lemma future_init cfg :
  freqs_positive cfg -> init_future cfg ->
  (forall e, In e (cfg_stim cfg) -> (0 <= fst e)%Q) ->
  future (sched_init cfg).
Proof.
  intros Hf [Hr Hh] Hst x Hx. unfold future, sched_init, pending in *. cbn [sc_pins sc_rst sc_stim sc_now] in *.
  apply in_app_or in Hx. destruct Hx as [Hx|Hx].
  - rewrite map_map in Hx. apply in_map_iff in Hx. destruct Hx as (c & <- & Hc).
    unfold pin_init. cbn [ps_next].
    rewrite Qred_correct, Qplus_0_l, half_period_eq. apply (half_of_pos cfg c Hf Hc).
  - apply in_app_or in Hx. destruct Hx as [Hx|Hx].
    + apply in_map_iff in Hx. destruct Hx as (e & <- & He).
      apply in_app_or in He. destruct He as [He|He]; [|apply Hr, He].
      unfold poweron_releases in He. apply in_flat_map in He. destruct He as (s & Hs & He).
      destruct (Qis_zero (reset_hold_time cfg s)) eqn:Ez; [contradiction|].
      destruct He as [<-|[]]. cbn [fst]. rewrite Qred_correct, Qplus_0_l.
      apply Qis_zero_false_pos; [exact Ez | apply Hh, Hs].
    + apply in_map_iff in Hx. destruct Hx as (e & <- & He).
      destruct (number_stims_in _ _ _ He) as (w & Hw).
      unfold stim_later in Hw. apply filter_In in Hw. destruct Hw as [Hw Hz]. cbn [fst] in Hz.
      apply Qis_zero_false_pos; [apply negb_true_iff; exact Hz | apply (Hst _ Hw)].
Qed.

Lemma future_after cfg n : forall s,
  freqs_positive cfg -> sinv cfg s -> future s -> future (sched_after n s) /\ (sc_now s <= sc_now (sched_after n s))%Q.
Proof.
  induction n as [|n IH]; intros s Hf Hs Hfut; simpl.
  - split; [exact Hfut | apply Qle_refl].
  - destruct (sched_step s) as [[s' ie]|] eqn:E; [|split; [exact Hfut | apply Qle_refl]].
    destruct (future_step _ _ _ _ Hf Hs Hfut E) as [Hfut' Hlt].
    destruct (IH s' Hf (sinv_step _ _ _ _ Hs E) Hfut') as [H1 H2].
    split; [exact H1|]. eapply Qle_trans; [apply Qlt_le_weak, Hlt | exact H2].
Qed.

(* times of the instants increase strictly *)
Lemma run_times_increasing cfg n : forall s ie,
  freqs_positive cfg -> sinv cfg s -> future s -> In ie (sched_run n s) -> (sc_now s < ie_time ie)%Q.
Proof.
  induction n as [|n IH]; intros s ie Hf Hs Hfut Hin; simpl in Hin; [contradiction|].
  destruct (sched_step s) as [[s' ie0]|] eqn:E; [|contradiction].
  destruct (future_step _ _ _ _ Hf Hs Hfut E) as [Hfut' Hlt].
  pose proof E as E0. apply sched_step_inv in E0. destruct E0 as (t & _ & Ht & Hnow & _).
  destruct Hin as [<-|Hin].
  - rewrite Ht, <- Hnow. exact Hlt.
  - eapply Qlt_trans; [exact Hlt|]. apply (IH s' ie Hf (sinv_step _ _ _ _ Hs E) Hfut' Hin).
Qed.

(* no edge is skipped: once simulated time has reached k/(2 f_c), the k-th event of pin c has happened *)
Lemma complete_upto cfg n s c k :
  freqs_positive cfg -> sinv cfg s -> future s ->
  In c (clock_pins cfg) ->
  (forall p, In p (sc_pins s) -> ps_clk p = c -> (ps_count p < k)%N) ->
  (Q_of_N k * half_of cfg c <= sc_now (sched_after n s))%Q ->
  exists ie, In ie (sched_run n s) /\ In (c, edge_pol (start_high cfg c) k, k) (ie_clk ie).
Proof.
  intros Hf Hs Hfut Hc Hcnt Hle.
  destruct Hs as [Hm Hall].
  (* position of the pin *)
  assert (Hex : exists i p, nth_error (sc_pins s) i = Some p /\ ps_clk p = c).
  { rewrite <- Hm in Hc. apply in_map_iff in Hc. destruct Hc as (p & Hp & Hin).
    apply In_nth_error in Hin. destruct Hin as (i & Hi). eauto. }
  destruct Hex as (i & p & Hi & Hpc).
  destruct (after_pin_static n s i p Hi) as (pn & Hn & Hclk & Hhalf & Hmono).
  pose proof (sinv_after cfg n s (conj Hm Hall)) as [_ Halln].
  destruct (future_after cfg n s Hf (conj Hm Hall) Hfut) as [Hfutn _].
  rewrite Forall_forall in Halln.
  assert (Hpn : In pn (sc_pins (sched_after n s))) by (eapply nth_error_In; eassumption).
  destruct (Halln pn Hpn) as (J1 & J2 & J3 & _).
  assert (Hlt : (sc_now (sched_after n s) < ps_next pn)%Q).
  { apply Hfutn. unfold pending. apply in_or_app. left. apply in_map. exact Hpn. }
  (* k <= count pn, otherwise next pn = (count+1) h <= k h <= now *)
  assert (Hk : (k <= ps_count pn)%N).
  { destruct (N.le_gt_cases k (ps_count pn)) as [Hle'|Hgt]; [exact Hle'|]. exfalso.
    assert (Hh : (0 < half_of cfg c)%Q) by (apply half_of_pos; assumption).
    assert (Hq : (ps_next pn <= Q_of_N k * half_of cfg c)%Q).
    { rewrite J3, J2, half_period_eq, Hclk, Hpc. fold (half_of cfg c).
      apply Qmult_le_compat_r; [|apply Qlt_le_weak, Hh].
      rewrite <- Q_of_N_succ. unfold Q_of_N. rewrite <- Zle_Qle. lia. }
    apply (Qlt_irrefl (ps_next pn)). eapply Qle_lt_trans; [exact Hq|]. eapply Qle_lt_trans; [exact Hle | exact Hlt]. }
  destruct (run_complete cfg n s i p pn k (conj Hm Hall) Hi Hn) as (ie & H1 & H2).
  { split; [apply Hcnt; [eapply nth_error_In; eassumption | exact Hpc] | exact Hk]. }
  exists ie. rewrite Hpc in H2. auto.
Qed.

(* ------------------------------------------------------------------------- *)
(** * Progress: simulated time is unbounded, so every edge k/(2 f_c) is eventually reached *)

Definition on_grid (u x : Q) : Prop := exists m : N, (x == Q_of_N m * u)%Q.

Lemma on_grid_plus u x y : on_grid u x -> on_grid u y -> on_grid u (x + y)%Q.
Proof.
  intros [a Ha] [b Hb]. exists (a + b)%N. rewrite Ha, Hb. unfold Q_of_N.
  rewrite N2Z.inj_add, inject_Z_plus. ring.
Qed.

Lemma on_grid_eq u x y : (x == y)%Q -> on_grid u x -> on_grid u y.
Proof. intros E [a Ha]. exists a. rewrite <- E. exact Ha. Qed.

(* two grid points x < y are at least one unit apart *)
Lemma grid_gap u x y : (0 < u)%Q -> on_grid u x -> on_grid u y -> (x < y)%Q -> (x + u <= y)%Q.
Proof.
  intros Hu [a Ha] [b Hb] Hlt. rewrite Ha, Hb in *.
  assert (Hab : (a < b)%N).
  { destruct (N.lt_ge_cases a b) as [H|H]; [exact H|]. exfalso.
    apply (Qlt_irrefl (Q_of_N a * u)). eapply Qlt_le_trans; [exact Hlt|].
    apply Qmult_le_compat_r; [|apply Qlt_le_weak, Hu].
    unfold Q_of_N. rewrite <- Zle_Qle. lia. }
  setoid_replace (Q_of_N a * u + u)%Q with (Q_of_N (N.succ a) * u)%Q by (rewrite Q_of_N_succ; ring).
  apply Qmult_le_compat_r; [|apply Qlt_le_weak, Hu].
  unfold Q_of_N. rewrite <- Zle_Qle. lia.
Qed.

Definition ginv (u : Q) (s : sched) : Prop :=
  on_grid u (sc_now s) /\ (forall x, In x (pending s) -> on_grid u x) /\
  (forall p, In p (sc_pins s) -> on_grid u (ps_half p)).

Lemma ginv_step u s s' ie : ginv u s -> sched_step s = Some (s', ie) -> ginv u s'.
Proof.
  intros (G1 & G2 & G3) E.
  pose proof E as E0. apply sched_step_inv in E0. destruct E0 as (t & Et & _ & Hnow & Hp & _).
  destruct (next_time_spec _ _ Et) as [Hin _].
  repeat split.
  - rewrite Hnow. apply G2, Hin.
  - intros x Hx. destruct (in_pending_step _ _ _ _ _ E Et Hx) as [(p & Hpin & ->)|[Hpin _]]; [|apply G2, Hpin].
    unfold step_pin. destruct (Qeq_bool (ps_next p) t); [unfold pin_rearm; cbn [ps_next]|].
    + apply (on_grid_eq u (ps_next p + ps_half p)%Q); [symmetry; apply Qred_correct|].
      apply on_grid_plus; [apply G2; unfold pending; apply in_or_app; left; apply in_map, Hpin | apply G3, Hpin].
    + apply G2. unfold pending. apply in_or_app. left. apply in_map, Hpin.
  - intros p Hpin. rewrite Hp in Hpin. apply in_map_iff in Hpin. destruct Hpin as (q & <- & Hq).
    unfold step_pin. destruct (Qeq_bool (ps_next q) t); [unfold pin_rearm; cbn [ps_half]|]; apply G3, Hq.
Qed.

Lemma step_some s : sc_pins s <> [] -> exists s' ie, sched_step s = Some (s', ie).
Proof.
  intro H. unfold sched_step. destruct (next_time s) as [t|] eqn:E; [eauto|].
  apply next_time_none in E. unfold pending in E.
  destruct (sc_pins s); [contradiction | discriminate].
Qed.

Lemma time_lower_bound cfg u n : forall s,
  (0 < u)%Q -> freqs_positive cfg -> sinv cfg s -> future s -> ginv u s -> clock_pins cfg <> [] ->
  (sc_now s + Q_of_N (N.of_nat n) * u <= sc_now (sched_after n s))%Q.
Proof.
  induction n as [|n IH]; intros s Hu Hf Hs Hfut Hg Hne.
  - simpl. unfold Q_of_N. simpl. rewrite Qmult_0_l, Qplus_0_r. apply Qle_refl.
  - assert (Hp : sc_pins s <> []).
    { destruct Hs as [Hm _]. intro C. rewrite C in Hm. simpl in Hm. congruence. }
    destruct (step_some s Hp) as (s' & ie & E).
    change (sched_after (S n) s) with (match sched_step s with None => s | Some (s', _) => sched_after n s' end).
    rewrite E.
    destruct (future_step _ _ _ _ Hf Hs Hfut E) as [Hfut' Hlt].
    pose proof (ginv_step _ _ _ _ Hg E) as Hg'.
    pose proof (IH s' Hu Hf (sinv_step _ _ _ _ Hs E) Hfut' Hg' Hne) as H.
    eapply Qle_trans; [|exact H].
    pose proof (grid_gap u _ _ Hu (proj1 Hg) (proj1 Hg') Hlt) as Hgap.
    rewrite Nat2N.inj_succ, Q_of_N_succ.
    setoid_replace (sc_now s + (Q_of_N (N.of_nat n) + 1) * u)%Q
      with ((sc_now s + u) + Q_of_N (N.of_nat n) * u)%Q by ring.
    apply Qplus_le_compat; [exact Hgap | apply Qle_refl].
Qed.

(* every finite set of non-negative rationals lies on a common grid 1/D *)
Lemma grid_exists (l : list Q) :
  (forall x, In x l -> (0 <= x)%Q) -> exists D : positive, forall x, In x l -> on_grid (1 # D) x.
Proof.
  induction l as [|x l IH]; intro Hpos.
  - exists 1%positive. intros x [].
  - destruct IH as [D HD]. { intros y Hy. apply Hpos. right; exact Hy. }
    exists (D * Qden x)%positive. intros y [<-|Hy].
    + exists (Z.to_N (Qnum x) * Npos D)%N.
      assert (H0 : (0 <= Qnum x)%Z).
      { specialize (Hpos x (or_introl eq_refl)). unfold Qle in Hpos. simpl in Hpos. lia. }
      unfold Qeq, Q_of_N, Qmult. simpl. rewrite N2Z.inj_mul, Z2N.id by exact H0.
      simpl. rewrite Pos2Z.inj_mul. ring.
    + destruct (HD y Hy) as [m Hm]. exists (m * Npos (Qden x))%N.
      rewrite Hm. unfold Qeq, Q_of_N, Qmult. simpl. rewrite N2Z.inj_mul. simpl.
      rewrite Pos2Z.inj_mul. ring.
Qed.

(* ------------------------------------------------------------------------- *)
(** * The theorems about the schedule produced by powerOn *)

Record times_ok (cfg : config) : Prop := mk_times_ok {
  to_freq : freqs_positive cfg;                                       (* f > 0 for every clock pin *)
  to_init : init_future cfg;                                          (* injected reset events lie after time 0 *)
  to_stim : forall e, In e (cfg_stim cfg) -> (0 <= fst e)%Q }.

Lemma init_counts cfg p : In p (sc_pins (sched_init cfg)) -> ps_count p = 0%N.
Proof. simpl. intro H. apply in_map_iff in H. destruct H as (c & <- & _). reflexivity. Qed.

Theorem edge_times_all cfg n ie c r k :
  In ie (sched_run n (sched_init cfg)) -> In (c, r, k) (ie_clk ie) ->
  In c (clock_pins cfg) /\ (1 <= k)%N /\
  (ie_time ie == Q_of_N k * half_of cfg c)%Q /\
  r = edge_pol (start_high cfg c) k.
Proof. apply run_events, sinv_init. Qed.

Theorem edge_complete_all cfg n c k :
  times_ok cfg -> In c (clock_pins cfg) -> (1 <= k)%N ->
  (Q_of_N k * half_of cfg c <= sc_now (sched_after n (sched_init cfg)))%Q ->
  exists ie, In ie (sched_run n (sched_init cfg)) /\ In (c, edge_pol (start_high cfg c) k, k) (ie_clk ie).
Proof.
  intros [Hf Hi Hs] Hc Hk Hle.
  apply complete_upto; auto using sinv_init, future_init.
  intros p Hp _. rewrite (init_counts cfg p Hp). lia.
Qed.

Theorem sched_progress_all cfg c k :
  times_ok cfg -> In c (clock_pins cfg) -> (1 <= k)%N ->
  exists n ie, In ie (sched_run n (sched_init cfg)) /\ In (c, edge_pol (start_high cfg c) k, k) (ie_clk ie).
Proof.
  intros Hok Hc Hk. pose proof Hok as [Hf Hi Hs].
  set (s0 := sched_init cfg).
  pose proof (sinv_init cfg) as Hinv. pose proof (future_init cfg Hf Hi Hs) as Hfut.
  fold s0 in Hinv, Hfut.
  (* a common grid for all pending times and half periods *)
  destruct (grid_exists (pending s0 ++ map ps_half (sc_pins s0))) as [D HD].
  { intros x Hx. apply in_app_or in Hx. destruct Hx as [Hx|Hx].
    - apply Qlt_le_weak. apply (Hfut x Hx).
    - apply in_map_iff in Hx. destruct Hx as (p & <- & Hp). apply Qlt_le_weak.
      destruct Hinv as [_ Hall]. rewrite Forall_forall in Hall. apply (pin_half_pos cfg p Hf (Hall p Hp)). }
  set (u := (1 # D)%Q).
  assert (Hu : (0 < u)%Q) by reflexivity.
  assert (Hg : ginv u s0).
  { repeat split.
    - exists 0%N. unfold Q_of_N. simpl. rewrite Qmult_0_l. reflexivity.
    - intros x Hx. apply HD. apply in_or_app. left. exact Hx.
    - intros p Hp. apply HD. apply in_or_app. right. apply in_map. exact Hp. }
  (* the half period of pin c is M units *)
  assert (HM : exists M : N, (half_of cfg c == Q_of_N M * u)%Q).
  { assert (Hin : In (half_period (absfreq (cfg_clocks cfg) c)) (map ps_half (sc_pins s0))).
    { unfold s0; simpl. rewrite map_map. simpl. apply in_map_iff. exists c. split; [reflexivity | exact Hc]. }
    destruct (HD _ (in_or_app _ _ _ (or_intror Hin))) as [M HM]. exists M.
    unfold half_of. rewrite <- half_period_eq. exact HM. }
  destruct HM as [M HM].
  set (n := N.to_nat (k * M)).
  assert (Hne : clock_pins cfg <> []) by (intro C; rewrite C in Hc; contradiction).
  pose proof (time_lower_bound cfg u n s0 Hu Hf Hinv Hfut Hg Hne) as Hlb.
  exists n. apply edge_complete_all; auto.
  fold s0. eapply Qle_trans; [|exact Hlb].
  unfold s0 at 1. simpl sc_now. rewrite Qplus_0_l, HM. unfold n. rewrite N2Nat.id.
  unfold Q_of_N. rewrite N2Z.inj_mul, inject_Z_mult. rewrite Qmult_assoc. apply Qle_refl.
Qed.

(* instants of the trace have pairwise different times and none lies after the current time *)
Lemma run_time_le_after cfg n : forall s ie,
  freqs_positive cfg -> sinv cfg s -> future s -> In ie (sched_run n s) ->
  (ie_time ie <= sc_now (sched_after n s))%Q.
Proof.
  induction n as [|n IH]; intros s ie Hf Hs Hfut Hin; simpl in *; [contradiction|].
  destruct (sched_step s) as [[s' ie0]|] eqn:E; [|contradiction].
  destruct (future_step _ _ _ _ Hf Hs Hfut E) as [Hfut' _].
  pose proof (sinv_step _ _ _ _ Hs E) as Hs'.
  destruct Hin as [<-|Hin].
  - pose proof E as E0. apply sched_step_inv in E0. destruct E0 as (t & _ & Ht & Hnow & _).
    rewrite Ht, <- Hnow. apply (future_after cfg n s' Hf Hs' Hfut').
  - apply IH; assumption.
Qed.

Lemma run_time_inj cfg n : forall s a b,
  freqs_positive cfg -> sinv cfg s -> future s ->
  In a (sched_run n s) -> In b (sched_run n s) -> (ie_time a == ie_time b)%Q -> a = b.
Proof.
  induction n as [|n IH]; intros s a b Hf Hs Hfut Ha Hb Hab; simpl in *; [contradiction|].
  destruct (sched_step s) as [[s' ie0]|] eqn:E; [|contradiction].
  destruct (future_step _ _ _ _ Hf Hs Hfut E) as [Hfut' _].
  pose proof (sinv_step _ _ _ _ Hs E) as Hs'.
  pose proof E as E0. apply sched_step_inv in E0. destruct E0 as (t & _ & Ht & Hnow & _).
  destruct Ha as [<-|Ha], Hb as [<-|Hb]; auto.
  - exfalso. pose proof (run_times_increasing cfg n s' b Hf Hs' Hfut' Hb) as H.
    rewrite Hnow, <- Ht, Hab in H. apply (Qlt_irrefl _ H).
  - exfalso. pose proof (run_times_increasing cfg n s' a Hf Hs' Hfut' Ha) as H.
    rewrite Hnow, <- Ht, <- Hab in H. apply (Qlt_irrefl _ H).
  - eapply IH; eassumption.
Qed.

(* ------------------------------------------------------------------------- *)
(** * activation_times *)

(* does the k-th toggle of a pin whose source clock has trigger tp activate a domain with trigger tc? *)
Definition activates (tc tp : trigger) (k : N) : bool := edge_matches tc (edge_pol (trigger_eqb tp RISING) k).

(* ReferenceSimulator: the clocked nodes of clock c are advanced in this instant *)
Definition domain_advanced (cfg : config) (ie : instant_events) (c : nat) : bool :=
  existsb (fun x => Nat.eqb (fst (fst x)) (pinsrc (cfg_clocks cfg) c)
                    && edge_matches (ck_trig (get_clock (cfg_clocks cfg) c)) (snd (fst x)))
          (ie_clk ie).

Definition trig_of (cfg : config) (c : nat) : trigger := ck_trig (get_clock (cfg_clocks cfg) c).

Lemma half_of_pinsrc cfg c : (half_of cfg (pinsrc (cfg_clocks cfg) c) == half_of cfg c)%Q.
Proof. unfold half_of. rewrite pinsrc_freq. reflexivity. Qed.

Theorem activation_times_general cfg n ie c :
  times_ok cfg -> clocks_wf (cfg_clocks cfg) -> relevant cfg c = true ->
  In ie (sched_run n (sched_init cfg)) ->
  (domain_advanced cfg ie c = true <->
   exists k, (1 <= k)%N /\ (ie_time ie == Q_of_N k * half_of cfg c)%Q /\
             activates (trig_of cfg c) (trig_of cfg (pinsrc (cfg_clocks cfg) c)) k = true).
Proof.
  intros Hok Hwf Hrel Hin. pose proof Hok as [Hf Hi Hs]. split.
  - intro H. unfold domain_advanced in H. apply existsb_exists in H.
    destruct H as ([[p r] k] & Hx & H). simpl in H. apply andb_prop in H. destruct H as [Hp Hr].
    apply Nat.eqb_eq in Hp. subst p.
    destruct (edge_times_all cfg n ie _ r k Hin Hx) as (_ & Hk & Ht & Hpol).
    exists k. repeat split; auto.
    + rewrite Ht. rewrite half_of_pinsrc. reflexivity.
    + unfold activates, trig_of. unfold start_high in Hpol. rewrite <- Hpol. exact Hr.
  - intros (k & Hk & Ht & Hact).
    pose proof (pinsrc_is_pin cfg c Hwf Hrel) as Hpin.
    destruct (edge_complete_all cfg n (pinsrc (cfg_clocks cfg) c) k Hok Hpin Hk) as (ie' & Hin' & Hev).
    { rewrite half_of_pinsrc, <- Ht.
      apply (run_time_le_after cfg n _ ie Hf (sinv_init cfg) (future_init cfg Hf Hi Hs) Hin). }
    assert (ie' = ie).
    { apply (run_time_inj cfg n _ ie' ie Hf (sinv_init cfg) (future_init cfg Hf Hi Hs) Hin' Hin).
      destruct (edge_times_all cfg n ie' _ _ k Hin' Hev) as (_ & _ & Ht' & _).
      rewrite Ht', Ht, half_of_pinsrc. reflexivity. }
    subst ie'. unfold domain_advanced. apply existsb_exists.
    eexists. split; [exact Hev|]. simpl. rewrite Nat.eqb_refl. exact Hact.
Qed.

(* which toggles activate: *)
Lemma activates_same_edge t k : t <> RISING_AND_FALLING -> activates t t k = N.even k.
Proof.
  intro H. unfold activates, edge_pol. rewrite <- N.negb_odd.
  destruct t; simpl; try contradiction; destruct (N.odd k); reflexivity.
Qed.
Lemma activates_dual tp k : activates RISING_AND_FALLING tp k = true.
Proof. reflexivity. Qed.
Lemma activates_opposite_edge tc tp k :
  tc <> RISING_AND_FALLING -> tp <> RISING_AND_FALLING -> tc <> tp -> activates tc tp k = N.odd k.
Proof.
  intros H1 H2 H3. unfold activates, edge_pol.
  destruct tc, tp; simpl; try contradiction; destruct (N.odd k); reflexivity.
Qed.
(* a dual-edge pin starts low: its odd toggles are rising edges *)
Lemma activates_on_dual_pin tc k :
  activates tc RISING_AND_FALLING k =
  match tc with RISING => N.odd k | FALLING => N.even k | RISING_AND_FALLING => true end.
Proof. unfold activates, edge_pol. rewrite <- N.negb_odd. destruct tc; simpl; destruct (N.odd k); reflexivity. Qed.

Definition period_of (cfg : config) (c : nat) : Q := (1 / absfreq (cfg_clocks cfg) c)%Q.

Lemma even_time cfg c j : (Q_of_N (2 * j) * half_of cfg c == Q_of_N j * period_of cfg c)%Q.
Proof.
  unfold half_of, period_of, Q_of_N. rewrite N2Z.inj_mul, inject_Z_mult. simpl (Z.of_N 2).
  unfold Qdiv. setoid_replace (inject_Z 2) with 2%Q by reflexivity.
  set (x := (/ absfreq (cfg_clocks cfg) c)%Q). ring.
Qed.
Lemma odd_time cfg c j : (Q_of_N (2 * j + 1) * half_of cfg c == (Q_of_N j + (1 # 2)) * period_of cfg c)%Q.
Proof.
  unfold half_of, period_of, Q_of_N. rewrite N2Z.inj_add, N2Z.inj_mul, inject_Z_plus, inject_Z_mult.
  simpl (Z.of_N 2). simpl (Z.of_N 1). unfold Qdiv.
  setoid_replace (inject_Z 2) with 2%Q by reflexivity. setoid_replace (inject_Z 1) with 1%Q by reflexivity.
  set (x := (/ absfreq (cfg_clocks cfg) c)%Q). ring.
Qed.

(* single-edge domain on a pin with the same edge (every root clock; derived clocks with their own pin or the
   parent's edge): exactly the positive multiples of the period 1/f *)
Theorem activation_times_single_edge cfg n ie c :
  times_ok cfg -> clocks_wf (cfg_clocks cfg) -> relevant cfg c = true ->
  In ie (sched_run n (sched_init cfg)) ->
  trig_of cfg c <> RISING_AND_FALLING -> trig_of cfg (pinsrc (cfg_clocks cfg) c) = trig_of cfg c ->
  (domain_advanced cfg ie c = true <->
   exists j, (1 <= j)%N /\ (ie_time ie == Q_of_N j * period_of cfg c)%Q).
Proof.
  intros Hok Hwf Hrel Hin Hs He. rewrite (activation_times_general cfg n ie c Hok Hwf Hrel Hin), He.
  split.
  - intros (k & Hk & Ht & Ha). rewrite activates_same_edge in Ha by exact Hs.
    apply N.even_spec in Ha. destruct Ha as [j ->]. exists j. split; [lia|].
    rewrite Ht. apply even_time.
  - intros (j & Hj & Ht). exists (2 * j)%N. repeat split; [lia | rewrite Ht; symmetry; apply even_time |].
    rewrite activates_same_edge by exact Hs. apply N.even_spec. exists j. reflexivity.
Qed.

(* dual-edge domain: exactly the positive multiples of the half period 1/(2f) *)
Theorem activation_times_dual_edge cfg n ie c :
  times_ok cfg -> clocks_wf (cfg_clocks cfg) -> relevant cfg c = true ->
  In ie (sched_run n (sched_init cfg)) ->
  trig_of cfg c = RISING_AND_FALLING ->
  (domain_advanced cfg ie c = true <->
   exists k, (1 <= k)%N /\ (ie_time ie == Q_of_N k * half_of cfg c)%Q).
Proof.
  intros Hok Hwf Hrel Hin Hd. rewrite (activation_times_general cfg n ie c Hok Hwf Hrel Hin), Hd.
  split.
  - intros (k & Hk & Ht & _). eauto.
  - intros (k & Hk & Ht). exists k. repeat split; auto.
Qed.

(* DESIGN.md Q7: a single-edge derived clock that shares its parent's pin (same name, frequency, phase) but
   triggers on the opposite single edge activates at the ODD multiples of the half period: (j + 1/2)/f, j >= 0 *)
Theorem activation_times_opposite_edge cfg n ie c :
  times_ok cfg -> clocks_wf (cfg_clocks cfg) -> relevant cfg c = true ->
  In ie (sched_run n (sched_init cfg)) ->
  trig_of cfg c <> RISING_AND_FALLING -> trig_of cfg (pinsrc (cfg_clocks cfg) c) <> RISING_AND_FALLING ->
  trig_of cfg c <> trig_of cfg (pinsrc (cfg_clocks cfg) c) ->
  (domain_advanced cfg ie c = true <->
   exists j, (ie_time ie == (Q_of_N j + (1 # 2)) * period_of cfg c)%Q).
Proof.
  intros Hok Hwf Hrel Hin H1 H2 H3. rewrite (activation_times_general cfg n ie c Hok Hwf Hrel Hin).
  split.
  - intros (k & Hk & Ht & Ha). rewrite activates_opposite_edge in Ha by assumption.
    apply N.odd_spec in Ha. destruct Ha as [j ->]. exists j. rewrite Ht. apply odd_time.
  - intros (j & Ht). exists (2 * j + 1)%N. repeat split; [lia | rewrite Ht; symmetry; apply odd_time |].
    rewrite activates_opposite_edge by assumption. apply N.odd_spec. exists j. reflexivity.
Qed.

(* a single-edge derived clock on a dual-edge parent pin (the pin starts low) *)
Theorem activation_times_on_dual_pin cfg n ie c :
  times_ok cfg -> clocks_wf (cfg_clocks cfg) -> relevant cfg c = true ->
  In ie (sched_run n (sched_init cfg)) ->
  trig_of cfg (pinsrc (cfg_clocks cfg) c) = RISING_AND_FALLING ->
  (trig_of cfg c = RISING ->
   (domain_advanced cfg ie c = true <-> exists j, (ie_time ie == (Q_of_N j + (1 # 2)) * period_of cfg c)%Q)) /\
  (trig_of cfg c = FALLING ->
   (domain_advanced cfg ie c = true <-> exists j, (1 <= j)%N /\ (ie_time ie == Q_of_N j * period_of cfg c)%Q)).
Proof.
  intros Hok Hwf Hrel Hin Hp. split; intro Hc;
    rewrite (activation_times_general cfg n ie c Hok Hwf Hrel Hin), Hp, Hc.
  - split.
    + intros (k & Hk & Ht & Ha). rewrite activates_on_dual_pin in Ha.
      apply N.odd_spec in Ha. destruct Ha as [j ->]. exists j. rewrite Ht. apply odd_time.
    + intros (j & Ht). exists (2 * j + 1)%N. repeat split; [lia | rewrite Ht; symmetry; apply odd_time |].
      rewrite activates_on_dual_pin. apply N.odd_spec. exists j. reflexivity.
  - split.
    + intros (k & Hk & Ht & Ha). rewrite activates_on_dual_pin in Ha.
      apply N.even_spec in Ha. destruct Ha as [j ->]. exists j. split; [lia|].
      rewrite Ht. apply even_time.
    + intros (j & Hj & Ht). exists (2 * j)%N. repeat split; [lia | rewrite Ht; symmetry; apply even_time |].
      rewrite activates_on_dual_pin. apply N.even_spec. exists j. reflexivity.
Qed.
