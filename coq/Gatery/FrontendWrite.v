(* C05 -- partial assignments: the Rewire / Multiplexer network built by
   BitVectorSlice::assign evaluates to [write_path] on values. *)
From Gatery Require Import Bits FrontendDefs FrontendGraph.
Import ListNotations.

Section Write.
Variable inp : list bv.
Notation V := (V inp).

Definition gsel_bounded (k : nat) (g : gsel) : Prop :=
  match g with GStatic _ _ => True | GDyn n _ => n < k end.

Inductive sel_rel (G : list gnode) (E : env) : sel -> gsel -> Prop :=
| SR_static off w : sel_rel G E (SStatic off w) (GStatic off w)
| SR_bit i : sel_rel G E (SBit i) (GStatic i 1)
| SR_dslice idx iw w n : n < length G -> V G n = eval_expr inp E idx ->
    sel_rel G E (SDynSlice idx iw w) (GDyn n (dyn_slice_params iw w))
| SR_dbit idx iw pw n : n < length G -> V G n = eval_expr inp E idx ->
    sel_rel G E (SDynBit idx iw pw) (GDyn n (dyn_bit_params iw pw))
| SR_dpart idx parts pw n : n < length G -> V G n = eval_expr inp E idx ->
    sel_rel G E (SDynPart idx parts pw) (GDyn n (dyn_part_params parts pw)).

Lemma sel_rel_ext G G' E s g : ext G G' -> sel_rel G E s g -> sel_rel G' E s g.
Proof.
  intros He H. pose proof (ext_length _ _ He) as Hl.
  inversion H; subst; constructor; try lia; rewrite (V_ext inp G G'); auto.
Qed.

Lemma sel_rel_bounded G E s g : sel_rel G E s g -> gsel_bounded (length G) g.
Proof. inversion 1; simpl; auto. Qed.

Lemma gsel_bounded_mono k k' g : k <= k' -> gsel_bounded k g -> gsel_bounded k' g.
Proof. destruct g; simpl; auto. lia. Qed.

Lemma elab_sels_struct S p : forall G gp G',
  sigs_bounded (length G) S -> elab_sels S p G = (gp, G') ->
  ext G G' /\ Forall (gsel_bounded (length G')) gp.
Proof.
  induction p as [|s p IH]; intros G gp G' Hb H; simpl in H.
  - inversion H; subst. split; [apply ext_refl|constructor].
  - destruct s.
    + destruct (elab_sels S p G) as [r G1] eqn:H1. apply IH in H1 as [E1 F1]; auto.
      inversion H; subst. split; auto. constructor; simpl; auto.
    + destruct (elab_sels S p G) as [r G1] eqn:H1. apply IH in H1 as [E1 F1]; auto.
      inversion H; subst. split; auto. constructor; simpl; auto.
    + destruct (elab_expr S idx G) as [ni G1] eqn:H0. destruct (elab_sels S p G1) as [r G2] eqn:H1.
      apply elab_expr_struct in H0 as [E0 B0]; auto.
      apply IH in H1 as [E1 F1]; [|eapply sigs_bounded_mono; [apply ext_length; exact E0|exact Hb]].
      inversion H; subst. split; [eapply ext_trans; eauto|].
      constructor; auto. simpl. apply ext_length in E1. lia.
    + destruct (elab_expr S idx G) as [ni G1] eqn:H0. destruct (elab_sels S p G1) as [r G2] eqn:H1.
      apply elab_expr_struct in H0 as [E0 B0]; auto.
      apply IH in H1 as [E1 F1]; [|eapply sigs_bounded_mono; [apply ext_length; exact E0|exact Hb]].
      inversion H; subst. split; [eapply ext_trans; eauto|].
      constructor; auto. simpl. apply ext_length in E1. lia.
    + destruct (elab_expr S idx G) as [ni G1] eqn:H0. destruct (elab_sels S p G1) as [r G2] eqn:H1.
      apply elab_expr_struct in H0 as [E0 B0]; auto.
      apply IH in H1 as [E1 F1]; [|eapply sigs_bounded_mono; [apply ext_length; exact E0|exact Hb]].
      inversion H; subst. split; [eapply ext_trans; eauto|].
      constructor; auto. simpl. apply ext_length in E1. lia.
Qed.

Lemma elab_sels_sem S E p : forall G gp G',
  sigs_bounded (length G) S -> rel inp G S E -> elab_sels S p G = (gp, G') ->
  Forall2 (sel_rel G' E) p gp.
Proof.
  induction p as [|s p IH]; intros G gp G' Hb HR H; simpl in H.
  - inversion H; subst. constructor.
  - destruct s.
    + destruct (elab_sels S p G) as [r G1] eqn:H1. inversion H; subst.
      constructor; [constructor | eapply IH; eauto].
    + destruct (elab_sels S p G) as [r G1] eqn:H1. inversion H; subst.
      constructor; [constructor | eapply IH; eauto].
    + destruct (elab_expr S idx G) as [ni G1] eqn:H0. destruct (elab_sels S p G1) as [r G2] eqn:H1.
      pose proof (elab_expr_struct _ _ _ _ _ Hb H0) as [E0 B0].
      pose proof (elab_expr_sem inp _ _ _ _ _ _ Hb HR H0) as Hv.
      assert (Hb1 : sigs_bounded (length G1) S) by (eapply sigs_bounded_mono; [apply ext_length; exact E0|exact Hb]).
      pose proof (elab_sels_struct _ _ _ _ _ Hb1 H1) as [E1 _].
      inversion H; subst. constructor.
      * apply (sel_rel_ext G1 G' E); auto. constructor; auto.
      * eapply IH; [exact Hb1 | eapply rel_ext; eauto | exact H1].
    + destruct (elab_expr S idx G) as [ni G1] eqn:H0. destruct (elab_sels S p G1) as [r G2] eqn:H1.
      pose proof (elab_expr_struct _ _ _ _ _ Hb H0) as [E0 B0].
      pose proof (elab_expr_sem inp _ _ _ _ _ _ Hb HR H0) as Hv.
      assert (Hb1 : sigs_bounded (length G1) S) by (eapply sigs_bounded_mono; [apply ext_length; exact E0|exact Hb]).
      pose proof (elab_sels_struct _ _ _ _ _ Hb1 H1) as [E1 _].
      inversion H; subst. constructor.
      * apply (sel_rel_ext G1 G' E); auto. constructor; auto.
      * eapply IH; [exact Hb1 | eapply rel_ext; eauto | exact H1].
    + destruct (elab_expr S idx G) as [ni G1] eqn:H0. destruct (elab_sels S p G1) as [r G2] eqn:H1.
      pose proof (elab_expr_struct _ _ _ _ _ Hb H0) as [E0 B0].
      pose proof (elab_expr_sem inp _ _ _ _ _ _ Hb HR H0) as Hv.
      assert (Hb1 : sigs_bounded (length G1) S) by (eapply sigs_bounded_mono; [apply ext_length; exact E0|exact Hb]).
      pose proof (elab_sels_struct _ _ _ _ _ Hb1 H1) as [E1 _].
      inversion H; subst. constructor.
      * apply (sel_rel_ext G1 G' E); auto. constructor; auto.
      * eapply IH; [exact Hb1 | eapply rel_ext; eauto | exact H1].
Qed.

(* ---- structure of the write network ---- *)
(* all graphs met while one assignment is elaborated extend the graph G0 in which the
   right hand side and the index expressions live *)

Definition ew_struct (G0 : list gnode) (ew : nid -> list gnode -> nid * list gnode) : Prop :=
  forall cur G r G', ext G0 G -> cur < length G -> ew cur G = (r, G') -> ext G G' /\ r < length G'.

Lemma dyn_opts_struct G0 ew cur mul w : ew_struct G0 ew -> forall ks G os G',
  ext G0 G -> cur < length G -> dyn_opts ew cur mul w ks G = (os, G') ->
  ext G G' /\ Forall (fun k => k < length G') os.
Proof.
  intros Hew. induction ks as [|k ks IH]; intros G os G' Hk Hc H; simpl in H.
  - inversion H; subst. split; [apply ext_refl|constructor].
  - unfold emit in H.
    destruct (ew (length G) (G ++ [NExtract cur (k * mul) w])) as [r Gc] eqn:H1.
    destruct (dyn_opts ew cur mul w ks (Gc ++ [NReplace cur r (k * mul) w])) as [os' Ge] eqn:H2.
    inversion H; subst.
    assert (EGb : ext G (G ++ [NExtract cur (k * mul) w])) by apply ext_emit.
    apply Hew in H1 as [E1 B1]; [| eapply ext_trans; eauto | rewrite app_length; simpl; lia].
    pose proof (ext_length _ _ E1) as L1. rewrite app_length in L1. simpl in L1.
    assert (EGd : ext Gc (Gc ++ [NReplace cur r (k * mul) w])) by apply ext_emit.
    assert (EGGd : ext G (Gc ++ [NReplace cur r (k * mul) w]))
      by (eapply ext_trans; [exact EGb|]; eapply ext_trans; [exact E1|exact EGd]).
    apply IH in H2 as [E2 F2]; [| eapply ext_trans; eauto | rewrite app_length; simpl; lia].
    pose proof (ext_length _ _ E2) as L2. rewrite app_length in L2. simpl in L2.
    split.
    + eapply ext_trans; [exact EGGd|exact E2].
    + constructor; auto. lia.
Qed.

Lemma elab_write_struct gp next G0 :
  Forall (gsel_bounded (length G0)) gp -> next < length G0 -> forall cur G r G',
  ext G0 G -> cur < length G ->
  elab_write gp next cur G = (r, G') -> ext G G' /\ r < length G'.
Proof.
  intros Hg Hn. induction gp as [|g gp IH]; intros cur G r G' Hk Hc H; cbn [elab_write] in H.
  - inversion H; subst. split; [apply ext_refl|]. apply ext_length in Hk. lia.
  - inversion Hg as [|? ? Hg1 Hg2]; subst. specialize (IH Hg2).
    destruct g as [off w | idx [[maxi mul] w]].
    + unfold emit in H at 1.
      destruct (elab_write gp next (length G) (G ++ [NExtract cur off w])) as [r1 G2] eqn:H1.
      unfold emit in H. inversion H; subst.
      apply IH in H1 as [E1 B1]; [| eapply ext_trans; [exact Hk|apply ext_emit] | rewrite app_length; simpl; lia].
      split; [|rewrite app_length; simpl; lia].
      eapply ext_trans; [apply ext_emit|]. eapply ext_trans; [exact E1|apply ext_emit].
    + destruct (dyn_opts (elab_write gp next) cur mul w (seq 0 (S maxi)) G) as [opts G1] eqn:H1.
      unfold emit in H. inversion H; subst.
      apply (dyn_opts_struct G0) in H1 as [E1 F1]; auto.
      split; [eapply ext_trans; [exact E1|apply ext_emit] | rewrite app_length; simpl; lia].
Qed.

(* ---- meaning of the write network ---- *)

Lemma dyn_opts_sem G0 ew cur mul w (inner : bv -> bv) :
  ew_struct G0 ew ->
  (forall c G r G', ext G0 G -> c < length G -> ew c G = (r, G') -> V G' r = inner (V G c)) ->
  forall ks G os G',
  ext G0 G -> cur < length G -> dyn_opts ew cur mul w ks G = (os, G') ->
  map (V G') os =
  map (fun k => replace_sem (V G cur) (inner (extract_sem (V G cur) (k * mul) w)) (k * mul) w) ks.
Proof.
  intros Hst Hsem. induction ks as [|k ks IH]; intros G os G' Hk Hc H; simpl in H.
  - inversion H; subst. reflexivity.
  - unfold emit in H.
    destruct (ew (length G) (G ++ [NExtract cur (k * mul) w])) as [r Gc] eqn:H1.
    destruct (dyn_opts ew cur mul w ks (Gc ++ [NReplace cur r (k * mul) w])) as [os' Ge] eqn:H2.
    inversion H; subst. clear H.
    set (Gb := G ++ [NExtract cur (k * mul) w]) in *.
    assert (Lb : length Gb = S (length G)) by (unfold Gb; rewrite app_length; simpl; lia).
    assert (EGb : ext G Gb) by apply ext_emit.
    assert (E0b : ext G0 Gb) by (eapply ext_trans; [exact Hk|exact EGb]).
    destruct (Hst (length G) Gb r Gc) as [E1 B1]; [exact E0b|lia|exact H1|].
    assert (S1 : V Gc r = inner (V Gb (length G))) by (apply Hsem; [exact E0b|lia|exact H1]).
    pose proof (ext_length _ _ E1) as L1.
    set (Gd := Gc ++ [NReplace cur r (k * mul) w]) in *.
    assert (Ld : length Gd = S (length Gc)) by (unfold Gd; rewrite app_length; simpl; lia).
    assert (EGd : ext Gc Gd) by apply ext_emit.
    assert (EGGd : ext G Gd) by (eapply ext_trans; [exact EGb|]; eapply ext_trans; [exact E1|exact EGd]).
    assert (E0d : ext G0 Gd) by (eapply ext_trans; [exact Hk|exact EGGd]).
    destruct (dyn_opts_struct G0 ew cur mul w Hst ks Gd os' G') as [E2 F2]; [exact E0d|lia|exact H2|].
    simpl. f_equal.
    + (* this option *)
      rewrite (V_ext inp Gd G' (length Gc) E2 ltac:(lia)).
      unfold Gd. rewrite V_emit. simpl. fold (V Gc cur) (V Gc r).
      rewrite S1. unfold Gb at 1. rewrite V_emit. simpl. fold (V G cur).
      rewrite (V_ext inp G Gc cur); [reflexivity | eapply ext_trans; [exact EGb|exact E1] | exact Hc].
    + rewrite (IH Gd os' G'); [|exact E0d|lia|exact H2].
      rewrite (V_ext inp G Gd cur EGGd Hc). reflexivity.
Qed.

Lemma dyn_write_eq cur iv prm inner :
  dyn_write cur iv prm inner =
  mux_sem iv (map (fun k => replace_sem cur (inner (extract_sem cur (k * snd (fst prm)) (snd prm)))
                              (k * snd (fst prm)) (snd prm)) (seq 0 (S (fst (fst prm))))).
Proof. destruct prm as [[a b] c]. reflexivity. Qed.

Lemma elab_write_sem E next G0 : next < length G0 -> forall p gp,
  Forall2 (sel_rel G0 E) p gp -> forall cur G r G',
  ext G0 G -> cur < length G ->
  elab_write gp next cur G = (r, G') ->
  V G' r = write_path inp E p (V G0 next) (V G cur).
Proof.
  intros Hn p gp HF.
  assert (Hgb : Forall (gsel_bounded (length G0)) gp).
  { clear -HF. induction HF; constructor; auto. eapply sel_rel_bounded; eauto. }
  induction HF as [|s g p gp Hsg HF IH]; intros cur G r G' Hk Hc H; cbn [elab_write] in H.
  - inversion H; subst. simpl. apply V_ext; auto.
  - inversion Hgb as [|? ? Hg1 Hg2]; subst. specialize (IH Hg2).
    assert (Hdyn : forall idx n prm, g = GDyn n prm -> n < length G0 -> V G0 n = eval_expr inp E idx ->
              V G' r = dyn_write (V G cur) (eval_expr inp E idx) prm (write_path inp E p (V G0 next))).
    { intros idx n [[maxi mul] w] -> Hnb Hnv.
      destruct (dyn_opts (elab_write gp next) cur mul w (seq 0 (S maxi)) G) as [opts G1] eqn:H1.
      unfold emit in H. inversion H; subst. clear H.
      assert (Hst : ew_struct G0 (elab_write gp next)).
      { intros c Gx rx Gx' Hx Hcx Hex. eapply (elab_write_struct gp next G0); eauto. }
      destruct (dyn_opts_struct G0 _ cur mul w Hst _ _ _ _ Hk Hc H1) as [E1 F1].
      rewrite V_emit. simpl. fold (V G1 n).
      replace (map (getv (eval_all inp G1)) opts) with (map (V G1) opts) by reflexivity.
      rewrite (dyn_opts_sem G0 _ cur mul w (write_path inp E p (V G0 next)) Hst) with (G := G) (ks := seq 0 (S maxi)); auto.
      rewrite (V_ext inp G0 G1 n); [| eapply ext_trans; eauto | exact Hnb].
      rewrite Hnv. reflexivity. }
    assert (Hsta : forall off w, g = GStatic off w ->
              V G' r = replace_sem (V G cur) (write_path inp E p (V G0 next) (extract_sem (V G cur) off w)) off w).
    { intros off w ->.
      unfold emit in H at 1.
      destruct (elab_write gp next (length G) (G ++ [NExtract cur off w])) as [r1 G2] eqn:H1.
      unfold emit in H. inversion H; subst. clear H.
      set (Gb := G ++ [NExtract cur off w]) in *.
      assert (Lb : length Gb = S (length G)) by (unfold Gb; rewrite app_length; simpl; lia).
      assert (EGb : ext G Gb) by apply ext_emit.
      assert (E0b : ext G0 Gb) by (eapply ext_trans; [exact Hk|exact EGb]).
      destruct (elab_write_struct gp next G0 Hg2 Hn (length G) Gb r1 G2) as [E1 B1]; [exact E0b|lia|exact H1|].
      rewrite V_emit. simpl. fold (V G2 cur) (V G2 r1).
      rewrite (IH (length G) Gb r1 G2); [|exact E0b|lia|exact H1].
      unfold Gb at 1. rewrite V_emit. simpl. fold (V G cur).
      rewrite (V_ext inp G G2 cur); [reflexivity | eapply ext_trans; [exact EGb|exact E1] | exact Hc]. }
    inversion Hsg; subst; cbn [write_path].
    + apply Hsta; reflexivity.
    + apply Hsta; reflexivity.
    + eapply Hdyn; eauto.
    + eapply Hdyn; eauto.
    + eapply Hdyn; eauto.
Qed.

End Write.
