(* C16 -- arbitrary chains (sdesc): data function, capacity, environment assumptions, and the
   transfer / hold theorems by induction over the chain description. *)
From Coq Require Import List NArith Bool Arith Lia.
From Gatery Require Import StreamDefs StreamSpec StreamCompose StreamStages StreamHold StreamPacket.
Import ListNotations.

(* ratios must be at least 1 (HCL_DESIGNCHECK in extendWidth / reduceWidth) *)
Fixpoint wfd (d : sdesc) : Prop :=
  match d with
  | DExtend r | DReduce r | DPReduce r => 1 <= r
  | DComp a b => wfd a /\ wfd b
  | _ => True
  end.

(* the chain's data function on transfer sequences *)
Fixpoint fn (d : sdesc) : list xfer -> list xfer :=
  match d with
  | DExtend r => pack r
  | DReduce r => unpack r
  | DPExtend m r => ppack m r
  | DPReduce r => unpack r
  | DComp a b => fun l => fn b (fn a l)
  | _ => idf
  end.

(* expansion factor (Lipschitz constant of fn) and capacity in units of output transfers *)
Fixpoint kd (d : sdesc) : nat :=
  match d with
  | DReduce r | DPReduce r => r
  | DComp a b => kd b * kd a
  | _ => 1
  end.

Fixpoint capd (d : sdesc) : nat :=
  match d with
  | DRegDown | DRegBlock | DRegReady => 1
  | DRegDecouple => 2
  | DDelay n => n
  | DStall _ | DExtend _ | DReduce _ | DPExtend _ _ | DPReduce _ => 0
  | DComp a b => capd b + kd b * capd a
  end.

(* what the chain assumes about its surroundings for the transfer theorem: only that every
   reduceWidth stage sees a producer that holds (at ITS input wire, inside the chain) *)
Fixpoint env (d : sdesc) : list cyc -> Prop :=
  match d with
  | DReduce r => EHold (reduceS r)
  | DPReduce r => EHold (preduceS r)
  | DComp a b => Ecomp (denote a) (denote b) (env a) (env b)
  | _ => ETrue
  end.

Fixpoint no_reduce (d : sdesc) : Prop :=
  match d with
  | DReduce _ | DPReduce _ => False
  | DComp a b => no_reduce a /\ no_reduce b
  | _ => True
  end.

Lemma fn_mono : forall d, mono (fn d).
Proof.
  induction d; simpl; try apply mono_id.
  - apply mono_pack.
  - apply mono_unpack.
  - apply mono_ppack.
  - apply mono_unpack.
  - apply mono_comp; assumption.
Qed.

Lemma fn_lip : forall d, lip (fn d) (kd d).
Proof.
  induction d; simpl; try apply lip_id.
  - apply lip_pack.
  - apply lip_unpack.
  - apply lip_ppack.
  - apply lip_unpack.
  - apply lip_comp; [apply fn_mono | assumption | assumption].
Qed.

(* ------------------------------------------------------------------ transfers *)
Theorem chain_Good : forall d, wfd d -> Good (denote d) (env d) (fn d) (capd d).
Proof.
  induction d; simpl; intro W.
  - apply regDown_Good.
  - apply block_Good.
  - apply ready_Good.
  - apply decouple_Good.
  - apply delay_Good.
  - apply stall_Good.
  - apply extend_Good, W.
  - apply reduce_Good, W.
  - apply pextend_Good.
  - apply preduce_Good, W.
  - destruct W as [Wa Wb].
    apply Good_compose; [apply fn_mono | apply fn_mono | apply fn_lip | apply IHd1, Wa | apply IHd2, Wb].
Qed.

Lemma env_no_reduce : forall d, no_reduce d -> forall cs, env d cs.
Proof.
  induction d; simpl; intros H cs; try exact I.
  - destruct H.
  - destruct H.
  - destruct H as [Ha Hb]. split; [apply IHd1, Ha | apply IHd2, Hb].
Qed.

Theorem chain_Strong : forall d, wfd d -> no_reduce d -> Strong (denote d) ETrue (fn d).
Proof.
  induction d; simpl; intros W NR.
  - apply regDown_Good.
  - apply block_Good.
  - apply ready_Good.
  - apply decouple_Good.
  - apply delay_Good.
  - apply stall_Good.
  - apply extend_Good, W.
  - destruct NR.
  - apply pextend_Good.
  - destruct NR.
  - destruct W as [Wa Wb]. destruct NR as [Na Nb].
    eapply Strong_weaken; [| apply compose_Strong; [apply fn_mono | apply IHd1; assumption | apply IHd2; assumption]].
    intros; split; exact I.
Qed.

(* ------------------------------------------------------------------ hold *)
(* side condition for the hold theorem: every stall stage of the chain is polite at its own output *)
Fixpoint polite (d : sdesc) : st (denote d) -> cyc -> cyc -> Prop :=
  match d return st (denote d) -> cyc -> cyc -> Prop with
  | DStall k => stall_polite k
  | DComp a b => Qcomp (denote a) (denote b) (polite a) (polite b)
  | DRegDown => QTrue _ | DRegBlock => QTrue _ | DRegReady => QTrue _ | DRegDecouple => QTrue _
  | DDelay n => QTrue _ | DExtend r => QTrue _ | DReduce r => QTrue _
  | DPExtend m r => QTrue _ | DPReduce r => QTrue _
  end.

Definition stalls_ok (d : sdesc) (cs : list cyc) : Prop := pairsFrom (denote d) (polite d) (init (denote d)) cs.

Fixpoint gives_hold (d : sdesc) : bool :=
  match d with
  | DRegDown | DRegBlock | DRegReady | DRegDecouple => true
  | DDelay n => negb (Nat.eqb n 0)
  | DComp a b => gives_hold b
  | _ => false
  end.

Theorem chain_HoldC : forall d, HoldC (denote d) (polite d).
Proof.
  induction d; simpl.
  - apply HoldU_C, regDown_HoldU.
  - apply HoldU_C, block_HoldU.
  - apply HoldU_C, ready_HoldU.
  - apply HoldU_C, decouple_HoldU.
  - apply delay_HoldC.
  - apply stall_HoldC.
  - apply extend_HoldC.
  - apply reduce_HoldC.
  - apply pextend_HoldC.
  - apply preduce_HoldC.
  - apply HoldC_compose; assumption.
Qed.

Theorem chain_HoldU : forall d, gives_hold d = true -> HoldU (denote d).
Proof.
  induction d; simpl; intro G; try discriminate.
  - apply regDown_HoldU.
  - apply block_HoldU.
  - apply ready_HoldU.
  - apply decouple_HoldU.
  - apply delay_HoldU. destruct n; [discriminate | discriminate].
  - apply HoldU_compose, IHd2, G.
Qed.

Theorem chain_hold_trace : forall d cs,
  stalls_ok d cs -> holdW (inW (trace (denote d) cs)) -> holdW (outW (trace (denote d) cs)).
Proof. intros d cs; apply (holdC_traceFrom _ _ (chain_HoldC d)). Qed.

Theorem chain_hold_uncond : forall d cs, gives_hold d = true -> holdW (outW (trace (denote d) cs)).
Proof. intros d cs G; apply (holdU_traceFrom _ (chain_HoldU d G)). Qed.

(* a conformant producer and polite stalls discharge the environment assumption of every reduceWidth *)
Lemma stalls_ok_compose : forall a b cs, stalls_ok (DComp a b) cs ->
  stalls_ok a (upcs (denote a) (denote b) cs) /\ stalls_ok b (midcs (denote a) (denote b) cs).
Proof. intros a b cs H. apply (pairsFrom_compose _ _ _ _ _ _ _ H). Qed.

Theorem env_of_hold : forall d cs, stalls_ok d cs -> holdW (inW (trace (denote d) cs)) -> env d cs.
Proof.
  induction d; intros cs HS HI; simpl; try exact I.
  - exact HI.
  - exact HI.
  - destruct (stalls_ok_compose _ _ _ HS) as [Sa Sb].
    simpl in HI. rewrite inW_compose in HI. split.
    + apply IHd1; assumption.
    + apply IHd2; [assumption|]. rewrite <- midW_compose. apply chain_hold_trace; assumption.
Qed.

(* the flat list of stages a chain is made of: chainOf gives a right nested DComp *)
Lemma wfd_chainOf : forall l, Forall wfd l -> wfd (chainOf l).
Proof.
  induction l as [|d l IH]; intro H; [exact I|].
  inversion H as [|? ? Hd Hl]; subst. destruct l as [|d' l]; [exact Hd|].
  split; [exact Hd | apply IH, Hl].
Qed.

(* Packet.h matchWidth = the converter it selects at elaboration time *)
Lemma wfd_matchD : forall m t, 1 <= m -> 1 <= t -> (t <= m -> m / t <> 0) -> wfd (matchD m t).
Proof.
  intros m t Hm Ht H. unfold matchD. destruct (Nat.ltb m t) eqn:E1; [exact I|].
  destruct (Nat.ltb t m) eqn:E2; [|exact I]. simpl. apply Nat.ltb_lt in E2. specialize (H ltac:(lia)). lia.
Qed.
