(* C20 -- Recorded waveforms and test vectors faithfully record the simulation.

   Models: VcdDefs.v (sim::WaveformRecorder / VCDSink / VCDWriter as a function of the simulator callbacks
   the sink receives, and a VCD reader), TvDefs.v (vhdl::FileBasedTestbenchRecorder as a function of the
   callbacks it receives).  Both are tied to the real classes by checks/C20.py on every run (the
   extracted writer must reproduce the real file byte for byte, the extracted reader applied to the real
   file must return what an independent SimulatorCallbacks observer sampled, the extracted recorder model
   must reproduce the real .testvectors file, and the real file is replayed into a fresh real simulation).
   Proofs: VcdProofs.v, TvProofs.v.

   Quantifiers: every signal table (any number of signals, any widths incl. 0 and > 64, scalar or vector
   form), every callback sequence (ticks at arbitrary rational times, clock/reset lines, commits with
   arbitrary four-state values incl. the hidden VALUE plane of undefined bits), every query time;
   for the test vectors every callback sequence and every rational flush time.

   Outside the theorems (partial): memories in the VCD, string / debug-message variables, GTKWave and
   surfer project files, the scope hierarchy of the header, the inline TestbenchRecorder (VHDL text), the
   resolution of a read output to an IO pin, boost::rational overflow. *)
From Coq Require Import List Bool Arith NArith ZArith QArith Qround String Ascii.
From Gatery Require Import Bits VcdDefs VcdProofs TvDefs TvProofs.
Import ListNotations.

(* ------------------------------------------------------------------------------------------ *)
(* VCD                                                                                         *)
(* ------------------------------------------------------------------------------------------ *)

(* The reader, asked about any signal at ANY tick T, returns the three-valued view of what the simulator
   reported for that signal in the last commit whose tick is <= T (all-X of the declared width if there
   is none).  Hypotheses: codes pairwise distinct, one value of the declared width per signal and commit,
   clock/reset lines use other codes, ticks never decrease (simulation time never does, see vcd_tick_mono). *)
Theorem vcd_read_last_commit : forall ds evs T i d,
  NoDup (map sg_id ds) -> evs_ok ds evs -> ticks_mono 0 evs ->
  nth_error ds i = Some d ->
  read_sig (write_body ds evs) T d = viewv (last_commit T 0 i (rzeros (sg_width d)) evs).
Proof. exact vcd_read_last_commit_proof. Qed.
Print Assumptions vcd_read_last_commit.

(* Roundtrip at a commit: if every later tick is greater than the tick of this commit (and the next
   callback after it that matters is a tick), reading at that tick gives back exactly the committed value. *)
Theorem vcd_roundtrip : forall ds pre news post i d,
  NoDup (map sg_id ds) ->
  evs_ok ds (pre ++ EvCommit news :: post) ->
  ticks_mono 0 (pre ++ EvCommit news :: post) ->
  tick_first post -> ticks_gt (now_after 0 pre) post ->
  nth_error ds i = Some d ->
  read_sig (write_body ds (pre ++ EvCommit news :: post)) (now_after 0 pre) d = viewv (nth i news []).
Proof. exact vcd_roundtrip_proof. Qed.
Print Assumptions vcd_roundtrip.

(* the form asked for: commit times in strictly increasing ticks *)
Theorem vcd_roundtrip_strict : forall ds pre news post i d,
  NoDup (map sg_id ds) ->
  evs_ok ds (pre ++ EvCommit news :: post) ->
  ticks_strict 0 (pre ++ EvCommit news :: post) ->
  tick_first post ->
  nth_error ds i = Some d ->
  read_sig (write_body ds (pre ++ EvCommit news :: post)) (now_after 0 pre) d = viewv (nth i news []).
Proof. exact vcd_roundtrip_strict_proof. Qed.
Print Assumptions vcd_roundtrip_strict.

(* commits that share a tick: the file shows the last one ... *)
Theorem vcd_same_tick_last_wins : forall ds pre news1 mid news2 post i d,
  let evs := pre ++ EvCommit news1 :: mid ++ EvCommit news2 :: post in
  let T := now_after 0 pre in
  NoDup (map sg_id ds) -> evs_ok ds evs -> ticks_mono 0 evs ->
  ticks_le T mid -> tick_first post -> ticks_gt T post ->
  nth_error ds i = Some d ->
  read_sig (write_body ds evs) T d = viewv (nth i news2 []).
Proof. exact vcd_same_tick_last_wins_proof. Qed.
Print Assumptions vcd_same_tick_last_wins.

(* ... and the earlier one cannot be recovered: the roundtrip without "later ticks are greater" is false *)
Theorem vcd_roundtrip_same_tick_refuted :
  ~ (forall ds pre news post i d,
       NoDup (map sg_id ds) ->
       evs_ok ds (pre ++ EvCommit news :: post) ->
       ticks_mono 0 (pre ++ EvCommit news :: post) ->
       tick_first post ->
       nth_error ds i = Some d ->
       read_sig (write_body ds (pre ++ EvCommit news :: post)) (now_after 0 pre) d = viewv (nth i news [])).
Proof. exact vcd_roundtrip_same_tick_refuted_proof. Qed.
Print Assumptions vcd_roundtrip_same_tick_refuted.

(* the whole file (any header without the `$enddefinitions $end` line): parsing the printed lines gives
   the same answer as the structured body *)
Theorem vcd_file_read : forall header ds evs T d,
  Forall (fun l => l <> ENDDEFS) header -> evs_ok ds evs ->
  read_file (write_file header ds evs) T d = read_sig (write_body ds evs) T d.
Proof. exact vcd_file_read_proof. Qed.
Print Assumptions vcd_file_read.

(* the identifier generator never hands out the same code twice (for ALL indices) *)
Theorem vcd_ids_distinct : forall a b, ident a = ident b -> a = b.
Proof. exact ident_inj. Qed.
Print Assumptions vcd_ids_distinct.

(* hence the table built by VCDSink::initialize satisfies the NoDup hypothesis above, and the codes
   handed out afterwards (clocks, resets, string variables) are not signal codes *)
Theorem vcd_declare_ids_distinct : forall decls, NoDup (map sg_id (declare decls)).
Proof. exact declare_NoDup. Qed.
Print Assumptions vcd_declare_ids_distinct.

Theorem vcd_later_codes_fresh : forall k n, (k <= n)%nat -> ~ In (ident n) (idents k).
Proof. exact ident_not_in_idents. Qed.
Print Assumptions vcd_later_codes_fresh.

(* In one commit a line is written for a signal exactly when its RAW value (both planes) differs from the
   last written one, the line carries the new value, and the tracked value becomes the new value. *)
Theorem write_only_on_change : forall st news st2 ls i d old nw,
  NoDup (st_ids st) ->
  Forall2 (fun p v => length v = sg_width (fst p)) st news ->
  commit st news = (st2, ls) ->
  nth_error st i = Some (d, old) -> nth_error news i = Some nw -> length old = sg_width d ->
  filter (line_has_id (sg_id d)) ls = (if rvec_eq_dec nw old then [] else [sig_line d nw])
  /\ nth_error st2 i = Some (d, nw).
Proof. exact write_only_on_change_proof. Qed.
Print Assumptions write_only_on_change.

(* "only when the visible value changes" is false: the VALUE plane of an undefined bit counts *)
Theorem write_only_on_visible_change_refuted :
  ~ (forall st news st2 ls i d old nw,
       NoDup (st_ids st) ->
       Forall2 (fun p v => length v = sg_width (fst p)) st news ->
       commit st news = (st2, ls) ->
       nth_error st i = Some (d, old) -> nth_error news i = Some nw -> length old = sg_width d ->
       viewv nw = viewv old ->
       filter (line_has_id (sg_id d)) ls = []).
Proof. exact write_only_on_visible_change_refuted_proof. Qed.
Print Assumptions write_only_on_visible_change_refuted.

(* tick = floor(time / 1ps) is monotone: non-decreasing simulation times give the ticks_mono hypothesis *)
Theorem vcd_tick_mono : forall t1 t2, (t1 <= t2)%Q -> (tick t1 <= tick t2)%N.
Proof. exact tick_mono. Qed.
Print Assumptions vcd_tick_mono.

(* every printed line parses back to itself *)
Theorem vcd_parse_print : forall l, raw_ok l -> parse_line (print_line l) = l.
Proof. exact parse_print. Qed.
Print Assumptions vcd_parse_print.

(* --- the hypotheses are satisfiable: two signals (a 3 bit vector, a scalar), a clock line, three commits,
       the last two in the same picosecond --- *)
Definition ex_ds : list sigd := declare [(3%nat, true, "v"%string); (1%nat, false, "s"%string)].
Definition ex_evs : list vev :=
  [EvBit (ident 2) true; EvRaw "$end"%string;
   EvCommit [[(true,true);(false,false);(true,false)]; [(false,false)]];
   EvTick (1 # 200000000); EvBit (ident 2) false;
   EvCommit [[(true,false);(false,true);(true,false)]; [(true,true)]];
   EvTick (50001 # 10000000000000);
   EvCommit [[(true,false);(false,true);(true,true)]; [(true,true)]]].
Example ex_hyps : NoDup (map sg_id ex_ds) /\ evs_ok ex_ds ex_evs /\ ticks_mono 0 ex_evs.
Proof.
  split; [apply declare_NoDup|]. split.
  - repeat constructor; try (vm_compute; intros [H|[H|[]]]; discriminate H). eexists; reflexivity.
  - vm_compute. repeat split; discriminate.
Qed.
Example ex_file :
  map print_line (write_body ex_ds ex_evs)
  = ["1#"; "$end"; "b0X1 !"; "#5000"; "0#"; "b0X0 !"; "1"""; "#5000"; "b1X0 !"]%string
  /\ read_sig (write_body ex_ds ex_evs) 4999 (nth 0 ex_ds (nth 1 ex_ds (nth 0 ex_ds (Build_sigd "" 0 false "")))) = [B1; BX; B0]
  /\ read_sig (write_body ex_ds ex_evs) 5000 (nth 0 ex_ds (nth 1 ex_ds (nth 0 ex_ds (Build_sigd "" 0 false "")))) = [B0; BX; B1].
Proof. vm_compute. repeat split. Qed.

(* ------------------------------------------------------------------------------------------ *)
(* test vectors                                                                                *)
(* ------------------------------------------------------------------------------------------ *)

(* One flush over the interval (fstart, fend] with the file not ahead of fstart: every record is replayed
   at a picosecond t with fstart - 1ps < t <= fend (t < fend if the interval is not empty), the file is not
   ahead of fend afterwards, and if the phases are at least 1 ps apart, t is strictly after fstart:
   the record keeps its position between the two ticks (clock events) it was recorded between. *)
Theorem tv_flush_window : forall fstart fend ps w w' o,
  (fstart <= fend)%Q ->
  (inject_Z (Z.of_N w) <= fstart * PS_PER_S)%Q ->
  let I := flush_interval fstart fend (length ps) in
  flush_phases fstart I 0 ps w = (w', o) ->
  (inject_Z (Z.of_N w') <= fend * PS_PER_S)%Q /\
  Forall (fun p => let t := inject_Z (Z.of_N (fst p)) in
                   (fstart * PS_PER_S - 1 < t)%Q /\ (t <= fend * PS_PER_S)%Q /\
                   ((fstart < fend)%Q -> (t < fend * PS_PER_S)%Q) /\
                   ((1 <= I * PS_PER_S)%Q -> (fstart * PS_PER_S < t)%Q))
         (tv_schedule w o).
Proof. exact tv_flush_window_proof. Qed.
Print Assumptions tv_flush_window.

(* with at least 1 ps per phase every ADV is positive: each phase is replayed at its own, later instant *)
Theorem tv_flush_adv_positive : forall fstart fend ps w w' o,
  (fstart <= fend)%Q -> (inject_Z (Z.of_N w) <= fstart * PS_PER_S)%Q ->
  let I := flush_interval fstart fend (length ps) in
  (1 <= I * PS_PER_S)%Q ->
  flush_phases fstart I 0 ps w = (w', o) -> Forall adv_ge1 o.
Proof. exact tv_flush_adv_positive_proof. Qed.
Print Assumptions tv_flush_adv_positive.

(* below 1 ps per phase the strict lower bound is lost (picosecond resolution of the file) *)
Theorem tv_subps_window_refuted :
  ~ (forall fstart fend ps w w' o,
       fstart <= fend -> inject_Z (Z.of_N w) <= fstart * PS_PER_S ->
       flush_phases fstart (flush_interval fstart fend (length ps)) 0 ps w = (w', o) ->
       Forall (fun p => fstart * PS_PER_S < inject_Z (Z.of_N (fst p))) (tv_schedule w o))%Q.
Proof. exact tv_subps_window_refuted_proof. Qed.
Print Assumptions tv_subps_window_refuted.

(* along any run whose flush times do not decrease, the time written into the file never exceeds the
   start of the current interval; hence the unsigned subtraction in advanceTimeTo never wraps and every
   flush meets the hypothesis of tv_flush_window *)
Theorem tv_written_never_ahead : forall cbs,
  flushes_mono 0 cbs -> written_ok (tv_run_from tv_init cbs).
Proof. exact tv_written_never_ahead_proof. Qed.
Print Assumptions tv_written_never_ahead.

(* the file is a sequence of groups `ADV n` followed by one or more CHECK/SET/RST records *)
Theorem tv_wellformed : forall cbs, wf_stream (tv_stream cbs).
Proof. exact tv_wellformed_proof. Qed.
Print Assumptions tv_wellformed.

(* every read with a defined bit is in the file exactly once, in call order (none lost, none reordered) *)
Theorem tv_checks_preserved : forall cbs t,
  checks_of (tv_stream (cbs ++ [CbDestroy t])) = reads_of cbs.
Proof. exact tv_checks_preserved_proof. Qed.
Print Assumptions tv_checks_preserved.

(* tv_replay, the part that is proved: a CHECK recorded after a phase boundary (onAfterMicroTick,
   onNewPhase(AFTER), onPowerOn, destructor) is presented after every SET recorded before that boundary
   (outside the DURING phase; DURING assignments are deferred past the tick on purpose) ... *)
Theorem tv_check_after_set : forall c1 n v c2 m b w tw c3 t,
  check_text b w = Some tw ->
  tv_cur (tv_run_from tv_init c1) <> PhDuring ->
  existsb is_delim c2 = true ->
  exists v' pre mid post,
    nonadv (tv_stream (c1 ++ CbSet n v :: c2 ++ CbRead m b w :: c3 ++ [CbDestroy t]))
    = pre ++ TSet n v' :: mid ++ TCheck m tw :: post.
Proof. exact tv_check_after_set_proof. Qed.
Print Assumptions tv_check_after_set.

(* ... while without a boundary in between the CHECK comes first (this matches the simulator inside a micro
   tick: a process reads the state from before the assignments of the same micro tick) ... *)
Theorem tv_same_phase_check_first : forall c1 n v c2 m b w tw c3 t,
  check_text b w = Some tw ->
  tv_cur (tv_run_from tv_init c1) <> PhDuring ->
  existsb is_delim c2 = false ->
  exists v' pre mid post,
    nonadv (tv_stream (c1 ++ CbSet n v :: c2 ++ CbRead m b w :: c3 ++ [CbDestroy t]))
    = pre ++ TCheck m tw :: mid ++ TSet n v' :: post.
Proof. exact tv_same_phase_check_first_proof. Qed.
Print Assumptions tv_same_phase_check_first.

(* ... and that is wrong for the one place where the simulator re-evaluates WITHOUT a boundary callback:
   power-on followed by WaitStable (known finding poweron-waitstable-check-before-set).  "Every CHECK
   follows the SETs that preceded it" is therefore false for the recorder as it is. *)
Theorem tv_poweron_commit_check_before_set_refuted :
  ~ (forall c1 n v c2 m b w tw c3 t,
       check_text b w = Some tw ->
       tv_cur (tv_run_from tv_init c1) <> PhDuring ->
       exists v' pre mid post,
         nonadv (tv_stream (c1 ++ CbSet n v :: c2 ++ CbRead m b w :: c3 ++ [CbDestroy t]))
         = pre ++ TSet n v' :: mid ++ TCheck m tw :: post).
Proof. exact tv_poweron_commit_check_before_set_refuted_proof. Qed.
Print Assumptions tv_poweron_commit_check_before_set_refuted.

(* Reset records carry the LEVEL of the reset signal, untranslated: every `RST name v` of the file has v = the level some
   onReset callback reported for that reset (whether that level means "in reset" is rst_asserted activeHigh level =
   (level == activeHigh), a property of the clock, not of the file) ... *)
Theorem tv_rst_record_is_level : forall cbs n v,
  In (TRst n v) (tv_stream cbs) -> exists l, In (CbReset n l) cbs /\ v = bool_text l.
Proof. exact tv_rst_record_is_level_proof. Qed.
Print Assumptions tv_rst_record_is_level.

(* ... so the level the reset port has after the interpreter replayed the file is a level the simulator reported ... *)
Theorem tv_rst_replay_level : forall cbs n v,
  tv_rst_level n (tv_stream cbs) None = Some v -> exists l, In (CbReset n l) cbs /\ v = bool_text l.
Proof. exact tv_rst_replay_level_proof. Qed.
Print Assumptions tv_rst_replay_level.

(* ... and a CHECK recorded after a phase boundary follows the reset changes recorded before that boundary. *)
Theorem tv_check_after_rst : forall c1 n a c2 m b w tw c3 t,
  check_text b w = Some tw ->
  tv_cur (tv_run_from tv_init c1) <> PhDuring ->
  existsb is_delim c2 = true ->
  exists v' pre mid post,
    nonadv (tv_stream (c1 ++ CbReset n a :: c2 ++ CbRead m b w :: c3 ++ [CbDestroy t]))
    = pre ++ TRst n v' :: mid ++ TCheck m tw :: post.
Proof. exact tv_check_after_rst_proof. Qed.
Print Assumptions tv_check_after_rst.

(* active-low reset: asserted at power-on = level 0, released = level 1; the file shows the levels *)
Example ex_active_low :
  let cbs := [CbPowerOn; CbReset "rst_n" false; CbCommit;
              CbNewPhase PhBefore (1 # 100000000); CbNewPhase PhDuring (1 # 100000000); CbReset "rst_n" true; CbAfterMicroTick;
              CbNewPhase PhAfter (1 # 100000000); CbCommit;
              CbNewPhase PhBefore (3 # 200000000); CbNewPhase PhDuring (3 # 200000000); CbAfterMicroTick;
              CbNewPhase PhAfter (3 # 200000000); CbDestroy (1 # 50000000)]%string in
  tv_file cbs = ["ADV"; "2500"; "RST"; "rst_n"; "0"; "ADV"; "8500"; "RST"; "rst_n"; "1"]%string
  /\ rst_asserted false false = true /\ rst_asserted false true = false
  /\ tv_rst_level "rst_n" (tv_stream cbs) None = Some "1"%string.
Proof. vm_compute. repeat split. Qed.

(* --- hypotheses satisfiable: SET at power-on, one tick with a micro tick, a read at the commit of that tick --- *)
Definition ex_cbs : list cb :=
  [CbPowerOn; CbReset "reset" true; CbSet "in_a" [B1; B1; B0; B0]; CbCommit;
   CbNewPhase PhBefore (1 # 200000000); CbNewPhase PhDuring (1 # 200000000); CbAfterMicroTick;
   CbNewPhase PhAfter (1 # 200000000);
   CbRead "out_y" false [(true,true);(true,true);(true,false);(true,false);(false,false);(true,true);(true,true);(true,true)];
   CbCommit; CbDestroy (1 # 100000000)]%string.
Example ex_tv_file :
  tv_file ex_cbs = ["ADV"; "1250"; "SET"; "in_a"; "0011"; "RST"; "reset"; "1"; "ADV"; "6250"; "CHECK"; "out_y"; "111-0011"]%string
  /\ flushes_mono 0 ex_cbs.
Proof. vm_compute. repeat split; discriminate. Qed.
Example ex_flush_hyps :
  let ps := [ph_add_set "in_a" "0011" ph_empty; ph_empty; ph_add_chk "out_y" "1" ph_empty]%string in
  (0 <= 1 # 200000000)%Q /\ (1 <= flush_interval 0 (1 # 200000000) (length ps) * PS_PER_S)%Q /\
  snd (flush_phases 0 (flush_interval 0 (1 # 200000000) (length ps)) 0 ps 0)
  = [TAdv 1000; TSet "in_a" "0011"; TAdv 2000; TCheck "out_y" "1"]%string.
Proof. vm_compute. repeat split; discriminate. Qed.
