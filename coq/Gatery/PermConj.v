(* C10 (A) — order irrelevance for the model of hlim::Conjunction.

   In the C++ the terms live in an UnstableMap<NodePort, Term>; every loop over
   `m_terms.anyOrder()` visits them in ADDRESS order of the key nodes, i.e. in some
   permutation of the model's insertion-ordered term list that changes from run to run.
   The theorems below state that no modelled operation can tell two such orders apart:
   the boolean predicates return the same value, the set-valued operations return
   permuted term lists (again the same map), and `build` - which sorts by the stable
   key before emitting nodes - returns the very same graph.

   The only side condition is that the keys (drivers) of a term list are unique, which
   is what being a std::map means. *)
From Coq Require Import List Bool Arith Lia Permutation Sorted.
From Gatery Require Import Bits ConjDefs ConjPreds ConjBuild.
Import ListNotations.

(* two conjunctions that are the same map, stored/iterated in a different order *)
Definition conj_perm (a a' : conj) : Prop :=
  Permutation (c_terms a) (c_terms a') /\ c_undef a = c_undef a' /\ c_contra a = c_contra a'.

Lemma conj_perm_refl a : conj_perm a a.
Proof. repeat split; auto. Qed.
Lemma conj_perm_sym a b : conj_perm a b -> conj_perm b a.
Proof. intros [H [H1 H2]]. repeat split; auto. apply Permutation_sym; auto. Qed.
Lemma conj_perm_trans a b c : conj_perm a b -> conj_perm b c -> conj_perm a c.
Proof. intros [H [H1 H2]] [H' [H1' H2']]. repeat split; try congruence. eapply Permutation_trans; eauto. Qed.

Lemma keys_perm l l' : Permutation l l' -> Permutation (keys l) (keys l').
Proof. apply Permutation_map. Qed.

Lemma keys_NoDup_perm l l' : Permutation l l' -> NoDup (keys l) -> NoDup (keys l').
Proof. intros H Hn. eapply Permutation_NoDup; [apply keys_perm; exact H|exact Hn]. Qed.

(* --- lookups do not depend on the order --- *)
Lemma term_find_perm l l' k :
  Permutation l l' -> NoDup (keys l) -> term_find l k = term_find l' k.
Proof.
  intros H. induction H as [|x l l' H IH|x y l|l l' l'' H1 IH1 H2 IH2]; intro Hn.
  - reflexivity.
  - simpl. destruct (t_driver x =? k); auto. apply IH. simpl in Hn. inversion Hn; auto.
  - simpl. destruct (t_driver y =? k) eqn:Ey, (t_driver x =? k) eqn:Ex; auto.
    apply Nat.eqb_eq in Ey, Ex. simpl in Hn. inversion Hn as [|? ? Hni _]; subst.
    exfalso. apply Hni. left. congruence.
  - rewrite IH1; auto. apply IH2. eapply keys_NoDup_perm; eauto.
Qed.

Lemma same_in_perm l l' t : Permutation l l' -> NoDup (keys l) -> same_in l t = same_in l' t.
Proof. intros H Hn. unfold same_in. rewrite (term_find_perm l l' _ H Hn). reflexivity. Qed.

Lemma opposite_in_perm l l' t : Permutation l l' -> NoDup (keys l) -> opposite_in l t = opposite_in l' t.
Proof. intros H Hn. unfold opposite_in. rewrite (term_find_perm l l' _ H Hn). reflexivity. Qed.

(* --- folds over a permuted list --- *)
Lemma existsb_perm {A} (f : A -> bool) l l' : Permutation l l' -> existsb f l = existsb f l'.
Proof.
  induction 1; simpl; auto.
  - congruence.
  - destruct (f x), (f y); reflexivity.
  - congruence.
Qed.

Lemma forallb_ext_perm {A} (f g : A -> bool) l l' :
  (forall x, f x = g x) -> Permutation l l' -> forallb f l = forallb g l'.
Proof.
  intros He H. rewrite (forallb_perm f _ _ H). clear H. induction l' as [|x r IH]; simpl; auto. rewrite He, IH. reflexivity.
Qed.

Lemma existsb_ext_perm {A} (f g : A -> bool) l l' :
  (forall x, f x = g x) -> Permutation l l' -> existsb f l = existsb g l'.
Proof.
  intros He H. rewrite (existsb_perm f _ _ H). clear H. induction l' as [|x r IH]; simpl; auto. rewrite He, IH. reflexivity.
Qed.

Lemma filter_perm {A} (f : A -> bool) l l' : Permutation l l' -> Permutation (filter f l) (filter f l').
Proof.
  induction 1 as [|x l l' H IH|x y l|l l' l'' H1 IH1 H2 IH2]; simpl.
  - constructor.
  - destruct (f x); auto.
  - destruct (f x), (f y); auto. apply perm_swap.
  - eapply Permutation_trans; eauto.
Qed.

Lemma filter_ext_perm {A} (f g : A -> bool) l l' :
  (forall x, f x = g x) -> Permutation l l' -> Permutation (filter f l) (filter g l').
Proof.
  intros He H. rewrite <- (filter_ext f g He l'). apply filter_perm; auto.
Qed.

Lemma length_perm {A} (l l' : list A) : Permutation l l' -> length l = length l'.
Proof. apply Permutation_length. Qed.

(* --- the predicates --- *)
Section Preds.
  Variables a a' b b' : conj.
  Hypothesis Ha : conj_perm a a'.
  Hypothesis Hb : conj_perm b b'.
  Hypothesis Hka : NoDup (keys (c_terms a)).
  Hypothesis Hkb : NoDup (keys (c_terms b)).

  Theorem isEqualTo_perm : isEqualTo a b = isEqualTo a' b'.
  Proof.
    destruct Ha as [Pa [Ua Ca]], Hb as [Pb [Ub Cb]]. unfold isEqualTo.
    rewrite <- Ua, <- Ub, <- Ca, <- Cb, <- (length_perm _ _ Pa), <- (length_perm _ _ Pb).
    rewrite (forallb_ext_perm (same_in (c_terms b)) (same_in (c_terms b')) _ _ (fun t => same_in_perm _ _ t Pb Hkb) Pa).
    reflexivity.
  Qed.

  Theorem isNegationOf_perm : isNegationOf a b = isNegationOf a' b'.
  Proof.
    destruct Ha as [Pa [Ua Ca]], Hb as [Pb [Ub Cb]]. unfold isNegationOf.
    rewrite <- Ua, <- Ub, <- Ca, <- Cb, <- (length_perm _ _ Pa), <- (length_perm _ _ Pb).
    rewrite (forallb_ext_perm (opposite_in (c_terms b)) (opposite_in (c_terms b')) _ _ (fun t => opposite_in_perm _ _ t Pb Hkb) Pa).
    reflexivity.
  Qed.

  Theorem isSubsetOf_perm : isSubsetOf a b = isSubsetOf a' b'.
  Proof.
    destruct Ha as [Pa [Ua Ca]], Hb as [Pb [Ub Cb]]. unfold isSubsetOf.
    rewrite <- Ua, <- Ub, <- Ca, <- Cb.
    rewrite (forallb_ext_perm (same_in (c_terms b)) (same_in (c_terms b')) _ _ (fun t => same_in_perm _ _ t Pb Hkb) Pa).
    reflexivity.
  Qed.

  Theorem cannotBothBeTrue_perm : cannotBothBeTrue a b = cannotBothBeTrue a' b'.
  Proof.
    destruct Ha as [Pa [Ua Ca]], Hb as [Pb [Ub Cb]]. unfold cannotBothBeTrue.
    rewrite <- Ua, <- Ub, <- Ca, <- Cb.
    rewrite (existsb_ext_perm (opposite_in (c_terms b)) (opposite_in (c_terms b')) _ _ (fun t => opposite_in_perm _ _ t Pb Hkb) Pa).
    reflexivity.
  Qed.

  Theorem intersect_perm : conj_perm (intersectTermsWith a b) (intersectTermsWith a' b').
  Proof.
    destruct Ha as [Pa [Ua Ca]], Hb as [Pb [Ub Cb]]. unfold intersectTermsWith, conj_perm; simpl.
    repeat split; auto.
    apply filter_ext_perm; auto. intro t. apply same_in_perm; auto.
  Qed.

  Theorem removeTerms_pre_perm : removeTerms_pre a b = removeTerms_pre a' b'.
  Proof.
    destruct Ha as [Pa [Ua Ca]], Hb as [Pb [Ub Cb]]. unfold removeTerms_pre.
    apply forallb_ext_perm; auto. intro t. apply same_in_perm; auto.
  Qed.

  Theorem removeTerms_perm : conj_perm (removeTerms a b) (removeTerms a' b').
  Proof.
    destruct Ha as [Pa [Ua Ca]], Hb as [Pb [Ub Cb]]. unfold removeTerms, conj_perm; simpl.
    repeat split; auto.
    apply filter_ext_perm; auto. intro t. rewrite (term_find_perm _ _ (t_driver t) Pb Hkb). reflexivity.
  Qed.

  (* the results are again maps: unique keys are preserved, so the operations can be chained *)
  Lemma filter_keys_NoDup (f : term -> bool) l : NoDup (keys l) -> NoDup (keys (filter f l)).
  Proof.
    induction l as [|x r IH]; simpl; intro H; auto. inversion H as [|? ? Hni Hr]; subst.
    destruct (f x); simpl; auto. constructor; auto.
    intro Hin. apply Hni. unfold keys in *. apply in_map_iff in Hin as [t [Et Hin]].
    apply filter_In in Hin as [Hin _]. apply in_map_iff. exists t. auto.
  Qed.

  Theorem intersect_keys_NoDup : NoDup (keys (c_terms (intersectTermsWith a b))).
  Proof. apply filter_keys_NoDup; auto. Qed.
  Theorem removeTerms_keys_NoDup : NoDup (keys (c_terms (removeTerms a b))).
  Proof. apply filter_keys_NoDup; auto. Qed.
End Preds.

(* --- build: the term list enters only through sort_terms, and sorting forgets the order --- *)
Definition key_le (x y : term) : Prop := t_driver x <= t_driver y.
Definition key_lt (x y : term) : Prop := t_driver x < t_driver y.

Lemma insert_sorted_In t l x : In x (insert_sorted t l) <-> x = t \/ In x l.
Proof.
  split; intro H.
  - apply (Permutation_in _ (insert_sorted_perm t l)) in H. destruct H; auto.
  - apply (Permutation_in _ (Permutation_sym (insert_sorted_perm t l))). destruct H; [left|right]; auto.
Qed.

Lemma insert_sorted_sorted t l : StronglySorted key_le l -> StronglySorted key_le (insert_sorted t l).
Proof.
  induction l as [|x r IH]; simpl; intro Hs.
  - constructor; constructor.
  - inversion Hs as [|? ? Hr Hx]; subst.
    destruct (t_driver t <=? t_driver x) eqn:E.
    + apply Nat.leb_le in E. constructor; auto. constructor; auto.
      rewrite Forall_forall in *. intros y Hy. unfold key_le in *. specialize (Hx y Hy). lia.
    + apply Nat.leb_gt in E. constructor; auto.
      rewrite Forall_forall in *. intros y Hy. apply insert_sorted_In in Hy as [->|Hy].
      * unfold key_le. lia.
      * auto.
Qed.

Lemma sort_terms_sorted l : StronglySorted key_le (sort_terms l).
Proof.
  induction l as [|x r IH]; simpl.
  - constructor.
  - change (sort_terms (x :: r)) with (insert_sorted x (sort_terms r)). apply insert_sorted_sorted; auto.
Qed.

Lemma sorted_strict l : StronglySorted key_le l -> NoDup (keys l) -> StronglySorted key_lt l.
Proof.
  induction l as [|x r IH]; intros Hs Hn; constructor.
  - inversion Hs; inversion Hn; subst; auto.
  - inversion Hs as [|? ? _ Hx]; inversion Hn as [|? ? Hni _]; subst.
    rewrite Forall_forall in *. intros y Hy. specialize (Hx y Hy). unfold key_le, key_lt in *.
    assert (t_driver x <> t_driver y); [|lia].
    intro E. apply Hni. rewrite E. unfold keys. apply in_map; auto.
Qed.

(* two strictly sorted lists with the same elements are equal *)
Lemma strict_sorted_unique l l' :
  StronglySorted key_lt l -> StronglySorted key_lt l' -> (forall x, In x l <-> In x l') -> l = l'.
Proof.
  revert l'. induction l as [|x r IH]; intros [|y r'] Hs Hs' Hi; auto.
  - exfalso. apply (Hi y). left; reflexivity.
  - exfalso. apply (Hi x). left; reflexivity.
  - inversion Hs as [|? ? Hr Hx]; inversion Hs' as [|? ? Hr' Hy]; subst.
    rewrite Forall_forall in Hx, Hy.
    assert (x = y).
    { destruct (proj1 (Hi x) (or_introl eq_refl)) as [E|Hin]; auto.
      destruct (proj2 (Hi y) (or_introl eq_refl)) as [E|Hin']; auto.
      specialize (Hx _ Hin'). specialize (Hy _ Hin). unfold key_lt in *. lia. }
    subst y. f_equal. apply IH; auto. intro z. split; intro Hz.
    + destruct (proj1 (Hi z) (or_intror Hz)) as [E|H]; auto. subst z. specialize (Hx _ Hz). unfold key_lt in Hx. lia.
    + destruct (proj2 (Hi z) (or_intror Hz)) as [E|H]; auto. subst z. specialize (Hy _ Hz). unfold key_lt in Hy. lia.
Qed.

Theorem sort_terms_perm_invariant l l' :
  Permutation l l' -> NoDup (keys l) -> sort_terms l = sort_terms l'.
Proof.
  intros H Hn.
  assert (Hn' : NoDup (keys l')) by (eapply keys_NoDup_perm; eauto).
  apply strict_sorted_unique.
  - apply sorted_strict; [apply sort_terms_sorted|]. eapply keys_NoDup_perm; [apply Permutation_sym, sort_terms_perm|auto].
  - apply sorted_strict; [apply sort_terms_sorted|]. eapply keys_NoDup_perm; [apply Permutation_sym, sort_terms_perm|auto].
  - intro x.
    assert (P : Permutation (sort_terms l) (sort_terms l')).
    { eapply Permutation_trans; [apply sort_terms_perm|]. eapply Permutation_trans; [exact H|]. apply Permutation_sym, sort_terms_perm. }
    split; intro Hx; [eapply Permutation_in; eauto|eapply Permutation_in; [apply Permutation_sym|]; eauto].
Qed.

(* the sorted order is the stable one: ascending keys, whatever order the map was iterated in *)
Theorem sort_terms_ascending l : NoDup (keys l) -> StronglySorted key_lt (sort_terms l).
Proof.
  intro Hn. apply sorted_strict; [apply sort_terms_sorted|].
  eapply keys_NoDup_perm; [apply Permutation_sym, sort_terms_perm|auto].
Qed.

Theorem build_perm g c c' :
  conj_perm c c' -> NoDup (keys (c_terms c)) -> build g c = build g c'.
Proof.
  intros [P _] Hn. unfold build. rewrite (sort_terms_perm_invariant _ _ P Hn). reflexivity.
Qed.

(* non-vacuity: a three-term map in two iteration orders *)
Definition ex_t1 := {| t_driver := 4; t_neg := false; t_cdrv := Some 4 |}.
Definition ex_t2 := {| t_driver := 1; t_neg := true;  t_cdrv := Some 2 |}.
Definition ex_t3 := {| t_driver := 7; t_neg := false; t_cdrv := Some 7 |}.
Definition ex_c  := {| c_terms := [ex_t1; ex_t2; ex_t3]; c_undef := false; c_contra := false |}.
Definition ex_c' := {| c_terms := [ex_t3; ex_t1; ex_t2]; c_undef := false; c_contra := false |}.

Lemma ex_conj_perm : conj_perm ex_c ex_c' /\ NoDup (keys (c_terms ex_c)) /\ c_terms ex_c <> c_terms ex_c'.
Proof.
  split; [|split].
  - repeat split. simpl. apply Permutation_sym. apply (Permutation_cons_app [ex_t1; ex_t2] [] ex_t3). simpl. apply Permutation_refl.
  - simpl. repeat constructor; simpl; intuition discriminate.
  - discriminate.
Qed.
