(* C06 — stream-level semantics of registers, pipelines and retiming steps.  Definitions only.

   A signal is a stream  nat -> V  (value shown in cycle t; cycle 0 is the cycle in which the
   registers show their reset value, i.e. "directly after reset").  V is arbitrary: a bit
   vector [bv], or a tuple/list of bit vectors for a whole bank of registers (a bank of
   registers with one common enable is one register on the tuple, see [regs_bank]).

   [reg_step] is Node_Register::simulateAdvance outside reset (coreNodes/Node_Register.cpp:93-100):
   enable 1 -> take the data input, enable 0 -> hold, enable undefined -> output undefined ([xv] is
   the all-undefined value of the register's width).  [reg_step_matches_node_model] in
   RetimeProofs.v ties it to NodeSemReg.reg_advance, the register model used by NetDefs. *)
From Coq Require Import List Arith Bool.
From Gatery Require Import Bits.
Import ListNotations.

Definition stream (A : Type) := nat -> A.

Definition reg_step {V : Type} (xv : V) (e : tbit) (d cur : V) : V :=
  match e with B1 => d | B0 => cur | BX => xv end.

(* register with reset value r (no reset value: r = xv), enable stream e, data stream d *)
Fixpoint regs {V : Type} (xv r : V) (e : stream tbit) (d : stream V) (t : nat) : V :=
  match t with
  | O => r
  | S t' => reg_step xv (e t') (d t') (regs xv r e d t')
  end.

(* the enable has been defined in all cycles before t *)
Definition defined_upto (e : stream tbit) (t : nat) : Prop := forall t', t' < t -> e t' <> BX.

(* N = length rs registers in series, all with enable e; the head of rs is the reset value of the
   LAST register (the one whose output is observed) *)
Fixpoint delay {V : Type} (xv : V) (rs : list V) (e : stream tbit) (d : stream V) : stream V :=
  match rs with
  | [] => d
  | r :: rs' => regs xv r e (delay xv rs' e d)
  end.

(* number of cycles before t in which the enable was 1 *)
Fixpoint enabled_before (e : stream tbit) (t : nat) : nat :=
  match t with
  | O => 0
  | S t' => enabled_before e t' + (if tbit_eqb (e t') B1 then 1 else 0)
  end.

(* ---- negative register ----
   A negative register "yields the value of the signal on the next cycle" (doc/retiming.md).  It
   is not causal, so it is specified relationally: n is a negative-register output of s under
   enable e when, in every cycle in which the pipeline advances, n shows what s will show in the
   next cycle.  (In stalled cycles the value is irrelevant: the partner register does not load.) *)
Definition is_negreg {V : Type} (e : stream tbit) (s n : stream V) : Prop :=
  forall t, e t = B1 -> n t = s (S t).

(* s behaves like the output of a register with enable e: holds when stalled, undefined after an
   undefined enable *)
Definition reg_like {V : Type} (xv : V) (e : stream tbit) (s : stream V) : Prop :=
  forall t, (e t = B0 -> s (S t) = s t) /\ (e t = BX -> s (S t) = xv).

(* ---- backward retiming with the reset-value fix (RegisterRetiming.cpp:1643-1707) ----
   delayed reset signal: 0 in the reset cycle, becomes (and stays) 1 after the first enabled edge *)
Definition delayed_reset (e : stream tbit) : stream tbit :=
  regs BX B0 e (fun _ => B1).

(* the override multiplexer: original reset value while the delayed reset signal is 0 *)
Definition reset_fix {V : Type} (xv : V) (sel : tbit) (rst v : V) : V :=
  match sel with B0 => rst | B1 => v | BX => xv end.

(* ---- warm-up mask used for the "from the cycle the pipeline has filled" claim ----
   saturating counter of enabled cycles, exactly as harness/C06_retime.cpp builds it in BOTH
   designs:  cnt = reg(filled ? cnt : cnt+1, 0) under enable e;  filled = (cnt == K) *)
Fixpoint warm_cnt (K : nat) (e : stream bool) (t : nat) : nat :=
  match t with
  | O => 0
  | S t' => if e t' then (if warm_cnt K e t' =? K then warm_cnt K e t' else S (warm_cnt K e t'))
            else warm_cnt K e t'
  end.
Definition warm_filled (K : nat) (e : stream bool) (t : nat) : bool := warm_cnt K e t =? K.
Definition warm_mask {V : Type} (zero : V) (K : nat) (e : stream bool) (o : stream V) : stream V :=
  fun t => if warm_filled K e t then o t else zero.

Fixpoint true_before (e : stream bool) (t : nat) : nat :=
  match t with O => 0 | S t' => true_before e t' + (if e t' then 1 else 0) end.
