(* C16 -- per-digit meta signals (ByteEnable).
   On a stream that carries scl::ByteEnable a model digit is the pair (payload byte, its enable bit),
   encoded as [sym byte en = byte + 256 * en]; the error bit is folded into the meta word the same way.
   The machines never look inside a digit, so every per-digit view (the bytes alone, the enables
   alone) is sliced / concatenated by the width converters exactly like the digits themselves.
   These lemmas spell that out: mapping a function over the digits commutes with unpack (slicing),
   pack (concatenation) and hence with the delivered transfer sequences.  That the REAL converters
   treat payload and byte enables in lockstep is what the correspondence run establishes (it does
   not on /repo's Packet.h before the ByteEnable repair). *)
From Coq Require Import List NArith Bool Arith Lia.
From Gatery Require Import StreamDefs StreamSpec StreamCompose StreamStages StreamPacket.
Import ListNotations.

Definition sym (byte en : N) : N := (byte + 256 * en)%N.
Definition sym_byte (s : N) : N := (s mod 256)%N.
Definition sym_en (s : N) : N := (s / 256)%N.

Lemma sym_byte_sym : forall b e, (b < 256)%N -> sym_byte (sym b e) = b.
Proof.
  intros b e H. unfold sym_byte, sym. rewrite N.mul_comm, N.mod_add by discriminate. now apply N.mod_small.
Qed.
Lemma sym_en_sym : forall b e, (b < 256)%N -> sym_en (sym b e) = e.
Proof.
  intros b e H. unfold sym_en, sym. rewrite N.mul_comm, N.div_add by discriminate.
  rewrite N.div_small by assumption. reflexivity.
Qed.

(* apply f to every digit of a transferred record; eop and meta untouched *)
Definition xmap (f : N -> N) (x : xfer) : xfer := (map f (xdata x), xeop x, xmeta x).

Lemma chunk_map : forall (f : N -> N) q i l, map f (chunk q i l) = chunk q i (map f l).
Proof. intros; unfold chunk. now rewrite skipn_map, firstn_map. Qed.

Lemma unpack1_map : forall f r x, unpack1 r (xmap f x) = map (xmap f) (unpack1 r x).
Proof.
  intros f r x. unfold unpack1. rewrite map_map. apply map_ext. intro i.
  unfold xmap, xdata, xeop, xmeta; simpl. rewrite map_length, chunk_map. reflexivity.
Qed.

Lemma unpack_map : forall f r l, unpack r (map (xmap f) l) = map (xmap f) (unpack r l).
Proof.
  intros f r l; induction l as [|x l IH]; [reflexivity|].
  simpl. rewrite map_app, unpack1_map, IH. reflexivity.
Qed.

Lemma last_xmap : forall f g d, last (map (xmap f) g) (xmap f d) = xmap f (last g d).
Proof. intros f g d. induction g as [|a [|b g] IH]; try reflexivity. simpl in *. exact IH. Qed.

Lemma mkpacked_map : forall f g, mkpacked (map (xmap f) g) = xmap f (mkpacked g).
Proof.
  intros f g. unfold mkpacked.
  change (@nil N, false, 0%N) with (xmap f ([], false, 0%N)). rewrite last_xmap.
  unfold xmap at 2 3 4. unfold xdata at 3, xeop at 2 4, xmeta at 2 4. simpl.
  assert (E : concat (map xdata (map (xmap f) g)) = map f (concat (map xdata g))).
  { rewrite concat_map, !map_map. reflexivity. }
  rewrite E. reflexivity.
Qed.

Lemma pk_map : forall f r l,
  pk r (map (xmap f) l) = (map (xmap f) (fst (pk r l)), map (xmap f) (snd (pk r l))).
Proof.
  intros f r l. induction l as [|x l IH] using rev_ind; [reflexivity|].
  rewrite map_app. simpl map. rewrite !pk_snoc, IH. unfold pk_step. cbn [fst snd]. rewrite map_length.
  destruct (Nat.eqb (length (snd (pk r l))) (pred r)); cbn [fst snd].
  - rewrite map_app. simpl. rewrite <- mkpacked_map, map_app. reflexivity.
  - rewrite map_app. reflexivity.
Qed.

Lemma pack_map : forall f r l, pack r (map (xmap f) l) = map (xmap f) (pack r l).
Proof. intros; unfold pack; now rewrite pk_map. Qed.

(* ------------------------------------------------------------------ statements on the runs *)
(* utils.h reduceWidth / Packet.h widthReduce: every per-digit view of the delivered narrow beats is the
   slicing of the same view of the accepted wide beats (narrow beat k of a wide beat = slice k) *)
Lemma reduce_view : forall f r cs, 1 <= r -> EHold (reduceS r) cs ->
  exists pend, map (xmap f) (Tout (trace (reduceS r) cs)) = unpack r (map (xmap f) (Tin (trace (reduceS r) cs))) ++ pend /\ length pend < r.
Proof.
  intros f r cs Hr HE. destruct (reduce_transfers_eq r Hr cs HE) as (pend & E & L).
  exists (map (xmap f) pend). rewrite E, map_app, unpack_map, map_length. auto.
Qed.

Lemma preduce_view : forall f r cs, 1 <= r -> EHold (preduceS r) cs ->
  exists pend, map (xmap f) (Tout (trace (preduceS r) cs)) = unpack r (map (xmap f) (Tin (trace (preduceS r) cs))) ++ pend /\ length pend < r.
Proof.
  intros f r cs Hr HE. destruct (preduce_transfers_eq r Hr cs HE) as (pend & E & L).
  exists (map (xmap f) pend). rewrite E, map_app, unpack_map, map_length. auto.
Qed.

(* utils.h extendWidth: every per-digit view of the delivered wide beats is the packing of that view *)
Lemma extend_view : forall f r cs, 1 <= r ->
  map (xmap f) (Tout (trace (extendS r) cs)) = pack r (map (xmap f) (Tin (trace (extendS r) cs))).
Proof. intros f r cs Hr. rewrite (extend_transfers_eq r Hr cs), pack_map. reflexivity. Qed.
