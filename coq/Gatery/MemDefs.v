(* C07 -- memory ports of the reference simulator, transcribed from
   source/gatery/hlim/supportNodes/Node_MemPort.cpp:168-339 (simulateEvaluate / simulateAdvance),
   the plain array specification, the read-latency register pipeline and the read-modify-write
   hazard bypass network of hlim/RegisterRetiming.cpp (ReadModifyWriteHazardLogicBuilder::build,
   register mode).  Definitions only -- no proofs in this file (it is what gets extracted and tied
   to the real simulator by checks/C07.py).

   Words and addresses are 4-state bit vectors, LSB first (Gatery.Bits).  A memory is the list of
   its words (word i = bits [i*w, (i+1)*w) of Node_Memory's internal state). *)
From Gatery Require Import Bits.
Import ListNotations.

Definition memory := list bv.

(* Node_Memory::UndefinedReadAddrBehavior *)
Inductive ubehav := UB_Undefined | UB_Exact.

Record mem_cfg := MkCfg {
  c_width : nat;          (* Node_MemPort::getBitWidth() of every port (mixed widths are not simulated) *)
  c_abits : nat;          (* width of the address inputs *)
  c_ub : ubehav;
  c_noconf : bool         (* Node_Memory::noConflicts(): ports carry no orderAfter edges *)
}.

(* isReadPort() / isWritePort() *)
Record port := MkPort { p_read : bool; p_write : bool }.

(* the values on a port's inputs in one evaluation; None = input not connected *)
Record port_in := MkPin {
  pi_addr : option bv;
  pi_en : option tbit;
  pi_wren : option tbit;
  pi_wdata : option bv
}.

(* Internal::address / wrData / wrEnable of a write port, written by simulateEvaluate and read by
   simulateAdvance and by the forwarding loop of later ports *)
Record latch := MkLatch { l_addr : bv; l_data : bv; l_wr : bool }.

(* ------------------------------------------------------------------ bit helpers *)

(* sim::mergeUndefinedSelection, one bit: dst stays undefined; becomes undefined if src is undefined
   or differs *)
Definition merge_bit (a b : tbit) : tbit :=
  match a with
  | BX => BX
  | _ => match b with BX => BX | _ => if tbit_eqb a b then a else BX end
  end.

Fixpoint merge_word (a b : bv) : bv :=
  match a, b with
  | x :: a', y :: b' => merge_bit x y :: merge_word a' b'
  | _, _ => a
  end.

Definition any_def (x : bv) : bool := existsb is_def x.

(* value of an address with the undefined bits read as 0 (value & defined) *)
Fixpoint addr_val (a : bv) : N :=
  match a with
  | [] => 0%N
  | b :: r => (N.b2n (bit_val b) + 2 * addr_val r)%N
  end.

(* utils::allPossibleUndefinedValues: every value compatible with a partially undefined number,
   in increasing order *)
Fixpoint cands (a : bv) : list N :=
  match a with
  | [] => [0%N]
  | b :: r =>
    flat_map (fun h => match b with
                       | B0 => [(2 * h)%N]
                       | B1 => [(2 * h + 1)%N]
                       | BX => [(2 * h)%N; (2 * h + 1)%N]
                       end) (cands r)
  end.

(* (wrAddressValue & common) == (addressValue & common), common = both defined.  Bits beyond the
   shorter operand are undefined in its DEFINED mask and therefore unconstrained. *)
Fixpoint can_collide (wa ra : bv) : bool :=
  match wa, ra with
  | x :: wa', y :: ra' => compatb x y && can_collide wa' ra'
  | _, _ => true
  end.

Definition word_at (w : nat) (m : memory) (a : N) : bv := nth (N.to_nat a) m (all_X w).

(* index >= memSize with index = addr * bitWidth, memSize = #words * bitWidth *)
Definition out_of_range (w : nat) (m : memory) (a : N) : bool :=
  (N.of_nat (length m) * N.of_nat w <=? a * N.of_nat w)%N.

Fixpoint replace_nth (n : nat) (x : bv) (m : memory) : memory :=
  match m, n with
  | [], _ => []
  | _ :: r, O => x :: r
  | y :: r, S n' => y :: replace_nth n' x r
  end.

(* ------------------------------------------------------------------ asynchronous read *)

(* the EXACT loop of Node_MemPort.cpp:211-229: first candidate copied, later ones merged, an
   out-of-range candidate makes everything undefined (break), as does a fully undefined
   accumulator (break) *)
Fixpoint exact_loop (w : nat) (m : memory) (cs : list N) (first : bool) (acc : bv) : bv :=
  match cs with
  | [] => acc
  | a :: rest =>
    if out_of_range w m a then all_X w
    else if first then exact_loop w m rest false (word_at w m a)
    else let acc' := merge_word acc (word_at w m a) in
         if negb (any_def acc') then acc' else exact_loop w m rest false acc'
  end.

Definition read_base (c : mem_cfg) (m : memory) (addr : bv) : bv :=
  if all_def addr then
    (if out_of_range (c_width c) m (addr_val addr) then all_X (c_width c)
     else word_at (c_width c) m (addr_val addr))
  else match c_ub c with
       | UB_Exact => exact_loop (c_width c) m (cands addr) true (all_X (c_width c))
       | UB_Undefined => all_X (c_width c)
       end.

(* one iteration of the override loop, Node_MemPort.cpp:246-279 *)
Definition fwd_one (w : nat) (ra : bv) (out : bv) (l : latch) : bv :=
  if l_wr l then
    if negb (all_def (l_addr l)) then all_X w                    (* "nuking the memory": preview *)
    else if can_collide (l_addr l) ra then
      (if all_def ra then l_data l                                 (* addressesWillCollide *)
       else merge_word out (l_data l))
    else out
  else out.

(* enable pin decoding: unconnected = enabled and defined *)
Definition en_maybe (e : option tbit) : bool := match e with Some B0 => false | _ => true end.
Definition en_defined (e : option tbit) : bool := match e with Some BX => false | _ => true end.
Definition en_sure (e : option tbit) : bool := en_maybe e && en_defined e.

(* prevWPs: the latches of the earlier write ports, CLOSEST FIRST (order of getPrevWritePorts);
   the loop runs i = size-1 .. 0, i.e. over [rev prevWPs]: earliest write first, closest last *)
Definition mem_read (c : mem_cfg) (m : memory) (prevWPs : list latch) (pin : port_in) : bv :=
  match pi_addr pin with
  | None => all_X (c_width c)
  | Some addr =>
    if negb (en_sure (pi_en pin)) then all_X (c_width c)
    else fold_left (fwd_one (c_width c) addr) (rev prevWPs) (read_base c m addr)
  end.

(* ------------------------------------------------------------------ write latch / commit *)

(* second half of simulateEvaluate, l.285-309 *)
Definition mem_latch_write (c : mem_cfg) (pin : port_in) : latch :=
  let addr := match pi_addr pin with Some a => a | None => all_X (c_abits c) end in
  let data := match pi_wdata pin with Some d => d | None => all_X (c_width c) end in
  let doWrite := en_maybe (pi_en pin) && en_maybe (pi_wren pin) in
  let writingDefined := en_defined (pi_en pin) && en_defined (pi_wren pin) in
  MkLatch addr (if writingDefined then data else all_X (length data)) doWrite.

(* simulateAdvance, l.312-339: undefined address clears the DEFINED plane of the whole memory,
   out-of-range writes are dropped (commit 2be7ea7), else the word is replaced *)
Definition mem_commit (c : mem_cfg) (m : memory) (l : latch) : memory :=
  if l_wr l then
    if negb (all_def (l_addr l)) then map (fun x => all_X (length x)) m
    else if out_of_range (c_width c) m (addr_val (l_addr l)) then m
    else replace_nth (N.to_nat (addr_val (l_addr l))) (l_data l) m
  else m.

(* ------------------------------------------------------------------ one clock cycle *)

(* evaluation state while walking the ports in declaration order:
   forwarding list (closest first; stays empty under noConflicts), all latches in declaration order *)
Record pstate := MkPs { ps_fwd : list latch; ps_all : list latch }.
Definition ps_init : pstate := MkPs [] [].

Definition port_step (c : mem_cfg) (m : memory) (st : pstate) (pt : port) (pin : port_in)
  : option bv * pstate :=
  let rd := if p_read pt then Some (mem_read c m (ps_fwd st) pin) else None in
  let st' := if p_write pt then
               let l := mem_latch_write c pin in
               MkPs (if c_noconf c then [] else l :: ps_fwd st) (ps_all st ++ [l])
             else st in
  (rd, st').

Fixpoint eval_ports (c : mem_cfg) (m : memory) (st : pstate) (ps : list port) (ins : list port_in)
  : list (option bv) * pstate :=
  match ps, ins with
  | pt :: ps', pin :: ins' =>
    let '(rd, st') := port_step c m st pt pin in
    let '(rds, st'') := eval_ports c m st' ps' ins' in
    (rd :: rds, st'')
  | _, _ => ([], st)
  end.

(* all asynchronous reads (with forwarding), then all commits in port order at the clock edge *)
Definition cycle (c : mem_cfg) (ps : list port) (m : memory) (ins : list port_in)
  : list (option bv) * memory :=
  let '(rds, st) := eval_ports c m ps_init ps ins in
  (rds, fold_left (mem_commit c) (ps_all st) m).

Fixpoint run (c : mem_cfg) (ps : list port) (m : memory) (cycles : list (list port_in))
  : list (list (option bv)) * memory :=
  match cycles with
  | [] => ([], m)
  | ins :: rest =>
    let '(rds, m') := cycle c ps m ins in
    let '(out, m'') := run c ps m' rest in
    (rds :: out, m'')
  end.

(* ------------------------------------------------------------------ specification: a plain array *)

Definition arr := N -> bv.
Definition arr_upd (f : arr) (a : N) (d : bv) : arr := fun x => if N.eqb x a then d else f x.

(* fully defined port inputs: address, port enable, write enable, write data *)
Record aport_in := MkApin { ai_addr : N; ai_en : bool; ai_wen : bool; ai_wdata : bv }.

(* the ports act one after the other in declaration order on the array *)
Fixpoint spec_ports (w : nat) (f : arr) (ps : list port) (ins : list aport_in)
  : list (option bv) * arr :=
  match ps, ins with
  | pt :: ps', i :: ins' =>
    let rd := if p_read pt then Some (if ai_en i then f (ai_addr i) else all_X w) else None in
    let f' := if p_write pt && ai_en i && ai_wen i then arr_upd f (ai_addr i) (ai_wdata i) else f in
    let '(rds, f'') := spec_ports w f' ps' ins' in
    (rd :: rds, f'')
  | _, _ => ([], f)
  end.

Fixpoint spec_run (w : nat) (ps : list port) (f : arr) (cycles : list (list aport_in))
  : list (list (option bv)) * arr :=
  match cycles with
  | [] => ([], f)
  | ins :: rest =>
    let '(rds, f') := spec_ports w f ps ins in
    let '(out, f'') := spec_run w ps f' rest in
    (rds :: out, f'')
  end.

(* a pin valuation that presents the defined inputs [i]: enables either carry the value or are not
   connected (= enabled, the frontend's normal case) *)
Definition en_rel (b : bool) (e : option tbit) : Prop :=
  e = Some (of_bool b) \/ (e = None /\ b = true).
Definition pin_rel (c : mem_cfg) (i : aport_in) (pin : port_in) : Prop :=
  pi_addr pin = Some (bv_of_N (c_abits c) (ai_addr i)) /\
  en_rel (ai_en i) (pi_en pin) /\ en_rel (ai_wen i) (pi_wren pin) /\
  pi_wdata pin = Some (ai_wdata i).

Definition arr_of (w : nat) (m : memory) : arr := fun a => word_at w m a.

(* ------------------------------------------------------------------ tolerant spec used on
   post-processed circuits: defined stimulus, but addresses may be out of range and the memory may
   have been declared noConflicts.  An all-X word means "the specification allows anything". *)

Definition count_N (a : N) (l : list N) : nat := length (filter (N.eqb a) l).

(* cyc_writes: addresses of all enabled in-range writes of this cycle (needed for noConflicts
   memories only, where ports are unordered: a read that meets any write of the same cycle, or two
   writes that meet, are legitimately undefined) *)
Definition tspec_step (w : nat) (depth : N) (noconf : bool) (start : arr) (cyc_writes : list N)
  (f : arr) (pt : port) (i : aport_in) : option bv * arr :=
  let a := ai_addr i in
  let inr := (a <? depth)%N in
  let rd := if p_read pt then
              Some (if ai_en i && inr then
                      (if noconf then (if existsb (N.eqb a) cyc_writes then all_X w else start a) else f a)
                    else all_X w)
            else None in
  let dow := p_write pt && ai_en i && ai_wen i && inr in
  let f' := if dow then arr_upd f a (if noconf && (2 <=? count_N a cyc_writes)%nat then all_X w else ai_wdata i)
            else f in
  (rd, f').

(* ------------------------------------------------------------------ read latency: L registers
   behind the asynchronous read (frontend: reg(mem[addr]) L times; no reset, no enable) *)

(* register contents, the one next to the read port first *)
Definition pipe := list bv.
Definition pipe_out {A} (p : list A) (x : A) : A := last p x.          (* L = 0: combinational *)
Definition pipe_step {A} (p : list A) (x : A) : list A :=
  match p with [] => [] | _ => x :: removelast p end.

(* read enable: the read-latency registers sit under ENIF(en) and hold their contents while en = 0 *)
Definition pipe_step_en {A} (en : bool) (p : list A) (x : A) : list A := if en then pipe_step p x else p.

Fixpoint pipe_run {A} (p : list A) (xs : list A) : list A :=
  match xs with
  | [] => []
  | x :: r => pipe_out p x :: pipe_run (pipe_step p x) r
  end.

(* ------------------------------------------------------------------ read-modify-write hazard
   bypass (ReadModifyWriteHazardLogicBuilder::build, useMemory = false, one data word, before the
   optional retimeForwardToOutput of the last register).  Signals are streams over clock cycles. *)

Definition stream (A : Type) := nat -> A.
Definition sreg {A} (init : A) (x : stream A) : stream A :=
  fun t => match t with O => init | S t' => x t' end.

(* what a write port presents in one cycle *)
Record wr := MkWr { w_addr : N; w_en : bool; w_data : bv }.

(* conflict / override pair travelling through the stages; None = the builder's null NodePort
   (buildConflictOr / buildConflictMux wire the other operand through) *)
Definition cstate := option (bool * bv).

Definition stage_port (ra : N) (s : cstate) (p : wr) : cstate :=
  let conflict := N.eqb ra (w_addr p) && w_en p in
  match s with
  | None => Some (conflict, w_data p)
  | Some (c, o) => Some (c || conflict, if conflict then w_data p else o)
  end.

(* one stage: muxes in write-port order *)
Definition stage (ra : N) (s : cstate) (ps : list wr) : cstate := fold_left (stage_port ra) ps s.

(* rdPortAddrShiftReg[i] *)
Fixpoint addr_sr (ainit : nat -> N) (ra : stream N) (i : nat) : stream N :=
  match i with
  | O => ra
  | S i' => sreg (ainit i') (addr_sr ainit ra i')
  end.

(* value behind the register that follows stage i *)
Fixpoint bypass_stage (ainit : nat -> N) (cinit : nat -> cstate) (ra : stream N)
  (pw : stream (list wr)) (i : nat) : stream cstate :=
  sreg (cinit i)
       (fun t => stage (addr_sr ainit ra i t)
                       (match i with O => None | S i' => bypass_stage ainit cinit ra pw i' t end)
                       (pw t)).

(* physical memory behind the delayed write ports, as an array *)
Definition apply_wr (f : arr) (p : wr) : arr := if w_en p then arr_upd f (w_addr p) (w_data p) else f.
Fixpoint phys (f0 : arr) (pw : stream (list wr)) (t : nat) : arr :=
  match t with
  | O => f0
  | S t' => fold_left apply_wr (pw t') (phys f0 pw t')
  end.

(* read data behind the K read-latency registers of the memory *)
Fixpoint delayed {A} (init : nat -> A) (x : stream A) (k : nat) : stream A :=
  match k with O => x | S k' => sreg (init k') (delayed init x k') end.

(* the final mux: hazard_corrected_data.  K >= 1 stages. *)
Definition bypass_out (K : nat) (ainit : nat -> N) (cinit : nat -> cstate) (rinit : nat -> bv)
  (f0 : arr) (ra : stream N) (pw : stream (list wr)) : stream bv :=
  fun t =>
    let raw := delayed rinit (fun u => phys f0 pw u (ra u)) K t in
    match bypass_stage ainit cinit ra pw (K - 1) t with
    | Some (true, o) => o
    | _ => raw
    end.

(* logical view: the user's write ports, delayed by K cycles with the enable forced low in the
   first K cycles (MemoryGroup::ensureNotEnabledFirstCycles) *)
Definition delay_writes (K : nat) (lw : stream (list wr)) : stream (list wr) :=
  fun t => if (t <? K)%nat then [] else lw (t - K)%nat.
