(* C18 -- proofs, part 14: parse (print s) gives back the same 0/1/X array. *)
From Coq Require Import List NArith ZArith Bool Lia Ascii String.
From Gatery Require Import Bits BvsDefs BvsSpec BvsLeaf BvsWords BvsCopy BvsAbs BvsOps BvsEq
     BvsQuery BvsCmp BvsMerge BvsBig BvsSeq BvsText BvsParse.
Import ListNotations.
Ltac Zify.zify_post_hook ::= Z.to_euclidean_division_equations.
Local Open Scope N_scope.

Definition tview (a : sst) : list tbit := tbits (splane a VALUE) (splane a DEFINED).

Lemma bin_body_print (T : list tbit) : bin_body (rev (map tchar T)) = true.
Proof.
  unfold bin_body. apply forallb_forall. intros c Hc. apply in_rev in Hc. apply in_map_iff in Hc.
  destruct Hc as (t & <- & _). destruct t; reflexivity.
Qed.

Lemma digit_of_tchar t :
  of_planes (N.testbit (fst (digitVal (tchar t))) 0) (N.testbit (snd (digitVal (tchar t))) 0) = t.
Proof. destruct t; reflexivity. Qed.

Theorem parse_print_roundtrip s :
  wf s -> length (planes s) = 2%nat ->
  exists s', parseBitVector ("b"%char :: printState false s) = Some s'
             /\ wf s' /\ bsize s' = bsize s /\ tview (abs s') = tview (abs s).
Proof.
  intros W P. rewrite printState_bin_abs by (unfold DEFINED; lia || exact W).
  unfold print_spec. fold (tview (abs s)). set (T := tview (abs s)).
  assert (LT : length T = N.to_nat (bsize s)).
  { unfold T, tview, tbits. rewrite length_map2. unfold VALUE, DEFINED. rewrite !length_splane_abs by lia. lia. }
  set (body := rev (map tchar T)).
  assert (LB : length body = length T) by (unfold body; rewrite rev_length, map_length; reflexivity).
  destruct (parse_binary_literal body (bin_body_print T)) as (s' & E & W' & C' & Sz & A).
  exists s'. repeat split; try assumption.
  - rewrite Sz, LB, LT. lia.
  - unfold tview at 1. rewrite A. unfold digits_spec, splane, VALUE, DEFINED. cbn [map nth].
    unfold tbits.
    apply (nth_ext _ _ BX BX).
    + rewrite length_map2, !map_length, seq_length. lia.
    + intros i Hi. rewrite length_map2, !map_length, seq_length in Hi.
      assert (Hi' : (i < length T)%nat) by lia.
      change BX with (of_planes false false) at 1.
      rewrite nth_map2 by (rewrite map_length, seq_length; lia).
      rewrite !nth_map_seq by lia.
      unfold digit_bit. cbn [Nat.eqb].
      replace (N.of_nat i / 1) with (N.of_nat i) by (rewrite N.div_1_r; reflexivity).
      replace (N.of_nat i mod 1) with 0 by (rewrite N.mod_1_r; reflexivity).
      replace (N.to_nat (N.of_nat (length body) - 1 - N.of_nat i)) with (length body - S i)%nat by lia.
      unfold body at 2 4. rewrite rev_nth by (rewrite map_length; lia).
      rewrite map_length, LB.
      replace (length T - S (length T - S i))%nat with i by lia.
      rewrite (nth_indep _ zero (tchar BX)) by (rewrite map_length; lia).
      rewrite map_nth. apply digit_of_tchar.
Qed.
