(* C09 -- the edge operations of NodeIO.cpp preserve the invariant:
   disconnectInput, connectInput (= rewireInput), the drain loop of resizeOutputs, the loop of
   bypassOutputToInput, resizeInputs, resizeOutputs, setOutputConnectionType, Node_Signal::connectInput. *)
From Coq Require Import List NArith Arith Bool Lia.
From Gatery Require Import WfDefs WfLemmas WfViews.
Import ListNotations.

(* ------------------------------------------------------------------------------------------ *)
(* frames: what an operation provably does not touch                                          *)
(* ------------------------------------------------------------------------------------------ *)
Definition same_types g g' := (forall y, otype g' y = otype g y) /\ (forall k, req_of g' k = req_of g k).
Definition same_edges g g' := (forall x, drv g' x = drv g x) /\ (forall y, outp g' y = outp g y) /\
                              (forall k, req_of g' k = req_of g k) /\ (forall x, in_validb g' x = in_validb g x).
Definition same_groups g g' := (forall k, grp_of g' k = grp_of g k) /\ (forall k, members g' k = members g k).
Definition same_clocks g g' := (forall x, clk_of g' x = clk_of g x) /\ (forall k, clocked g' k = clocked g k) /\
                               (forall x, clk_validb g' x = clk_validb g x).
Definition same_skel g g' := skeleton g' = skeleton g.

(* an operation on edges only *)
Definition eframe g g' :=
  same_types g g' /\ same_groups g g' /\ same_clocks g g' /\ same_skel g g' /\
  (forall x, in_validb g' x = in_validb g x).

(* inputs only lose drivers *)
Definition drv_le g g' := forall x, drv g' x = None \/ drv g' x = drv g x.

Lemma eframe_refl : forall g, eframe g g.
Proof. intros. repeat split; auto. Qed.

Lemma eframe_trans : forall g1 g2 g3, eframe g1 g2 -> eframe g2 g3 -> eframe g1 g3.
Proof.
  unfold eframe, same_types, same_groups, same_clocks, same_skel.
  intros g1 g2 g3 ((A1 & A2) & (A3 & A4) & (A5 & A6 & A7) & A8 & A9) ((B1 & B2) & (B3 & B4) & (B5 & B6 & B7) & B8 & B9).
  repeat split; intros;
    first [ rewrite B1; solve [auto] | rewrite B2; solve [auto] | rewrite B3; solve [auto] | rewrite B4; solve [auto]
          | rewrite B5; solve [auto] | rewrite B6; solve [auto] | rewrite B7; solve [auto] | rewrite B9; solve [auto]
          | congruence ].
Qed.

Lemma drv_le_refl : forall g, drv_le g g. Proof. intros g x; auto. Qed.
Lemma drv_le_trans : forall g1 g2 g3, drv_le g1 g2 -> drv_le g2 g3 -> drv_le g1 g3.
Proof.
  intros g1 g2 g3 H1 H2 x. destruct (H2 x) as [E|E]; auto. rewrite E. apply H1.
Qed.

Lemma eframe_set_in : forall g a v, eframe g (set_in g a v).
Proof.
  intros. repeat split; intros.
  - apply otype_set_in. - apply req_of_set_in. - apply grp_of_set_in.
  - apply clk_of_set_in. - apply clk_validb_set_in. - apply skeleton_set_in. - apply in_validb_set_in.
Qed.

Lemma eframe_set_cons : forall g b l, eframe g (set_cons g b l).
Proof.
  intros. repeat split; intros.
  - apply otype_set_cons. - apply req_of_set_cons. - apply grp_of_set_cons.
  - apply clk_of_set_cons. - apply clk_validb_set_cons. - apply skeleton_set_cons. - apply in_validb_set_cons.
Qed.

Lemma eframe_otype : forall g g' y, eframe g g' -> otype g' y = otype g y.
Proof. intros g g' y ((H & _) & _). auto. Qed.
Lemma eframe_out_validb : forall g g' y, eframe g g' -> out_validb g' y = out_validb g y.
Proof. intros. rewrite !out_validb_otype. erewrite eframe_otype; eauto. Qed.
Lemma eframe_in_validb : forall g g' x, eframe g g' -> in_validb g' x = in_validb g x.
Proof. intros g g' x (_ & _ & _ & _ & H). auto. Qed.
Lemma eframe_skel : forall g g', eframe g g' -> skeleton g' = skeleton g.
Proof. intros g g' (_ & _ & _ & H & _). auto. Qed.

(* ---- transfer of the clauses an operation does not touch ---- *)
Lemma consistent_groups_same : forall g g', same_groups g g' ->
  consistent N.eq_dec (grp_of g) (members g) -> consistent N.eq_dec (grp_of g') (members g').
Proof. intros g g' (A & B) H. eapply consistent_ext; eauto. intros. rewrite B. auto. Qed.

Lemma consistent_clocks_same : forall g g', same_clocks g g' ->
  consistent nport_eq_dec (clk_of g) (clocked g) -> consistent nport_eq_dec (clk_of g') (clocked g').
Proof. intros g g' (A & B & _) H. eapply consistent_ext; eauto. intros. rewrite B. auto. Qed.

Lemma cons_same_outp : forall g g' y, outp g' y = outp g y -> cons g' y = cons g y.
Proof. intros. unfold cons. rewrite H. auto. Qed.
Lemma otype_same_outp : forall g g' y, outp g' y = outp g y -> otype g' y = otype g y.
Proof. intros. unfold otype. rewrite H. auto. Qed.

Lemma consistent_edges_same : forall g g', same_edges g g' ->
  consistent nport_eq_dec (drv g) (cons g) -> consistent nport_eq_dec (drv g') (cons g').
Proof.
  intros g g' (A & B & _) H. eapply consistent_ext; eauto. intros. rewrite (cons_same_outp g g'); auto.
Qed.

Lemma types_ok_le : forall g g', drv_le g g' -> same_types g g' -> types_ok g -> types_ok g'.
Proof.
  intros g g' Hle (Ho & Hr) H. apply (types_frame g g' []); auto.
  intros n _. repeat split; auto.
  intros i. unfold tin_at. destruct (Hle (n, i)) as [E|E]; rewrite E; auto.
  destruct (drv g (n, i)); auto.
Qed.

Lemma types_ok_same : forall g g', same_edges g g' -> types_ok g -> types_ok g'.
Proof.
  intros g g' (A & B & C & _) H. apply (types_ok_le g g'); auto.
  - intros x. right. auto.
  - split; auto. intros. apply otype_same_outp; auto.
Qed.

(* ---- the invariant without clause (ii), and clause (ii) "except for the nodes in T" ---- *)
Record InvS (g : graph) : Prop := mkInvS {
  s_edges   : consistent nport_eq_dec (drv g) (cons g);
  s_groups  : consistent N.eq_dec (grp_of g) (members g);
  s_parents : parents_ok g;
  s_clocks  : consistent nport_eq_dec (clk_of g) (clocked g);
  s_ids     : ids_ok g
}.

Lemma Inv_split : forall g, Inv g <-> InvS g /\ types_ok g.
Proof.
  intros. split.
  - intros [I1 I2 I3 I4 I5 I6]. split; [constructor|]; auto.
  - intros [[S1 S2 S3 S4 S5] T]. constructor; auto.
Qed.

Definition types_ok_except (T : list N) (g : graph) : Prop := forall n, ~ In n T -> node_ok_at g n = true.

Lemma types_except_nil : forall g, types_ok g <-> types_ok_except [] g.
Proof.
  intros. rewrite types_ok_at. unfold types_ok_except. split; intros; auto.
Qed.

Lemma types_except_weaken : forall T T' g, incl T T' -> types_ok_except T g -> types_ok_except T' g.
Proof. intros T T' g Hi H n Hn. apply H. intros Hin. apply Hn. apply Hi; auto. Qed.

Lemma types_except_of_ok : forall T g, types_ok g -> types_ok_except T g.
Proof. intros. apply (types_except_weaken []); [intros x Hx; inversion Hx | apply types_except_nil; auto]. Qed.

Lemma types_except_finish : forall T g,
  types_ok_except T g -> forallb (node_ok_at g) T = true -> types_ok g.
Proof.
  intros T g H HT. apply types_ok_at. intros n.
  destruct (in_dec N.eq_dec n T) as [Hin|Hin]; auto. rewrite forallb_forall in HT. auto.
Qed.

Lemma types_frame_except : forall g g' (T : list N),
  types_ok_except T g ->
  (forall n, ~ In n T ->
     req_of g' n = None \/
     ((forall i, tin_at g' n i = None \/ tin_at g' n i = tin_at g n i) /\
      (forall o, otype g' (n, o) = otype g (n, o)) /\
      req_of g' n = req_of g n)) ->
  types_ok_except T g'.
Proof.
  intros g g' T H HF n Hin. destruct (HF n Hin) as [Hr|(Hi & Ho & Hr)].
  - unfold node_ok_at. unfold req_of in Hr. destruct (getn g' n); auto. discriminate.
  - eapply node_ok_at_mono; eauto.
Qed.

Lemma types_except_le : forall g g' T, drv_le g g' -> same_types g g' ->
  types_ok_except T g -> types_ok_except T g'.
Proof.
  intros g g' T Hle (Ho & Hr) H. apply (types_frame_except g g' T); auto.
  intros n _. right. repeat split; auto.
  intros i. unfold tin_at. destruct (Hle (n, i)) as [E|E]; rewrite E; auto.
  destruct (drv g (n, i)); auto.
Qed.

(* output types may change where there is no consumer (and on the nodes in T, and on nodes that vanish) *)
Lemma types_except_unused : forall g g' T,
  consistent nport_eq_dec (drv g) (cons g) -> drv_le g g' ->
  (forall y, cons g y <> [] -> otype g' y = otype g y) ->
  (forall n, ~ In n T -> req_of g' n = None \/ (req_of g' n = req_of g n /\ forall o, otype g' (n, o) = otype g (n, o))) ->
  types_ok_except T g -> types_ok_except T g'.
Proof.
  intros g g' T E Hle Hu Ho H. apply (types_frame_except g g' T); auto.
  intros n Hn. destruct (Ho n Hn) as [Hr|(Hr & Hot)]; auto. right. repeat split; auto.
  intros i. unfold tin_at. destruct (Hle (n, i)) as [D|D]; rewrite D; auto.
  destruct (drv g (n, i)) as [b|] eqn:Db; auto. right. apply Hu.
  intros C. destruct (E (n, i) b) as [H1 _]. specialize (H1 Db). rewrite C in H1. discriminate.
Qed.

Lemma drv_Some_cons : forall g a b, consistent nport_eq_dec (drv g) (cons g) -> drv g a = Some b -> In a (cons g b).
Proof. intros. apply (count_occ_In nport_eq_dec). destruct (H a b) as [H1 _]. rewrite H1; auto. Qed.

(* an edge-only operation preserves InvS as soon as clause (i) is re-established *)
Lemma InvS_eframe : forall g g', InvS g -> eframe g g' ->
  consistent nport_eq_dec (drv g') (cons g') -> InvS g'.
Proof.
  intros g g' [I1 I3 I4 I5 I6] (T & G & C & S & _) E.
  constructor; auto.
  - eapply consistent_groups_same; eauto.
  - eapply parents_ok_skel; eauto.
  - eapply consistent_clocks_same; eauto.
  - eapply ids_ok_skel; eauto.
Qed.

(* operations that do not touch edges, types or requirements at all *)
Lemma InvS_views : forall g g', InvS g ->
  (forall x, drv g' x = drv g x) -> (forall y, cons g' y = cons g y) ->
  same_groups g g' ->
  (forall x, clk_of g' x = clk_of g x) -> (forall k, clocked g' k = clocked g k) ->
  same_skel g g' -> InvS g'.
Proof.
  intros g g' [I1 I3 I4 I5 I6] D C G K1 K2 S. constructor.
  - eapply consistent_ext; eauto. intros. rewrite C; auto.
  - eapply consistent_groups_same; eauto.
  - eapply parents_ok_skel; eauto.
  - eapply consistent_ext; eauto. intros. rewrite K2; auto.
  - eapply ids_ok_skel; eauto.
Qed.

(* ------------------------------------------------------------------------------------------ *)
(* disconnectInput                                                                            *)
(* ------------------------------------------------------------------------------------------ *)
Lemma eframe_disconnect : forall g a, eframe g (disconnectInput g a).
Proof.
  intros. unfold disconnectInput. destruct (drv g a) as [b|]; [|apply eframe_refl].
  destruct (memb nport_eq_dec a (cons g b)); [|apply eframe_refl].
  eapply eframe_trans; [apply eframe_set_cons | apply eframe_set_in].
Qed.

Lemma drv_le_disconnect : forall g a, drv_le g (disconnectInput g a).
Proof.
  intros g a x. unfold disconnectInput. destruct (drv g a) as [b|] eqn:E; auto.
  destruct (memb nport_eq_dec a (cons g b)); auto.
  rewrite drv_set_in, drv_set_cons. destruct (nport_eq_dec x a); auto.
  destruct (in_validb (set_cons g b (swap_remove nport_eq_dec a (cons g b))) a); auto.
Qed.

Section Disconnect.
  Variables (g : graph) (a b : nport).
  Hypothesis E : consistent nport_eq_dec (drv g) (cons g).
  Hypothesis D : drv g a = Some b.

  Let g' := disconnectInput g a.

  Lemma disconnect_In : In a (cons g b).
  Proof. apply (count_occ_In nport_eq_dec). destruct (E a b) as [H _]. rewrite H; auto. Qed.

  Lemma disconnect_unfold :
    g' = set_in (set_cons g b (swap_remove nport_eq_dec a (cons g b))) a None.
  Proof.
    unfold g', disconnectInput. rewrite D.
    replace (memb nport_eq_dec a (cons g b)) with true; auto.
    symmetry. apply memb_true. apply disconnect_In.
  Qed.

  Lemma disconnect_drv : forall x, drv g' x = if nport_eq_dec x a then None else drv g x.
  Proof.
    intros. rewrite disconnect_unfold, drv_set_in, drv_set_cons, in_validb_set_cons.
    rewrite (drv_Some_valid g a b D). reflexivity.
  Qed.

  Lemma disconnect_cons : forall y,
    cons g' y = if nport_eq_dec y b then swap_remove nport_eq_dec a (cons g b) else cons g y.
  Proof.
    intros. rewrite disconnect_unfold, cons_set_in, cons_set_cons.
    rewrite (In_cons_valid g b a disconnect_In). reflexivity.
  Qed.

  Lemma disconnect_consistent : consistent nport_eq_dec (drv g') (cons g').
  Proof.
    apply (consistent_unlink nport_eq_dec nport_eq_dec (drv g) (drv g') (cons g) (cons g') a b); auto.
    - rewrite disconnect_drv. destruct (nport_eq_dec a a); congruence.
    - intros. rewrite disconnect_drv. destruct (nport_eq_dec x a); congruence.
    - rewrite disconnect_cons. destruct (nport_eq_dec b b); [|congruence].
      rewrite count_swap_remove_eq by apply disconnect_In.
      destruct (E a b) as [H _]. rewrite H; auto.
    - intros. rewrite disconnect_cons. destruct (nport_eq_dec b b); [|congruence].
      apply count_swap_remove_neq; auto.
    - intros. rewrite disconnect_cons. destruct (nport_eq_dec b' b); congruence.
  Qed.

  Lemma disconnect_length : S (length (cons g' b)) = length (cons g b).
  Proof.
    rewrite disconnect_cons. destruct (nport_eq_dec b b); [|congruence].
    apply length_swap_remove. apply disconnect_In.
  Qed.
End Disconnect.

Lemma disconnect_consistent_any : forall g a,
  consistent nport_eq_dec (drv g) (cons g) ->
  consistent nport_eq_dec (drv (disconnectInput g a)) (cons (disconnectInput g a)).
Proof.
  intros. destruct (drv g a) as [b|] eqn:D.
  - eapply disconnect_consistent; eauto.
  - unfold disconnectInput. rewrite D. auto.
Qed.

Lemma disconnect_drv_any : forall g a x,
  consistent nport_eq_dec (drv g) (cons g) ->
  drv (disconnectInput g a) x = if nport_eq_dec x a then None else drv g x.
Proof.
  intros. destruct (drv g a) as [b|] eqn:D.
  - eapply disconnect_drv; eauto.
  - unfold disconnectInput. rewrite D. destruct (nport_eq_dec x a); congruence.
Qed.

Lemma disconnect_InvS : forall g a, InvS g -> InvS (disconnectInput g a).
Proof.
  intros g a I. apply (InvS_eframe g); auto.
  - apply eframe_disconnect.
  - apply disconnect_consistent_any. apply I.
Qed.

Lemma disconnect_types_except : forall g a T, types_ok_except T g -> types_ok_except T (disconnectInput g a).
Proof. intros. apply (types_except_le g); auto; [apply drv_le_disconnect | apply eframe_disconnect]. Qed.

Theorem disconnectInput_preserves_Inv : forall g a, Inv g -> Inv (disconnectInput g a).
Proof.
  intros g a I. apply Inv_split in I. destruct I as [IS IT]. apply Inv_split. split.
  - apply disconnect_InvS; auto.
  - apply types_except_nil. apply disconnect_types_except. apply types_except_nil; auto.
Qed.

(* ------------------------------------------------------------------------------------------ *)
(* connectInput                                                                               *)
(* ------------------------------------------------------------------------------------------ *)
Lemma eframe_connect : forall g a out, eframe g (connectInput g a out).
Proof.
  intros. unfold connectInput. destruct (onport_eq_dec (drv g a) out); [apply eframe_refl|].
  set (g1 := match drv g a with Some _ => disconnectInput g a | None => g end).
  assert (F1 : eframe g g1) by (unfold g1; destruct (drv g a); [apply eframe_disconnect | apply eframe_refl]).
  destruct out as [b|].
  - eapply eframe_trans; [exact F1|]. eapply eframe_trans; [apply eframe_set_in | apply eframe_set_cons].
  - eapply eframe_trans; [exact F1 | apply eframe_set_in].
Qed.

Section Connect.
  Variables (g : graph) (a : nport) (out : option nport).
  Hypothesis E : consistent nport_eq_dec (drv g) (cons g).
  Hypothesis Va : in_validb g a = true.
  Hypothesis Vo : osrcb g out = true.

  Let g' := connectInput g a out.
  Let g1 := match drv g a with Some _ => disconnectInput g a | None => g end.

  Lemma connect_g1 :
    consistent nport_eq_dec (drv g1) (cons g1) /\ eframe g g1 /\
    (forall x, drv g1 x = if nport_eq_dec x a then None else drv g x).
  Proof.
    unfold g1. destruct (drv g a) as [b0|] eqn:D.
    - split; [eapply disconnect_consistent; eauto|]. split; [apply eframe_disconnect|].
      intros. eapply disconnect_drv; eauto.
    - split; auto. split; [apply eframe_refl|]. intros. destruct (nport_eq_dec x a); congruence.
  Qed.

  Lemma connect_drv : forall x, drv g' x = if nport_eq_dec x a then out else drv g x.
  Proof.
    intros. unfold g', connectInput. destruct (onport_eq_dec (drv g a) out) as [Heq|Hne].
    - destruct (nport_eq_dec x a); congruence.
    - fold g1. destruct connect_g1 as (_ & F1 & D1).
      assert (V1 : in_validb g1 a = true) by (rewrite (eframe_in_validb g g1); auto).
      destruct out as [b|].
      + rewrite drv_set_cons, drv_set_in, V1, D1. destruct (nport_eq_dec x a); auto.
      + rewrite drv_set_in, V1, D1. destruct (nport_eq_dec x a); auto.
  Qed.

  Lemma connect_consistent : consistent nport_eq_dec (drv g') (cons g').
  Proof.
    unfold g', connectInput. destruct (onport_eq_dec (drv g a) out) as [Heq|Hne]; auto.
    fold g1. destruct connect_g1 as (E1 & F1 & D1).
    assert (V1 : in_validb g1 a = true) by (rewrite (eframe_in_validb g g1); auto).
    assert (Da : drv g1 a = None) by (rewrite D1; destruct (nport_eq_dec a a); congruence).
    destruct out as [b|].
    - assert (Vb : out_validb (set_in g1 a (Some b)) b = true).
      { rewrite out_validb_set_in, (eframe_out_validb g g1); auto. }
      apply (consistent_link nport_eq_dec nport_eq_dec (drv g1) _ (cons g1) _ a b); auto.
      + rewrite drv_set_cons, drv_set_in, V1. destruct (nport_eq_dec a a); congruence.
      + intros. rewrite drv_set_cons, drv_set_in. destruct (nport_eq_dec x a); congruence.
      + rewrite cons_set_cons, Vb. destruct (nport_eq_dec b b); [|congruence].
        rewrite cons_set_in, count_snoc. destruct (nport_eq_dec a a); [lia|congruence].
      + intros. rewrite cons_set_cons, Vb. destruct (nport_eq_dec b b); [|congruence].
        rewrite cons_set_in, count_snoc. destruct (nport_eq_dec a x); [congruence|lia].
      + intros. rewrite cons_set_cons. destruct (nport_eq_dec b' b); [congruence|]. apply cons_set_in.
    - eapply consistent_ext; [exact E1| |].
      + intros. rewrite drv_set_in, V1. destruct (nport_eq_dec a0 a); congruence.
      + intros. rewrite cons_set_in. auto.
  Qed.

  (* the consumer lists after the call, when the driver really changes *)
  Lemma connect_cons : drv g a <> out -> forall y,
    cons g' y =
    if onport_eq_dec out (Some y) then cons g y ++ [a]
    else if onport_eq_dec (drv g a) (Some y) then swap_remove nport_eq_dec a (cons g y) else cons g y.
  Proof.
    intros Hne y. unfold g', connectInput. destruct (onport_eq_dec (drv g a) out); [congruence|].
    fold g1.
    assert (C1 : cons g1 y = if onport_eq_dec (drv g a) (Some y) then swap_remove nport_eq_dec a (cons g y) else cons g y).
    { unfold g1. destruct (drv g a) as [b0|] eqn:D.
      - rewrite (disconnect_cons g a b0 E D). destruct (nport_eq_dec y b0); destruct (onport_eq_dec (Some b0) (Some y)); congruence.
      - destruct (onport_eq_dec None (Some y)); [discriminate|auto]. }
    destruct connect_g1 as (E1 & F1 & D1).
    destruct out as [b|].
    - assert (Vb : out_validb (set_in g1 a (Some b)) b = true).
      { rewrite out_validb_set_in, (eframe_out_validb g g1); auto. }
      rewrite cons_set_cons, Vb, cons_set_in. destruct (nport_eq_dec y b) as [->|Hy].
      + destruct (onport_eq_dec (Some b) (Some b)); [|congruence].
        rewrite C1. destruct (onport_eq_dec (drv g a) (Some b)); [congruence|auto].
      + destruct (onport_eq_dec (Some b) (Some y)); [congruence|]. rewrite cons_set_in. auto.
    - rewrite cons_set_in. destruct (onport_eq_dec None (Some y)); [discriminate|auto].
  Qed.
End Connect.

Lemma connect_InvS : forall g a out,
  InvS g -> in_validb g a = true -> osrcb g out = true -> InvS (connectInput g a out).
Proof.
  intros g a out I Va Vo. apply (InvS_eframe g); auto.
  - apply eframe_connect.
  - apply connect_consistent; auto. apply I.
Qed.

(* types: every node other than the one whose input is rewired keeps its requirement *)
Lemma connect_types_except : forall g a out T,
  consistent nport_eq_dec (drv g) (cons g) -> in_validb g a = true -> osrcb g out = true ->
  In (fst a) T -> types_ok_except T g -> types_ok_except T (connectInput g a out).
Proof.
  intros g a out T E Va Vo Hin H.
  apply (types_frame_except g _ T); auto.
  intros n Hnot. assert (Hn' : n <> fst a) by (intros ->; auto).
  pose proof (eframe_connect g a out) as F. destruct F as ((Fo & Fr) & _).
  right. repeat split; auto.
  intros i. right. unfold tin_at. rewrite (connect_drv g a out E Va Vo).
  destruct (nport_eq_dec (n, i) a) as [<-|]; [simpl in Hn'; congruence|].
  destruct (drv g (n, i)); auto.
Qed.

Theorem connectInput_preserves_Inv : forall g a out,
  Inv g -> in_validb g a = true -> osrcb g out = true ->
  node_ok_at (connectInput g a out) (fst a) = true ->
  Inv (connectInput g a out).
Proof.
  intros g a out I Va Vo Hn. apply Inv_split in I. destruct I as [IS IT]. apply Inv_split. split.
  - apply connect_InvS; auto.
  - apply (types_except_finish [fst a]); [|simpl; rewrite Hn; auto].
    apply connect_types_except; simpl; auto. apply IS. apply types_except_of_ok; auto.
Qed.

(* rewiring to a driver of the same type (or to nothing) needs no obligation at all *)
Lemma connect_same_type_ok : forall g a out,
  Inv g -> in_validb g a = true -> osrcb g out = true ->
  (out = None \/ exists b b0, out = Some b /\ drv g a = Some b0 /\ otype g b = otype g b0) ->
  node_ok_at (connectInput g a out) (fst a) = true.
Proof.
  intros g a out I Va Vo H.
  pose proof (eframe_connect g a out) as F. destruct F as ((Fo & Fr) & _).
  apply (node_ok_at_mono g); auto.
  - intros i. unfold tin_at. rewrite (connect_drv g a out (inv_edges g I) Va Vo).
    destruct a as [n j]. simpl.
    destruct (nport_eq_dec (n, i) (n, j)) as [Heq|Hne].
    + inversion Heq; subst i. destruct H as [->|(b & b0 & -> & D & T)]; auto.
      right. rewrite D, !Fo. auto.
    + right. destruct (drv g (n, i)); auto.
  - apply types_ok_at. apply I.
Qed.

(* ------------------------------------------------------------------------------------------ *)
(* loops                                                                                      *)
(* ------------------------------------------------------------------------------------------ *)
Lemma eframe_drain : forall fuel g b, eframe g (drain fuel g b).
Proof.
  induction fuel; intros; simpl; [apply eframe_refl|].
  destruct (cons g b) as [|c r]; [apply eframe_refl|].
  eapply eframe_trans; [apply eframe_disconnect | apply IHfuel].
Qed.

Lemma drv_le_drain : forall fuel g b, drv_le g (drain fuel g b).
Proof.
  induction fuel; intros; simpl; [apply drv_le_refl|].
  destruct (cons g b) as [|c r]; [apply drv_le_refl|].
  eapply drv_le_trans; [apply drv_le_disconnect | apply IHfuel].
Qed.

Lemma drain_consistent : forall fuel g b,
  consistent nport_eq_dec (drv g) (cons g) ->
  consistent nport_eq_dec (drv (drain fuel g b)) (cons (drain fuel g b)).
Proof.
  induction fuel; intros; simpl; auto.
  destruct (cons g b) as [|c r]; auto. apply IHfuel. apply disconnect_consistent_any; auto.
Qed.

(* with enough fuel the loop ends with an empty consumer list, as in C++ *)
Lemma drain_empty : forall fuel g b,
  consistent nport_eq_dec (drv g) (cons g) -> length (cons g b) <= fuel ->
  cons (drain fuel g b) b = [].
Proof.
  induction fuel; intros g b E Hl; simpl.
  - destruct (cons g b); auto. simpl in Hl. lia.
  - destruct (cons g b) as [|c r] eqn:C; auto.
    assert (D : drv g c = Some b).
    { apply (consistent_In nport_eq_dec nport_eq_dec _ _ _ _ E). rewrite C. simpl; auto. }
    apply IHfuel; [eapply disconnect_consistent; eauto|].
    pose proof (disconnect_length g c b E D) as L. rewrite C in L. simpl in L, Hl. lia.
Qed.

(* only consumers of b lose their driver, everything else is untouched *)
Lemma drain_drv_other : forall fuel g b x,
  consistent nport_eq_dec (drv g) (cons g) -> drv g x <> Some b ->
  drv (drain fuel g b) x = drv g x.
Proof.
  induction fuel; intros g b x E Hx; simpl; auto.
  destruct (cons g b) as [|c r] eqn:C; auto.
  assert (D : drv g c = Some b).
  { apply (consistent_In nport_eq_dec nport_eq_dec _ _ _ _ E). rewrite C. simpl; auto. }
  assert (Hc : x <> c) by congruence.
  rewrite IHfuel.
  - rewrite (disconnect_drv g c b E D). destruct (nport_eq_dec x c); congruence.
  - eapply disconnect_consistent; eauto.
  - rewrite (disconnect_drv g c b E D). destruct (nport_eq_dec x c); congruence.
Qed.

Lemma drain_cons_other : forall fuel g b y,
  consistent nport_eq_dec (drv g) (cons g) -> cons g y = [] -> cons (drain fuel g b) y = [].
Proof.
  induction fuel; intros g b y E Hy; simpl; auto.
  destruct (cons g b) as [|c r] eqn:C; auto.
  assert (D : drv g c = Some b).
  { apply (consistent_In nport_eq_dec nport_eq_dec _ _ _ _ E). rewrite C. simpl; auto. }
  apply IHfuel; [eapply disconnect_consistent; eauto|].
  rewrite (disconnect_cons g c b E D). destruct (nport_eq_dec y b) as [->|]; auto.
  rewrite C in Hy. discriminate.
Qed.

(* ---- bypassOutputToInput ---- *)
Lemma eframe_bypass_loop : forall fuel g b src, eframe g (bypass_loop fuel g b src).
Proof.
  induction fuel; intros; simpl; [apply eframe_refl|].
  destruct (cons g b) as [|c r]; [apply eframe_refl|].
  eapply eframe_trans; [apply eframe_connect | apply IHfuel].
Qed.

Lemma osrcb_eframe : forall g g' src, eframe g g' -> osrcb g' src = osrcb g src.
Proof. intros. destruct src; simpl; auto. apply eframe_out_validb; auto. Qed.

Lemma bypass_loop_consistent : forall fuel g b src,
  consistent nport_eq_dec (drv g) (cons g) -> osrcb g src = true ->
  consistent nport_eq_dec (drv (bypass_loop fuel g b src)) (cons (bypass_loop fuel g b src)).
Proof.
  induction fuel; intros g b src E Vs; simpl; auto.
  destruct (cons g b) as [|c r] eqn:C; auto.
  assert (D : drv g c = Some b).
  { apply (consistent_In nport_eq_dec nport_eq_dec _ _ _ _ E). rewrite C. simpl; auto. }
  apply IHfuel.
  - apply connect_consistent; auto. eapply drv_Some_valid; eauto.
  - rewrite (osrcb_eframe g); auto. apply eframe_connect.
Qed.

(* inputs that are not consumers of b keep their driver *)
Lemma bypass_loop_drv_other : forall fuel g b src x,
  consistent nport_eq_dec (drv g) (cons g) -> osrcb g src = true -> src <> Some b ->
  drv g x <> Some b -> drv (bypass_loop fuel g b src) x = drv g x.
Proof.
  induction fuel; intros g b src x E Vs Hs Hx; simpl; auto.
  destruct (cons g b) as [|c r] eqn:C; auto.
  assert (D : drv g c = Some b).
  { apply (consistent_In nport_eq_dec nport_eq_dec _ _ _ _ E). rewrite C. simpl; auto. }
  assert (Vc : in_validb g c = true) by (eapply drv_Some_valid; eauto).
  assert (Hc : x <> c) by congruence.
  rewrite IHfuel; auto.
  - rewrite connect_drv; auto. destruct (nport_eq_dec x c); congruence.
  - apply connect_consistent; auto.
  - rewrite (osrcb_eframe g); auto. apply eframe_connect.
  - rewrite connect_drv; auto. destruct (nport_eq_dec x c); congruence.
Qed.

(* consumers of b end up driven by src: the loop really drains the list (src <> b) *)
Lemma bypass_loop_drv_moved : forall fuel g b src x,
  consistent nport_eq_dec (drv g) (cons g) -> osrcb g src = true -> src <> Some b ->
  length (cons g b) <= fuel ->
  drv g x = Some b -> drv (bypass_loop fuel g b src) x = src.
Proof.
  induction fuel; intros g b src x E Vs Hs Hl Hx; simpl.
  - destruct (E x b) as [H _]. specialize (H Hx).
    destruct (cons g b); simpl in *; [discriminate | lia].
  - destruct (cons g b) as [|c r] eqn:C.
    + destruct (E x b) as [H _]. specialize (H Hx). rewrite C in H. discriminate.
    + assert (D : drv g c = Some b).
      { apply (consistent_In nport_eq_dec nport_eq_dec _ _ _ _ E). rewrite C. simpl; auto. }
      assert (Vc : in_validb g c = true) by (eapply drv_Some_valid; eauto).
      assert (E1 : consistent nport_eq_dec (drv (connectInput g c src)) (cons (connectInput g c src)))
        by (apply connect_consistent; auto).
      assert (V1 : osrcb (connectInput g c src) src = true)
        by (rewrite (osrcb_eframe g); auto; apply eframe_connect).
      destruct (nport_eq_dec x c) as [->|Hc].
      * rewrite bypass_loop_drv_other; auto.
        -- rewrite connect_drv; auto. destruct (nport_eq_dec c c); congruence.
        -- rewrite connect_drv; auto. destruct (nport_eq_dec c c); congruence.
      * apply IHfuel; auto.
        -- assert (Hne : drv g c <> src) by congruence.
           rewrite (connect_cons g c src E Vs Hne b).
           destruct (onport_eq_dec src (Some b)); [congruence|].
           destruct (onport_eq_dec (drv g c) (Some b)); [|congruence].
           assert (L : S (length (swap_remove nport_eq_dec c (cons g b))) = length (cons g b)).
           { apply length_swap_remove. rewrite C. simpl; auto. }
           rewrite C in L at 2. simpl in Hl, L. lia.
        -- rewrite connect_drv; auto. destruct (nport_eq_dec x c); congruence.
Qed.

Lemma bypass_src_valid : forall g n i, consistent nport_eq_dec (drv g) (cons g) -> osrcb g (drv g (n, i)) = true.
Proof.
  intros. destruct (drv g (n, i)) as [s|] eqn:D; simpl; auto.
  apply (In_cons_valid g s (n, i)). apply drv_Some_cons; auto.
Qed.

Lemma bypass_InvS : forall g n o i, InvS g -> InvS (bypassOutputToInput g n o i).
Proof.
  intros g n o i I. unfold bypassOutputToInput. apply (InvS_eframe g); auto.
  - apply eframe_bypass_loop.
  - apply bypass_loop_consistent; [apply I | apply bypass_src_valid; apply I].
Qed.

Lemma bypass_types_except : forall g n o i T,
  consistent nport_eq_dec (drv g) (cons g) -> drv g (n, i) <> Some (n, o) ->
  incl (map fst (cons g (n, o))) T ->
  types_ok_except T g -> types_ok_except T (bypassOutputToInput g n o i).
Proof.
  intros g n o i T E Hs HT H. unfold bypassOutputToInput.
  pose proof (eframe_bypass_loop (length (cons g (n, o))) g (n, o) (drv g (n, i))) as F.
  apply (types_frame_except g _ T); auto.
  intros m Hm. destruct F as ((Fo & Fr) & _). right. repeat split; auto.
  intros j. right. unfold tin_at. rewrite bypass_loop_drv_other; auto.
  - destruct (drv g (m, j)); auto.
  - apply bypass_src_valid; auto.
  - intros D. apply Hm. apply HT. change m with (fst (m, j)). apply in_map. apply drv_Some_cons; auto.
Qed.

Theorem bypass_preserves_Inv : forall g n o i,
  Inv g -> drv g (n, i) <> Some (n, o) ->
  forallb (node_ok_at (bypassOutputToInput g n o i)) (map fst (cons g (n, o))) = true ->
  Inv (bypassOutputToInput g n o i).
Proof.
  intros g n o i I Hs HT. apply Inv_split in I. destruct I as [IS IT]. apply Inv_split. split.
  - apply bypass_InvS; auto.
  - apply (types_except_finish (map fst (cons g (n, o)))); auto.
    apply bypass_types_except; auto; [apply IS | apply incl_refl | apply types_except_of_ok; auto].
Qed.

(* bypassing a node whose bypassed input has the type of the bypassed output (every forwarding node:
   signal, attribute, no-op rewire, ...) keeps every consumer's requirement: no obligation left *)
Lemma bypass_same_type_ok : forall g n o i,
  Inv g -> drv g (n, i) <> Some (n, o) ->
  (drv g (n, i) = None \/ exists s, drv g (n, i) = Some s /\ otype g s = otype g (n, o)) ->
  forallb (node_ok_at (bypassOutputToInput g n o i)) (map fst (cons g (n, o))) = true.
Proof.
  intros g n o i I Hs HT. unfold bypassOutputToInput in *.
  assert (E : consistent nport_eq_dec (drv g) (cons g)) by apply I.
  assert (Vs : osrcb g (drv g (n, i)) = true).
  { destruct (drv g (n, i)) as [s|] eqn:D; simpl; auto.
    apply (In_cons_valid g s (n, i)). apply disconnect_In; auto. }
  remember (drv g (n, i)) as src. remember (n, o) as b.
  pose proof (eframe_bypass_loop (length (cons g b)) g b src) as F.
  destruct F as ((Fo & Fr) & _).
  apply forallb_forall. intros m _.
  apply (node_ok_at_mono g); auto; [|apply types_ok_at; apply I].
  intros j. unfold tin_at.
  destruct (onport_eq_dec (drv g (m, j)) (Some b)) as [D|D].
  - rewrite (bypass_loop_drv_moved _ g b src (m, j)); auto.
    rewrite D. destruct HT as [HT|(s & HT & T)]; rewrite HT in *; auto.
    right. rewrite Fo. auto.
  - rewrite bypass_loop_drv_other; auto. right. destruct (drv g (m, j)); auto.
Qed.
