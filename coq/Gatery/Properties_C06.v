(* C06 — Register retiming keeps function and balances latency exactly.

   Part 1 (proof shape S2, DESIGN.md section 10.2): the verified certificate checker, run on
     REF    : the design without hints, every balance-group input delayed by N explicit registers
              (reset value and stall condition of the group, N = the stage count gatery reports)
     HINTED : the design with hints after the real DefaultPostprocessing / retiming calls.
   If the checker accepts, then for ALL stimulus sequences of the pins' widths and ALL cycles the
   output pins are identical (strict), resp. never contradict and are identical while the first
   design's run has been free of undefined values (refine; checks/C06.py uses it in both
   directions when strict is not accepted).  "From the cycle the pipeline has filled" is
   certified on designs that both carry the warm-up mask of part 3.

   Part 2: stream-level retiming steps (RetimeDefs.v, RetimeProofs.v), for ALL combinational
   functions f, value types, enable / data streams and cycles: forward step, backward step (with
   reset pre-image, and with gatery's delayed-reset override), negative-register annihilation,
   delay balance, and the fill-cycle theorems for feed-forward registers.

   Part 3: the warm-up mask is exactly "equal from the K-th enabled cycle on".

   Not proved here (DESIGN.md C06 "balanced_pipeline" / depth_ok): a structural checker that
   derives the equivalence of a whole netlist pair from these steps; its role is taken by the
   per-design certificate of part 1. *)
From Coq Require Import List Bool Arith.
From Gatery Require Import Bits NodeSemDefs NodeSemReg NetDefs ProductCert RetimeDefs RetimeProofs.
Import ListNotations.

(* ============================== part 1: certificates ============================== *)

Theorem C06_cert_strict_sound : forall (ref hinted : netlist) (sc : schedule) (ws : list nat) (sigma : nat -> list bv),
  (forall t, ins_wf ws (sigma t)) ->
  forall layers, check_cert MStrict ref hinted sc ws layers = true ->
  forall t, out_at hinted sc sigma t = out_at ref sc sigma t.
Proof. intros nl1 nl2 sc ws sigma Hs layers H. exact (cert_sound_strict MStrict nl1 nl2 sc ws sigma Hs layers eq_refl H). Qed.
Print Assumptions C06_cert_strict_sound.

Theorem C06_cert_refine_sound : forall (a b : netlist) (sc : schedule) (ws : list nat) (sigma : nat -> list bv),
  (forall t, ins_wf ws (sigma t)) ->
  forall layers, check_cert MRefine a b sc ws layers = true ->
  forall t, Forall2 bv_compat (out_at a sc sigma t) (out_at b sc sigma t) /\
            (clean_upto a sc sigma t = true -> out_at b sc sigma t = out_at a sc sigma t).
Proof. intros nl1 nl2 sc ws sigma Hs layers H. exact (cert_sound MRefine nl1 nl2 sc ws sigma Hs layers eq_refl H). Qed.
Print Assumptions C06_cert_refine_sound.

(* non-vacuity: REF  out = NOT (reg(a))  (one explicit input register, reset value 1)
                HINT out = reg(NOT a)    (register moved forward, reset value NOT 1 = 0);  accepted strictly *)
Definition rcfg (rv : bv) : reg_cfg := mk_reg_cfg 1 (Some rv) RST_SYNC true.
Definition exRef : netlist :=
  [ mk_node (NPinIn 1 0) [];
    mk_node (NReg (rcfg [B1]) 0) [Some (0, 0); None; None];
    mk_node (NComb (KLogic L_NOT 1)) [Some (1, 0)];
    mk_node (NPinOut 1) [Some (2, 0)] ].
Definition exHint : netlist :=
  [ mk_node (NPinIn 1 0) [];
    mk_node (NReg (rcfg [B0]) 0) [Some (2, 0); None; None];
    mk_node (NComb (KLogic L_NOT 1)) [Some (0, 0)];
    mk_node (NPinOut 1) [Some (1, 0)] ].
Definition ex_sched : schedule := mk_sched [[EvReset true]; [EvEdge; EvReset false]] [EvEdge].
Definition ex_ps (a b : tbit) (r c : bool) : pstate := mk_pstate [mk_rstate [a] r] [mk_rstate [b] r] c.
Definition ex_layers : list (list pstate) :=
  [ [ex_ps B1 B0 true true];
    [ex_ps B1 B0 false true; ex_ps B1 B0 false false];
    [ex_ps B1 B0 false true; ex_ps B1 B0 false false; ex_ps B0 B1 false true; ex_ps B0 B1 false false;
     ex_ps BX BX false false] ].
Example ex_strict_accepted : check_cert MStrict exRef exHint ex_sched [1] ex_layers = true.
Proof. vm_compute. reflexivity. Qed.

(* ============================== part 2: retiming steps ============================== *)

(* the stream register is the register of the circuit model (NodeSemReg.reg_advance after reg_latch) *)
Theorem C06_reg_step_matches_node_model : forall (c : reg_cfg) (d : bv) (e : tbit) (s : reg_state),
  rs_in_reset s = false ->
  rs_out (reg_advance c (reg_latch c (Some d) (Some [e]) s)) =
  reg_step (all_X (rc_width c)) e (bv_resize (rc_width c) (bv_resize (rc_width c) d)) (rs_out s).
Proof. exact reg_step_matches_node_model_proof. Qed.
Print Assumptions C06_reg_step_matches_node_model.

(* a bank of registers with one common enable is one register on the tuple of their values, so
   "registers on ALL inputs of f" is a single register on f's argument *)
Theorem C06_regs_bank : forall (V : Type) (l : list (V * V * stream V)) (e : stream tbit) (t : nat),
  regs (map (fun p => fst (fst p)) l) (map (fun p => snd (fst p)) l) e (fun k => map (fun p => snd p k) l) t
  = map (fun p => regs (fst (fst p)) (snd (fst p)) e (snd p) t) l.
Proof. exact @regs_bank_proof. Qed.
Print Assumptions C06_regs_bank.

(* forward_retime_step: moving the registers (common enable e, reset values r) from all inputs of a
   combinational function f to its output, with reset value f(r), preserves the output stream in
   every cycle t — including t = 0, the cycle directly after reset — as long as the enable has
   been defined *)
Theorem forward_retime_step : forall (I O : Type) (f : I -> O) (xi : I) (xo : O) (r : I)
    (e : stream tbit) (d : stream I) (t : nat),
  defined_upto e t ->
  f (regs xi r e d t) = regs xo (f r) e (fun k => f (d k)) t.
Proof. exact @forward_retime_step_proof. Qed.
Print Assumptions forward_retime_step.

Example forward_retime_step_ex :
  let e : stream tbit := fun t => if Nat.even t then B1 else B0 in
  defined_upto e 5 /\ regs 0 7 e (fun t => t) 5 = 4 /\ S (regs 0 7 e (fun t => t) 5) = regs 0 (S 7) e (fun t => S t) 5.
Proof. repeat split; try reflexivity. intros k Hk. simpl. destruct (Nat.even k); discriminate. Qed.

(* for ARBITRARY (also undefined) enables on bit vectors: never a contradiction — the moved
   register shows the original value or nothing *)
Theorem forward_retime_step_compat : forall (I : Type) (f : I -> bv) (w : nat) (xi r : I)
    (e : stream tbit) (d : stream I),
  (forall x, length (f x) = w) ->
  forall t, bv_compat (f (regs xi r e d t)) (regs (all_X w) (f r) e (fun k => f (d k)) t).
Proof. exact @forward_retime_step_compat_proof. Qed.
Print Assumptions forward_retime_step_compat.

(* backward_retime_step: moving a register from the output of f to all its inputs; needs input reset
   values ri whose image is the output register's reset value ... *)
Theorem backward_retime_step : forall (I O : Type) (f : I -> O) (xi : I) (xo : O) (ri : I) (ro : O)
    (e : stream tbit) (d : stream I) (t : nat),
  f ri = ro -> defined_upto e t ->
  regs xo ro e (fun k => f (d k)) t = f (regs xi ri e d t).
Proof. exact @backward_retime_step_proof. Qed.
Print Assumptions backward_retime_step.

(* ... or, for ANY input reset values, gatery's override of the output by the original reset value
   until the first enabled clock edge (delayed-reset register + multiplexer) *)
Theorem backward_retime_step_fix : forall (I O : Type) (f : I -> O) (xi : I) (xo : O) (ri : I) (ro : O)
    (e : stream tbit) (d : stream I) (t : nat),
  defined_upto e t ->
  reset_fix xo (delayed_reset e t) ro (f (regs xi ri e d t)) = regs xo ro e (fun k => f (d k)) t.
Proof. exact @backward_retime_step_fix_proof. Qed.
Print Assumptions backward_retime_step_fix.

Example backward_retime_step_fix_ex :
  let e : stream tbit := fun t => if t =? 0 then B0 else B1 in
  map (fun t => reset_fix 0 (delayed_reset e t) 9 (S (regs 0 0 e (fun k => 10 * k) t))) [0; 1; 2; 3] = [9; 9; 11; 21]
  /\ map (regs 0 9 e (fun k => S (10 * k))) [0; 1; 2; 3] = [9; 9; 11; 21].
Proof. split; reflexivity. Qed.

(* neg_reg_annihilate: negreg o reg = id — the data input of a register IS a negative-register
   output of that register (same enable) ... *)
Theorem neg_reg_annihilate : forall (V : Type) (xv r : V) (e : stream tbit) (d : stream V),
  is_negreg e (regs xv r e d) d.
Proof. exact @neg_reg_annihilate_proof. Qed.
Print Assumptions neg_reg_annihilate.

(* ... and reg o negreg = id: behind any negative register of a register-like signal s, the partner
   register with the SAME enable and reset value s(0) shows s in every cycle (no definedness
   condition on the enable) *)
Theorem neg_reg_partner_is_wire : forall (V : Type) (xv : V) (e : stream tbit) (s n : stream V),
  reg_like xv e s -> is_negreg e s n -> forall t, regs xv (s 0) e n t = s t.
Proof. exact @neg_reg_partner_wire_proof. Qed.
Print Assumptions neg_reg_partner_is_wire.

Theorem neg_reg_hypotheses_satisfiable : forall (V : Type) (xv r : V) (e : stream tbit) (d : stream V),
  reg_like xv e (regs xv r e d).
Proof. exact @regs_reg_like. Qed.
Print Assumptions neg_reg_hypotheses_satisfiable.

(* equal enables are necessary *)
Theorem neg_reg_unequal_enable_refuted :
  exists (e e' : stream tbit) (d : stream bool) (r : bool),
    is_negreg e (regs false r e d) d /\ exists t, regs false r e' d t <> regs false r e d t.
Proof. exact neg_reg_unequal_enable_refuted_proof. Qed.
Print Assumptions neg_reg_unequal_enable_refuted.

(* delay_balance: delaying ALL inputs of a combinational function by N = length rs registers equals
   delaying its output by N registers whose reset values are the images of the input reset values *)
Theorem delay_balance : forall (I O : Type) (f : I -> O) (xi : I) (xo : O) (rs : list I)
    (e : stream tbit) (d : stream I) (t : nat),
  defined_upto e t ->
  f (delay xi rs e d t) = delay xo (map f rs) e (fun k => f (d k)) t.
Proof. exact @delay_balance_proof. Qed.
Print Assumptions delay_balance.

(* what N balanced stages mean when the pipeline never stalls: the reset values while it fills,
   then exactly the inputs of N cycles ago — the same N for every component of the input tuple *)
Theorem delay_always_enabled : forall (V : Type) (xv : V) (rs : list V) (e : stream tbit) (d : stream V),
  (forall t, e t = B1) ->
  forall t, (t < length rs -> delay xv rs e d t = nth t rs xv) /\
            (length rs <= t -> delay xv rs e d t = d (t - length rs)).
Proof. exact @delay_always_enabled_both_proof. Qed.
Print Assumptions delay_always_enabled.

(* one input with a register less: the operation combines values of different cycles *)
Theorem unbalanced_delay_refuted :
  exists (f : nat * nat -> nat) (e : stream tbit) (d : stream nat),
    (forall t, e t = B1) /\
    exists t, f (delay 0 [0; 0] e d t, delay 0 [0] e d t) <> f (delay 0 [0; 0] e d t, delay 0 [0; 0] e d t).
Proof. exact unbalanced_delay_refuted_proof. Qed.
Print Assumptions unbalanced_delay_refuted.

(* "from the cycle the pipeline has filled": pipelines of equal depth on the same stream agree once
   as many enabled cycles have passed as they have stages, whatever their reset values ... *)
Theorem delay_reset_forgotten : forall (V : Type) (xv : V) (rs1 rs2 : list V) (e : stream tbit) (d : stream V),
  length rs1 = length rs2 ->
  forall t, length rs1 <= enabled_before e t -> delay xv rs1 e d t = delay xv rs2 e d t.
Proof. exact @delay_reset_forgotten_proof. Qed.
Print Assumptions delay_reset_forgotten.

(* ... hence retiming OVER a feed-forward (anchored) register a = reg(g(x)):
     reference : out = f (X, reg_ra (g X)),   X = group input behind one explicit register (reset r)
     retimed   : out = reg_ro (f (d, reg_ra (g d)))   (gatery's result, any reset value ro)
   agree in every cycle from the second enabled cycle on (N = 1 stage + register depth 1) *)
Theorem retime_over_anchored_register : forall (I A O : Type) (f : I -> A -> O) (g : I -> A)
    (xi r : I) (xa ra : A) (xo ro : O) (e : stream tbit) (d : stream I) (t : nat),
  defined_upto e t -> 2 <= enabled_before e t ->
  regs xo ro e (fun k => f (d k) (regs xa ra e (fun j => g (d j)) k)) t
  = f (regs xi r e d t) (regs xa ra e (fun k => g (regs xi r e d k)) t).
Proof. exact @retime_over_anchored_register_proof. Qed.
Print Assumptions retime_over_anchored_register.

Example retime_over_anchored_register_ex :
  let e : stream tbit := fun _ => B1 in
  let d : stream nat := fun t => 10 + t in
  (* reference and retimed differ in the fill cycle 1 (reset values 1 vs 2 of the two registers) and agree from cycle 2 *)
  map (fun t => regs 0 (1 + 2) e (fun k => d k + regs 0 2 e d k) t) [0; 1; 2; 3] = [3; 12; 21; 23] /\
  map (fun t => regs 0 1 e d t + regs 0 2 e (regs 0 1 e d) t) [0; 1; 2; 3] = [3; 11; 21; 23].
Proof. split; reflexivity. Qed.

(* ============================== part 3: warm-up mask ============================== *)

(* the saturating counter built by the harness into BOTH designs: filled <-> K enabled cycles passed *)
Theorem warm_filled_spec : forall (K : nat) (e : stream bool) (t : nat),
  warm_filled K e t = true <-> K <= true_before e t.
Proof. exact warm_filled_spec_proof. Qed.
Print Assumptions warm_filled_spec.

(* certifying the masked outputs equal in every cycle = the outputs are equal in every cycle from
   the K-th enabled cycle on (and nothing is claimed before) *)
Theorem warm_mask_sound : forall (V : Type) (zero : V) (K : nat) (e : stream bool) (a b : stream V),
  (forall t, warm_mask zero K e a t = warm_mask zero K e b t) <->
  (forall t, K <= true_before e t -> a t = b t).
Proof. exact @warm_mask_sound_proof. Qed.
Print Assumptions warm_mask_sound.

(* ------------------------------------------------------------------ *)
(* pipelined regions that contain a MEMORY (retiming through memory ports): the same two certificate
   theorems over netlists with memories (NetMemDefs.v) and the machine-generic checker (MachineCert.v);
   ma / mb are the power-on contents of the memories of the reference and of the hinted circuit *)
From Gatery Require Import MemDefs MachineCert NetMemDefs.

Theorem C06_mem_cert_strict_sound :
  forall (ref hinted : mnetlist) (ma mb : list memory) (sc : schedule) (ws : list nat) (sigma : nat -> list bv),
  (forall t, ins_wf ws (sigma t)) ->
  forall layers, gcheck_cert MStrict (machine_of ref ma) (machine_of hinted mb) sc ws layers = true ->
  forall t, mout_at sc sigma (machine_of hinted mb) t = mout_at sc sigma (machine_of ref ma) t.
Proof.
  intros a b ma mb sc ws sigma Hs layers H.
  exact (gcert_sound_strict MStrict (machine_of a ma) (machine_of b mb) sc ws sigma Hs layers eq_refl H).
Qed.
Print Assumptions C06_mem_cert_strict_sound.

Theorem C06_mem_cert_refine_sound :
  forall (a b : mnetlist) (ma mb : list memory) (sc : schedule) (ws : list nat) (sigma : nat -> list bv),
  (forall t, ins_wf ws (sigma t)) ->
  forall layers, gcheck_cert MRefine (machine_of a ma) (machine_of b mb) sc ws layers = true ->
  forall t, Forall2 bv_compat (mout_at sc sigma (machine_of a ma) t) (mout_at sc sigma (machine_of b mb) t) /\
            (gclean_upto (machine_of a ma) sc sigma t = true ->
             mout_at sc sigma (machine_of b mb) t = mout_at sc sigma (machine_of a ma) t).
Proof.
  intros a b ma mb sc ws sigma Hs layers H.
  exact (gcert_sound MRefine (machine_of a ma) (machine_of b mb) sc ws sigma Hs layers eq_refl H).
Qed.
Print Assumptions C06_mem_cert_refine_sound.
