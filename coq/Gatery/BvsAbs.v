(* C18 -- proofs, part 4: the abstraction function, the representation invariant and
   the generic lemmas that turn a [wbit] characterisation into  abs (op s) = op_spec (abs s). *)
From Coq Require Import List NArith ZArith Bool Lia.
From Gatery Require Import BvsDefs BvsSpec BvsLeaf BvsWords BvsCopy.
Import ListNotations.
Ltac Zify.zify_post_hook ::= Z.to_euclidean_division_equations.
Local Open Scope N_scope.

(* representation invariant: what the C++ guarantees after resize and maintains afterwards *)
Definition wfP (sz : N) (w : list N) : Prop := wlen w = (sz + 63) / 64 /\ wordsok w.
Definition wf (s : bvs) : Prop := Forall (wfP (bsize s)) (planes s).
(* bits at or above size are zero (established by resize, kept by every operation);
   needed only to say that resize-growth exposes zeros *)
Definition cleanP (sz : N) (w : list N) : Prop := forall i, sz <= i -> wbit w i = false.
Definition clean (s : bvs) : Prop := Forall (cleanP (bsize s)) (planes s).

(* ---- lists ---- *)
Lemma length_absP sz w : length (absP sz w) = N.to_nat sz.
Proof. unfold absP. rewrite map_length, seq_length. reflexivity. Qed.

Lemma nth_absP sz w i :
  nth i (absP sz w) false = Nat.ltb i (N.to_nat sz) && wbit w (N.of_nat i).
Proof.
  unfold absP. destruct (Nat.ltb_spec i (N.to_nat sz)).
  - rewrite (nth_indep _ false (wbit w (N.of_nat 0))) by (rewrite map_length, seq_length; lia).
    rewrite (map_nth (fun i => wbit w (N.of_nat i))), seq_nth by lia. reflexivity.
  - apply nth_overflow. rewrite map_length, seq_length. lia.
Qed.

Lemma nth_absP_N sz w i : i < sz -> nth (N.to_nat i) (absP sz w) false = wbit w i.
Proof.
  intro H. rewrite nth_absP, N2Nat.id. destruct (Nat.ltb_spec (N.to_nat i) (N.to_nat sz)); [reflexivity | lia].
Qed.

Lemma list_bool_ext (a b : list bool) :
  length a = length b -> (forall i, (i < length a)%nat -> nth i a false = nth i b false) -> a = b.
Proof. intros Hl H. apply (nth_ext a b false false Hl H). Qed.

Lemma absP_eq sz w l :
  length l = N.to_nat sz -> (forall i, i < sz -> nth (N.to_nat i) l false = wbit w i) -> absP sz w = l.
Proof.
  intros Hl H. apply list_bool_ext.
  - rewrite length_absP. symmetry. exact Hl.
  - intros i Hi. rewrite length_absP in Hi. rewrite nth_absP.
    destruct (Nat.ltb_spec i (N.to_nat sz)); [|lia]. bsimpl.
    rewrite <- H by lia. rewrite Nat2N.id. reflexivity.
Qed.

Lemma absP_ext sz w w' : (forall i, i < sz -> wbit w' i = wbit w i) -> absP sz w' = absP sz w.
Proof.
  intro H. apply absP_eq; [apply length_absP|]. intros i Hi. rewrite nth_absP_N by exact Hi.
  symmetry. apply H. exact Hi.
Qed.

Lemma length_splice off new l :
  (off + length new <= length l)%nat -> length (splice off new l) = length l.
Proof.
  intro H. unfold splice. rewrite !app_length, firstn_length, skipn_length. lia.
Qed.

Lemma nth_splice off new l i d :
  (off <= length l)%nat ->
  nth i (splice off new l) d
  = if Nat.ltb i off then nth i l d
    else if Nat.ltb i (off + length new) then nth (i - off) new d else nth i l d.
Proof.
  intro H. unfold splice.
  destruct (Nat.ltb_spec i off).
  - rewrite app_nth1 by (rewrite firstn_length; lia).
    rewrite <- (firstn_skipn off l) at 2. rewrite app_nth1 by (rewrite firstn_length; lia). reflexivity.
  - rewrite app_nth2 by (rewrite firstn_length; lia). rewrite firstn_length.
    replace (Nat.min off (length l)) with off by lia.
    destruct (Nat.ltb_spec i (off + length new)).
    + rewrite app_nth1 by lia. reflexivity.
    + rewrite app_nth2 by lia.
      rewrite <- (firstn_skipn (off + length new) l) at 2.
      destruct (Nat.le_gt_cases (off + length new) (length l)).
      * rewrite (app_nth2 (firstn _ _)) by (rewrite firstn_length; lia).
        rewrite firstn_length. f_equal. lia.
      * rewrite skipn_all2 by lia. rewrite app_nil_r.
        rewrite firstn_all2 by lia. rewrite (nth_overflow l) by lia.
        destruct (i - off - length new)%nat; reflexivity.
Qed.

Lemma nth_skipn_add {A} off (l : list A) i d : nth i (skipn off l) d = nth (off + i) l d.
Proof.
  revert l; induction off as [|off IH]; intros l; [reflexivity|].
  destruct l as [|x l]; simpl; [destruct i; reflexivity | apply IH].
Qed.

Lemma nth_firstn_if {A} n (l : list A) i d :
  nth i (firstn n l) d = if Nat.ltb i n then nth i l d else d.
Proof.
  revert l i; induction n as [|n IH]; intros l i.
  - simpl. destruct i; reflexivity.
  - destruct l as [|x l].
    + simpl. destruct (Nat.ltb i (S n)); destruct i; reflexivity.
    + destruct i as [|i]; [reflexivity|]. simpl firstn. simpl nth. rewrite IH. reflexivity.
Qed.

Lemma nth_slice off len (l : list bool) i :
  nth i (slice off len l) false = Nat.ltb i len && nth (off + i) l false.
Proof.
  unfold slice. rewrite nth_firstn_if, nth_skipn_add. destruct (Nat.ltb i len); reflexivity.
Qed.

Lemma length_slice off len (l : list bool) :
  (off + len <= length l)%nat -> length (slice off len l) = len.
Proof. intro H. unfold slice. rewrite firstn_length, skipn_length. lia. Qed.

Lemma length_slice_le off len (l : list bool) : (length (slice off len l) <= len)%nat.
Proof. unfold slice. rewrite firstn_length. lia. Qed.

(* the work-horse: a [wbit] characterisation gives a [splice] equation *)
Lemma absP_splice sz w w' off new :
  off + N.of_nat (length new) <= sz ->
  (forall i, i < sz ->
     wbit w' i = if (off <=? i) && (i <? off + N.of_nat (length new))
                 then nth (N.to_nat (i - off)) new false else wbit w i) ->
  absP sz w' = splice (N.to_nat off) new (absP sz w).
Proof.
  intros Hin H. apply absP_eq.
  - rewrite length_splice; rewrite length_absP; lia.
  - intros i Hi. rewrite nth_splice by (rewrite length_absP; lia).
    rewrite H by exact Hi.
    destruct (Nat.ltb_spec (N.to_nat i) (N.to_nat off)).
    + destruct (N.leb_spec off i); [lia|]. bsimpl. apply nth_absP_N. exact Hi.
    + destruct (N.leb_spec off i); [|lia]. bsimpl.
      destruct (Nat.ltb_spec (N.to_nat i) (N.to_nat off + length new)),
               (N.ltb_spec i (off + N.of_nat (length new))); try lia.
      * f_equal. lia.
      * apply nth_absP_N. exact Hi.
Qed.

(* a slice of the abstraction, read through wbit *)
Lemma nth_slice_absP sz w off len j :
  off + len <= sz ->
  nth (N.to_nat j) (slice (N.to_nat off) (N.to_nat len) (absP sz w)) false
  = (j <? len) && wbit w (off + j).
Proof.
  intro H. rewrite nth_slice.
  destruct (Nat.ltb_spec (N.to_nat j) (N.to_nat len)), (N.ltb_spec j len); try lia; bsimpl; try reflexivity.
  replace (N.to_nat off + N.to_nat j)%nat with (N.to_nat (off + j)) by lia.
  apply nth_absP_N. lia.
Qed.

(* ---- planes ---- *)
Lemma map_upd_nat {A B} (h : A -> B) l k v : map h (upd_nat l k v) = upd_nat (map h l) k (h v).
Proof. revert k; induction l as [|x t IH]; intros [|k]; simpl; auto. rewrite IH. reflexivity. Qed.

Lemma Forall_upd_nat {A} (P : A -> Prop) l k v : Forall P l -> P v -> Forall P (upd_nat l k v).
Proof.
  intros H Hv. revert k. induction H as [|h t Hh Ht IH]; intros [|k]; simpl; constructor; auto.
Qed.

Lemma splane_abs s p :
  (p < length (planes s))%nat -> splane (abs s) p = absP (bsize s) (plane s p).
Proof.
  intro H. unfold splane, abs, plane.
  rewrite (nth_indep _ [] (absP (bsize s) [])) by (rewrite map_length; exact H).
  apply map_nth.
Qed.

Lemma wfP_plane s p : wf s -> (p < length (planes s))%nat -> wfP (bsize s) (plane s p).
Proof.
  intros H Hp. unfold wf in H. eapply Forall_forall; [exact H|]. apply nth_In. exact Hp.
Qed.

Lemma abs_on_plane s p f g :
  ((p < length (planes s))%nat ->
   absP (bsize s) (f (plane s p)) = g (absP (bsize s) (plane s p))) ->
  abs (on_plane s p f) = on_splane (abs s) p g.
Proof.
  intro H. unfold on_plane, on_splane, abs. cbn [bsize planes].
  destruct (Nat.lt_ge_cases p (length (planes s))) as [Hp | Hp].
  - rewrite map_upd_nat. f_equal. rewrite (H Hp). f_equal. symmetry. apply splane_abs. exact Hp.
  - rewrite !upd_nat_beyond; try (rewrite map_length); auto.
Qed.

Lemma wf_on_plane s p f :
  wf s -> (wfP (bsize s) (plane s p) -> wfP (bsize s) (f (plane s p))) -> wf (on_plane s p f).
Proof.
  intros H Hf. unfold wf, on_plane. cbn [bsize planes].
  destruct (Nat.lt_ge_cases p (length (planes s))) as [Hp | Hp].
  - apply Forall_upd_nat; [exact H|]. apply Hf. apply wfP_plane; assumption.
  - rewrite upd_nat_beyond by exact Hp. exact H.
Qed.

Lemma bsize_on_plane s p f : bsize (on_plane s p f) = bsize s.
Proof. reflexivity. Qed.

Lemma wfP_in sz w : wfP sz w -> sz <= 64 * wlen w.
Proof. intros [H _]. rewrite H. lia. Qed.

(* map2 *)
Lemma map2_map {A B A' B' C} (f : A' -> B' -> C) (g : A -> A') (h : B -> B') a b :
  map2 f (map g a) (map h b) = map2 (fun x y => f (g x) (h y)) a b.
Proof.
  unfold map2. revert b. induction a as [|x a IH]; intros [|y b]; simpl; auto. rewrite IH. reflexivity.
Qed.

Lemma map_map2 {A B C D} (k : C -> D) (f : A -> B -> C) a b :
  map k (map2 f a b) = map2 (fun x y => k (f x y)) a b.
Proof. unfold map2. rewrite map_map. reflexivity. Qed.

Lemma map2_ext_Forall {A B C} (P : A -> Prop) (Q : B -> Prop) (f g : A -> B -> C) a b :
  Forall P a -> Forall Q b -> (forall x y, P x -> Q y -> f x y = g x y) -> map2 f a b = map2 g a b.
Proof.
  intros Ha Hb H. unfold map2. revert b Hb. induction Ha as [|x a Hx Ha IH]; intros b Hb; [reflexivity|].
  destruct Hb as [|y b Hy Hb]; [reflexivity|]. simpl. rewrite H by assumption. rewrite IH by assumption.
  reflexivity.
Qed.

Lemma Forall_map2 {A B C} (P : A -> Prop) (Q : B -> Prop) (R : C -> Prop) (f : A -> B -> C) a b :
  Forall P a -> Forall Q b -> (forall x y, P x -> Q y -> R (f x y)) -> Forall R (map2 f a b).
Proof.
  intros Ha Hb H. unfold map2. revert b Hb. induction Ha as [|x a Hx Ha IH]; intros b Hb; [constructor|].
  destruct Hb as [|y b Hy Hb]; [constructor|]. simpl. constructor; [apply H; assumption | apply IH; assumption].
Qed.

Lemma length_map2 {A B C} (f : A -> B -> C) a b : length (map2 f a b) = Nat.min (length a) (length b).
Proof. unfold map2. rewrite map_length, combine_length. reflexivity. Qed.

Lemma map2_repeat_l {A B C} (f : A -> B -> C) x l :
  map2 f (repeat x (length l)) l = map (f x) l.
Proof. unfold map2. induction l as [|y l IH]; simpl; [reflexivity|]. rewrite IH. reflexivity. Qed.
