(* C12 -- the transcribed worklist of inferClockDomains reaches a map that satisfies the fixpoint
   characterisation [domains_ok], for EVERY processing order (any permutation of the initial list
   of outputs, any choice of the element popped from the retry set), within [fuel_bound]. *)
From Coq Require Import List NArith PArith Bool Arith Lia FMapPositive Permutation.
From Gatery Require Import CdcDefs CdcCheck CdcSound.
Import ListNotations.

(* ------------------------------------------------------------------ *)
(* port maps                                                            *)

Lemma succ_pos_inj : forall a b, N.succ_pos a = N.succ_pos b -> a = b.
Proof.
  intros a b H. apply N.succ_inj. rewrite <- !N.succ_pos_spec. f_equal. exact H.
Qed.

Lemma pm_get_empty : forall A p, @pm_get A pm_empty p = None.
Proof. intros. unfold pm_get, pm_empty. rewrite PositiveMap.gempty. reflexivity. Qed.

Lemma pm_gss : forall A (m : pmap A) p x, pm_get (pm_set m p x) p = Some x.
Proof. intros. unfold pm_get, pm_set. rewrite PositiveMap.gss. apply PositiveMap.gss. Qed.

Lemma pm_gso : forall A (m : pmap A) p q x, p <> q -> pm_get (pm_set m p x) q = pm_get m q.
Proof.
  intros A m [p1 p2] [q1 q2] x Hne. unfold pm_get, pm_set. simpl.
  destruct (Pos.eq_dec (N.succ_pos q1) (N.succ_pos p1)) as [e|e].
  - rewrite e, PositiveMap.gss.
    assert (N.succ_pos q2 <> N.succ_pos p2).
    { intro H. apply succ_pos_inj in e. apply succ_pos_inj in H. subst. congruence. }
    rewrite PositiveMap.gso by assumption.
    destruct (PositiveMap.find (N.succ_pos p1) m); auto. apply PositiveMap.gempty.
  - rewrite PositiveMap.gso by assumption. reflexivity.
Qed.

Lemma pm_list_empty : forall A p, @pm_list A pm_empty p = [].
Proof. intros. unfold pm_list. rewrite pm_get_empty. reflexivity. Qed.

Lemma pm_list_gss : forall A (m : pmap (list A)) p l, pm_list (pm_set m p l) p = l.
Proof. intros. unfold pm_list. rewrite pm_gss. reflexivity. Qed.

Lemma pm_list_gso : forall A (m : pmap (list A)) p q l, p <> q -> pm_list (pm_set m p l) q = pm_list m q.
Proof. intros. unfold pm_list. rewrite pm_gso by assumption. reflexivity. Qed.

(* ------------------------------------------------------------------ *)
(* the retry set                                                        *)

Lemma in_set_insert : forall d l r, In r (set_insert d l) <-> r = d \/ In r l.
Proof.
  intros. unfold set_insert. destruct (existsb (port_eqb d) l) eqn:E.
  - split; auto. intros [->|H]; auto. apply existsb_exists in E. destruct E as (y & Hy & Ey).
    apply port_eqb_eq in Ey. subst. exact Hy.
  - rewrite in_app_iff. simpl. split; [intros [H|[H|[]]]; auto | intros [H|H]; auto].
Qed.

Lemma nodup_snoc : forall (l : list port) d, NoDup l -> ~ In d l -> NoDup (l ++ [d]).
Proof.
  induction l as [|y l IH]; intros d Hn Hd; simpl.
  - constructor; [intros [] | constructor].
  - inversion Hn; subst. constructor.
    + intro H. apply in_app_or in H. destruct H as [H|[H|[]]]; [apply H1; exact H|]. subst. apply Hd. left; reflexivity.
    + apply IH; auto. intro H. apply Hd. right; exact H.
Qed.

Lemma nodup_set_insert : forall d l, NoDup l -> NoDup (set_insert d l).
Proof.
  intros. unfold set_insert. destruct (existsb (port_eqb d) l) eqn:E; auto.
  apply nodup_snoc; auto. intro Hin.
  assert (existsb (port_eqb d) l = true); [|congruence].
  apply existsb_exists. exists d. split; auto. apply port_eqb_eq. reflexivity.
Qed.

Lemma in_fold_insert : forall ds l r,
  In r (fold_left (fun acc d => set_insert d acc) ds l) <-> In r ds \/ In r l.
Proof.
  induction ds as [|d ds IH]; intros l r; simpl.
  - split; [auto | intros [[]|H]; auto].
  - rewrite IH, in_set_insert. split; [intros [H|[H|H]]; auto | intros [[H|H]|H]; auto].
Qed.

Lemma nodup_fold_insert : forall ds l, NoDup l -> NoDup (fold_left (fun acc d => set_insert d acc) ds l).
Proof. induction ds; intros; simpl; auto using nodup_set_insert. Qed.

Lemma nth_in_remove : forall (l : list port) k d x,
  k < length l -> In x l -> x = nth k l d \/ In x (remove_nth k l).
Proof.
  induction l as [|y l IH]; intros k d x Hk Hx; [contradiction|].
  destruct k; simpl in *.
  - destruct Hx; auto.
  - destruct Hx as [->|Hx]; [right; left; reflexivity|].
    destruct (IH k d x) as [H|H]; auto; lia.
Qed.

Lemma remove_nth_incl : forall (l : list port) k x, In x (remove_nth k l) -> In x l.
Proof.
  induction l as [|y l IH]; intros k x H; [destruct k; simpl in H; contradiction|].
  destruct k; simpl in *; [right; exact H|]. destruct H; [left; assumption | right; eapply IH; eauto].
Qed.

Lemma remove_nth_length : forall (l : list port) k, k < length l -> S (length (remove_nth k l)) = length l.
Proof.
  induction l as [|y l IH]; intros k Hk; simpl in *; [lia|].
  destruct k; simpl; auto. rewrite IH; auto; lia.
Qed.

Lemma remove_nth_nodup : forall (l : list port) k, NoDup l -> NoDup (remove_nth k l).
Proof.
  induction l as [|y l IH]; intros k H.
  - destruct k; simpl; constructor.
  - inversion H; subst. destruct k; simpl; [assumption|].
    constructor; [intro Hin; apply remove_nth_incl in Hin; contradiction | apply IH; assumption].
Qed.

(* ------------------------------------------------------------------ *)
(* one step extends the state monotonically                             *)

Definition dget (st : wstate) (p : port) : option scd := pm_get (wdom st) p.
Definition uget (st : wstate) (q : port) : list port := pm_list (wund st) q.

Record ext (np : port) (st st' : wstate) : Prop := mkExt {
  e_mono   : forall p x, dget st p = Some x -> dget st' p = Some x;
  e_other  : forall p, p <> np -> dget st' p = dget st p;
  e_und    : forall q r, In r (uget st q) -> In r (uget st' q);
  e_undnew : forall q r, In r (uget st' q) -> In r (uget st q) \/ r = np;
  e_retry  : forall r, In r (wretry st) -> In r (wretry st');
  e_rnew   : forall r, In r (wretry st') -> In r (wretry st) \/ In r (uget st' np);
  e_nodup  : NoDup (wretry st) -> NoDup (wretry st');
  e_wake   : dget st np = None -> dget st' np <> None -> forall r, In r (uget st np) -> In r (wretry st');
  e_same   : dget st' np = dget st np -> wretry st' = wretry st
}.

Lemma ext_refl : forall np st, ext np st st.
Proof.
  intros. constructor; auto.
  intros H H'. congruence.
Qed.

Lemma ext_trans : forall np a b c, ext np a b -> ext np b c -> ext np a c.
Proof.
  intros np a b c [a1 a2 a3 a4 a5 a6 a7 a8 a9] [b1 b2 b3 b4 b5 b6 b7 b8 b9].
  constructor; auto.
  - intros p Hp. rewrite b2, a2; auto.
  - intros q r H. destruct (b4 _ _ H); auto.
  - intros r H. destruct (b6 _ H) as [H1|H1]; auto. destruct (a6 _ H1); auto.
  - intros Ha Hc r Hr. destruct (dget b np) as [y|] eqn:Eb.
    + apply b5. apply a8; auto. congruence.
    + apply b8; auto.
  - intros H. destruct (dget a np) as [y|] eqn:Ea.
    + assert (Eb : dget b np = Some y) by (apply a1; exact Ea).
      rewrite (b9 (eq_trans H (eq_sym Eb))), (a9 Eb). reflexivity.
    + assert (dget b np = None).
      { destruct (dget b np) as [y|] eqn:Eb; auto. rewrite (b1 _ _ Eb) in H. discriminate. }
      rewrite b9, a9; congruence.
Qed.

Lemma ext_assign : forall np x st, ext np st (assign np x st).
Proof.
  intros np x st. unfold assign. destruct (pm_get (wdom st) np) eqn:E; [apply ext_refl|].
  constructor; unfold dget, uget; simpl.
  - intros p y H. destruct (port_eq_dec np p) as [<-|Hne]; [congruence|]. rewrite pm_gso; auto.
  - intros p Hne. rewrite pm_gso; auto.
  - auto.
  - auto.
  - intros r H. apply in_fold_insert. auto.
  - intros r H. apply in_fold_insert in H. destruct H; auto.
  - apply nodup_fold_insert.
  - intros _ _ r H. apply in_fold_insert. auto.
  - rewrite pm_gss, E. discriminate.
Qed.

Lemma ext_push : forall np q st,
  ext np st (mkW (wdom st) (pm_set (wund st) q (pm_list (wund st) q ++ [np])) (wretry st)).
Proof.
  intros. constructor; unfold dget, uget; simpl; auto.
  - intros q' r H. destruct (port_eq_dec q q') as [<-|Hne].
    + rewrite pm_list_gss. apply in_or_app; auto.
    + rewrite pm_list_gso; auto.
  - intros q' r H. destruct (port_eq_dec q q') as [<-|Hne].
    + rewrite pm_list_gss in H. apply in_app_or in H. destruct H as [H|[H|[]]]; auto.
    + rewrite pm_list_gso in H; auto.
  - intros H H'. congruence.
Qed.

Lemma scan_ext : forall nd np deps st allc, ext np st (fst (scan nd np deps st allc)).
Proof.
  induction deps as [|i rest IH]; intros st allc; simpl; [apply ext_refl|].
  destruct (nth_error (nins nd) i) as [[q|]|]; auto.
  destruct (pm_get (wdom st) q) as [[| |c]|]; auto.
  - eapply ext_trans; [apply ext_assign | apply IH].
  - eapply ext_trans; [apply ext_assign | apply IH].
  - unfold insert_into_undetermined. eapply ext_trans; [apply ext_push | apply IH].
Qed.

Lemma process_ext : forall n np st, ext np st (process n np st).
Proof.
  intros. unfold process. destruct (get_node n (fst np)) as [nd|]; [|apply ext_refl].
  destruct (relation nd (snd np)) as [deps cks].
  destruct deps as [|d ds]; destruct cks as [|c cs]; try apply ext_assign.
  pose proof (scan_ext nd np (d :: ds) st true) as H.
  destruct (scan nd np (d :: ds) st true) as [st' allc]. simpl in H.
  destruct allc; auto. eapply ext_trans; [exact H | apply ext_assign].
Qed.

(* ------------------------------------------------------------------ *)
(* what the scan of the dependent inputs establishes                    *)

Lemma scan_allc_false : forall nd np deps st, snd (scan nd np deps st false) = false.
Proof.
  induction deps as [|i rest IH]; intros st; simpl; auto.
  destruct (nth_error (nins nd) i) as [[q|]|]; auto.
  destruct (pm_get (wdom st) q) as [[| |c]|]; auto.
Qed.

(* every driver that is still undetermined at the end has np registered as a dependant *)
Lemma scan_push : forall nd np deps st allc q,
  In q (dep_drivers nd deps) ->
  dget (fst (scan nd np deps st allc)) q = None ->
  In np (uget (fst (scan nd np deps st allc)) q).
Proof.
  induction deps as [|i rest IH]; intros st allc q Hq Hn; simpl in *; [contradiction|].
  unfold dep_drivers in Hq. simpl in Hq. fold (dep_drivers nd rest) in Hq.
  destruct (nth_error (nins nd) i) as [[q0|]|] eqn:Ei; simpl in Hq.
  - destruct Hq as [<-|Hq].
    + destruct (pm_get (wdom st) q0) as [y|] eqn:E0.
      * (* q0 was determined when visited: it stays determined *)
        exfalso.
        assert (Hm : forall st1 a, dget st1 q0 = Some y -> dget (fst (scan nd np rest st1 a)) q0 = Some y)
          by (intros st1 a H1; apply (e_mono _ _ _ (scan_ext nd np rest st1 a)); exact H1).
        destruct y; [ rewrite (Hm (assign np SUnknown st) false) in Hn
                    | rewrite (Hm st allc) in Hn
                    | rewrite (Hm (assign np (SClock c) st) false) in Hn ];
          try discriminate; auto;
          apply (e_mono _ _ _ (ext_assign np _ st)); exact E0.
      * unfold insert_into_undetermined in *.
        apply (e_und _ _ _ (scan_ext nd np rest _ false)). unfold uget. simpl.
        rewrite pm_list_gss. apply in_or_app. right. left. reflexivity.
    + destruct (pm_get (wdom st) q0) as [[| |c]|]; apply IH; auto.
  - apply IH; auto.
  - apply IH; auto.
Qed.

Definition all_const (d : port -> option scd) (D : list port) : bool :=
  forallb (fun q => oscd_eqb (d q) (Some SConst)) D.

Lemma scan_result : forall nd np deps st allc st1 allc1,
  scan nd np deps st allc = (st1, allc1) ->
  dget st np = None ->
  (dget st1 np = None ->
     (forall q, In q (dep_drivers nd deps) -> dget st q = None \/ dget st q = Some SConst)
     /\ allc1 = allc && all_const (dget st) (dep_drivers nd deps))
  /\ (forall x, dget st1 np = Some x ->
     x <> SConst /\ allc1 = false /\ exists q, In q (dep_drivers nd deps) /\ dget st q = Some x).
Proof.
  induction deps as [|i rest IH]; intros st allc st1 allc1 Hs Hnp; simpl in Hs.
  - inversion Hs; subst. split.
    + intros _. split; [intros q [] | simpl; rewrite andb_true_r; reflexivity].
    + intros x Hx. unfold dget in *. congruence.
  - unfold dep_drivers. simpl. fold (dep_drivers nd rest).
    destruct (nth_error (nins nd) i) as [[q0|]|] eqn:Ei; simpl.
    + destruct (pm_get (wdom st) q0) as [y|] eqn:E0.
      * destruct y.
        -- (* UNKNOWN: assigned here *)
           assert (Hd : dget st1 np = Some SUnknown).
           { replace st1 with (fst (scan nd np rest (assign np SUnknown st) false)) by (rewrite Hs; reflexivity).
             apply (e_mono _ _ _ (scan_ext _ _ _ _ _)). unfold dget, assign. unfold dget in Hnp. rewrite Hnp. simpl. apply pm_gss. }
           assert (Ha : allc1 = false).
           { replace allc1 with (snd (scan nd np rest (assign np SUnknown st) false)) by (rewrite Hs; reflexivity).
             apply scan_allc_false. }
           split; [intros H; congruence|].
           intros x Hx. rewrite Hd in Hx. inversion Hx; subst. split; [discriminate|]. split; auto.
           exists q0. split; [left; reflexivity | exact E0].
        -- (* CONSTANT *)
           destruct (IH _ _ _ _ Hs Hnp) as [H1 H2]. split.
           ++ intros Hn. destruct (H1 Hn) as [Ha Hb]. split.
              ** intros q [<-|Hq]; auto.
              ** simpl. unfold dget at 1. rewrite E0. simpl. exact Hb.
           ++ intros x Hx. destruct (H2 x Hx) as (Ha & Hb & q & Hq & Eq). repeat split; auto. exists q. split; [right; exact Hq | exact Eq].
        -- (* CLOCK c: assigned here *)
           assert (Hd : dget st1 np = Some (SClock c)).
           { replace st1 with (fst (scan nd np rest (assign np (SClock c) st) false)) by (rewrite Hs; reflexivity).
             apply (e_mono _ _ _ (scan_ext _ _ _ _ _)). unfold dget, assign. unfold dget in Hnp. rewrite Hnp. simpl. apply pm_gss. }
           assert (Ha : allc1 = false).
           { replace allc1 with (snd (scan nd np rest (assign np (SClock c) st) false)) by (rewrite Hs; reflexivity).
             apply scan_allc_false. }
           split; [intros H; congruence|].
           intros x Hx. rewrite Hd in Hx. inversion Hx; subst. split; [discriminate|]. split; auto.
           exists q0. split; [left; reflexivity | exact E0].
      * (* undetermined driver *)
        unfold insert_into_undetermined in Hs.
        set (st' := mkW (wdom st) (pm_set (wund st) q0 (pm_list (wund st) q0 ++ [np])) (wretry st)) in *.
        assert (Hnp' : dget st' np = None) by exact Hnp.
        destruct (IH _ _ _ _ Hs Hnp') as [H1 H2]. split.
        -- intros Hn. destruct (H1 Hn) as [Ha Hb]. split.
           ++ intros q [<-|Hq]; [left; exact E0 | apply (Ha q Hq)].
           ++ simpl. unfold dget at 1. rewrite E0. simpl. rewrite andb_false_r. rewrite Hb. reflexivity.
        -- intros x Hx. destruct (H2 x Hx) as (Ha & Hb & q & Hq & Eq). repeat split; auto.
           exists q. split; [right; exact Hq | exact Eq].
    + apply IH; auto.
    + apply IH; auto.
Qed.

(* ------------------------------------------------------------------ *)
(* justification of entries                                             *)

(* the entry x of p is explained by the relation of p and the entries d of its drivers *)
Definition just (n : netlist) (d : port -> option scd) (p : port) (x : scd) : Prop :=
  exists nd, get_node n (fst p) = Some nd /\
    match relation nd (snd p) with
    | ([], []) => x = SConst
    | (_, c :: _) => x = scd_of_clk c
    | (deps, []) =>
        (x = SConst /\ forall q, In q (dep_drivers nd deps) -> d q = Some SConst)
        \/ (x <> SConst /\ exists q, In q (dep_drivers nd deps) /\ d q = Some x)
    end.

Lemma just_mono : forall n d d' p x,
  (forall q y, d q = Some y -> d' q = Some y) -> just n d p x -> just n d' p x.
Proof.
  intros n d d' p x Hm (nd & Hg & H). exists nd. split; auto.
  destruct (relation nd (snd p)) as [deps cks]. destruct deps as [|i ds]; destruct cks as [|c cs]; auto.
  destruct H as [[Hx H]|[Hx (q & Hq & Eq)]]; [left | right]; split; auto.
  exists q. auto.
Qed.

(* the drivers an output waits for *)
Definition pdrivers (n : netlist) (p : port) : list port :=
  match get_node n (fst p) with
  | Some nd => match relation nd (snd p) with (deps, []) => dep_drivers nd deps | _ => [] end
  | None => []
  end.

(* p is parked: no driver decides it yet, and it is registered with every undetermined driver *)
Definition waiting (n : netlist) (st : wstate) (p : port) : Prop :=
  (forall q, In q (pdrivers n p) -> dget st q = None \/ dget st q = Some SConst) /\
  (exists q, In q (pdrivers n p) /\ dget st q = None) /\
  (forall q, In q (pdrivers n p) -> dget st q = None -> In p (uget st q)).

Lemma process_new : forall n np st x,
  dget st np = None -> dget (process n np st) np = Some x -> just n (dget st) np x.
Proof.
  intros n np st x Hnp Hx. unfold process in Hx.
  destruct (get_node n (fst np)) as [nd|] eqn:Hg; [|congruence].
  exists nd. split; auto.
  destruct (relation nd (snd np)) as [deps cks].
  assert (Hassign : forall y st0, dget st0 np = None -> dget (assign np y st0) np = Some y).
  { intros y st0 H0. unfold dget, assign in *. rewrite H0. simpl. apply pm_gss. }
  destruct deps as [|d ds]; destruct cks as [|c cs];
    try (rewrite (Hassign _ _ Hnp) in Hx; inversion Hx; reflexivity).
  destruct (scan nd np (d :: ds) st true) as [st1 allc1] eqn:Hs.
  destruct (scan_result _ _ _ _ _ _ _ Hs Hnp) as [H1 H2].
  destruct (dget st1 np) as [y|] eqn:E1.
  - destruct (H2 y eq_refl) as (Hy & Ha & q & Hq & Eq). subst allc1.
    rewrite E1 in Hx. inversion Hx; subst. right. split; auto. exists q. auto.
  - destruct (H1 eq_refl) as [Ha Hb]. simpl in Hb. destruct allc1.
    + rewrite (Hassign _ _ E1) in Hx. inversion Hx; subst. left. split; auto.
      intros q Hq. symmetry in Hb. unfold all_const in Hb. rewrite forallb_forall in Hb.
      apply oscd_eqb_eq. apply Hb. exact Hq.
    + congruence.
Qed.

Lemma process_wait : forall n np st,
  In np (all_outputs n) -> dget (process n np st) np = None -> waiting n (process n np st) np.
Proof.
  intros n np st Hv Hx.
  assert (Hnp : dget st np = None).
  { destruct (dget st np) as [y|] eqn:E; auto. rewrite (e_mono _ _ _ (process_ext n np st) _ _ E) in Hx. discriminate. }
  apply in_all_outputs in Hv. destruct Hv as (nd & Hg & _).
  revert Hx. unfold process. rewrite Hg.
  assert (Hassign : forall y st0, dget st0 np = None -> dget (assign np y st0) np = Some y).
  { intros y st0 H0. unfold dget, assign in *. rewrite H0. simpl. apply pm_gss. }
  destruct (relation nd (snd np)) as [deps cks] eqn:Hr.
  destruct deps as [|d ds]; destruct cks as [|c cs];
    try (intros Hx; rewrite (Hassign _ _ Hnp) in Hx; discriminate).
  destruct (scan nd np (d :: ds) st true) as [st1 allc1] eqn:Hs.
  destruct (scan_result _ _ _ _ _ _ _ Hs Hnp) as [H1 _].
  assert (Hst1 : st1 = fst (scan nd np (d :: ds) st true)) by (rewrite Hs; reflexivity).
  destruct allc1.
  - intros Hx. destruct (dget st1 np) eqn:E1.
    + unfold dget, assign in Hx. unfold dget in E1. rewrite E1 in Hx. congruence.
    + rewrite (Hassign _ _ E1) in Hx. discriminate.
  - intros Hx. destruct (H1 Hx) as [Ha Hb]. cbn [andb] in Hb.
    assert (Hsame : forall q, q <> np -> dget st1 q = dget st q).
    { intros q Hq. rewrite Hst1. apply (e_other _ _ _ (scan_ext nd np (d :: ds) st true)). exact Hq. }
    assert (Hsame' : forall q, dget st1 q = dget st q).
    { intros q. destruct (port_eq_dec q np) as [->|Hq]; [congruence | auto]. }
    unfold waiting, pdrivers. rewrite Hg, Hr. repeat split.
    + intros q Hq. rewrite Hsame'. auto.
    + symmetry in Hb. unfold all_const in Hb.
      assert (exists q, In q (dep_drivers nd (d :: ds)) /\ oscd_eqb (dget st q) (Some SConst) = false) as (q & Hq & Eq).
      { clear - Hb. revert Hb. generalize (dep_drivers nd (d :: ds)). intro l.
        induction l as [|q l IH]; intro Hb; simpl in Hb; [discriminate|].
        apply andb_false_iff in Hb. destruct Hb as [Hb|Hb].
        - exists q. split; [left; reflexivity | exact Hb].
        - destruct (IH Hb) as (q' & Hq' & E). exists q'. split; [right; exact Hq' | exact E]. }
      exists q. split; auto. rewrite Hsame'. destruct (Ha q Hq) as [E|E]; auto. rewrite E in Eq. simpl in Eq. discriminate.
    + intros q Hq Hn. rewrite Hst1. apply scan_push; auto. rewrite <- Hst1. exact Hn.
Qed.

Lemma waiting_keep : forall n st st' p,
  (forall q, In q (pdrivers n p) -> dget st' q = dget st q) ->
  (forall q r, In r (uget st q) -> In r (uget st' q)) ->
  waiting n st p -> waiting n st' p.
Proof.
  intros n st st' p Hd Hu (H1 & (q0 & Hq0 & E0) & H3).
  repeat split.
  - intros q Hq. rewrite Hd; auto.
  - exists q0. split; auto. rewrite Hd; auto.
  - intros q Hq Hn. apply Hu. apply H3; auto. rewrite <- Hd; auto.
Qed.

(* ------------------------------------------------------------------ *)
(* the loop invariant                                                   *)

Record Inv (n : netlist) (cur : option port) (todo : list port) (st : wstate) : Prop := mkInv {
  i_just  : forall p x, dget st p = Some x -> In p (all_outputs n) /\ just n (dget st) p x;
  i_pend  : forall p, In p (all_outputs n) -> dget st p = None ->
              cur = Some p \/ In p (wretry st) \/ In p todo \/ waiting n st p;
  i_rval  : forall r, In r (wretry st) -> In r (all_outputs n);
  i_uval  : forall q r, In r (uget st q) -> In r (all_outputs n);
  i_nodup : NoDup (wretry st);
  i_infl  : forall p x, dget st p = Some x -> x <> SConst -> influences n (src_of_scd x) p
}.

Lemma just_influences : forall n d p x,
  In p (all_outputs n) -> just n d p x -> x <> SConst ->
  (forall q y, d q = Some y -> y <> SConst -> influences n (src_of_scd y) q) ->
  influences n (src_of_scd x) p.
Proof.
  intros n d p x Hv (nd & Hg & H) Hx Hd.
  destruct (relation nd (snd p)) as [deps cks] eqn:Hr.
  destruct deps as [|i ds]; destruct cks as [|c cs].
  - congruence.
  - subst x. replace (src_of_scd (scd_of_clk c)) with (src_of c) by (destruct c; reflexivity). eapply infl_src; eauto.
  - destruct H as [[H _]|[_ (q & Hq & Eq)]]; [congruence|].
    apply in_dep_drivers in Hq. destruct Hq as (j & Hj & Hqj).
    eapply infl_step; eauto.
  - subst x. replace (src_of_scd (scd_of_clk c)) with (src_of c) by (destruct c; reflexivity). eapply infl_src; eauto.
Qed.

Lemma process_inv : forall n todo np st,
  In np (all_outputs n) -> Inv n (Some np) todo st -> Inv n None todo (process n np st).
Proof.
  intros n todo np st Hv [I1 I2 I3 I4 I5 I6].
  pose proof (process_ext n np st) as E. set (st' := process n np st) in *.
  constructor.
  - (* justification *)
    intros p x Hp. destruct (port_eq_dec p np) as [->|Hne].
    + split; auto. destruct (dget st np) as [y|] eqn:E0.
      * rewrite (e_mono _ _ _ E _ _ E0) in Hp. inversion Hp; subst.
        eapply just_mono; [apply (e_mono _ _ _ E) | apply (I1 _ _ E0)].
      * eapply just_mono; [apply (e_mono _ _ _ E) | apply process_new; auto].
    + rewrite (e_other _ _ _ E _ Hne) in Hp. destruct (I1 _ _ Hp) as [Ha Hb]. split; auto.
      eapply just_mono; [apply (e_mono _ _ _ E) | exact Hb].
  - (* pending *)
    intros p Hp Hn. right. destruct (port_eq_dec p np) as [->|Hne].
    + right. right. apply process_wait; auto.
    + assert (Hn0 : dget st p = None) by (rewrite <- (e_other _ _ _ E _ Hne); exact Hn).
      destruct (I2 p Hp Hn0) as [H|[H|[H|H]]].
      * inversion H; congruence.
      * left. apply (e_retry _ _ _ E). exact H.
      * right. left. exact H.
      * destruct (dget st np) as [y|] eqn:E0.
        { right. right. eapply waiting_keep; [| apply (e_und _ _ _ E) | exact H].
          intros q _. destruct (port_eq_dec q np) as [->|Hq]; [|apply (e_other _ _ _ E); auto].
          rewrite E0. apply (e_mono _ _ _ E). exact E0. }
        destruct (dget st' np) as [y|] eqn:E1.
        2:{ right. right. eapply waiting_keep; [| apply (e_und _ _ _ E) | exact H].
            intros q _. destruct (port_eq_dec q np) as [->|Hq]; [congruence | apply (e_other _ _ _ E); auto]. }
        destruct (in_dec port_eq_dec np (pdrivers n p)) as [Hin|Hnin].
        { left. apply (e_wake _ _ _ E); auto; [congruence|]. destruct H as (_ & _ & H3). apply H3; auto. }
        right. right. eapply waiting_keep; [| apply (e_und _ _ _ E) | exact H].
        intros q Hq. apply (e_other _ _ _ E). intro; subst; contradiction.
  - intros r Hr. destruct (e_rnew _ _ _ E _ Hr) as [H|H]; auto.
    destruct (e_undnew _ _ _ E _ _ H) as [H' | ->]; eauto.
  - intros q r Hr. destruct (e_undnew _ _ _ E _ _ Hr) as [H' | ->]; eauto.
  - apply (e_nodup _ _ _ E). exact I5.
  - intros p x Hp Hx. destruct (port_eq_dec p np) as [->|Hne].
    + destruct (dget st np) as [y|] eqn:E0.
      * rewrite (e_mono _ _ _ E _ _ E0) in Hp. inversion Hp; subst. eauto.
      * eapply just_influences; eauto. apply process_new; auto.
    + rewrite (e_other _ _ _ E _ Hne) in Hp. eauto.
Qed.

(* ------------------------------------------------------------------ *)
(* termination: a lexicographic measure in one number                   *)

Definition is_none (st : wstate) (p : port) : bool :=
  match dget st p with None => true | Some _ => false end.

Definition unassigned (n : netlist) (st : wstate) : nat := length (filter (is_none st) (all_outputs n)).

Definition measure (n : netlist) (st : wstate) : nat :=
  unassigned n st * (length (all_outputs n) + 1) + length (wretry st).

Lemma filter_length_le : forall (f g : port -> bool) l,
  (forall p, In p l -> g p = true -> f p = true) -> length (filter g l) <= length (filter f l).
Proof.
  induction l as [|y l IH]; intros H; simpl; auto.
  assert (IH' : length (filter g l) <= length (filter f l)) by (apply IH; intros; apply H; auto; right; auto).
  destruct (g y) eqn:Eg.
  - rewrite (H y (or_introl eq_refl) Eg). simpl. lia.
  - destruct (f y); simpl; lia.
Qed.

Lemma filter_length_lt : forall (f g : port -> bool) l p0,
  (forall p, In p l -> g p = true -> f p = true) -> In p0 l -> f p0 = true -> g p0 = false ->
  length (filter g l) < length (filter f l).
Proof.
  induction l as [|y l IH]; intros p0 H Hin Hf Hg; [contradiction|]. simpl.
  assert (Hle : length (filter g l) <= length (filter f l)) by (apply filter_length_le; intros; apply H; auto; right; auto).
  destruct Hin as [->|Hin].
  - rewrite Hf, Hg. simpl. lia.
  - assert (IH' : length (filter g l) < length (filter f l)) by (apply (IH p0); auto; intros; apply H; auto; right; auto).
    destruct (g y) eqn:Eg.
    + rewrite (H y (or_introl eq_refl) Eg). simpl. lia.
    + destruct (f y); simpl; lia.
Qed.

Lemma filter_length_le_all : forall (f : port -> bool) l, length (filter f l) <= length l.
Proof. induction l; simpl; auto. destruct (f a); simpl; lia. Qed.

Lemma pop_inv : forall n todo st k r0,
  Inv n None todo st -> k < length (wretry st) ->
  Inv n (Some (nth k (wretry st) r0)) todo (mkW (wdom st) (wund st) (remove_nth k (wretry st)))
  /\ In (nth k (wretry st) r0) (all_outputs n).
Proof.
  intros n todo st k r0 [I1 I2 I3 I4 I5 I6] Hk. split.
  - constructor; auto.
    + intros p Hp Hn. destruct (I2 p Hp Hn) as [H|[H|[H|H]]]; try discriminate; auto.
      destruct (nth_in_remove _ k r0 p Hk H) as [->|H']; auto.
    + intros r Hr. apply I3. simpl in Hr. eapply remove_nth_incl; eauto.
    + simpl. apply remove_nth_nodup. exact I5.
  - apply I3. apply nth_In. exact Hk.
Qed.

Lemma process_measure : forall n todo np s,
  Inv n (Some np) todo s -> In np (all_outputs n) -> measure n (process n np s) <= measure n s.
Proof.
  intros n todo np s HI Hv.
  pose proof (process_inv n todo np s Hv HI) as HI'.
  pose proof (process_ext n np s) as E.
  set (s' := process n np s) in *.
  assert (Hsame : dget s' np = dget s np -> measure n s' <= measure n s).
  { intros Hd. unfold measure. rewrite (e_same _ _ _ E Hd).
    assert (unassigned n s' = unassigned n s); [|lia].
    unfold unassigned. f_equal. apply filter_ext. intros p. unfold is_none.
    destruct (port_eq_dec p np) as [->|Hne]; [rewrite Hd | rewrite (e_other _ _ _ E _ Hne)]; reflexivity. }
  destruct (dget s np) as [y|] eqn:E0.
  - apply Hsame. apply (e_mono _ _ _ E). exact E0.
  - destruct (dget s' np) as [x|] eqn:E1; [|apply Hsame; reflexivity].
    assert (Hu : unassigned n s' < unassigned n s).
    { unfold unassigned. apply (filter_length_lt _ _ _ np); auto.
      - intros p _. unfold is_none. destruct (dget s p) eqn:Ep; auto.
        rewrite (e_mono _ _ _ E _ _ Ep). auto.
      - unfold is_none. rewrite E0. reflexivity.
      - unfold is_none. rewrite E1. reflexivity. }
    assert (Hr : length (wretry s') <= length (all_outputs n)).
    { apply NoDup_incl_length; [apply (i_nodup _ _ _ _ HI') | intros r Hr; apply (i_rval _ _ _ _ HI' r Hr)]. }
    unfold measure. nia.
Qed.

Lemma drain_inv : forall n ch todo fuel st,
  Inv n None todo st -> measure n st < fuel ->
  Inv n None todo (drain n ch fuel st) /\ wretry (drain n ch fuel st) = [].
Proof.
  induction fuel as [|f IH]; intros st HI Hm; [lia|]. simpl.
  destruct (wretry st) as [|r0 rl] eqn:Er; [split; auto|].
  set (k := if ch (r0 :: rl) <? length (r0 :: rl) then ch (r0 :: rl) else 0).
  assert (Hk : k < length (wretry st)).
  { rewrite Er. unfold k. destruct (ch (r0 :: rl) <? length (r0 :: rl)) eqn:E; [apply Nat.ltb_lt; exact E | simpl; lia]. }
  destruct (pop_inv n todo st k r0 HI Hk) as [HI1 Hv]. rewrite Er in HI1, Hv.
  apply IH.
  - apply process_inv; auto.
  - pose proof (process_measure _ _ _ _ HI1 Hv) as Hle.
    assert (measure n (mkW (wdom st) (wund st) (remove_nth k (r0 :: rl))) < measure n st); [|lia].
    unfold measure, unassigned, is_none, dget. simpl wdom. simpl wretry. rewrite Er.
    rewrite Er in Hk. pose proof (remove_nth_length (r0 :: rl) k Hk). lia.
Qed.

Lemma outer_inv : forall n ch fuel order st,
  (forall p, In p order -> In p (all_outputs n)) ->
  Inv n None order st -> wretry st = [] ->
  length (all_outputs n) * (length (all_outputs n) + 1) + 2 <= fuel ->
  Inv n None [] (outer n ch fuel order st) /\ wretry (outer n ch fuel order st) = [].
Proof.
  induction order as [|np rest IH]; intros st Hv HI Hr Hf; simpl; [split; auto|].
  set (st1 := mkW (wdom st) (wund st) [np]).
  assert (HI1 : Inv n None rest st1).
  { destruct HI as [I1 I2 I3 I4 I5 I6]. constructor; auto.
    - intros p Hp Hn. destruct (I2 p Hp Hn) as [H|[H|[[->|H]|H]]]; try discriminate; auto.
      + rewrite Hr in H. contradiction.
      + right. left. left. reflexivity.
    - intros r [<-|[]]. apply Hv. left; reflexivity.
    - constructor; [intros []|constructor]. }
  assert (Hm : measure n st1 < fuel).
  { unfold measure. simpl. pose proof (filter_length_le_all (is_none st1) (all_outputs n)).
    unfold unassigned. nia. }
  destruct (drain_inv n ch rest fuel st1 HI1 Hm) as [HI2 Hr2].
  apply IH; auto. intros p Hp. apply Hv. right; exact Hp.
Qed.

(* ------------------------------------------------------------------ *)
(* at the end of the run the map satisfies the fixpoint characterisation *)

Lemma inv_final : forall n st, Inv n None [] st -> wretry st = [] -> domains_ok n (dget st) = true.
Proof.
  intros n st [I1 I2 I3 I4 I5 I6] Hr. unfold domains_ok. apply forallb_forall. intros p Hp.
  unfold out_ok. destruct (dget st p) as [x|] eqn:Ep.
  - destruct (I1 p x Ep) as [_ (nd & Hg & Hj)]. rewrite Hg.
    destruct (relation nd (snd p)) as [deps cks]. destruct deps as [|i ds]; destruct cks as [|c cs];
      try (subst x; apply oscd_eqb_eq; reflexivity).
    destruct Hj as [[-> Hall]|[Hx (q & Hq & Eq)]].
    + apply forallb_forall. intros q Hq. apply oscd_eqb_eq. auto.
    + destruct x; try congruence; apply existsb_exists; exists q; split; auto; apply oscd_eqb_eq; exact Eq.
  - destruct (I2 p Hp Ep) as [H|[H|[H|H]]]; try discriminate; try contradiction.
    + rewrite Hr in H. contradiction.
    + destruct H as (H1 & (q0 & Hq0 & E0) & H3). unfold pdrivers in *.
      destruct (get_node n (fst p)) as [nd|]; [|contradiction].
      destruct (relation nd (snd p)) as [deps cks]. destruct cks as [|c cs]; [|contradiction].
      destruct deps as [|i ds]; [contradiction|].
      apply andb_true_iff. split.
      * apply forallb_forall. intros q Hq. destruct (H1 q Hq) as [E|E]; rewrite E; reflexivity.
      * apply existsb_exists. exists q0. split; auto. rewrite E0. reflexivity.
Qed.

Lemma inv_init : forall n order,
  (forall p, In p (all_outputs n) -> In p order) -> Inv n None order (mkW pm_empty pm_empty []).
Proof.
  intros n order H. constructor; unfold dget, uget; simpl.
  - intros p x Hp. rewrite pm_get_empty in Hp. discriminate.
  - intros p Hp _. right. right. left. auto.
  - intros r [].
  - intros q r Hr. rewrite pm_list_empty in Hr. contradiction.
  - constructor.
  - intros p x Hp. rewrite pm_get_empty in Hp. discriminate.
Qed.

Lemma infer_state_inv : forall n ch order,
  Permutation order (all_outputs n) ->
  Inv n None [] (infer_state n ch order) /\ wretry (infer_state n ch order) = [].
Proof.
  intros n ch order HP. unfold infer_state. apply outer_inv.
  - intros p Hp. eapply Permutation_in; eauto.
  - apply inv_init. intros p Hp. eapply Permutation_in; [apply Permutation_sym; exact HP | exact Hp].
  - reflexivity.
  - unfold fuel_bound. lia.
Qed.

(* THE order-independence theorem *)
Theorem worklist_ok : forall n ch order,
  Permutation order (all_outputs n) -> domains_ok n (infer n ch order) = true.
Proof.
  intros n ch order HP. destruct (infer_state_inv n ch order HP) as [HI Hr].
  exact (inv_final n _ HI Hr).
Qed.

(* every non-constant entry the worklist writes is backed by a real path, cycles or not *)
Theorem worklist_justified : forall n ch order,
  Permutation order (all_outputs n) -> justified n (infer n ch order).
Proof.
  intros n ch order HP. destruct (infer_state_inv n ch order HP) as [HI _].
  intros p x _ Hp Hx. exact (i_infl _ _ _ _ HI p x Hp Hx).
Qed.

Theorem worklist_complete : forall n ch order,
  wf n = true -> Permutation order (all_outputs n) -> ~ has_crossing n -> flagged n (infer n ch order) = [].
Proof. intros. apply accepted; auto. apply worklist_justified; auto. Qed.
