(* C16 -- the statements exported to Properties_C16.v, in self-contained form. *)
From Coq Require Import List NArith Bool Arith Lia.
From Gatery Require Import StreamDefs StreamSpec StreamCompose StreamStages StreamHold StreamPacket StreamMeta StreamRs StreamChain StreamLive StreamRefute.
Import ListNotations.

(* ------------------------------------------------------------------ per stage *)
Lemma regDownstream_transfers_l : forall cs,
  Tin (trace regDownS cs) = Tout (trace regDownS cs) ++ fl_reg (after regDownS cs) /\
  length (fl_reg (after regDownS cs)) <= 1.
Proof. intro cs; split; [apply regDown_inv | apply fl_reg_cap]. Qed.

Lemma regDownstreamBlocking_transfers_l : forall cs,
  Tin (trace blockS cs) = Tout (trace blockS cs) ++ fl_reg (after blockS cs) /\
  length (fl_reg (after blockS cs)) <= 1.
Proof. intro cs; split; [apply block_inv | apply fl_reg_cap]. Qed.

Lemma regReady_transfers_l : forall cs,
  Tin (trace readyS cs) = Tout (trace readyS cs) ++ fl_ready (after readyS cs) /\
  length (fl_ready (after readyS cs)) <= 1.
Proof. intro cs; split; [apply ready_inv | apply fl_ready_cap]. Qed.

Lemma regDecouple_transfers_l : forall cs,
  prefix (Tout (trace decoupleS cs)) (Tin (trace decoupleS cs)) /\
  length (Tin (trace decoupleS cs)) <= length (Tout (trace decoupleS cs)) + 2.
Proof.
  intro cs. destruct decouple_Good as [[_ L] S]. split; [apply (S cs I) | apply (L cs I)].
Qed.

Lemma delay_transfers_l : forall n cs,
  prefix (Tout (trace (delayS n) cs)) (Tin (trace (delayS n) cs)) /\
  length (Tin (trace (delayS n) cs)) <= length (Tout (trace (delayS n) cs)) + n.
Proof.
  intros n cs. destruct (delay_Good n) as [[_ L] S]. split; [apply (S cs I) | apply (L cs I)].
Qed.

Lemma stall_transfers_l : forall k cs, Tin (trace (stallS k) cs) = Tout (trace (stallS k) cs).
Proof. exact stall_inv. Qed.

Lemma extendWidth_transfers_l : forall r cs, 1 <= r ->
  Tout (trace (extendS r) cs) = pack r (Tin (trace (extendS r) cs)) /\
  length (pacc r (Tin (trace (extendS r) cs))) < r.
Proof. intros r cs H; split; [apply extend_transfers_eq, H | apply pacc_length, H]. Qed.

Lemma reduceWidth_transfers_l : forall r cs, 1 <= r ->
  holdW (inW (trace (reduceS r) cs)) ->
  exists pend, Tout (trace (reduceS r) cs) = unpack r (Tin (trace (reduceS r) cs)) ++ pend /\ length pend < r.
Proof. intros r cs H HE; apply reduce_transfers_eq; assumption. Qed.

Lemma reduceWidth_safe_l : forall r cs c, 1 <= r ->
  holdW (inW (trace (reduceS r) (cs ++ [c]))) ->
  prefix (Tout (trace (reduceS r) cs) ++ offout (evAt (reduceS r) (after (reduceS r) cs) c))
         (unpack r (Tin (trace (reduceS r) cs) ++ offin (evAt (reduceS r) (after (reduceS r) cs) c))).
Proof. intros r cs c H HE. destruct (reduce_Good r H) as [S _]. apply S, HE. Qed.

(* ------------------------------------------------------------------ chains *)
Lemma chain_transfers_l : forall d, wfd d ->
  (forall cs c, env d (cs ++ [c]) ->
     prefix (Tout (trace (denote d) cs) ++ offout (evAt (denote d) (after (denote d) cs) c))
            (fn d (Tin (trace (denote d) cs) ++ offin (evAt (denote d) (after (denote d) cs) c)))) /\
  (forall cs, env d cs ->
     length (fn d (Tin (trace (denote d) cs))) <= length (Tout (trace (denote d) cs)) + capd d).
Proof. intros d W. destruct (chain_Good d W) as [S L]. split; [exact S | exact L]. Qed.

Lemma chain_transfers_conformant_l : forall d cs c, wfd d ->
  stalls_ok d (cs ++ [c]) -> holdW (inW (trace (denote d) (cs ++ [c]))) ->
  prefix (Tout (trace (denote d) cs) ++ offout (evAt (denote d) (after (denote d) cs) c))
         (fn d (Tin (trace (denote d) cs) ++ offin (evAt (denote d) (after (denote d) cs) c))) /\
  length (fn d (Tin (trace (denote d) (cs ++ [c])))) <= length (Tout (trace (denote d) (cs ++ [c]))) + capd d /\
  holdW (outW (trace (denote d) (cs ++ [c]))).
Proof.
  intros d cs c W HS HI. pose proof (env_of_hold d _ HS HI) as HE.
  destruct (chain_Good d W) as [S L]. repeat split.
  - apply S, HE.
  - apply L, HE.
  - apply chain_hold_trace; assumption.
Qed.

Lemma chain_transfers_strong_l : forall d cs, wfd d -> no_reduce d ->
  prefix (Tout (trace (denote d) cs)) (fn d (Tin (trace (denote d) cs))) /\
  length (fn d (Tin (trace (denote d) cs))) <= length (Tout (trace (denote d) cs)) + capd d.
Proof.
  intros d cs W N. split.
  - apply (chain_Strong d W N cs I).
  - destruct (chain_Good d W) as [_ L]. apply L, env_no_reduce, N.
Qed.

Lemma compose_transfers_l : forall A B EA EB fA fB capA capB kB,
  mono fA -> mono fB -> lip fB kB ->
  (Safe A EA fA /\ Lag A EA fA capA) -> (Safe B EB fB /\ Lag B EB fB capB) ->
  Safe (compose A B) (Ecomp A B EA EB) (fun l => fB (fA l)) /\
  Lag (compose A B) (Ecomp A B EA EB) (fun l => fB (fA l)) (capB + kB * capA).
Proof. intros. apply Good_compose; assumption. Qed.

Lemma compose_strong_l : forall A B EA EB fA fB,
  mono fB -> Strong A EA fA -> Strong B EB fB -> Strong (compose A B) (Ecomp A B EA EB) (fun l => fB (fA l)).
Proof. exact compose_Strong. Qed.

(* ------------------------------------------------------------------ hold *)
Lemma stage_hold_registers_l : forall cs,
  holdW (outW (trace regDownS cs)) /\ holdW (outW (trace blockS cs)) /\ holdW (outW (trace readyS cs)) /\
  holdW (outW (trace decoupleS cs)) /\ (forall n, n <> 0 -> holdW (outW (trace (delayS n) cs))).
Proof.
  intro cs. repeat split.
  - apply (holdU_traceFrom _ regDown_HoldU).
  - apply (holdU_traceFrom _ block_HoldU).
  - apply (holdU_traceFrom _ ready_HoldU).
  - apply (holdU_traceFrom _ decouple_HoldU).
  - intros n H. apply (holdU_traceFrom _ (delay_HoldU n H)).
Qed.

Lemma stage_hold_l : forall d cs,
  stalls_ok d cs -> holdW (inW (trace (denote d) cs)) -> holdW (outW (trace (denote d) cs)).
Proof. exact chain_hold_trace. Qed.

Lemma stage_hold_uncond_l : forall d cs, gives_hold d = true -> holdW (outW (trace (denote d) cs)).
Proof. exact chain_hold_uncond. Qed.

Lemma stall_hold_polite_l : forall k cs,
  pairsFrom (stallS k) (stall_polite k) tt cs ->
  holdW (inW (trace (stallS k) cs)) -> holdW (outW (trace (stallS k) cs)).
Proof. intros k cs. apply (holdC_traceFrom _ _ (stall_HoldC k)). Qed.

Lemma compose_hold_l : forall A B QA QB, HoldC A QA -> HoldC B QB -> HoldC (compose A B) (Qcomp A B QA QB).
Proof. exact HoldC_compose. Qed.

(* ------------------------------------------------------------------ liveness *)
Lemma register_stages_live_l :
  Live regDownS 1 /\ Live blockS 1 /\ Live readyS 1 /\ Live decoupleS 2 /\ (forall n, Live (delayS n) n).
Proof.
  repeat split; [apply regDown_Live | apply block_Live | apply ready_Live | apply decouple_Live | apply delay_Live].
Qed.

(* ------------------------------------------------------------------ adequacy of pack *)
Lemma pack_groups_l : forall r gs, 1 <= r -> Forall (fun g => length g = r) gs ->
  pack r (concat gs) = map mkpacked gs.
Proof. intros r gs H F. apply (pack_groups r gs H F). Qed.

(* ------------------------------------------------------------------ Packet.h width converters *)
Lemma widthExtend_transfers_l : forall m r cs,
  Tout (trace (pextendS m r) cs) = ppack m r (Tin (trace (pextendS m r) cs)).
Proof. exact pextend_transfers_eq. Qed.

Lemma widthExtend_keeps_packet_boundaries_l : forall m r cs,
  map xmeta (filter xeop (Tout (trace (pextendS m r) cs))) = map xmeta (filter xeop (Tin (trace (pextendS m r) cs))).
Proof. intros. rewrite pextend_transfers_eq. apply ppack_keeps_eops. Qed.

Lemma widthExtend_hold_l : forall m r cs,
  holdW (inW (trace (pextendS m r) cs)) -> holdW (outW (trace (pextendS m r) cs)).
Proof.
  intros m r cs. apply (holdC_traceFrom _ _ (pextend_HoldC m r)).
  clear. generalize (init (pextendS m r)). induction cs as [|c1 [|c2 cs] IH]; intro s; simpl; auto.
  split; [exact I|]. apply IH.
Qed.

Lemma widthReduce_is_reduceWidth_l : forall r cs, 1 <= r ->
  holdW (inW (trace (preduceS r) cs)) ->
  trace (preduceS r) cs = trace (reduceS r) cs /\
  snd (after (preduceS r) cs) = S (fst (after (preduceS r) cs)) /\ fst (after (preduceS r) cs) < r.
Proof.
  intros r cs H HE. split; [apply (pre_red_sim r H cs HE) | apply (preduce_sentBits r H cs HE)].
Qed.

Lemma widthReduce_transfers_l : forall r cs, 1 <= r ->
  holdW (inW (trace (preduceS r) cs)) ->
  exists pend, Tout (trace (preduceS r) cs) = unpack r (Tin (trace (preduceS r) cs)) ++ pend /\ length pend < r.
Proof. intros r cs H HE. apply preduce_transfers_eq; assumption. Qed.

Lemma widthReduce_safe_l : forall r cs c, 1 <= r ->
  holdW (inW (trace (preduceS r) (cs ++ [c]))) ->
  prefix (Tout (trace (preduceS r) cs) ++ offout (evAt (preduceS r) (after (preduceS r) cs) c))
         (unpack r (Tin (trace (preduceS r) cs) ++ offin (evAt (preduceS r) (after (preduceS r) cs) c))).
Proof. intros r cs c H HE. destruct (preduce_Good r H) as [S _]. apply S, HE. Qed.

Lemma widthReduce_hold_l : forall r cs,
  holdW (inW (trace (preduceS r) cs)) -> holdW (outW (trace (preduceS r) cs)).
Proof.
  intros r cs. apply (holdC_traceFrom _ _ (preduce_HoldC r)).
  clear. generalize (init (preduceS r)). induction cs as [|c1 [|c2 cs] IH]; intro s; simpl; auto.
  split; [exact I|]. apply IH.
Qed.

Lemma matchWidth_cases_l : forall m t,
  (m < t -> matchD m t = DPExtend m (t / m)) /\ (t < m -> matchD m t = DPReduce (m / t)) /\ (m = t -> matchD m t = DDelay 0).
Proof.
  intros m t. unfold matchD. repeat split; intro H.
  - apply Nat.ltb_lt in H. now rewrite H.
  - assert (Nat.ltb m t = false) by (apply Nat.ltb_ge; lia). apply Nat.ltb_lt in H. now rewrite H0, H.
  - subst. now rewrite Nat.ltb_irrefl.
Qed.

(* ------------------------------------------------------------------ per-digit meta signals (ByteEnable) *)
Lemma byteEnable_encoding_l : forall b e, (b < 256)%N -> sym_byte (sym b e) = b /\ sym_en (sym b e) = e.
Proof. intros b e H; split; [apply sym_byte_sym | apply sym_en_sym]; exact H. Qed.

Lemma reduceWidth_digit_view_l : forall f r cs, 1 <= r -> holdW (inW (trace (reduceS r) cs)) ->
  exists pend, map (xmap f) (Tout (trace (reduceS r) cs)) = unpack r (map (xmap f) (Tin (trace (reduceS r) cs))) ++ pend /\ length pend < r.
Proof. intros f r cs H HE; apply reduce_view; assumption. Qed.

Lemma widthReduce_digit_view_l : forall f r cs, 1 <= r -> holdW (inW (trace (preduceS r) cs)) ->
  exists pend, map (xmap f) (Tout (trace (preduceS r) cs)) = unpack r (map (xmap f) (Tin (trace (preduceS r) cs))) ++ pend /\ length pend < r.
Proof. intros f r cs H HE; apply preduce_view; assumption. Qed.

Lemma extendWidth_digit_view_l : forall f r cs, 1 <= r ->
  map (xmap f) (Tout (trace (extendS r) cs)) = pack r (map (xmap f) (Tin (trace (extendS r) cs))).
Proof. intros; apply extend_view; assumption. Qed.

Lemma unpack_digit_view_l : forall f r l, unpack r (map (xmap f) l) = map (xmap f) (unpack r l).
Proof. exact unpack_map. Qed.
Lemma pack_digit_view_l : forall f r l, pack r (map (xmap f) l) = map (xmap f) (pack r l).
Proof. exact pack_map. Qed.

(* ------------------------------------------------------------------ streams without Valid (Rs / S) *)
Lemma rs_flag_is_inside_packet_l : forall w f, rs_flags f w = inpkt f w.
Proof. exact rs_flag_spec. Qed.

Lemma rs_valid_is_inside_or_sop_l : forall w,
  map (fun p => rs_valid (fst p) (fst (fst (snd p)))) (combine (rs_flags false w) w) =
  map (fun p => fst p || fst (fst (snd p))) (combine (inpkt false w) w).
Proof. exact rs_valid_spec. Qed.

Lemma rs_stage_sees_specified_valid_l : forall S rcs,
  map (fun c => bvalid (c_in c)) (rsCycles S rcs) =
  map (fun p => fst p || r_sop (snd p))
      (combine (inpkt false (map (fun p => (r_sop (fst p), r_eop (fst p), e_rin (snd p)))
                                 (combine rcs (trace S (rsCycles S rcs))))) rcs).
Proof. intros S rcs. apply rsCycles_valid. Qed.

Lemma rs_reduceWidth_transfers_l : forall r rcs, 1 <= r ->
  let cs := rsCycles (reduceS r) rcs in
  holdW (inW (trace (reduceS r) cs)) ->
  exists pend, Tout (trace (reduceS r) cs) = unpack r (Tin (trace (reduceS r) cs)) ++ pend /\ length pend < r.
Proof. intros r rcs H cs HE. apply reduce_transfers_eq; assumption. Qed.

Lemma rs_chain_transfers_l : forall d rcs c, wfd d ->
  let cs := rsCycles (denote d) rcs in
  stalls_ok d (cs ++ [c]) -> holdW (inW (trace (denote d) (cs ++ [c]))) ->
  prefix (Tout (trace (denote d) cs) ++ offout (evAt (denote d) (after (denote d) cs) c))
         (fn d (Tin (trace (denote d) cs) ++ offin (evAt (denote d) (after (denote d) cs) c))) /\
  length (fn d (Tin (trace (denote d) (cs ++ [c])))) <= length (Tout (trace (denote d) (cs ++ [c]))) + capd d /\
  holdW (outW (trace (denote d) (cs ++ [c]))).
Proof. intros d rcs c W cs. apply chain_transfers_conformant_l, W. Qed.
