(* Theorems about the SOURCE-REGENERATED word helpers of utils/BitManipulation.h
   (gen/BitManipSrc.v, written by translate/C18_bitmanip.py on every check run): they equal the
   hand transcriptions of BvsDefs.v that every theorem of C18 is stated over, for all arguments,
   and the single-bit helpers have their bit-level meaning for every word and every index < 64. *)
From Coq Require Import NArith Bool Lia.
From Gatery Require Import BvsDefs.
From Gatery.gen Require Import BitManipSrc.
Local Open Scope N_scope.

Lemma wrap64_mod x : wrap64 x = x mod 2^64.
Proof. unfold wrap64. apply N.land_ones. Qed.

Lemma wrap64_small x : x < 2^64 -> wrap64 x = x.
Proof. intro H. rewrite wrap64_mod. apply N.mod_small. exact H. Qed.

Lemma pow2_lt_64 c : c < 64 -> 2^c < 2^64.
Proof. intro H. apply N.pow_lt_mono_r; lia. Qed.

Lemma shl64_one c : c < 64 -> shl64 1 c = 2^c.
Proof.
  intro H. unfold shl64. rewrite N.shiftl_1_l. apply wrap64_small. apply pow2_lt_64. exact H.
Qed.

Lemma sub64_pow2_one c : c < 64 -> sub64 (2^c) 1 = N.ones c.
Proof.
  intro H. unfold sub64. rewrite (wrap64_small 1) by (change (2^64) with 18446744073709551616; lia).
  rewrite N.ones_equiv. rewrite wrap64_mod.
  assert (Hp := pow2_lt_64 c H). assert (0 < 2^c) by (apply N.neq_0_lt_0; apply N.pow_nonzero; lia).
  replace (2^c + 2^64 - 1) with (N.pred (2^c) + 1 * 2^64) by lia.
  rewrite N.mod_add by (apply N.pow_nonzero; lia). apply N.mod_small. lia.
Qed.

Lemma src_andNot_is_model_proof a b : src_andNot a b = andNot a b.
Proof. reflexivity. Qed.

Lemma src_bitMaskRange_is_model_proof start count : src_bitMaskRange start count = bitMaskRange start count.
Proof.
  unfold src_bitMaskRange, bitMaskRange.
  change (wrap64 (8 * 8)) with 64.
  destruct (64 <=? count) eqn:E; cbn [b2n N.eqb negb]; [reflexivity|].
  apply N.leb_gt in E. rewrite shl64_one by exact E. rewrite sub64_pow2_one by exact E. reflexivity.
Qed.

Lemma src_bitfieldExtract_is_model_proof a start count : src_bitfieldExtract a start count = bitfieldExtract a start count.
Proof. unfold src_bitfieldExtract, bitfieldExtract. cbv zeta. rewrite src_bitMaskRange_is_model_proof. reflexivity. Qed.

Lemma src_bitfieldInsert_is_model_proof a start count v : src_bitfieldInsert a start count v = bitfieldInsert a start count v.
Proof. unfold src_bitfieldInsert, bitfieldInsert. cbv zeta. rewrite src_bitMaskRange_is_model_proof. reflexivity. Qed.

(* ---- single-bit helpers: bit-level meaning ---- *)
Lemma testbit_pow2 idx i : N.testbit (2^idx) i = (i =? idx).
Proof.
  destruct (N.eqb_spec i idx) as [->|Hne].
  - apply N.pow2_bits_true.
  - apply N.pow2_bits_false. congruence.
Qed.

Lemma src_bitExtract_spec_proof a idx : idx < 64 -> src_bitExtract a idx = N.testbit a idx.
Proof.
  intro H. unfold src_bitExtract. rewrite shl64_one by exact H.
  destruct (N.testbit a idx) eqn:E.
  - apply negb_true_iff. apply N.eqb_neq. intro Z.
    assert (T : N.testbit (N.land a (2^idx)) idx = true) by (rewrite N.land_spec, E, testbit_pow2, N.eqb_refl; reflexivity).
    rewrite Z in T. rewrite N.bits_0 in T. discriminate.
  - apply negb_false_iff. apply N.eqb_eq. apply N.bits_inj. intro i.
    rewrite N.land_spec, testbit_pow2, N.bits_0. destruct (N.eqb_spec i idx) as [->|]; [rewrite E|]; apply andb_false_r || reflexivity.
Qed.

Lemma src_bitSet_spec_proof a idx i : idx < 64 -> N.testbit (src_bitSet a idx) i = N.testbit a i || (i =? idx).
Proof. intro H. unfold src_bitSet. cbv zeta. rewrite shl64_one by exact H. rewrite N.lor_spec, testbit_pow2. reflexivity. Qed.

Lemma src_bitToggle_spec_proof a idx i : idx < 64 -> N.testbit (src_bitToggle a idx) i = xorb (N.testbit a i) (i =? idx).
Proof. intro H. unfold src_bitToggle. cbv zeta. rewrite shl64_one by exact H. rewrite N.lxor_spec, testbit_pow2. reflexivity. Qed.

Lemma testbit_ones64 i : N.testbit (N.ones 64) i = (i <? 64).
Proof.
  destruct (N.ltb_spec i 64).
  - apply N.ones_spec_low. exact H.
  - apply N.ones_spec_high. exact H.
Qed.

Lemma src_bitClear_spec_proof a idx i : idx < 64 -> a < 2^64 ->
  N.testbit (src_bitClear a idx) i = N.testbit a i && negb (i =? idx).
Proof.
  intros H Ha. unfold src_bitClear, src_andNot, not64. cbv zeta. rewrite shl64_one by exact H.
  rewrite N.land_spec, N.ldiff_spec, testbit_ones64, testbit_pow2.
  destruct (N.ltb_spec i 64) as [Hi|Hi]; cbn [andb].
  - rewrite andb_comm. reflexivity.
  - assert (N.testbit a i = false) as ->; [|reflexivity].
    destruct (N.eq_0_gt_0_cases a) as [->|Hpos]; [apply N.bits_0|].
    apply N.bits_above_log2. apply N.log2_lt_pow2 in Ha; [lia|exact Hpos].
Qed.
