(* C08 at circuit level: the node-level congruence (NodeSemRefine.eval_compat and the
   register lemmas) lifted over the evaluation order and over cycles.

   run_compat: for EVERY netlist, schedule, pair of initial register states that never
   contradict each other and pair of stimulus sequences that never contradict each other,
   the pin values of the two runs never contradict each other in any cycle.  Taking one run
   fully defined (a concretisation of the other's undefined input bits and undefined initial
   register contents) gives the property's wording: a bit the abstract run reports as
   defined equals the concrete run's bit. *)
From Coq Require Import List Bool Arith Lia.
From Gatery Require Import Bits NodeSemDefs NodeSemBits NodeSemReg NodeSemRefine NetDefs.
Import ListNotations.

Definition rs_rel (s t : rstate) : Prop := Forall2 compat (r_out s) (r_out t) /\ r_in_reset s = r_in_reset t.
Definition st_rel (a b : state) : Prop := Forall2 rs_rel a b.
Definition ins_rel (a b : list bv) : Prop := Forall2 bv_compat a b.
Definition vals_rel (a b : vals) : Prop := Forall2 (Forall2 bv_compat) a b.

Definition dflt : rstate := mk_rstate [] false.
Definition rs_wf (c : reg_cfg) (s : rstate) : Prop := length (r_out s) = rc_width c.
Definition st_wf (nl : netlist) (st : state) : Prop :=
  forall ord c i, reg_node nl ord = Some (c, i) -> ord < length st -> rs_wf c (nth ord st dflt).

Lemma Forall2_nth {A B} (P : A -> B -> Prop) l l' d d' i :
  Forall2 P l l' -> P d d' -> P (nth i l d) (nth i l' d').
Proof.
  intros H Hd. revert i. induction H as [|x y l l' Hxy Hl IH]; intros [|i]; simpl; auto.
Qed.

Lemma rs_rel_dflt : rs_rel dflt dflt.
Proof. split; [constructor|reflexivity]. Qed.

Lemma lookup_rel v v' d : vals_rel v v' -> opt_rel compat (lookup v d) (lookup v' d).
Proof.
  intro H. destruct d as [[pos port]|]; simpl; [|constructor]. constructor.
  apply (Forall2_nth (Forall2 compat)); [|constructor].
  apply (Forall2_nth (Forall2 bv_compat)); [exact H|constructor].
Qed.

Lemma map_lookup_rel v v' l : vals_rel v v' -> ins_compat (map (lookup v) l) (map (lookup v') l).
Proof. intro H. induction l; simpl; constructor; auto using lookup_rel. Qed.

Lemma resize_compat w x y : Forall2 compat x y -> Forall2 compat (bv_resize w x) (bv_resize w y).
Proof. apply Forall2_resize. apply compat_refl. Qed.

Lemma node_outputs_rel st st' ins ins' v v' n :
  st_rel st st' -> ins_rel ins ins' -> vals_rel v v' ->
  Forall2 bv_compat (node_outputs st ins v n) (node_outputs st' ins' v' n).
Proof.
  intros Hs Hi Hv. unfold node_outputs. destruct (n_kind n) as [k|w ord|w|c ord|ws].
  - apply eval_compat. apply map_lookup_rel. exact Hv.
  - constructor; [|constructor]. apply resize_compat.
    apply (Forall2_nth bv_compat); [exact Hi|constructor].
  - constructor.
  - constructor; [|constructor]. apply resize_compat.
    apply (Forall2_nth rs_rel _ _ dflt dflt ord Hs rs_rel_dflt).
  - induction ws; simpl; constructor; auto. apply bv_compat_refl.
Qed.

Lemma comb_eval_rel nl st st' ins ins' :
  st_rel st st' -> ins_rel ins ins' -> vals_rel (comb_eval nl st ins) (comb_eval nl st' ins').
Proof.
  intros Hs Hi. unfold comb_eval.
  assert (G : forall acc acc', vals_rel acc acc' ->
            vals_rel (fold_left (fun v n => v ++ [node_outputs st ins v n]) nl acc)
                     (fold_left (fun v n => v ++ [node_outputs st' ins' v n]) nl acc')).
  { induction nl as [|n nl IH]; intros acc acc' Ha; simpl; auto.
    apply IH. apply Forall2_app; [exact Ha|]. constructor; [|constructor].
    apply node_outputs_rel; assumption. }
  apply G. constructor.
Qed.

Lemma outputs_rel nl v v' : vals_rel v v' -> Forall2 bv_compat (outputs nl v) (outputs nl v').
Proof.
  intro H. unfold outputs. induction nl as [|n nl IH]; simpl; [constructor|].
  apply Forall2_app; [|exact IH].
  destruct (n_kind n); try constructor; [|constructor].
  destruct (lookup_rel v v' (nth 0 (n_ins n) None) H) as [|x y Hxy].
  - apply bv_compat_refl.
  - apply resize_compat. exact Hxy.
Qed.

(* ---- registers ---- *)
Lemma to_reg_state_rel c s t : rs_rel s t -> reg_rel compat (to_reg_state c s) (to_reg_state c t).
Proof.
  intros [Ho Hr]. unfold reg_rel, to_reg_state; simpl. repeat split; auto.
  - apply bv_compat_refl.
  - apply compat_refl.
Qed.
Lemma of_reg_state_rel s t : reg_rel compat s t -> rs_rel (of_reg_state s) (of_reg_state t).
Proof. intros [_ [_ [Hr Ho]]]. split; assumption. Qed.
Lemma to_reg_state_wf c s : rs_wf c s -> reg_wf c (to_reg_state c s).
Proof. intro H. unfold reg_wf, to_reg_state; simpl. rewrite all_X_length. split; [reflexivity|exact H]. Qed.

Lemma reg_edge_rel c d d' e e' s t :
  rs_wf c s -> rs_wf c t -> opt_rel compat d d' -> opt_rel compat e e' -> rs_rel s t ->
  rs_rel (reg_edge c d e s) (reg_edge c d' e' t).
Proof.
  intros Ws Wt Hd He H. unfold reg_edge. apply of_reg_state_rel.
  apply reg_advance_compat; try (apply reg_wf_latch; apply to_reg_state_wf; assumption).
  apply reg_latch_compat; auto. apply to_reg_state_rel. exact H.
Qed.
Lemma reg_edge_wf c d e s : rs_wf c s -> rs_wf c (reg_edge c d e s).
Proof.
  intro H. unfold reg_edge, rs_wf, of_reg_state; simpl.
  apply (reg_wf_advance c _ (reg_wf_latch c d e _ (to_reg_state_wf c s H))).
Qed.

Lemma reg_reset_wf c h s : reg_wf c s -> reg_wf c (reg_reset c h s).
Proof.
  intro H. unfold reg_reset. cbv zeta.
  match goal with |- reg_wf c (if ?cond then _ else _) => destruct cond end;
    [apply reg_wf_write|]; exact H.
Qed.
Lemma reg_rst_rel c h s t : rs_rel s t -> rs_rel (reg_rst c h s) (reg_rst c h t).
Proof. intro H. unfold reg_rst. apply of_reg_state_rel. apply reg_reset_compat. apply to_reg_state_rel. exact H. Qed.
Lemma reg_rst_wf c h s : rs_wf c s -> rs_wf c (reg_rst c h s).
Proof. intro H. unfold reg_rst, rs_wf, of_reg_state; simpl. apply (reg_reset_wf c h _ (to_reg_state_wf c s H)). Qed.
Lemma reg_pon_wf c : rs_wf c (reg_pon c).
Proof.
  unfold reg_pon, rs_wf, of_reg_state, reg_poweron; simpl.
  apply (reg_wf_write c true _ (reg_wf_init c)).
Qed.

Lemma st_rel_length a b : st_rel a b -> length a = length b.
Proof. apply Forall2_length_eq. Qed.

Lemma map_seq_rel (f g : nat -> rstate) n :
  (forall i, i < n -> rs_rel (f i) (g i)) -> st_rel (map f (seq 0 n)) (map g (seq 0 n)).
Proof.
  intro H. unfold st_rel.
  assert (G : forall k m, (forall i, k <= i < k + m -> rs_rel (f i) (g i)) ->
                          Forall2 rs_rel (map f (seq k m)) (map g (seq k m))).
  { intros k m; revert k; induction m as [|m IH]; intros k Hk; simpl; constructor.
    - apply Hk. lia.
    - apply IH. intros i Hi. apply Hk. lia. }
  apply G. intros i Hi. apply H. lia.
Qed.

Lemma edge_rel nl st st' ins ins' :
  st_wf nl st -> st_wf nl st' -> st_rel st st' -> ins_rel ins ins' ->
  st_rel (edge nl st ins) (edge nl st' ins').
Proof.
  intros Ws Wt Hs Hi. unfold edge. rewrite <- (st_rel_length _ _ Hs).
  apply map_seq_rel. intros ord Hord.
  assert (Hn : rs_rel (nth ord st dflt) (nth ord st' dflt)) by (apply (Forall2_nth rs_rel); [exact Hs|apply rs_rel_dflt]).
  fold dflt. destruct (reg_node nl ord) as [[c i]|] eqn:E; [|exact Hn].
  apply reg_edge_rel; auto.
  - apply (Ws ord c i E Hord).
  - apply (Wt ord c i E). rewrite <- (st_rel_length _ _ Hs). exact Hord.
  - apply lookup_rel. apply comb_eval_rel; assumption.
  - apply lookup_rel. apply comb_eval_rel; assumption.
Qed.

Lemma nth_map_seq (f : nat -> rstate) n i : i < n -> nth i (map f (seq 0 n)) dflt = f i.
Proof.
  intro H. rewrite (nth_indep _ dflt (f 0)) by (rewrite map_length, seq_length; exact H).
  rewrite map_nth. rewrite seq_nth by exact H. reflexivity.
Qed.

Lemma edge_wf nl st ins : st_wf nl st -> st_wf nl (edge nl st ins).
Proof.
  intros W ord c i E Hord. unfold edge in *. rewrite map_length, seq_length in Hord.
  rewrite nth_map_seq by exact Hord. fold dflt. rewrite E. apply reg_edge_wf. apply (W ord c i E Hord).
Qed.

Lemma reset_change_rel nl h st st' : st_rel st st' -> st_rel (reset_change nl h st) (reset_change nl h st').
Proof.
  intros Hs. unfold reset_change. rewrite <- (st_rel_length _ _ Hs).
  apply map_seq_rel. intros ord Hord.
  assert (Hn : rs_rel (nth ord st dflt) (nth ord st' dflt)) by (apply (Forall2_nth rs_rel); [exact Hs|apply rs_rel_dflt]).
  fold dflt. destruct (reg_node nl ord) as [[c i]|]; [apply reg_rst_rel|]; exact Hn.
Qed.
Lemma reset_change_wf nl h st : st_wf nl st -> st_wf nl (reset_change nl h st).
Proof.
  intros W ord c i E Hord. unfold reset_change in *. rewrite map_length, seq_length in Hord.
  rewrite nth_map_seq by exact Hord. fold dflt. rewrite E. apply reg_rst_wf. apply (W ord c i E Hord).
Qed.

Lemma power_on_wf nl : st_wf nl (power_on nl).
Proof.
  intros ord c i E Hord. unfold power_on in *. rewrite map_length, seq_length in Hord.
  rewrite (nth_map_seq (fun ord => match reg_node nl ord with Some (c, _) => reg_pon c | None => mk_rstate [] false end)) by exact Hord.
  rewrite E. apply reg_pon_wf.
Qed.

Lemma apply_events_rel nl evs : forall st st' ins ins',
  st_wf nl st -> st_wf nl st' -> st_rel st st' -> ins_rel ins ins' ->
  st_rel (apply_events nl ins st evs) (apply_events nl ins' st' evs) /\
  st_wf nl (apply_events nl ins st evs) /\ st_wf nl (apply_events nl ins' st' evs).
Proof.
  unfold apply_events. induction evs as [|e evs IH]; intros st st' ins ins' Ws Wt Hs Hi; simpl; auto.
  destruct e as [|h]; simpl; apply IH; auto using edge_wf, reset_change_wf, edge_rel, reset_change_rel.
Qed.

(* the run from an arbitrary initial register state (power_on is one instance) *)
Fixpoint state_from (nl : netlist) (sc : schedule) (s0 : state) (sigma : nat -> list bv) (t : nat) : state :=
  match t with
  | O => apply_events nl [] s0 (sched_at sc 0)
  | S t' => apply_events nl (sigma t') (state_from nl sc s0 sigma t') (sched_at sc t)
  end.
Definition out_from nl sc s0 sigma t : list bv :=
  outputs nl (comb_eval nl (state_from nl sc s0 sigma t) (sigma t)).

Lemma state_at_from nl sc sigma t : state_at nl sc sigma t = state_from nl sc (power_on nl) sigma t.
Proof. induction t; simpl; congruence. Qed.

Theorem run_compat nl sc s0 s0' sigma sigma' :
  st_wf nl s0 -> st_wf nl s0' -> st_rel s0 s0' ->
  (forall t, ins_rel (sigma t) (sigma' t)) ->
  forall t, Forall2 bv_compat (out_from nl sc s0 sigma t) (out_from nl sc s0' sigma' t).
Proof.
  intros W W' Hs Hsig t. unfold out_from.
  assert (G : st_rel (state_from nl sc s0 sigma t) (state_from nl sc s0' sigma' t) /\
              st_wf nl (state_from nl sc s0 sigma t) /\ st_wf nl (state_from nl sc s0' sigma' t)).
  { induction t as [|t IH]; simpl.
    - apply apply_events_rel; auto. constructor.
    - destruct IH as [H1 [H2 H3]]. apply apply_events_rel; auto. }
  destruct G as [G _]. apply outputs_rel. apply comb_eval_rel; auto.
Qed.

(* the property's wording: a concretisation (fully defined stimuli that agree with the abstract
   ones wherever those are defined, from the same power-on state) can never show the opposite
   of a bit the abstract run reports as defined *)
Corollary run_concretisation nl sc sigma sigma' :
  (forall t, Forall2 bv_le (sigma t) (sigma' t)) ->
  forall t, Forall2 bv_compat (out_at nl sc sigma t) (out_at nl sc sigma' t).
Proof.
  intros Hle t. unfold out_at, vals_at. rewrite !state_at_from.
  apply (run_compat nl sc (power_on nl) (power_on nl) sigma sigma'); auto using power_on_wf.
  - unfold st_rel. induction (power_on nl); constructor; auto. split; [apply bv_compat_refl|reflexivity].
  - intro t'. specialize (Hle t'). unfold ins_rel. induction Hle; constructor; auto. apply bv_le_compat. assumption.
Qed.
