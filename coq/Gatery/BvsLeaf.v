(* C18 -- proofs, part 1: bit-level characterisation of the BitManipulation.h leaves. *)
From Coq Require Import List NArith ZArith Bool Lia.
From Gatery Require Import BvsDefs BvsSpec.
Import ListNotations.
Ltac Zify.zify_post_hook ::= Z.to_euclidean_division_equations.
Local Open Scope N_scope.

(* ---- testbit of the primitive word operations ---- *)
Lemma tb_ones n i : N.testbit (N.ones n) i = (i <? n).
Proof.
  destruct (N.ltb_spec i n); [apply N.ones_spec_low | apply N.ones_spec_high]; lia.
Qed.

Lemma tb_shl a n i : N.testbit (N.shiftl a n) i = (n <=? i) && N.testbit a (i - n).
Proof.
  destruct (N.leb_spec n i); simpl.
  - apply N.shiftl_spec_high'; lia.
  - apply N.shiftl_spec_low; lia.
Qed.

Lemma tb_shr a n i : N.testbit (N.shiftr a n) i = N.testbit a (i + n).
Proof. apply N.shiftr_spec'. Qed.

Lemma tb_wrap64 x i : N.testbit (wrap64 x) i = (i <? 64) && N.testbit x i.
Proof. unfold wrap64. rewrite N.land_spec, tb_ones. apply andb_comm. Qed.

Lemma tb_not64 a i : N.testbit (not64 a) i = (i <? 64) && negb (N.testbit a i).
Proof. unfold not64. rewrite N.ldiff_spec, tb_ones. reflexivity. Qed.

Lemma tb_shl64 a n i : N.testbit (shl64 a n) i = (i <? 64) && ((n <=? i) && N.testbit a (i - n)).
Proof. unfold shl64. rewrite tb_wrap64, tb_shl. reflexivity. Qed.

Lemma tb_andNot a b i : N.testbit (andNot a b) i = (i <? 64) && negb (N.testbit a i) && N.testbit b i.
Proof. unfold andNot. rewrite N.land_spec, tb_not64. reflexivity. Qed.

Lemma tb_0 i : N.testbit 0 i = false.
Proof. apply N.bits_0. Qed.

Definition lt64 (x : N) : Prop := x < 2 ^ 64.

Lemma lt64_tb x i : lt64 x -> 64 <= i -> N.testbit x i = false.
Proof.
  intros Hx Hi. unfold lt64 in Hx.
  rewrite <- (N.mod_small x (2 ^ 64)) by exact Hx.
  apply N.mod_pow2_bits_high. exact Hi.
Qed.

Lemma tb_lt64 x : (forall i, 64 <= i -> N.testbit x i = false) -> lt64 x.
Proof.
  intro H. unfold lt64.
  assert (E : x mod 2 ^ 64 = x).
  { apply N.bits_inj. intro i. destruct (N.lt_ge_cases i 64) as [Hi | Hi].
    - apply N.mod_pow2_bits_low. exact Hi.
    - rewrite N.mod_pow2_bits_high by exact Hi. symmetry. apply H. exact Hi. }
  rewrite <- E. apply N.mod_lt. apply N.pow_nonzero. discriminate.
Qed.

Lemma lt64_0 : lt64 0.
Proof. unfold lt64. reflexivity. Qed.

Lemma lt64_wrap64 x : lt64 (wrap64 x).
Proof. apply tb_lt64. intros i Hi. rewrite tb_wrap64. destruct (N.ltb_spec i 64); [lia | reflexivity]. Qed.

Lemma lt64_not64 x : lt64 (not64 x).
Proof. apply tb_lt64. intros i Hi. rewrite tb_not64. destruct (N.ltb_spec i 64); [lia | reflexivity]. Qed.

Lemma lt64_shl64 a n : lt64 (shl64 a n).
Proof. apply lt64_wrap64. Qed.

Lemma lt64_land_l a b : lt64 a -> lt64 (N.land a b).
Proof. intros H. apply tb_lt64. intros i Hi. rewrite N.land_spec, (lt64_tb a i H Hi). reflexivity. Qed.

Lemma lt64_land_r a b : lt64 b -> lt64 (N.land a b).
Proof. intros H. rewrite N.land_comm. apply lt64_land_l. exact H. Qed.

Lemma lt64_lor a b : lt64 a -> lt64 b -> lt64 (N.lor a b).
Proof.
  intros Ha Hb. apply tb_lt64. intros i Hi.
  rewrite N.lor_spec, (lt64_tb a i Ha Hi), (lt64_tb b i Hb Hi). reflexivity.
Qed.

Lemma lt64_lxor a b : lt64 a -> lt64 b -> lt64 (N.lxor a b).
Proof.
  intros Ha Hb. apply tb_lt64. intros i Hi.
  rewrite N.lxor_spec, (lt64_tb a i Ha Hi), (lt64_tb b i Hb Hi). reflexivity.
Qed.

Lemma lt64_shr a n : lt64 a -> lt64 (N.shiftr a n).
Proof.
  intros Ha. apply tb_lt64. intros i Hi. rewrite tb_shr. apply lt64_tb; [exact Ha | lia].
Qed.

Lemma lt64_andNot a b : lt64 (andNot a b).
Proof. unfold andNot. apply lt64_land_l. apply lt64_not64. Qed.

(* ---- a small decision tactic for boolean combinations of N comparisons ---- *)
Ltac cmp_case :=
  match goal with
  | |- context [N.ltb ?a ?b] => destruct (N.ltb_spec a b)
  | |- context [N.leb ?a ?b] => destruct (N.leb_spec a b)
  | |- context [N.eqb ?a ?b] => destruct (N.eqb_spec a b)
  end.
Ltac cmp_cases := repeat cmp_case.
Ltac bsimpl := cbn [andb orb negb xorb].
Ltac bool_close :=
  bsimpl; try reflexivity; try lia;
  rewrite ?andb_true_r, ?andb_false_r, ?orb_false_r, ?orb_true_r; bsimpl;
  try reflexivity; try lia.

(* ---- bitMaskRange ---- *)
Lemma tb_bitMaskRange start count i :
  N.testbit (bitMaskRange start count) i = (i <? 64) && ((start <=? i) && (i - start <? count)).
Proof.
  unfold bitMaskRange. destruct (N.leb_spec 64 count).
  - rewrite tb_shl64, tb_not64, tb_0. cmp_cases; bool_close.
  - rewrite tb_shl64, tb_ones. reflexivity.
Qed.

Lemma lt64_bitMaskRange start count : lt64 (bitMaskRange start count).
Proof. unfold bitMaskRange. destruct (64 <=? count); apply lt64_shl64. Qed.

Lemma bitMaskRange_0_64 : bitMaskRange 0 64 = N.ones 64.
Proof. reflexivity. Qed.

(* value of bitMaskRange when it fits: (2^count - 1) * 2^start *)
Lemma bitMaskRange_value start count :
  start + count <= 64 -> bitMaskRange start count = (2 ^ count - 1) * 2 ^ start.
Proof.
  intro H. apply N.bits_inj. intro i. rewrite tb_bitMaskRange.
  rewrite <- N.shiftl_mul_pow2, tb_shl.
  replace (2 ^ count - 1) with (N.ones count) by (rewrite N.ones_equiv; apply N.pred_sub).
  rewrite tb_ones. cmp_cases; bool_close.
Qed.

(* ---- bitfieldExtract (generic template) ---- *)
Lemma tb_bitfieldExtract a start count i :
  start < 256 -> count < 256 ->
  N.testbit (bitfieldExtract a start count) i
  = (i <? 64) && (i <? count) && N.testbit a (i + start).
Proof.
  intros Hs Hc. unfold bitfieldExtract.
  assert (E : forall x, x < 256 -> N.land x 255 = x).
  { intros x Hx. change 255 with (N.ones 8). rewrite N.land_ones. apply N.mod_small. exact Hx. }
  rewrite (E start Hs), (E count Hc).
  rewrite N.land_spec, tb_shr, tb_bitMaskRange.
  replace (i - 0) with i by lia.
  cmp_cases; bool_close.
Qed.

Lemma lt64_bitfieldExtract a start count : lt64 (bitfieldExtract a start count).
Proof. unfold bitfieldExtract. apply lt64_land_r. apply lt64_bitMaskRange. Qed.

(* ---- bitfieldInsert ---- *)
Lemma tb_bitfieldInsert a start count v i :
  lt64 a ->
  N.testbit (bitfieldInsert a start count v) i
  = if (i <? 64) && (start <=? i) && (i - start <? count)
    then N.testbit v (i - start) else N.testbit a i.
Proof.
  intro Ha. unfold bitfieldInsert.
  rewrite N.lor_spec, tb_andNot, N.land_spec, tb_shl64, !tb_bitMaskRange.
  destruct (N.ltb_spec i 64).
  - cmp_cases; simpl; try lia; destruct (N.testbit a i), (N.testbit v (i - start)); reflexivity.
  - simpl. symmetry. apply lt64_tb; assumption.
Qed.

Lemma lt64_bitfieldInsert a start count v : lt64 (bitfieldInsert a start count v).
Proof.
  unfold bitfieldInsert. apply lt64_lor.
  - apply lt64_andNot.
  - apply lt64_land_l. apply lt64_bitMaskRange.
Qed.

(* ---- lists of bits <-> numbers ---- *)
Lemma tb_N_of_bits l i : N.testbit (N_of_bits l) i = nth (N.to_nat i) l false.
Proof.
  revert i. induction l as [|b r IH]; intro i.
  - cbn [N_of_bits]. rewrite tb_0. destruct (N.to_nat i); reflexivity.
  - cbn [N_of_bits]. destruct (N.eq_dec i 0) as [-> | Hi].
    + rewrite N.add_comm, N.testbit_0_r. reflexivity.
    + replace i with (N.succ (i - 1)) at 1 by lia.
      rewrite N.add_comm, N.testbit_succ_r, IH.
      replace (N.to_nat i) with (S (N.to_nat (i - 1))) by lia. reflexivity.
Qed.

Lemma length_bits_of_N len v : length (bits_of_N len v) = len.
Proof. unfold bits_of_N. rewrite map_length, seq_length. reflexivity. Qed.

Lemma nth_bits_of_N len v i :
  nth i (bits_of_N len v) false = (Nat.ltb i len) && N.testbit v (N.of_nat i).
Proof.
  unfold bits_of_N. destruct (Nat.ltb_spec i len).
  - rewrite (nth_indep _ false (N.testbit v (N.of_nat 0))) by (rewrite map_length, seq_length; lia).
    rewrite (map_nth (fun i => N.testbit v (N.of_nat i))), seq_nth by lia. reflexivity.
  - apply nth_overflow. rewrite map_length, seq_length. lia.
Qed.

Lemma length_bits_of_Z len v : length (bits_of_Z len v) = len.
Proof. unfold bits_of_Z. rewrite map_length, seq_length. reflexivity. Qed.

Lemma nth_bits_of_Z len v i :
  nth i (bits_of_Z len v) false = (Nat.ltb i len) && Z.testbit v (Z.of_nat i).
Proof.
  unfold bits_of_Z. destruct (Nat.ltb_spec i len).
  - rewrite (nth_indep _ false (Z.testbit v (Z.of_nat 0))) by (rewrite map_length, seq_length; lia).
    rewrite (map_nth (fun i => Z.testbit v (Z.of_nat i))), seq_nth by lia. reflexivity.
  - apply nth_overflow. rewrite map_length, seq_length. lia.
Qed.

(* N_of_bits (bits_of_N len v) = v mod 2^len *)
Lemma N_of_bits_of_N len v : N_of_bits (bits_of_N len v) = v mod 2 ^ N.of_nat len.
Proof.
  apply N.bits_inj. intro i. rewrite tb_N_of_bits, nth_bits_of_N, N2Nat.id.
  destruct (Nat.ltb_spec (N.to_nat i) len).
  - rewrite N.mod_pow2_bits_low by lia. reflexivity.
  - rewrite N.mod_pow2_bits_high by lia. reflexivity.
Qed.

(* the unsigned reading of the low len bits of a two's complement integer is z mod 2^len *)
Lemma N_of_bits_of_Z len z :
  Z.of_N (N_of_bits (bits_of_Z len z)) = (z mod 2 ^ Z.of_nat len)%Z.
Proof.
  apply Z.bits_inj'. intros i Hi.
  rewrite Z.testbit_of_N' by exact Hi.
  rewrite tb_N_of_bits, nth_bits_of_Z.
  replace (Z.of_nat (N.to_nat (Z.to_N i))) with i by lia.
  destruct (Nat.ltb_spec (N.to_nat (Z.to_N i)) len); simpl.
  - rewrite Z.mod_pow2_bits_low by lia. reflexivity.
  - rewrite Z.mod_pow2_bits_high by lia. reflexivity.
Qed.
