(* C09 -- The circuit graph stays well formed under every mutation.
   Statements only; proofs are in WfLemmas.v, WfViews.v, WfEdges.v, WfOps.v, WfMain.v, WfCheck.v.
   Model (graph store, operations transcribed from NodeIO.cpp / Node.cpp, invariant, checker): WfDefs.v.
   Non-vacuity: WfExamples.v.

   Memory safety proper (use-after-free, out-of-bounds) is a property of the C++ run time and is NOT
   stated here; the in-bounds / liveness preconditions of every call appear as [op_struct_pre]. *)
From Coq Require Import List NArith Arith Bool.
From Gatery Require Import WfDefs WfLemmas WfViews WfEdges WfOps WfMain WfCheck WfDrivers WfExamples.
Import ListNotations.

(* ---- the list idiom every erase in the code base uses ---- *)

(* std::find + swap with back + pop_back removes exactly one occurrence of the element and keeps the
   multiplicity of every other element, whatever its position. *)
Theorem swap_with_back_erase : forall (l : list nport) (a x : nport),
  In a l ->
  count_np x (swap_remove nport_eq_dec a l) = (if nport_eq_dec x a then count_np x l - 1 else count_np x l)
  /\ S (length (swap_remove nport_eq_dec a l)) = length l.
Proof. exact swap_remove_spec. Qed.
Print Assumptions swap_with_back_erase.

Example swap_with_back_erase_ex :
  swap_remove nport_eq_dec (2%N, 0) [(1%N, 0); (2%N, 0); (3%N, 0); (4%N, 0)] = [(1%N, 0); (4%N, 0); (3%N, 0)].
Proof. reflexivity. Qed.

(* ---- each operation, under its C++ precondition ---- *)

Theorem disconnectInput_preserves_Inv : forall g a, Inv g -> Inv (disconnectInput g a).
Proof. exact WfEdges.disconnectInput_preserves_Inv. Qed.
Print Assumptions disconnectInput_preserves_Inv.

(* connectInput == rewireInput: in-range input, existing output; the caller answers for the type
   requirement of the rewired node only -- every other node is proved unaffected *)
Theorem connectInput_preserves_Inv : forall g a out,
  Inv g -> in_validb g a = true -> osrcb g out = true ->
  node_ok_at (connectInput g a out) (fst a) = true ->
  Inv (connectInput g a out).
Proof. exact WfEdges.connectInput_preserves_Inv. Qed.
Print Assumptions connectInput_preserves_Inv.

(* ... and that obligation is void when the new driver has the type of the old one, or is nullptr *)
Theorem rewire_same_type_needs_no_check : forall g a out,
  Inv g -> in_validb g a = true -> osrcb g out = true ->
  (out = None \/ exists b b0, out = Some b /\ drv g a = Some b0 /\ otype g b = otype g b0) ->
  node_ok_at (connectInput g a out) (fst a) = true.
Proof. exact connect_same_type_ok. Qed.
Print Assumptions rewire_same_type_needs_no_check.

Example connect_hyps_satisfiable :
  Inv ex_g0 /\ in_validb ex_g0 (4%N, 1) = true /\ osrcb ex_g0 (Some (3%N, 0)) = true /\
  node_ok_at (connectInput ex_g0 (4%N, 1) (Some (3%N, 0))) 4 = true.
Proof. split; [exact (proj1 ex_g0_Inv) | vm_compute; repeat split; reflexivity]. Qed.

(* bypassOutputToInput; the loop does not terminate in C++ when the bypassed input is driven by the
   bypassed output itself, hence the premise *)
Theorem bypass_preserves_Inv : forall g n o i,
  Inv g -> drv g (n, i) <> Some (n, o) ->
  forallb (node_ok_at (bypassOutputToInput g n o i)) (map fst (cons g (n, o))) = true ->
  Inv (bypassOutputToInput g n o i).
Proof. exact WfEdges.bypass_preserves_Inv. Qed.
Print Assumptions bypass_preserves_Inv.

(* bypassing a node whose bypassed input carries the type of the bypassed output (or nothing) leaves
   every consumer's requirement intact: all forwarding nodes, no-op rewires, ... *)
Theorem bypass_same_type_needs_no_check : forall g n o i,
  Inv g -> drv g (n, i) <> Some (n, o) ->
  (drv g (n, i) = None \/ exists s, drv g (n, i) = Some s /\ otype g s = otype g (n, o)) ->
  forallb (node_ok_at (bypassOutputToInput g n o i)) (map fst (cons g (n, o))) = true.
Proof. exact bypass_same_type_ok. Qed.
Print Assumptions bypass_same_type_needs_no_check.

(* the bypass really moves every consumer and leaves every other input alone *)
Theorem bypass_moves_exactly_the_consumers : forall g n o i x,
  Inv g -> drv g (n, i) <> Some (n, o) ->
  drv (bypassOutputToInput g n o i) x = if onport_eq_dec (drv g x) (Some (n, o)) then drv g (n, i) else drv g x.
Proof. exact bypass_drv_spec. Qed.
Print Assumptions bypass_moves_exactly_the_consumers.

Example bypass_hyps_satisfiable :
  let g := run ex_g0 (firstn 2 ex_ops) in
  Inv g /\ drv g (1%N, 0) <> Some (1%N, 0) /\ cons g (1%N, 0) = [(2%N, 0)] /\
  forallb (node_ok_at (bypassOutputToInput g 1 0 0)) (map fst (cons g (1%N, 0))) = true.
Proof.
  split; [apply run_preserves_Inv; exact (proj1 ex_g0_Inv)|].
  vm_compute. repeat split; try reflexivity. discriminate.
Qed.

(* setOutputConnectionType: the code refuses a type change while consumers are attached, therefore no
   consumer can be affected; only the node itself is the caller's business *)
Theorem setOutputConnectionType_preserves_Inv : forall g b t,
  Inv g -> node_ok_at (setOutputConnectionType g b t) (fst b) = true -> Inv (setOutputConnectionType g b t).
Proof. exact WfOps.setOutputConnectionType_preserves_Inv. Qed.
Print Assumptions setOutputConnectionType_preserves_Inv.

(* destruction: detaches group and clocks, disconnects all inputs and all consumers, then frees *)
Theorem destroyNode_preserves_Inv : forall g n, Inv g -> Inv (destroyNode g n).
Proof. exact WfMain.destroyNode_preserves_Inv. Qed.
Print Assumptions destroyNode_preserves_Inv.

(* every operation of the interface (create, addGroup, createClock, connect/rewire, disconnect,
   Node_Signal::connectInput, setOutputConnectionType, resizeInputs, resizeOutputs, bypass, moveToGroup,
   addClock, attachClock, detachClock, addRef, removeRef, destroy) under its precondition [op_pre] *)
Theorem op_preserves_Inv : forall g o, Inv g -> op_pre g o = true -> Inv (exec g o).
Proof. exact exec_preserves_Inv. Qed.
Print Assumptions op_preserves_Inv.

(* ---- arbitrary sequences ---- *)
Theorem ops_preserve_Inv : forall ops g, Inv g -> Inv (run g ops).
Proof. exact run_preserves_Inv. Qed.
Print Assumptions ops_preserve_Inv.

Theorem reachable_graphs_are_well_formed : forall ops, Inv (run empty_graph ops).
Proof. exact reachable_Inv. Qed.
Print Assumptions reachable_graphs_are_well_formed.

(* ... together with "every node sits in a group", for sequences without createNode-without-group and
   moveToGroup(nullptr) *)
Theorem ops_preserve_wf : forall ops g,
  Inv g -> AllGrouped g -> Inv (fold_left stepG ops g) /\ AllGrouped (fold_left stepG ops g).
Proof. exact run_preserves_wf. Qed.
Print Assumptions ops_preserve_wf.

Example ops_hyps_satisfiable :
  Inv ex_g0 /\ AllGrouped ex_g0 /\ run ex_g0 ex_ops <> ex_g0 /\
  fold_left stepG ex_ops ex_g0 = run ex_g0 ex_ops /\
  forallb (fun k => op_pre (run ex_g0 (firstn k ex_ops)) (nth k ex_ops OCreateClock)) (seq 0 6) = true.
Proof.
  split; [exact (proj1 ex_g0_Inv)|]. split; [exact (proj2 ex_g0_Inv)|].
  split; [intros H; apply (f_equal (fun g => getn g 3)) in H; vm_compute in H; discriminate|].
  vm_compute. split; reflexivity.
Qed.

(* ---- the checker that is run on every dump of the real circuit ---- *)
Theorem inv_check_reflect : forall g, inv_check g = true <-> Inv g.
Proof. exact WfCheck.inv_check_reflect. Qed.
Print Assumptions inv_check_reflect.

Theorem wf_check_reflect : forall g, wf_check g = true <-> Inv g /\ AllGrouped g.
Proof. exact WfCheck.wf_check_reflect. Qed.
Print Assumptions wf_check_reflect.

Example wf_check_both_ways :
  wf_check (run ex_g0 ex_ops) = true /\ inv_check (damage_cons ex_g0) = false /\ inv_check (damage_dup ex_g0) = false /\
  inv_check (damage_clk ex_g0) = false /\ inv_check (damage_dangling ex_g0) = false.
Proof. vm_compute. repeat split; reflexivity. Qed.

(* ---- what the invariant says, in the wording of the property ---- *)
Theorem edges_exactly_once : forall g, Inv g ->
  forall a b, drv g a = Some b <-> count_np a (cons g b) = 1.
Proof. exact WfMain.edges_exactly_once. Qed.
Print Assumptions edges_exactly_once.

Theorem every_node_in_one_group : forall g, Inv g ->
  forall n gid, grp_of g n = Some gid <-> count_N n (members g gid) = 1.
Proof. exact one_group. Qed.
Print Assumptions every_node_in_one_group.

Theorem clocked_node_registered : forall g, Inv g ->
  forall a c, clk_of g a = Some c <-> count_np a (clocked g c) = 1.
Proof. exact clock_registered. Qed.
Print Assumptions clocked_node_registered.

(* nothing refers to a destroyed node, a foreign group or a foreign clock *)
Theorem nothing_dangles : forall g, Inv g ->
  (forall a b, drv g a = Some b -> out_validb g b = true /\ liveb g (fst b) = true) /\
  (forall b a, In a (cons g b) -> in_validb g a = true /\ liveb g (fst a) = true /\ drv g a = Some b) /\
  (forall n gid, grp_of g n = Some gid -> groupb g gid = true) /\
  (forall gid n, In n (members g gid) -> liveb g n = true /\ grp_of g n = Some gid) /\
  (forall a c, clk_of g a = Some c -> clockb g c = true) /\
  (forall c a, In a (clocked g c) -> clk_validb g a = true /\ clk_of g a = Some c).
Proof. exact no_dangling. Qed.
Print Assumptions nothing_dangles.

(* ---- clause (vii): a clock and its logic driver nodes name each other ---- *)

(* Clock::m_clockDriver = n  <->  n is a live Node_Signal2Clk whose clock port is this clock (same for the reset
   driver): no dangling driver, no driver registered with another clock, no stale second driver *)
Theorem clock_and_driver_name_each_other : forall g, drivers_ok g ->
  (forall c n, clkdrv g c = Some n <-> (liveb g n = true /\ role_of g n = 1%N /\ clk_of g (n, 0) = Some c)) /\
  (forall c n, rstdrv g c = Some n <-> (liveb g n = true /\ role_of g n = 2%N /\ clk_of g (n, 0) = Some c)).
Proof. exact clock_driver_agree. Qed.
Print Assumptions clock_and_driver_name_each_other.

(* Clock::setLogicClockDriver / setLogicResetDriver, including the REPLACEMENT of an existing driver (the old one is
   un-bound, the new one bound) and re-binding the current driver *)
Theorem setLogicDriver_preserves_drivers : forall which g c n,
  Inv g -> drivers_ok g -> op_struct_pre g (OSetDriver which c n) = true ->
  drivers_ok (setLogicDriver which g c n).
Proof. exact setLogicDriver_drivers. Qed.
Print Assumptions setLogicDriver_preserves_drivers.

Example setLogicDriver_hyps_satisfiable :
  let g := run ex_g0 (firstn 5 ex_drv_ops) in
  Inv g /\ drivers_ok g /\ rstdrv g 0 = Some 6%N /\ op_struct_pre g (OSetDriver false 0 7) = true /\
  rstdrv (setLogicDriver false g 0 7) 0 = Some 7%N /\ clk_of (setLogicDriver false g 0 7) (6%N, 0) = None.
Proof.
  assert (H : InvD (run ex_g0 (firstn 5 ex_drv_ops))) by (apply invd_check_reflect; vm_compute; reflexivity).
  split; [apply H|]. split; [apply H|]. vm_compute. repeat split; reflexivity.
Qed.

(* every operation / every sequence, all seven clauses *)
Theorem op_preserves_InvD : forall g o, InvD g -> op_pre g o = true -> InvD (exec g o).
Proof. exact exec_preserves_InvD. Qed.
Print Assumptions op_preserves_InvD.

Theorem ops_preserve_InvD : forall ops g, InvD g -> InvD (run g ops).
Proof. exact run_preserves_InvD. Qed.
Print Assumptions ops_preserve_InvD.

Theorem reachable_graphs_satisfy_all_clauses : forall ops, InvD (run empty_graph ops).
Proof. exact reachable_InvD. Qed.
Print Assumptions reachable_graphs_satisfy_all_clauses.

(* the checker run on the dumps *)
Theorem invd_check_reflect : forall g, invd_check g = true <-> InvD g.
Proof. exact WfDrivers.invd_check_reflect. Qed.
Print Assumptions invd_check_reflect.

Theorem wfd_check_reflect : forall g, wfd_check g = true <-> Inv g /\ AllGrouped g /\ drivers_ok g.
Proof. exact WfDrivers.wfd_check_reflect. Qed.
Print Assumptions wfd_check_reflect.

(* the half-renamed setLogicResetDriver (un-binds the clock driver instead of the old reset driver) passes clauses
   (i)-(vi) and is rejected by clause (vii) *)
Example half_renamed_reset_driver_rejected :
  let g := run ex_g0 (firstn 5 ex_drv_ops) in
  inv_check (buggy_setLogicResetDriver g 0 7) = true /\ invd_check (buggy_setLogicResetDriver g 0 7) = false.
Proof. vm_compute. split; reflexivity. Qed.

(* ---- clause (ii) spelled out for the two node kinds a width slip of a pass hits first ---- *)

(* a well-typed multiplexer: every connected data input has exactly the output type (width included) *)
Theorem mux_inputs_have_output_type : forall g n nd k i b t,
  getn g n = Some nd -> n_req nd = kind_req (KMux k) -> node_okb g nd = true ->
  1 <= i <= k -> drv g (n, i) = Some b -> otype g b = Some t -> otype g (n, 0) = Some t.
Proof. exact WfCheck.mux_inputs_have_output_type. Qed.
Print Assumptions mux_inputs_have_output_type.

(* a well-typed memory port: address is Log2C(depth) bits, write data is the word width, the enables are one bit *)
Theorem memport_widths : forall g n nd ab db,
  getn g n = Some nd -> n_req nd = kind_req (KMemPort ab db) -> node_okb g nd = true ->
  (forall b t, drv g (n, 2) = Some b -> otype g b = Some t -> ct_width t = ab) /\
  (forall b t, drv g (n, 3) = Some b -> otype g b = Some t -> ct_width t = db) /\
  (forall b t, drv g (n, 0) = Some b -> otype g b = Some t -> ct_width t = 1%N) /\
  (forall b t, drv g (n, 1) = Some b -> otype g b = Some t -> ct_width t = 1%N).
Proof. exact WfCheck.memport_widths. Qed.
Print Assumptions memport_widths.

(* a 4-bit address source, a memory port that needs 4 address bits: accepted; the same port fed with 5 bits: rejected *)
Example memport_width_checked :
  let mk w := run empty_graph [OCreate 0 1 0 [] (Some 0%N); OSetType (0%N, 0) (mkCt 1 w);
                               OCreate 7 3 1 (kind_req (KMemPort 4 8)) (Some 0%N); OConnect (1%N, 2) (Some (0%N, 0))] in
  drv (mk 4%N) (1%N, 2) = Some (0%N, 0) /\ inv_check (mk 4%N) = true /\
  drv (mk 5%N) (1%N, 2) = None /\
  inv_check (connectInput (mk 5%N) (1%N, 2) (Some (0%N, 0))) = false.
Proof. vm_compute. repeat split; reflexivity. Qed.
