(* C18 -- proofs, part 8: compareRange (DefaultConfig and ExtendedConfig specialisations),
   allOne / allZero / anyDefined, mergeUndefinedSelection. *)
From Coq Require Import List NArith ZArith Bool Lia.
From Gatery Require Import Bits BvsDefs BvsSpec BvsLeaf BvsWords BvsCopy BvsAbs BvsOps BvsEq BvsQuery.
Import ListNotations.
Ltac Zify.zify_post_hook ::= Z.to_euclidean_division_equations.
Local Open Scope N_scope.

Lemma nrange_from_app a n m : nrange_from a (n + m) = nrange_from a n ++ nrange_from (a + N.of_nat n) m.
Proof.
  revert a; induction n as [|n IH]; intro a.
  - simpl. replace (a + 0) with a by lia. reflexivity.
  - cbn [Nat.add nrange_from app]. f_equal. rewrite IH. f_equal. f_equal. lia.
Qed.

Lemma nrange_app a b c : a <= b -> b <= c -> nrange a c = nrange a b ++ nrange b c.
Proof.
  intros H1 H2. unfold nrange.
  replace (N.to_nat (c - a)) with (N.to_nat (b - a) + N.to_nat (c - b))%nat by lia.
  rewrite nrange_from_app. f_equal. f_equal. lia.
Qed.

Lemma N_eq_bits x y : x = y <-> forall j, N.testbit x j = N.testbit y j.
Proof. split; [intros -> j; reflexivity | apply N.bits_inj]. Qed.

Lemma N_zero_bits x : x = 0 <-> forall j, N.testbit x j = false.
Proof.
  rewrite N_eq_bits. split; intros H j; [rewrite H; apply tb_0 | rewrite H, tb_0; reflexivity].
Qed.

(* ------------------------------------------------------------------ *)
(* compareRange<DefaultConfig>                                         *)
(* ------------------------------------------------------------------ *)
Definition okD (sv sd dv dd : bool) : bool := Bool.eqb sd dd && (negb sd || Bool.eqb sv dv).

Section CmpD.
Variables (dv dd sv sd : list N) (dOff sOff : N).
Hypothesis (Wdv : wordsok dv) (Wdd : wordsok dd) (Wsv : wordsok sv) (Wsd : wordsok sd).

Definition bitokD (i : N) : bool :=
  okD (wbit sv (sOff + i)) (wbit sd (sOff + i)) (wbit dv (dOff + i)) (wbit dd (dOff + i)).

Lemma chunkD offset chunk :
  chunk <= 64 ->
  (extractWP sd (sOff + offset) chunk =? extractWP dd (dOff + offset) chunk)
  && (N.land (N.lxor (extractWP sv (sOff + offset) chunk) (extractWP dv (dOff + offset) chunk))
             (extractWP sd (sOff + offset) chunk) =? 0)
  = forallb bitokD (nrange offset (offset + chunk)).
Proof.
  intro Hc. apply eq_true_iff_eq. rewrite andb_true_iff, !N.eqb_eq, forallb_true_iff_nrange.
  rewrite N_eq_bits, N_zero_bits. split.
  - intros [H1 H2] i Hi. specialize (H1 (i - offset)). specialize (H2 (i - offset)).
    rewrite N.land_spec, N.lxor_spec in H2.
    rewrite !tb_extractWP in H1 by assumption. rewrite !tb_extractWP in H2 by assumption.
    destruct (N.ltb_spec (i - offset) chunk); [|lia]. cbn [andb] in H1, H2.
    replace (sOff + offset + (i - offset)) with (sOff + i) in H1, H2 by lia.
    replace (dOff + offset + (i - offset)) with (dOff + i) in H1, H2 by lia.
    unfold bitokD, okD. rewrite H1 in *.
    destruct (wbit sv (sOff + i)), (wbit dd (dOff + i)), (wbit dv (dOff + i)); simpl in *; congruence.
  - intro H. split; intro j.
    + rewrite !tb_extractWP by assumption. destruct (N.ltb_spec j chunk); [|reflexivity]. cbn [andb].
      specialize (H (offset + j) ltac:(lia)). unfold bitokD, okD in H.
      replace (sOff + (offset + j)) with (sOff + offset + j) in H by lia.
      replace (dOff + (offset + j)) with (dOff + offset + j) in H by lia.
      apply andb_true_iff in H. destruct H as [H _]. apply eqb_prop in H. exact H.
    + rewrite N.land_spec, N.lxor_spec, !tb_extractWP by assumption.
      destruct (N.ltb_spec j chunk); [|reflexivity]. cbn [andb].
      specialize (H (offset + j) ltac:(lia)). unfold bitokD, okD in H.
      replace (sOff + (offset + j)) with (sOff + offset + j) in H by lia.
      replace (dOff + (offset + j)) with (dOff + offset + j) in H by lia.
      destruct (wbit sv (sOff + offset + j)), (wbit sd (sOff + offset + j)),
               (wbit dv (dOff + offset + j)), (wbit dd (dOff + offset + j)); simpl in *; congruence.
Qed.

Lemma cmpLoopD_forallb fuel width offset :
  width - offset < N.of_nat fuel -> offset <= width ->
  cmpLoopD fuel dv dd dOff sv sd sOff width offset = forallb bitokD (nrange offset width).
Proof.
  revert offset; induction fuel as [|f IH]; intros offset Hf Ho; [lia|].
  cbn [cmpLoopD]. destruct (N.ltb_spec offset width) as [Hlt | Hge].
  - set (chunk := N.min 64 (width - offset)).
    assert (Hc : 1 <= chunk <= 64 /\ offset + chunk <= width) by (subst chunk; lia).
    rewrite (nrange_app offset (offset + chunk) width) by lia.
    rewrite forallb_app, <- chunkD by lia. rewrite IH by lia.
    destruct (extractWP sd (sOff + offset) chunk =? extractWP dd (dOff + offset) chunk); cbn [negb andb]; [|reflexivity].
    destruct (N.land _ _ =? 0); reflexivity.
  - unfold nrange. replace (N.to_nat (width - offset)) with 0%nat by lia. reflexivity.
Qed.
End CmpD.

Theorem compareRangeD_abs d dOff s sOff size :
  wf d -> wf s -> (DEFINED < length (planes d))%nat -> (DEFINED < length (planes s))%nat ->
  dOff + size <= bsize d -> sOff + size <= bsize s ->
  compareRangeD d dOff s sOff size = compareRangeD_spec (abs d) dOff (abs s) sOff size.
Proof.
  intros Hd Hs Pd Ps Id Is. unfold compareRangeD, compareRangeD_spec.
  unfold VALUE, DEFINED in *.
  assert (Wd0 := proj2 (wfP_plane d 0 Hd ltac:(lia))). assert (Wd1 := proj2 (wfP_plane d 1 Hd ltac:(lia))).
  assert (Ws0 := proj2 (wfP_plane s 0 Hs ltac:(lia))). assert (Ws1 := proj2 (wfP_plane s 1 Hs ltac:(lia))).
  rewrite cmpLoopD_forallb by (assumption || lia).
  rewrite forallb_nrange. replace (size - 0) with size by lia.
  destruct (lens d s dOff sOff ltac:(unfold DEFINED; lia) ltac:(unfold DEFINED; lia) size Id Is) as (L1 & L2 & L3 & L4).
  rewrite (list_eqb_nth tbit_eqb BX _ _ (N.to_nat size)) by (apply length_tslice; assumption).
  apply forallb_ext_in. intros i Hi. apply in_seq in Hi.
  rewrite !nth_tslice by (try assumption; lia).
  unfold bitokD, okD.
  replace (N.to_nat dOff + i)%nat with (N.to_nat (dOff + (0 + N.of_nat i))) by lia.
  replace (N.to_nat sOff + i)%nat with (N.to_nat (sOff + (0 + N.of_nat i))) by lia.
  unfold VALUE, DEFINED. rewrite !sbit_abs by lia.
  destruct (wbit (plane s 0) _), (wbit (plane s 1) _), (wbit (plane d 0) _), (wbit (plane d 1) _); reflexivity.
Qed.

(* ------------------------------------------------------------------ *)
(* compareRange<ExtendedConfig>                                        *)
(* ------------------------------------------------------------------ *)
Definition okX (av ad adc ahz bv bd bdc bhz : bool) : bool :=
  adc || bdc || (Bool.eqb ahz bhz && Bool.eqb ad bd && (negb ad || Bool.eqb av bv)).

Section CmpX.
Variables (d s : bvs) (dOff sOff : N).
Hypothesis (Wd : forall p, wordsok (plane d p)) (Ws : forall p, wordsok (plane s p)).

Definition bitokX (i : N) : bool :=
  okX (wbit (plane s VALUE) (sOff + i)) (wbit (plane s DEFINED) (sOff + i))
      (wbit (plane s DONT_CARE) (sOff + i)) (wbit (plane s HIGH_IMPEDANCE) (sOff + i))
      (wbit (plane d VALUE) (dOff + i)) (wbit (plane d DEFINED) (dOff + i))
      (wbit (plane d DONT_CARE) (dOff + i)) (wbit (plane d HIGH_IMPEDANCE) (dOff + i)).

Lemma chunkX offset chunk :
  chunk <= 64 ->
  let a p := extractW s p (sOff + offset) chunk in
  let b p := extractW d p (dOff + offset) chunk in
  let care := not64 (N.lor (a DONT_CARE) (b DONT_CARE)) in
  (N.land (N.lxor (a HIGH_IMPEDANCE) (b HIGH_IMPEDANCE)) care =? 0)
  && (N.land (N.lxor (a DEFINED) (b DEFINED)) care =? 0)
  && (N.land (N.land (N.lxor (a VALUE) (b VALUE)) (a DEFINED)) care =? 0)
  = forallb bitokX (nrange offset (offset + chunk)).
Proof.
  intros Hc a b care. apply eq_true_iff_eq.
  rewrite !andb_true_iff, !N.eqb_eq, forallb_true_iff_nrange, !N_zero_bits.
  assert (T : forall p j, N.testbit (a p) j = (j <? chunk) && wbit (plane s p) (sOff + offset + j)).
  { intros p j. unfold a, extractW. apply tb_extractWP; [apply Ws | exact Hc]. }
  assert (U : forall p j, N.testbit (b p) j = (j <? chunk) && wbit (plane d p) (dOff + offset + j)).
  { intros p j. unfold b, extractW. apply tb_extractWP; [apply Wd | exact Hc]. }
  assert (C : forall j, N.testbit care j = (j <? 64) && negb (N.testbit (a DONT_CARE) j || N.testbit (b DONT_CARE) j)).
  { intro j. unfold care. rewrite tb_not64, N.lor_spec. reflexivity. }
  split.
  - intros [[H1 H2] H3] i Hi.
    specialize (H1 (i - offset)). specialize (H2 (i - offset)). specialize (H3 (i - offset)).
    rewrite !N.land_spec, !N.lxor_spec, C, !T, !U in H1.
    rewrite !N.land_spec, !N.lxor_spec, C, !T, !U in H2.
    rewrite !N.land_spec, !N.lxor_spec, C, !T, !U in H3.
    destruct (N.ltb_spec (i - offset) chunk); [|lia]. destruct (N.ltb_spec (i - offset) 64); [|lia].
    cbn [andb] in H1, H2, H3.
    replace (sOff + offset + (i - offset)) with (sOff + i) in H1, H2, H3 by lia.
    replace (dOff + offset + (i - offset)) with (dOff + i) in H1, H2, H3 by lia.
    unfold bitokX, okX.
    destruct (wbit (plane s VALUE) (sOff + i)), (wbit (plane s DEFINED) (sOff + i)),
             (wbit (plane s DONT_CARE) (sOff + i)), (wbit (plane s HIGH_IMPEDANCE) (sOff + i)),
             (wbit (plane d VALUE) (dOff + i)), (wbit (plane d DEFINED) (dOff + i)),
             (wbit (plane d DONT_CARE) (dOff + i)), (wbit (plane d HIGH_IMPEDANCE) (dOff + i));
      simpl in *; congruence.
  - intro H.
    assert (K : forall j, j < chunk ->
       okX (wbit (plane s VALUE) (sOff + offset + j)) (wbit (plane s DEFINED) (sOff + offset + j))
           (wbit (plane s DONT_CARE) (sOff + offset + j)) (wbit (plane s HIGH_IMPEDANCE) (sOff + offset + j))
           (wbit (plane d VALUE) (dOff + offset + j)) (wbit (plane d DEFINED) (dOff + offset + j))
           (wbit (plane d DONT_CARE) (dOff + offset + j)) (wbit (plane d HIGH_IMPEDANCE) (dOff + offset + j)) = true).
    { intros j Hj. specialize (H (offset + j) ltac:(lia)). unfold bitokX in H.
      replace (sOff + (offset + j)) with (sOff + offset + j) in H by lia.
      replace (dOff + (offset + j)) with (dOff + offset + j) in H by lia. exact H. }
    repeat split; intro j; rewrite !N.land_spec, !N.lxor_spec, C, !T, !U;
      (destruct (N.ltb_spec j chunk); [|reflexivity]); specialize (K j ltac:(assumption));
      (destruct (N.ltb_spec j 64); [|lia]); cbn [andb]; unfold okX in K;
      destruct (wbit (plane s VALUE) (sOff + offset + j)), (wbit (plane s DEFINED) (sOff + offset + j)),
               (wbit (plane s DONT_CARE) (sOff + offset + j)), (wbit (plane s HIGH_IMPEDANCE) (sOff + offset + j)),
               (wbit (plane d VALUE) (dOff + offset + j)), (wbit (plane d DEFINED) (dOff + offset + j)),
               (wbit (plane d DONT_CARE) (dOff + offset + j)), (wbit (plane d HIGH_IMPEDANCE) (dOff + offset + j));
      simpl in *; congruence.
Qed.

Lemma cmpLoopX_forallb fuel width offset :
  width - offset < N.of_nat fuel -> offset <= width ->
  cmpLoopX fuel d dOff s sOff width offset = forallb bitokX (nrange offset width).
Proof.
  revert offset; induction fuel as [|f IH]; intros offset Hf Ho; [lia|].
  cbn [cmpLoopX]. destruct (N.ltb_spec offset width) as [Hlt | Hge].
  - set (chunk := N.min 64 (width - offset)).
    assert (Hc : 1 <= chunk <= 64 /\ offset + chunk <= width) by (subst chunk; lia).
    rewrite (nrange_app offset (offset + chunk) width) by lia.
    rewrite forallb_app. pose proof (chunkX offset chunk ltac:(lia)) as CX. cbv zeta in CX. rewrite <- CX.
    rewrite IH by lia.
    destruct (N.land (N.lxor (extractW s HIGH_IMPEDANCE _ _) _) _ =? 0); cbn [negb andb]; [|reflexivity].
    destruct (N.land (N.lxor (extractW s DEFINED _ _) _) _ =? 0); cbn [negb andb]; [|reflexivity].
    destruct (N.land (N.land _ _) _ =? 0); reflexivity.
  - unfold nrange. replace (N.to_nat (width - offset)) with 0%nat by lia. reflexivity.
Qed.
End CmpX.

Lemma wordsok_plane s p : wf s -> wordsok (plane s p).
Proof.
  intro H. destruct (Nat.lt_ge_cases p (length (planes s))) as [Hp | Hp].
  - apply (wfP_plane s p H Hp).
  - unfold plane. rewrite nth_overflow by exact Hp. constructor.
Qed.

Lemma nth_splane_abs s p i :
  (p < length (planes s))%nat -> i < bsize s ->
  nth (N.to_nat i) (splane (abs s) p) false = wbit (plane s p) i.
Proof. apply sbit_abs. Qed.

Theorem compareRangeX_abs d dOff s sOff size :
  wf d -> wf s -> (HIGH_IMPEDANCE < length (planes d))%nat -> (HIGH_IMPEDANCE < length (planes s))%nat ->
  dOff + size <= bsize d -> sOff + size <= bsize s ->
  compareRangeX d dOff s sOff size = compareRangeX_spec (abs d) dOff (abs s) sOff size.
Proof.
  intros Hd Hs Pd Ps Id Is. unfold compareRangeX, compareRangeX_spec.
  rewrite cmpLoopX_forallb; [| intro p; apply wordsok_plane; exact Hd | intro p; apply wordsok_plane; exact Hs | lia | lia].
  rewrite forallb_nrange. replace (size - 0) with size by lia.
  apply forallb_ext_in. intros i Hi. apply in_seq in Hi.
  unfold bitokX, okX, xbitmatch. cbv zeta.
  replace (N.to_nat dOff + i)%nat with (N.to_nat (dOff + (0 + N.of_nat i))) by lia.
  replace (N.to_nat sOff + i)%nat with (N.to_nat (sOff + (0 + N.of_nat i))) by lia.
  unfold VALUE, DEFINED, DONT_CARE, HIGH_IMPEDANCE in *. rewrite !nth_splane_abs by lia.
  reflexivity.
Qed.

(* ------------------------------------------------------------------ *)
(* allOne / allZero / anyDefined                                       *)
(* ------------------------------------------------------------------ *)
Lemma not64_zero_iff x : lt64 x -> (not64 x = 0 <-> forall j, j < 64 -> N.testbit x j = true).
Proof.
  intro Hx. rewrite N_zero_bits. split.
  - intros H j Hj. specialize (H j). rewrite tb_not64 in H.
    destruct (N.ltb_spec j 64); [|lia]. cbn [andb] in H. apply negb_false_iff. exact H.
  - intros H j. rewrite tb_not64. destruct (N.ltb_spec j 64); [|reflexivity].
    rewrite H by assumption. reflexivity.
Qed.

Lemma zero_iff_bits x : lt64 x -> (x = 0 <-> forall j, j < 64 -> N.testbit x j = false).
Proof.
  intro Hx. rewrite N_zero_bits. split.
  - intros H j _. apply H.
  - intros H j. destruct (N.lt_ge_cases j 64); [apply H; assumption | apply lt64_tb; assumption].
Qed.

Lemma all_chunks_iff (w : list N) (P : N -> bool) (b : bool) start n :
  wordsok w ->
  (forall c, (P (getw w c) = true <-> forall j, j < 64 -> N.testbit (getw w c) j = b)) ->
  let startFull := (start + 63) / 64 * 64 in
  let endFull := (start + n) / 64 * 64 in
  startFull < endFull ->
  (forallb (fun c => P (getw w c)) (nrange (startFull / 64) (endFull / 64))
   && forallb (fun i => Bool.eqb (wbit w i) b) (nrange start startFull)
   && forallb (fun i => Bool.eqb (wbit w i) b) (nrange endFull (start + n)))
  = forallb (fun i => Bool.eqb (wbit w i) b) (nrange start (start + n)).
Proof.
  intros Hw HP sf ef Hlt. apply eq_true_iff_eq.
  rewrite !andb_true_iff, !forallb_true_iff_nrange. split.
  - intros [[H1 H2] H3] i Hi.
    destruct (N.lt_ge_cases i sf); [apply H2; lia|].
    destruct (N.lt_ge_cases i ef); [|apply H3; lia].
    assert (Hc : sf / 64 <= i / 64 < ef / 64) by (subst sf ef; lia).
    specialize (H1 _ Hc). apply HP with (j := i mod 64) in H1; [|lia].
    unfold wbit. rewrite H1. apply eqb_reflx.
  - intro H. repeat split.
    + intros c Hc. apply HP. intros j Hj.
      specialize (H (64 * c + j) ltac:(subst sf ef; lia)). apply eqb_prop in H.
      unfold wbit in H.
      replace ((64 * c + j) / 64) with c in H by lia.
      replace ((64 * c + j) mod 64) with j in H by lia. exact H.
    + intros i Hi. apply H. subst sf ef. lia.
    + intros i Hi. apply H. subst sf ef. lia.
Qed.

Lemma forallb_wbit_slice sz w (f : bool -> bool) start n :
  start + n <= sz ->
  forallb (fun i => f (wbit w i)) (nrange start (start + n))
  = forallb f (slice (N.to_nat start) (N.to_nat n) (absP sz w)).
Proof.
  intro H. rewrite forallb_nrange, forallb_slice, length_absP.
  replace (start + n - start) with n by lia.
  replace (Nat.min (N.to_nat n) (N.to_nat sz - N.to_nat start)) with (N.to_nat n) by lia.
  apply forallb_ext_in. intros i Hi. apply in_seq in Hi. f_equal.
  replace (N.to_nat start + i)%nat with (N.to_nat (start + N.of_nat i)) by lia.
  symmetry. apply nth_absP_N. lia.
Qed.

Lemma slice_clamp (l : list bool) off n :
  slice off n l = slice off (Nat.min n (length l - off)) l.
Proof.
  unfold slice. destruct (Nat.le_gt_cases n (length l - off)).
  - rewrite Nat.min_l by assumption. reflexivity.
  - rewrite Nat.min_r by lia. rewrite !firstn_all2; try reflexivity; rewrite skipn_length; lia.
Qed.

Theorem allOne_abs s p start size :
  wf s -> (p < length (planes s))%nat -> start <= bsize s ->
  allOne s p start size = allOne_spec (abs s) p start size.
Proof.
  intros H Hp Hs. unfold allOne, allOne_spec. rewrite splane_abs by exact Hp.
  pose proof (wfP_plane s p H Hp) as [Hl Hw].
  set (n := N.min size (bsize s - start)).
  rewrite slice_clamp, length_absP.
  replace (Nat.min (N.to_nat size) (N.to_nat (bsize s) - N.to_nat start)) with (N.to_nat n) by (subst n; lia).
  rewrite <- (forallb_wbit_slice (bsize s) (plane s p) (fun b => b)) by (subst n; lia).
  assert (E : forall a b, forallb (fun i => bitExtract (plane s p) i) (nrange a b)
                          = forallb (fun i => Bool.eqb (wbit (plane s p) i) true) (nrange a b)).
  { intros a b. apply forallb_ext_in. intros i _. rewrite bitExtract_wbit. destruct (wbit _ i); reflexivity. }
  assert (E' : forallb (fun i => wbit (plane s p) i) (nrange start (start + n))
               = forallb (fun i => Bool.eqb (wbit (plane s p) i) true) (nrange start (start + n))).
  { apply forallb_ext_in. intros i _. destruct (wbit _ i); reflexivity. }
  rewrite E', !E.
  destruct (N.ltb_spec ((start + 63) / 64 * 64) ((start + n) / 64 * 64)) as [Hf | Hf]; [|reflexivity].
  apply (all_chunks_iff (plane s p) (fun x => not64 x =? 0) true start n Hw); [|exact Hf].
  intro c. rewrite N.eqb_eq. apply not64_zero_iff. apply wordsok_getw. exact Hw.
Qed.

Theorem allZero_abs s p start size :
  wf s -> (p < length (planes s))%nat -> start <= bsize s ->
  allZero s p start size = allZero_spec (abs s) p start size.
Proof.
  intros H Hp Hs. unfold allZero, allZero_spec. rewrite splane_abs by exact Hp.
  pose proof (wfP_plane s p H Hp) as [Hl Hw].
  set (n := N.min size (bsize s - start)).
  rewrite slice_clamp, length_absP.
  replace (Nat.min (N.to_nat size) (N.to_nat (bsize s) - N.to_nat start)) with (N.to_nat n) by (subst n; lia).
  rewrite <- (forallb_wbit_slice (bsize s) (plane s p) negb) by (subst n; lia).
  assert (E : forall a b, forallb (fun i => negb (bitExtract (plane s p) i)) (nrange a b)
                          = forallb (fun i => Bool.eqb (wbit (plane s p) i) false) (nrange a b)).
  { intros a b. apply forallb_ext_in. intros i _. rewrite bitExtract_wbit. destruct (wbit _ i); reflexivity. }
  assert (E' : forallb (fun i => negb (wbit (plane s p) i)) (nrange start (start + n))
               = forallb (fun i => Bool.eqb (wbit (plane s p) i) false) (nrange start (start + n))).
  { apply forallb_ext_in. intros i _. destruct (wbit _ i); reflexivity. }
  rewrite E', !E.
  destruct (N.ltb_spec ((start + 63) / 64 * 64) ((start + n) / 64 * 64)) as [Hf | Hf]; [|reflexivity].
  apply (all_chunks_iff (plane s p) (fun x => x =? 0) false start n Hw); [|exact Hf].
  intro c. rewrite N.eqb_eq. apply zero_iff_bits. apply wordsok_getw. exact Hw.
Qed.

Lemma anyDefined_allZero s start size : anyDefined s start size = negb (allZero s DEFINED start size).
Proof.
  unfold anyDefined, allZero.
  destruct ((start + 63) / 64 * 64 <? (start + N.min size (bsize s - start)) / 64 * 64).
  - rewrite !negb_andb, !existsb_negb_forallb.
    assert (E : forall (f : N -> bool) (l : list N), forallb (fun x => negb (negb (f x))) l = forallb f l).
    { intros f l. apply forallb_ext_in. intros x _. apply negb_involutive. }
    rewrite E. reflexivity.
  - rewrite existsb_negb_forallb. reflexivity.
Qed.

Theorem anyDefined_abs s start size :
  wf s -> (DEFINED < length (planes s))%nat -> start <= bsize s ->
  anyDefined s start size = anyDefined_spec (abs s) start size.
Proof.
  intros H Hp Hs. rewrite anyDefined_allZero, allZero_abs by assumption.
  unfold allZero_spec, anyDefined_spec. rewrite existsb_negb_forallb. reflexivity.
Qed.
