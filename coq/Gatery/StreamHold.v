(* C16 -- the hold rule (valid and payload stay until accepted) as a two-cycle local property of a
   stage, lifted to whole runs and through composition. *)
From Coq Require Import List NArith Bool Arith Lia.
From Gatery Require Import StreamDefs StreamSpec StreamCompose.
Import ListNotations.

Definition inhold2 (e1 e2 : ev) : Prop := hold2 (e_in e1, e_rin e1) (e_in e2, e_rin e2).
Definition outhold2 (e1 e2 : ev) : Prop := hold2 (e_out e1, e_rout e1) (e_out e2, e_rout e2).

(* unconditional: whatever the producer and the control inputs do, the output wire obeys the rule *)
Definition HoldU (S : stage) : Prop :=
  forall s c1 c2, outhold2 (evAt S s c1) (evAt S (stepS S s c1) c2).

(* conditional: under the local side condition Q on the two cycles, and if the input wire obeys the
   rule in these two cycles, so does the output wire *)
Definition HoldC (S : stage) (Q : st S -> cyc -> cyc -> Prop) : Prop :=
  forall s c1 c2, Q s c1 c2 -> inhold2 (evAt S s c1) (evAt S (stepS S s c1) c2) ->
                  outhold2 (evAt S s c1) (evAt S (stepS S s c1) c2).

Definition QTrue (S : stage) : st S -> cyc -> cyc -> Prop := fun _ _ _ => True.

Lemma HoldU_C : forall S Q, HoldU S -> HoldC S Q.
Proof. intros S Q H s c1 c2 _ _; apply H. Qed.

(* Q holds for every two consecutive cycles of the run from s *)
Fixpoint pairsFrom (S : stage) (Q : st S -> cyc -> cyc -> Prop) (s : st S) (cs : list cyc) : Prop :=
  match cs with
  | c1 :: t => match t with c2 :: _ => Q s c1 c2 /\ pairsFrom S Q (stepS S s c1) t | [] => True end
  | [] => True
  end.

Lemma holdU_traceFrom : forall S, HoldU S -> forall cs s, holdW (outW (traceFrom S s cs)).
Proof.
  intros S H cs; induction cs as [|c1 cs IH]; intro s; [exact I|].
  destruct cs as [|c2 cs]; [exact I|].
  specialize (IH (stepS S s c1)). cbn [traceFrom outW map] in *.
  apply holdW_cons2. split; [apply (H s c1 c2)| exact IH].
Qed.

Lemma holdC_traceFrom : forall S Q, HoldC S Q -> forall cs s,
  pairsFrom S Q s cs -> holdW (inW (traceFrom S s cs)) -> holdW (outW (traceFrom S s cs)).
Proof.
  intros S Q H cs; induction cs as [|c1 cs IH]; intros s HQ HI; [exact I|].
  destruct cs as [|c2 cs]; [exact I|].
  specialize (IH (stepS S s c1)). cbn [traceFrom outW inW map pairsFrom] in *.
  destruct HQ as [HQ1 HQ2]. apply holdW_cons2 in HI. destruct HI as [HI1 HI2].
  apply holdW_cons2. split; [apply (H s c1 c2 HQ1 HI1)| exact (IH HQ2 HI2)].
Qed.

(* ------------------------------------------------------------------ composition *)
Section HoldCompose.
Variables A B : stage.

Definition Qcomp (QA : st A -> cyc -> cyc -> Prop) (QB : st B -> cyc -> cyc -> Prop)
  : st (compose A B) -> cyc -> cyc -> Prop :=
  fun s c1 c2 =>
    let sa := fst s in let sb := snd s in
    let sa' := stepS A sa (upc A B sa sb c1) in let sb' := stepS B sb (midc A B sa sb c1) in
    QA sa (upc A B sa sb c1) (upc A B sa' sb' c2) /\ QB sb (midc A B sa sb c1) (midc A B sa' sb' c2).

Lemma HoldC_compose : forall QA QB, HoldC A QA -> HoldC B QB -> HoldC (compose A B) (Qcomp QA QB).
Proof.
  intros QA QB HA HB [sa sb] c1 c2 [Q1 Q2] HI.
  specialize (HA sa _ _ Q1). specialize (HB sb _ _ Q2).
  apply HB. apply HA. exact HI.
Qed.

Lemma HoldU_compose : HoldU B -> HoldU (compose A B).
Proof.
  intros HB [sa sb] c1 c2.
  exact (HB sb (midc A B sa sb c1) (midc A B (stepS A sa (upc A B sa sb c1)) (stepS B sb (midc A B sa sb c1)) c2)).
Qed.

Lemma pairsFrom_compose : forall QA QB cs sa sb,
  pairsFrom (compose A B) (Qcomp QA QB) (sa, sb) cs ->
  pairsFrom A QA sa (upcsFrom A B sa sb cs) /\ pairsFrom B QB sb (midcsFrom A B sa sb cs).
Proof.
  intros QA QB cs; induction cs as [|c1 cs IH]; intros sa sb H; [split; exact I|].
  destruct cs as [|c2 cs]; [split; exact I|].
  cbn [pairsFrom] in H. destruct H as [[Q1 Q2] H]. rewrite step_compose in H.
  specialize (IH _ _ H). destruct IH as [IA IB].
  cbn [upcsFrom midcsFrom pairsFrom] in *. repeat split; assumption.
Qed.
End HoldCompose.

(* ------------------------------------------------------------------ the stages *)
Ltac hold_start := unfold outhold2, inhold2, hold2, evAt, stepS; simpl.

Lemma id_HoldC : HoldC idS (QTrue idS).
Proof. intros s c1 c2 _ H. exact H. Qed.

Lemma block_HoldU : HoldU blockS.
Proof. intros s [ctl1 b1 r1] [ctl2 b2 r2]; hold_start. intros Hv Hr; subst. auto. Qed.

Lemma regDown_HoldU : HoldU regDownS.
Proof. intros s [ctl1 b1 r1] [ctl2 b2 r2]; hold_start. intros Hv Hr; subst. rewrite Hv. simpl. auto. Qed.

Lemma ready_HoldU : HoldU readyS.
Proof.
  intros [vr d] [ctl1 b1 r1] [ctl2 b2 r2]; hold_start. intros Hv Hr; subst. simpl.
  destruct vr; simpl in *; [auto|]. rewrite Hv. auto.
Qed.

(* stall: the condition must not rise while a beat is waiting at the stall's own output *)
Definition stall_polite (k : nat) : st (stallS k) -> cyc -> cyc -> Prop :=
  fun s c1 c2 =>
    bvalid (e_out (evAt (stallS k) s c1)) = true -> c_rdy c1 = false -> nth k (c_ctl c2) false = false.

Lemma stall_HoldC : forall k, HoldC (stallS k) (stall_polite k).
Proof.
  intros k s [ctl1 b1 r1] [ctl2 b2 r2]; unfold stall_polite; hold_start.
  intros HQ HI Hv Hr. subst r1.
  specialize (HQ Hv eq_refl). rewrite HQ.
  destruct (nth k ctl1 false); simpl in *; [discriminate|].
  apply HI; auto.
Qed.

Lemma extend_HoldC : forall r, HoldC (extendS r) (QTrue _).
Proof.
  intros r [cnt sl] [ctl1 b1 r1] [ctl2 b2 r2] _; hold_start.
  intros HI Hv Hr. subst r1. apply andb_prop in Hv. destruct Hv as [Hl Hv].
  rewrite Hl in *. simpl in *. rewrite andb_false_r in *. simpl.
  destruct (HI Hv eq_refl) as [Hv2 Hx]. rewrite Hl, Hv2. split; [reflexivity|].
  unfold xf in *; simpl in *. injection Hx as -> -> ->. reflexivity.
Qed.

Lemma reduce_HoldC : forall r, HoldC (reduceS r) (QTrue _).
Proof.
  intros r cnt [ctl1 b1 r1] [ctl2 b2 r2] _; hold_start.
  intros HI Hv Hr. subst r1. simpl in *.
  destruct (HI Hv eq_refl) as [Hv2 Hx]. rewrite Hv. simpl. split; [exact Hv2|].
  unfold xf in *; simpl in *. injection Hx as -> -> ->. reflexivity.
Qed.

Lemma decouple_HoldU : HoldU decoupleS.
Proof. apply HoldU_compose, ready_HoldU. Qed.

Lemma blocks_HoldC : forall n, HoldC (blocksS n) (QTrue _).
Proof. intros [|n]; [apply id_HoldC | apply HoldU_C, HoldU_compose, block_HoldU]. Qed.

Lemma delay_HoldU : forall n, n <> 0 -> HoldU (delayS n).
Proof. intros [|n] H; [congruence|]. apply HoldU_compose, regDown_HoldU. Qed.

Lemma delay_HoldC : forall n, HoldC (delayS n) (QTrue _).
Proof. intros [|n]; [apply id_HoldC | apply HoldU_C, delay_HoldU; discriminate]. Qed.
