(* C05 -- the elaborated circuit computes what the sequential program computes. *)
From Gatery Require Import Bits FrontendDefs FrontendGraph FrontendWrite FrontendSteps.
Import ListNotations.

Section Proofs.
Variable inp : list bv.
Notation V := (V inp).

(* the code being elaborated is executed by the software run ... *)
Definition live (st : est) : Prop :=
  match eStack st with [] => True | sc :: _ => V (eG st) (sc_full sc) = [B1] end.
(* ... or skipped; D bounds the ids of all scopes of the skipped region from below *)
Definition dead (D : nat) (st : est) : Prop :=
  exists sc rest, eStack st = sc :: rest /\ V (eG st) (sc_full sc) = [B0] /\ D <= sc_id sc.

Definition keep (D : nat) (G G' : list gnode) (a b : sig * sigrec) : Prop :=
  fst a = fst b /\ sr_isc (snd a) = sr_isc (snd b) /\ sr_bit (snd a) = sr_bit (snd b) /\
  (sr_isc (snd a) < D -> V G' (sr_drv (snd b)) = V G (sr_drv (snd a))).

Definition lreads (G : list gnode) (rs : list rd) : list rdval := live_reads (eval_all inp G) rs.

Definition dead_pres (D : nat) (st st' : est) : Prop :=
  Forall2 (keep D (eG st) (eG st')) (eSigs st) (lastn (length (eSigs st)) (eSigs st')) /\
  lreads (eG st') (new_reads st st') = [].

(* ---- small facts ---- *)

Lemma lreads_app G a b : lreads G (a ++ b) = lreads G a ++ lreads G b.
Proof. unfold lreads, live_reads. rewrite filter_app, map_app. reflexivity. Qed.

Lemma lreads_ext G G' rs : ext G G' -> Forall (rd_ok (length G)) rs -> lreads G' rs = lreads G rs.
Proof.
  intros He H. unfold lreads, live_reads. induction H as [|r rs [Hn Hg] H IH]; simpl; auto.
  assert (Hgt : guard_true (eval_all inp G') r = guard_true (eval_all inp G) r).
  { unfold guard_true. destruct (rd_guard r) as [g|]; auto. simpl in Hg.
    change (getv (eval_all inp G') g) with (V G' g). change (getv (eval_all inp G) g) with (V G g).
    rewrite (V_ext inp G G' g He Hg). reflexivity. }
  rewrite Hgt. destruct (guard_true (eval_all inp G) r); simpl; rewrite IH; auto.
  f_equal. f_equal. apply (V_ext inp G G'); auto.
Qed.

Lemma keep_refl_ext D G G' S : ext G G' -> sigs_bounded (length G) S -> Forall2 (keep D G G') S S.
Proof.
  intros He H. induction H as [|a S Ha H IH]; constructor; auto.
  unfold keep. repeat split; auto. intros _. apply V_ext; auto.
Qed.

Lemma keep_trans D G1 G2 G3 a b c : keep D G1 G2 a b -> keep D G2 G3 b c -> keep D G1 G3 a c.
Proof.
  intros (A1 & A2 & A3 & A4) (B1 & B2 & B3 & B4). unfold keep. repeat split; try congruence.
  intro H. rewrite B4, A4; auto. rewrite <- A2. exact H.
Qed.

Lemma keep_weaken D D' G G' a b : D' <= D -> keep D G G' a b -> keep D' G G' a b.
Proof. intros Hd (A1 & A2 & A3 & A4). unfold keep. repeat split; auto. intro; apply A4; lia. Qed.

Lemma frame_new_reads_ok a b : WF b -> frame a b -> Forall (rd_ok (length (eG b))) (new_reads a b).
Proof.
  intros Hw Hf. pose proof (new_reads_spec _ _ Hf) as H. destruct Hw as [_ _ _ _ H5].
  rewrite H in H5. apply Forall_app in H5. tauto.
Qed.

Lemma dead_pres_trans D a b c :
  WF b -> frame a b -> frame b c -> dead_pres D a b -> dead_pres D b c -> dead_pres D a c.
Proof.
  intros Wb Fab Fbc [S1 R1] [S2 R2]. split.
  - pose proof (fr_sigs _ _ Fab) as L1.
    apply (Forall2_lastn _ (length (eSigs a))) in S2.
    rewrite lastn_lastn in S2 by exact L1.
    eapply Forall2_trans'; [|exact S1|exact S2]. intros; eapply keep_trans; eauto.
  - rewrite (new_reads_trans a b c Fab Fbc), lreads_app, R2, app_nil_r.
    rewrite (lreads_ext (eG b) (eG c)); [exact R1 | apply (fr_ext _ _ Fbc) | apply frame_new_reads_ok; auto].
Qed.

Lemma dead_pres_weaken D D' a b : D' <= D -> dead_pres D a b -> dead_pres D' a b.
Proof.
  intros Hd [S1 R1]. split; auto. eapply Forall2_impl; [|exact S1]. intros; eapply keep_weaken; eauto.
Qed.

Lemma rel_keep D G G' S S' E :
  rel inp G S E -> Forall2 (keep D G G') S S' -> Forall (fun xr => sr_isc (snd xr) < D) S -> rel inp G' S' E.
Proof.
  intros HR HK. revert E HR. induction HK as [|a b S S' (K1 & K2 & K3 & K4) HK IH]; intros E HR HD.
  - inversion HR; subst. constructor.
  - inversion HR as [|? y ? E0 [R1 R2] HR0]; subst. inversion HD; subst. constructor.
    + split; [congruence|]. rewrite K4; auto.
    + apply IH; auto.
Qed.

Lemma WF_isc_lt st : WF st -> Forall (fun xr => sr_isc (snd xr) < eNext st) (eSigs st).
Proof. intros [_ H _ _ _]. eapply Forall_impl; [|exact H]. intros a [_ Ha]. exact Ha. Qed.

Lemma Forall_update {A} (P : sig * A -> Prop) x a l :
  Forall P l -> (forall y, P (y, a)) -> Forall P (update x a l).
Proof.
  intros H Ha. induction H as [|[y b] l Hy H IH]; simpl; auto.
  destruct (Nat.eqb x y); constructor; auto.
Qed.

Lemma Forall2_update {A} (R : sig * A -> sig * A -> Prop) (P : sig * A -> Prop) x a a' l :
  Forall P l -> lookup x l = Some a -> (forall b, P b -> R b b) ->
  (forall y, P (y, a) -> R (y, a) (y, a')) ->
  Forall2 R l (update x a' l).
Proof.
  intros HP Hl Hr Ha. induction HP as [|[y b] l Hy HP IH]; simpl in *; [constructor|].
  destruct (Nat.eqb x y).
  - inversion Hl; subst. constructor; auto. clear -HP Hr. induction HP; constructor; auto.
  - constructor; auto.
Qed.

Lemma update_length {A} x (a : A) l : length (update x a l) = length l.
Proof. induction l as [|[y b] l IH]; simpl; auto. destruct (Nat.eqb x y); simpl; auto. Qed.

Lemma cur_scope_id_lt st : WF st -> cur_scope_id st < eNext st.
Proof.
  intros [H1 _ H3 _ _]. unfold cur_scope_id. destruct (eStack st) as [|sc r]; [lia|].
  inversion H3 as [|? ? (?&?&?&?) _]; auto.
Qed.

Lemma cur_guard_ob st : WF st -> ob (length (eG st)) (cur_guard st).
Proof.
  intros [_ _ H3 _ _]. unfold cur_guard. destruct (eStack st) as [|sc r]; simpl; auto.
  inversion H3 as [|? ? (?&?&?) _]; auto.
Qed.

(* ------------------------------------------------------------------------- *)
(** * The claims, per construct                                               *)
(* ------------------------------------------------------------------------- *)

Definition P_dead (st st' : est) : Prop := forall D, dead D st -> dead_pres D st st'.

Definition P_live (run : env -> option (env * list rdval)) (st st' : est) : Prop :=
  forall E E' R, live st -> rel inp (eG st) (eSigs st) E -> run E = Some (E', R) ->
    rel inp (eG st') (eSigs st') E' /\ lreads (eG st') (new_reads st st') = R.

(* ---- Decl ---- *)

Lemma decl_ok x b e st : WF st ->
  let st' := elab_stmt (Decl x b e) st in
  WF st' /\ frame st st' /\ P_dead st st' /\ P_live (run_stmt inp (Decl x b e)) st st'.
Proof.
  intros Hw. cbn [elab_stmt].
  destruct (elab_expr (eSigs st) e (eG st)) as [n G1] eqn:He.
  pose proof (WF_sigs_bounded _ Hw) as Hb.
  destruct (elab_expr_struct _ _ _ _ _ Hb He) as [E1 B1].
  pose proof (ext_length _ _ E1) as L1.
  pose proof Hw as [H1 H2 H3 H4 H5].
  assert (W' : WF (set_sigs (set_G st G1) ((x, mkSig n (cur_scope_id st) b) :: eSigs st))).
  { constructor; simpl; auto.
    - constructor; [split; simpl; [exact B1|apply cur_scope_id_lt; exact Hw]|].
      eapply sigs_ok_mono; [exact L1|apply le_n|exact H2].
    - eapply stack_ok_mono; [exact L1|apply le_n|exact H3].
    - eapply ob_mono; [exact L1|exact H4].
    - eapply reads_ok_mono; [exact L1|exact H5]. }
  assert (F' : frame st (set_sigs (set_G st G1) ((x, mkSig n (cur_scope_id st) b) :: eSigs st))).
  { constructor; simpl; auto. exists []. rewrite app_nil_r. reflexivity. }
  split; [exact W'|]. split; [exact F'|]. split.
  - intros D _. split; simpl.
    + rewrite lastn_cons by apply le_n. rewrite lastn_all. apply keep_refl_ext; auto.
    + unfold new_reads. simpl. rewrite skipn_all. reflexivity.
  - intros E E' R _ HR Hrun. simpl in Hrun. inversion Hrun; subst. split.
    + constructor; simpl.
      * split; auto. eapply elab_expr_sem; eauto.
      * eapply rel_ext; eauto.
    + unfold new_reads. simpl. rewrite skipn_all. reflexivity.
Qed.

(* ---- Read ---- *)

Lemma read_ok t x st : WF st ->
  let st' := elab_stmt (Read t x) st in
  WF st' /\ frame st st' /\ P_dead st st' /\ P_live (run_stmt inp (Read t x)) st st'.
Proof.
  intros Hw. cbn [elab_stmt].
  destruct (elab_expr (eSigs st) (ESig x) (eG st)) as [n G1] eqn:He.
  pose proof (WF_sigs_bounded _ Hw) as Hb.
  destruct (elab_expr_struct _ _ _ _ _ Hb He) as [E1 B1].
  pose proof (ext_length _ _ E1) as L1.
  pose proof Hw as [H1 H2 H3 H4 H5].
  set (st' := mkSt G1 (eNext st) (eLast st) (eStack st) (eSigs st) (eReads st ++ [mkRd t n (cur_guard st)])).
  assert (W' : WF st').
  { constructor; simpl; auto.
    - eapply sigs_ok_mono; [exact L1|apply le_n|exact H2].
    - eapply stack_ok_mono; [exact L1|apply le_n|exact H3].
    - eapply ob_mono; [exact L1|exact H4].
    - apply Forall_app. split; [eapply reads_ok_mono; [exact L1|exact H5]|].
      constructor; auto. split; simpl; auto. eapply ob_mono; [exact L1|apply cur_guard_ob; exact Hw]. }
  assert (F' : frame st st').
  { constructor; simpl; auto. eexists; reflexivity. }
  assert (NR : new_reads st st' = [mkRd t n (cur_guard st)]).
  { unfold new_reads. simpl. rewrite skipn_app, skipn_all, Nat.sub_diag. reflexivity. }
  split; [exact W'|]. split; [exact F'|]. split.
  - intros D (sc & rest & Hs & Hv & HD). split; simpl.
    + rewrite lastn_all. apply keep_refl_ext; auto.
    + rewrite NR. unfold lreads, live_reads, guard_true, cur_guard. simpl. rewrite Hs. simpl.
      change (getv (eval_all inp G1) (sc_full sc)) with (V G1 (sc_full sc)).
      rewrite (V_ext inp (eG st) G1); [rewrite Hv; reflexivity|exact E1|].
      rewrite Hs in H3. inversion H3 as [|? ? (?&?&?) _]; auto.
  - intros E E' R Hl HR Hrun. simpl in Hrun. inversion Hrun; subst. split.
    + simpl. eapply rel_ext; eauto.
    + rewrite NR. unfold lreads, live_reads, guard_true, cur_guard. simpl.
      assert (Hg : match match eStack st with sc :: _ => Some (sc_full sc) | [] => None end with
                   | Some g => match cond_val (getv (eval_all inp G1) g) with Some true => true | _ => false end
                   | None => true end = true).
      { unfold live in Hl. destruct (eStack st) as [|sc rest] eqn:Hs; auto.
        change (getv (eval_all inp G1) (sc_full sc)) with (V G1 (sc_full sc)).
        rewrite (V_ext inp (eG st) G1); [rewrite Hl; reflexivity|exact E1|].
        inversion H3 as [|? ? (?&?&?) _]; auto. }
      rewrite Hg. simpl. f_equal. f_equal.
      change (getv (eval_all inp G1) n) with (V G1 n).
      rewrite (elab_expr_sem inp _ _ _ _ _ _ Hb HR He). reflexivity.
Qed.

(* ---- Assign ---- *)

Lemma assign_ok x p e st : WF st ->
  let st' := elab_stmt (Assign x p e) st in
  WF st' /\ frame st st' /\ P_dead st st' /\ P_live (run_stmt inp (Assign x p e)) st st'.
Proof.
  intros Hw. cbn [elab_stmt].
  destruct (elab_expr (eSigs st) e (eG st)) as [n G1] eqn:He.
  pose proof (WF_sigs_bounded _ Hw) as Hb.
  destruct (elab_expr_struct _ _ _ _ _ Hb He) as [E1 B1].
  pose proof (ext_length _ _ E1) as L1.
  pose proof Hw as [H1 H2 H3 H4 H5].
  unfold do_assign. cbn [eSigs eG set_G eStack].
  destruct (lookup x (eSigs st)) as [r|] eqn:Hlk.
  2:{ (* unknown variable: nothing happens *)
    assert (W' : WF (set_G st G1)) by (apply WF_set_G; auto).
    assert (F' : frame st (set_G st G1)).
    { constructor; simpl; auto. exists []. rewrite app_nil_r. reflexivity. }
    split; [exact W'|]. split; [exact F'|]. split.
    - intros D _. split; simpl.
      + rewrite lastn_all. apply keep_refl_ext; auto.
      + unfold new_reads. simpl. rewrite skipn_all. reflexivity.
    - intros E E' R _ HR Hrun. simpl in Hrun. rewrite (rel_lookup_none inp _ _ _ _ HR Hlk) in Hrun.
      inversion Hrun; subst. split; [simpl; eapply rel_ext; eauto|].
      unfold new_reads. simpl. rewrite skipn_all. reflexivity. }
  assert (Hb1 : sigs_bounded (length G1) (eSigs st)) by (eapply sigs_bounded_mono; [exact L1|exact Hb]).
  destruct (elab_sels (eSigs st) p G1) as [gp G0] eqn:Hsel.
  destruct (elab_sels_struct _ _ _ _ _ Hb1 Hsel) as [E0 F0].
  pose proof (ext_length _ _ E0) as L0.
  assert (Hrd : sr_drv r < length (eG st)) by (eapply lookup_bounded; eauto).
  destruct (elab_write gp n (sr_drv r) G0) as [inn Gw] eqn:Hwr.
  destruct (elab_write_struct gp n G0 F0 ltac:(lia) (sr_drv r) G0 inn Gw (ext_refl _) ltac:(lia) Hwr) as [Ew Bw].
  pose proof (ext_length _ _ Ew) as Lw.
  assert (EGw : ext (eG st) Gw) by (eapply ext_trans; [exact E1|]; eapply ext_trans; [exact E0|exact Ew]).
  (* the conditional multiplexer *)
  set (muxed := match eStack st with
        | sc :: _ =>
            if Nat.ltb (sr_isc r) (sc_id sc) then
              if last_is_bit p (sr_bit r) then
                let (sg, Ga) := emit Gw (NSig (sr_drv r)) in emit Ga (NMux (sc_full sc) [sg; inn])
              else emit Gw (NMux (sc_full sc) [sr_drv r; inn])
            else (inn, Gw)
        | [] => (inn, Gw)
        end).
  destruct muxed as [fin G2] eqn:Hmux.
  assert (Hfin : ext Gw G2 /\ fin < length G2 /\
                 (live st -> V G2 fin = V Gw inn) /\
                 (forall D, dead D st -> sr_isc r < D -> V G2 fin = V (eG st) (sr_drv r))).
  { unfold muxed in Hmux. destruct (eStack st) as [|sc rest] eqn:Hs.
    - inversion Hmux; subst. split; [apply ext_refl|]. split; auto. split; auto.
      intros D (sc & rest & Hx & _). congruence.
    - inversion H3 as [|? ? (Hsc1 & Hsc2 & Hsc3 & _) _]; subst.
      assert (Vf : forall Gx, ext Gw Gx -> V Gx (sc_full sc) = V (eG st) (sc_full sc)).
      { intros Gx Hx. apply V_ext; auto. eapply ext_trans; eauto. }
      destruct (Nat.ltb (sr_isc r) (sc_id sc)) eqn:Hlt.
      + destruct (last_is_bit p (sr_bit r)).
        * unfold emit in Hmux. inversion Hmux; subst. clear Hmux.
          set (Ga := Gw ++ [NSig (sr_drv r)]).
          assert (La : length Ga = S (length Gw)) by (unfold Ga; rewrite app_length; simpl; lia).
          assert (Ea : ext Gw Ga) by apply ext_emit.
          split; [eapply ext_trans; [exact Ea|apply ext_emit]|].
          split; [rewrite app_length; simpl; lia|].
          assert (Vsg : V Ga (length Gw) = V (eG st) (sr_drv r)).
          { unfold Ga. rewrite V_emit. simpl. change (getv (eval_all inp Gw) (sr_drv r)) with (V Gw (sr_drv r)).
            apply V_ext; auto. }
          split.
          -- intro Hl. unfold live in Hl. rewrite Hs in Hl.
             rewrite V_emit. simpl.
             change (getv (eval_all inp Ga) (sc_full sc)) with (V Ga (sc_full sc)).
             rewrite (Vf Ga Ea), Hl. rewrite mux2_B1.
             change (getv (eval_all inp Ga) inn) with (V Ga inn). apply V_ext; auto.
          -- intros D (sc' & rest' & Hx & Hv & HD) Hr. rewrite Hs in Hx; inversion Hx; subst sc' rest'.
             rewrite V_emit. simpl.
             change (getv (eval_all inp Ga) (sc_full sc)) with (V Ga (sc_full sc)).
             rewrite (Vf Ga Ea), Hv. rewrite mux2_B0.
             change (getv (eval_all inp Ga) (length Gw)) with (V Ga (length Gw)). exact Vsg.
        * unfold emit in Hmux. inversion Hmux; subst. clear Hmux.
          split; [apply ext_emit|]. split; [rewrite app_length; simpl; lia|].
          split.
          -- intro Hl. unfold live in Hl. rewrite Hs in Hl.
             rewrite V_emit. simpl.
             change (getv (eval_all inp Gw) (sc_full sc)) with (V Gw (sc_full sc)).
             rewrite (Vf Gw (ext_refl _)), Hl. rewrite mux2_B1. reflexivity.
          -- intros D (sc' & rest' & Hx & Hv & HD) Hr. rewrite Hs in Hx; inversion Hx; subst sc' rest'.
             rewrite V_emit. simpl.
             change (getv (eval_all inp Gw) (sc_full sc)) with (V Gw (sc_full sc)).
             rewrite (Vf Gw (ext_refl _)), Hv. rewrite mux2_B0.
             change (getv (eval_all inp Gw) (sr_drv r)) with (V Gw (sr_drv r)). apply V_ext; auto.
      + inversion Hmux; subst. split; [apply ext_refl|]. split; auto. split; auto.
        intros D (sc' & rest' & Hx & Hv & HD) Hr. rewrite Hs in Hx; inversion Hx; subst sc' rest'.
        apply Nat.ltb_ge in Hlt. lia. }
  destruct Hfin as (Ef & Bf & Vlive & Vdead).
  pose proof (ext_length _ _ Ef) as Lf.
  assert (EG2 : ext (eG st) G2) by (eapply ext_trans; [exact EGw|exact Ef]).
  assert (Hr_ok : sig_ok (length (eG st)) (eNext st) (x, r)).
  { clear -H2 Hlk. induction H2 as [|[y b] l Hy H IH]; simpl in Hlk; [discriminate|].
    destruct (Nat.eqb x y); [inversion Hlk; subst; exact Hy|auto]. }
  set (st' := set_sigs (set_G st G2) (update x (mkSig fin (sr_isc r) (sr_bit r)) (eSigs st))).
  assert (W' : WF st').
  { constructor; simpl; auto.
    - apply Forall_update.
      + eapply sigs_ok_mono; [|apply le_n|exact H2]. apply ext_length; exact EG2.
      + intro y. split; simpl; [exact Bf|]. destruct Hr_ok as [_ Hi]. exact Hi.
    - eapply stack_ok_mono; [|apply le_n|exact H3]. apply ext_length; exact EG2.
    - eapply ob_mono; [|exact H4]. apply ext_length; exact EG2.
    - eapply reads_ok_mono; [|exact H5]. apply ext_length; exact EG2. }
  assert (F' : frame st st').
  { constructor; simpl; auto. exists []. rewrite app_nil_r. reflexivity. rewrite update_length. apply le_n. }
  split; [exact W'|]. split; [exact F'|]. split.
  - intros D HD. split; simpl.
    + rewrite <- (update_length x (mkSig fin (sr_isc r) (sr_bit r)) (eSigs st)) at 1. rewrite lastn_all.
      apply Forall2_update with (a := r) (P := fun xr => sr_drv (snd xr) < length (eG st)); auto.
      * intros [y b] Hyb. unfold keep. repeat split; auto. intros _. apply V_ext; auto.
      * intros y _. unfold keep; simpl. repeat split; auto. intro Hr. apply (Vdead D); auto.
    + unfold new_reads. simpl. rewrite skipn_all. reflexivity.
  - intros E E' R Hl HR Hrun. simpl in Hrun. rewrite (rel_lookup_some inp _ _ _ _ _ HR Hlk) in Hrun.
    inversion Hrun; subst. clear Hrun. split.
    2:{ unfold new_reads. simpl. rewrite skipn_all. reflexivity. }
    simpl. apply rel_update; [eapply rel_ext; [exact EG2|exact Hb|exact HR]|]. simpl.
    rewrite (Vlive Hl).
    assert (HR1 : rel inp G1 (eSigs st) E) by (eapply rel_ext; eauto).
    pose proof (elab_sels_sem inp _ _ _ _ _ _ Hb1 HR1 Hsel) as Hsr.
    rewrite (elab_write_sem inp E n G0 ltac:(lia) p gp Hsr (sr_drv r) G0 inn Gw (ext_refl _) ltac:(lia) Hwr).
    rewrite (V_ext inp G1 G0 n E0 B1).
    rewrite (elab_expr_sem inp _ _ _ _ _ _ Hb HR He).
    rewrite (V_ext inp (eG st) G0 (sr_drv r)); [reflexivity | eapply ext_trans; [exact E1|exact E0] | exact Hrd].
Qed.

End Proofs.
