(* C17 — entry points of the extracted model: the generators of SclMathDefs applied to
   operands given as numbers (the OCaml driver converts hex <-> N).  No proofs. *)
From Coq Require Import List Bool Arith NArith ZArith.
From Gatery Require Import SclMathDefs.
Import ListNotations.
Open Scope N_scope.

Definition m_bitcount (w : nat) (x : N) : N := bitcount (bits_of_N w x).
Definition m_decoder (w : nat) (x : N) : N := N_of_bits (decoder w x).
Definition m_encoder (n : nat) (x : N) : N := encoder (bits_of_N n x).
Definition m_prienc (n : nat) (x : N) : pe_result := prienc (bits_of_N n x).
Definition m_petree (n : nat) (bps x : N) : pe_result := petree bps (bits_of_N n x).
Definition m_petree_reg (n : nat) (bps : N) (trace : list N) : list (option pe_result) :=
  map (petree_reg bps n (fun u => bits_of_N n (nth u trace 0))) (seq 0 (length trace)).
Definition m_clz (n : nat) (x : N) : N := clz (bits_of_N n x).
Definition m_thermo (w : nat) (x : N) : N := N_of_bits (thermo w x).
Definition m_thermow (w outw : nat) (x : N) : N := N_of_bits (thermo_lower w outw x).
Definition m_unthermo (n : nat) (x : N) : N := unthermo (bits_of_N n x).
Definition m_grayenc (w : nat) (x : N) : N := N_of_bits (gray_encode (bits_of_N w x)).
Definition m_graydec (w : nat) (x : N) : N := N_of_bits (gray_decode (bits_of_N w x)).
Definition m_bpo2 (w : nat) (x : N) : N := bpo2 (bits_of_N w x).
Definition m_ldivp (numW : nat) (denW steps : N) (trace : list (N * N)) : list (option N) :=
  map (ldiv_pipe numW denW steps (fun u => nth u trace (0, 0))) (seq 0 (length trace)).
Definition m_addcs (w : nat) (a b c : N) : N * N :=
  let '(s, cy) := add_carry_save (bits_of_N w a) (bits_of_N w b) (bits_of_N w c) in
  (N_of_bits s, N_of_bits cy).
Definition m_csa (w : nat) (ops : list N) : N * N * N :=
  let st := csa_run (map (bits_of_N w) ops) in
  (csa_result st, N_of_bits (csa_sum st), N_of_bits (csa_carry st)).
