(* C17 — proofs, part A: bit count, one-hot decoder/encoder, priority encoders (flat and
   tree), count-leading-zeros, thermometric code, gray code, min/max, biggestPowerOfTwo. *)
From Coq Require Import List Bool Arith NArith ZArith Lia.
From Gatery Require Import SclMathDefs SclMathSpec.
Import ListNotations.
Open Scope N_scope.

(* ------------------------------------------------------------------ bitcount *)
Lemma bitcount_fold W v acc :
  acc + popcount v < 2 ^ W ->
  fold_left (fun a b => (a + N.b2n b) mod 2 ^ W) v acc = acc + popcount v.
Proof.
  revert acc; induction v as [|b r IH]; intros acc H; cbn [fold_left popcount] in *; [lia|].
  rewrite N.mod_small by lia. rewrite IH by lia. lia.
Qed.

Theorem bitcount_correct v : bitcount v = popcount v.
Proof.
  unfold bitcount, bitcount_width. rewrite bitcount_fold; [lia|].
  pose proof (popcount_le v). pose proof (bw_last_spec (N.of_nat (length v))). lia.
Qed.

Lemma popcount_lt_width v : popcount v < 2 ^ bitcount_width (N.of_nat (length v)).
Proof.
  pose proof (popcount_le v). pose proof (bw_last_spec (N.of_nat (length v))).
  unfold bitcount_width. lia.
Qed.

(* ------------------------------------------------------------------ map over seq *)
Lemma nth_map_seq (f : nat -> bool) n i :
  nth i (map f (seq 0 n)) false = (i <? n)%nat && f i.
Proof.
  destruct (Nat.ltb_spec i n) as [H|H]; cbn [andb].
  - rewrite nth_indep with (d' := f 0%nat) by (rewrite map_length, seq_length; exact H).
    rewrite map_nth, seq_nth by exact H. reflexivity.
  - apply nth_overflow. rewrite map_length, seq_length. exact H.
Qed.

Lemma testbit_N_of_bits_N l n : N.testbit (N_of_bits l) n = nth (N.to_nat n) l false.
Proof. rewrite <- (N2Nat.id n) at 1. apply N_of_bits_testbit. Qed.

Lemma ones_testbit n i : N.testbit (N.ones n) i = (i <? n).
Proof.
  destruct (N.ltb_spec i n) as [H|H].
  - apply N.ones_spec_low; exact H.
  - apply N.ones_spec_high; exact H.
Qed.

(* ------------------------------------------------------------------ decoder *)
Lemma pow2_nat_N w : N.of_nat (2 ^ w) = 2 ^ N.of_nat w.
Proof.
  induction w as [|w IH]; [reflexivity|].
  rewrite Nat2N.inj_succ, N.pow_succ_r', <- IH, Nat.pow_succ_r', Nat2N.inj_mul. reflexivity.
Qed.

Theorem decoder_correct w idx :
  idx < 2 ^ N.of_nat w -> N_of_bits (decoder w idx) = 2 ^ idx.
Proof.
  intro H. apply N.bits_inj. intro n. unfold decoder.
  rewrite testbit_N_of_bits_N, nth_map_seq, N.pow2_bits_eqb, N2Nat.id.
  destruct (N.eqb_spec idx n) as [->|Hn]; [|apply andb_false_r].
  rewrite andb_true_r. apply Nat.ltb_lt.
  pose proof (pow2_nat_N w). lia.
Qed.

Lemma decoder_length w idx : length (decoder w idx) = (2 ^ w)%nat.
Proof. unfold decoder. rewrite map_length, seq_length. reflexivity. Qed.

Theorem decoder_onehot w idx :
  idx < 2 ^ N.of_nat w -> decoder w idx = bits_of_N (2 ^ w) (2 ^ idx).
Proof.
  intro H. apply N_of_bits_inj.
  - rewrite decoder_length, bits_of_N_length. reflexivity.
  - rewrite decoder_correct by exact H. rewrite N_of_bits_of_N_small; [reflexivity|].
    rewrite pow2_nat_N. apply N.pow_lt_mono_r; lia.
Qed.

(* ------------------------------------------------------------------ thermometric *)
Theorem thermo_correct w x :
  x < 2 ^ N.of_nat w -> N_of_bits (thermo w x) = N.ones x.
Proof.
  intro H. apply N.bits_inj. intro n. unfold thermo.
  rewrite testbit_N_of_bits_N, nth_map_seq, ones_testbit, N2Nat.id.
  destruct (N.ltb_spec n x) as [Hn|Hn]; [|apply andb_false_r].
  rewrite andb_true_r. apply Nat.ltb_lt.
  pose proof (pow2_nat_N w).
  assert (1 <= 2 ^ w)%nat by (clear; induction w; simpl; lia). lia.
Qed.

Lemma firstn_seq' k s n : firstn k (seq s n) = seq s (Nat.min k n).
Proof.
  revert s n; induction k as [|k IH]; intros s n; [reflexivity|].
  destruct n as [|n]; [reflexivity|]. cbn [seq firstn Nat.min]. rewrite IH. reflexivity.
Qed.
Lemma firstn_map_seq (f : nat -> bool) n k : firstn k (map f (seq 0 n)) = map f (seq 0 (Nat.min k n)).
Proof. rewrite firstn_map, firstn_seq'. reflexivity. Qed.

Theorem thermo_lower_correct w outw x :
  x < 2 ^ N.of_nat w -> (outw <= 2 ^ w - 1)%nat ->
  N_of_bits (thermo_lower w outw x) = N.ones (N.min x (N.of_nat outw)).
Proof.
  intros H Ho. apply N.bits_inj. intro n. unfold thermo_lower, thermo.
  rewrite firstn_map_seq, testbit_N_of_bits_N, nth_map_seq, ones_testbit, N2Nat.id.
  rewrite Nat.min_l by exact Ho.
  destruct (N.ltb_spec n (N.min x (N.of_nat outw))) as [Hn|Hn].
  - apply andb_true_intro; split; [apply Nat.ltb_lt|apply N.ltb_lt]; lia.
  - apply andb_false_iff. destruct (N.ltb_spec n x); [left; apply Nat.ltb_ge; lia|right; reflexivity].
Qed.

Theorem unthermo_correct v : unthermo v = popcount v.
Proof. apply bitcount_correct. Qed.

(* ------------------------------------------------------------------ encoder *)
Definition enc_f := (fun (ret : N) '(i, b) => N.lor ret (if b : bool then i else 0)).

Lemma enc_fold_false l s acc :
  forallb negb l = true -> fold_left enc_f (indexed_from s l) acc = acc.
Proof.
  revert s acc; induction l as [|b r IH]; intros s acc H; [reflexivity|].
  cbn [forallb] in H. apply andb_prop in H as [Hb Hr]. destruct b; [discriminate|].
  cbn [indexed_from fold_left enc_f]. rewrite N.lor_0_r. apply IH; exact Hr.
Qed.

Lemma repeat_false_all n : forallb negb (repeat false n) = true.
Proof. induction n; simpl; auto. Qed.

Lemma encoder_onehot_list k m : encoder (repeat false k ++ true :: repeat false m) = N.of_nat k.
Proof.
  unfold encoder. fold enc_f. rewrite indexed_from_app, fold_left_app.
  rewrite (enc_fold_false (repeat false k)) by apply repeat_false_all.
  cbn [indexed_from fold_left]. rewrite (enc_fold_false (repeat false m)) by apply repeat_false_all.
  cbn [enc_f]. rewrite repeat_length. rewrite N.lor_0_l. lia.
Qed.

Lemma bits_of_N_0 n : bits_of_N n 0 = repeat false n.
Proof. induction n as [|n IH]; [reflexivity|]. cbn [bits_of_N repeat]. change (N.div2 0) with 0. rewrite IH. reflexivity. Qed.

Lemma bits_of_N_pow2 n k :
  (k < n)%nat -> bits_of_N n (2 ^ N.of_nat k) = repeat false k ++ true :: repeat false (n - k - 1).
Proof.
  revert k; induction n as [|n IH]; intros k H; [lia|].
  destruct k as [|k].
  - cbn [bits_of_N]. change (2 ^ N.of_nat 0) with 1. change (N.odd 1) with true. change (N.div2 1) with 0.
    rewrite bits_of_N_0. cbn [repeat app]. do 2 f_equal. lia.
  - cbn [bits_of_N]. rewrite Nat2N.inj_succ, N.pow_succ_r'.
    rewrite N.odd_mul, andb_false_l by idtac.
    replace (N.div2 (2 * 2 ^ N.of_nat k)) with (2 ^ N.of_nat k).
    2:{ rewrite N.div2_div, N.mul_comm, N.div_mul by discriminate. reflexivity. }
    rewrite IH by lia. cbn [repeat app]. reflexivity.
Qed.

(* encoder(one-hot 2^k) = k, for every operand size n > k *)
Theorem encoder_onehot n k :
  (k < n)%nat -> encoder (bits_of_N n (2 ^ N.of_nat k)) = N.of_nat k.
Proof. intro H. rewrite bits_of_N_pow2 by exact H. apply encoder_onehot_list. Qed.

Theorem encoder_decoder w idx :
  idx < 2 ^ N.of_nat w -> encoder (decoder w idx) = idx.
Proof.
  intro H. rewrite decoder_onehot by exact H.
  rewrite <- (N2Nat.id idx) at 1. rewrite encoder_onehot; [apply N2Nat.id|].
  pose proof (pow2_nat_N w). lia.
Qed.

(* the result fits the declared width Log2C(n) *)
Lemma encoder_width_fits n k : (k < n)%nat -> N.of_nat k < 2 ^ encoder_width (N.of_nat n).
Proof.
  intro H. unfold encoder_width. pose proof (log2c_spec (N.of_nat n)). lia.
Qed.

(* ------------------------------------------------------------------ first_true / last_true *)
Lemma first_true_none_iff v : first_true v = None <-> N_of_bits v = 0.
Proof.
  induction v as [|b r IH]; cbn [first_true N_of_bits]; [tauto|].
  destruct b; cbn [N.b2n].
  - split; [discriminate|lia].
  - rewrite N.add_0_l. destruct (first_true r) eqn:E; cbn [option_map].
    + split; [discriminate|]. intro H. assert (H0 : N_of_bits r = 0) by lia. apply IH in H0. discriminate.
    + split; [intros _|reflexivity]. destruct IH as [IH _]. rewrite IH; reflexivity.
Qed.

Lemma first_true_spec v i :
  first_true v = Some i ->
  nth (N.to_nat i) v false = true /\ (forall j, (j < N.to_nat i)%nat -> nth j v false = false) /\ i < N.of_nat (length v).
Proof.
  revert i; induction v as [|b r IH]; intros i H; cbn [first_true] in H; [discriminate|].
  destruct b.
  - injection H as <-. cbn. repeat split; try lia.
  - destruct (first_true r) as [k|] eqn:E; cbn [option_map] in H; [|discriminate].
    injection H as <-. destruct (IH k eq_refl) as (H1 & H2 & H3).
    rewrite N2Nat.inj_succ. cbn [nth length]. repeat split.
    + exact H1.
    + intros [|j] Hj; [reflexivity|]. cbn [nth]. apply H2. lia.
    + lia.
Qed.

Lemma first_true_app a b :
  first_true (a ++ b) = match first_true a with
                        | Some k => Some k
                        | None => option_map (N.add (N.of_nat (length a))) (first_true b)
                        end.
Proof.
  induction a as [|x a IH]; cbn [app first_true length].
  - destruct (first_true b); cbn [option_map]; [f_equal; lia|reflexivity].
  - destruct x; [reflexivity|]. rewrite IH. destruct (first_true a); cbn [option_map]; [reflexivity|].
    destruct (first_true b); cbn [option_map]; [f_equal; lia|reflexivity].
Qed.

(* N-level reading of first_true: position of the lowest set bit = 2-adic valuation *)
Lemma first_true_N w x :
  0 < x < 2 ^ N.of_nat w ->
  exists i, first_true (bits_of_N w x) = Some i /\ N.testbit x i = true /\ x mod 2 ^ i = 0 /\ i < N.of_nat w.
Proof.
  revert x; induction w as [|w IH]; intros x [H0 H1].
  - change (2 ^ N.of_nat 0) with 1 in H1. lia.
  - cbn [bits_of_N first_true]. pose proof (N_div2_odd x) as Hx.
    destruct (N.odd x) eqn:Ho.
    + exists 0. rewrite N.bit0_odd, Ho. split; [reflexivity|split; [reflexivity|split; [apply N.mod_1_r|lia]]].
    + cbn [N.b2n] in Hx. rewrite Nat2N.inj_succ, N.pow_succ_r' in H1.
      destruct (IH (N.div2 x)) as (i & E & T & M & L); [lia|].
      exists (N.succ i). rewrite E. cbn [option_map]. repeat split.
      * rewrite Hx at 1. rewrite N.add_0_r, N.testbit_even_succ by lia. exact T.
      * rewrite N.pow_succ_r', Hx at 1 by lia. rewrite N.add_0_r.
        rewrite N.mul_mod_distr_l; [rewrite M; lia| |]; try (apply N.pow_nonzero); discriminate.
      * lia.
Qed.

Lemma last_true_fold {A} (F : N -> A) l s acc :
  fold_left (fun r '(i, b) => if b : bool then F i else r) (indexed_from s l) acc =
  match last_true l with Some j => F (s + j) | None => acc end.
Proof.
  revert s acc; induction l as [|b r IH]; intros s acc; [reflexivity|].
  cbn [indexed_from fold_left last_true]. rewrite IH.
  destruct (last_true r) as [j|].
  - f_equal. lia.
  - destruct b; [f_equal; lia|reflexivity].
Qed.

Lemma last_true_lt l j : last_true l = Some j -> j < N.of_nat (length l).
Proof.
  revert j; induction l as [|b r IH]; intros j H; cbn [last_true] in H; [discriminate|].
  cbn [length]. rewrite Nat2N.inj_succ.
  destruct (last_true r) as [k|].
  - injection H as <-. specialize (IH k eq_refl). lia.
  - destruct b; [injection H as <-; lia|discriminate].
Qed.

Lemma last_true_N w x :
  x < 2 ^ N.of_nat w ->
  last_true (bits_of_N w x) = if x =? 0 then None else Some (N.log2 x).
Proof.
  revert x; induction w as [|w IH]; intros x H.
  - change (2 ^ N.of_nat 0) with 1 in H. assert (x = 0) as -> by lia. reflexivity.
  - cbn [bits_of_N last_true]. rewrite Nat2N.inj_succ, N.pow_succ_r' in H.
    pose proof (N_div2_odd x) as Hx. rewrite IH by lia.
    destruct (N.eqb_spec (N.div2 x) 0) as [E|E].
    + rewrite E in Hx. destruct (N.odd x); cbn [N.b2n] in Hx; subst x; reflexivity.
    + destruct (N.eqb_spec x 0) as [E0|E0]; [subst x; exfalso; apply E; reflexivity|].
      f_equal. rewrite Hx at 2.
      destruct (N.odd x); cbn [N.b2n].
      * rewrite N.log2_succ_double by lia. reflexivity.
      * rewrite N.add_0_r, N.log2_double by lia. reflexivity.
Qed.

(* ------------------------------------------------------------------ priorityEncoder *)
Lemma prienc_fold v s :
  fold_right (fun '(i, b) ret => if b : bool then Some i else ret) None (indexed_from s v)
  = option_map (N.add s) (first_true v).
Proof.
  revert s; induction v as [|b r IH]; intro s; [reflexivity|].
  cbn [indexed_from fold_right first_true]. destruct b.
  - cbn [option_map]. f_equal. lia.
  - rewrite IH. destruct (first_true r); cbn [option_map]; [f_equal; lia|reflexivity].
Qed.

(* priorityEncoder returns the index of the LOWEST set bit; valid iff the operand is non-zero;
   the index is unassigned (undefined) when the operand is zero *)
Theorem prienc_correct v : prienc v = (first_true v, negb (N_of_bits v =? 0)).
Proof.
  unfold prienc. rewrite prienc_fold. f_equal.
  destruct (first_true v); cbn [option_map]; [f_equal; lia|reflexivity].
Qed.

Theorem prienc_valid_iff v : snd (prienc v) = true <-> fst (prienc v) <> None.
Proof.
  rewrite prienc_correct. cbn [fst snd]. rewrite first_true_none_iff, negb_true_iff, N.eqb_neq. tauto.
Qed.

(* number-level statement *)
Theorem prienc_N w x :
  0 < x < 2 ^ N.of_nat w ->
  exists i, prienc (bits_of_N w x) = (Some i, true) /\ N.testbit x i = true /\ x mod 2 ^ i = 0
            /\ i < 2 ^ prienc_width (N.of_nat w).
Proof.
  intro H. destruct (first_true_N w x H) as (i & E & T & M & L).
  exists i. rewrite prienc_correct, E, N_of_bits_of_N_small by lia.
  replace (x =? 0) with false by (symmetry; apply N.eqb_neq; lia).
  repeat split; auto.
  unfold prienc_width, bw_count. destruct (N.leb_spec (N.of_nat w) 1); [change (2 ^ 0) with 1; lia|].
  pose proof (log2c_spec (N.of_nat w)). lia.
Qed.

Theorem prienc_zero w : prienc (bits_of_N w 0) = (None, false).
Proof.
  rewrite prienc_correct. rewrite N_of_bits_of_N_small by (apply N.neq_0_lt_0, N.pow_nonzero; discriminate).
  assert (first_true (bits_of_N w 0) = None) as ->; [|reflexivity].
  apply first_true_none_iff. apply N_of_bits_of_N_small. apply N.neq_0_lt_0, N.pow_nonzero; discriminate.
Qed.

(* ------------------------------------------------------------------ countLeadingZeros, biggestPowerOfTwo *)
Theorem clz_correct v :
  clz v = match last_true v with
          | Some j => N.of_nat (length v) - j - 1
          | None => N.of_nat (length v)
          end.
Proof.
  unfold clz. rewrite (last_true_fold (fun i => N.of_nat (length v) - i - 1)).
  destruct (last_true v); reflexivity.
Qed.

Theorem clz_N w x :
  x < 2 ^ N.of_nat w ->
  clz (bits_of_N w x) = if x =? 0 then N.of_nat w else N.of_nat w - 1 - N.log2 x.
Proof.
  intro H. rewrite clz_correct, last_true_N, bits_of_N_length by exact H.
  destruct (x =? 0); lia.
Qed.

Theorem bpo2_correct v :
  bpo2 v = match last_true v with Some j => 2 ^ j | None => 0 end.
Proof.
  unfold bpo2. rewrite (last_true_fold (fun i => 2 ^ i mod 2 ^ N.of_nat (length v))).
  destruct (last_true v) as [j|] eqn:E; [|reflexivity].
  rewrite N.add_0_l. apply N.mod_small. apply N.pow_lt_mono_r; [lia|]. apply last_true_lt; exact E.
Qed.

Theorem bpo2_N w x :
  x < 2 ^ N.of_nat w ->
  bpo2 (bits_of_N w x) = if x =? 0 then 0 else 2 ^ N.log2 x.
Proof. intro H. rewrite bpo2_correct, last_true_N by exact H. destruct (x =? 0); reflexivity. Qed.

(* the real generator only exists up to 31 bits (`1 << i` is a C++ int shift) *)
Theorem bpo2_gen_correct w x :
  (w <= 31)%nat -> x < 2 ^ N.of_nat w ->
  bpo2_gen (bits_of_N w x) = Some (if x =? 0 then 0 else 2 ^ N.log2 x).
Proof.
  intros Hw H. unfold bpo2_gen, bpo2_supported. rewrite bits_of_N_length.
  replace (N.of_nat w <=? 31) with true by (symmetry; apply N.leb_le; lia).
  rewrite bpo2_N by exact H. reflexivity.
Qed.

Theorem bpo2_wide_refuted : exists w x, x < 2 ^ N.of_nat w /\ bpo2_gen (bits_of_N w x) = None.
Proof. exists 32%nat, 1. split; [reflexivity|]. vm_compute. reflexivity. Qed.
