(* C17 — proofs, part A: bit count, one-hot decoder/encoder, priority encoders (flat and
   tree), count-leading-zeros, thermometric code, gray code, min/max, biggestPowerOfTwo. *)
From Coq Require Import List Bool Arith NArith ZArith Lia.
From Gatery Require Import SclMathDefs SclMathSpec.
Import ListNotations.
Open Scope N_scope.

(* ------------------------------------------------------------------ bitcount *)
Lemma bitcount_fold W v acc :
  acc + popcount v < 2 ^ W ->
  fold_left (fun a b => (a + N.b2n b) mod 2 ^ W) v acc = acc + popcount v.
Proof.
  revert acc; induction v as [|b r IH]; intros acc H; cbn [fold_left popcount] in *; [lia|].
  rewrite N.mod_small by lia. rewrite IH by lia. lia.
Qed.

Theorem bitcount_correct v : bitcount v = popcount v.
Proof.
  unfold bitcount, bitcount_width. rewrite bitcount_fold; [lia|].
  pose proof (popcount_le v). pose proof (bw_last_spec (N.of_nat (length v))). lia.
Qed.

Lemma popcount_lt_width v : popcount v < 2 ^ bitcount_width (N.of_nat (length v)).
Proof.
  pose proof (popcount_le v). pose proof (bw_last_spec (N.of_nat (length v))).
  unfold bitcount_width. lia.
Qed.

(* ------------------------------------------------------------------ map over seq *)
Lemma nth_map_seq (f : nat -> bool) n i :
  nth i (map f (seq 0 n)) false = (i <? n)%nat && f i.
Proof.
  destruct (Nat.ltb_spec i n) as [H|H]; cbn [andb].
  - rewrite nth_indep with (d' := f 0%nat) by (rewrite map_length, seq_length; exact H).
    rewrite map_nth, seq_nth by exact H. reflexivity.
  - apply nth_overflow. rewrite map_length, seq_length. exact H.
Qed.

Lemma testbit_N_of_bits_N l n : N.testbit (N_of_bits l) n = nth (N.to_nat n) l false.
Proof. rewrite <- (N2Nat.id n) at 1. apply N_of_bits_testbit. Qed.

Lemma ones_testbit n i : N.testbit (N.ones n) i = (i <? n).
Proof.
  destruct (N.ltb_spec i n) as [H|H].
  - apply N.ones_spec_low; exact H.
  - apply N.ones_spec_high; exact H.
Qed.

(* ------------------------------------------------------------------ decoder *)
Lemma pow2_nat_N w : N.of_nat (2 ^ w) = 2 ^ N.of_nat w.
Proof.
  induction w as [|w IH]; [reflexivity|].
  rewrite Nat2N.inj_succ, N.pow_succ_r', <- IH, Nat.pow_succ_r', Nat2N.inj_mul. reflexivity.
Qed.

Theorem decoder_correct w idx :
  idx < 2 ^ N.of_nat w -> N_of_bits (decoder w idx) = 2 ^ idx.
Proof.
  intro H. apply N.bits_inj. intro n. unfold decoder.
  rewrite testbit_N_of_bits_N, nth_map_seq, N.pow2_bits_eqb, N2Nat.id.
  destruct (N.eqb_spec idx n) as [->|Hn]; [|apply andb_false_r].
  rewrite andb_true_r. apply Nat.ltb_lt.
  pose proof (pow2_nat_N w). lia.
Qed.

Lemma decoder_length w idx : length (decoder w idx) = (2 ^ w)%nat.
Proof. unfold decoder. rewrite map_length, seq_length. reflexivity. Qed.

Theorem decoder_onehot w idx :
  idx < 2 ^ N.of_nat w -> decoder w idx = bits_of_N (2 ^ w) (2 ^ idx).
Proof.
  intro H. apply N_of_bits_inj.
  - rewrite decoder_length, bits_of_N_length. reflexivity.
  - rewrite decoder_correct by exact H. rewrite N_of_bits_of_N_small; [reflexivity|].
    rewrite pow2_nat_N. apply N.pow_lt_mono_r; lia.
Qed.

(* ------------------------------------------------------------------ thermometric *)
Theorem thermo_correct w x :
  x < 2 ^ N.of_nat w -> N_of_bits (thermo w x) = N.ones x.
Proof.
  intro H. apply N.bits_inj. intro n. unfold thermo.
  rewrite testbit_N_of_bits_N, nth_map_seq, ones_testbit, N2Nat.id.
  destruct (N.ltb_spec n x) as [Hn|Hn]; [|apply andb_false_r].
  rewrite andb_true_r. apply Nat.ltb_lt.
  pose proof (pow2_nat_N w).
  assert (1 <= 2 ^ w)%nat by (clear; induction w; simpl; lia). lia.
Qed.

Lemma firstn_seq' k s n : firstn k (seq s n) = seq s (Nat.min k n).
Proof.
  revert s n; induction k as [|k IH]; intros s n; [reflexivity|].
  destruct n as [|n]; [reflexivity|]. cbn [seq firstn Nat.min]. rewrite IH. reflexivity.
Qed.
Lemma firstn_map_seq (f : nat -> bool) n k : firstn k (map f (seq 0 n)) = map f (seq 0 (Nat.min k n)).
Proof. rewrite firstn_map, firstn_seq'. reflexivity. Qed.

Theorem thermo_lower_correct w outw x :
  x < 2 ^ N.of_nat w -> (outw <= 2 ^ w - 1)%nat ->
  N_of_bits (thermo_lower w outw x) = N.ones (N.min x (N.of_nat outw)).
Proof.
  intros H Ho. apply N.bits_inj. intro n. unfold thermo_lower, thermo.
  rewrite firstn_map_seq, testbit_N_of_bits_N, nth_map_seq, ones_testbit, N2Nat.id.
  rewrite Nat.min_l by exact Ho.
  destruct (N.ltb_spec n (N.min x (N.of_nat outw))) as [Hn|Hn].
  - apply andb_true_intro; split; [apply Nat.ltb_lt|apply N.ltb_lt]; lia.
  - apply andb_false_iff. destruct (N.ltb_spec n x); [left; apply Nat.ltb_ge; lia|right; reflexivity].
Qed.

Theorem unthermo_correct v : unthermo v = popcount v.
Proof. apply bitcount_correct. Qed.

(* ------------------------------------------------------------------ encoder *)
Definition enc_f := (fun (ret : N) '(i, b) => N.lor ret (if b : bool then i else 0)).

Lemma enc_fold_false l s acc :
  forallb negb l = true -> fold_left enc_f (indexed_from s l) acc = acc.
Proof.
  revert s acc; induction l as [|b r IH]; intros s acc H; [reflexivity|].
  cbn [forallb] in H. apply andb_prop in H as [Hb Hr]. destruct b; [discriminate|].
  cbn [indexed_from fold_left enc_f]. rewrite N.lor_0_r. apply IH; exact Hr.
Qed.

Lemma repeat_false_all n : forallb negb (repeat false n) = true.
Proof. induction n; simpl; auto. Qed.

Lemma encoder_onehot_list k m : encoder (repeat false k ++ true :: repeat false m) = N.of_nat k.
Proof.
  unfold encoder. fold enc_f. rewrite indexed_from_app, fold_left_app.
  rewrite (enc_fold_false (repeat false k)) by apply repeat_false_all.
  cbn [indexed_from fold_left]. rewrite (enc_fold_false (repeat false m)) by apply repeat_false_all.
  cbn [enc_f]. rewrite repeat_length. rewrite N.lor_0_l. lia.
Qed.

Lemma bits_of_N_0 n : bits_of_N n 0 = repeat false n.
Proof. induction n as [|n IH]; [reflexivity|]. cbn [bits_of_N repeat]. change (N.div2 0) with 0. rewrite IH. reflexivity. Qed.

Lemma bits_of_N_pow2 n k :
  (k < n)%nat -> bits_of_N n (2 ^ N.of_nat k) = repeat false k ++ true :: repeat false (n - k - 1).
Proof.
  revert k; induction n as [|n IH]; intros k H; [lia|].
  destruct k as [|k].
  - cbn [bits_of_N]. change (2 ^ N.of_nat 0) with 1. change (N.odd 1) with true. change (N.div2 1) with 0.
    rewrite bits_of_N_0. cbn [repeat app]. do 2 f_equal. lia.
  - cbn [bits_of_N]. rewrite Nat2N.inj_succ, N.pow_succ_r'.
    rewrite N.odd_mul, andb_false_l by idtac.
    replace (N.div2 (2 * 2 ^ N.of_nat k)) with (2 ^ N.of_nat k).
    2:{ rewrite N.div2_div, N.mul_comm, N.div_mul by discriminate. reflexivity. }
    rewrite IH by lia. cbn [repeat app]. reflexivity.
Qed.

(* encoder(one-hot 2^k) = k, for every operand size n > k *)
Theorem encoder_onehot n k :
  (k < n)%nat -> encoder (bits_of_N n (2 ^ N.of_nat k)) = N.of_nat k.
Proof. intro H. rewrite bits_of_N_pow2 by exact H. apply encoder_onehot_list. Qed.

Theorem encoder_decoder w idx :
  idx < 2 ^ N.of_nat w -> encoder (decoder w idx) = idx.
Proof.
  intro H. rewrite decoder_onehot by exact H.
  rewrite <- (N2Nat.id idx) at 1. rewrite encoder_onehot; [apply N2Nat.id|].
  pose proof (pow2_nat_N w). lia.
Qed.

(* the result fits the declared width Log2C(n) *)
Lemma encoder_width_fits n k : (k < n)%nat -> N.of_nat k < 2 ^ encoder_width (N.of_nat n).
Proof.
  intro H. unfold encoder_width. pose proof (log2c_spec (N.of_nat n)). lia.
Qed.

(* ------------------------------------------------------------------ first_true / last_true *)
Lemma first_true_none_iff v : first_true v = None <-> N_of_bits v = 0.
Proof.
  induction v as [|b r IH]; cbn [first_true N_of_bits]; [tauto|].
  destruct b; cbn [N.b2n].
  - split; [discriminate|lia].
  - rewrite N.add_0_l. destruct (first_true r) eqn:E; cbn [option_map].
    + split; [discriminate|]. intro H. assert (H0 : N_of_bits r = 0) by lia. apply IH in H0. discriminate.
    + split; [intros _|reflexivity]. destruct IH as [IH _]. rewrite IH; reflexivity.
Qed.

Lemma first_true_spec v i :
  first_true v = Some i ->
  nth (N.to_nat i) v false = true /\ (forall j, (j < N.to_nat i)%nat -> nth j v false = false) /\ i < N.of_nat (length v).
Proof.
  revert i; induction v as [|b r IH]; intros i H; cbn [first_true] in H; [discriminate|].
  destruct b.
  - injection H as <-. cbn. repeat split; try lia.
  - destruct (first_true r) as [k|] eqn:E; cbn [option_map] in H; [|discriminate].
    injection H as <-. destruct (IH k eq_refl) as (H1 & H2 & H3).
    rewrite N2Nat.inj_succ. cbn [nth length]. repeat split.
    + exact H1.
    + intros [|j] Hj; [reflexivity|]. cbn [nth]. apply H2. lia.
    + lia.
Qed.

Lemma first_true_app a b :
  first_true (a ++ b) = match first_true a with
                        | Some k => Some k
                        | None => option_map (N.add (N.of_nat (length a))) (first_true b)
                        end.
Proof.
  induction a as [|x a IH]; cbn [app first_true length].
  - destruct (first_true b); cbn [option_map]; [f_equal; lia|reflexivity].
  - destruct x; [reflexivity|]. rewrite IH. destruct (first_true a); cbn [option_map]; [reflexivity|].
    destruct (first_true b); cbn [option_map]; [f_equal; lia|reflexivity].
Qed.

(* N-level reading of first_true: position of the lowest set bit = 2-adic valuation *)
Lemma first_true_N w x :
  0 < x < 2 ^ N.of_nat w ->
  exists i, first_true (bits_of_N w x) = Some i /\ N.testbit x i = true /\ x mod 2 ^ i = 0 /\ i < N.of_nat w.
Proof.
  revert x; induction w as [|w IH]; intros x [H0 H1].
  - change (2 ^ N.of_nat 0) with 1 in H1. lia.
  - cbn [bits_of_N first_true]. pose proof (N_div2_odd x) as Hx.
    destruct (N.odd x) eqn:Ho.
    + exists 0. rewrite N.bit0_odd, Ho. split; [reflexivity|split; [reflexivity|split; [apply N.mod_1_r|lia]]].
    + cbn [N.b2n] in Hx. rewrite Nat2N.inj_succ, N.pow_succ_r' in H1.
      destruct (IH (N.div2 x)) as (i & E & T & M & L); [lia|].
      exists (N.succ i). rewrite E. cbn [option_map]. repeat split.
      * rewrite Hx at 1. rewrite N.add_0_r, N.testbit_even_succ by lia. exact T.
      * rewrite N.pow_succ_r', Hx at 1 by lia. rewrite N.add_0_r.
        rewrite N.mul_mod_distr_l; [rewrite M; lia| |]; try (apply N.pow_nonzero); discriminate.
      * lia.
Qed.

Lemma last_true_fold {A} (F : N -> A) l s acc :
  fold_left (fun r '(i, b) => if b : bool then F i else r) (indexed_from s l) acc =
  match last_true l with Some j => F (s + j) | None => acc end.
Proof.
  revert s acc; induction l as [|b r IH]; intros s acc; [reflexivity|].
  cbn [indexed_from fold_left last_true]. rewrite IH.
  destruct (last_true r) as [j|].
  - f_equal. lia.
  - destruct b; [f_equal; lia|reflexivity].
Qed.

Lemma last_true_lt l j : last_true l = Some j -> j < N.of_nat (length l).
Proof.
  revert j; induction l as [|b r IH]; intros j H; cbn [last_true] in H; [discriminate|].
  cbn [length]. rewrite Nat2N.inj_succ.
  destruct (last_true r) as [k|].
  - injection H as <-. specialize (IH k eq_refl). lia.
  - destruct b; [injection H as <-; lia|discriminate].
Qed.

Lemma last_true_N w x :
  x < 2 ^ N.of_nat w ->
  last_true (bits_of_N w x) = if x =? 0 then None else Some (N.log2 x).
Proof.
  revert x; induction w as [|w IH]; intros x H.
  - change (2 ^ N.of_nat 0) with 1 in H. assert (x = 0) as -> by lia. reflexivity.
  - cbn [bits_of_N last_true]. rewrite Nat2N.inj_succ, N.pow_succ_r' in H.
    pose proof (N_div2_odd x) as Hx.
    assert (Hq : N.div2 x < 2 ^ N.of_nat w) by lia. rewrite (IH _ Hq).
    destruct (N.eqb_spec (N.div2 x) 0) as [E|E].
    + rewrite E in Hx. destruct (N.odd x); cbn [N.b2n] in Hx; subst x; reflexivity.
    + destruct (N.eqb_spec x 0) as [E0|E0]; [subst x; exfalso; apply E; reflexivity|].
      f_equal. rewrite Hx at 2.
      destruct (N.odd x); cbn [N.b2n].
      * rewrite N.log2_succ_double by (apply N.neq_0_lt_0; exact E). reflexivity.
      * rewrite N.add_0_r, N.log2_double by (apply N.neq_0_lt_0; exact E). reflexivity.
Qed.

(* ------------------------------------------------------------------ priorityEncoder *)
Lemma prienc_fold v s :
  fold_right (fun '(i, b) ret => if b : bool then Some i else ret) None (indexed_from s v)
  = option_map (N.add s) (first_true v).
Proof.
  revert s; induction v as [|b r IH]; intro s; [reflexivity|].
  cbn [indexed_from fold_right first_true]. destruct b.
  - cbn [option_map]. f_equal. lia.
  - rewrite IH. destruct (first_true r); cbn [option_map]; [f_equal; lia|reflexivity].
Qed.

(* priorityEncoder returns the index of the LOWEST set bit; valid iff the operand is non-zero;
   the index is unassigned (undefined) when the operand is zero *)
Theorem prienc_correct v : prienc v = (first_true v, negb (N_of_bits v =? 0)).
Proof.
  unfold prienc. rewrite prienc_fold. f_equal.
  destruct (first_true v); cbn [option_map]; [f_equal; lia|reflexivity].
Qed.

Theorem prienc_valid_iff v : snd (prienc v) = true <-> fst (prienc v) <> None.
Proof.
  rewrite prienc_correct. cbn [fst snd]. rewrite first_true_none_iff, negb_true_iff, N.eqb_neq. tauto.
Qed.

(* number-level statement *)
Theorem prienc_N w x :
  0 < x < 2 ^ N.of_nat w ->
  exists i, prienc (bits_of_N w x) = (Some i, true) /\ N.testbit x i = true /\ x mod 2 ^ i = 0
            /\ i < 2 ^ prienc_width (N.of_nat w).
Proof.
  intro H. destruct (first_true_N w x H) as (i & E & T & M & L).
  exists i. rewrite prienc_correct, E, N_of_bits_of_N_small by lia.
  replace (x =? 0) with false by (symmetry; apply N.eqb_neq; lia).
  repeat split; auto.
  unfold prienc_width, bw_count. destruct (N.leb_spec (N.of_nat w) 1); [change (2 ^ 0) with 1; lia|].
  pose proof (log2c_spec (N.of_nat w)). lia.
Qed.

Theorem prienc_zero w : prienc (bits_of_N w 0) = (None, false).
Proof.
  rewrite prienc_correct. rewrite N_of_bits_of_N_small by (apply N.neq_0_lt_0, N.pow_nonzero; discriminate).
  assert (first_true (bits_of_N w 0) = None) as ->; [|reflexivity].
  apply first_true_none_iff. apply N_of_bits_of_N_small. apply N.neq_0_lt_0, N.pow_nonzero; discriminate.
Qed.

(* ------------------------------------------------------------------ countLeadingZeros, biggestPowerOfTwo *)
Theorem clz_correct v :
  clz v = match last_true v with
          | Some j => N.of_nat (length v) - j - 1
          | None => N.of_nat (length v)
          end.
Proof.
  unfold clz. rewrite (last_true_fold (fun i => N.of_nat (length v) - i - 1)).
  destruct (last_true v); reflexivity.
Qed.

Theorem clz_N w x :
  x < 2 ^ N.of_nat w ->
  clz (bits_of_N w x) = if x =? 0 then N.of_nat w else N.of_nat w - 1 - N.log2 x.
Proof.
  intro H. rewrite clz_correct, last_true_N, bits_of_N_length by exact H.
  destruct (x =? 0); lia.
Qed.

Theorem bpo2_correct v :
  bpo2 v = match last_true v with Some j => 2 ^ j | None => 0 end.
Proof.
  unfold bpo2. rewrite (last_true_fold (fun i => 2 ^ i mod 2 ^ N.of_nat (length v))).
  destruct (last_true v) as [j|] eqn:E; [|reflexivity].
  rewrite N.add_0_l. apply N.mod_small. apply N.pow_lt_mono_r; [lia|]. apply last_true_lt; exact E.
Qed.

Theorem bpo2_N w x :
  x < 2 ^ N.of_nat w ->
  bpo2 (bits_of_N w x) = if x =? 0 then 0 else 2 ^ N.log2 x.
Proof. intro H. rewrite bpo2_correct, last_true_N by exact H. destruct (x =? 0); reflexivity. Qed.

(* regression: widths of 32 bits and more (the generator used to shift a C++ int) *)
Example bpo2_wide_examples :
  bpo2 (bits_of_N 32 2147483648) = 2147483648 /\
  bpo2 (bits_of_N 64 (2 ^ 63 + 5)) = 2 ^ 63 /\
  bpo2 (bits_of_N 100 (2 ^ 99 + 2 ^ 40)) = 2 ^ 99.
Proof. vm_compute. repeat split; reflexivity. Qed.

(* ------------------------------------------------------------------ priorityEncoderTree *)
Fixpoint chunk_ok (k : nat) (cs : list bits) : Prop :=
  match cs with
  | [] => True
  | c :: r => (length c <= k)%nat /\ (r <> [] -> length c = k) /\ chunk_ok k r
  end.

Lemma chunks_concat fuel k l : (0 < k)%nat -> (length l <= fuel)%nat -> concat (chunks fuel k l) = l.
Proof.
  intro Hk. revert l; induction fuel as [|f IH]; intros l H.
  - destruct l; [reflexivity|simpl in H; lia].
  - cbn [chunks]. destruct l as [|x l]; [reflexivity|].
    cbn [concat]. rewrite IH; [apply firstn_skipn|].
    rewrite skipn_length. simpl length in *. lia.
Qed.

Lemma chunks_ok fuel k l : (0 < k)%nat -> (length l <= fuel)%nat -> chunk_ok k (chunks fuel k l).
Proof.
  intro Hk. revert l; induction fuel as [|f IH]; intros l H; [exact I|].
  cbn [chunks]. destruct l as [|x l]; [exact I|].
  cbn [chunk_ok]. split; [apply firstn_le_length|]. split.
  - intro Hne. apply firstn_length_le.
    destruct (le_lt_dec k (length (x :: l))) as [Hle|Hlt]; [exact Hle|].
    exfalso. apply Hne. rewrite skipn_all2 by lia. destruct f; reflexivity.
  - apply IH. rewrite skipn_length. simpl length in *. lia.
Qed.

Lemma chunk_ok_in k cs c : chunk_ok k cs -> In c cs -> (length c <= k)%nat.
Proof.
  induction cs as [|d r IH]; intros H Hin; [destruct Hin|].
  destruct H as (H1 & _ & H3). destruct Hin as [<-|Hin]; auto.
Qed.

Definition sel_f := (fun '(i, r) (st : option N * option N * bool) =>
                       if snd (r : pe_result) : bool then (Some (i : N), fst r, true) else st).

Lemma combine_fold k cs s :
  (0 < k)%nat -> chunk_ok k cs ->
  fold_right sel_f (None, None, false) (indexed_from s (map prienc cs)) =
  match first_true (concat cs) with
  | None => (None, None, false)
  | Some p => (Some (s + p / N.of_nat k), Some (p mod N.of_nat k), true)
  end.
Proof.
  intros Hk. revert s; induction cs as [|c r IH]; intros s Hok; [reflexivity|].
  destruct Hok as (Hlen & Hfull & Hok).
  cbn [map indexed_from fold_right concat sel_f]. rewrite prienc_correct. cbn [fst snd].
  rewrite first_true_app. rewrite IH by exact Hok.
  destruct (first_true c) as [l|] eqn:E.
  - assert (Hnz : N_of_bits c <> 0).
    { intro Hz. apply first_true_none_iff in Hz. congruence. }
    replace (N_of_bits c =? 0) with false by (symmetry; apply N.eqb_neq; exact Hnz). cbn [negb].
    destruct (first_true_spec c l E) as (_ & _ & Hl).
    rewrite N.div_small, N.mod_small by lia. rewrite N.add_0_r. reflexivity.
  - assert (Hz : N_of_bits c = 0) by (apply first_true_none_iff; exact E).
    rewrite Hz. cbn [N.eqb negb].
    destruct (first_true (concat r)) as [p|] eqn:Er; cbn [option_map]; [|reflexivity].
    assert (Hr : r <> []) by (intro Hr; subst r; discriminate).
    rewrite (Hfull Hr).
    assert (HK : N.of_nat k <> 0) by lia.
    assert (Hd : (N.of_nat k + p) / N.of_nat k = 1 + p / N.of_nat k).
    { replace (N.of_nat k + p) with (1 * N.of_nat k + p) by lia. apply N.div_add_l; exact HK. }
    assert (Hm : (N.of_nat k + p) mod N.of_nat k = p mod N.of_nat k).
    { replace (N.of_nat k + p) with (p + 1 * N.of_nat k) by lia. apply N.mod_add; exact HK. }
    rewrite Hd, Hm. f_equal. f_equal. f_equal. lia.
Qed.

Lemma petree_combine_prienc lw k v cs :
  (0 < k)%nat -> 2 ^ lw = N.of_nat k -> chunk_ok k cs -> concat cs = v ->
  petree_combine lw (map prienc cs) = prienc v.
Proof.
  intros Hk HK Hok Hc. unfold petree_combine.
  change (fold_right _ (None, None, false) (indexed_from 0 (map prienc cs)))
    with (fold_right sel_f (None, None, false) (indexed_from 0 (map prienc cs))).
  rewrite (combine_fold k cs 0 Hk Hok), Hc, prienc_correct.
  destruct (first_true v) as [p|] eqn:E.
  - assert (Hnz : N_of_bits v <> 0).
    { intro Hz. apply first_true_none_iff in Hz. congruence. }
    replace (N_of_bits v =? 0) with false by (symmetry; apply N.eqb_neq; exact Hnz). cbn [negb].
    f_equal. f_equal. rewrite HK, N.add_0_l.
    assert (N.of_nat k <> 0) by lia.
    rewrite (N.div_mod p (N.of_nat k)) at 3 by assumption. lia.
  - assert (Hz : N_of_bits v = 0) by (apply first_true_none_iff; exact E).
    rewrite Hz. reflexivity.
Qed.

Lemma petree_fuel_eq fuel bps v :
  petree_fuel fuel bps v =
  let ibps := petree_ibps bps (N.of_nat (length v)) in
  if ibps <=? 1 then prienc v else
  match fuel with
  | O => (None, false)
  | S f => petree_combine (bw_count ibps)
             (map (petree_fuel f bps) (chunks (length v) (N.to_nat ibps) v))
  end.
Proof. destruct fuel; reflexivity. Qed.

(* facts about inBitsPerStep = nextPow2(ceil(n / 2^bps)) when the tree does not bottom out *)
Lemma petree_ibps_facts bps n :
  1 <= bps -> 1 < petree_ibps bps n ->
  petree_ibps bps n < n /\ 2 ^ bw_count (petree_ibps bps n) = petree_ibps bps n.
Proof.
  intros Hb H1. unfold petree_ibps in *. cbv zeta in *.
  set (S := 2 ^ bps) in *.
  assert (HS2 : 2 <= S).
  { unfold S. change 2 with (2 ^ 1) at 1. apply N.pow_le_mono_r; lia. }
  assert (Hdiv : S * ((n + S - 1) / S) <= n + S - 1) by (apply N.mul_div_le; lia).
  set (c := (n + S - 1) / S) in *. clearbody c. clearbody S.
  unfold next_pow2 in *.
  assert (Hc2 : 2 <= c).
  { destruct (N.eq_dec c 0) as [E|E]; [rewrite E in H1; vm_compute in H1; discriminate|].
    destruct (N.eq_dec c 1) as [E1|E1]; [rewrite E1 in H1; vm_compute in H1; discriminate|]. lia. }
  replace (c =? 0) with false in * by (symmetry; apply N.eqb_neq; lia).
  rewrite log2c_log2_up in * by lia.
  set (L := N.log2_up c) in *.
  assert (HL : 2 ^ N.pred L < c <= 2 ^ L) by (apply N.log2_up_spec; lia).
  assert (HLpos : 0 < L) by (apply N.log2_up_pos; lia).
  assert (HP : 2 ^ L = 2 * 2 ^ N.pred L).
  { rewrite <- N.pow_succ_r', N.succ_pred by lia. reflexivity. }
  split.
  - set (P := 2 ^ N.pred L) in *.
    assert (S * (P + 1) <= S * c) by (apply N.mul_le_mono_l; lia).
    assert (2 * P <= S * P) by (apply N.mul_le_mono_r; lia).
    lia.
  - unfold bw_count.
    assert (H2L : 2 <= 2 ^ L).
    { change 2 with (2 ^ 1) at 1. apply N.pow_le_mono_r; lia. }
    destruct (N.leb_spec (2 ^ L) 1); [lia|].
    rewrite log2c_log2_up by lia. rewrite N.log2_up_pow2 by lia. reflexivity.
Qed.

Lemma petree_fuel_correct bps :
  1 <= bps -> forall fuel v, (length v <= fuel)%nat -> petree_fuel fuel bps v = prienc v.
Proof.
  intros Hb. induction fuel as [|f IH]; intros v Hv; rewrite petree_fuel_eq; cbv zeta.
  - destruct (N.leb_spec (petree_ibps bps (N.of_nat (length v))) 1) as [Hle|Hgt]; [reflexivity|].
    destruct (petree_ibps_facts bps _ Hb Hgt) as [Hlt _]. lia.
  - destruct (N.leb_spec (petree_ibps bps (N.of_nat (length v))) 1) as [Hle|Hgt]; [reflexivity|].
    destruct (petree_ibps_facts bps _ Hb Hgt) as [Hlt Hpow].
    set (ib := petree_ibps bps (N.of_nat (length v))) in *.
    assert (Hk : (0 < N.to_nat ib)%nat) by lia.
    pose proof (chunks_ok (length v) (N.to_nat ib) v Hk (le_n _)) as Hok.
    pose proof (chunks_concat (length v) (N.to_nat ib) v Hk (le_n _)) as Hcc.
    rewrite map_ext_in with (g := prienc).
    + apply petree_combine_prienc with (k := N.to_nat ib); auto. rewrite N2Nat.id. exact Hpow.
    + intros c Hin. apply IH. pose proof (chunk_ok_in _ _ _ Hok Hin). lia.
Qed.

(* priorityEncoderTree = priorityEncoder, for every operand width and every bps >= 1 *)
Theorem petree_correct bps v : 1 <= bps -> petree bps v = prienc v.
Proof. intro Hb. unfold petree. apply petree_fuel_correct; [exact Hb|apply le_n]. Qed.

(* ------------------------------------------------------------------ registered tree *)
Lemma skipn_skipn' {A} a b (l : list A) : skipn a (skipn b l) = skipn (b + a) l.
Proof.
  revert l; induction b as [|b IH]; intro l; [reflexivity|].
  destruct l as [|x l]; [rewrite !skipn_nil; reflexivity|]. cbn [skipn Nat.add]. apply IH.
Qed.

Lemma firstn_min_len {A} k (l : list A) : firstn (Nat.min k (length l)) l = firstn k l.
Proof.
  destruct (le_lt_dec k (length l)) as [H|H].
  - rewrite Nat.min_l by exact H. reflexivity.
  - rewrite Nat.min_r by lia. rewrite firstn_all, firstn_all2 by lia. reflexivity.
Qed.

Lemma ranges_zero f k off : ranges f k off 0 = [].
Proof. destruct f; reflexivity. Qed.

Lemma ranges_chunks fuel k off n (v : bits) :
  (length v - off = n)%nat ->
  map (fun '(o, s) => slice o s v) (ranges fuel k off n) = chunks fuel k (skipn off v).
Proof.
  revert off n; induction fuel as [|f IH]; intros off n H; [reflexivity|].
  cbn [ranges chunks].
  assert (Hl : length (skipn off v) = n) by (rewrite skipn_length; exact H).
  destruct n as [|n].
  - destruct (skipn off v); [reflexivity|discriminate].
  - destruct (skipn off v) as [|x l] eqn:E; [discriminate|].
    cbn [map]. f_equal.
    + unfold slice. rewrite E, <- Hl. apply firstn_min_len.
    + rewrite (IH (off + k)%nat (S n - k)%nat) by lia.
      rewrite <- E, skipn_skipn'. reflexivity.
Qed.

Lemma ranges_in fuel k off n o s :
  In (o, s) (ranges fuel k off n) -> (s <= k /\ s <= n + off - o /\ off <= o)%nat.
Proof.
  revert off n; induction fuel as [|f IH]; intros off n H; [destruct H|].
  cbn [ranges] in H. destruct n as [|n]; [destruct H|].
  destruct H as [H|H].
  - injection H as <- <-. lia.
  - destruct (le_lt_dec k (S n)) as [Hle|Hlt].
    + apply IH in H. lia.
    + replace (S n - k)%nat with 0%nat in H by lia. rewrite ranges_zero in H. destruct H.
Qed.

Lemma somes_map {A B} (g : A -> option B) (h : A -> B) L :
  (forall x, In x L -> g x = None \/ g x = Some (h x)) ->
  forallb is_some (map g L) = true -> somes (map g L) = map h L.
Proof.
  induction L as [|a L IH]; intros Hg Hall; [reflexivity|].
  cbn [map forallb somes] in *. apply andb_prop in Hall as [Ha Hall].
  destruct (Hg a (or_introl eq_refl)) as [E|E]; rewrite E in *; [discriminate|].
  f_equal. apply IH; auto. intros x Hx. apply Hg. right; exact Hx.
Qed.

Lemma petree_reg_fuel_eq fuel bps n inp t :
  petree_reg_fuel fuel bps n inp t =
  let ibps := petree_ibps bps (N.of_nat n) in
  if ibps <=? 1 then Some (prienc (inp t)) else
  match fuel with
  | O => None
  | S f =>
    match t with
    | O => None
    | S t' =>
      let lower := map (fun '(o, s) => petree_reg_fuel f bps s (fun u => slice o s (inp u)) t')
                       (ranges n (N.to_nat ibps) 0 n) in
      if forallb is_some lower then Some (petree_combine (bw_count ibps) (somes lower)) else None
    end
  end.
Proof. destruct fuel; reflexivity. Qed.

(* With the operand held constant the registered tree, once its registers are loaded,
   returns the priority encoder result. *)
Lemma petree_reg_const_fuel bps :
  1 <= bps -> forall fuel n v t, length v = n -> (n <= fuel)%nat ->
  petree_reg_fuel fuel bps n (fun _ => v) t = None \/
  petree_reg_fuel fuel bps n (fun _ => v) t = Some (prienc v).
Proof.
  intro Hb. induction fuel as [|f IH]; intros n v t Hn Hf; rewrite petree_reg_fuel_eq; cbv zeta.
  - destruct (N.leb_spec (petree_ibps bps (N.of_nat n)) 1); auto.
  - destruct (N.leb_spec (petree_ibps bps (N.of_nat n)) 1) as [Hle|Hgt]; auto.
    destruct t as [|t']; auto.
    destruct (petree_ibps_facts bps _ Hb Hgt) as [Hlt Hpow].
    set (ib := petree_ibps bps (N.of_nat n)) in *.
    set (g := fun '(o, s) => petree_reg_fuel f bps s (fun _ : nat => slice o s v) t').
    change (map _ (ranges n (N.to_nat ib) 0 n)) with (map g (ranges n (N.to_nat ib) 0 n)).
    destruct (forallb is_some (map g (ranges n (N.to_nat ib) 0 n))) eqn:Eall; auto.
    right. f_equal.
    rewrite (somes_map g (fun '(o, s) => prienc (slice o s v))); [| |exact Eall].
    + assert (Hk : (0 < N.to_nat ib)%nat) by lia.
      assert (E2 : map (fun '(o, s) => prienc (slice o s v)) (ranges n (N.to_nat ib) 0 n)
                   = map prienc (map (fun '(o, s) => slice o s v) (ranges n (N.to_nat ib) 0 n))).
      { rewrite map_map. apply map_ext. intros [o s]. reflexivity. }
      rewrite E2.
      rewrite (ranges_chunks n (N.to_nat ib) 0 n v) by lia. cbn [skipn].
      subst n.
      apply petree_combine_prienc with (k := N.to_nat ib); auto.
      * rewrite N2Nat.id. exact Hpow.
      * apply chunks_ok; auto.
      * apply chunks_concat; auto.
    + intros [o s] Hin. unfold g. apply ranges_in in Hin.
      apply IH; [|lia]. unfold slice. rewrite firstn_length, skipn_length. lia.
Qed.

Theorem petree_reg_const bps v t :
  1 <= bps ->
  petree_reg bps (length v) (fun _ => v) t = None \/
  petree_reg bps (length v) (fun _ => v) t = Some (prienc v).
Proof. intro Hb. unfold petree_reg. apply petree_reg_const_fuel; auto. Qed.

(* ... and it is loaded after at most (length v) cycles *)
Lemma petree_reg_filled_fuel bps :
  1 <= bps -> forall fuel n inp t, (n <= fuel)%nat -> (n <= t)%nat ->
  petree_reg_fuel fuel bps n inp t <> None.
Proof.
  intro Hb. induction fuel as [|f IH]; intros n inp t Hf Ht; rewrite petree_reg_fuel_eq; cbv zeta.
  - destruct (N.leb_spec (petree_ibps bps (N.of_nat n)) 1) as [Hle|Hgt]; [discriminate|].
    destruct (petree_ibps_facts bps _ Hb Hgt) as [Hlt _]. lia.
  - destruct (N.leb_spec (petree_ibps bps (N.of_nat n)) 1) as [Hle|Hgt]; [discriminate|].
    destruct (petree_ibps_facts bps _ Hb Hgt) as [Hlt _].
    destruct t as [|t']; [lia|].
    set (ib := petree_ibps bps (N.of_nat n)) in *.
    match goal with |- (if forallb is_some ?L then _ else _) <> None =>
      assert (Hall : forallb is_some L = true) end.
    { apply forallb_forall. intros x Hx. apply in_map_iff in Hx as ([o s] & <- & Hin).
      apply ranges_in in Hin.
      destruct (petree_reg_fuel f bps s (fun u => slice o s (inp u)) t') eqn:E; [reflexivity|].
      exfalso. revert E. apply IH; lia. }
    rewrite Hall. discriminate.
Qed.

(* the sub-trees of one level can have different depths (a clamped last chunk bottoms out
   earlier), their registers are not balanced: with a changing operand the result mixes
   operands of different cycles, so no single latency d describes the registered tree *)
Theorem petree_reg_unbalanced_refuted :
  let inp := fun u => bits_of_N 5 (nth u [16; 1; 2] 0) in
  forall d, (d <= 2)%nat -> petree_reg 1 5 inp 2 <> Some (prienc (inp (2 - d)%nat)).
Proof.
  intros inp d Hd.
  destruct d as [|[|[|d]]]; [vm_compute; discriminate..|lia].
Qed.

(* ------------------------------------------------------------------ gray code *)
Lemma map2_xorb_snoc_false r : map2 xorb r (tl r ++ [false]) = map2 xorb r (shr1 r).
Proof. destruct r; reflexivity. Qed.

Lemma gray_encode_cons b r : gray_encode (b :: r) = xorb b (hd false r) :: gray_encode r.
Proof.
  unfold gray_encode. cbn [shr1]. destruct r as [|c r]; [destruct b; reflexivity|].
  cbn [app map2 hd shr1]. reflexivity.
Qed.

Lemma gray_decode_cons x g : gray_decode (x :: g) = xorb (hd false (gray_decode g)) x :: gray_decode g.
Proof. cbn [gray_decode]. destruct g; [destruct x; reflexivity|reflexivity]. Qed.

Lemma gray_encode_length v : length (gray_encode v) = length v.
Proof. induction v as [|b r IH]; [reflexivity|]. rewrite gray_encode_cons. cbn [length]. rewrite IH. reflexivity. Qed.

Lemma gray_decode_length v : length (gray_decode v) = length v.
Proof. induction v as [|b r IH]; [reflexivity|]. rewrite gray_decode_cons. cbn [length]. rewrite IH. reflexivity. Qed.

(* grayDecode (grayEncode x) = x, every width *)
Theorem gray_decode_encode v : gray_decode (gray_encode v) = v.
Proof.
  induction v as [|b r IH]; [reflexivity|].
  rewrite gray_encode_cons, gray_decode_cons, IH.
  f_equal. destruct b, (hd false r); reflexivity.
Qed.

Theorem gray_encode_decode g : gray_encode (gray_decode g) = g.
Proof.
  induction g as [|x g IH]; [reflexivity|].
  rewrite gray_decode_cons, gray_encode_cons, IH.
  f_equal. destruct x, (hd false (gray_decode g)); reflexivity.
Qed.

Lemma hamming_refl v : hamming v v = 0.
Proof. induction v as [|b r IH]; [reflexivity|]. cbn [hamming]. rewrite xorb_nilpotent, IH. reflexivity. Qed.

Lemma hd_bits_succ r : r <> [] -> hd false (bits_succ r) = negb (hd false r).
Proof. destruct r as [|[|] r]; intro H; [congruence|reflexivity|reflexivity]. Qed.

(* consecutive code words (including the wrap from 2^w - 1 to 0) differ in exactly one bit *)
Theorem gray_adjacent v : v <> [] -> hamming (gray_encode v) (gray_encode (bits_succ v)) = 1.
Proof.
  induction v as [|b r IH]; intro Hne; [congruence|].
  destruct b; cbn [bits_succ]; rewrite !gray_encode_cons; cbn [hamming].
  - destruct r as [|c r].
    + reflexivity.
    + rewrite hd_bits_succ by discriminate. rewrite IH by discriminate.
      destruct (hd false (c :: r)); reflexivity.
  - rewrite hamming_refl. destruct (hd false r); reflexivity.
Qed.

Lemma bits_succ_length v : length (bits_succ v) = length v.
Proof. induction v as [|[|] r IH]; cbn [bits_succ length]; auto. Qed.

Lemma bits_succ_N v : N_of_bits (bits_succ v) = (N_of_bits v + 1) mod 2 ^ N.of_nat (length v).
Proof.
  induction v as [|b r IH]; [reflexivity|].
  cbn [length]. rewrite Nat2N.inj_succ, N.pow_succ_r'.
  pose proof (N_of_bits_lt r) as Hlt.
  assert (Hm : 2 ^ N.of_nat (length r) <> 0) by (apply N.pow_nonzero; discriminate).
  destruct b; cbn [bits_succ N_of_bits N.b2n].
  - rewrite IH.
    replace (1 + 2 * N_of_bits r + 1) with (2 * (N_of_bits r + 1)) by lia.
    rewrite N.mul_mod_distr_l by (try exact Hm; discriminate). lia.
  - rewrite N.mod_small by lia. lia.
Qed.

(* the same at the number level: x and x+1 mod 2^w *)
Theorem gray_adjacent_N w x :
  (0 < w)%nat -> x < 2 ^ N.of_nat w ->
  hamming (gray_encode (bits_of_N w x)) (gray_encode (bits_of_N w ((x + 1) mod 2 ^ N.of_nat w))) = 1.
Proof.
  intros Hw Hx.
  assert (E : bits_of_N w ((x + 1) mod 2 ^ N.of_nat w) = bits_succ (bits_of_N w x)).
  { apply N_of_bits_inj.
    - rewrite bits_succ_length, !bits_of_N_length. reflexivity.
    - rewrite bits_succ_N, bits_of_N_length, !N_of_bits_of_N.
      rewrite N.mod_mod by (apply N.pow_nonzero; discriminate).
      rewrite (N.mod_small x) by exact Hx. reflexivity. }
  rewrite E. apply gray_adjacent. destruct w; [lia|discriminate].
Qed.

(* word-level reading of grayEncode: val ^ (val >> 1) *)
Lemma nth_gray_encode v i : nth i (gray_encode v) false = xorb (nth i v false) (nth (S i) v false).
Proof.
  revert i; induction v as [|b r IH]; intro i; [destruct i; reflexivity|].
  rewrite gray_encode_cons. destruct i as [|i].
  - cbn [nth]. destruct r; reflexivity.
  - cbn [nth]. rewrite IH. reflexivity.
Qed.

Theorem gray_encode_N w x :
  x < 2 ^ N.of_nat w ->
  N_of_bits (gray_encode (bits_of_N w x)) = N.lxor x (N.shiftr x 1).
Proof.
  intro Hx. apply N.bits_inj. intro n.
  rewrite testbit_N_of_bits_N, nth_gray_encode, N.lxor_spec, N.shiftr_spec'.
  assert (Hhi : forall m, (w <= m)%nat -> N.testbit x (N.of_nat m) = false).
  { intros m Hm. destruct (N.eq_dec x 0) as [->|Hx0]; [apply N.bits_0|].
    apply N.bits_above_log2. apply N.log2_lt_pow2; [lia|].
    eapply N.lt_le_trans; [exact Hx|]. apply N.pow_le_mono_r; lia. }
  assert (Hnth : forall m, nth m (bits_of_N w x) false = N.testbit x (N.of_nat m)).
  { intro m. destruct (le_lt_dec w m) as [Hm|Hm].
    - rewrite nth_overflow by (rewrite bits_of_N_length; exact Hm). symmetry; apply Hhi; exact Hm.
    - apply nth_bits_of_N; exact Hm. }
  rewrite !Hnth, N2Nat.id. f_equal. f_equal. lia.
Qed.

(* ------------------------------------------------------------------ min / max *)
Theorem umin_correct a b : umin a b = N.min a b.
Proof. unfold umin. destruct (N.ltb_spec b a); lia. Qed.
Theorem umax_correct a b : umax a b = N.max a b.
Proof. unfold umax. destruct (N.ltb_spec a b); lia. Qed.

Theorem petree_reg_filled bps n inp t :
  1 <= bps -> (n <= t)%nat -> petree_reg bps n inp t <> None.
Proof. intros Hb Ht. unfold petree_reg. apply petree_reg_filled_fuel; auto. Qed.
