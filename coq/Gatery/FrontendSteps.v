(* C05 -- well-formedness of the elaboration state and the effect of every single
   bookkeeping step (scope constructors, destructor, assignment). *)
From Gatery Require Import Bits FrontendDefs FrontendGraph FrontendWrite.
Import ListNotations.

Section Steps.
Variable inp : list bv.
Notation V := (V inp).

Definition ob (k : nat) (o : option nid) : Prop := match o with Some n => n < k | None => True end.

Definition sig_ok (k nx : nat) (xr : sig * sigrec) : Prop :=
  sr_drv (snd xr) < k /\ sr_isc (snd xr) < nx.
Definition sc_ok (k nx : nat) (sc : scope) : Prop :=
  sc_cond sc < k /\ sc_full sc < k /\ sc_id sc < nx /\ ob k (sc_loe sc) /\ ob k (sc_comb sc).
Definition rd_ok (k : nat) (r : rd) : Prop := rd_node r < k /\ ob k (rd_guard r).

Record WF (st : est) : Prop := mkWF {
  wf_next : 1 <= eNext st;
  wf_sigs : Forall (sig_ok (length (eG st)) (eNext st)) (eSigs st);
  wf_stack : Forall (sc_ok (length (eG st)) (eNext st)) (eStack st);
  wf_last : ob (length (eG st)) (eLast st);
  wf_reads : Forall (rd_ok (length (eG st))) (eReads st)
}.

Lemma ob_mono k k' o : k <= k' -> ob k o -> ob k' o.
Proof. destruct o; simpl; auto; lia. Qed.
Lemma sig_ok_mono k k' n n' xr : k <= k' -> n <= n' -> sig_ok k n xr -> sig_ok k' n' xr.
Proof. unfold sig_ok. intros; lia. Qed.
Lemma sc_ok_mono k k' n n' sc : k <= k' -> n <= n' -> sc_ok k n sc -> sc_ok k' n' sc.
Proof. unfold sc_ok. intros ? ? (?&?&?&?&?). repeat split; try lia; eapply ob_mono; eauto. Qed.
Lemma rd_ok_mono k k' r : k <= k' -> rd_ok k r -> rd_ok k' r.
Proof. unfold rd_ok. intros ? (?&?). split; try lia; eapply ob_mono; eauto. Qed.

Lemma sigs_ok_mono k k' n n' S : k <= k' -> n <= n' -> Forall (sig_ok k n) S -> Forall (sig_ok k' n') S.
Proof. intros. eapply Forall_impl; [|eassumption]. intros; eapply sig_ok_mono; eauto. Qed.
Lemma stack_ok_mono k k' n n' S : k <= k' -> n <= n' -> Forall (sc_ok k n) S -> Forall (sc_ok k' n') S.
Proof. intros. eapply Forall_impl; [|eassumption]. intros; eapply sc_ok_mono; eauto. Qed.
Lemma reads_ok_mono k k' S : k <= k' -> Forall (rd_ok k) S -> Forall (rd_ok k') S.
Proof. intros. eapply Forall_impl; [|eassumption]. intros; eapply rd_ok_mono; eauto. Qed.

Lemma WF_sigs_bounded st : WF st -> sigs_bounded (length (eG st)) (eSigs st).
Proof. intros [_ H _ _ _]. eapply Forall_impl; [|exact H]. intros a [Ha _]. exact Ha. Qed.

Lemma WF_set_G st G' : WF st -> ext (eG st) G' -> WF (set_G st G').
Proof.
  intros [H1 H2 H3 H4 H5] He. apply ext_length in He. constructor; simpl; auto.
  - eapply sigs_ok_mono; [exact He|apply le_n|exact H2].
  - eapply stack_ok_mono; [exact He|apply le_n|exact H3].
  - eapply ob_mono; [exact He|exact H4].
  - eapply reads_ok_mono; [exact He|exact H5].
Qed.

Lemma WF_init n0 : 1 <= n0 -> WF (init_st n0).
Proof. intro H. constructor; simpl; auto. Qed.

(* what every complete statement leaves alone *)
Record frame (st st' : est) : Prop := mkFrame {
  fr_ext : ext (eG st) (eG st');
  fr_stack : eStack st' = eStack st;
  fr_next : eNext st <= eNext st';
  fr_reads : exists NR, eReads st' = eReads st ++ NR;
  fr_sigs : length (eSigs st) <= length (eSigs st')
}.

Lemma frame_refl st : frame st st.
Proof. constructor; auto. apply ext_refl. exists []. rewrite app_nil_r. reflexivity. Qed.

Lemma frame_trans a b c : frame a b -> frame b c -> frame a c.
Proof.
  intros [E1 S1 N1 [R1 HR1] L1] [E2 S2 N2 [R2 HR2] L2]. constructor.
  - eapply ext_trans; eauto.
  - congruence.
  - lia.
  - exists (R1 ++ R2). rewrite HR2, HR1, app_assoc. reflexivity.
  - lia.
Qed.

Definition new_reads (st st' : est) : list rd := skipn (length (eReads st)) (eReads st').

Lemma new_reads_spec st st' : frame st st' -> eReads st' = eReads st ++ new_reads st st'.
Proof.
  intros [_ _ _ [NR H] _]. unfold new_reads. rewrite H. f_equal.
  rewrite skipn_app, skipn_all, Nat.sub_diag. reflexivity.
Qed.

Lemma new_reads_trans a b c : frame a b -> frame b c ->
  new_reads a c = new_reads a b ++ new_reads b c.
Proof.
  intros Hab Hbc. pose proof (new_reads_spec _ _ Hab) as H1. pose proof (new_reads_spec _ _ Hbc) as H2.
  unfold new_reads at 1. rewrite H2, H1, <- app_assoc.
  rewrite skipn_app, skipn_all, Nat.sub_diag. reflexivity.
Qed.

(* ------------------------------------------------------------------------- *)
(** * Scope constructors and destructor                                       *)
(* ------------------------------------------------------------------------- *)

Lemma set_condition_spec port loe comb st :
  WF st -> port < length (eG st) -> ob (length (eG st)) loe -> ob (length (eG st)) comb ->
  let st' := set_condition port loe comb st in
  WF st' /\ ext (eG st) (eG st') /\
  exists sc, eStack st' = sc :: eStack st /\ sc_id sc = eNext st /\ eNext st' = S (eNext st) /\
    eSigs st' = eSigs st /\ eReads st' = eReads st /\ eLast st' = eLast st /\
    sc_cond sc = port /\ sc_comb sc = comb /\ sc_loe sc = loe /\
    V (eG st') (sc_full sc) =
      match eStack st with
      | [] => V (eG st) port
      | par :: _ => cand (V (eG st) port) (V (eG st) (sc_full par))
      end.
Proof.
  intros [H1 H2 H3 H4 H5] Hp Hl Hc. unfold set_condition.
  destruct (eStack st) as [|par rest] eqn:Hs; simpl.
  - split; [|split].
    + constructor; simpl; auto.
      * eapply sigs_ok_mono; [| |exact H2]; lia.
      * constructor; auto. unfold sc_ok; simpl. repeat split; auto.
    + apply ext_refl.
    + eexists. repeat split; reflexivity.
  - inversion H3 as [|? ? Hpar Hrest]; subst.
    assert (Hpf : sc_full par < length (eG st)) by (destruct Hpar as (?&?&?); assumption).
    set (G1 := eG st ++ [NCAnd port (sc_full par)]).
    set (G2 := G1 ++ [NSig (length (eG st))]).
    assert (L1 : length G1 = S (length (eG st))) by (unfold G1; rewrite app_length; simpl; lia).
    assert (L2 : length G2 = S (S (length (eG st)))) by (unfold G2; rewrite app_length; simpl; lia).
    assert (E2 : ext (eG st) G2) by (eapply ext_trans; apply ext_emit).
    split; [|split].
    + constructor; simpl; fold G1; fold G2; rewrite ?L1, ?L2; auto.
      * eapply sigs_ok_mono; [| |exact H2]; lia.
      * constructor.
        -- unfold sc_ok; simpl. repeat split; try lia; eapply ob_mono; [|eassumption| |eassumption]; lia.
        -- eapply stack_ok_mono; [| |exact H3]; lia.
      * eapply ob_mono; [|exact H4]; lia.
      * eapply reads_ok_mono; [|exact H5]; lia.
    + exact E2.
    + eexists. repeat split; try reflexivity. simpl. fold G1. fold G2. rewrite ?L1.
      rewrite <- L1. unfold G2. rewrite V_emit. simpl.
      change (getv (eval_all inp G1) (length (eG st))) with (V G1 (length (eG st))).
      unfold G1. rewrite V_emit. simpl. reflexivity.
Qed.

Lemma get_last_spec st l G0 :
  WF st -> get_last st = (l, G0) ->
  ext (eG st) G0 /\ l < length G0 /\ (forall l0, eLast st = Some l0 -> l = l0 /\ G0 = eG st).
Proof.
  intros [_ _ _ H4 _]. unfold get_last. destruct (eLast st) as [l0|]; simpl in *; intro H; inversion H; subst.
  - split; [apply ext_refl|]. split; auto. intros ? Hx. inversion Hx; auto.
  - split; [apply ext_emit|]. split; [rewrite app_length; simpl; lia|]. intros; discriminate.
Qed.

(* the facts about a freshly constructed scope used later *)
Definition pushed (st st' : est) (sc : scope) : Prop :=
  eStack st' = sc :: eStack st /\ sc_id sc = eNext st /\ eNext st' = S (eNext st) /\
  eSigs st' = eSigs st /\ eReads st' = eReads st.

Lemma ctor_if_spec c st :
  WF st -> c < length (eG st) ->
  let st' := ctor_if c st in
  WF st' /\ ext (eG st) (eG st') /\ exists sc, pushed st st' sc /\
    sc_cond sc = c /\ sc_comb sc = None /\ sc_loe sc = None /\
    V (eG st') (sc_full sc) =
      match eStack st with
      | [] => V (eG st) c
      | par :: _ => cand (V (eG st) c) (V (eG st) (sc_full par))
      end.
Proof.
  intros Hw Hc. unfold ctor_if.
  destruct (set_condition_spec c None None st Hw Hc I I) as (W & E & sc & A1 & A2 & A3 & A4 & A5 & A6 & A7 & A8 & A9 & A10).
  split; auto. split; auto. exists sc. unfold pushed. repeat split; auto.
Qed.

Lemma ctor_else_spec st :
  WF st ->
  let st' := ctor_else st in
  WF st' /\ ext (eG st) (eG st') /\ exists sc lv, pushed st st' sc /\ sc_comb sc = None /\
    (forall l, eLast st = Some l -> lv = V (eG st) l) /\
    (exists l', sc_loe sc = Some l' /\ l' < length (eG st') /\ V (eG st') l' = lv) /\
    V (eG st') (sc_full sc) =
      match eStack st with
      | [] => cnot lv
      | par :: _ => cand (cnot lv) (V (eG st) (sc_full par))
      end.
Proof.
  intros Hw. unfold ctor_else.
  destruct (get_last st) as [l G0] eqn:HL.
  destruct (get_last_spec _ _ _ Hw HL) as (E0 & B0 & HL0).
  unfold emit.
  set (G1 := G0 ++ [NCNot l]). set (G2 := G1 ++ [NSig (length G0)]).
  assert (L1 : length G1 = S (length G0)) by (unfold G1; rewrite app_length; simpl; lia).
  assert (L2 : length G2 = S (S (length G0))) by (unfold G2; rewrite app_length; simpl; lia).
  assert (E2 : ext (eG st) G2) by (eapply ext_trans; [exact E0|]; eapply ext_trans; apply ext_emit).
  pose proof (WF_set_G st G2 Hw E2) as W2.
  assert (Hp : length G1 < length (eG (set_G st G2))) by (simpl; lia).
  assert (Hl : ob (length (eG (set_G st G2))) (Some l)) by (simpl; lia).
  destruct (set_condition_spec (length G1) (Some l) None (set_G st G2) W2 Hp Hl I)
    as (W & E & sc & A1 & A2 & A3 & A4 & A5 & A6 & A7 & A8 & A9 & A10).
  split; auto. split; [eapply ext_trans; [exact E2|exact E]|].
  exists sc, (V G0 l). split; [unfold pushed; repeat split; auto|]. split; auto.
  split; [intros l0 Hl0; destruct (HL0 _ Hl0) as [-> ->]; reflexivity|].
  split.
  { exists l. split; [exact A9|]. pose proof (ext_length _ _ E) as LE. change (eG (set_G st G2)) with G2 in LE.
    split; [rewrite L2 in LE; lia|].
    apply V_ext; [|exact B0]. eapply ext_trans; [|exact E]. change (eG (set_G st G2)) with G2.
    eapply ext_trans; apply ext_emit. }
  refine (eq_trans A10 _). simpl.
  assert (Hv : V G2 (length G1) = cnot (V G0 l)).
  { unfold G2. rewrite V_emit. simpl. change (getv (eval_all inp G1) (length G0)) with (V G1 (length G0)).
    unfold G1. rewrite V_emit. reflexivity. }
  rewrite Hv. destruct (eStack st) as [|par rest] eqn:Hs; auto.
  f_equal. apply V_ext; auto. destruct Hw as [_ _ H3 _ _]. rewrite Hs in H3. inversion H3 as [|? ? (?&?&?) _]; auto.
Qed.

Lemma ctor_elseif_spec c st :
  WF st -> c < length (eG st) ->
  let st' := ctor_elseif c st in
  WF st' /\ ext (eG st) (eG st') /\ exists sc orn lv, pushed st st' sc /\ sc_comb sc = Some orn /\
    orn < length (eG st') /\
    (forall l, eLast st = Some l -> lv = V (eG st) l) /\
    V (eG st') orn = cor lv (V (eG st) c) /\
    V (eG st') (sc_full sc) =
      match eStack st with
      | [] => cand (V (eG st) c) (cnot lv)
      | par :: _ => cand (cand (V (eG st) c) (cnot lv)) (V (eG st) (sc_full par))
      end.
Proof.
  intros Hw Hc. unfold ctor_elseif.
  destruct (get_last st) as [l G0] eqn:HL.
  destruct (get_last_spec _ _ _ Hw HL) as (E0 & B0 & HL0).
  unfold emit.
  set (G1 := G0 ++ [NCOr l c]). set (G2 := G1 ++ [NCNot l]). set (G3 := G2 ++ [NCAnd c (length G1)]).
  assert (L1 : length G1 = S (length G0)) by (unfold G1; rewrite app_length; simpl; lia).
  assert (L2 : length G2 = S (S (length G0))) by (unfold G2; rewrite app_length; simpl; lia).
  assert (L3 : length G3 = S (S (S (length G0)))) by (unfold G3; rewrite app_length; simpl; lia).
  assert (E01 : ext G0 G1) by apply ext_emit.
  assert (E12 : ext G1 G2) by apply ext_emit.
  assert (E23 : ext G2 G3) by apply ext_emit.
  assert (E3 : ext (eG st) G3) by (eapply ext_trans; [exact E0|]; eapply ext_trans; [exact E01|]; eapply ext_trans; [exact E12|exact E23]).
  pose proof (WF_set_G st G3 Hw E3) as W3.
  pose proof (ext_length _ _ E0) as L0.
  assert (Hp : length G2 < length (eG (set_G st G3))) by (simpl; lia).
  assert (Ho : ob (length (eG (set_G st G3))) (Some (length G0))) by (simpl; lia).
  destruct (set_condition_spec (length G2) None (Some (length G0)) (set_G st G3) W3 Hp I Ho)
    as (W & E & sc & A1 & A2 & A3 & A4 & A5 & A6 & A7 & A8 & A9 & A10).
  split; auto. split; [eapply ext_trans; [exact E3|exact E]|].
  exists sc, (length G0), (V G0 l). split; [unfold pushed; repeat split; auto|]. split; auto.
  split; [pose proof (ext_length _ _ E) as LE; change (eG (set_G st G3)) with G3 in LE; rewrite L3 in LE; eapply Nat.lt_le_trans; [|exact LE]; lia|].
  split; [intros l0 Hl0; destruct (HL0 _ Hl0) as [-> ->]; reflexivity|].
  assert (Hcv : forall Gx, ext G0 Gx -> V Gx c = V (eG st) c).
  { intros Gx Hx. apply V_ext; [eapply ext_trans; [exact E0|exact Hx]|exact Hc]. }
  assert (Hvo : V G3 (length G0) = cor (V G0 l) (V (eG st) c)).
  { rewrite (V_ext inp G1 G3); [|eapply ext_trans; [exact E12|exact E23]|lia]. unfold G1. rewrite V_emit. simpl.
    change (getv (eval_all inp G0) c) with (V G0 c). rewrite (Hcv G0 (ext_refl _)). reflexivity. }
  assert (Hva : V G3 (length G2) = cand (V (eG st) c) (cnot (V G0 l))).
  { unfold G3. rewrite V_emit. simpl.
    change (getv (eval_all inp G2) c) with (V G2 c). change (getv (eval_all inp G2) (length G1)) with (V G2 (length G1)).
    rewrite (Hcv G2); [|eapply ext_trans; [exact E01|exact E12]].
    unfold G2 at 1. rewrite V_emit. simpl. change (getv (eval_all inp G1) l) with (V G1 l).
    rewrite (V_ext inp G0 G1 l E01 B0). reflexivity. }
  split.
  - rewrite (V_ext inp G3 _ _ E); [exact Hvo | simpl; lia].
  - refine (eq_trans A10 _). simpl. rewrite Hva. destruct (eStack st) as [|par rest] eqn:Hs; auto.
    f_equal. apply V_ext; auto. destruct Hw as [_ _ H3 _ _]. rewrite Hs in H3. inversion H3 as [|? ? (?&?&?) _]; auto.
Qed.

Lemma dtor_spec st sc rest :
  WF st -> eStack st = sc :: rest ->
  let st' := dtor st in
  WF st' /\ ext (eG st) (eG st') /\ eStack st' = rest /\ eNext st' = eNext st /\
  eSigs st' = eSigs st /\ eReads st' = eReads st /\
  (forall c, sc_comb sc = Some c -> eLast st' = Some c) /\
  (sc_comb sc = None -> sc_loe sc = None -> eLast st' = Some (sc_cond sc)).
Proof.
  intros Hw Hs. pose proof Hw as [H1 H2 H3 H4 H5]. unfold dtor. rewrite Hs.
  rewrite Hs in H3. inversion H3 as [|? ? (Hc & Hf & Hi & Hlo & Hco) Hrest]; subst.
  destruct (sc_comb sc) as [c|] eqn:Hcomb.
  - simpl. split; [constructor; simpl; auto|]. split; [apply ext_refl|]. repeat split; auto; intros; congruence.
  - destruct (sc_loe sc) as [l|] eqn:Hloe.
    + destruct (opt_nid_eqb (Some l) (eLast st)).
      * simpl. split; [constructor; simpl; auto|]. split; [apply ext_refl|]. repeat split; auto; intros; congruence.
      * destruct (get_last st) as [cur G0] eqn:HL.
        destruct (get_last_spec _ _ _ Hw HL) as (E0 & B0 & _).
        unfold emit. simpl.
        assert (E1 : ext (eG st) (G0 ++ [NCOr cur l])) by (eapply ext_trans; [exact E0|apply ext_emit]).
        pose proof (ext_length _ _ E1) as L1.
        split; [|split; [exact E1|repeat split; auto; intros; congruence]].
        constructor; simpl; auto.
        -- eapply sigs_ok_mono; [| |exact H2]; lia.
        -- eapply stack_ok_mono; [| |exact Hrest]; lia.
        -- rewrite app_length; simpl; lia.
        -- eapply reads_ok_mono; [|exact H5]; lia.
    + simpl. split; [constructor; simpl; auto|]. split; [apply ext_refl|]. repeat split; auto; intros; congruence.
Qed.

(* the special case of the ELSE destructor: a nested scope changed m_lastCondition *)
Lemma dtor_else_or st sc rest l cur :
  WF st -> eStack st = sc :: rest -> sc_comb sc = None -> sc_loe sc = Some l ->
  eLast st = Some cur -> cur <> l ->
  exists orn, eLast (dtor st) = Some orn /\
              V (eG (dtor st)) orn = cor (V (eG st) cur) (V (eG st) l).
Proof.
  intros Hw Hs Hc Hl Hcur Hne. unfold dtor. rewrite Hs, Hc, Hl, Hcur. simpl.
  assert (Hb : Nat.eqb l cur = false) by (apply Nat.eqb_neq; congruence).
  rewrite Hb. unfold get_last. rewrite Hcur. unfold emit. simpl.
  eexists. split; [reflexivity|]. rewrite V_emit. reflexivity.
Qed.

Lemma leave_block_WF n st : WF st -> WF (leave_block n st).
Proof.
  intros [H1 H2 H3 H4 H5]. constructor; simpl; auto. apply Forall_lastn; auto.
Qed.

End Steps.
