(* C17 — Gallina transcriptions of the scl *generators* (source/gatery/scl/...).

   The C++ functions are loops over bit positions that build a circuit; here the same
   loops compute on bit lists (list bool, LSB first) and on N.  Operands are fully
   defined (undefined operand bits are C08's business); outputs that the circuit
   leaves unassigned (priority encoder on an all-zero operand) are [None].
   Where the frontend operators truncate (UInt +, -, <<, .lower) the [mod 2^w] is
   written explicitly.  No proofs in this file. *)
From Coq Require Import List Bool Arith NArith ZArith Lia.
Import ListNotations.
Open Scope N_scope.

(* ------------------------------------------------------------------ bit vectors *)
Definition bits := list bool.          (* LSB first *)

Fixpoint N_of_bits (l : bits) : N :=
  match l with [] => 0 | b :: r => N.b2n b + 2 * N_of_bits r end.

Fixpoint bits_of_N (w : nat) (x : N) : bits :=
  match w with O => [] | S w' => N.odd x :: bits_of_N w' (N.div2 x) end.

Fixpoint indexed_from {A} (i : N) (l : list A) : list (N * A) :=
  match l with [] => [] | a :: r => (i, a) :: indexed_from (i + 1) r end.

Fixpoint map2 {A B C} (f : A -> B -> C) (a : list A) (b : list B) : list C :=
  match a, b with x :: a', y :: b' => f x y :: map2 f a' b' | _, _ => [] end.

Fixpoint map3 {A B C D} (f : A -> B -> C -> D) (a : list A) (b : list B) (c : list C) : list D :=
  match a, b, c with x :: a', y :: b', z :: c' => f x y z :: map3 f a' b' c' | _, _, _ => [] end.

(* ------------------------------------------------------------------ width helpers
   utils::Log2C (BitManipulation.h), BitWidth::last / BitWidth::count (BitWidth.h),
   utils::nextPow2 (sizes below 2^63: the size_t wrap is not modelled). *)
Definition log2c (v : N) : N := if v =? 1 then 0 else N.log2 (v - 1) + 1.
Definition bw_last (v : N) : N := log2c (v + 1).
Definition bw_count (c : N) : N := if c <=? 1 then 0 else log2c c.
Definition next_pow2 (v : N) : N := if v =? 0 then 0 else 2 ^ log2c v.
Definition is_pow2 (v : N) : bool := negb (v =? 0) && (v =? 2 ^ N.log2 v).

(* ------------------------------------------------------------------ utils/BitCount.h
   UInt sumOfOnes = ConstUInt(0, BitWidth::last(vec.size()));
   for (it : vec) sumOfOnes += zext(it); *)
Definition bitcount_width (n : N) : N := bw_last n.
Definition bitcount (v : bits) : N :=
  let w := bitcount_width (N.of_nat (length v)) in
  fold_left (fun acc b => (acc + N.b2n b) mod 2 ^ w) v 0.

(* ------------------------------------------------------------------ utils/OneHot.cpp *)
(* decoder: OneHot ret = BitWidth{1 << in.size()};  at(i) = idx == i *)
Definition decoder (w : nat) (idx : N) : bits :=
  map (fun i => idx =? N.of_nat i) (seq 0 (2 ^ w)%nat).

(* encoder: ret = 0 (Log2C(in.size()) bits); for i: ret |= ext(i & in[i]) *)
Definition encoder_width (n : N) : N := log2c n.
Definition encoder (v : bits) : N :=
  fold_left (fun ret '(i, b) => N.lor ret (if b : bool then i else 0)) (indexed_from 0 v) 0.

(* countLeadingZeros: ret = size; for i ascending: IF(in[i]) ret = size - i - 1 *)
Definition clz (v : bits) : N :=
  let n := N.of_nat (length v) in
  fold_left (fun ret '(i, b) => if b : bool then n - i - 1 else ret) (indexed_from 0 v) n.

(* priorityEncoder: ret undefined (BitWidth::count(size) bits);
   for i = size-1 downto 0: IF(in[i]) ret = i;   valid = in != 0.
   fold_right applies the LAST list element first = the descending loop. *)
Definition pe_result := (option N * bool)%type.
Definition prienc_width (n : N) : N := bw_count n.
Definition prienc (v : bits) : pe_result :=
  (fold_right (fun '(i, b) ret => if b : bool then Some i else ret) None (indexed_from 0 v),
   negb (N_of_bits v =? 0)).

(* in(i, clamp) for i = 0, k, 2k, ... : pieces of k bits, the last one clamped *)
Fixpoint chunks (fuel : nat) (k : nat) (l : bits) : list bits :=
  match fuel with
  | O => []
  | S f => match l with [] => [] | _ => firstn k l :: chunks f k (skipn k l) end
  end.

(* the selection loop of priorityEncoderTree:
   for i = lowerStep.size()-1 downto 0: IF(valid(lowerStep[i])) { highSelect = i;
     *lowSelect = zext( *lowerStep[i] ); valid(lowSelect) = '1'; }
   out = cat(highSelect, *lowSelect) *)
Definition petree_combine (lowW : N) (lower : list pe_result) : pe_result :=
  let '(hi, lo, v) :=
    fold_right (fun '(i, r) st => if snd r : bool then (Some i, fst r, true) else st)
               (None, None, false) (indexed_from 0 lower) in
  (match hi, lo with Some h, Some l => Some (h * 2 ^ lowW + l) | _, _ => None end, v).

Definition petree_ibps (bps n : N) : N :=
  let stepBits := 2 ^ bps in next_pow2 ((n + stepBits - 1) / stepBits).

(* priorityEncoderTree(in, registerStep = false, bps); the C++ recursion is on the
   operand size, here on fuel (length v suffices when bps >= 1; bps = 0 makes the C++
   recurse forever on every operand of 2 or more bits) *)
Fixpoint petree_fuel (fuel : nat) (bps : N) (v : bits) : pe_result :=
  let ibps := petree_ibps bps (N.of_nat (length v)) in
  if ibps <=? 1 then prienc v else
  match fuel with
  | O => (None, false)
  | S f => petree_combine (bw_count ibps)
             (map (petree_fuel f bps) (chunks (length v) (N.to_nat ibps) v))
  end.
Definition petree (bps : N) (v : bits) : pe_result := petree_fuel (length v) bps v.
Definition petree_width (bps n : N) : N :=
  let ibps := petree_ibps bps n in
  if ibps <=? 1 then prienc_width n else bps + bw_count ibps.

(* registerStep = true: every recursion level ends in out = reg(out) (no reset value).
   [inp u] is the operand at cycle u (all of the static width n); the result at cycle t
   is None while some register on the way has not been loaded yet. *)
Fixpoint ranges (fuel : nat) (k : nat) (off n : nat) : list (nat * nat) :=
  match fuel with
  | O => []
  | S f => match n with O => [] | _ => (off, Nat.min k n) :: ranges f k (off + k) (n - k) end
  end.
Definition slice (o s : nat) (v : bits) : bits := firstn s (skipn o v).
Definition is_some {A} (o : option A) : bool := match o with Some _ => true | None => false end.
Fixpoint somes {A} (l : list (option A)) : list A :=
  match l with [] => [] | Some a :: r => a :: somes r | None :: r => somes r end.

Fixpoint petree_reg_fuel (fuel : nat) (bps : N) (n : nat) (inp : nat -> bits) (t : nat)
  : option pe_result :=
  let ibps := petree_ibps bps (N.of_nat n) in
  if ibps <=? 1 then Some (prienc (inp t)) else
  match fuel with
  | O => None
  | S f =>
    match t with
    | O => None
    | S t' =>
      let lower := map (fun '(o, s) => petree_reg_fuel f bps s (fun u => slice o s (inp u)) t')
                       (ranges n (N.to_nat ibps) 0 n) in
      if forallb is_some lower then Some (petree_combine (bw_count ibps) (somes lower)) else None
    end
  end.
Definition petree_reg (bps : N) (n : nat) (inp : nat -> bits) (t : nat) : option pe_result :=
  petree_reg_fuel n bps n inp t.

(* ------------------------------------------------------------------ utils/Thermometric.cpp
   ret has in.width().last() = 2^w - 1 bits; ret[i] = in > i *)
Definition thermo (w : nat) (x : N) : bits :=
  map (fun i => N.of_nat i <? x) (seq 0 (2 ^ w - 1)%nat).
Definition thermo_lower (w outw : nat) (x : N) : bits := firstn outw (thermo w x).
Definition unthermo (v : bits) : N := bitcount v.

(* ------------------------------------------------------------------ cdc.cpp gray code *)
Definition shr1 (v : bits) : bits := match v with [] => [] | _ :: r => r ++ [false] end.
Definition gray_encode (v : bits) : bits := map2 xorb v (shr1 v).         (* val ^ (val >> 1) *)
(* ret.msb() = val.msb(); for i = w-2 downto 0: ret[i] = ret[i+1] ^ val[i] *)
Fixpoint gray_decode (v : bits) : bits :=
  match v with
  | [] => []
  | b :: r => match r with
              | [] => [b]
              | _ => let r' := gray_decode r in xorb (hd false r') b :: r'
              end
  end.

(* ------------------------------------------------------------------ math.h min / max
   ret = a; IF(a > b) ret = b;      ret = a; IF(a < b) ret = b;  (equal widths; mixed
   widths are rejected at design time) *)
Definition umin (a b : N) : N := if b <? a then b else a.
Definition umax (a b : N) : N := if a <? b then b else a.
Definition to_signed (w : N) (x : N) : Z :=
  if N.testbit x (w - 1) then (Z.of_N x - 2 ^ Z.of_N w)%Z else Z.of_N x.
(* min<SInt>/max<SInt> go through the frontend's SInt comparison (SignalCompareOp.cpp):
   lt(lhs, rhs) = (sext(lhs, w+1) - sext(rhs, w+1)).sign(), gt(lhs, rhs) = lt(rhs, lhs);
   the subtraction is done one bit wider than the operands and wraps at that width *)
Definition sub_w (w a b : N) : N := (a + 2 ^ w - b mod 2 ^ w) mod 2 ^ w.
Definition sext1 (w x : N) : N := if N.testbit x (w - 1) then x + 2 ^ w else x.   (* sext to w+1 bits *)
Definition slt (w a b : N) : bool := N.testbit (sub_w (w + 1) (sext1 w a) (sext1 w b)) w.
Definition sgt (w a b : N) : bool := slt w b a.
Definition smin (w a b : N) : N := if sgt w a b then b else a.
Definition smax (w a b : N) : N := if slt w a b then b else a.

(* ------------------------------------------------------------------ math.cpp
   biggestPowerOfTwo: result = 0; for i: candidate = 0 (input width); candidate[i] = '1';
   IF(input.at(i)) result = candidate *)
Definition bpo2 (v : bits) : N :=
  let w := N.of_nat (length v) in
  fold_left (fun r '(i, b) => if b : bool then (2 ^ i) mod 2 ^ w else r) (indexed_from 0 v) 0.

(* longDivision(UInt numerator, UInt denominator, 0):
   remainder = cat(0 (denomW bits), numerator);
   for i = numW downto 1:
     workingSlice = remainder(i-1, denomW+1);
     quotient[i-1] = workingSlice >= zext(denominator);
     IF(quotient[i-1]) workingSlice -= zext(denominator);          (wraps mod 2^(denomW+1)) *)
Definition ldiv_step (denW den : N) (st : N * N) (i : N) : N * N :=
  let '(rm, quo) := st in
  let sw := denW + 1 in
  let sl := (rm / 2 ^ (i - 1)) mod 2 ^ sw in
  let q := den <=? sl in
  let sl' := if q then (sl + 2 ^ sw - den) mod 2 ^ sw else sl in
  (rm - sl * 2 ^ (i - 1) + sl' * 2 ^ (i - 1), if q then quo + 2 ^ (i - 1) else quo).
Definition ldiv_indices (numW : nat) : list N := rev (map N.of_nat (seq 1 numW)).
Definition ldiv_state (numW : nat) (denW num den : N) : N * N :=
  fold_left (ldiv_step denW den) (ldiv_indices numW) (num, 0).
Definition ldiv (numW : nat) (denW num den : N) : N := snd (ldiv_state numW denW num den).

(* pipelining: pipestage(workingSlice) after every step i with i % steps == 0; the stages are
   balanced by retiming against pipeinputgroup(numerator, denominator), so the observable
   effect is a pure delay.  The stage after step i = 1 only holds the (unused) remainder. *)
Definition ldiv_latency (numW : nat) (steps : N) : nat :=
  if steps =? 0 then O
  else length (filter (fun i => (2 <=? i) && (i mod steps =? 0)) (map N.of_nat (seq 1 numW))).
Definition ldiv_pipe (numW : nat) (denW steps : N) (inp : nat -> N * N) (t : nat) : option N :=
  let L := ldiv_latency numW steps in
  if (t <? L)%nat then None else Some (ldiv numW denW (fst (inp (t - L)%nat)) (snd (inp (t - L)%nat))).

(* longDivision(SInt numerator, UInt denominator): sign-magnitude around the unsigned one;
   ~x + 1 at the operand width *)
Definition neg_w (w x : N) : N := ((2 ^ w - 1 - x) + 1) mod 2 ^ w.
Definition sldiv (numW : nat) (denW num den : N) : N :=
  let w := N.of_nat numW in
  let sign := N.testbit num (w - 1) in
  let mag := if sign then neg_w w num else num in
  let q := ldiv numW denW mag den in
  if sign then neg_w w q else q.
(* `~resultSigned + SInt(1)`: the literal SInt(1) is 2 bits wide, a 1-bit numerator is rejected
   at design time (operand size mismatch) *)
Definition sldiv_supported (numW : nat) : bool := (2 <=? numW)%nat.
Definition sldiv_gen (numW : nat) (denW num den : N) : option N :=
  if sldiv_supported numW then Some (sldiv numW denW num den) else None.

(* ------------------------------------------------------------------ Adder.cpp *)
Definition xor3 (a b c : bool) : bool := xorb (xorb a b) c.
Definition maj (a b c : bool) : bool := (a && c) || (a && b) || (c && b).
(* addCarrySave: sum = a ^ b ^ c; carry = (a & c) | (a & b) | (c & b) *)
Definition add_carry_save (a b c : bits) : bits * bits := (map3 xor3 a b c, map3 maj a b c).
Definition shl1 (v : bits) : bits := match v with [] => [] | _ => false :: removelast v end.   (* v <<= 1 *)

Record csa_state := { csa_count : nat; csa_sum : bits; csa_carry : bits }.
Definition csa_init : csa_state := {| csa_count := 0; csa_sum := []; csa_carry := [] |}.
Definition csa_add (st : csa_state) (b : bits) : csa_state :=
  match csa_count st with
  | O => {| csa_count := 1; csa_sum := b; csa_carry := csa_carry st |}
  | S O => {| csa_count := 2; csa_sum := csa_sum st; csa_carry := b |}
  | S (S _) => let '(s, c) := add_carry_save (csa_sum st) (csa_carry st) b in
               {| csa_count := S (csa_count st); csa_sum := s; csa_carry := shl1 c |}
  end.
(* sum(): m_count <= 1 ? m_sum : m_sum + m_carry *)
Definition csa_result (st : csa_state) : N :=
  if (csa_count st <=? 1)%nat then N_of_bits (csa_sum st)
  else (N_of_bits (csa_sum st) + N_of_bits (csa_carry st)) mod 2 ^ N.of_nat (length (csa_sum st)).
Definition csa_run (ops : list bits) : csa_state := fold_left csa_add ops csa_init.

(* Adder<UInt>: first add() assigns, every further one is m_sum += b at the operand width *)
Definition adder_run (w : N) (ops : list N) : N :=
  match ops with [] => 0 | a :: r => fold_left (fun s b => (s + b) mod 2 ^ w) r a end.

(* add(a, b, cin): sum = a + b + cin; cout = ((a | b) & ~sum) | (a & b) *)
Definition addc (w a b : N) (cin : bool) : N * N :=
  let sum := (a + b + N.b2n cin) mod 2 ^ w in
  (sum, N.lor (N.land (N.lor a b) (N.lnot sum w)) (N.land a b)).

(* ------------------------------------------------------------------ Counter.cpp *)
Record counter_cfg := {
  cc_w : N;          (* counterW *)
  cc_endw : N;       (* width of the UInt holding `end` *)
  cc_check : bool;   (* checkOverflows *)
  cc_reset : N;      (* reset / startup value *)
  cc_never : bool    (* m_incrementNeverUsed: neither inc() nor dec() is called anywhere *)
}.
(* Counter(size_t end, startup) *)
Definition counter_cfg_end (e rv : N) (never : bool) : counter_cfg :=
  if is_pow2 e then {| cc_w := bw_count e; cc_endw := bw_last e; cc_check := false; cc_reset := rv; cc_never := never |}
  else {| cc_w := bw_last e; cc_endw := bw_last e; cc_check := true; cc_reset := rv; cc_never := never |}.
(* Counter(BitWidth ctrW, startup): end = ctrW.count() *)
Definition counter_cfg_w (w rv : N) (never : bool) : counter_cfg :=
  {| cc_w := w; cc_endw := w + 1; cc_check := true; cc_reset := rv; cc_never := never |}.
(* Counter(UInt end, startup) *)
Definition counter_cfg_dyn (w rv : N) (never : bool) : counter_cfg :=
  {| cc_w := w; cc_endw := w; cc_check := true; cc_reset := rv; cc_never := never |}.

(* (end - 1).lower(counterW) *)
Definition counter_lastv (c : counter_cfg) (endv : N) : N :=
  ((endv + 2 ^ cc_endw c - 1) mod 2 ^ cc_endw c) mod 2 ^ cc_w c.

Definition counter_delta (c : counter_cfg) (inc dec : bool) : N :=
  let mask := 2 ^ cc_w c - 1 in
  let d0 := 0 in
  let d1 := if cc_never c then 1 else d0 in
  let d2 := if inc && negb dec then 1 else d1 in
  if dec && negb inc then N.lor d2 mask else d2.

(* the input of the value register *)
Definition counter_next (c : counter_cfg) (endv value : N) (inc dec load : bool) (loadv : N) : N :=
  let w := cc_w c in
  let mask := 2 ^ w - 1 in
  let lastv := counter_lastv c endv in
  let last := value =? lastv in
  let delta := counter_delta c inc dec in
  let isFirst := value =? 0 in
  let v1 := (value + delta) mod 2 ^ w in
  let v2 := if cc_check c then
              let v := if (delta =? 1) && last then 0 else v1 in
              if (delta =? mask) && isFirst then lastv else v
            else v1 in
  if load then loadv else v2.

Record counter_in := { ci_inc : bool; ci_dec : bool; ci_load : bool; ci_loadv : N; ci_end : N }.
(* per cycle: value, isLast, isFirst, becomesFirst *)
Definition counter_out (c : counter_cfg) (value : N) (i : counter_in) : N * bool * bool * bool :=
  (value, value =? counter_lastv c (ci_end i), value =? 0,
   counter_next c (ci_end i) value (ci_inc i) (ci_dec i) (ci_load i) (ci_loadv i) =? 0).
Fixpoint counter_run (c : counter_cfg) (value : N) (tr : list counter_in) : list (N * bool * bool * bool) :=
  match tr with
  | [] => []
  | i :: r => counter_out c value i ::
              counter_run c (counter_next c (ci_end i) value (ci_inc i) (ci_dec i) (ci_load i) (ci_loadv i)) r
  end.

(* How a design uses one Counter object: which of inc() / dec() are called at all (this decides
   m_incrementNeverUsed: the flag is cleared inside ConditionalScope{'1', true}, i.e. independently
   of the caller's IF()), and under which conditions.  scope:
     0  IF(inc) c.inc(); IF(dec) c.dec();            1  unconditional calls
     2  IF(en) { IF(inc) c.inc(); IF(dec) c.dec(); }   3  IF(en) { IF(inc) c.inc(); } ELSE { IF(dec) c.dec(); }
     4  IF(en) { c.inc(); c.dec(); }                    5  two call sites: IF(inc) c.inc(); IF(en) c.inc(); (same for dec)
   ldkind: 0 no load; 1 IF(load) c.load(v); 2 IF(load) c.reset(); 3 IF(en) IF(load) c.load(v) *)
Record counter_use := { cu_inc : bool; cu_dec : bool; cu_scope : N; cu_ldkind : N }.
Definition counter_never (u : counter_use) : bool := negb (cu_inc u || cu_dec u).
(* m_inc / m_dec as driven by the call sites *)
Definition counter_eff (u : counter_use) (inc dec en : bool) : bool * bool :=
  let '(i, d) := match cu_scope u with
                 | 0 => (inc, dec)
                 | 1 => (true, true)
                 | 2 => (en && inc, en && dec)
                 | 3 => (en && inc, negb en && dec)
                 | 4 => (en, en)
                 | _ => (inc || en, dec || en)
                 end in
  (cu_inc u && i, cu_dec u && d).
Definition counter_use_in (c : counter_cfg) (u : counter_use) (inc dec en load : bool) (lv endv : N) : counter_in :=
  let '(i, d) := counter_eff u inc dec en in
  {| ci_inc := i; ci_dec := d;
     ci_load := match cu_ldkind u with 0 => false | 3 => en && load | _ => load end;
     ci_loadv := match cu_ldkind u with 2 => cc_reset c | _ => lv end;
     ci_end := endv |}.

(* counterUpDown(increment, decrement, reset, ctrW, resetValue):
   IF(increment) IF(!isLast) inc();  IF(decrement) IF(!isFirst) dec();  IF(reset) ctr.reset() *)
Definition updown_next (w rv value : N) (inc dec rst : bool) : N :=
  let c := counter_cfg_w w rv false in
  let isLast := value =? counter_lastv c (2 ^ w) in
  let isFirst := value =? 0 in
  counter_next c (2 ^ w) value (inc && negb isLast) (dec && negb isFirst) rst rv.
Fixpoint updown_run (w rv value : N) (tr : list (bool * bool * bool)) : list N :=
  match tr with
  | [] => []
  | (i, d, r) :: rest => value :: updown_run w rv (updown_next w rv value i d r) rest
  end.

(* ------------------------------------------------------------------ crc.cpp
   rem = 0 (max(remW, dataW) bits); rem.upper(remW) = remainder; rem.upper(dataW) ^= data;
   dataW times: sub = rem.msb(); rem <<= 1; IF(sub) rem.upper(polyW) ^= polynomial;
   return rem.upper(remW) *)
Definition crc_step (W polyW poly r : N) : N :=
  let sub := N.testbit r (W - 1) in
  let r1 := (2 * r) mod 2 ^ W in
  if sub then N.lxor r1 (poly * 2 ^ (W - polyW)) else r1.
Definition crc (remW dataW polyW : N) (rm data poly : N) : N :=
  let W := N.max remW dataW in
  let r0 := N.lxor (rm * 2 ^ (W - remW)) (data * 2 ^ (W - dataW)) in
  N.iter dataW (crc_step W polyW poly) r0 / 2 ^ (W - remW).

Record crc_params := {
  cp_w : N; cp_poly : N; cp_init : N; cp_revdata : bool; cp_revcrc : bool; cp_xorout : N }.
(* swapEndian(x, 1_b): bit reversal at the operand width *)
Definition reflect (w : N) (x : N) : N := N_of_bits (rev (bits_of_N (N.to_nat w) x)).
Definition crc_update (p : crc_params) (dataW : N) (rm data : N) : N :=
  crc (cp_w p) dataW (cp_w p) rm (if cp_revdata p then reflect dataW data else data) (cp_poly p).
Definition crc_checksum (p : crc_params) (rm : N) : N :=
  let res := N.lxor rm (cp_xorout p) in
  if cp_revcrc p then reflect (cp_w p) res else res.
Definition crc_state_run (p : crc_params) (dataW : N) (words : list N) : N :=
  crc_checksum p (fold_left (crc_update p dataW) words (cp_init p)).

(* update() calls with data words of different widths: (width, word) pairs *)
Definition crc_state_run_mixed (p : crc_params) (words : list (N * N)) : N :=
  crc_checksum p (fold_left (fun rm '(d, w) => crc_update p d rm w) words (cp_init p)).

(* CrcParams::init presets, in enum order *)
Definition crc_5_usb    := {| cp_w := 5;  cp_poly := 5;          cp_init := 31;         cp_revdata := true;  cp_revcrc := true;  cp_xorout := 31 |}.
Definition crc_16_ccitt := {| cp_w := 16; cp_poly := 4129;       cp_init := 7439;       cp_revdata := false; cp_revcrc := false; cp_xorout := 0 |}.
Definition crc_16_usb   := {| cp_w := 16; cp_poly := 32773;      cp_init := 65535;      cp_revdata := true;  cp_revcrc := true;  cp_xorout := 65535 |}.
Definition crc_32       := {| cp_w := 32; cp_poly := 79764919;   cp_init := 4294967295; cp_revdata := true;  cp_revcrc := true;  cp_xorout := 4294967295 |}.
Definition crc_32c      := {| cp_w := 32; cp_poly := 517762881;  cp_init := 4294967295; cp_revdata := true;  cp_revcrc := true;  cp_xorout := 4294967295 |}.
Definition crc_32d      := {| cp_w := 32; cp_poly := 2821953579; cp_init := 4294967295; cp_revdata := true;  cp_revcrc := true;  cp_xorout := 4294967295 |}.
Definition crc_32q      := {| cp_w := 32; cp_poly := 2168537515; cp_init := 0;          cp_revdata := false; cp_revcrc := false; cp_xorout := 0 |}.
Definition crc_preset (k : N) : crc_params :=
  match k with 0 => crc_5_usb | 1 => crc_16_ccitt | 2 => crc_16_usb | 3 => crc_32
             | 4 => crc_32c | 5 => crc_32d | _ => crc_32q end.
