(* C18 -- proofs, part 3: memcpy on the byte image, copyRange, insert(state), resize,
   all as statements about [wbit]. *)
From Coq Require Import List NArith ZArith Bool Lia.
From Gatery Require Import BvsDefs BvsSpec BvsLeaf BvsWords.
Import ListNotations.
Ltac Zify.zify_post_hook ::= Z.to_euclidean_division_equations.
Local Open Scope N_scope.

Ltac split_cond E :=
  apply andb_true_iff in E; destruct E as [?E1 ?E2];
  apply N.leb_le in E1; apply N.ltb_lt in E2.

(* ---- bytes ---- *)
Lemma tb_255 j : N.testbit 255 j = (j <? 8).
Proof. change 255 with (N.ones 8). apply tb_ones. Qed.

Lemma tb_getByte w k j : N.testbit (getByte w k) j = (j <? 8) && wbit w (8 * k + j).
Proof.
  unfold getByte. rewrite N.land_spec, tb_shr, tb_255.
  destruct (N.ltb_spec j 8); bsimpl.
  - rewrite andb_true_r. unfold wbit.
    replace ((8 * k + j) / 64) with (k / 8) by lia.
    replace ((8 * k + j) mod 64) with (j + 8 * (k mod 8)) by lia. reflexivity.
  - apply andb_false_r.
Qed.

Lemma wbit_setByte w k b i :
  wordsok w -> 8 * k + 8 <= 64 * wlen w -> b < 256 ->
  wbit (setByte w k b) i
  = if (8 * k <=? i) && (i <? 8 * k + 8) then N.testbit b (i - 8 * k) else wbit w i.
Proof.
  intros Hw Hin Hb. unfold setByte. rewrite wbit_setw.
  rewrite N.lor_spec, N.ldiff_spec, !tb_shl, tb_255.
  assert (Hb8 : forall x, 8 <= x -> N.testbit b x = false).
  { intros x Hx. destruct (N.eq_dec b 0) as [-> | Hb0]; [apply tb_0|].
    apply N.bits_above_log2. apply N.lt_le_trans with 8; [|exact Hx].
    apply N.log2_lt_pow2; [lia | exact Hb]. }
  destruct (N.eqb_spec (i / 64) (k / 8)) as [E | E]; bsimpl.
  - destruct (N.ltb_spec (k / 8) (wlen w)); [|lia].
    destruct (N.leb_spec (8 * (k mod 8)) (i mod 64)); bsimpl.
    + destruct (N.ltb_spec (i mod 64 - 8 * (k mod 8)) 8); bsimpl.
      * destruct (N.leb_spec (8 * k) i); [|lia]. destruct (N.ltb_spec i (8 * k + 8)); [|lia]. bsimpl.
        rewrite andb_false_r. bsimpl. f_equal. lia.
      * destruct (N.leb_spec (8 * k) i); [|lia]. destruct (N.ltb_spec i (8 * k + 8)); [lia|]. bsimpl.
        rewrite Hb8 by lia. rewrite andb_true_r, orb_false_r. unfold wbit. rewrite E. reflexivity.
    + destruct (N.leb_spec (8 * k) i); [lia|]. bsimpl. rewrite andb_true_r, orb_false_r.
      unfold wbit. rewrite E. reflexivity.
  - destruct (N.leb_spec (8 * k) i); bsimpl; [|reflexivity].
    destruct (N.ltb_spec i (8 * k + 8)); [lia | reflexivity].
Qed.

Lemma lt256_getByte w k : getByte w k < 256.
Proof.
  unfold getByte. change 255 with (N.ones 8). rewrite N.land_ones.
  change 256 with (2 ^ 8). apply N.mod_lt. discriminate.
Qed.

Lemma length_setByte w k b : length (setByte w k b) = length w.
Proof. apply length_setw. Qed.

Lemma wordsok_setByte w k b : wordsok w -> b < 256 -> wordsok (setByte w k b).
Proof.
  intros Hw Hb. apply wordsok_setw; [exact Hw|]. apply tb_lt64. intros j Hj.
  rewrite N.lor_spec, N.ldiff_spec, !tb_shl.
  rewrite (lt64_tb _ _ (wordsok_getw w (k / 8) Hw) Hj). bsimpl.
  destruct (N.leb_spec (8 * (k mod 8)) j); bsimpl; [|reflexivity].
  destruct (N.eq_dec b 0) as [-> | Hb0]; [apply tb_0|].
  apply N.bits_above_log2. apply N.lt_le_trans with 8; [|lia].
  apply N.log2_lt_pow2; [lia | exact Hb].
Qed.

Lemma length_memcpyB dst d src s n : length (memcpyB dst d src s n) = length dst.
Proof.
  revert dst d s; induction n as [|n IH]; intros dst d s; cbn [memcpyB]; [reflexivity|].
  rewrite IH. apply length_setByte.
Qed.

Lemma wordsok_memcpyB dst d src s n : wordsok dst -> wordsok (memcpyB dst d src s n).
Proof.
  revert dst d s; induction n as [|n IH]; intros dst d s H; cbn [memcpyB]; [exact H|].
  apply IH. apply wordsok_setByte; [exact H | apply lt256_getByte].
Qed.

Lemma wbit_memcpyB dst d src s n i :
  wordsok dst -> 8 * (d + N.of_nat n) <= 64 * wlen dst ->
  wbit (memcpyB dst d src s n) i
  = if (8 * d <=? i) && (i <? 8 * (d + N.of_nat n)) then wbit src (8 * s + (i - 8 * d)) else wbit dst i.
Proof.
  revert dst d s; induction n as [|n IH]; intros dst d s Hw Hin; cbn [memcpyB].
  - cmp_cases; bool_close.
  - rewrite IH.
    + rewrite wbit_setByte; [| exact Hw | lia | apply lt256_getByte].
      rewrite tb_getByte.
      destruct ((8 * d <=? i) && (i <? 8 * d + 8)) eqn:E.
      * split_cond E.
        destruct (N.leb_spec (8 * (d + 1)) i); [lia|]. bsimpl.
        destruct (N.leb_spec (8 * d) i); [|lia].
        destruct (N.ltb_spec i (8 * (d + N.of_nat (S n)))); [|lia]. bsimpl.
        destruct (N.ltb_spec (i - 8 * d) 8); [|lia]. bsimpl. reflexivity.
      * destruct ((8 * (d + 1) <=? i) && (i <? 8 * (d + 1 + N.of_nat n))) eqn:E'.
        -- split_cond E'.
           destruct (N.leb_spec (8 * d) i); [|lia].
           destruct (N.ltb_spec i (8 * (d + N.of_nat (S n)))); [|lia]. bsimpl.
           f_equal. lia.
        -- revert E E'. cmp_cases; bool_close; intros; try discriminate.
    + apply wordsok_setByte; [exact Hw | apply lt256_getByte].
    + unfold wlen. rewrite length_setByte. fold (wlen dst). lia.
Qed.

(* ---- the 64-bit chunk loop of copyRange ---- *)
Lemma length_copyLoop fuel dst dOff src sOff width offset :
  length (copyLoop fuel dst dOff src sOff width offset) = length dst.
Proof.
  revert dst offset; induction fuel as [|f IH]; intros dst offset; cbn [copyLoop]; [reflexivity|].
  destruct (offset <? width); [|reflexivity]. rewrite IH. apply length_insertWP.
Qed.

Lemma wordsok_copyLoop fuel dst dOff src sOff width offset :
  wordsok dst -> wordsok (copyLoop fuel dst dOff src sOff width offset).
Proof.
  revert dst offset; induction fuel as [|f IH]; intros dst offset H; cbn [copyLoop]; [exact H|].
  destruct (offset <? width); [|exact H]. apply IH. apply wordsok_insertWP. exact H.
Qed.

Lemma wbit_copyLoop fuel dst dOff src sOff width offset i :
  wordsok dst -> wordsok src -> width - offset < N.of_nat fuel -> offset <= width ->
  dOff + width <= 64 * wlen dst ->
  wbit (copyLoop fuel dst dOff src sOff width offset) i
  = if (dOff + offset <=? i) && (i <? dOff + width) then wbit src (sOff + (i - dOff)) else wbit dst i.
Proof.
  revert dst offset; induction fuel as [|f IH]; intros dst offset Hd Hs Hf Ho Hin; [lia|].
  cbn [copyLoop]. destruct (N.ltb_spec offset width) as [Hlt | Hge].
  - set (chunk := N.min 64 (width - offset)).
    assert (Hc : 1 <= chunk <= 64 /\ offset + chunk <= width) by (subst chunk; lia).
    rewrite IH.
    + rewrite wbit_insertWP; [| exact Hd | lia | lia].
      rewrite tb_extractWP; [| exact Hs | lia].
      destruct ((dOff + offset <=? i) && (i <? dOff + offset + chunk)) eqn:E.
      * split_cond E.
        destruct (N.leb_spec (dOff + (offset + chunk)) i); [lia|]. bsimpl.
        destruct (N.leb_spec (dOff + offset) i); [|lia].
        destruct (N.ltb_spec i (dOff + width)); [|lia]. bsimpl.
        destruct (N.ltb_spec (i - (dOff + offset)) chunk); [|lia]. bsimpl.
        f_equal. lia.
      * revert E. cmp_cases; bool_close; intros; try discriminate.
    + apply wordsok_insertWP. exact Hd.
    + exact Hs.
    + lia.
    + lia.
    + unfold wlen. rewrite length_insertWP. exact Hin.
  - cmp_cases; bool_close.
Qed.

(* ---- copyRange on one plane ---- *)
Lemma length_copyRangeP dst dOff src sOff size :
  length (copyRangeP dst dOff src sOff size) = length dst.
Proof.
  unfold copyRangeP. destruct ((sOff mod 8 =? 0) && (dOff mod 8 =? 0) && (8 <=? size)).
  - rewrite length_copyLoop. apply length_memcpyB.
  - apply length_copyLoop.
Qed.

Lemma wordsok_copyRangeP dst dOff src sOff size :
  wordsok dst -> wordsok (copyRangeP dst dOff src sOff size).
Proof.
  intro H. unfold copyRangeP. destruct ((sOff mod 8 =? 0) && (dOff mod 8 =? 0) && (8 <=? size)).
  - apply wordsok_copyLoop. apply wordsok_memcpyB. exact H.
  - apply wordsok_copyLoop. exact H.
Qed.

Lemma wbit_copyRangeP dst dOff src sOff size i :
  wordsok dst -> wordsok src -> dOff + size <= 64 * wlen dst ->
  wbit (copyRangeP dst dOff src sOff size) i
  = if (dOff <=? i) && (i <? dOff + size) then wbit src (sOff + (i - dOff)) else wbit dst i.
Proof.
  intros Hd Hs Hin. unfold copyRangeP.
  destruct ((sOff mod 8 =? 0) && (dOff mod 8 =? 0) && (8 <=? size)) eqn:C.
  - apply andb_true_iff in C. destruct C as [C C3]. apply andb_true_iff in C. destruct C as [C1 C2].
    apply N.eqb_eq in C1. apply N.eqb_eq in C2. apply N.leb_le in C3.
    set (bytes := size / 8).
    rewrite wbit_copyLoop.
    + rewrite wbit_memcpyB; [| exact Hd | rewrite N2Nat.id; lia]. rewrite N2Nat.id.
      destruct ((dOff + bytes * 8 + 0 <=? i) && (i <? dOff + bytes * 8 + (size - bytes * 8))) eqn:E.
      * split_cond E.
        destruct (N.leb_spec dOff i); [|lia]. destruct (N.ltb_spec i (dOff + size)); [|lia]. bsimpl.
        f_equal. lia.
      * destruct ((8 * (dOff / 8) <=? i) && (i <? 8 * (dOff / 8 + bytes))) eqn:E'.
        -- split_cond E'.
           destruct (N.leb_spec dOff i); [|lia]. destruct (N.ltb_spec i (dOff + size)); [|lia]. bsimpl.
           f_equal. lia.
        -- revert E E'. cmp_cases; bool_close; intros; try discriminate.
    + apply wordsok_memcpyB. exact Hd.
    + exact Hs.
    + lia.
    + lia.
    + unfold wlen. rewrite length_memcpyB. fold (wlen dst). lia.
  - rewrite wbit_copyLoop; [| exact Hd | exact Hs | lia | lia | exact Hin].
    replace (dOff + 0) with dOff by lia. reflexivity.
Qed.

(* ---- insert(state, offset, size) on one plane ---- *)
Lemma length_insertSLoop fuel dst offset src srcOffset width :
  length (insertSLoop fuel dst offset src srcOffset width) = length dst.
Proof.
  revert dst offset srcOffset; induction fuel as [|f IH]; intros dst offset srcOffset;
    cbn [insertSLoop]; [reflexivity|].
  destruct (srcOffset <? width); [|reflexivity]. rewrite IH. apply length_insertNSP.
Qed.

Lemma wordsok_insertSLoop fuel dst offset src srcOffset width :
  wordsok dst -> wordsok (insertSLoop fuel dst offset src srcOffset width).
Proof.
  revert dst offset srcOffset; induction fuel as [|f IH]; intros dst offset srcOffset H;
    cbn [insertSLoop]; [exact H|].
  destruct (srcOffset <? width); [|exact H]. apply IH. apply wordsok_insertNSP. exact H.
Qed.

Lemma wbit_insertSLoop fuel dst offset src srcOffset width i :
  wordsok dst -> width - srcOffset < N.of_nat fuel -> srcOffset <= width ->
  offset + (width - srcOffset) <= 64 * wlen dst ->
  wbit (insertSLoop fuel dst offset src srcOffset width) i
  = if (offset <=? i) && (i <? offset + (width - srcOffset))
    then wbit src (srcOffset + (i - offset)) else wbit dst i.
Proof.
  revert dst offset srcOffset; induction fuel as [|f IH]; intros dst offset srcOffset Hd Hf Ho Hin; [lia|].
  cbn [insertSLoop]. destruct (N.ltb_spec srcOffset width) as [Hlt | Hge].
  - set (chunk := N.min (64 - (offset + 64) mod 64)
                        (N.min (64 - (srcOffset + 64) mod 64) (N.min 64 (width - srcOffset)))).
    assert (Hc : 1 <= chunk <= 64 /\ srcOffset + chunk <= width /\
                 offset mod 64 + chunk <= 64 /\ srcOffset mod 64 + chunk <= 64) by (subst chunk; lia).
    rewrite IH.
    + rewrite wbit_insertNSP; [| exact Hd | lia | lia].
      rewrite tb_extractNSP by lia.
      destruct ((offset <=? i) && (i <? offset + chunk)) eqn:E.
      * split_cond E.
        destruct (N.leb_spec (offset + chunk) i); [lia|]. bsimpl.
        destruct (N.leb_spec offset i); [|lia].
        destruct (N.ltb_spec i (offset + (width - srcOffset))); [|lia]. bsimpl.
        destruct (N.ltb_spec (i - offset) chunk); [|lia]. bsimpl. reflexivity.
      * destruct ((offset + chunk <=? i) && (i <? offset + chunk + (width - (srcOffset + chunk)))) eqn:E'.
        -- split_cond E'.
           destruct (N.leb_spec offset i); [|lia].
           destruct (N.ltb_spec i (offset + (width - srcOffset))); [|lia]. bsimpl.
           f_equal. lia.
        -- revert E E'. cmp_cases; bool_close; intros; try discriminate.
    + apply wordsok_insertNSP. exact Hd.
    + lia.
    + lia.
    + unfold wlen. rewrite length_insertNSP. fold (wlen dst). lia.
  - cmp_cases; bool_close.
Qed.

(* ---- resize on one plane ---- *)
Lemma length_resize_words w n : length (resize_words w n) = n.
Proof.
  unfold resize_words. rewrite app_length, firstn_length, repeat_length. lia.
Qed.

Lemma wordsok_firstn w n : wordsok w -> wordsok (firstn n w).
Proof.
  unfold wordsok. intro H. revert n. induction H as [|h t Hh Ht IH]; intros [|n]; simpl; constructor; auto.
Qed.

Lemma wordsok_skipn w n : wordsok w -> wordsok (skipn n w).
Proof.
  unfold wordsok. intro H. revert n. induction H as [|h t Hh Ht IH]; intros [|n]; simpl; try constructor; auto.
Qed.

Lemma wordsok_resize_words w n : wordsok w -> wordsok (resize_words w n).
Proof.
  intro H. unfold resize_words. apply Forall_app. split.
  - apply wordsok_firstn. exact H.
  - apply Forall_forall. intros x Hx. apply repeat_spec in Hx. subst x. apply lt64_0.
Qed.

Lemma getw_resize_words w n k :
  getw (resize_words w n) k = if k <? N.of_nat n then getw w k else 0.
Proof.
  unfold getw, resize_words.
  destruct (N.ltb_spec k (N.of_nat n)) as [H | H].
  - destruct (Nat.lt_ge_cases (N.to_nat k) (length w)) as [Hk | Hk].
    + rewrite app_nth1 by (rewrite firstn_length; lia).
      rewrite <- (firstn_skipn n w) at 2. rewrite app_nth1 by (rewrite firstn_length; lia). reflexivity.
    + rewrite (nth_overflow w) by lia.
      rewrite firstn_all2 by lia.
      rewrite app_nth2 by lia. apply nth_repeat.
  - apply nth_overflow. rewrite app_length, firstn_length, repeat_length. lia.
Qed.

Lemma length_resizeP size w : length (resizeP size w) = N.to_nat ((size + 63) / 64).
Proof.
  unfold resizeP. destruct (size mod 64 =? 0); rewrite ?length_setw; apply length_resize_words.
Qed.

Lemma wordsok_resizeP size w : wordsok w -> wordsok (resizeP size w).
Proof.
  intro H. unfold resizeP. destruct (size mod 64 =? 0).
  - apply wordsok_resize_words. exact H.
  - apply wordsok_setw; [apply wordsok_resize_words; exact H|].
    apply lt64_land_r. apply lt64_bitMaskRange.
Qed.

(* bits below both the old word storage and the new size survive; everything at or above the
   new size reads 0; bits between the old storage end and the new size read 0 *)
Lemma wbit_resizeP size w i :
  wordsok w ->
  wbit (resizeP size w) i = (i <? size) && wbit w i.
Proof.
  intro Hw. unfold resizeP.
  set (nb := (size + 63) / 64).
  destruct (N.eqb_spec (size mod 64) 0) as [Ha | Ha].
  - unfold wbit. rewrite getw_resize_words, N2Nat.id.
    destruct (N.ltb_spec (i / 64) nb), (N.ltb_spec i size); try lia; bsimpl; try reflexivity;
      try apply tb_0.
  - rewrite wbit_setw. unfold wlen. rewrite length_resize_words, N2Nat.id.
    destruct (N.eqb_spec (i / 64) (nb - 1)) as [E | E]; bsimpl.
    + destruct (N.ltb_spec (nb - 1) nb); [|lia].
      rewrite N.land_spec, tb_bitMaskRange, getw_resize_words, N2Nat.id.
      destruct (N.ltb_spec (nb - 1) nb); [|lia].
      replace (i mod 64 - 0) with (i mod 64) by lia.
      unfold wbit. rewrite E.
      destruct (N.ltb_spec (i mod 64) 64); [|lia].
      destruct (N.leb_spec 0 (i mod 64)); [|lia]. bsimpl.
      destruct (N.ltb_spec (i mod 64) (size mod 64)), (N.ltb_spec i size); try lia; bsimpl;
        rewrite ?andb_true_r, ?andb_false_r; reflexivity.
    + unfold wbit. rewrite getw_resize_words, N2Nat.id.
      destruct (N.ltb_spec (i / 64) nb), (N.ltb_spec i size); try lia; bsimpl; try reflexivity;
        try apply tb_0.
Qed.
