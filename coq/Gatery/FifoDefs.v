(* C15 -- control machine of gatery's scl::Fifo (source/gatery/scl/Fifo.h, cdc.cpp/cdc.h).

   Model only, no proofs (must keep compiling when proofs break).  Every definition
   names the C++ construct it transcribes.  Data: N.  Structural sizes (latency,
   chain lengths): nat.

   Fifo<T>::generate():
     depth = 2^k (FifoCapabilities::select rounds minDepth up to a power of two and
     Fifo.h:233/279 insists on it), counters have k+1 bits (ctrWidth = addressWidth+1).
     pushPut = generatePush(mem, pushGet);   popGet = generatePop(mem, popPut);
     single clock : pushGet = popGet delayed by (latency_readToFull-1) registers,
                    popPut  = pushPut delayed by (latency_writeToEmpty-1) registers
     dual clock   : generateCdc: synchronizeGrayCode(..., {outStages = latency-2, inStage = true})
   Both latencies come from the one FifoLatency argument, so the model has one L. *)
From Coq Require Import NArith List Bool Arith.
Import ListNotations.
Open Scope N_scope.

Record cfg := mkCfg {
  c_k    : N;      (* depth = 2^k *)
  c_lat  : nat;    (* fifoChoice.latency_writeToEmpty = latency_readToFull *)
  c_dual : bool;   (* fifoChoice.singleClock = false *)
  c_lvlF : N;      (* level argument of almostFull(level)  *)
  c_lvlE : N       (* level argument of almostEmpty(level) *)
}.

Definition depth (c : cfg) : N := 2 ^ c_k c.
(* counters: UInt of k+1 bits, all arithmetic wraps mod 2^(k+1) *)
Definition cmod (k : N) : N := 2 ^ (k + 1).

(* `put += m_pushValid` / `get += m_popValid` on k+1 bits *)
Definition inc (k : N) (x : N) (b : bool) : N := if b then (x + 1) mod cmod k else x.
(* x(0, -1_b): all bits but the msb *)
Definition low (k : N) (x : N) : N := x mod 2 ^ k.
(* x.msb() of a k+1 bit value *)
Definition msb (k : N) (x : N) : bool := N.testbit x k.
(* Fifo.h:377  put.msb() != get.msb() & put(0,-1_b) == get(0,-1_b) *)
Definition cmp_full (k put get : N) : bool :=
  negb (Bool.eqb (msb k put) (msb k get)) && (low k put =? low k get).
(* Fifo.h:403  put.msb() == get.msb() & put(0,-1_b) == get(0,-1_b) *)
Definition cmp_empty (k put get : N) : bool :=
  Bool.eqb (msb k put) (msb k get) && (low k put =? low k get).
(* m_pushSize / m_popSize = put - get on k+1 bits *)
Definition csub (k a b : N) : N := (a + cmod k - b mod cmod k) mod cmod k.

(* ---------------- gray code (cdc.cpp) ---------------- *)
(* grayEncode: val ^ (val >> 1) *)
Definition gray_enc (x : N) : N := N.lxor x (N.shiftr x 1).
(* grayDecode: ret.msb = val.msb; for i = w-2 .. 0: ret[i] = ret[i+1] ^ val[i].
   [above] is ret[i] of the previous iteration (false above the msb). *)
Fixpoint gray_dec_from (g : N) (i : nat) (above : bool) (acc : N) : N :=
  match i with
  | O => acc
  | S j => let b := xorb above (N.testbit g (N.of_nat j)) in
           gray_dec_from g j b (if b then N.setbit acc (N.of_nat j) else acc)
  end.
Definition gray_dec (w : nat) (g : N) : N := gray_dec_from g w false 0.

Definition cwidth (k : N) : nat := S (N.to_nat k).
(* what travels between the domains *)
Definition enc (c : cfg) (x : N) : N := if c_dual c then gray_enc x else x.
Definition dec (c : cfg) (y : N) : N := if c_dual c then gray_dec (cwidth (c_k c)) y else y.

(* ---------------- memory ---------------- *)
(* Memory<TData> mem{depth}; MemType::DONT_CARE, not initialised: a word is undefined
   (None) until written. *)
Definition memory := N -> option N.
Definition mem_empty : memory := fun _ => None.
Definition mem_write (m : memory) (a d : N) : memory :=
  fun x => if x =? a then Some d else m x.

(* ---------------- state ---------------- *)
(* Pointer lines, newest value first.
   single clock: the (L-1) registers `pushGet = reg(pushGet, 0)` / `popPut = reg(popPut, 0)`.
   dual clock  : head = the inStage register in the *source* domain, tail = the
                 outStages = L-2 synchroniser registers in the *destination* domain;
                 values are gray coded. *)
Record st := mkSt {
  s_put    : N;            (* push domain: reg(put, 0) *)
  s_full   : bool;         (* m_pushFull = reg(..., '0') *)
  s_afull  : bool;         (* almostFull: reg(m_pushSize >= depth-level, '0') *)
  s_get    : N;            (* pop domain: reg(get, 0) *)
  s_empty  : bool;         (* m_popEmpty = reg(..., '1') *)
  s_aempty : bool;         (* almostEmpty: reg(m_popSize <= level, '1') *)
  s_peek   : option N;     (* m_peekData = reg(mem[get(0,-1_b)]) -- no reset value *)
  s_mem    : memory;
  s_toPop  : list N;       (* put pointer travelling to the pop side *)
  s_toPush : list N        (* get pointer travelling to the push side *)
}.

Definition init (c : cfg) : st :=
  mkSt 0 false false 0 true true None mem_empty
       (repeat 0 (c_lat c - 1)%nat) (repeat 0 (c_lat c - 1)%nat).

(* one register chain clocked once: every register takes its predecessor's old value *)
Definition shift_in (x : N) (l : list N) : list N := removelast (x :: l).

(* almostFull: m_pushSize >= (readDepth - zext(level)); level <= depth assumed (cfg_ok) *)
Definition af_next (c : cfg) (pushSize : N) : bool := (depth c - c_lvlF c) <=? pushSize.
(* almostEmpty: m_popSize <= level *)
Definition ae_next (c : cfg) (popSize : N) : bool := popSize <=? c_lvlE c.

(* ---------------- single clock: one edge does both sides ---------------- *)
Definition step_single (c : cfg) (s : st) (pushReq : bool) (d : N) (popReq : bool) : st :=
  let k := c_k c in
  (* push(): m_pushValid = !m_pushFull (under the caller's IF) ; pop(): m_popValid = !m_popEmpty *)
  let pushValid := pushReq && negb (s_full s) in
  let popValid := popReq && negb (s_empty s) in
  (* generatePush: mem[put(0,-1_b)] = data IF(valid); put += valid  (returned *after* the increment) *)
  let put' := inc k (s_put s) pushValid in
  let mem' := if pushValid then mem_write (s_mem s) (low k (s_put s)) d else s_mem s in
  (* generatePop: get += valid (returned after the increment) *)
  let get' := inc k (s_get s) popValid in
  (* generate(): latency-1 registers; with latency 1 the other side's combinational value *)
  let popPut := last (s_toPop s) put' in
  let pushGet := last (s_toPush s) get' in
  (* `if (latency_writeToEmpty > 1) mem.noConflicts();` -- otherwise the read port is ordered
     after the write port and sees the word being written *)
  let rdmem := if (c_lat c <=? 1)%nat then mem' else s_mem s in
  mkSt put' (cmp_full k put' pushGet) (af_next c (csub k put' pushGet))
       get' (cmp_empty k popPut get') (ae_next c (csub k popPut get'))
       (rdmem (low k get')) mem'
       (shift_in put' (s_toPop s)) (shift_in get' (s_toPush s)).

(* ---------------- dual clock ---------------- *)
(* What the first synchroniser register captures when its clock edge coincides with an
   edge of the source clock: the reference simulator gives the old value of the inStage
   register ([meta = false]); real hardware may also capture the new one.  Because the
   crossing is gray coded (gray_one_bit / gray_sample_safe in FifoGray.v) these are the
   only two outcomes, so [meta] makes the model cover them. *)
Definition sampled (meta : bool) (oldv newv : N) : N := if meta then newv else oldv.

(* push-clock edge only *)
Definition step_push (c : cfg) (s : st) (pushReq : bool) (d : N) : st :=
  let k := c_k c in
  let pushValid := pushReq && negb (s_full s) in
  let put' := inc k (s_put s) pushValid in
  let mem' := if pushValid then mem_write (s_mem s) (low k (s_put s)) d else s_mem s in
  (* grayDecode(last synchroniser stage) *)
  let pushGet := dec c (last (s_toPush s) 0) in
  mkSt put' (cmp_full k put' pushGet) (af_next c (csub k put' pushGet))
       (s_get s) (s_empty s) (s_aempty s) (s_peek s) mem'
       (* inStage register of the put crossing: reg(grayEncode(put)) in the push clock *)
       (match s_toPop s with [] => [] | _ :: t => enc c put' :: t end)
       (* outStages of the get crossing shift, the first one samples the inStage register *)
       (match s_toPush s with [] => [] | h :: t => h :: shift_in h t end).

(* pop-clock edge only *)
Definition step_pop (c : cfg) (s : st) (popReq : bool) : st :=
  let k := c_k c in
  let popValid := popReq && negb (s_empty s) in
  let get' := inc k (s_get s) popValid in
  let popPut := dec c (last (s_toPop s) 0) in
  mkSt (s_put s) (s_full s) (s_afull s)
       get' (cmp_empty k popPut get') (ae_next c (csub k popPut get'))
       (s_mem s (low k get')) (s_mem s)
       (match s_toPop s with [] => [] | h :: t => h :: shift_in h t end)
       (match s_toPush s with [] => [] | _ :: t => enc c get' :: t end).

(* both clocks have an edge at the same instant: every register sees pre-edge values *)
Definition step_both (c : cfg) (s : st) (pushReq : bool) (d : N) (popReq : bool)
           (metaP metaG : bool) : st :=
  let k := c_k c in
  let pushValid := pushReq && negb (s_full s) in
  let popValid := popReq && negb (s_empty s) in
  let put' := inc k (s_put s) pushValid in
  let get' := inc k (s_get s) popValid in
  let mem' := if pushValid then mem_write (s_mem s) (low k (s_put s)) d else s_mem s in
  let pushGet := dec c (last (s_toPush s) 0) in
  let popPut := dec c (last (s_toPop s) 0) in
  mkSt put' (cmp_full k put' pushGet) (af_next c (csub k put' pushGet))
       get' (cmp_empty k popPut get') (ae_next c (csub k popPut get'))
       (s_mem s (low k get')) mem'
       (match s_toPop s with [] => []
        | h :: t => enc c put' :: shift_in (sampled metaP h (enc c put')) t end)
       (match s_toPush s with [] => []
        | h :: t => enc c get' :: shift_in (sampled metaG h (enc c get')) t end).

(* ---------------- events, schedules, observations ---------------- *)
Record event := mkEv {
  e_push    : bool;   (* push clock has an edge (ignored for single clock: always) *)
  e_pop     : bool;   (* pop clock has an edge  (ignored for single clock: always) *)
  e_pushReq : bool;   (* the user's IF(push) condition during that push cycle *)
  e_data    : N;
  e_popReq  : bool;
  e_metaP   : bool;   (* only meaningful when both clocks tick, see [sampled] *)
  e_metaG   : bool
}.

Definition has_push (c : cfg) (e : event) : bool := if c_dual c then e_push e else true.
Definition has_pop (c : cfg) (e : event) : bool := if c_dual c then e_pop e else true.

Definition step (c : cfg) (s : st) (e : event) : st :=
  if c_dual c then
    match e_push e, e_pop e with
    | true, true => step_both c s (e_pushReq e) (e_data e) (e_popReq e) (e_metaP e) (e_metaG e)
    | true, false => step_push c s (e_pushReq e) (e_data e)
    | false, true => step_pop c s (e_popReq e)
    | false, false => s
    end
  else step_single c s (e_pushReq e) (e_data e) (e_popReq e).

(* what is visible at the interface during the cycle that ends with this event *)
Record obs := mkObs {
  o_full : bool; o_afull : bool; o_empty : bool; o_aempty : bool;
  o_peek : option N;
  o_acc  : option N;    (* Some d: the push of d is accepted at this edge *)
  o_del  : bool         (* the item shown by peek is consumed at this edge *)
}.

Definition observe (c : cfg) (s : st) (e : event) : obs :=
  mkObs (s_full s) (s_afull s) (s_empty s) (s_aempty s) (s_peek s)
        (if has_push c e && e_pushReq e && negb (s_full s) then Some (e_data e) else None)
        (has_pop c e && e_popReq e && negb (s_empty s)).

Fixpoint run (c : cfg) (s : st) (evs : list event) : list obs * st :=
  match evs with
  | [] => ([], s)
  | e :: r => let (tr, s') := run c (step c s e) r in (observe c s e :: tr, s')
  end.

(* ---------------- the specification: a bounded queue ---------------- *)
Definition q_next (q : list N) (o : obs) : list N :=
  (if o_del o then tl q else q) ++ (match o_acc o with Some x => [x] | None => [] end).

Definition q_step_ok (cap : N) (q : list N) (o : obs) : Prop :=
  N.of_nat (length q) <= cap /\
  (o_empty o = false -> exists h t, q = h :: t /\ o_peek o = Some h) /\
  (o_del o = true -> o_empty o = false) /\
  (forall x, o_acc o = Some x -> o_full o = false /\ N.of_nat (length q) < cap).

Fixpoint queue_spec (cap : N) (q : list N) (tr : list obs) : Prop :=
  match tr with
  | [] => True
  | o :: r => q_step_ok cap q o /\ queue_spec cap (q_next q o) r
  end.

Fixpoint q_after (q : list N) (tr : list obs) : list N :=
  match tr with [] => q | o :: r => q_after (q_next q o) r end.

(* the queue contents before each event *)
Fixpoint queues (q : list N) (tr : list obs) : list (list N) :=
  match tr with [] => [] | o :: r => q :: queues (q_next q o) r end.

Definition accepted (tr : list obs) : list N :=
  flat_map (fun o => match o_acc o with Some x => [x] | None => [] end) tr.
Definition delivered (tr : list obs) : list (option N) :=
  flat_map (fun o => if o_del o then [o_peek o] else []) tr.

(* configurations the C++ accepts.  (generateCdc insists on latency >= 4 for
   metastability reasons; the logic below is proved for every latency >= 2.) *)
Definition cfg_ok (c : cfg) : Prop :=
  (1 <= c_lat c)%nat /\ (c_dual c = true -> (2 <= c_lat c)%nat).
