(* C17 — Library arithmetic and coding primitives equal their mathematical definitions.
   Only statements; every proof is `exact <lemma>` from SclMathProofs{A,B,C}.v, followed by
   Print Assumptions.  The models are the generator transcriptions of SclMathDefs.v, the
   specifications (popcount, first_true, last_true, hamming, gf2_rem, ...) are in SclMathSpec.v. *)
From Coq Require Import List Bool Arith NArith ZArith Lia.
From Gatery Require Import SclMathDefs SclMathSpec SclMathProofsA SclMathProofsB SclMathProofsC.
Import ListNotations.
Open Scope N_scope.

(* ---------------------------------------------------------------- bit count *)
Theorem C17_bitcount : forall v : bits, bitcount v = popcount v.
Proof. exact bitcount_correct. Qed.
Print Assumptions C17_bitcount.
Example C17_bitcount_ex : bitcount (bits_of_N 7 93) = 5.
Proof. vm_compute. reflexivity. Qed.

Theorem C17_bitcount_fits : forall v : bits, popcount v < 2 ^ bitcount_width (N.of_nat (length v)).
Proof. exact popcount_lt_width. Qed.
Print Assumptions C17_bitcount_fits.

(* ---------------------------------------------------------------- one-hot decoder / encoder *)
Theorem C17_decoder : forall (w : nat) (idx : N),
  idx < 2 ^ N.of_nat w -> N_of_bits (decoder w idx) = 2 ^ idx.
Proof. exact decoder_correct. Qed.
Print Assumptions C17_decoder.
Example C17_decoder_ex : N_of_bits (decoder 3 5) = 32.
Proof. vm_compute. reflexivity. Qed.

Theorem C17_encoder_onehot : forall n k : nat,
  (k < n)%nat -> encoder (bits_of_N n (2 ^ N.of_nat k)) = N.of_nat k.
Proof. exact encoder_onehot. Qed.
Print Assumptions C17_encoder_onehot.
Example C17_encoder_ex : encoder (bits_of_N 11 (2 ^ 9)) = 9.
Proof. vm_compute. reflexivity. Qed.

Theorem C17_encoder_decoder : forall (w : nat) (idx : N),
  idx < 2 ^ N.of_nat w -> encoder (decoder w idx) = idx.
Proof. exact encoder_decoder. Qed.
Print Assumptions C17_encoder_decoder.

Theorem C17_encoder_fits : forall n k : nat,
  (k < n)%nat -> N.of_nat k < 2 ^ encoder_width (N.of_nat n).
Proof. exact encoder_width_fits. Qed.
Print Assumptions C17_encoder_fits.

(* ---------------------------------------------------------------- priority encoders *)
(* LOWEST set bit; valid iff operand non-zero; index unassigned (None) for a zero operand *)
Theorem C17_prienc : forall v : bits,
  prienc v = (first_true v, negb (N_of_bits v =? 0)).
Proof. exact prienc_correct. Qed.
Print Assumptions C17_prienc.

Theorem C17_prienc_N : forall (w : nat) (x : N),
  0 < x < 2 ^ N.of_nat w ->
  exists i, prienc (bits_of_N w x) = (Some i, true) /\ N.testbit x i = true /\ x mod 2 ^ i = 0
            /\ i < 2 ^ prienc_width (N.of_nat w).
Proof. exact prienc_N. Qed.
Print Assumptions C17_prienc_N.
Example C17_prienc_ex : prienc (bits_of_N 6 40) = (Some 3, true).
Proof. vm_compute. reflexivity. Qed.

Theorem C17_prienc_zero : forall w : nat, prienc (bits_of_N w 0) = (None, false).
Proof. exact prienc_zero. Qed.
Print Assumptions C17_prienc_zero.

Theorem C17_first_true_spec : forall (v : bits) (i : N),
  first_true v = Some i ->
  nth (N.to_nat i) v false = true /\ (forall j, (j < N.to_nat i)%nat -> nth j v false = false)
  /\ i < N.of_nat (length v).
Proof. exact first_true_spec. Qed.
Print Assumptions C17_first_true_spec.

(* tree variant = flat variant, every operand width, every bps >= 1 *)
Theorem C17_petree : forall (bps : N) (v : bits), 1 <= bps -> petree bps v = prienc v.
Proof. exact petree_correct. Qed.
Print Assumptions C17_petree.
Example C17_petree_ex : petree 2 (bits_of_N 17 65536) = (Some 16, true).
Proof. vm_compute. reflexivity. Qed.

(* registerStep = true with the operand held: once loaded (after at most `width` cycles) the
   result is the priority encoder result *)
Theorem C17_petree_reg_const : forall (bps : N) (v : bits) (t : nat),
  1 <= bps ->
  petree_reg bps (length v) (fun _ => v) t = None \/
  petree_reg bps (length v) (fun _ => v) t = Some (prienc v).
Proof. exact petree_reg_const. Qed.
Print Assumptions C17_petree_reg_const.

Theorem C17_petree_reg_filled : forall (bps : N) (n : nat) (inp : nat -> bits) (t : nat),
  1 <= bps -> (n <= t)%nat -> petree_reg bps n inp t <> None.
Proof. exact petree_reg_filled. Qed.
Print Assumptions C17_petree_reg_filled.

(* DEVIATION: with a changing operand the registered tree is not a delayed priority encoder:
   sub-trees of one level have different register depths (5 bits, bps = 1: bits 0..3 take two
   registers, bit 4 one).  Operands 16, 1, 2 in cycles 0, 1, 2: the output of cycle 2 is
   "invalid", which is the result of none of the three operands. *)
Theorem C17_petree_reg_unbalanced_refuted :
  let inp := fun u => bits_of_N 5 (nth u [16; 1; 2] 0) in
  forall d, (d <= 2)%nat -> petree_reg 1 5 inp 2 <> Some (prienc (inp (2 - d)%nat)).
Proof. exact petree_reg_unbalanced_refuted. Qed.
Print Assumptions C17_petree_reg_unbalanced_refuted.

(* ---------------------------------------------------------------- count leading zeros *)
Theorem C17_clz : forall v : bits,
  clz v = match last_true v with
          | Some j => N.of_nat (length v) - j - 1
          | None => N.of_nat (length v)
          end.
Proof. exact clz_correct. Qed.
Print Assumptions C17_clz.

Theorem C17_clz_N : forall (w : nat) (x : N),
  x < 2 ^ N.of_nat w ->
  clz (bits_of_N w x) = if x =? 0 then N.of_nat w else N.of_nat w - 1 - N.log2 x.
Proof. exact clz_N. Qed.
Print Assumptions C17_clz_N.
Example C17_clz_ex : clz (bits_of_N 16 300) = 7.
Proof. vm_compute. reflexivity. Qed.

(* ---------------------------------------------------------------- thermometric code *)
Theorem C17_thermo : forall (w : nat) (x : N),
  x < 2 ^ N.of_nat w -> N_of_bits (thermo w x) = N.ones x.
Proof. exact thermo_correct. Qed.
Print Assumptions C17_thermo.
Example C17_thermo_ex : N_of_bits (thermo 3 5) = 31.
Proof. vm_compute. reflexivity. Qed.

Theorem C17_thermo_lower : forall (w outw : nat) (x : N),
  x < 2 ^ N.of_nat w -> (outw <= 2 ^ w - 1)%nat ->
  N_of_bits (thermo_lower w outw x) = N.ones (N.min x (N.of_nat outw)).
Proof. exact thermo_lower_correct. Qed.
Print Assumptions C17_thermo_lower.

Theorem C17_unthermo : forall v : bits, unthermo v = popcount v.
Proof. exact unthermo_correct. Qed.
Print Assumptions C17_unthermo.

(* ---------------------------------------------------------------- gray code *)
Theorem C17_gray_decode_encode : forall v : bits, gray_decode (gray_encode v) = v.
Proof. exact gray_decode_encode. Qed.
Print Assumptions C17_gray_decode_encode.

Theorem C17_gray_encode_decode : forall g : bits, gray_encode (gray_decode g) = g.
Proof. exact gray_encode_decode. Qed.
Print Assumptions C17_gray_encode_decode.

Theorem C17_gray_adjacent : forall v : bits,
  v <> [] -> hamming (gray_encode v) (gray_encode (bits_succ v)) = 1.
Proof. exact gray_adjacent. Qed.
Print Assumptions C17_gray_adjacent.

Theorem C17_gray_adjacent_N : forall (w : nat) (x : N),
  (0 < w)%nat -> x < 2 ^ N.of_nat w ->
  hamming (gray_encode (bits_of_N w x)) (gray_encode (bits_of_N w ((x + 1) mod 2 ^ N.of_nat w))) = 1.
Proof. exact gray_adjacent_N. Qed.
Print Assumptions C17_gray_adjacent_N.
Example C17_gray_ex : N_of_bits (gray_encode (bits_of_N 4 7)) = 4 /\ N_of_bits (gray_encode (bits_of_N 4 8)) = 12.
Proof. vm_compute. split; reflexivity. Qed.

Theorem C17_gray_encode_N : forall (w : nat) (x : N),
  x < 2 ^ N.of_nat w -> N_of_bits (gray_encode (bits_of_N w x)) = N.lxor x (N.shiftr x 1).
Proof. exact gray_encode_N. Qed.
Print Assumptions C17_gray_encode_N.

(* ---------------------------------------------------------------- min / max *)
Theorem C17_umin : forall a b : N, umin a b = N.min a b.
Proof. exact umin_correct. Qed.
Print Assumptions C17_umin.
Theorem C17_umax : forall a b : N, umax a b = N.max a b.
Proof. exact umax_correct. Qed.
Print Assumptions C17_umax.

(* SInt min / max: the signed minimum / maximum for ALL operands (the frontend comparison
   subtracts one bit wider than the operands since /repo 1bb3187) *)
Theorem C17_smin_smax : forall w a b : N,
  1 <= w -> a < 2 ^ w -> b < 2 ^ w ->
  to_signed w (smin w a b) = Z.min (to_signed w a) (to_signed w b) /\
  to_signed w (smax w a b) = Z.max (to_signed w a) (to_signed w b).
Proof. exact smin_correct. Qed.
Print Assumptions C17_smin_smax.
Example C17_smin_ex : to_signed 4 (smin 4 14 3) = (-2)%Z.
Proof. vm_compute. reflexivity. Qed.
(* regression of the repaired defect: 4 bits, min(3, -7) = -7, max(3, -7) = 3 *)
Example C17_smin_overflow_ex : smin 4 3 9 = 9 /\ smax 4 3 9 = 3.
Proof. vm_compute. split; reflexivity. Qed.

(* ---------------------------------------------------------------- biggest power of two: every width *)
Theorem C17_bpo2 : forall (w : nat) (x : N),
  x < 2 ^ N.of_nat w -> bpo2 (bits_of_N w x) = if x =? 0 then 0 else 2 ^ N.log2 x.
Proof. exact bpo2_N. Qed.
Print Assumptions C17_bpo2.
Example C17_bpo2_ex : bpo2 (bits_of_N 8 100) = 64.
Proof. vm_compute. reflexivity. Qed.

(* regression of the repaired defect (operands of 32 bits and more; /repo e00fda2) *)
Example C17_bpo2_wide_ex :
  bpo2 (bits_of_N 32 2147483648) = 2147483648 /\ bpo2 (bits_of_N 64 (2 ^ 63 + 5)) = 2 ^ 63
  /\ bpo2 (bits_of_N 100 (2 ^ 99 + 2 ^ 40)) = 2 ^ 99.
Proof. exact bpo2_wide_examples. Qed.

(* ---------------------------------------------------------------- long division *)
Theorem C17_ldiv : forall (numW : nat) (denW num den : N),
  num < 2 ^ N.of_nat numW -> 0 < den -> den < 2 ^ denW ->
  ldiv_state numW denW num den = (num mod den, num / den).
Proof. exact ldiv_correct. Qed.
Print Assumptions C17_ldiv.
Example C17_ldiv_ex : ldiv 8 4 255 3 = 85.
Proof. vm_compute. reflexivity. Qed.

(* denominator 0: the circuit returns the all-ones quotient *)
Theorem C17_ldiv_by_zero : forall (numW : nat) (denW num : N),
  ldiv numW denW num 0 = 2 ^ N.of_nat numW - 1.
Proof. exact ldiv_by_zero. Qed.
Print Assumptions C17_ldiv_by_zero.

Theorem C17_ldiv_pipe : forall (numW : nat) (denW steps : N) (inp : nat -> N * N) (t : nat),
  let L := ldiv_latency numW steps in
  (L <= t)%nat ->
  fst (inp (t - L)%nat) < 2 ^ N.of_nat numW -> 0 < snd (inp (t - L)%nat) -> snd (inp (t - L)%nat) < 2 ^ denW ->
  ldiv_pipe numW denW steps inp t = Some (fst (inp (t - L)%nat) / snd (inp (t - L)%nat)).
Proof. exact ldiv_pipe_correct. Qed.
Print Assumptions C17_ldiv_pipe.

(* signed numerator: rounds towards zero (Z.quot), every width >= 1; the result fits *)
Theorem C17_sldiv : forall (numW : nat) (denW num den : N),
  (1 <= numW)%nat -> num < 2 ^ N.of_nat numW -> 0 < den -> den < 2 ^ denW ->
  to_signed (N.of_nat numW) (sldiv numW denW num den) = Z.quot (to_signed (N.of_nat numW) num) (Z.of_N den)
  /\ sldiv numW denW num den < 2 ^ N.of_nat numW.
Proof. exact sldiv_correct. Qed.
Print Assumptions C17_sldiv.
Example C17_sldiv_ex : to_signed 8 (sldiv 8 4 249 2) = (-3)%Z.
Proof. vm_compute. reflexivity. Qed.

Theorem C17_sldiv_gen : forall (numW : nat) (denW num den : N),
  (2 <= numW)%nat -> sldiv_gen numW denW num den = Some (sldiv numW denW num den).
Proof. exact sldiv_gen_correct. Qed.
Print Assumptions C17_sldiv_gen.

(* DEVIATION: a 1-bit SInt numerator is rejected at design time *)
Theorem C17_sldiv_narrow_refuted : forall denW num den, sldiv_gen 1 denW num den = None.
Proof. exact sldiv_narrow_refuted. Qed.
Print Assumptions C17_sldiv_narrow_refuted.

(* ---------------------------------------------------------------- adders *)
Theorem C17_csa : forall (w : nat) (ops : list bits),
  ops <> [] -> Forall (fun b => length b = w) ops ->
  csa_result (csa_run ops) = sum_bits ops mod 2 ^ N.of_nat w.
Proof. exact csa_correct. Qed.
Print Assumptions C17_csa.
Example C17_csa_ex : csa_result (csa_run (map (bits_of_N 4) [9; 8; 15; 3])) = 3.
Proof. vm_compute. reflexivity. Qed.

Theorem C17_adder : forall (w : N) (ops : list N),
  ops <> [] -> Forall (fun a => a < 2 ^ w) ops ->
  adder_run w ops = fold_right N.add 0 ops mod 2 ^ w.
Proof. exact adder_correct. Qed.
Print Assumptions C17_adder.

Theorem C17_add_carry_save : forall a b c : bits,
  length a = length b -> length b = length c ->
  let '(s, cy) := add_carry_save a b c in
  N_of_bits s + 2 * N_of_bits cy = N_of_bits a + N_of_bits b + N_of_bits c /\
  length s = length a /\ length cy = length a.
Proof. exact add_carry_save_correct. Qed.
Print Assumptions C17_add_carry_save.

Theorem C17_addc : forall (w a b : N) (cin : bool),
  fst (addc w a b cin) = (a + b + N.b2n cin) mod 2 ^ w /\
  exists c, a + b + N.b2n cin = N.lxor (N.lxor a b) c /\ N.testbit c 0 = cin /\
            c / 2 = N.lor (N.land a b) (N.land c (N.lor a b)) /\
            forall i, i < w -> N.testbit (snd (addc w a b cin)) i = N.testbit c (i + 1).
Proof. exact addc_correct. Qed.
Print Assumptions C17_addc.

(* ---------------------------------------------------------------- counters *)
Theorem C17_counter_end : forall (e rv value : N) (inc dec load : bool) (lv : N),
  2 <= e -> value < e ->
  let c := counter_cfg_end e rv false in
  counter_next c e value inc dec load lv = counter_spec e value inc dec load lv
  /\ counter_lastv c e = e - 1 /\ e <= 2 ^ cc_w c.
Proof. exact counter_end_correct. Qed.
Print Assumptions C17_counter_end.
Example C17_counter_ex : counter_next (counter_cfg_end 5 0 false) 5 4 true false false 0 = 0
                         /\ counter_next (counter_cfg_end 5 0 false) 5 0 false true false 0 = 4.
Proof. vm_compute. split; reflexivity. Qed.

Theorem C17_counter_w : forall (w rv value : N) (inc dec load : bool) (lv : N),
  1 <= w -> value < 2 ^ w ->
  counter_next (counter_cfg_w w rv false) (2 ^ w) value inc dec load lv
  = counter_spec (2 ^ w) value inc dec load lv
  /\ counter_lastv (counter_cfg_w w rv false) (2 ^ w) = 2 ^ w - 1.
Proof. exact counter_w_correct. Qed.
Print Assumptions C17_counter_w.

Theorem C17_counter_dyn : forall (w rv e value : N) (inc dec load : bool) (lv : N),
  1 <= w -> 1 <= e -> e < 2 ^ w -> value < e ->
  counter_next (counter_cfg_dyn w rv false) e value inc dec load lv
  = counter_spec e value inc dec load lv
  /\ counter_lastv (counter_cfg_dyn w rv false) e = e - 1.
Proof. exact counter_dyn_correct. Qed.
Print Assumptions C17_counter_dyn.

(* usage variants: which of inc() / dec() the design calls (inc only / dec only / both / neither)
   and under which call-site conditions (counter_eff: plain IF, unconditional, nested IF, IF/ELSE,
   several call sites).  One step of every variant = the modulo counter driven by the call-site
   conditions; "neither" = inc tied high. *)
Theorem C17_counter_end_use : forall (e rv v : N) (u : counter_use) (inc dec en load : bool) (lv : N),
  2 <= e -> v < e ->
  let eff := counter_eff u inc dec en in
  counter_next (counter_cfg_end e rv (counter_never u)) e v (fst eff) (snd eff) load lv
  = counter_spec e v (fst eff || counter_never u) (snd eff) load lv.
Proof. exact counter_end_use. Qed.
Print Assumptions C17_counter_end_use.

Theorem C17_counter_w_use : forall (w rv v : N) (u : counter_use) (inc dec en load : bool) (lv : N),
  1 <= w -> v < 2 ^ w ->
  let eff := counter_eff u inc dec en in
  counter_next (counter_cfg_w w rv (counter_never u)) (2 ^ w) v (fst eff) (snd eff) load lv
  = counter_spec (2 ^ w) v (fst eff || counter_never u) (snd eff) load lv.
Proof. exact counter_w_use. Qed.
Print Assumptions C17_counter_w_use.

Theorem C17_counter_dyn_use : forall (w rv e v : N) (u : counter_use) (inc dec en load : bool) (lv : N),
  1 <= w -> 1 <= e -> e < 2 ^ w -> v < e ->
  let eff := counter_eff u inc dec en in
  counter_next (counter_cfg_dyn w rv (counter_never u)) e v (fst eff) (snd eff) load lv
  = counter_spec e v (fst eff || counter_never u) (snd eff) load lv.
Proof. exact counter_dyn_use. Qed.
Print Assumptions C17_counter_dyn_use.

(* closed form of the four binding variants: up-only and DOWN-ONLY counters hold when idle *)
Theorem C17_counter_end_variants : forall (e rv v : N) (inc dec load : bool) (lv : N),
  2 <= e -> v < e ->
  let nx := fun bi bd =>
    let u := {| cu_inc := bi; cu_dec := bd; cu_scope := 0; cu_ldkind := 1 |} in
    counter_next (counter_cfg_end e rv (counter_never u)) e v
                 (fst (counter_eff u inc dec false)) (snd (counter_eff u inc dec false)) load lv in
  nx true false = (if load then lv else if inc then (v + 1) mod e else v) /\
  nx false true = (if load then lv else if dec then (v + e - 1) mod e else v) /\
  nx true true = counter_spec e v inc dec load lv /\
  nx false false = (if load then lv else (v + 1) mod e).
Proof. exact counter_end_variants. Qed.
Print Assumptions C17_counter_end_variants.
Example C17_counter_deconly_ex :
  let u := {| cu_inc := false; cu_dec := true; cu_scope := 0; cu_ldkind := 0 |} in
  counter_next (counter_cfg_end 5 0 (counter_never u)) 5 3 false false false 0 = 3 /\
  counter_next (counter_cfg_end 5 0 (counter_never u)) 5 0 false true false 0 = 4.
Proof. vm_compute. split; reflexivity. Qed.

Theorem C17_counter_end_use_run : forall (e rv : N) (u : counter_use) (value : N) (raw : list (bool * bool * bool * bool * N)),
  2 <= e -> value < e -> rv < e ->
  Forall (fun '(_, _, _, _, lv) => lv < e) raw ->
  let c := counter_cfg_end e rv (counter_never u) in
  let tr := map (fun '(inc, dec, en, load, lv) => counter_use_in c u inc dec en load lv e) raw in
  counter_run c value tr = counter_use_spec_run e (counter_never u) value tr.
Proof. exact counter_end_use_run. Qed.
Print Assumptions C17_counter_end_use_run.

(* auto-increment mode = the inc input tied high *)
Theorem C17_counter_never : forall (c : counter_cfg) (e value : N) (load : bool) (lv : N),
  counter_next c e value false false load lv =
  counter_next {| cc_w := cc_w c; cc_endw := cc_endw c; cc_check := cc_check c; cc_reset := cc_reset c; cc_never := false |}
               e value (cc_never c) false load lv.
Proof. exact counter_next_never. Qed.
Print Assumptions C17_counter_never.

(* trace level: the counter refines the modulo-e state machine, cycle by cycle *)
Theorem C17_counter_end_run : forall (e rv value : N) (tr : list counter_in),
  2 <= e -> value < e ->
  Forall (fun i => ci_end i = e /\ ci_loadv i < e) tr ->
  counter_run (counter_cfg_end e rv false) value tr = counter_spec_run e value tr.
Proof. exact counter_end_run. Qed.
Print Assumptions C17_counter_end_run.

Theorem C17_counter_w_run : forall (w rv value : N) (tr : list counter_in),
  1 <= w -> value < 2 ^ w ->
  Forall (fun i => ci_end i = 2 ^ w /\ ci_loadv i < 2 ^ w) tr ->
  counter_run (counter_cfg_w w rv false) value tr = counter_spec_run (2 ^ w) value tr.
Proof. exact counter_w_run. Qed.
Print Assumptions C17_counter_w_run.

Theorem C17_updown : forall (w rv value : N) (inc dec rst : bool),
  1 <= w -> value < 2 ^ w ->
  updown_next w rv value inc dec rst = updown_spec w rv value inc dec rst.
Proof. exact updown_correct. Qed.
Print Assumptions C17_updown.
Example C17_updown_ex : updown_next 3 0 7 true false false = 7 /\ updown_next 3 0 0 false true false = 0.
Proof. vm_compute. split; reflexivity. Qed.

(* DEVIATION from "value + inc - dec, clamped": inc and dec together at a bound move the counter *)
Theorem C17_updown_both_at_bounds_refuted :
  exists w rv value, value < 2 ^ w /\
    updown_next w rv value true true false <> N.min (N.max (value + 1 - 1) 0) (2 ^ w - 1).
Proof. exact updown_both_at_bounds_refuted. Qed.
Print Assumptions C17_updown_both_at_bounds_refuted.

(* ---------------------------------------------------------------- CRC *)
(* crc(remainder, data, polynomial) = (remainder * x^dataW + data * x^r) mod (x^r + polynomial) over GF(2) *)
Theorem C17_crc : forall r d rm data poly : N,
  1 <= r -> rm < 2 ^ r -> data < 2 ^ d -> poly < 2 ^ r ->
  gf2_rem r (N.lxor (rm * 2 ^ d) (data * 2 ^ r)) (2 ^ r + poly) (crc r d r rm data poly).
Proof. exact crc_correct. Qed.
Print Assumptions C17_crc.
Example C17_crc_ex : crc 8 8 8 0 49 7 = 151.
Proof. vm_compute. reflexivity. Qed.

(* ... and that determines the value: polynomial remainders are unique *)
Theorem C17_gf2_rem_unique : forall r m p t t' : N,
  2 ^ r <= p -> p < 2 ^ (r + 1) -> gf2_rem r m p t -> gf2_rem r m p t' -> t = t'.
Proof. exact gf2_rem_unique. Qed.
Print Assumptions C17_gf2_rem_unique.

Theorem C17_crc_state : forall (p : crc_params) (d : N) (words : list N),
  1 <= cp_w p -> cp_poly p < 2 ^ cp_w p -> cp_init p < 2 ^ cp_w p ->
  Forall (fun w => w < 2 ^ d) words ->
  exists rm,
    gf2_rem (cp_w p)
            (N.lxor (cp_init p * 2 ^ (d * N.of_nat (length words)))
                    (msg_poly d (map (crc_word p d) words) 0 * 2 ^ cp_w p))
            (2 ^ cp_w p + cp_poly p) rm /\
    crc_state_run p d words =
      (if cp_revcrc p then reflect (cp_w p) (N.lxor rm (cp_xorout p)) else N.lxor rm (cp_xorout p)).
Proof. exact crc_state_correct. Qed.
Print Assumptions C17_crc_state.

Theorem C17_msg_poly_concat : forall (d : N) (words : list N) (acc : N),
  Forall (fun w => w < 2 ^ d) words ->
  msg_poly d words acc = fold_left (fun a wd => a * 2 ^ d + wd) words acc.
Proof. exact msg_poly_concat. Qed.
Print Assumptions C17_msg_poly_concat.

(* check values of the presets of CrcParams::init on "123456789" (and CRC-8, CRC-16/XMODEM) *)
Theorem C17_crc_check_values :
  crc_state_run crc_32 8 check_msg = 3421780262 /\       (* 0xCBF43926 *)
  crc_state_run crc_32c 8 check_msg = 3808858755 /\      (* 0xE3069283 *)
  crc_state_run crc_32d 8 check_msg = 2268157302 /\      (* 0x87315576 *)
  crc_state_run crc_32q 8 check_msg = 806403967 /\       (* 0x3010BF7F *)
  crc_state_run crc_16_usb 8 check_msg = 46280 /\        (* 0xB4C8 *)
  crc_state_run crc_16_ccitt 8 check_msg = 58828 /\      (* 0xE5CC *)
  crc_state_run crc_5_usb 8 check_msg = 25.              (* 0x19 *)
Proof. exact (conj crc32_check (conj crc32c_check (conj crc32d_check (conj crc32q_check
              (conj crc16_usb_check (conj crc16_ccitt_check crc5_usb_check)))))). Qed.
Print Assumptions C17_crc_check_values.
