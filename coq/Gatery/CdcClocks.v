(* C12 -- which clocks are one domain: the clock-pin-source relation as a function of the parent
   chain and of whether the clock net is driven by logic in the simulation view / the export view.
   (Clock::inheritsClockPinSource / getClockPinSource, hlim/Clock.cpp) *)
From Coq Require Import List NArith Bool Arith Lia.
From Gatery Require Import CdcDefs.
Import ListNotations.

(* a clock inherits its parent's pin source exactly when it has a parent, its clock net is driven by
   logic in NEITHER view, and it keeps the parent's name and frequency and is phase locked to it *)
Lemma inherits_iff : forall cs ck,
  inherits cs ck = true <->
  exists p pk, cparent ck = Some p /\ nth_error cs p = Some pk
    /\ cselfsim ck = true /\ cselfexp ck = true
    /\ cname pk = cname ck /\ cfnum pk = cfnum ck /\ cfden pk = cfden ck /\ cphase ck = true.
Proof.
  intros cs ck. unfold inherits. split.
  - destruct (cparent ck) as [p|]; [|discriminate].
    destruct (nth_error cs p) as [pk|] eqn:Hn; [|discriminate].
    destruct (cselfsim ck) eqn:E1, (cselfexp ck) eqn:E2; simpl; try discriminate.
    destruct (negb (N.eqb (cname pk) (cname ck))
              || negb (N.eqb (cfnum pk) (cfnum ck) && N.eqb (cfden pk) (cfden ck))
              || negb (cphase ck)) eqn:E; [discriminate|]. intros _.
    apply orb_false_iff in E. destruct E as [E E3]. apply orb_false_iff in E. destruct E as [E4 E5].
    apply negb_false_iff in E3, E4, E5. apply andb_true_iff in E5. destruct E5 as [E5 E6].
    apply N.eqb_eq in E4. apply N.eqb_eq in E5. apply N.eqb_eq in E6.
    exists p, pk. exact (conj eq_refl (conj Hn (conj eq_refl (conj eq_refl (conj E4 (conj E5 (conj E6 E3))))))).
  - intros (p & pk & H1 & H2 & H3 & H4 & H5 & H6 & H7 & H8).
    rewrite H1, H2, H3, H4, H5, H6, H7, H8. rewrite !N.eqb_refl. reflexivity.
Qed.

Lemma not_self_driven_not_inherits : forall cs ck,
  cselfsim ck = false \/ cselfexp ck = false -> inherits cs ck = false.
Proof.
  intros cs ck H. destruct (inherits cs ck) eqn:E; auto.
  apply inherits_iff in E. destruct E as (p & pk & _ & _ & H1 & H2 & _). destruct H; congruence.
Qed.

Lemma nth_in_combine_seq : forall (A : Type) (l : list A) start c x,
  nth_error l c = Some x -> In (start + c, x) (combine (seq start (length l)) l).
Proof.
  induction l as [|y l IH]; intros start c x H; [destruct c; discriminate|].
  destruct c; simpl in *.
  - inversion H; subst. left. f_equal. lia.
  - right. replace (start + S c) with (S start + c) by lia. apply IH. exact H.
Qed.

Lemma clocks_ok_spec : forall cs c ck p,
  clocks_ok cs = true -> nth_error cs c = Some ck -> cparent ck = Some p -> p < c.
Proof.
  intros cs c ck p Hok Hc Hp. unfold clocks_ok in Hok. rewrite forallb_forall in Hok.
  specialize (Hok (c, ck) (nth_in_combine_seq _ cs 0 c ck Hc)). simpl in Hok. rewrite Hp in Hok.
  apply Nat.ltb_lt. exact Hok.
Qed.

Lemma pin_source_f_fuel : forall cs, clocks_ok cs = true ->
  forall k c f1 f2, c < k -> c < f1 -> c < f2 -> pin_source_f f1 cs c = pin_source_f f2 cs c.
Proof.
  intros cs Hok. induction k as [|k IH]; intros c f1 f2 Hk H1 H2; [lia|].
  destruct f1 as [|f1]; [lia|]. destruct f2 as [|f2]; [lia|]. simpl.
  destruct (nth_error cs c) as [ck|] eqn:Ec; auto.
  destruct (inherits cs ck); auto.
  destruct (cparent ck) as [p|] eqn:Ep; auto.
  pose proof (clocks_ok_spec _ _ _ _ Hok Ec Ep). apply IH; lia.
Qed.

Lemma pin_source_f_S : forall f cs c,
  pin_source_f (S f) cs c =
  match nth_error cs c with
  | None => c
  | Some ck => if inherits cs ck then match cparent ck with Some p => pin_source_f f cs p | None => c end else c
  end.
Proof. reflexivity. Qed.

(* the pin source of a clock, one step along the parent chain *)
Theorem pin_source_unfold : forall n c ck,
  clocks_ok (clks n) = true -> nth_error (clks n) c = Some ck ->
  pin_source n c =
    if inherits (clks n) ck
    then match cparent ck with Some p => pin_source n p | None => c end
    else c.
Proof.
  intros n c ck Hok Hc. unfold pin_source.
  assert (Hlt : c < length (clks n)) by (apply nth_error_Some; congruence).
  destruct (length (clks n)) as [|f] eqn:El; [lia|].
  rewrite (pin_source_f_S f (clks n) c). rewrite Hc.
  destruct (inherits (clks n) ck); auto.
  destruct (cparent ck) as [p|] eqn:Ep; auto.
  pose proof (clocks_ok_spec _ _ _ _ Hok Hc Ep).
  apply (pin_source_f_fuel _ Hok (S f)); lia.
Qed.

(* a clock whose net is driven by logic in at least one view is its own pin source: it never shares
   the domain of its parent, whatever its name and frequency *)
Theorem logic_driven_own_source : forall n c ck,
  nth_error (clks n) c = Some ck ->
  cselfsim ck = false \/ cselfexp ck = false ->
  pin_source n c = c.
Proof.
  intros n c ck Hc H. unfold pin_source.
  assert (Hlt : c < length (clks n)) by (apply nth_error_Some; congruence).
  destruct (length (clks n)) as [|f]; [lia|]. simpl. rewrite Hc.
  rewrite (not_self_driven_not_inherits _ _ H). reflexivity.
Qed.

(* an undriven derived clock with the parent's name / frequency / phase is the parent's domain *)
Theorem undriven_derived_shares_parent : forall n c ck p pk,
  clocks_ok (clks n) = true -> nth_error (clks n) c = Some ck ->
  cparent ck = Some p -> nth_error (clks n) p = Some pk ->
  cselfsim ck = true -> cselfexp ck = true ->
  cname pk = cname ck -> cfnum pk = cfnum ck -> cfden pk = cfden ck -> cphase ck = true ->
  pin_source n c = pin_source n p.
Proof.
  intros n c ck p pk Hok Hc Hp Hpk H1 H2 H3 H4 H5 H6.
  rewrite (pin_source_unfold n c ck Hok Hc).
  assert (inherits (clks n) ck = true) by (apply inherits_iff; exists p, pk; repeat split; auto).
  rewrite H, Hp. reflexivity.
Qed.

(* a root clock is its own pin source *)
Theorem root_own_source : forall n c ck,
  nth_error (clks n) c = Some ck -> cparent ck = None -> pin_source n c = c.
Proof.
  intros n c ck Hc Hp. unfold pin_source.
  assert (Hlt : c < length (clks n)) by (apply nth_error_Some; congruence).
  destruct (length (clks n)) as [|f]; [lia|]. simpl. rewrite Hc.
  unfold inherits. rewrite Hp. reflexivity.
Qed.
