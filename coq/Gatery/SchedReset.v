(* C04 -- power-on reset hold time: a reset pin that is used by any clocked node is held for a positive
   time, so the "immediately disable again" branch of ReferenceSimulator::powerOn can only concern reset
   pins without clocked nodes. *)
From Coq Require Import QArith Qreduction Lia.
Require Import Gatery.Bits.
Require Import Gatery.SchedDefs Gatery.SchedClocks.
Import ListNotations.
Local Close Scope Q_scope.

Lemma Qmax_l a b : (a <= Qmax a b)%Q.
Proof.
  unfold Qmax. destruct (Qle_bool b a) eqn:E; [apply Qle_refl|].
  apply Qlt_le_weak, Qnot_le_lt. intro C. apply Qle_bool_iff in C. congruence.
Qed.
Lemma Qmax_r a b : (b <= Qmax a b)%Q.
Proof. unfold Qmax. destruct (Qle_bool b a) eqn:E; [apply Qle_bool_iff; exact E | apply Qle_refl]. Qed.

Lemma fold_Qmax_init {A} (g : A -> Q) l : forall a, (a <= fold_left (fun acc d => Qmax acc (g d)) l a)%Q.
Proof.
  induction l as [|x l IH]; intro a; simpl; [apply Qle_refl|].
  eapply Qle_trans; [apply Qmax_l | apply IH].
Qed.
Lemma fold_Qmax_elem {A} (g : A -> Q) l : forall a d, In d l -> (g d <= fold_left (fun acc d => Qmax acc (g d)) l a)%Q.
Proof.
  induction l as [|x l IH]; intros a d H; simpl; [contradiction|].
  destruct H as [<-|H]; [|apply IH, H].
  eapply Qle_trans; [apply Qmax_r | apply fold_Qmax_init].
Qed.
Lemma fold_Nmax_init {A} (g : A -> N) l : forall a, (a <= fold_left (fun acc d => N.max acc (g d)) l a)%N.
Proof.
  induction l as [|x l IH]; intro a; simpl; [lia|].
  eapply N.le_trans; [apply N.le_max_l | apply IH].
Qed.
Lemma fold_Nmax_elem {A} (g : A -> N) l : forall a d, In d l -> (g d <= fold_left (fun acc d => N.max acc (g d)) l a)%N.
Proof.
  induction l as [|x l IH]; intros a d H; simpl; [contradiction|].
  destruct H as [<-|H]; [|apply IH, H].
  eapply N.le_trans; [apply N.le_max_r | apply fold_Nmax_init].
Qed.

(* ceil of a positive rational is at least 1 *)
Lemma qceil_pos q : (0 < q)%Q -> (1 <= qceil_N q)%N.
Proof.
  intro H. unfold qceil_N. unfold Qlt in H. simpl in H.
  assert (Hn : (1 <= Qnum q)%Z) by lia.
  assert (Hd : (1 <= (Qnum q + Z.pos (Qden q) - 1) / Z.pos (Qden q))%Z).
  { apply Z.div_le_lower_bound; lia. }
  lia.
Qed.

Lemma Q_of_N_pos n : (1 <= n)%N -> (0 < Q_of_N n)%Q.
Proof. intro H. unfold Q_of_N, Qlt. simpl. lia. Qed.

Lemma Qdiv_pos a b : (0 < a)%Q -> (0 < b)%Q -> (0 < a / b)%Q.
Proof. intros Ha Hb. unfold Qdiv. apply Qmult_lt_0_compat; [exact Ha | apply Qinv_lt_0_compat, Hb]. Qed.

(* s is reached from c by k steps to the parent *)
Fixpoint chain (cs : list clock) (k : nat) (c s : nat) : Prop :=
  match k with
  | O => c = s
  | S k' => exists p, ck_parent (get_clock cs c) = Some p /\ chain cs k' p s
  end.

Lemma rstsrc_f_step cs fuel c s :
  rstsrc_f cs fuel c = Some s ->
  s = c \/ exists f p, fuel = S f /\ ck_parent (get_clock cs c) = Some p /\ rstsrc_f cs f p = Some s.
Proof.
  destruct fuel as [|f]; simpl; intro H;
    destruct (ck_rst (get_clock cs c)); try discriminate;
    destruct (inherits_rst cs c); try (inversion H; auto; fail);
    destruct (ck_parent (get_clock cs c)) as [p|] eqn:Hp; try (inversion H; auto; fail);
    right; exists f, p; auto.
Qed.

Lemma rstsrc_f_chain cs : clocks_wf cs -> forall fuel c s,
  rstsrc_f cs fuel c = Some s -> exists k, chain cs k c s /\ k <= c.
Proof.
  intro Hwf. induction fuel as [|f IH]; intros c s H;
    destruct (rstsrc_f_step cs _ c s H) as [->|(f' & p & Ef & Hp & Hr)].
  - exists 0. simpl. split; [reflexivity | lia].
  - discriminate.
  - exists 0. simpl. split; [reflexivity | lia].
  - inversion Ef; subst f'. destruct (IH p s Hr) as (k & Hk & Hle).
    exists (S k). split; [simpl; exists p; auto | specialize (Hwf c p Hp); lia].
Qed.

Definition mults_positive (cs : list clock) : Prop :=
  forall i, i < length cs -> (0 < ck_freq (get_clock cs i))%Q.

Lemma absfreq_f_pos cs : mults_positive cs -> clocks_wf cs -> forall fuel i, i < length cs -> (0 < absfreq_f cs fuel i)%Q.
Proof.
  intros Hm Hwf. induction fuel as [|f IH]; intros i Hi; cbn [absfreq_f].
  - destruct (ck_parent (get_clock cs i)); apply Hm, Hi.
  - destruct (ck_parent (get_clock cs i)) as [p|] eqn:Hp; [|apply Hm, Hi].
    rewrite Qred_correct. apply Qmult_lt_0_compat; [|apply Hm, Hi].
    apply IH. specialize (Hwf i p Hp). lia.
Qed.

Lemma child_in cs c p : c < length cs -> ck_parent (get_clock cs c) = Some p -> In c (children cs p).
Proof.
  intros Hc Hp. unfold children. apply filter_In. split; [apply in_seq; lia|].
  rewrite Hp. apply Nat.eqb_refl.
Qed.

(* cycles: a lower bound of 1 travels up the chain, one unit of fuel per level *)
Lemma cycles_up cfg : mults_positive (cfg_clocks cfg) -> clocks_wf (cfg_clocks cfg) -> forall k F c s,
  c < length (cfg_clocks cfg) -> chain (cfg_clocks cfg) k c s ->
  (1 <= min_reset_cycles_f cfg F c)%N -> (1 <= min_reset_cycles_f cfg (k + F) s)%N.
Proof.
  intros Hm Hwf. induction k as [|k IH]; intros F c s Hc Hch H; simpl in Hch.
  - subst. exact H.
  - destruct Hch as (p & Hp & Hch).
    replace (S k + F) with (k + S F) by lia.
    assert (Hpl : p < length (cfg_clocks cfg)) by (specialize (Hwf c p Hp); lia).
    apply (IH (S F) p s Hpl Hch).
    cbn [min_reset_cycles_f].
    eapply N.le_trans; [|apply (fold_Nmax_elem
       (fun d => qceil_N (Q_of_N (min_reset_cycles_f cfg F d) / ck_freq (get_clock (cfg_clocks cfg) d))) _ _ c (child_in _ c p Hc Hp))].
    apply qceil_pos, Qdiv_pos; [apply Q_of_N_pos, H | apply Hm, Hc].
Qed.

Lemma time_up cfg : clocks_wf (cfg_clocks cfg) -> forall k F c s,
  c < length (cfg_clocks cfg) -> chain (cfg_clocks cfg) k c s ->
  (0 < min_reset_time_f cfg F c)%Q -> (0 < min_reset_time_f cfg (k + F) s)%Q.
Proof.
  intros Hwf. induction k as [|k IH]; intros F c s Hc Hch H; simpl in Hch.
  - subst. exact H.
  - destruct Hch as (p & Hp & Hch).
    replace (S k + F) with (k + S F) by lia.
    assert (Hpl : p < length (cfg_clocks cfg)) by (specialize (Hwf c p Hp); lia).
    apply (IH (S F) p s Hpl Hch).
    cbn [min_reset_time_f].
    eapply Qlt_le_trans; [exact H|].
    apply (fold_Qmax_elem (fun d => min_reset_time_f cfg F d) _ _ c (child_in _ c p Hc Hp)).
Qed.

Lemma own_cycles cfg F c :
  ck_rst (get_clock (cfg_clocks cfg) c) = RST_SYNC -> has_nodes cfg c = true -> (1 <= min_reset_cycles_f cfg F c)%N.
Proof.
  intros Hr Hn. destruct F; cbn [min_reset_cycles_f]; rewrite Hr, Hn; simpl.
  - lia.
  - eapply N.le_trans; [|apply fold_Nmax_init]. lia.
Qed.

Lemma own_time cfg F c :
  (0 < absfreq (cfg_clocks cfg) c)%Q ->
  ck_rst (get_clock (cfg_clocks cfg) c) = RST_ASYNC -> has_nodes cfg c = true -> (0 < min_reset_time_f cfg F c)%Q.
Proof.
  intros Hf Hr Hn.
  assert (H1 : (0 < Qred (1 / absfreq (cfg_clocks cfg) c))%Q).
  { rewrite Qred_correct. apply Qdiv_pos; [reflexivity | exact Hf]. }
  destruct F; cbn [min_reset_time_f]; rewrite Hr, Hn; simpl.
  - eapply Qlt_le_trans; [exact H1 | apply Qmax_r].
  - eapply Qlt_le_trans; [exact H1|]. eapply Qle_trans; [apply Qmax_r | apply fold_Qmax_init].
Qed.

(* Every reset pin that some clocked node hangs on is held for a positive time at power-on *)
Theorem used_reset_pin_held cfg c s :
  clocks_wf (cfg_clocks cfg) -> mults_positive (cfg_clocks cfg) ->
  c < length (cfg_clocks cfg) -> has_nodes cfg c = true ->
  rstsrc (cfg_clocks cfg) c = Some s ->
  (0 < reset_hold_time cfg s)%Q /\ Qis_zero (reset_hold_time cfg s) = false.
Proof.
  intros Hwf Hm Hc Hn Hs.
  assert (Hpos : (0 < reset_hold_time cfg s)%Q).
  { unfold rstsrc in Hs. destruct (rstsrc_f_chain _ Hwf _ _ _ Hs) as (k & Hch & Hk).
    set (n := length (cfg_clocks cfg)) in *.
    assert (Hsl : s < n).
    { clear - Hwf Hch Hc. revert c Hc Hch. induction k as [|k IH]; intros c Hc Hch; simpl in Hch.
      - subst. exact Hc.
      - destruct Hch as (p & Hp & Hch). apply (IH p); [specialize (Hwf c p Hp); unfold n in *; lia | exact Hch]. }
    unfold reset_hold_time.
    destruct (ck_rst (get_clock (cfg_clocks cfg) c)) eqn:Er.
    - (* synchronous: at least one cycle *)
      pose proof (cycles_up cfg Hm Hwf k (n - k) c s Hc Hch (own_cycles cfg _ c Er Hn)) as H.
      replace (k + (n - k)) with n in H by lia.
      eapply Qlt_le_trans; [|apply Qmax_r]. rewrite Qred_correct.
      apply Qdiv_pos; [apply Q_of_N_pos; exact H | apply absfreq_f_pos; assumption].
    - (* asynchronous: at least one period of the clock the node hangs on *)
      assert (Hf : (0 < absfreq (cfg_clocks cfg) c)%Q) by (apply absfreq_f_pos; assumption).
      pose proof (time_up cfg Hwf k (n - k) c s Hc Hch (own_time cfg _ c Hf Er Hn)) as H.
      replace (k + (n - k)) with n in H by lia.
      eapply Qlt_le_trans; [exact H | apply Qmax_l].
    - (* no reset: then there is no reset pin *)
      exfalso. destruct (length (cfg_clocks cfg)); simpl in Hs; rewrite Er in Hs; discriminate. }
  split; [exact Hpos|].
  unfold Qis_zero. destruct (Qeq_bool (reset_hold_time cfg s) 0) eqn:E; [|reflexivity].
  apply Qeq_bool_eq in E. rewrite E in Hpos. exfalso. apply (Qlt_irrefl _ Hpos).
Qed.

(* in terms of registers: a register on reset pin s forces a positive hold time, i.e. the zero-hold
   ("immediately disable again") branch of powerOn never touches a register *)
Corollary zero_hold_no_register cfg s r :
  clocks_wf (cfg_clocks cfg) -> mults_positive (cfg_clocks cfg) ->
  r < length (cfg_regs cfg) -> rg_clk (get_reg cfg r) < length (cfg_clocks cfg) ->
  Qis_zero (reset_hold_time cfg s) = true -> on_rstpin cfg s r = false.
Proof.
  intros Hwf Hm Hr Hc Hz. unfold on_rstpin.
  destruct (rstsrc (cfg_clocks cfg) (rg_clk (get_reg cfg r))) as [s'|] eqn:Es; [|reflexivity].
  destruct (Nat.eqb s' s) eqn:E; [|reflexivity]. apply Nat.eqb_eq in E. subst s'.
  assert (Hn : has_nodes cfg (rg_clk (get_reg cfg r)) = true).
  { unfold has_nodes. apply orb_true_iff. left. apply existsb_exists.
    exists (get_reg cfg r). split; [apply nth_In; exact Hr | apply Nat.eqb_refl]. }
  destruct (used_reset_pin_held cfg _ s Hwf Hm Hc Hn Es) as [_ H]. congruence.
Qed.
