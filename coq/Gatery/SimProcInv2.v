(* C19 -- invariants, part 2: insertion ids are fresh and pairwise distinct; the model-only bookkeeping
   carried by pending resumptions is consistent (a WaitFor resumption is due exactly at t0+q in phase AFTER,
   a WaitChange resumption carries a snapshot and a differing observation).  Consequences: same-instant FIFO
   among queued resumptions, exact WaitFor, WaitChange only on change. *)
From Coq Require Import List NArith ZArith QArith Qreduction Bool Lia Sorted Permutation.
From Gatery Require Import SimProcDefs SimProcOrder SimProcSteps SimProcInv1.
Import ListNotations.
Local Close Scope Q_scope.

(* ------------------------------------------------------------------------- *)
(** * The ready queue under process steps *)

Definition benign_task (t : task) : Prop :=
  (exists pid n, t = THop pid n) \/ (exists pid k g, t = TWake pid (WkJoin k) g) \/ (exists pid, t = TStart pid).

Lemma fold_enqueue_ready : forall (js : list (nat * nat * Q)) s t,
  In t (s_ready (fold_left (fun st j => match j with (jp, k, t0) => enqueue (TWake jp (WkJoin k) (ghost0 t0)) st end) js s)) ->
  In t (s_ready s) \/ benign_task t.
Proof.
  induction js as [|[[jp k] t0] r IH]; intros s t H; simpl in H; [left; exact H|].
  apply IH in H. destruct H as [H|H]; [|right; exact H].
  simpl in H. apply in_app_or in H. destruct H as [H|[<-|[]]]; [left; exact H|].
  right. right. left. eexists _, _, _. reflexivity.
Qed.

Lemma cont_states_ready : forall pid s1 s' t, cont_states pid s1 s' -> In t (s_ready s') -> In t (s_ready s1) \/ benign_task t.
Proof.
  intros pid s1 s' t [->| ->] H; [left; exact H|].
  simpl in H. apply in_app_or in H. destruct H as [H|[<-|[]]]; [left; exact H|].
  right. left. eexists _, _. reflexivity.
Qed.

Lemma add_log_ready : forall e s, s_ready (add_log e s) = s_ready s.
Proof. intros e s. unfold add_log. destruct (s_err s); reflexivity. Qed.

Lemma frame_step_ready : forall cfg f s s' t,
  frame_step cfg f s s' -> In t (s_ready s') -> In t (s_ready s) \/ benign_task t.
Proof.
  intros cfg f s s' t F H. inversion F; subst; clear F.
  - unfold log_proc in H. rewrite add_log_ready in H. left; exact H.
  - eapply cont_states_ready; eassumption.
  - unfold finish_proc in H. apply fold_enqueue_ready in H. destruct H as [H|H]; [left|right; exact H].
    simpl in H. unfold log_proc in H. rewrite add_log_ready in H. exact H.
  - eapply cont_states_ready in H; [|eassumption]. destruct H as [H|H]; [left|right; exact H].
    cbv zeta in H. unfold log_proc in H. rewrite add_log_ready in H. exact H.
  - simpl in H. rewrite add_log_ready in H. unfold log_proc in H. rewrite add_log_ready in H. left; exact H.
  - eapply cont_states_ready in H; [|eassumption]. destruct H as [H|H]; [left|right; exact H].
    cbv zeta in H. simpl in H. unfold log_proc in H. rewrite add_log_ready in H. exact H.
  - cbv zeta in H. simpl in H. unfold log_proc in H. rewrite add_log_ready in H. left; exact H.
  - eapply cont_states_ready in H; [|eassumption]. destruct H as [H|H]; [left|right; exact H].
    unfold log_proc in H. rewrite add_log_ready in H. exact H.
  - cbv zeta in H. simpl in H. unfold log_proc in H. rewrite add_log_ready in H. left; exact H.
  - cbv zeta in H. unfold suspend_waitclk, fresh_id in H. cbv zeta in H.
    destruct (eff_clk cfg c); simpl in H; unfold log_proc in H; rewrite add_log_ready in H; left; exact H.
  - cbv zeta in H. unfold suspend_waitfor, fresh_id in H. simpl in H. unfold log_proc in H. rewrite add_log_ready in H. left; exact H.
  - cbv zeta in H. unfold suspend_waitchange, fresh_id in H. simpl in H. unfold log_watch, log_proc in H.
    rewrite !add_log_ready in H. left; exact H.
  - cbv zeta in H. unfold suspend_waitstable in H. simpl in H. unfold log_proc in H. rewrite add_log_ready in H. left; exact H.
  - cbv zeta in H. unfold suspend_waitx, fresh_id in H. simpl in H. unfold log_proc in H. rewrite add_log_ready in H. left; exact H.
Qed.

Lemma log_wake_ready : forall pid w g s, s_ready (log_wake pid w g s) = s_ready s.
Proof.
  intros. unfold log_wake, log_watch, log_proc. destruct w; rewrite ?add_log_ready; reflexivity.
Qed.

Lemma task_head_ready : forall t0 s t, In t (s_ready (snd (task_head t0 s))) -> In t (s_ready s) \/ benign_task t.
Proof.
  intros t0 s t H. destruct t0 as [pid|pid w g|pid n]; simpl in H.
  - left; exact H.
  - destruct (p_fiber (get_proc pid (log_wake pid w g s))); simpl in H.
    + rewrite log_wake_ready in H. apply in_app_or in H. destruct H as [H|[<-|[]]]; [left; exact H|].
      right. left. eexists _, _. reflexivity.
    + rewrite log_wake_ready in H. left; exact H.
  - destruct n; simpl in H; [left; exact H|].
    destruct (p_script (get_proc pid s)); simpl in H; [left; exact H|].
    apply in_app_or in H. destruct H as [H|[<-|[]]]; [left; exact H|]. right. left. eexists _, _. reflexivity.
Qed.

(* ------------------------------------------------------------------------- *)
(** * Counting insertion ids *)

Definition is_resume (e : event) : bool := match e_type e with SimProcResume => true | _ => false end.
Definition one (b : bool) : nat := if b then 1 else 0.
Definition qcnt (i : N) (q : list event) : nat := count_occ N.eq_dec (map e_id (filter is_resume q)) i.
Definition acnt (i : N) (l : list awaiter) : nat := count_occ N.eq_dec (map aw_id l) i.
Definition wcnt (i : N) (l : list watch) : nat := count_occ N.eq_dec (map w_id l) i.
(* how many pending resumptions (queued, awaiting a clock, watching signals) hold insertion id i *)
Definition cnt (i : N) (s : state) : nat :=
  qcnt i (s_queue s) + acnt i (s_await_a s) + acnt i (s_await_b s) + wcnt i (s_watches s).

Lemma qcnt_cons : forall i e q, qcnt i (e :: q) = one (is_resume e && N.eqb (e_id e) i) + qcnt i q.
Proof.
  intros i e q. unfold qcnt. simpl. destruct (is_resume e); simpl; [|reflexivity].
  destruct (N.eq_dec (e_id e) i) as [E|E].
  - rewrite (proj2 (N.eqb_eq _ _) E). reflexivity.
  - rewrite (proj2 (N.eqb_neq _ _) E). reflexivity.
Qed.
Lemma qcnt_insert : forall i e q, qcnt i (q_insert e q) = qcnt i (e :: q).
Proof.
  induction q as [|x r IH]; simpl; [reflexivity|].
  destruct (ev_less x e); [reflexivity|].
  rewrite qcnt_cons, IH, !qcnt_cons. lia.
Qed.
Lemma acnt_app : forall i l1 l2, acnt i (l1 ++ l2) = acnt i l1 + acnt i l2.
Proof. intros. unfold acnt. rewrite map_app, count_occ_app. reflexivity. Qed.
Lemma wcnt_app : forall i l1 l2, wcnt i (l1 ++ l2) = wcnt i l1 + wcnt i l2.
Proof. intros. unfold wcnt. rewrite map_app, count_occ_app. reflexivity. Qed.
Lemma acnt_one : forall i a, acnt i [a] = one (N.eqb (aw_id a) i).
Proof.
  intros. unfold acnt. simpl. destruct (N.eq_dec (aw_id a) i) as [E|E];
    [rewrite (proj2 (N.eqb_eq _ _) E) | rewrite (proj2 (N.eqb_neq _ _) E)]; reflexivity.
Qed.
Lemma wcnt_one : forall i w, wcnt i [w] = one (N.eqb (w_id w) i).
Proof.
  intros. unfold wcnt. simpl. destruct (N.eq_dec (w_id w) i) as [E|E];
    [rewrite (proj2 (N.eqb_eq _ _) E) | rewrite (proj2 (N.eqb_neq _ _) E)]; reflexivity.
Qed.
Lemma wcnt_filter : forall i (f : watch -> bool) l,
  wcnt i (filter f l) + wcnt i (filter (fun w => negb (f w)) l) = wcnt i l.
Proof.
  induction l as [|w r IH]; simpl; [reflexivity|].
  destruct (f w); simpl; unfold wcnt in *; simpl; destruct (N.eq_dec (w_id w) i); lia.
Qed.

Lemma qcnt_fold_push : forall {A} (f : A -> event) (l : list A) i s,
  qcnt i (s_queue (fold_left (fun st a => push_event (f a) st) l s)) = qcnt i (s_queue s) + qcnt i (map f l).
Proof.
  induction l as [|a r IH]; intros i s; simpl; [unfold qcnt at 3; simpl; lia|].
  rewrite IH. simpl. rewrite qcnt_insert, !qcnt_cons. lia.
Qed.

Lemma qcnt_awaiter_events : forall i e l, qcnt i (map (awaiter_event e) l) = acnt i l.
Proof.
  induction l as [|a r IH]; [reflexivity|]. simpl map. rewrite qcnt_cons, IH.
  change (a :: r) with ([a] ++ r). rewrite acnt_app, acnt_one. reflexivity.
Qed.

Lemma qcnt_pos_in : forall i q, 1 <= qcnt i q -> exists e, In e q /\ e_type e = SimProcResume /\ e_id e = i.
Proof.
  induction q as [|x r IH]; intro H; [unfold qcnt in H; simpl in H; lia|].
  rewrite qcnt_cons in H. destruct (is_resume x && N.eqb (e_id x) i) eqn:E.
  - apply andb_prop in E. destruct E as [E1 E2]. exists x. split; [left; reflexivity|].
    split; [unfold is_resume in E1; destruct (e_type x); try discriminate; reflexivity | apply N.eqb_eq; exact E2].
  - simpl in H. destruct (IH H) as (e & He & Hr). exists e. split; [right; exact He | exact Hr].
Qed.
Lemma qcnt_in_pos : forall i q e, In e q -> e_type e = SimProcResume -> e_id e = i -> 1 <= qcnt i q.
Proof.
  induction q as [|x r IH]; intros e He Ty Id; [destruct He|].
  rewrite qcnt_cons. destruct He as [->|He].
  - unfold is_resume. rewrite Ty. simpl. rewrite (proj2 (N.eqb_eq _ _) Id). simpl. lia.
  - specialize (IH e He Ty Id). lia.
Qed.

(* a watched value list differs from the snapshot *)
Definition changed (refs cur : list val) : Prop :=
  forallb (fun p => val_eqb (fst p) (snd p)) (combine refs cur) = false.

(* what the model-only payload of a pending resumption promises *)
Definition wake_ok (t : Q) (ph : phase) (w : wake) (g : ghost) : Prop :=
  match w with
  | WkFor q => (t == g_t0 g + uQ q)%Q /\ ph = AFTER
  | WkChange m => changed (g_refs g) (g_cur g) /\ ph = AFTER
  | _ => True
  end.

Definition entry_ok (e : entry) : Prop :=
  match e with
  | LProc t ph mt ro pid (AWake w g) => wake_ok t ph w g
  | LFire pid refs cur => changed refs cur
  | _ => True
  end.

Record inv2 (s : state) : Prop := mk_inv2 {
  i2_cnt : forall i, cnt i s <= 1;
  i2_bound : forall i, 1 <= cnt i s -> (i < s_nextid s)%N;
  i2_event : forall e, In e (s_queue s) -> e_type e = SimProcResume ->
               g_id (e_g e) = e_id e /\ wake_ok (e_time e) (e_phase e) (e_why e) (e_g e);
  i2_task : forall pid w g, In (TWake pid w g) (s_ready s) -> wake_ok (s_now s) (s_phase s) w g;
  i2_log : forall e, In e (s_log s) -> entry_ok e;
  i2_await : forall k a, In a (get_await k s) -> exists c ph, aw_why a = WkClk c ph
}.

Lemma wake_ok_time : forall t t' ph w g, (t == t')%Q -> wake_ok t ph w g -> wake_ok t' ph w g.
Proof.
  intros t t' ph w g E H. destruct w; simpl in *; try exact H.
  destruct H as [H1 H2]. split; [rewrite <- E; exact H1 | exact H2].
Qed.

Lemma cnt_same : forall i s s',
  s_queue s' = s_queue s -> s_await_a s' = s_await_a s -> s_await_b s' = s_await_b s -> s_watches s' = s_watches s ->
  cnt i s' = cnt i s.
Proof. intros i s s' Q A B W. unfold cnt. rewrite Q, A, B, W. reflexivity. Qed.

Lemma Qeq_bool_eq : forall a b, Qeq_bool a b = true -> (a == b)%Q.
Proof. intros a b H. apply Qeq_bool_iff. exact H. Qed.

Lemma top_matches_head : forall s e q, s_queue s = e :: q -> top_matches false true s = true ->
  (e_time e == s_now s)%Q /\ e_phase e = s_phase s /\ e_mt e = s_mt s.
Proof.
  intros s e q Q H. unfold top_matches in H. rewrite Q in H. simpl in H.
  apply andb_prop in H. destruct H as [H H3]. apply andb_prop in H. destruct H as [H1 H2].
  split; [apply Qeq_bool_eq; exact H1|]. split; [apply phase_eqb_eq; exact H2 | apply N.eqb_eq; exact H3].
Qed.

(* the popped event carries the current stamp (equivalent events have equal stamps) *)
Lemma pop_event_stamp : forall s e s1, pop_event s = Some (e, s1) -> top_matches false true s = true ->
  (e_time e == s_now s)%Q /\ e_phase e = s_phase s /\ e_mt e = s_mt s.
Proof.
  intros s e s1 P Tm. destruct (pop_event_queue s e s1 P) as (e2 & r & [Q|(Q & _ & Eq & _)] & _).
  - eapply top_matches_head; eassumption.
  - destruct (top_matches_head s e2 (e :: r) Q Tm) as (T1 & T2 & T3).
    unfold equivalent in Eq. apply andb_prop in Eq. destruct Eq as [E1 E2]. apply negb_true_iff in E1, E2.
    assert (I : incomparable e2 e) by (split; apply ev_less_false_klt; assumption).
    apply incomparable_iff in I. destruct I as ((I1 & I2 & I3) & _).
    split; [rewrite <- I1; exact T1 | split; congruence].
Qed.

Lemma pop_event_qcnt : forall s e s1 i, pop_event s = Some (e, s1) ->
  qcnt i (s_queue s) = one (is_resume e && N.eqb (e_id e) i) + qcnt i (s_queue s1).
Proof.
  intros s e s1 i P. destruct (pop_event_queue s e s1 P) as (e2 & r & [Q|(Q & Q1 & _)] & _).
  - rewrite Q, qcnt_cons. reflexivity.
  - rewrite Q, Q1, !qcnt_cons. lia.
Qed.

Section Inv.
Variable cfg : config.
Variables (procs : list script) (fiber : bool) (tb : list bool).
Notation c0 := (boot cfg procs fiber tb, @nil frame).
Notation reach := (treach cfg c0).

Lemma boot_inv2 : inv2 (boot cfg procs fiber tb).
Proof.
  assert (Qn : forall x, In x (s_queue (boot cfg procs fiber tb)) -> e_type x = ClockPinTrigger).
  { intros x H. apply (boot_queue cfg procs fiber tb) in H. destruct H as [->|[_ ->]]; reflexivity. }
  assert (Z : forall i, cnt i (boot cfg procs fiber tb) = 0).
  { intro i. unfold cnt.
    assert (Q0 : qcnt i (s_queue (boot cfg procs fiber tb)) = 0).
    { destruct (qcnt i (s_queue (boot cfg procs fiber tb))) eqn:E; [reflexivity|].
      destruct (qcnt_pos_in i (s_queue (boot cfg procs fiber tb))) as (e & He & Ty & _); [lia|].
      rewrite (Qn e He) in Ty. discriminate. }
    rewrite Q0. unfold boot. destruct (c_two cfg); reflexivity. }
  constructor.
  - intro i. rewrite Z. lia.
  - intros i H. rewrite Z in H. lia.
  - intros e He Ty. rewrite (Qn e He) in Ty. discriminate.
  - unfold boot. destruct (c_two cfg); intros pid w g [].
  - intros e He. unfold boot, reevaluate in He. rewrite add_log_log in He.
    destruct (c_two cfg); simpl in He; destruct He as [<-|[]]; exact I.
  - unfold boot. destruct (c_two cfg); intros [|] a [].
Qed.

(* entries of a process step are fine unless they are AWake entries (those come from tasks) *)
Lemma frame_step_log_ok : forall f s s', frame_step cfg f s s' -> halted s = false ->
  (forall e, In e (s_log s) -> entry_ok e) -> forall e, In e (s_log s') -> entry_ok e.
Proof.
  intros f s s' F H Ho e He.
  assert (NA : forall s0 pid a, same_lg s s0 -> same_ctl s s0 -> (forall w g, a <> AWake w g) ->
                 forall x, In x (s_log (log_proc pid a s0)) -> entry_ok x).
  { intros s0 pid a (L0 & E0 & _) _ Na x Hx. rewrite log_proc_log in Hx by (rewrite E0; apply halted_false_err; exact H).
    destruct Hx as [<-|Hx]; [|apply Ho; rewrite <- L0; exact Hx].
    simpl. destruct a; try exact I. exfalso. eapply Na. reflexivity. }
  inversion F; subst; clear F.
  - eapply (NA s pid AStart); [| | | exact He]; [apply same_lg_refl | apply same_ctl_refl | intros; discriminate].
  - destruct (cont_states_lg _ _ _ H0) as (L & _). rewrite L in He. apply Ho; exact He.
  - unfold finish_proc in He.
    match type of He with In _ (s_log (fold_left ?f ?js ?x)) => destruct (fold_enqueue_lg js x) as (L & _) end.
    rewrite L in He. simpl in He.
    eapply (NA s pid AEnd); [| | | exact He]; [apply same_lg_refl | apply same_ctl_refl | intros; discriminate].
  - destruct (cont_states_lg _ _ _ H0) as (L & _). rewrite L in He. cbv zeta in He.
    eapply (NA (upd_proc pid (with_script rest) s)); [| | | exact He]; [repeat split | repeat split | intros; discriminate].
  - simpl in He. rewrite add_log_log in He. rewrite log_proc_err in He.
    replace (s_err (upd_proc pid (with_script rest) s)) with (s_err s) in He by reflexivity.
    rewrite (halted_false_err s H) in He. destruct He as [<-|He]; [exact I|].
    eapply (NA (upd_proc pid (with_script rest) s)); [| | | exact He]; [repeat split | repeat split | intros; discriminate].
  - destruct (cont_states_lg _ _ _ H1) as (L & _). rewrite L in He. cbv zeta in He. simpl in He.
    eapply (NA (upd_proc pid (with_script rest) s)); [| | | exact He]; [repeat split | repeat split | intros; discriminate].
  - cbv zeta in He. simpl in He.
    eapply (NA (upd_proc pid (with_script rest) s)); [| | | exact He]; [repeat split | repeat split | intros; discriminate].
  - destruct (cont_states_lg _ _ _ H1) as (L & _). rewrite L in He.
    eapply (NA (upd_proc pid (with_script rest) s)); [| | | exact He]; [repeat split | repeat split |].
    intros w g Eq. match goal with Hd : _ \/ _ |- _ => destruct Hd; subst; discriminate end.
  - cbv zeta in He. simpl in He.
    eapply (NA (upd_proc pid (with_script rest) s)); [| | | exact He]; [repeat split | repeat split | intros; discriminate].
  - cbv zeta in He.
    match type of He with In _ (s_log (suspend_waitclk ?c ?p ?k ?h ?x)) => destruct (suspend_waitclk_lg c p k h x) as (L & _) end.
    rewrite L in He.
    eapply (NA (upd_proc pid (with_script rest) s)); [| | | exact He]; [repeat split | repeat split | intros; discriminate].
  - cbv zeta in He.
    match type of He with In _ (s_log (suspend_waitfor ?p ?q ?x)) => destruct (suspend_waitfor_lg p q x) as (L & _) end.
    rewrite L in He.
    eapply (NA (upd_proc pid (with_script rest) s)); [| | | exact He]; [repeat split | repeat split | intros; discriminate].
  - cbv zeta in He.
    match type of He with In _ (s_log (suspend_waitchange ?p ?q ?x)) => destruct (suspend_waitchange_lg p q x) as (L & _) end.
    rewrite L in He. unfold log_watch in He.
    set (s0 := upd_proc pid (with_script rest) s) in *.
    set (s1 := log_proc pid (ASusp (WkChange m) (s_nextid s0)) s0) in *.
    assert (E1 : s_err s1 = false) by (unfold s1; rewrite log_proc_err; apply halted_false_err; exact H).
    rewrite log_proc_log in He by exact E1. destruct He as [<-|He]; [exact I|].
    eapply (NA s0); [| | | exact He]; [repeat split | repeat split | intros; discriminate].
  - cbv zeta in He. simpl in He.
    eapply (NA (upd_proc pid (with_script rest) s)); [| | | exact He]; [repeat split | repeat split | intros; discriminate].
  - cbv zeta in He.
    match type of He with In _ (s_log (suspend_waitx ?c ?p ?i ?h ?x)) => destruct (suspend_waitx_lg c p i h x) as (L & _) end.
    rewrite L in He.
    eapply (NA (upd_proc pid (with_script rest) s)); [| | | exact He]; [repeat split | repeat split | intros; discriminate].
Qed.


Lemma get_await_cnt : forall i s,
  cnt i s = qcnt i (s_queue s) + acnt i (get_await CA s) + acnt i (get_await CB s) + wcnt i (s_watches s).
Proof. reflexivity. Qed.

Definition same_ids (s s' : state) : Prop :=
  s_queue s' = s_queue s /\ s_await_a s' = s_await_a s /\ s_await_b s' = s_await_b s /\
  s_watches s' = s_watches s /\ s_nextid s' = s_nextid s.
Lemma same_bk_ids : forall s s', same_bk s s' -> same_ids s s'.
Proof. intros s s' (Q & A & B & W & N & _). repeat split; assumption. Qed.

Lemma inv2_simple : forall s s',
  inv2 s -> same_ids s s' ->
  (forall pid w g, In (TWake pid w g) (s_ready s') -> wake_ok (s_now s') (s_phase s') w g) ->
  (forall e, In e (s_log s') -> entry_ok e) -> inv2 s'.
Proof.
  intros s s' [Ic Ib Ie It Il Ia] (Q & A & B & W & N) Tk Lg.
  constructor; try assumption.
  - intro i. rewrite (cnt_same i s s') by assumption. apply Ic.
  - intros i H. rewrite N. apply Ib. rewrite <- (cnt_same i s s') by assumption. exact H.
  - rewrite Q. exact Ie.
  - intros k a Ha. apply (Ia k). destruct k; simpl in *; congruence.
Qed.

(* a suspension that takes the next insertion id *)
Lemma inv2_fresh : forall s s',
  (forall i, cnt i s <= 1) -> (forall i, 1 <= cnt i s -> (i < s_nextid s)%N) ->
  (forall i, cnt i s' = one (N.eqb (s_nextid s) i) + cnt i s) -> s_nextid s' = N.succ (s_nextid s) ->
  (forall i, cnt i s' <= 1) /\ (forall i, 1 <= cnt i s' -> (i < s_nextid s')%N).
Proof.
  intros s s' Ic Ib E N. split.
  - intro i. rewrite E. destruct (N.eqb (s_nextid s) i) eqn:X; simpl; [|apply Ic].
    apply N.eqb_eq in X. subst i.
    destruct (cnt (s_nextid s) s) eqn:Z; [lia|]. assert (H : (s_nextid s < s_nextid s)%N) by (apply Ib; lia). lia.
  - intros i H. rewrite N. rewrite E in H. destruct (N.eqb (s_nextid s) i) eqn:X; simpl in H.
    + apply N.eqb_eq in X. lia.
    + specialize (Ib i H). lia.
Qed.

Lemma handle_trigger_cnt : forall e s i, is_resume e = false -> cnt i (handle_trigger cfg e s) = cnt i s.
Proof.
  intros e s i Fe. unfold handle_trigger.
  set (s0 := add_log (LTrigger (e_time e) (e_pin e) (e_rising e)) s).
  assert (C0 : cnt i s0 = cnt i s) by (destruct (add_log_bk (LTrigger (e_time e) (e_pin e) (e_rising e)) s) as (Q & A & B & W & _); apply cnt_same; assumption).
  assert (PE : forall x st, is_resume x = false -> cnt i (push_event x st) = cnt i st).
  { intros x st Fx. unfold cnt. simpl. rewrite qcnt_insert, qcnt_cons, Fx. reflexivity. }
  rewrite PE by reflexivity. rewrite PE by reflexivity.
  destruct (e_rising e); [|exact C0].
  rewrite <- C0.
  destruct (fold_push_other (awaiter_event e) (get_await (e_pin e) s0) s0) as (La & Lb & Lw & _).
  pose proof (qcnt_fold_push (awaiter_event e) (get_await (e_pin e) s0) i s0) as Lq.
  rewrite qcnt_awaiter_events in Lq.
  set (s1 := fold_left (fun st a => push_event (awaiter_event e a) st) (get_await (e_pin e) s0) s0) in *.
  destruct (e_pin e).
  - change (cnt i (set_await CA [] s1)) with (qcnt i (s_queue s1) + acnt i [] + acnt i (s_await_b s1) + wcnt i (s_watches s1)).
    change (get_await CA s0) with (s_await_a s0) in Lq. change (acnt i []) with 0.
    rewrite Lq, Lb, Lw. unfold cnt. lia.
  - change (cnt i (set_await CB [] s1)) with (qcnt i (s_queue s1) + acnt i (s_await_a s1) + acnt i [] + wcnt i (s_watches s1)).
    change (get_await CB s0) with (s_await_b s0) in Lq. change (acnt i []) with 0.
    rewrite Lq, La, Lw. unfold cnt. lia.
Qed.

Lemma check_watches_cnt : forall s i, cnt i (check_watches s) = cnt i s.
Proof.
  intros s i. unfold check_watches.
  set (f := watch_changed (s_circ s)).
  assert (G : forall l st, let st' := fold_left (fun st w => push_event (watch_event s w)
                (add_log (LFire (w_pid w) (w_refs w) (map (fun x => circ_read x (s_circ s)) (w_mask w))) st)) l st in
              qcnt i (s_queue st') = qcnt i (s_queue st) + wcnt i l
              /\ s_await_a st' = s_await_a st /\ s_await_b st' = s_await_b st).
  { induction l as [|w r IH]; intro st; simpl; [unfold wcnt; simpl; repeat split; lia|].
    destruct (IH (push_event (watch_event s w) (add_log (LFire (w_pid w) (w_refs w) (map (fun x => circ_read x (s_circ s)) (w_mask w))) st)))
      as (Q & A & B). cbv zeta in Q, A, B. rewrite Q, A, B. simpl.
    destruct (add_log_bk (LFire (w_pid w) (w_refs w) (map (fun x => circ_read x (s_circ s)) (w_mask w))) st) as (Q0 & A0 & B0 & _).
    rewrite qcnt_insert, qcnt_cons, Q0, A0, B0.
    change (w :: r) with ([w] ++ r). rewrite wcnt_app, wcnt_one. simpl. repeat split. lia. }
  destruct (G (filter f (s_watches s)) s) as (Q & A & B). cbv zeta in Q, A, B.
  unfold cnt. simpl. rewrite Q, A, B. pose proof (wcnt_filter i f (s_watches s)). lia.
Qed.

Lemma micro_end_cnt : forall s i, cnt i (micro_end s) = cnt i s.
Proof.
  intros s i. unfold micro_end.
  set (s3 := check_watches (reevaluate s)).
  assert (C3 : cnt i s3 = cnt i s).
  { unfold s3. rewrite check_watches_cnt. destruct (reevaluate_bk s) as (Q & A & B & W & _). apply cnt_same; assumption. }
  rewrite <- C3. destruct (add_log_bk (LMicro (s_now s3) (s_phase s3) (s_mt s3)) s3) as (Q & A & B & W & _).
  apply cnt_same; simpl; assumption.
Qed.

Lemma watch_changed_changed : forall c w, watch_changed c w = true ->
  changed (w_refs w) (map (fun x => circ_read x c) (w_mask w)).
Proof. intros c w H. unfold watch_changed in H. apply negb_true_iff in H. exact H. Qed.

Lemma micro_end_log_ok : forall s, s_err s = false -> (forall e, In e (s_log s) -> entry_ok e) ->
  forall e, In e (s_log (micro_end s)) -> entry_ok e.
Proof.
  intros s He Ho e Hin. unfold micro_end in Hin. simpl in Hin.
  set (s2 := reevaluate s) in *. set (s3 := check_watches s2) in *.
  assert (E2 : s_err s2 = false) by (unfold s2, reevaluate; rewrite add_log_err; exact He).
  assert (L2 : s_log s2 = LReeval :: s_log s) by (unfold s2, reevaluate; rewrite add_log_log; simpl; rewrite He; reflexivity).
  assert (E3 : s_err s3 = false) by (destruct (check_watches_top s2) as (_ & E & _); fold s3 in E; congruence).
  rewrite add_log_log, E3 in Hin. destruct Hin as [<-|Hin]; [exact I|].
  (* the fire entries *)
  unfold s3, check_watches in Hin. simpl in Hin.
  set (fired := filter (watch_changed (s_circ s2)) (s_watches s2)) in *.
  assert (G : forall l st, (forall w, In w l -> watch_changed (s_circ s2) w = true) -> s_err st = false ->
              (forall x, In x (s_log st) -> entry_ok x) ->
              forall x, In x (s_log (fold_left (fun st w => push_event (watch_event s2 w)
                (add_log (LFire (w_pid w) (w_refs w) (map (fun x => circ_read x (s_circ s2)) (w_mask w))) st)) l st)) -> entry_ok x).
  { induction l as [|w r IH]; intros st Hl Es Hs x Hx; simpl in Hx; [apply Hs; exact Hx|].
    eapply IH; [intros w' Hw'; apply Hl; right; exact Hw' | | | exact Hx].
    - simpl. rewrite add_log_err. exact Es.
    - intros y Hy. simpl in Hy. rewrite add_log_log, Es in Hy. destruct Hy as [<-|Hy]; [|apply Hs; exact Hy].
      simpl. apply watch_changed_changed. apply Hl. left; reflexivity. }
  eapply (G fired s2); [| exact E2 | | exact Hin].
  - intros w Hw. unfold fired in Hw. apply filter_In in Hw. tauto.
  - intros x Hx. rewrite L2 in Hx. destruct Hx as [<-|Hx]; [exact I | apply Ho; exact Hx].
Qed.

Lemma check_watches_other : forall s k,
  s_nextid (check_watches s) = s_nextid s /\ get_await k (check_watches s) = get_await k s.
Proof.
  intros s k. unfold check_watches.
  assert (G : forall l st, let st' := fold_left (fun st w => push_event (watch_event s w)
                (add_log (LFire (w_pid w) (w_refs w) (map (fun x => circ_read x (s_circ s)) (w_mask w))) st)) l st in
              s_nextid st' = s_nextid st /\ get_await k st' = get_await k st).
  { induction l as [|w r IHl]; intro st; simpl; [split; reflexivity|].
    destruct (IHl (push_event (watch_event s w) (add_log (LFire (w_pid w) (w_refs w) (map (fun x => circ_read x (s_circ s)) (w_mask w))) st))) as (N & A).
    cbv zeta in N, A. rewrite N, A.
    destruct (add_log_bk (LFire (w_pid w) (w_refs w) (map (fun x => circ_read x (s_circ s)) (w_mask w))) st) as (_ & Aa & Bb & _ & Nn & _).
    split; [exact Nn | destruct k; assumption]. }
  destruct (G (filter (watch_changed (s_circ s)) (s_watches s)) s) as (N & A). cbv zeta in N, A.
  split; [exact N | destruct k; exact A].
Qed.

Lemma micro_end_other : forall s k,
  s_nextid (micro_end s) = s_nextid s /\ get_await k (micro_end s) = get_await k s.
Proof.
  intros s k. unfold micro_end.
  set (s3 := check_watches (reevaluate s)).
  destruct (check_watches_other (reevaluate s) k) as (N3 & A3). fold s3 in N3, A3.
  destruct (reevaluate_bk s) as (_ & Aa & Bb & _ & Nn & _).
  destruct (add_log_bk (LMicro (s_now s3) (s_phase s3) (s_mt s3)) s3) as (_ & Aa4 & Bb4 & _ & Nn4 & _).
  split.
  - change (s_nextid (add_log (LMicro (s_now s3) (s_phase s3) (s_mt s3)) s3) = s_nextid s). congruence.
  - destruct k; cbn [get_await set_mt s_await_a s_await_b] in *; congruence.
Qed.

Lemma reach_inv2 : forall c, reach c -> inv2 (fst c).
Proof.
  induction 1 as [|c c' R IH T]; [exact boot_inv2|].
  pose proof IH as IH0. destruct IH as [Ic Ib Iev Itk Ilg Iaw].
  inv_tstep T; cbn [fst] in *.
  - (* process step *)
    pose proof (step_frame_spec _ _ _ _ _ Hsf) as F.
    pose proof (step_frame_ctl cfg f s) as C. rewrite Hsf in C. cbn [snd] in C. destruct C as (C1 & C2 & C3 & C4).
    assert (Tk : forall pid w g, In (TWake pid w g) (s_ready s') -> wake_ok (s_now s') (s_phase s') w g).
    { intros pid w g Hin. destruct (frame_step_ready cfg f s s' _ F Hin) as [Hin'|B].
      - rewrite C1, C2. eapply Itk; exact Hin'.
      - destruct B as [(p & n & E)|[(p & k & g' & E)|(p & E)]]; inversion E; subst; exact I. }
    assert (Lg : forall e, In e (s_log s') -> entry_ok e) by (apply (frame_step_log_ok f s s' F Hh); exact Ilg).
    destruct (frame_step_bk cfg f s s' F) as [Q A B W N Cq|pid q Q A B W N Cq|pid c ph Q A B W N Cq|pid m Q A B W N Cq|pid Q A B W N Cq|pid xi ph Q A B W N Cq].
    + constructor; try assumption.
      * intro i. rewrite (cnt_same i s s') by assumption. apply Ic.
      * intros i H. rewrite N. apply Ib. rewrite <- (cnt_same i s s') by assumption. exact H.
      * rewrite Q. exact Iev.
      * intros k a Ha. apply (Iaw k). destruct k; simpl in *; congruence.
    + (* WaitFor *)
      destruct (inv2_fresh s s' Ic Ib) as (Ic' & Ib'); [|exact N|].
      { intro i. unfold cnt. rewrite Q, A, B, W, qcnt_insert, qcnt_cons. simpl. lia. }
      constructor; try assumption.
      * intros e He Ty. rewrite Q in He. apply q_insert_in in He. destruct He as [->|He]; [|apply Iev; assumption].
        split; [reflexivity|]. simpl. split; [|reflexivity]. unfold tadd. rewrite Qred_correct. reflexivity.
      * intros k a Ha. apply (Iaw k). destruct k; simpl in *; congruence.
    + (* WaitClock *)
      destruct (inv2_fresh s s' Ic Ib) as (Ic' & Ib'); [|exact N|].
      { intro i. rewrite !get_await_cnt, Q, W.
        destruct (eff_clk cfg c) eqn:Ec.
        - rewrite A, (B CB) by discriminate. rewrite acnt_app, acnt_one. simpl. lia.
        - rewrite A, (B CA) by discriminate. rewrite acnt_app, acnt_one. simpl. lia. }
      constructor; try assumption.
      * rewrite Q. exact Iev.
      * intros k a Ha. destruct (clk_eqb k (eff_clk cfg c)) eqn:Ek.
        -- assert (k = eff_clk cfg c) by (destruct k, (eff_clk cfg c); try discriminate; reflexivity). subst k.
           rewrite A in Ha. apply in_app_or in Ha. destruct Ha as [Ha|[<-|[]]]; [apply (Iaw _ _ Ha)|].
           eexists _, _. reflexivity.
        -- assert (k <> eff_clk cfg c) by (intro; subst; destruct (eff_clk cfg c); discriminate).
           rewrite (B k) in Ha by assumption. apply (Iaw _ _ Ha).
    + (* WaitChange *)
      destruct (inv2_fresh s s' Ic Ib) as (Ic' & Ib'); [|exact N|].
      { intro i. unfold cnt. rewrite Q, A, B, W, wcnt_app, wcnt_one. simpl. lia. }
      constructor; try assumption.
      * rewrite Q. exact Iev.
      * intros k a Ha. apply (Iaw k). destruct k; simpl in *; congruence.
    + constructor; try assumption.
      * intro i. rewrite (cnt_same i s s') by assumption. apply Ic.
      * intros i H. rewrite N. apply Ib. rewrite <- (cnt_same i s s') by assumption. exact H.
      * rewrite Q. exact Iev.
      * intros k a Ha. apply (Iaw k). destruct k; simpl in *; congruence.
    + (* WaitClock on a register-less clock: a fresh id enters the queue *)
      destruct (inv2_fresh s s' Ic Ib) as (Ic' & Ib'); [|exact N|].
      { intro i. unfold cnt. rewrite Q, A, B, W, qcnt_insert, qcnt_cons. simpl. lia. }
      constructor; try assumption.
      * intros e He Ty. rewrite Q in He. apply q_insert_in in He. destruct He as [->|He]; [|apply Iev; assumption].
        split; [reflexivity | exact I].
      * intros k a Ha. apply (Iaw k). destruct k; simpl in *; congruence.
  - (* task *)
    pose proof (task_head_bk t (set_ready r s)) as B. rewrite Hth in B. cbn [snd] in B.
    pose proof (task_head_ctl t (set_ready r s)) as C. rewrite Hth in C. cbn [snd] in C. destruct C as (C1 & C2 & _).
    apply (inv2_simple s s' IH0); [apply same_bk_ids; exact B| |].
    + intros pid w g Hin.
      assert (Hin' : In (TWake pid w g) (s_ready (snd (task_head t (set_ready r s))))) by (rewrite Hth; exact Hin).
      apply task_head_ready in Hin'. rewrite C1, C2. destruct Hin' as [Hin'|Bn].
      * apply (Itk pid w g). rewrite Hrd. right. exact Hin'.
      * destruct Bn as [(p & n & E)|[(p & k & g' & E)|(p & E)]]; inversion E; subst; exact I.
    + (* the only place where AWake entries are written *)
      intros e He.
      assert (E' : s' = snd (task_head t (set_ready r s))) by (rewrite Hth; reflexivity).
      destruct t as [pid|pid w g|pid n].
      * simpl in E'. subst s'. apply Ilg. exact He.
      * assert (L : s_log s' = s_log (log_wake pid w g (set_ready r s))).
        { subst s'. simpl. destruct (p_fiber _); reflexivity. }
        rewrite L in He. clear L E'.
        assert (Ok : wake_ok (s_now s) (s_phase s) w g) by (apply (Itk pid w g); rewrite Hrd; left; reflexivity).
        assert (He0 : s_err (set_ready r s) = false) by (apply halted_false_err; exact Hh).
        unfold log_wake in He.
        assert (L1 : forall x, In x (s_log (log_proc pid (AWake w g) (set_ready r s))) -> entry_ok x).
        { intros x Hx. rewrite log_proc_log in Hx by exact He0. destruct Hx as [<-|Hx]; [exact Ok | apply Ilg; exact Hx]. }
        destruct w; try (apply L1; exact He).
        unfold log_watch in He. rewrite log_proc_log in He by (rewrite log_proc_err; exact He0).
        destruct He as [<-|He]; [exact I | apply L1; exact He].
      * assert (L : s_log s' = s_log s).
        { subst s'. destruct n; simpl; [reflexivity|]. destruct (p_script _); reflexivity. }
        rewrite L in He. apply Ilg. exact He.
  - (* event *)
    destruct (pop_event_queue s e s1 Hpop) as (e2 & rr & Qc & A1 & B1 & W1 & N1 & _).
    destruct (pop_event_top _ _ _ Hpop) as (((P1 & P2 & P3 & P4) & PE & PO & PR) & PL).
    destruct (pop_event_stamp s e s1 Hpop Htm) as (St1 & St2 & St3).
    assert (Qin : forall x, In x (s_queue s) <-> x = e \/ In x (s_queue s1)).
    { intro x. destruct Qc as [Q|(Q & Q1 & _)]; rewrite Q; [|rewrite Q1]; simpl; intuition auto. }
    assert (C1 : forall i, cnt i s = one (is_resume e && N.eqb (e_id e) i) + cnt i s1).
    { intro i. unfold cnt. rewrite (pop_event_qcnt s e s1 i Hpop), A1, B1, W1. lia. }
    assert (Ev1 : forall x, In x (s_queue s1) -> e_type x = SimProcResume ->
               g_id (e_g x) = e_id x /\ wake_ok (e_time x) (e_phase x) (e_why x) (e_g x)).
    { intros x Hx Tx. apply Iev; [apply Qin; right; exact Hx | exact Tx]. }
    assert (Aw1 : forall k a, In a (get_await k s1) -> exists c ph, aw_why a = WkClk c ph).
    { intros k a Ha. apply (Iaw k). destruct k; simpl in *; congruence. }
    assert (Lg1 : forall x, In x (s_log s1) -> entry_ok x) by (intros x Hx; apply Ilg; rewrite <- PL; exact Hx).
    unfold event_head. destruct (e_type e) eqn:Ty.
    + (* trigger: awaiters move into the queue *)
      assert (Fe : is_resume e = false) by (unfold is_resume; rewrite Ty; reflexivity).
      destruct (handle_trigger_top cfg e s1) as ((T1 & T2 & _) & TE & _ & TR).
      constructor.
      * intro i. rewrite handle_trigger_cnt by exact Fe. specialize (C1 i). specialize (Ic i). lia.
      * intros i H. rewrite handle_trigger_cnt in H by exact Fe.
        assert (N2 : s_nextid (handle_trigger cfg e s1) = s_nextid s1).
        { unfold handle_trigger. simpl.
          set (s0 := add_log (LTrigger (e_time e) (e_pin e) (e_rising e)) s1).
          assert (W0 : s_nextid s0 = s_nextid s1) by apply add_log_bk.
          destruct (e_rising e); [|exact W0].
          assert (Q1 : forall x, s_nextid (set_await (e_pin e) [] x) = s_nextid x) by (intro x; destruct (e_pin e); reflexivity).
          rewrite Q1. destruct (fold_push_other (awaiter_event e) (get_await (e_pin e) s0) s0) as (_ & _ & _ & L & _). rewrite L. exact W0. }
        rewrite N2, N1. apply Ib. specialize (C1 i). lia.
      * intros x Hx Tx. apply handle_trigger_queue in Hx.
        destruct Hx as [Hx|[->|[->|(Hr & Hx)]]]; try discriminate Tx.
        -- apply Ev1; assumption.
        -- apply in_map_iff in Hx. destruct Hx as (a & <- & Ha). split; [reflexivity|].
           destruct (Aw1 _ _ Ha) as (c & ph & Hw). simpl. rewrite Hw. exact I.
      * intros pid w g Hin. rewrite TR, PR, Hrd in Hin. destruct Hin.
      * intros x Hx. unfold handle_trigger in Hx. simpl in Hx.
        set (s0 := add_log (LTrigger (e_time e) (e_pin e) (e_rising e)) s1) in *.
        assert (L0 : forall y, In y (s_log s0) -> entry_ok y).
        { intros y Hy. unfold s0 in Hy. rewrite add_log_log in Hy. destruct (s_err s1); [|destruct Hy as [<-|Hy]; [exact I|]]; apply Lg1; exact Hy. }
        destruct (e_rising e); [|apply L0; exact Hx].
        assert (Q1 : forall st, s_log (set_await (e_pin e) [] st) = s_log st) by (intro st; destruct (e_pin e); reflexivity).
        rewrite Q1 in Hx. destruct (fold_push_other (awaiter_event e) (get_await (e_pin e) s0) s0) as (_ & _ & _ & _ & _ & _ & L & _).
        rewrite L in Hx. apply L0; exact Hx.
      * intros k a Ha. unfold handle_trigger in Ha.
        set (s0 := add_log (LTrigger (e_time e) (e_pin e) (e_rising e)) s1) in *.
        assert (A0 : forall k', get_await k' s0 = get_await k' s1).
        { intro k'. destruct (add_log_bk (LTrigger (e_time e) (e_pin e) (e_rising e)) s1) as (_ & Aa & Bb & _). destruct k'; assumption. }
        assert (PA : forall x st k', get_await k' (push_event x st) = get_await k' st) by (intros x st k'; destruct k'; reflexivity).
        rewrite !PA in Ha.
        destruct (e_rising e); [|rewrite A0 in Ha; apply (Aw1 _ _ Ha)].
        destruct (fold_push_other (awaiter_event e) (get_await (e_pin e) s0) s0) as (La & Lb & _).
        destruct k, (e_pin e); cbn [get_await set_await s_await_a s_await_b] in Ha, La, Lb; try (destruct Ha; fail);
          rewrite ?La, ?Lb in Ha; [apply (Aw1 CA) | apply (Aw1 CB)]; rewrite <- A0; exact Ha.
    + (* resumption *)
      constructor.
      * intro i. assert (E : cnt i (enqueue (TWake (e_pid e) (e_why e) (e_g e)) s1) = cnt i s1) by reflexivity.
        rewrite E. specialize (C1 i). specialize (Ic i). lia.
      * intros i H. assert (E : cnt i (enqueue (TWake (e_pid e) (e_why e) (e_g e)) s1) = cnt i s1) by reflexivity.
        rewrite E in H. simpl. rewrite N1. apply Ib. specialize (C1 i). lia.
      * exact Ev1.
      * intros pid w g Hin. simpl in Hin. rewrite PR, Hrd in Hin. destruct Hin as [Hin|[]]. inversion Hin; subst.
        destruct (Iev e (proj2 (Qin e) (or_introl eq_refl)) Ty) as (_ & Ok).
        simpl. rewrite P1, P2. rewrite <- St2. eapply wake_ok_time; [exact St1 | exact Ok].
      * exact Lg1.
      * exact Aw1.
    + (* value change *)
      destruct (handle_value_change_bk cfg e s1) as (Q2 & A2 & B2 & W2 & N2 & _).
      destruct (handle_value_change_top cfg e s1) as ((T1 & T2 & _) & TE & _ & TR).
      constructor.
      * intro i. rewrite (cnt_same i s1 _) by assumption. specialize (C1 i). specialize (Ic i). lia.
      * intros i H. rewrite (cnt_same i s1 _) in H by assumption. rewrite N2, N1. apply Ib. specialize (C1 i). lia.
      * rewrite Q2. exact Ev1.
      * intros pid w g Hin. rewrite TR, PR, Hrd in Hin. destruct Hin.
      * intros x Hx. unfold handle_value_change in Hx. rewrite add_log_log in Hx.
        destruct (e_rising e); simpl in Hx; (destruct (s_err s1); [|destruct Hx as [<-|Hx]; [exact I|]]); apply Lg1; exact Hx.
      * intros k a Ha. apply (Aw1 k). destruct k; simpl in *; congruence.
    + constructor.
      * intro i. specialize (C1 i). specialize (Ic i). lia.
      * intros i H. rewrite N1. apply Ib. specialize (C1 i). lia.
      * exact Ev1.
      * intros pid w g Hin. rewrite PR, Hrd in Hin. destruct Hin.
      * exact Lg1.
      * exact Aw1.
  - (* end of a micro tick: watches fire *)
    destruct (micro_end_fields s) as (M1 & M2 & M3 & M4 & M5 & M6).
    constructor.
    + intro i. rewrite micro_end_cnt. apply Ic.
    + intros i H. rewrite micro_end_cnt in H.
      destruct (micro_end_other s CA) as (N2 & _).
      rewrite N2. apply Ib. exact H.
    + intros x Hx Tx. apply micro_end_queue in Hx. destruct Hx as [Hx|Hx]; [apply Iev; assumption|].
      apply in_map_iff in Hx. destruct Hx as (w & <- & Hw). apply filter_In in Hw. destruct Hw as [_ Hw].
      split; [reflexivity|]. simpl. split; [|reflexivity]. apply watch_changed_changed. exact Hw.
    + intros pid w g Hin. rewrite M4, Hrd in Hin. destruct Hin.
    + apply micro_end_log_ok; [apply halted_false_err; exact Hh | exact Ilg].
    + intros k a Ha. apply (Iaw k).
      destruct (micro_end_other s k) as (_ & E).
      rewrite <- E. exact Ha.
  - (* phase begin *)
    destruct (phase_begin_fields ph s) as (F1 & F2 & F3 & F4 & _).
    apply (inv2_simple s _ IH0 (same_bk_ids _ _ (phase_begin_bk ph s))).
    + intros pid w g Hin. rewrite F4, Hrd in Hin. destruct Hin.
    + intros x Hx. unfold phase_begin in Hx. rewrite add_log_log in Hx. simpl in Hx.
      destruct (s_err s); [|destruct Hx as [<-|Hx]; [exact I|]]; apply Ilg; exact Hx.
  - apply (inv2_simple s _ IH0); [repeat split | | exact Ilg].
    intros pid w g Hin. simpl in Hin. rewrite Hrd in Hin. destruct Hin.
  - apply (inv2_simple s _ IH0); [repeat split | | exact Ilg].
    intros pid' w g Hin. simpl in Hin. rewrite Hrd in Hin. destruct Hin as [Hin|[]]. inversion Hin; subst. exact I.
  - apply (inv2_simple s _ IH0 (same_bk_ids _ _ (commit_end_bk s))).
    + intros pid w g Hin. unfold commit_end in Hin. simpl in Hin. rewrite add_log_ready, Hrd in Hin. destruct Hin.
    + intros x Hx. unfold commit_end in Hx. simpl in Hx. rewrite add_log_log in Hx.
      destruct (s_err s); [|destruct Hx as [<-|Hx]; [exact I|]]; apply Ilg; exact Hx.
  - apply (inv2_simple s _ IH0); [repeat split | | exact Ilg].
    intros pid w g Hin. simpl in Hin. rewrite Hrd in Hin. destruct Hin.
  - apply (inv2_simple s _ IH0); [repeat split | | exact Ilg].
    intros pid w g Hin. simpl in Hin. rewrite Hrd in Hin. destruct Hin.
  - apply (inv2_simple s _ IH0); [repeat split | exact Itk | exact Ilg].
  - apply (inv2_simple s _ IH0); [repeat split | | exact Ilg].
    intros pid' w g Hin. simpl in Hin. rewrite Hrd in Hin. destruct Hin as [Hin|[]]. discriminate.
  - pose proof (fiber_start_bk pid s) as B. rewrite Hfs in B. cbn [snd] in B.
    apply (inv2_simple s _ IH0 (same_bk_ids _ _ B)).
    + intros pid' w g Hin. unfold fiber_start in Hfs.
      assert (E' : s' = snd (fiber_continue pid (log_proc pid AStart s))) by (rewrite Hfs; reflexivity).
      pose proof (fiber_continue_cont pid (log_proc pid AStart s)) as Cs. rewrite <- E' in Cs.
      destruct (cont_states_ready _ _ _ _ Cs Hin) as [Hin'|Bn].
      * unfold log_proc in Hin'. rewrite add_log_ready, Hrd in Hin'. destruct Hin'.
      * destruct Bn as [(p & n & E)|[(p & k & g' & E)|(p & E)]]; inversion E; subst; exact I.
    + intros x Hx. unfold fiber_start in Hfs.
      assert (E' : s' = snd (fiber_continue pid (log_proc pid AStart s))) by (rewrite Hfs; reflexivity).
      pose proof (fiber_continue_cont pid (log_proc pid AStart s)) as Cs. rewrite <- E' in Cs.
      destruct (cont_states_lg _ _ _ Cs) as (L & _). rewrite L in Hx.
      rewrite log_proc_log in Hx by (apply halted_false_err; exact Hh). destruct Hx as [<-|Hx]; [exact I | apply Ilg; exact Hx].
  - apply (inv2_simple s _ IH0 (same_bk_ids _ _ (reevaluate_bk s))).
    + intros pid w g Hin. destruct (reevaluate_top s) as (_ & _ & _ & Rr). rewrite Rr, Hrd in Hin. destruct Hin.
    + intros x Hx. unfold reevaluate in Hx. rewrite add_log_log in Hx. simpl in Hx.
      destruct (s_err s); [|destruct Hx as [<-|Hx]; [exact I|]]; apply Ilg; exact Hx.
Qed.

End Inv.

(* ------------------------------------------------------------------------- *)
(** * Consequences for complete runs *)

Lemma run_inv2 : forall cfg procs fiber until tb fuel, inv2 (run cfg procs fiber until tb fuel).
Proof.
  intros. destruct (run_reachable cfg procs fiber until tb fuel) as (stk & R).
  exact (reach_inv2 cfg procs fiber tb _ R).
Qed.

Lemma simulate_log_in : forall cfg procs fiber until tb fuel e,
  In e (res_log (simulate cfg procs fiber until tb fuel)) <-> In e (s_log (run cfg procs fiber until tb fuel)).
Proof. intros. unfold simulate. simpl. rewrite <- in_rev. tauto. Qed.

Lemma waitfor_exact_proof : forall cfg procs fiber until tb fuel t ph mt ro pid q g,
  In (LProc t ph mt ro pid (AWake (WkFor q) g)) (res_log (simulate cfg procs fiber until tb fuel)) ->
  (t == g_t0 g + uQ q)%Q /\ ph = AFTER.
Proof.
  intros cfg procs fiber upto tb fuel t ph mt ro pid q g H. apply simulate_log_in in H.
  exact (i2_log _ (run_inv2 _ _ _ _ _ _) _ H).
Qed.

Lemma waitchange_only_on_change_proof : forall cfg procs fiber until tb fuel,
  (forall t ph mt ro pid m g,
     In (LProc t ph mt ro pid (AWake (WkChange m) g)) (res_log (simulate cfg procs fiber until tb fuel)) ->
     changed (g_refs g) (g_cur g) /\ ph = AFTER) /\
  (forall pid refs cur, In (LFire pid refs cur) (res_log (simulate cfg procs fiber until tb fuel)) -> changed refs cur).
Proof.
  intros. split.
  - intros t ph mt ro pid m g H. apply simulate_log_in in H. exact (i2_log _ (run_inv2 _ _ _ _ _ _) _ H).
  - intros pid refs cur H. apply simulate_log_in in H. exact (i2_log _ (run_inv2 _ _ _ _ _ _) _ H).
Qed.

Lemma changed_differs : forall refs cur, changed refs cur -> length refs = length cur -> refs <> cur.
Proof.
  intros refs cur H L E. subst cur. unfold changed in H.
  assert (forallb (fun p : val * val => val_eqb (fst p) (snd p)) (combine refs refs) = true).
  { clear. induction refs as [|x r IH]; [reflexivity|]. simpl. rewrite IH.
    destruct x as [v|]; simpl; [rewrite N.eqb_refl|]; reflexivity. }
  congruence.
Qed.

Lemma qcnt_two : forall i l1 a l2 b l3,
  e_type a = SimProcResume -> e_type b = SimProcResume -> e_id a = i -> e_id b = i ->
  2 <= qcnt i (l1 ++ a :: l2 ++ b :: l3).
Proof.
  intros i l1 a l2 b l3 Ra Rb Ia Ib.
  assert (App : forall x y, qcnt i (x ++ y) = qcnt i x + qcnt i y).
  { intros x y. unfold qcnt. rewrite filter_app, map_app, count_occ_app. reflexivity. }
  rewrite App, qcnt_cons, App, qcnt_cons. unfold is_resume. rewrite Ra, Rb. simpl.
  rewrite (proj2 (N.eqb_eq _ _) Ia), (proj2 (N.eqb_eq _ _) Ib). simpl. lia.
Qed.

(* In every reachable state: the queue is sorted, so that among the queued resumptions of one instant
   (time, phase, micro tick) the one with the smaller insertion id stands in front and is served first. *)
Lemma same_instant_fifo_proof : forall cfg procs fiber tb s stk,
  treach cfg (boot cfg procs fiber tb, []) (s, stk) ->
  forall l1 a l2 b l3, s_queue s = l1 ++ a :: l2 ++ b :: l3 ->
    e_type a = SimProcResume -> e_type b = SimProcResume -> stamp_eq a b -> (e_id a < e_id b)%N.
Proof.
  intros cfg procs fiber tb s stk R l1 a l2 b l3 Q Ra Rb St.
  pose proof (reach_sorted cfg procs fiber tb _ R) as S. cbn [fst] in S.
  pose proof (reach_inv2 cfg procs fiber tb _ R) as I2. cbn [fst] in I2.
  rewrite Q in S. eapply sorted_same_instant_fifo; try eassumption.
  intro E. pose proof (qcnt_two (e_id a) l1 a l2 b l3 Ra Rb eq_refl (eq_sym E)) as H2.
  pose proof (i2_cnt _ I2 (e_id a)) as H1. unfold cnt in H1. rewrite Q in H1. lia.
Qed.

(* which event is taken out of the queue: nothing that remains would have to be served before it; it is the
   head, except that of two equivalent clockPinTrigger events at the head either may be taken *)
Lemma pop_serves_first_proof : forall cfg procs fiber tb s stk e s1,
  treach cfg (boot cfg procs fiber tb, []) (s, stk) -> pop_event s = Some (e, s1) ->
  (forall x, In x (s_queue s1) -> ~ klt x e) /\
  (exists q, s_queue s = e :: q \/ exists e2 r, s_queue s = e2 :: e :: r /\ incomparable e2 e
                                   /\ e_type e2 = ClockPinTrigger /\ e_type e = ClockPinTrigger).
Proof.
  intros cfg procs fiber tb s stk e s1 R P.
  pose proof (reach_sorted cfg procs fiber tb _ R) as S. cbn [fst] in S.
  destruct (pop_event_sorted s e s1 P S) as (_ & H & _). split; [exact H|].
  destruct (pop_event_queue s e s1 P) as (e2 & r & [Q|(Q & Q1 & Eq & T2 & T1)] & _).
  - exists (s_queue s1). left. exact Q.
  - exists []. right. exists e2, r. repeat split; try assumption;
      unfold equivalent in Eq; apply andb_prop in Eq; destruct Eq as [E1 E2]; apply negb_true_iff in E1, E2;
      apply ev_less_false_klt; assumption.
Qed.
