(* C19 -- invariants, part 5: the phase order within an instant.
   - Everything a process does in phase BEFORE or DURING of time t happens before any register advances at t.
   - A process resumed by WaitClock(c, AFTER) at t runs after the registers of c have advanced at t. *)
From Coq Require Import List NArith ZArith QArith Qreduction Bool Lia.
From Gatery Require Import SimProcDefs SimProcOrder SimProcSteps SimProcInv1 SimProcInv2 SimProcInv3 SimProcInv4.
Import ListNotations.
Local Close Scope Q_scope.

Definition is_vc (k : clk) (t : Q) (e : event) : Prop :=
  e_type e = ClockValueChange /\ e_pin e = k /\ e_rising e = true /\ (e_time e == t)%Q.

(* the registers of clock pin k have advanced at time t *)
Definition edge_logged (k : clk) (t : Q) (l : list entry) : Prop :=
  exists t' ra ra2 rb, In (LEdge t' k true ra ra2 rb) l /\ (t' == t)%Q.
(* some clock flank has been served at time t *)
Definition edge_at (t : Q) (l : list entry) : Prop :=
  exists t' k r a b c, In (LEdge t' k r a b c) l /\ (t' == t)%Q.

Definition local_ok (cfg : config) (old : list entry) (e : entry) : Prop :=
  match e with
  | LProc t ph _ _ _ a =>
    (ph <> AFTER -> ~ edge_at t old) /\
    match a with
    | AWake (WkClk c AFTER) _ => edge_logged (eff_clk cfg c) t old
    | _ => True
    end
  | _ => True
  end.

Fixpoint log_ok4 (cfg : config) (l : list entry) : Prop :=
  match l with
  | [] => True
  | e :: old => log_ok4 cfg old /\ local_ok cfg old e
  end.

Definition no_edge (e : entry) : Prop := forall t k r a b c, e <> LEdge t k r a b c.

Lemma edge_at_app : forall t new l, Forall no_edge new -> (edge_at t (new ++ l) <-> edge_at t l).
Proof.
  intros t new l F. split.
  - intros (t' & k & r & a & b & c & Hin & E). apply in_app_or in Hin. destruct Hin as [Hin|Hin].
    + exfalso. exact (proj1 (Forall_forall _ _) F _ Hin t' k r a b c eq_refl).
    + exists t', k, r, a, b, c. split; assumption.
  - intros (t' & k & r & a & b & c & Hin & E). exists t', k, r, a, b, c. split; [apply in_or_app; right; exact Hin | exact E].
Qed.
Lemma edge_logged_mono : forall k t new l, edge_logged k t l -> edge_logged k t (new ++ l).
Proof. intros k t new l (t' & a & b & c & Hin & E). exists t', a, b, c. split; [apply in_or_app; right; exact Hin | exact E]. Qed.
Lemma edge_logged_app : forall k t new l, Forall no_edge new -> edge_logged k t (new ++ l) -> edge_logged k t l.
Proof.
  intros k t new l F (t' & a & b & c & Hin & E). apply in_app_or in Hin. destruct Hin as [Hin|Hin].
  - exfalso. exact (proj1 (Forall_forall _ _) F _ Hin t' k true a b c eq_refl).
  - exists t', a, b, c. split; assumption.
Qed.

Lemma log_ok4_app : forall cfg new l, log_ok4 cfg l -> Forall no_edge new -> Forall (local_ok cfg l) new -> log_ok4 cfg (new ++ l).
Proof.
  intros cfg new l Ho Fe Fl. induction new as [|e r IH]; [exact Ho|].
  inversion Fe as [|? ? Ne Fe']; subst. inversion Fl as [|? ? Le Fl']; subst.
  simpl. split; [apply IH; assumption|].
  unfold local_ok in *. destruct e; try exact I. destruct Le as (L1 & L2). split.
  - intros Hp Ea. apply L1; [exact Hp|]. apply (edge_at_app t r l Fe'). exact Ea.
  - destruct a; try exact I. destruct w; try exact I. destruct ph0; try exact I. apply edge_logged_mono. exact L2.
Qed.

Record inv5 (cfg : config) (c : conf) : Prop := mk_inv5 {
  i5_comp : forall e cl, In e (s_queue (fst c)) -> e_type e = SimProcResume -> e_why e = WkClk cl AFTER ->
              (exists vc, In vc (s_queue (fst c)) /\ is_vc (eff_clk cfg cl) (e_time e) vc)
              \/ edge_logged (eff_clk cfg cl) (e_time e) (s_log (fst c));
  i5_task : forall pid cl g, In (TWake pid (WkClk cl AFTER) g) (s_ready (fst c)) ->
              edge_logged (eff_clk cfg cl) (s_now (fst c)) (s_log (fst c));
  i5_peq : edge_at (s_now (fst c)) (s_log (fst c)) ->
             forall e, In e (s_queue (fst c)) -> (e_time e == s_now (fst c))%Q -> e_type e = ClockValueChange \/ e_phase e = AFTER;
  i5_pes : edge_at (s_now (fst c)) (s_log (fst c)) -> s_phase (fst c) <> AFTER -> s_ready (fst c) = [] /\ snd c = [];
  i5_log : log_ok4 cfg (s_log (fst c))
}.

(* entries logged by a process step / task head *)
Lemma effect_new : forall aw s s', effect aw s s' ->
  exists new, s_log s' = new ++ s_log s /\
    Forall (fun e => e = LErr \/ exists pid a, e = stamped s pid a /\ (aw = false -> forall w g, a <> AWake w g)) new.
Proof.
  intros aw s s' Ef. destruct Ef as [new L _ _ Fa | pid x L _ _ | pid p v L _ _ | pid p v L _].
  - exists new. split; [exact L|]. eapply Forall_impl; [|exact Fa]. intros e (pid & a & -> & _ & Aw). right. eexists _, _. split; [reflexivity | exact Aw].
  - eexists [_]. split; [exact L|]. constructor; [|constructor]. right. eexists _, _. split; [reflexivity | intros; discriminate].
  - eexists [_]. split; [exact L|]. constructor; [|constructor]. right. eexists _, _. split; [reflexivity | intros; discriminate].
  - eexists [_; _]. split; [exact L|]. constructor; [left; reflexivity|]. constructor; [|constructor].
    right. eexists _, _. split; [reflexivity | intros; discriminate].
Qed.

Lemma new_no_edge : forall aw s new,
  Forall (fun e => e = LErr \/ exists pid a, e = stamped s pid a /\ (aw = false -> forall w g, a <> AWake w g)) new -> Forall no_edge new.
Proof.
  intros aw s new F. eapply Forall_impl; [|exact F]. intros e [->|(pid & a & -> & _)]; intros t k r x y z; discriminate.
Qed.

Lemma log_wake_log_exact : forall pid w g s, s_err s = false ->
  exists pre, s_log (log_wake pid w g s) = pre ++ stamped s pid (AWake w g) :: s_log s /\
              Forall (fun e => exists t ph mt ro p vs, e = LProc t ph mt ro p (AWatch vs)) pre.
Proof.
  intros pid w g s He. unfold log_wake.
  assert (L1 : s_log (log_proc pid (AWake w g) s) = stamped s pid (AWake w g) :: s_log s) by (apply log_proc_log; exact He).
  destruct w; try (exists []; split; [exact L1 | constructor]).
  unfold log_watch. rewrite log_proc_log by (rewrite log_proc_err; exact He). rewrite L1.
  eexists [_]. split; [reflexivity|]. constructor; [eexists _, _, _, _, _, _; reflexivity | constructor].
Qed.

Lemma task_head_awake : forall t s stk s' new tt ph mt ro pid w g,
  task_head t s = (stk, s') -> halted s = false -> s_log s' = new ++ s_log s ->
  In (LProc tt ph mt ro pid (AWake w g)) new -> t = TWake pid w g.
Proof.
  intros t s stk s' new tt ph mt ro pid w g E H L Hin.
  pose proof (halted_false_err s H) as He.
  assert (E' : s' = snd (task_head t s)) by (rewrite E; reflexivity). clear E.
  assert (Nil : s_log s' = s_log s -> False).
  { intro X. rewrite X in L. assert (new = []) by (destruct new; [reflexivity|]; exfalso; apply (f_equal (@length entry)) in L; simpl in L; rewrite app_length in L; lia).
    subst new. destruct Hin. }
  destruct t as [pid0|pid0 w0 g0|pid0 n0].
  - exfalso. apply Nil. subst s'. reflexivity.
  - assert (Lw : s_log s' = s_log (log_wake pid0 w0 g0 s)) by (subst s'; simpl; destruct (p_fiber _); reflexivity).
    destruct (log_wake_log_exact pid0 w0 g0 s He) as (pre & Lx & Fp).
    rewrite Lw, Lx in L.
    change (pre ++ stamped s pid0 (AWake w0 g0) :: s_log s) with (pre ++ [stamped s pid0 (AWake w0 g0)] ++ s_log s) in L.
    rewrite app_assoc in L. apply app_inv_tail in L. subst new.
    apply in_app_or in Hin. destruct Hin as [Hin|[Hin|[]]].
    + exfalso. destruct (proj1 (Forall_forall _ _) Fp _ Hin) as (a & b & c & d & e & f & X). discriminate.
    + inversion Hin; subst. reflexivity.
  - exfalso. apply Nil. subst s'. destruct n0; simpl; [reflexivity|]. destruct (p_script _); reflexivity.
Qed.

Section Inv.
Variable cfg : config.
Variables (procs : list script) (fiber : bool) (tb : list bool).
Notation c0 := (boot cfg procs fiber tb, @nil frame).
Notation reach := (treach cfg c0).

Lemma boot_inv5 : inv5 cfg c0.
Proof.
  assert (NoE : forall t, ~ edge_at t (s_log (boot cfg procs fiber tb))).
  { intros t (t' & k & r & a & b & c & Hin & _). unfold boot, reevaluate in Hin. rewrite add_log_log in Hin.
    destruct (c_two cfg); simpl in Hin; destruct Hin as [X|[]]; discriminate. }
  constructor; cbn [fst snd].
  - intros e cl He Ty. apply (boot_queue cfg procs fiber tb) in He. destruct He as [->|[_ ->]]; discriminate.
  - unfold boot. destruct (c_two cfg); intros pid cl g [].
  - intro E. exfalso. exact (NoE _ E).
  - intro E. exfalso. exact (NoE _ E).
  - unfold boot, reevaluate. rewrite add_log_log. destruct (c_two cfg); simpl; exact (conj I I).
Qed.

(* process steps and task heads: the queue may gain a WaitFor resumption, the log gains process entries *)
Lemma inv5_proc : forall aw s stk s' stk',
  inv5 cfg (s, stk) -> effect aw s s' -> same_ctl s s' ->
  (stk <> [] \/ s_ready s <> []) ->
  (forall x, In x (s_queue s') -> In x (s_queue s) \/
     (e_type x = SimProcResume /\ (e_phase x = AFTER \/ (s_now s < e_time x)%Q) /\ forall cl ph, e_why x <> WkClk cl ph)) ->
  (forall x, In x (s_queue s) -> In x (s_queue s')) ->
  (forall pid cl g, In (TWake pid (WkClk cl AFTER) g) (s_ready s') -> In (TWake pid (WkClk cl AFTER) g) (s_ready s)) ->
  (* AWake entries only from the head task *)
  (forall new, s_log s' = new ++ s_log s -> forall t ph mt ro pid cl g, In (LProc t ph mt ro pid (AWake (WkClk cl AFTER) g)) new ->
     edge_logged (eff_clk cfg cl) (s_now s) (s_log s)) ->
  inv5 cfg (s', stk').
Proof.
  intros aw s stk s' stk' [Ic It Iq Is Il] Ef (C1 & C2 & C3 & C4) Busy Qn Qo Rd Aw. cbn [fst snd] in *.
  destruct (effect_new aw s s' Ef) as (new & L & Fn).
  pose proof (new_no_edge aw s new Fn) as Ne.
  assert (NoEdgeNow : s_phase s <> AFTER -> ~ edge_at (s_now s) (s_log s)).
  { intros Hp E. destruct (Is E Hp) as (R0 & S0). destruct Busy; contradiction. }
  constructor; cbn [fst snd].
  - intros e cl He Ty Wy. destruct (Qn e He) as [Ho|(_ & _ & Nw)]; [|exfalso; eapply Nw; exact Wy].
    destruct (Ic e cl Ho Ty Wy) as [(vc & Hv & Iv)|El].
    + left. exists vc. split; [apply Qo; exact Hv | exact Iv].
    + right. rewrite L. apply edge_logged_mono. exact El.
  - intros pid cl g Hin. rewrite L, C1. apply edge_logged_mono. apply (It pid cl g). apply Rd. exact Hin.
  - rewrite L, C1. intros E e He Te. apply (proj1 (edge_at_app _ new _ Ne)) in E.
    destruct (Qn e He) as [Ho|(_ & [Pa|Lt] & _)]; [apply (Iq E e Ho Te) | right; exact Pa |].
    exfalso. rewrite Te in Lt. exact (Qlt_irrefl _ Lt).
  - rewrite L, C1, C2. intros E Hp. apply (proj1 (edge_at_app _ new _ Ne)) in E. exfalso. exact (NoEdgeNow Hp E).
  - rewrite L. apply log_ok4_app; [exact Il | exact Ne |].
    apply Forall_forall. intros e He. pose proof (proj1 (Forall_forall _ _) Fn e He) as [->|(pid & a & -> & Na)]; [exact I|].
    unfold local_ok, stamped. split; [intros Hp; apply NoEdgeNow; exact Hp|].
    destruct a; try exact I. destruct w; try exact I. destruct ph; try exact I.
    eapply Aw; [exact L | exact He].
Qed.

Lemma in_new_awake_false : forall s new,
  Forall (fun e => e = LErr \/ exists pid a, e = stamped s pid a /\ (false = false -> forall w g, a <> AWake w g)) new ->
  forall t ph mt ro pid w g, ~ In (LProc t ph mt ro pid (AWake w g)) new.
Proof.
  intros s new F t ph mt ro pid w g Hin. destruct (proj1 (Forall_forall _ _) F _ Hin) as [X|(pid' & a & E & Na)]; [discriminate|].
  inversion E; subst. eapply Na; reflexivity.
Qed.

Lemma reach_inv5 : forall c, reach c -> inv5 cfg c.
Proof.
  induction 1 as [|c c' R IH T]; [exact boot_inv5|].
  pose proof (reach_sorted cfg procs fiber tb _ R) as Srt.
  pose proof (reach_inv3 cfg procs fiber tb _ R) as I3.
  pose proof (reach_inv4a cfg procs fiber tb _ R) as I4.
  pose proof IH as IH0. destruct IH as [Ic It Iq Is Il].
  inv_tstep T; cbn [fst snd] in *.
  - (* process step *)
    pose proof (step_frame_spec _ _ _ _ _ Hsf) as F.
    pose proof (step_frame_ctl cfg f s) as C. rewrite Hsf in C. cbn [snd] in C.
    pose proof (frame_step_effect cfg f s s' F Hh) as Ef.
    apply (inv5_proc false s (f :: rest) s' (fs ++ rest) IH0 Ef C); [left; discriminate | | | |].
    + intros x Hx. destruct (frame_step_bk cfg f s s' F) as [Q|pid q Q|pid c ph Q|pid m Q|pid Q|pid xi ph Q]; rewrite Q in Hx; try (left; exact Hx).
      * apply q_insert_in in Hx. destruct Hx as [->|Hx]; [right | left; exact Hx].
        split; [reflexivity|]. split; [left; reflexivity | intros; discriminate].
      * apply q_insert_in in Hx. destruct Hx as [->|Hx]; [right | left; exact Hx].
        split; [reflexivity|]. split; [right; simpl; apply next_tick_gt; apply extra_freq_pos | intros; discriminate].
    + intros x Hx. destruct (frame_step_bk cfg f s s' F) as [Q|pid q Q|pid c ph Q|pid m Q|pid Q|pid xi ph Q]; rewrite Q; try exact Hx;
        apply q_insert_in; right; exact Hx.
    + intros pid cl g Hin. destruct (frame_step_ready cfg f s s' _ F Hin) as [Hin'|B]; [exact Hin'|].
      destruct B as [(p & n & E)|[(p & k & g' & E)|(p & E)]]; inversion E.
    + intros new L t ph mt ro pid cl g Hin. exfalso.
      destruct (effect_new false s s' Ef) as (new' & L' & Fn). rewrite L in L'. apply app_inv_tail in L'. subst new'.
      exact (in_new_awake_false s new Fn _ _ _ _ _ _ _ Hin).
  - (* task *)
    pose proof (task_head_ctl t (set_ready r s)) as C. rewrite Hth in C. cbn [snd] in C.
    pose proof (task_head_bk t (set_ready r s)) as B. rewrite Hth in B. cbn [snd] in B. destruct B as (Q & _).
    pose proof (task_head_effect t (set_ready r s) stk s' Hth Hh) as Ef.
    assert (I0 : inv5 cfg (s, [])) by exact IH0.
    (* reason about s with the ready queue shortened: same queue/log/now *)
    destruct (effect_new true (set_ready r s) s' Ef) as (new & L & Fn). cbn [s_log set_ready] in L.
    pose proof (new_no_edge true (set_ready r s) new Fn) as Ne.
    destruct C as (C1 & C2 & C3 & C4). cbn in C1, C2, C3, C4.
    assert (NoEdgeNow : s_phase s <> AFTER -> ~ edge_at (s_now s) (s_log s)).
    { intros Hp E. destruct (Is E Hp) as (R0 & _). rewrite Hrd in R0. discriminate. }
    constructor; cbn [fst snd].
    + rewrite Q. intros e cl He Ty Wy. destruct (Ic e cl He Ty Wy) as [V|El]; [left; exact V | right; rewrite L; apply edge_logged_mono; exact El].
    + intros pid cl g Hin. rewrite L, C1. apply edge_logged_mono. apply (It pid cl g). rewrite Hrd.
      assert (Hin' : In (TWake pid (WkClk cl AFTER) g) (s_ready (snd (task_head t (set_ready r s))))) by (rewrite Hth; exact Hin).
      apply task_head_ready in Hin'. destruct Hin' as [Hin'|Bn]; [right; exact Hin'|].
      destruct Bn as [(p & n & E)|[(p & k & g' & E)|(p & E)]]; inversion E.
    + rewrite L, C1, Q. intros E e He Te. apply (proj1 (edge_at_app _ new _ Ne)) in E. exact (Iq E e He Te).
    + rewrite L, C1, C2. intros E Hp. apply (proj1 (edge_at_app _ new _ Ne)) in E. exfalso. exact (NoEdgeNow Hp E).
    + rewrite L. apply log_ok4_app; [exact Il | exact Ne |].
      apply Forall_forall. intros e He. pose proof (proj1 (Forall_forall _ _) Fn e He) as [->|(pid & a & -> & _)]; [exact I|].
      unfold local_ok, stamped. cbn [s_now s_phase set_ready]. split; [intros Hp; apply NoEdgeNow; exact Hp|].
      destruct a; try exact I. destruct w; try exact I. destruct ph; try exact I.
      (* the AWake entry comes from the task at the head of the ready queue *)
      assert (Et : t = TWake pid (WkClk c AFTER) g).
      { eapply (task_head_awake t (set_ready r s) stk s' new); [exact Hth | exact Hh | exact L | exact He]. }
      subst t. apply (It pid c g). rewrite Hrd. left. reflexivity.
  - (* event *)
    destruct (pop_event_queue s e s1 Hpop) as (e2 & rr & Qc & A1 & B1 & W1 & N1 & _).
    destruct (pop_event_top _ _ _ Hpop) as (((P1 & P2 & P3 & P4) & PE & PO & PR) & PL).
    destruct (pop_event_stamp s e s1 Hpop Htm) as (St1 & St2 & St3).
    destruct (pop_event_sorted s e s1 Hpop Srt) as (Srt1 & Hfirst & Qin).
    pose proof (halted_false_err s Hh) as He. assert (He1 : s_err s1 = false) by congruence.
    assert (She : ev_shape e) by (apply (i3_shape _ _ I3); apply Qin; left; reflexivity).
    (* companions after the pop: the witness is the popped event or still queued *)
    assert (Ic1 : forall x cl, In x (s_queue s1) -> e_type x = SimProcResume -> e_why x = WkClk cl AFTER ->
              (exists vc, (vc = e \/ In vc (s_queue s1)) /\ is_vc (eff_clk cfg cl) (e_time x) vc)
              \/ edge_logged (eff_clk cfg cl) (e_time x) (s_log s1)).
    { intros x cl Hx Tx Wx. destruct (Ic x cl (proj2 (Qin x) (or_intror Hx)) Tx Wx) as [(vc & Hv & Iv)|El].
      - left. exists vc. split; [apply Qin; exact Hv | exact Iv].
      - right. rewrite PL. exact El. }
    unfold event_head. unfold ev_shape in She. destruct (e_type e) eqn:Ty.
    + (* trigger *)
      destruct (handle_trigger_circ_log cfg e s1 He1) as (_ & L).
      destruct (handle_trigger_top cfg e s1) as ((T1 & T2 & T3 & T4) & _ & _ & TR).
      assert (NoE : ~ edge_at (s_now s) (s_log s)).
      { intro E. destruct (Iq E e (proj2 (Qin e) (or_introl eq_refl)) St1) as [X|X]; [congruence|]. destruct She as (Sp & _). congruence. }
      assert (Ne : Forall no_edge [LTrigger (e_time e) (e_pin e) (e_rising e)]) by (constructor; [intros t k r a b c; discriminate | constructor]).
      constructor; cbn [fst snd].
      * intros x cl Hx Tx Wx. apply handle_trigger_queue in Hx. destruct Hx as [Hx|[->|[->|(Hr & Hx)]]]; try discriminate Tx.
        -- destruct (Ic1 x cl Hx Tx Wx) as [(vc & [->|Hv] & Iv)|El].
           ++ exfalso. destruct Iv as (Tv & _). congruence.
           ++ left. exists vc. split; [apply handle_trigger_queue; left; exact Hv | exact Iv].
           ++ right. rewrite L. apply (edge_logged_mono _ _ [_]). exact El.
        -- apply in_map_iff in Hx. destruct Hx as (a & <- & Ha). simpl in Wx.
           assert (Ha' : In a (get_await (e_pin e) s)) by (destruct (e_pin e); simpl in *; congruence).
           destruct (i4_await _ _ I4 _ _ Ha') as (c' & Hw & Hk). rewrite Hw in Wx. inversion Wx; subst c'.
           left. exists (value_change_event e). split; [apply handle_trigger_queue; right; left; reflexivity|].
           unfold is_vc. simpl. split; [reflexivity|]. split; [symmetry; exact Hk|]. split; [exact Hr | reflexivity].
      * intros pid cl g Hin. rewrite TR, PR, Hrd in Hin. destruct Hin.
      * rewrite T1, L, P1. intros E. exfalso. apply NoE. apply (proj1 (edge_at_app _ [_] _ Ne)) in E. rewrite <- PL. exact E.
      * rewrite T1, L, P1. intros E. exfalso. apply NoE. apply (proj1 (edge_at_app _ [_] _ Ne)) in E. rewrite <- PL. exact E.
      * rewrite L, PL. simpl. split; [exact Il | exact I].
    + (* resumption *)
      constructor; cbn [fst snd].
      * intros x cl Hx Tx Wx. simpl in Hx. destruct (Ic1 x cl Hx Tx Wx) as [(vc & [->|Hv] & Iv)|El].
        -- exfalso. destruct Iv as (Tv & _). congruence.
        -- left. exists vc. split; [exact Hv | exact Iv].
        -- right. exact El.
      * intros pid cl g Hin. simpl in Hin. rewrite PR, Hrd in Hin. destruct Hin as [Hin|[]]. injection Hin as Hp2 Hw2 Hg2.
        (* the popped resumption was at the head in phase AFTER: its value change cannot be queued any more *)
        destruct (i4_evclk _ _ I4 e cl AFTER (proj2 (Qin e) (or_introl eq_refl)) Ty Hw2) as (Pa & _).
        destruct (Ic e cl (proj2 (Qin e) (or_introl eq_refl)) Ty Hw2) as [(vc & Hv & (Tv & _ & _ & Ev))|El].
        -- exfalso. apply Qin in Hv. destruct Hv as [->|Hv]; [congruence|].
           apply (Hfirst vc Hv). right. split; [exact Ev|]. left.
           assert (Sv : ev_shape vc) by (apply (i3_shape _ _ I3); apply Qin; right; exact Hv).
           unfold ev_shape in Sv. rewrite Tv in Sv. destruct Sv as (Sv & _). rewrite Sv, Pa. reflexivity.
        -- simpl. rewrite PL, P1. destruct El as (t' & a & b & c & Hin' & E'). exists t', a, b, c. split; [exact Hin'|].
           rewrite E'. exact St1.
      * simpl. rewrite PL, P1. intros E x Hx Tx. apply (Iq E x (proj2 (Qin x) (or_intror Hx)) Tx).
      * simpl. rewrite PL, P1, P2. intros E Hp. exfalso.
        destruct (Iq E e (proj2 (Qin e) (or_introl eq_refl)) St1) as [X|X]; [congruence|]. congruence.
      * simpl. rewrite PL. exact Il.
    + (* value change: the registers advance *)
      destruct She as (Sp & Sm).
      destruct (handle_value_change_bk cfg e s1) as (Q2 & _).
      destruct (handle_value_change_top cfg e s1) as ((T1 & T2 & T3 & T4) & _ & _ & TR).
      set (s2 := if e_rising e then set_circ (circ_advance (c_two cfg) (e_pin e) (s_circ s1)) s1 else s1).
      assert (L2 : s_log (handle_value_change cfg e s1) =
                   LEdge (s_now s1) (e_pin e) (e_rising e) (r_a (s_circ s2)) (r_a2 (s_circ s2)) (r_b (s_circ s2)) :: s_log s1).
      { unfold handle_value_change. fold s2. rewrite add_log_log.
        assert (E2 : s_err s2 = false) by (unfold s2; destruct (e_rising e); exact He1). rewrite E2.
        assert (N2 : s_now s2 = s_now s1 /\ s_log s2 = s_log s1) by (unfold s2; destruct (e_rising e); split; reflexivity).
        destruct N2 as (-> & ->). reflexivity. }
      constructor; cbn [fst snd].
      * rewrite Q2, L2. intros x cl Hx Tx Wx. destruct (Ic1 x cl Hx Tx Wx) as [(vc & [->|Hv] & Iv)|El].
        -- right. destruct Iv as (_ & Pk & Rk & Ek). exists (s_now s1), (r_a (s_circ s2)), (r_a2 (s_circ s2)), (r_b (s_circ s2)).
           split; [left; rewrite Pk, Rk; reflexivity|]. rewrite P1, <- St1. exact Ek.
        -- left. exists vc. split; assumption.
        -- right. apply (edge_logged_mono _ _ [_]). exact El.
      * intros pid cl g Hin. rewrite TR, PR, Hrd in Hin. destruct Hin.
      * rewrite Q2, T1, P1. intros _ x Hx Tx.
        (* everything still queued for this time is not served before the value change that was just popped *)
        pose proof (Hfirst x Hx) as Nk.
        assert (Sx : ev_shape x) by (apply (i3_shape _ _ I3); apply Qin; right; exact Hx).
        unfold ev_shape in Sx.
        assert (Eq : (e_time x == e_time e)%Q) by (rewrite Tx, St1; reflexivity).
        destruct (e_phase x) eqn:Px; [| |right; reflexivity].
        -- exfalso. apply Nk. right. split; [exact Eq|]. left. rewrite Px, Sp. reflexivity.
        -- destruct (e_type x) eqn:Tyx.
           ++ exfalso. destruct Sx as (_ & Mx). apply Nk. right. split; [exact Eq|]. right. split; [congruence|].
              right. split; [congruence|]. left. rewrite Tyx, Ty. reflexivity.
           ++ (* a DURING-phase resumption has micro tick 0: it would have been served before *)
              exfalso. apply Nk. right. split; [exact Eq|]. right. split; [congruence|].
              assert (Mx : e_mt x = 0%N).
              { apply (i4_mt0 _ _ I4 x (proj2 (Qin x) (or_intror Hx)) Tyx). rewrite Px. discriminate. }
              right. split; [congruence|]. left. rewrite Tyx, Ty. reflexivity.
           ++ left. reflexivity.
           ++ destruct Sx.
      * rewrite T2, TR, PR. intros _ _. split; [exact Hrd | reflexivity].
      * rewrite L2, PL. simpl. split; [exact Il | exact I].
    + destruct She.
  - (* end of micro tick *)
    destruct (micro_end_fields s) as (M1 & M2 & M3 & M4 & M5 & M6).
    pose proof (halted_false_err s Hh) as He.
    destruct (micro_end_circ_log s He) as (_ & fires & L & Ff).
    set (new := LMicro (s_now s) (s_phase s) (s_mt s) :: fires ++ [LReeval]).
    assert (L' : s_log (micro_end s) = new ++ s_log s) by (rewrite L; unfold new; simpl; rewrite <- app_assoc; reflexivity).
    assert (Ne : Forall no_edge new).
    { unfold new. constructor; [intros t k r a b c; discriminate|]. apply Forall_app. split.
      - eapply Forall_impl; [|exact Ff]. intros x (p & r & c & ->) t k r' a b c'. discriminate.
      - constructor; [intros t k r a b c; discriminate | constructor]. }
    assert (Lo : Forall (local_ok cfg (s_log s)) new).
    { unfold new. constructor; [exact I|]. apply Forall_app. split.
      - eapply Forall_impl; [|exact Ff]. intros x (p & r & c & ->). exact I.
      - constructor; [exact I | constructor]. }
    constructor; cbn [fst snd].
    + intros x cl Hx Tx Wx. apply micro_end_queue in Hx. destruct Hx as [Hx|Hx].
      * destruct (Ic x cl Hx Tx Wx) as [(vc & Hv & Iv)|El].
        -- left. exists vc. split; [apply micro_end_queue; left; exact Hv | exact Iv].
        -- right. rewrite L'. apply edge_logged_mono. exact El.
      * apply in_map_iff in Hx. destruct Hx as (w & <- & _). discriminate.
    + intros pid cl g Hin. rewrite M4, Hrd in Hin. destruct Hin.
    + rewrite L', M1. intros E x Hx Tx. apply (proj1 (edge_at_app _ new _ Ne)) in E.
      apply micro_end_queue in Hx. destruct Hx as [Hx|Hx]; [exact (Iq E x Hx Tx)|].
      apply in_map_iff in Hx. destruct Hx as (w & <- & _). right. reflexivity.
    + rewrite M4. intros _ _. split; [exact Hrd | reflexivity].
    + rewrite L'. apply log_ok4_app; assumption.
  - (* phase begin *)
    destruct (phase_begin_fields ph s) as (F1 & F2 & F3 & F4 & F5 & F6 & F7 & F8).
    pose proof (halted_false_err s Hh) as He.
    assert (L : s_log (phase_begin ph s) = [LPhase (s_now s) ph] ++ s_log s).
    { unfold phase_begin. rewrite add_log_log. simpl. rewrite He. reflexivity. }
    assert (Ne : Forall no_edge [LPhase (s_now s) ph]) by (constructor; [intros t k r a b c; discriminate | constructor]).
    constructor; cbn [fst snd].
    + rewrite F7. intros x cl Hx Tx Wx. destruct (Ic x cl Hx Tx Wx) as [V|El]; [left; exact V | right; rewrite L; apply edge_logged_mono; exact El].
    + intros pid cl g Hin. rewrite F4, Hrd in Hin. destruct Hin.
    + rewrite L, F1, F7. intros E. apply (proj1 (edge_at_app _ _ _ Ne)) in E. exact (Iq E).
    + rewrite F4. intros _ _. split; [exact Hrd | reflexivity].
    + rewrite L. apply log_ok4_app; [exact Il | exact Ne | constructor; [exact I | constructor]].
  - (* commit begin *)
    constructor; cbn [fst snd]; assumption.
  - (* enqueue a process that waited for WaitStable *)
    constructor; cbn [fst snd]; try assumption.
    + intros pid' cl g Hin. simpl in Hin. rewrite Hrd in Hin. destruct Hin as [X|[]]. discriminate.
    + intros _ Hp. exfalso. apply Hp. exact (i4_ro _ _ I4 Hro).
  - (* commit end *)
    pose proof (halted_false_err s Hh) as He.
    destruct (commit_end_bk s) as (Q & _).
    set (ent := LCommit (s_now s) (r_a (s_circ s)) (r_a2 (s_circ s)) (r_b (s_circ s)) (c_out (s_circ s))).
    assert (L : s_log (commit_end s) = [ent] ++ s_log s).
    { unfold commit_end. cbn [s_log set_readonly]. rewrite add_log_log, He. reflexivity. }
    assert (Ne : Forall no_edge [ent]) by (constructor; [intros t k r a b c; discriminate | constructor]).
    assert (Ct : s_now (commit_end s) = s_now s /\ s_phase (commit_end s) = s_phase s /\ s_ready (commit_end s) = s_ready s).
    { unfold commit_end. destruct (add_log_top ent s) as ((A1 & A2 & _) & _ & _ & A5). repeat split; assumption. }
    destruct Ct as (C1 & C2 & C3).
    constructor; cbn [fst snd].
    + rewrite Q. intros x cl Hx Tx Wx. destruct (Ic x cl Hx Tx Wx) as [V|El]; [left; exact V | right; rewrite L; apply edge_logged_mono; exact El].
    + intros pid cl g Hin. rewrite C3, Hrd in Hin. destruct Hin.
    + rewrite L, C1, Q. intros E. apply (proj1 (edge_at_app _ _ _ Ne)) in E. exact (Iq E).
    + rewrite C3. intros _ _. split; [exact Hrd | reflexivity].
    + rewrite L. apply log_ok4_app; [exact Il | exact Ne | constructor; [exact I | constructor]].
  - (* set time *)
    assert (Ge : (s_now s <= e_time e)%Q) by (apply (i4_future _ _ I4); rewrite Hq; left; reflexivity).
    assert (EdgeT : edge_at (e_time e) (s_log s) -> (e_time e == s_now s)%Q /\ edge_at (s_now s) (s_log s)).
    { intros (t' & k & r & a & b & c & Hin & E).
      assert (Le : (t' <= s_now s)%Q) by (eapply (i4_past _ _ I4); [exact Hin | reflexivity]).
      assert (Eq : (e_time e == s_now s)%Q) by (apply Qle_antisym; [rewrite <- E; exact Le | exact Ge]).
      split; [exact Eq|]. exists t', k, r, a, b, c. split; [exact Hin | rewrite E; exact Eq]. }
    constructor; cbn [fst snd]; try assumption.
    + intros pid cl g Hin. simpl in Hin. rewrite Hrd in Hin. destruct Hin.
    + simpl. intros E x Hx Tx. destruct (EdgeT E) as (Eq & E0). apply (Iq E0 x Hx). rewrite Tx. exact Eq.
    + simpl. intros _ _. split; [exact Hrd | reflexivity].
  - (* set target: no flank has been served at a time after now *)
    constructor; cbn [fst snd]; try assumption.
    + intros pid cl g Hin. simpl in Hin. rewrite Hrd in Hin. destruct Hin.
    + simpl. intros (t' & k & r & a & b & c & Hin & E). exfalso.
      assert (Le : (t' <= s_now s)%Q) by (eapply (i4_past _ _ I4); [exact Hin | reflexivity]).
      apply clock_less_lt in Hcl. rewrite E in Le. exact (Qlt_irrefl _ (Qle_lt_trans _ _ _ Le Hcl)).
    + simpl. intros _ _. split; [exact Hrd | reflexivity].
  - (* out of fuel *)
    constructor; cbn [fst snd]; assumption.
  - (* start of a coroutine process *)
    constructor; cbn [fst snd]; try assumption.
    + intros pid' cl g Hin. simpl in Hin. rewrite Hrd in Hin. destruct Hin as [X|[]]. discriminate.
    + intros _ Hp. exfalso. apply Hp. exact Hph.
  - (* start of a fiber *)
    unfold fiber_start in Hfs.
    assert (E' : s' = snd (fiber_continue pid (log_proc pid AStart s))) by (rewrite Hfs; reflexivity).
    pose proof (fiber_continue_cont pid (log_proc pid AStart s)) as Cs. rewrite <- E' in Cs.
    pose proof (halted_false_err s Hh) as He.
    destruct (cont_states_bk _ _ _ Cs) as (Q & _). destruct (log_proc_bk pid AStart s) as (Q' & _).
    assert (Ct : same_ctl s s') by (eapply same_ctl_trans; [apply log_proc_ctl | apply (cont_states_ctl _ _ _ Cs)]).
    destruct Ct as (C1 & C2 & C3 & C4).
    assert (L : s_log s' = [stamped s pid AStart] ++ s_log s).
    { destruct (cont_states_lg _ _ _ Cs) as (L & _). rewrite L. rewrite log_proc_log by exact He. reflexivity. }
    assert (Ne : Forall no_edge [stamped s pid AStart]) by (constructor; [intros t k r a b c; discriminate | constructor]).
    constructor; cbn [fst snd].
    + rewrite Q, Q'. intros x cl Hx Tx Wx. destruct (Ic x cl Hx Tx Wx) as [V|El]; [left; exact V | right; rewrite L; apply edge_logged_mono; exact El].
    + intros pid' cl g Hin. exfalso. destruct (cont_states_ready _ _ _ _ Cs Hin) as [Hin'|Bn].
      * unfold log_proc in Hin'. rewrite add_log_ready, Hrd in Hin'. destruct Hin'.
      * destruct Bn as [(p & n & E)|[(p & k & g' & E)|(p & E)]]; inversion E.
    + rewrite L, C1, Q, Q'. intros E. apply (proj1 (edge_at_app _ _ _ Ne)) in E. exact (Iq E).
    + rewrite C2. intros _ Hp. exfalso. apply Hp. exact Hph.
    + rewrite L. apply log_ok4_app; [exact Il | exact Ne |]. constructor; [|constructor].
      unfold local_ok, stamped. split; [intro Hp; exfalso; apply Hp; exact Hph | exact I].
  - (* reevaluate *)
    pose proof (halted_false_err s Hh) as He.
    destruct (reevaluate_bk s) as (Q & _). destruct (reevaluate_top s) as ((C1 & C2 & C3 & C4) & _ & _ & C5).
    assert (L : s_log (reevaluate s) = [LReeval] ++ s_log s) by (unfold reevaluate; rewrite add_log_log; simpl; rewrite He; reflexivity).
    assert (Ne : Forall no_edge [LReeval]) by (constructor; [intros t k r a b c; discriminate | constructor]).
    constructor; cbn [fst snd].
    + rewrite Q. intros x cl Hx Tx Wx. destruct (Ic x cl Hx Tx Wx) as [V|El]; [left; exact V | right; rewrite L; apply edge_logged_mono; exact El].
    + intros pid cl g Hin. rewrite C5, Hrd in Hin. destruct Hin.
    + rewrite L, C1, Q. intros E. apply (proj1 (edge_at_app _ _ _ Ne)) in E. exact (Iq E).
    + rewrite C5. intros _ _. split; [exact Hrd | reflexivity].
    + rewrite L. apply log_ok4_app; [exact Il | exact Ne | constructor; [exact I | constructor]].
Qed.

End Inv.

(* ------------------------------------------------------------------------- *)
(** * Consequences for complete runs (log of the final state, newest entry first) *)

Lemma log_ok4_suffix : forall cfg pre l, log_ok4 cfg (pre ++ l) -> log_ok4 cfg l.
Proof. induction pre as [|e r IH]; intros l H; [exact H|]. simpl in H. apply IH. tauto. Qed.

Lemma run_inv5 : forall cfg procs fiber until tb fuel, exists stk, inv5 cfg (run cfg procs fiber until tb fuel, stk).
Proof.
  intros. destruct (run_reachable cfg procs fiber until tb fuel) as (stk & R).
  exists stk. exact (reach_inv5 cfg procs fiber tb _ R).
Qed.

(* whatever a process does in phase BEFORE or DURING of time t happens before any clock flank of time t is served *)
Lemma before_during_precede_edges_proof : forall cfg procs fiber until tb fuel pre t ph mt ro pid a old,
  s_log (run cfg procs fiber until tb fuel) = pre ++ LProc t ph mt ro pid a :: old ->
  ph <> AFTER -> ~ edge_at t old.
Proof.
  intros cfg procs fiber upto tb fuel pre t ph mt ro pid a old E Hp.
  destruct (run_inv5 cfg procs fiber upto tb fuel) as (stk & I5).
  pose proof (i5_log _ _ I5) as L. cbn [fst] in L. rewrite E in L. apply log_ok4_suffix in L. simpl in L.
  destruct L as (_ & L1 & _). exact (L1 Hp).
Qed.

(* a process resumed by WaitClock(c, AFTER) at time t runs after the registers of c advanced at t *)
Lemma after_follows_edge_proof : forall cfg procs fiber until tb fuel pre t ph mt ro pid c g old,
  s_log (run cfg procs fiber until tb fuel) = pre ++ LProc t ph mt ro pid (AWake (WkClk c AFTER) g) :: old ->
  edge_logged (eff_clk cfg c) t old.
Proof.
  intros cfg procs fiber upto tb fuel pre t ph mt ro pid c g old E.
  destruct (run_inv5 cfg procs fiber upto tb fuel) as (stk & I5).
  pose proof (i5_log _ _ I5) as L. cbn [fst] in L. rewrite E in L. apply log_ok4_suffix in L. simpl in L.
  destruct L as (_ & _ & L2). exact L2.
Qed.
