(* C14 — soundness of the Conjunction model (ConjDefs.v). *)
From Coq Require Import List Bool Arith Lia.
From Gatery Require Import Bits ConjDefs.
Import ListNotations.

(* ------------------------------------------------------------------ *)
(* Consistent valuations                                               *)
(* ------------------------------------------------------------------ *)

Definition consistent (g : graph) (rho : nat -> bool) (u : bool) (vals : list bool) : Prop :=
  forall i n, nth_error g i = Some n -> nth i vals u = node_val rho u vals i n.

Lemma opt_eqb_eq a b : opt_eqb a b = true <-> a = b.
Proof.
  destruct a as [x|], b as [y|]; simpl; split; intro H; try discriminate; auto.
  - apply Nat.eqb_eq in H; subst; reflexivity.
  - inversion H; subst; apply Nat.eqb_refl.
Qed.

Lemma opt_eqb_refl a : opt_eqb a a = true.
Proof. apply opt_eqb_eq; reflexivity. Qed.

Lemma wf_from_nth : forall g i k n,
  wf_from i g = true -> nth_error g k = Some n -> forallb (drv_lt (i + k)) (drivers n) = true.
Proof.
  induction g as [|m g IH]; intros i k n Hwf Hn.
  - destruct k; discriminate.
  - simpl in Hwf. apply andb_prop in Hwf as [Hm Hr]. destruct k as [|k]; simpl in Hn.
    + inversion Hn; subst. rewrite Nat.add_0_r. exact Hm.
    + replace (i + S k) with (S i + k) by lia. eapply IH; eauto.
Qed.

Lemma wf_nth g k n : wf g = true -> nth_error g k = Some n -> forallb (drv_lt k) (drivers n) = true.
Proof. intros H Hn. apply (wf_from_nth g 0 k n H Hn). Qed.

(* ------------------------------------------------------------------ *)
(* existence: eval_all is consistent on well-formed graphs              *)
(* ------------------------------------------------------------------ *)

Lemma dval_firstn vals u i d :
  drv_lt i d = true -> i <= length vals -> dval (firstn i vals) u d = dval vals u d.
Proof.
  destruct d as [j|]; simpl; auto. intros Hj Hi. apply Nat.ltb_lt in Hj.
  rewrite <- (firstn_skipn i vals) at 2. rewrite app_nth1; auto.
  rewrite firstn_length. lia.
Qed.

Lemma node_val_firstn rho u vals i n :
  forallb (drv_lt i) (drivers n) = true -> i <= length vals ->
  node_val rho u (firstn i vals) i n = node_val rho u vals i n.
Proof.
  intros Hd Hi. destruct n as [b|d|d1 d2|d|]; simpl in *; auto.
  - apply andb_prop in Hd as [H1 _]. rewrite dval_firstn; auto.
  - apply andb_prop in Hd as [H1 H2]. apply andb_prop in H2 as [H2 _].
    rewrite !dval_firstn; auto.
  - apply andb_prop in Hd as [H1 _]. rewrite dval_firstn; auto.
Qed.

Lemma eval_from_spec rho u : forall g acc,
  let r := eval_from rho u acc g in
  length r = length acc + length g /\
  firstn (length acc) r = acc /\
  forall k n, nth_error g k = Some n ->
    nth (length acc + k) r u = node_val rho u (firstn (length acc + k) r) (length acc + k) n.
Proof.
  induction g as [|m g IH]; intros acc; simpl.
  - split; [lia|]. split; [apply firstn_all|]. intros k n H; destruct k; discriminate.
  - specialize (IH (acc ++ [node_val rho u acc (length acc) m])).
    set (r := eval_from rho u (acc ++ [node_val rho u acc (length acc) m]) g) in *.
    destruct IH as [Hlen [Hfirst Hnth]]. rewrite app_length in Hlen, Hfirst, Hnth. simpl in Hlen, Hfirst, Hnth.
    assert (Hacc : firstn (length acc) r = acc).
    { assert (H := f_equal (firstn (length acc)) Hfirst).
      rewrite firstn_firstn in H. replace (Nat.min (length acc) (length acc + 1)) with (length acc) in H by lia.
      rewrite H. rewrite firstn_app. rewrite Nat.sub_diag. simpl. rewrite firstn_all. apply app_nil_r. }
    split; [lia|]. split; [exact Hacc|].
    intros k n Hk. destruct k as [|k]; simpl in Hk.
    + inversion Hk; subst n. rewrite Nat.add_0_r. rewrite Hacc.
      assert (H := f_equal (fun l => nth (length acc) l u) Hfirst). simpl in H.
      rewrite app_nth2 in H by lia. rewrite Nat.sub_diag in H. simpl in H. rewrite <- H.
      rewrite <- (firstn_skipn (length acc + 1) r) at 1. rewrite app_nth1; auto.
      rewrite firstn_length. lia.
    + replace (length acc + S k) with (length acc + 1 + k) by lia. apply Hnth; auto.
Qed.

Lemma eval_all_consistent g rho u : wf g = true -> consistent g rho u (eval_all rho u g).
Proof.
  intro Hwf. unfold eval_all. destruct (eval_from_spec rho u g []) as [Hlen [_ Hnth]].
  simpl in *. intros i n Hi. rewrite (Hnth i n Hi).
  apply node_val_firstn. - eapply wf_nth; eauto.
  - rewrite Hlen. apply Nat.lt_le_incl. apply nth_error_Some. congruence.
Qed.

(* ------------------------------------------------------------------ *)
(* The loop invariants                                                  *)
(* ------------------------------------------------------------------ *)

Section Sound.
Variable g : graph.
Variable rho : nat -> bool.
Variable u : bool.
Variable vals : list bool.
Hypothesis Hwf : wf g = true.
Hypothesis Hcons : consistent g rho u vals.

Definition holds (d : option nat) (neg : bool) : bool := xorb neg (dval vals u d).

Lemma vals_node p n : nth_error g p = Some n -> nth p vals u = node_val rho u vals p n.
Proof. apply Hcons. Qed.

(* what [expand] guarantees semantically *)
Lemma expand_sem p top pushed asterm contra :
  tr_sig top = Some p -> tr_cd top = negb (tr_neg top) ->
  dval vals u (tr_last top) = dval vals u (tr_sig top) ->
  expand g p top = (pushed, asterm, contra) ->
  (forall tr, In tr pushed -> tr_cd tr = negb (tr_neg tr) /\ dval vals u (tr_last tr) = dval vals u (tr_sig tr)) /\
  (holds (Some p) (tr_neg top) = true ->
     contra = false /\ forall tr, In tr pushed -> holds (tr_sig tr) (tr_neg tr) = true).
Proof.
  intros Hsig Hcd Hlast He. unfold expand in He. unfold holds. simpl dval.
  destruct (nth_error g p) as [n|] eqn:Hn.
  2:{ inversion He; subst. split; [intros tr []|]. intros _. split; [reflexivity|intros tr []]. }
  rewrite (vals_node p n Hn).
  destruct n as [b|d|d1 d2|d|]; simpl node_val.
  - destruct b; inversion He; subst; (split; [intros tr []|]); intros H;
      (split; [|intros tr []]); destruct (tr_neg top); simpl in *; congruence.
  - inversion He; subst. split.
    + intros tr [<-|[]]. simpl. split; auto. rewrite negb_involutive. reflexivity.
    + intros H. split; auto. intros tr [<-|[]]. simpl.
      destruct (tr_neg top), (dval vals u d); simpl in *; congruence.
  - destruct (tr_cd top) eqn:Ecd.
    + assert (Hneg : tr_neg top = false) by (destruct (tr_neg top); simpl in Hcd; congruence).
      inversion He; subst. split.
      * intros tr [<-|[<-|[]]]; simpl; rewrite Hneg; auto.
      * rewrite Hneg. intros H.
        assert (Ha : dval vals u d1 = true /\ dval vals u d2 = true)
          by (destruct (dval vals u d1), (dval vals u d2); simpl in H; auto; discriminate).
        destruct Ha as [H1 H2]. split; auto.
        intros tr [<-|[<-|[]]]; simpl; rewrite ?Hneg, ?H1, ?H2; reflexivity.
    + inversion He; subst. split; [intros tr []|]. intros _. split; [reflexivity|intros tr []].
  - inversion He; subst. split.
    + intros tr [<-|[]]. simpl. split; auto.
      rewrite Hlast, Hsig. simpl. rewrite (vals_node p _ Hn). reflexivity.
    + intros H. split; auto. intros tr [<-|[]]. simpl. exact H.
  - inversion He; subst. split; [intros tr []|]. intros _. split; [reflexivity|intros tr []].
Qed.

(* ---- semantic invariant ---- *)
Variable root : option nat.
Definition RH : bool := dval vals u root.

Record SInv (s : pstate) : Prop := {
  S_stack : forall tr, In tr (ps_stack s) -> RH = true -> holds (tr_sig tr) (tr_neg tr) = true;
  S_vis : forall k b, In (k, b) (ps_vis s) -> RH = true -> holds k b = true;
  S_terms : forall t, In t (ps_terms s) -> RH = true -> lit vals u t = true;
  S_contra : ps_contra s = true -> RH = false;
  S_last : forall tr, In tr (ps_stack s) -> dval vals u (tr_last tr) = dval vals u (tr_sig tr);
  S_cdrv : forall t, In t (ps_terms s) -> dval vals u (t_cdrv t) = nth (t_driver t) vals u;
  S_cd : forall tr, In tr (ps_stack s) -> tr_cd tr = negb (tr_neg tr)
}.

Lemma vis_find_In v k b : vis_find v k = Some b -> In (k, b) v.
Proof.
  induction v as [|[k' b'] v IH]; simpl; [discriminate|].
  destruct (opt_eqb k' k) eqn:E.
  - intro H; inversion H; subst. apply opt_eqb_eq in E; subst. left; reflexivity.
  - intro H; right; auto.
Qed.

Lemma holds_both_false k b b' : holds k b = true -> holds k b' = true -> Bool.eqb b b' = true.
Proof. unfold holds. destruct b, b', (dval vals u k); simpl; congruence. Qed.

Lemma term_find_In ts k t : term_find ts k = Some t -> In t ts /\ t_driver t = k.
Proof.
  induction ts as [|x ts IH]; simpl; [discriminate|].
  destruct (t_driver x =? k) eqn:E.
  - intro H; inversion H; subst. apply Nat.eqb_eq in E. auto.
  - intro H. destruct (IH H). auto.
Qed.

Ltac same I := first [exact (S_vis _ I) | exact (S_terms _ I) | exact (S_contra _ I) | exact (S_cdrv _ I)
                      | exact (S_stack _ I) | exact (S_last _ I)| exact (S_cd _ I)].

Lemma pstep_SInv s s' : SInv s -> pstep g s = Some s' -> SInv s'.
Proof.
  intros I Hs. unfold pstep in Hs.
  destruct (ps_stack s) as [|top rest] eqn:Est; [discriminate|].
  assert (Htop : In top (ps_stack s)) by (rewrite Est; left; reflexivity).
  assert (Hrest : forall tr, In tr rest -> In tr (ps_stack s)) by (intros; rewrite Est; right; auto).
  destruct (vis_find (ps_vis s) (tr_sig top)) as [b|] eqn:Ev.
  - (* already visited *)
    inversion Hs; subst s'; clear Hs. constructor; simpl; auto; try same I.
    + intros tr Hin. apply (S_stack s I). auto.
    + intros Hc. apply orb_prop in Hc as [Hc|Hc]; [apply (S_contra s I Hc)|].
      destruct RH eqn:ER; auto. exfalso.
      assert (H1 := S_stack s I top Htop ER).
      assert (H2 := S_vis s I _ _ (vis_find_In _ _ _ Ev) ER).
      rewrite (holds_both_false _ _ _ H2 H1) in Hc. discriminate.
    + intros tr Hin. apply (S_last s I). auto.
    + intros tr Hin. apply (S_cd s I). auto.
  - destruct (tr_sig top) as [p|] eqn:Esig.
    2:{ (* unconnected *)
      inversion Hs; subst s'; clear Hs. constructor; simpl; auto; try same I.
      + intros tr Hin. apply (S_stack s I). auto.
      + intros k b [Heq|Hin]; [inversion Heq; subst|apply (S_vis s I); auto].
        intro ER. rewrite <- Esig. apply (S_stack s I top Htop ER).
      + intros tr Hin. apply (S_last s I). auto.
      + intros tr Hin. apply (S_cd s I). auto. }
    destruct (expand g p top) as [[pushed asterm] contra] eqn:Ee.
    assert (Hlast := S_last s I top Htop). assert (Hcd := S_cd s I top Htop).
    destruct (expand_sem p top pushed asterm contra Esig Hcd Hlast Ee) as [Hp1 Hp2].
    assert (Hholds : RH = true -> holds (Some p) (tr_neg top) = true).
    { intro ER. rewrite <- Esig. apply (S_stack s I top Htop ER). }
    assert (Hstack' : forall tr, In tr (rev pushed ++ rest) -> In tr pushed \/ In tr rest).
    { intros tr Hin. apply in_app_or in Hin as [Hin|Hin]; auto. left. apply in_rev; auto. }
    assert (Hvis' : forall k b, In (k, b) ((Some p, tr_neg top) :: ps_vis s) -> RH = true -> holds k b = true).
    { intros k b [Heq|Hin]; [inversion Heq; subst; auto|apply (S_vis s I); auto]. }
    assert (Hst1 : forall tr, In tr (rev pushed ++ rest) -> RH = true -> holds (tr_sig tr) (tr_neg tr) = true).
    { intros tr Hin ER. destruct (Hstack' tr Hin) as [H|H].
      - apply (proj2 (Hp2 (Hholds ER))); auto.
      - apply (S_stack s I); auto. }
    assert (Hst2 : forall tr, In tr (rev pushed ++ rest) -> dval vals u (tr_last tr) = dval vals u (tr_sig tr)).
    { intros tr Hin. destruct (Hstack' tr Hin) as [H|H]; [apply (Hp1 tr H)|apply (S_last s I); auto]. }
    assert (Hst3 : forall tr, In tr (rev pushed ++ rest) -> tr_cd tr = negb (tr_neg tr)).
    { intros tr Hin. destruct (Hstack' tr Hin) as [H|H]; [apply (Hp1 tr H)|apply (S_cd s I); auto]. }
    assert (Hc1 : ps_contra s || contra = true -> RH = false).
    { intro Hc. apply orb_prop in Hc as [Hc|Hc]; [apply (S_contra s I Hc)|].
      destruct RH eqn:ER; auto. destruct (Hp2 (Hholds eq_refl)) as [Hc' _]. congruence. }
    destruct asterm.
    + destruct (term_find (ps_terms s) p) as [t|] eqn:Et.
      * inversion Hs; subst s'; clear Hs. constructor; simpl; auto; try same I.
        intro Hc. apply orb_prop in Hc as [Hc|Hc]; [auto|].
        destruct RH eqn:ER; auto. exfalso.
        destruct (term_find_In _ _ _ Et) as [Hin Hdrv].
        assert (H1 := S_terms s I t Hin ER). unfold lit in H1. rewrite Hdrv in H1.
        assert (H2 := Hholds eq_refl). unfold holds in H2. simpl in H2.
        destruct (t_neg t), (tr_neg top), (nth p vals u); simpl in *; congruence.
      * inversion Hs; subst s'; clear Hs. constructor; simpl; auto.
        -- intros t Hin ER. apply in_app_or in Hin as [Hin|[<-|[]]]; [apply (S_terms s I); auto|].
           unfold lit; simpl. apply (Hholds ER).
        -- intros t Hin. apply in_app_or in Hin as [Hin|[<-|[]]]; [apply (S_cdrv s I); auto|].
           simpl. rewrite Hlast. rewrite Esig. reflexivity.
    + inversion Hs; subst s'; clear Hs. constructor; simpl; auto; try same I.
Qed.

End Sound.

(* ------------------------------------------------------------------ *)
(* Structural (closure) invariant                                       *)
(* ------------------------------------------------------------------ *)

Section Struct.
Variable g : graph.

Definition mk (p : nat) (b : bool) : trace :=
  {| tr_sig := Some p; tr_neg := b; tr_cd := negb b; tr_last := None |}.
Definition sn (tr : trace) : option nat * bool := (tr_sig tr, tr_neg tr).
Definition kids (p : nat) (b : bool) : list (option nat * bool) := map sn (fst (fst (expand g p (mk p b)))).
Definition is_term (p : nat) (b : bool) : bool := snd (fst (expand g p (mk p b))).
Definition is_contra (p : nat) (b : bool) : bool := snd (expand g p (mk p b)).

Lemma expand_irrel p top pushed asterm contra :
  tr_cd top = negb (tr_neg top) -> expand g p top = (pushed, asterm, contra) ->
  map sn pushed = kids p (tr_neg top) /\ asterm = is_term p (tr_neg top) /\ contra = is_contra p (tr_neg top).
Proof.
  intros Hcd He. unfold kids, is_term, is_contra, expand in *. simpl.
  destruct (nth_error g p) as [[[]|d|d1 d2|d|]|]; simpl in *;
    try (inversion He; subst; simpl; auto; fail).
  rewrite Hcd in He. destruct (negb (tr_neg top)); inversion He; subst; simpl; auto.
Qed.

Lemma pstep_shape s s' top rest :
  ps_stack s = top :: rest -> pstep g s = Some s' ->
  (ps_contra s = true -> ps_contra s' = true) /\
  ((exists b, vis_find (ps_vis s) (tr_sig top) = Some b /\ ps_vis s' = ps_vis s /\ ps_stack s' = rest /\
              ps_terms s' = ps_terms s /\ ps_undef s' = ps_undef s /\ (b <> tr_neg top -> ps_contra s' = true))
   \/ (vis_find (ps_vis s) (tr_sig top) = None /\ ps_vis s' = (tr_sig top, tr_neg top) :: ps_vis s /\
       ((tr_sig top = None /\ ps_stack s' = rest /\ ps_terms s' = ps_terms s /\ ps_undef s' = true)
        \/ (exists p pushed asterm contra,
              tr_sig top = Some p /\ expand g p top = (pushed, asterm, contra) /\
              ps_stack s' = rev pushed ++ rest /\ ps_undef s' = ps_undef s /\
              (contra = true -> ps_contra s' = true) /\
              (asterm = false -> ps_terms s' = ps_terms s) /\
              (asterm = true ->
                 (exists t, term_find (ps_terms s) p = Some t /\ ps_terms s' = ps_terms s) \/
                 (term_find (ps_terms s) p = None /\
                  ps_terms s' = ps_terms s ++ [{| t_driver := p; t_neg := tr_neg top; t_cdrv := tr_last top |}])))))).
Proof.
  intros Est Hs. unfold pstep in Hs. rewrite Est in Hs.
  destruct (vis_find (ps_vis s) (tr_sig top)) as [b|] eqn:Ev.
  - inversion Hs; subst s'; clear Hs; simpl. split.
    + intro H; rewrite H; reflexivity.
    + left. exists b. repeat split; auto. intro Hne.
      destruct b, (tr_neg top); simpl; try congruence; apply orb_true_r.
  - destruct (tr_sig top) as [p|] eqn:Esig.
    + destruct (expand g p top) as [[pushed asterm] contra] eqn:Ee.
      destruct asterm.
      * destruct (term_find (ps_terms s) p) as [t|] eqn:Et;
          inversion Hs; subst s'; clear Hs; simpl; (split; [intro H; rewrite H; reflexivity|]);
          right; (split; [reflexivity|]); (split; [reflexivity|]); right;
          exists p, pushed, true, contra; repeat split; auto; try discriminate.
        -- intro Hc; rewrite Hc. rewrite orb_true_r. reflexivity.
        -- intros _. left. exists t. auto.
        -- intro Hc; rewrite Hc. apply orb_true_r.
      * inversion Hs; subst s'; clear Hs; simpl. split; [intro H; rewrite H; reflexivity|].
        right. split; [reflexivity|]. split; [reflexivity|]. right.
        exists p, pushed, false, contra. repeat split; auto; try discriminate.
        intro Hc; rewrite Hc. apply orb_true_r.
    + inversion Hs; subst s'; clear Hs; simpl. split; [auto|].
      right. split; [reflexivity|]. split; [reflexivity|]. left. auto.
Qed.

Variable root : option nat.

Definition demanded (s : pstate) (d : option nat) (n : bool) : Prop :=
  (exists tr, In tr (ps_stack s) /\ tr_sig tr = d /\ tr_neg tr = n) \/
  vis_find (ps_vis s) d = Some n \/
  (vis_find (ps_vis s) d = Some (negb n) /\ ps_contra s = true).

Record TInv (s : pstate) : Prop := {
  T_cd : forall tr, In tr (ps_stack s) -> tr_cd tr = negb (tr_neg tr);
  T_terms_vis : forall t, In t (ps_terms s) -> vis_find (ps_vis s) (Some (t_driver t)) = Some (t_neg t);
  T_nodup : NoDup (map t_driver (ps_terms s));
  T_close : forall p b, vis_find (ps_vis s) (Some p) = Some b ->
      (forall d n, In (d, n) (kids p b) -> demanded s d n) /\
      (is_term p b = true -> exists t, In t (ps_terms s) /\ t_driver t = p /\ t_neg t = b) /\
      (is_contra p b = true -> ps_contra s = true);
  T_none : vis_find (ps_vis s) None <> None -> ps_undef s = true;
  T_root : demanded s root false
}.

Lemma vis_find_cons_other v k b d x :
  vis_find v k = None -> vis_find v d = Some x -> vis_find ((k, b) :: v) d = Some x.
Proof.
  intros Hk Hd. simpl. destruct (opt_eqb k d) eqn:E; auto.
  apply opt_eqb_eq in E; subst. congruence.
Qed.

Lemma demanded_step s s' d n :
  pstep g s = Some s' -> demanded s d n -> demanded s' d n.
Proof.
  intros Hs Hd. destruct (ps_stack s) as [|top rest] eqn:Est.
  { unfold pstep in Hs; rewrite Est in Hs; discriminate. }
  destruct (pstep_shape s s' top rest Est Hs) as [Hcm Hsh].
  assert (Hrest : forall tr, In tr rest -> In tr (ps_stack s')).
  { intros tr Hin. destruct Hsh as [[b [_ [_ [H _]]]]|[_ [_ [[_ [H _]]|[p [pushed [a [c [_ [_ [H _]]]]]]]]]]];
      rewrite H; auto. apply in_or_app; auto. }
  destruct Hd as [[tr [Hin [Hsig Hneg]]]|[Hv|[Hv Hc]]].
  - rewrite Est in Hin. destruct Hin as [<-|Hin].
    + destruct Hsh as [[b [Hv [Hvis [_ [_ [_ Hne]]]]]]|[Hv [Hvis _]]].
      * destruct (Bool.bool_dec b n) as [->|Hbn].
        -- right; left. rewrite Hvis, <- Hsig. exact Hv.
        -- right; right. split.
           ++ rewrite Hvis, <- Hsig, Hv. f_equal. destruct b, n; simpl; congruence.
           ++ apply Hne. congruence.
      * right; left. rewrite Hvis, Hsig, Hneg. simpl. rewrite opt_eqb_refl. reflexivity.
    + left. exists tr. auto.
  - right; left. destruct Hsh as [[b [_ [Hvis _]]]|[Hk [Hvis _]]]; rewrite Hvis; auto.
    apply vis_find_cons_other; auto.
  - right; right. split; auto.
    destruct Hsh as [[b [_ [Hvis _]]]|[Hk [Hvis _]]]; rewrite Hvis; auto.
    apply vis_find_cons_other; auto.
Qed.

Lemma term_find_None_notin ts k : term_find ts k = None -> ~ In k (map t_driver ts).
Proof.
  induction ts as [|x ts IH]; simpl; auto.
  destruct (t_driver x =? k) eqn:E; [discriminate|]. apply Nat.eqb_neq in E.
  intros H [H1|H1]; auto. apply IH; auto.
Qed.

Lemma pstep_TInv s s' : TInv s -> pstep g s = Some s' -> TInv s'.
Proof.
  intros I Hs. destruct (ps_stack s) as [|top rest] eqn:Est.
  { unfold pstep in Hs; rewrite Est in Hs; discriminate. }
  assert (Htop : In top (ps_stack s)) by (rewrite Est; left; reflexivity).
  assert (Hcdtop := T_cd s I top Htop).
  destruct (pstep_shape s s' top rest Est Hs) as [Hcm Hsh].
  assert (Hdem : forall d n, demanded s d n -> demanded s' d n) by (intros; eapply demanded_step; eauto).
  destruct Hsh as [[b [Hv [Hvis [Hst [Htm [Hun Hne]]]]]]|[Hv [Hvis Hsh]]].
  - (* already visited *)
    constructor.
    + intros tr Hin. rewrite Hst in Hin. apply (T_cd s I). rewrite Est; right; auto.
    + intros t Hin. rewrite Htm in Hin. rewrite Hvis. apply (T_terms_vis s I); auto.
    + rewrite Htm. apply (T_nodup s I).
    + intros p b0 Hp. rewrite Hvis in Hp. destruct (T_close s I p b0 Hp) as [H1 [H2 H3]].
      split; [intros; apply Hdem; auto|]. split; [rewrite Htm; auto|auto].
    + rewrite Hvis, Hun. apply (T_none s I).
    + apply Hdem. apply (T_root s I).
  - assert (Hvis_old : forall k x, vis_find (ps_vis s) k = Some x -> vis_find (ps_vis s') k = Some x).
    { intros k x Hk. rewrite Hvis. apply vis_find_cons_other; auto. }
    destruct Hsh as [[Hsig [Hst [Htm Hun]]]|[p [pushed [asterm [contra [Hsig [He [Hst [Hun [Hc [Hnt Ht]]]]]]]]]]].
    + (* unconnected *)
      constructor; auto.
      * intros tr Hin. rewrite Hst in Hin. apply (T_cd s I). rewrite Est; right; auto.
      * intros t Hin. rewrite Htm in Hin. apply Hvis_old. apply (T_terms_vis s I); auto.
      * rewrite Htm. apply (T_nodup s I).
      * intros p b0 Hp. rewrite Hvis, Hsig in Hp. simpl in Hp.
        destruct (T_close s I p b0 Hp) as [H1 [H2 H3]].
        split; [intros; apply Hdem; auto|]. split; [rewrite Htm; auto|auto].
      * apply Hdem. apply (T_root s I).
    + destruct (expand_irrel p top pushed asterm contra Hcdtop He) as [Hkids [Hit Hic]].
      assert (Hpushed_cd : forall tr, In tr pushed -> tr_cd tr = negb (tr_neg tr)).
      { intros tr Hin. unfold expand in He.
        destruct (nth_error g p) as [[[]|d|d1 d2|d|]|]; try (inversion He; subst; destruct Hin; fail).
        - inversion He; subst. destruct Hin as [<-|[]]. simpl. rewrite negb_involutive. reflexivity.
        - rewrite Hcdtop in He. destruct (tr_neg top) eqn:En; simpl in He; inversion He; subst.
          + destruct Hin.
          + destruct Hin as [<-|[<-|[]]]; reflexivity.
        - inversion He; subst. destruct Hin as [<-|[]]. simpl. exact Hcdtop. }
      assert (Hterms_old : forall t, In t (ps_terms s) -> In t (ps_terms s')).
      { intros t Hin. destruct asterm.
        - destruct (Ht eq_refl) as [[t0 [_ H]]|[_ H]]; rewrite H; auto. apply in_or_app; auto.
        - rewrite (Hnt eq_refl); auto. }
      constructor.
      * intros tr Hin. rewrite Hst in Hin. apply in_app_or in Hin as [Hin|Hin].
        -- apply Hpushed_cd. apply in_rev; auto.
        -- apply (T_cd s I). rewrite Est; right; auto.
      * intros t Hin. destruct asterm.
        -- destruct (Ht eq_refl) as [[t0 [_ H]]|[_ H]]; rewrite H in Hin.
           ++ apply Hvis_old. apply (T_terms_vis s I); auto.
           ++ apply in_app_or in Hin as [Hin|[<-|[]]].
              ** apply Hvis_old. apply (T_terms_vis s I); auto.
              ** simpl. rewrite Hvis, Hsig. simpl. rewrite Nat.eqb_refl. reflexivity.
        -- rewrite (Hnt eq_refl) in Hin. apply Hvis_old. apply (T_terms_vis s I); auto.
      * destruct asterm.
        -- destruct (Ht eq_refl) as [[t0 [_ H]]|[Hnone H]]; rewrite H; [apply (T_nodup s I)|].
           rewrite map_app. simpl.
           assert (Hnd := T_nodup s I). assert (Hni := term_find_None_notin _ _ Hnone).
           clear - Hnd Hni. induction (map t_driver (ps_terms s)) as [|x l IH]; simpl.
           ++ constructor; [intros []|constructor].
           ++ inversion Hnd; subst. constructor.
              ** intro Hin. apply in_app_or in Hin as [Hin|[Hin|[]]]; auto. subst. apply Hni. left; reflexivity.
              ** apply IH; auto. intro Hin. apply Hni. right; auto.
        -- rewrite (Hnt eq_refl). apply (T_nodup s I).
      * intros q b0 Hq. rewrite Hvis, Hsig in Hq. simpl in Hq.
        destruct (p =? q) eqn:Epq.
        -- apply Nat.eqb_eq in Epq; subst q. inversion Hq; subst b0. split; [|split].
           ++ intros d n Hin. rewrite <- Hkids in Hin. apply in_map_iff in Hin as [tr [Heq Hin]].
              left. exists tr. split; [rewrite Hst; apply in_or_app; left; apply in_rev; rewrite rev_involutive; auto|].
              unfold sn in Heq. inversion Heq; auto.
           ++ intros Hterm. rewrite <- Hit in Hterm.
              destruct (Ht Hterm) as [[t0 [Hf H]]|[_ H]].
              ** exfalso. destruct (term_find_In _ _ _ Hf) as [Hin Hd].
                 assert (Hx := T_terms_vis s I t0 Hin). rewrite Hd in Hx. rewrite <- Hsig in Hx. congruence.
              ** exists {| t_driver := p; t_neg := tr_neg top; t_cdrv := tr_last top |}.
                 rewrite H. split; [apply in_or_app; right; left; reflexivity|]. auto.
           ++ intros Hcon. rewrite <- Hic in Hcon. auto.
        -- destruct (T_close s I q b0 Hq) as [H1 [H2 H3]].
           split; [intros; apply Hdem; auto|]. split; auto.
           intro Hterm. destruct (H2 Hterm) as [t [Hin Ht']]. exists t. split; auto.
      * rewrite Hvis, Hsig, Hun. simpl. apply (T_none s I).
      * apply Hdem. apply (T_root s I).
Qed.

End Struct.

(* ------------------------------------------------------------------ *)
(* parse is sound                                                       *)
(* ------------------------------------------------------------------ *)

Lemma ploop_inv (P : pstate -> Prop) (g : graph) :
  (forall a b, P a -> pstep g a = Some b -> P b) ->
  forall fuel s s', P s -> ploop fuel g s = Some s' -> P s' /\ pstep g s' = None.
Proof.
  intros Hstep. induction fuel as [|f IH]; intros s s' Hp Hl; simpl in Hl.
  - destruct (pstep g s) eqn:E; [discriminate|]. inversion Hl; subst. auto.
  - destruct (pstep g s) as [s1|] eqn:E.
    + apply (IH s1 s'); eauto.
    + inversion Hl; subst. auto.
Qed.

Lemma pstep_None_stack (g : graph) s : pstep g s = None -> ps_stack s = [].
Proof.
  unfold pstep. destruct (ps_stack s) as [|top rest]; auto.
  destruct (vis_find (ps_vis s) (tr_sig top)); [discriminate|].
  destruct (tr_sig top); [|discriminate].
  destruct (expand g n top) as [[pu a] c]. destruct a; [destruct (term_find (ps_terms s) n)|]; discriminate.
Qed.

Definition init_state (root : option nat) : pstate :=
  {| ps_stack := [{| tr_sig := root; tr_neg := false; tr_cd := true; tr_last := root |}];
     ps_vis := []; ps_terms := []; ps_undef := false; ps_contra := false |}.

Lemma init_SInv u vals root : SInv u vals root (init_state root).
Proof.
  constructor; simpl; try (intros; contradiction); try discriminate.
  - intros tr [<-|[]] H. unfold holds. simpl. unfold RH in H. rewrite H. reflexivity.
  - intros tr [<-|[]]. reflexivity.
  - intros tr [<-|[]]. reflexivity.
Qed.

Lemma init_TInv (g : graph) root : TInv g root (init_state root).
Proof.
  constructor; simpl; try (intros; contradiction); try discriminate.
  - intros tr [<-|[]]. reflexivity.
  - constructor.
  - left. eexists. split; [left; reflexivity|]. auto.
Qed.

Section Final.
Variable g : graph.
Variable rho : nat -> bool.
Variable u : bool.
Variable vals : list bool.
Hypothesis Hwf : wf g = true.
Hypothesis Hcons : consistent g rho u vals.

(* direction B: everything visited holds when the analysed conjunction is true *)
Lemma visited_holds root s :
  TInv g root s -> ps_stack s = [] -> ps_undef s = false -> ps_contra s = false ->
  (forall t, In t (ps_terms s) -> lit vals u t = true) ->
  forall p b, vis_find (ps_vis s) (Some p) = Some b -> holds u vals (Some p) b = true.
Proof.
  intros I Hst Hun Hco Hlits p. induction p as [p IH] using lt_wf_ind. intros b Hv.
  destruct (T_close g root s I p b Hv) as [Hk [Ht Hc]].
  assert (Hdem : forall d n, demanded s d n -> exists j, d = Some j /\ vis_find (ps_vis s) (Some j) = Some n).
  { intros d n [[tr [Hin _]]|[H|[_ H]]].
    - rewrite Hst in Hin. destruct Hin.
    - destruct d as [j|]; [eauto|]. exfalso.
      assert (X : ps_undef s = true) by (apply (T_none g root s I); congruence). congruence.
    - congruence. }
  unfold holds. simpl dval.
  unfold kids, is_term, is_contra, expand, mk in Hk, Ht, Hc. simpl in Hk, Ht, Hc.
  destruct (nth_error g p) as [n|] eqn:Hn.
  2:{ simpl in Ht. destruct (Ht eq_refl) as [t [Hin [Hd Hne]]].
      assert (H := Hlits t Hin). unfold lit in H. rewrite Hd, Hne in H. exact H. }
  assert (Hdrv := wf_nth g p n Hwf Hn).
  rewrite (vals_node g rho u vals Hcons p n Hn).
  destruct n as [c|d|d1 d2|d|]; simpl node_val; simpl in Hk, Ht, Hc, Hdrv.
  - destruct c; simpl in Ht, Hc.
    + destruct b; simpl; auto. rewrite Hc in Hco; auto; discriminate.
    + destruct b; simpl; auto. rewrite Hc in Hco; auto; discriminate.
    + destruct (Ht eq_refl) as [t [Hin [Hd Hne]]].
      assert (H := Hlits t Hin). unfold lit in H. rewrite Hd, Hne in H.
      rewrite (vals_node g rho u vals Hcons p _ Hn) in H. exact H.
  - destruct (Hdem d (negb b)) as [j [-> Hj]]; [apply Hk; left; reflexivity|].
    apply andb_prop in Hdrv as [Hlt _]. simpl in Hlt. apply Nat.ltb_lt in Hlt.
    assert (H := IH j Hlt (negb b) Hj). unfold holds in H. simpl in H. simpl.
    destruct b, (nth j vals u); simpl in *; congruence.
  - destruct b; simpl in Hk, Ht.
    + destruct (Ht eq_refl) as [t [Hin [Hd Hne]]].
      assert (H := Hlits t Hin). unfold lit in H. rewrite Hd, Hne in H.
      rewrite (vals_node g rho u vals Hcons p _ Hn) in H. exact H.
    + destruct (Hdem d1 false) as [j1 [-> Hj1]]; [apply Hk; left; reflexivity|].
      destruct (Hdem d2 false) as [j2 [-> Hj2]]; [apply Hk; right; left; reflexivity|].
      apply andb_prop in Hdrv as [Hlt1 Hdrv]. apply andb_prop in Hdrv as [Hlt2 _].
      simpl in Hlt1, Hlt2. apply Nat.ltb_lt in Hlt1. apply Nat.ltb_lt in Hlt2.
      assert (H1 := IH j1 Hlt1 false Hj1). assert (H2 := IH j2 Hlt2 false Hj2).
      unfold holds in H1, H2. simpl in H1, H2. simpl. destruct (nth j1 vals u), (nth j2 vals u); simpl in *; congruence.
  - destruct (Hdem d b) as [j [-> Hj]]; [apply Hk; left; reflexivity|].
    apply andb_prop in Hdrv as [Hlt _]. simpl in Hlt. apply Nat.ltb_lt in Hlt.
    exact (IH j Hlt b Hj).
  - destruct (Ht eq_refl) as [t [Hin [Hd Hne]]].
    assert (H := Hlits t Hin). unfold lit in H. rewrite Hd, Hne in H.
    rewrite (vals_node g rho u vals Hcons p _ Hn) in H. exact H.
Qed.

Theorem parse_fuel_sound fuel root c :
  parse_fuel fuel g root = Some c -> c_undef c = false ->
  dval vals u root = conj_val vals u c /\
  NoDup (map t_driver (c_terms c)) /\
  (forall t, In t (c_terms c) -> dval vals u (t_cdrv t) = nth (t_driver t) vals u).
Proof.
  unfold parse_fuel. destruct root as [r|]; [|intro H; inversion H; subst; discriminate].
  fold (init_state (Some r)).
  destruct (ploop fuel g (init_state (Some r))) as [s|] eqn:El; [|discriminate].
  intro H; inversion H; subst c; clear H. simpl. intro Hun.
  destruct (ploop_inv (SInv u vals (Some r)) g (pstep_SInv g rho u vals Hcons (Some r)) fuel _ _
              (init_SInv u vals (Some r)) El) as [IS Hend].
  destruct (ploop_inv (TInv g (Some r)) g (pstep_TInv g (Some r)) fuel _ _ (init_TInv g (Some r)) El) as [IT _].
  apply pstep_None_stack in Hend.
  split; [|split; [apply (T_nodup g _ s IT)|apply (S_cdrv u vals _ s IS)]].
  unfold conj_val. simpl.
  simpl dval. destruct (nth r vals u) eqn:ER.
  - (* root true: no contradiction, all literals true *)
    symmetry. apply andb_true_intro. split.
    + destruct (ps_contra s) eqn:Ec; auto. assert (X := S_contra u vals (Some r) s IS Ec). unfold RH in X. simpl in X. congruence.
    + apply forallb_forall. intros t Hin. apply (S_terms u vals (Some r) s IS t Hin). exact ER.
  - (* root false: the conjunction cannot be true *)
    symmetry. apply not_true_is_false. intro Hc. apply andb_prop in Hc as [Hc Hl].
    apply negb_true_iff in Hc. rewrite forallb_forall in Hl.
    assert (Hroot : vis_find (ps_vis s) (Some r) = Some false).
    { destruct (T_root g (Some r) s IT) as [[tr [Hin _]]|[Hx|[_ Hx]]]; auto.
      - rewrite Hend in Hin. destruct Hin.
      - congruence. }
    assert (X := visited_holds (Some r) s IT Hend Hun Hc Hl r false Hroot).
    unfold holds in X. simpl in X. rewrite ER in X. discriminate.
Qed.

End Final.

(* ------------------------------------------------------------------ *)
(* Termination: [fuel_bound] is always enough                           *)
(* ------------------------------------------------------------------ *)

Section Fuel.
Variable g : graph.

Definition nd (p : nat) : nat := match nth_error g p with Some n => length (drivers n) | None => 0 end.

Definition uterm (vis : list (option nat * bool)) (q : nat) : nat :=
  match vis_find vis (Some q) with Some _ => 0 | None => nd q end.

Fixpoint usum (vis : list (option nat * bool)) (l : list nat) : nat :=
  match l with [] => 0 | q :: r => uterm vis q + usum vis r end.

Lemma usum_other vis k b l :
  (forall q, In q l -> k <> Some q) -> usum ((k, b) :: vis) l = usum vis l.
Proof.
  induction l as [|q l IH]; intros H; simpl; auto.
  rewrite IH by (intros; apply H; right; auto). f_equal.
  unfold uterm. simpl. destruct (opt_eqb k (Some q)) eqn:E; auto.
  apply opt_eqb_eq in E. exfalso. apply (H q); auto. left; reflexivity.
Qed.

Lemma usum_visit vis p b l :
  NoDup l -> In p l -> vis_find vis (Some p) = None ->
  usum ((Some p, b) :: vis) l + nd p = usum vis l.
Proof.
  induction l as [|q l IH]; intros Hnd Hin Hv; [destruct Hin|].
  inversion Hnd as [|? ? Hni Hnd']; subst. simpl. destruct Hin as [->|Hin].
  - rewrite usum_other by (intros q Hq E; inversion E; subst; auto).
    unfold uterm at 1. simpl. rewrite Nat.eqb_refl. unfold uterm. rewrite Hv. lia.
  - rewrite <- (IH Hnd' Hin Hv).
    assert (p <> q) by (intro; subst; auto).
    unfold uterm at 1. simpl. destruct (p =? q) eqn:E; [apply Nat.eqb_eq in E; contradiction|].
    fold (uterm vis q). lia.
Qed.

Definition phi (s : pstate) : nat := length (ps_stack s) + usum (ps_vis s) (seq 0 (length g)).

Lemma expand_pushed_le p top pushed a c :
  expand g p top = (pushed, a, c) -> length pushed <= nd p.
Proof.
  unfold expand, nd. destruct (nth_error g p) as [[[]|d|d1 d2|d|]|]; intro H;
    try (inversion H; subst; simpl; lia).
  destruct (tr_cd top); inversion H; subst; simpl; lia.
Qed.

Lemma pstep_phi s s' : pstep g s = Some s' -> phi s' < phi s.
Proof.
  intro Hs. destruct (ps_stack s) as [|top rest] eqn:Est.
  { unfold pstep in Hs; rewrite Est in Hs; discriminate. }
  destruct (pstep_shape g s s' top rest Est Hs) as [_ Hsh]. unfold phi. rewrite Est. simpl length.
  destruct Hsh as [[b [_ [Hvis [Hst _]]]]|[Hv [Hvis [[Hsig [Hst _]]|[p [pushed [a [c [Hsig [He [Hst _]]]]]]]]]]].
  - rewrite Hvis, Hst. lia.
  - rewrite Hvis, Hst, Hsig. rewrite usum_other by (intros; discriminate). lia.
  - rewrite Hvis, Hst, Hsig. rewrite app_length, rev_length.
    assert (Hle := expand_pushed_le p top pushed a c He).
    destruct (Nat.lt_ge_cases p (length g)) as [Hlt|Hge].
    + assert (Hin : In p (seq 0 (length g))) by (apply in_seq; lia).
      rewrite Hsig in Hv.
      assert (H := usum_visit (ps_vis s) p (tr_neg top) _ (seq_NoDup (length g) 0) Hin Hv). lia.
    + rewrite usum_other.
      * assert (nd p = 0).
        { unfold nd. destruct (nth_error g p) eqn:E; auto.
          assert (p < length g) by (apply nth_error_Some; congruence). lia. }
        lia.
      * intros q Hq E. inversion E; subst. apply in_seq in Hq. lia.
Qed.

Lemma ploop_enough : forall fuel s, phi s <= fuel -> ploop fuel g s <> None.
Proof.
  induction fuel as [|f IH]; intros s Hle; simpl.
  - destruct (pstep g s) as [s1|] eqn:E; [|discriminate].
    apply pstep_phi in E. lia.
  - destruct (pstep g s) as [s1|] eqn:E; [|discriminate].
    apply IH. apply pstep_phi in E. lia.
Qed.

Lemma usum_nil_le l : usum [] l <= fold_right (fun q acc => nd q + acc) 0 l.
Proof. induction l; simpl; auto. unfold uterm at 1. simpl. lia. Qed.

Lemma nd_sum_seq : forall (h : graph) (k : nat),
  (forall i, i < length h -> nth_error g (k + i) = nth_error h i) ->
  fold_right (fun q acc => nd q + acc) 0 (seq k (length h)) =
  fold_right (fun n acc => length (drivers n) + acc) 0 h.
Proof.
  induction h as [|n h IH]; intros k H; simpl; auto.
  rewrite (IH (S k)).
  - f_equal. unfold nd. rewrite <- (Nat.add_0_r k) at 1. rewrite (H 0) by (simpl; lia). reflexivity.
  - intros i Hi. replace (S k + i) with (k + S i) by lia. rewrite H by (simpl; lia). reflexivity.
Qed.

Theorem parse_fuel_enough root : parse g root <> None.
Proof.
  unfold parse, parse_fuel. destruct root as [r|]; [|discriminate].
  fold (init_state (Some r)).
  destruct (ploop (fuel_bound g) g (init_state (Some r))) eqn:E; [discriminate|].
  exfalso. revert E. apply ploop_enough. unfold phi, init_state, fuel_bound. simpl.
  assert (H1 := usum_nil_le (seq 0 (length g))).
  rewrite (nd_sum_seq g 0) in H1 by (intros; reflexivity). lia.
Qed.

End Fuel.
