(* C09 -- creation, destruction, and the main theorems: every operation, and every sequence of
   operations, preserves the invariant; consequences of the invariant (no dangling reference). *)
From Coq Require Import List NArith Arith Bool Lia.
From Gatery Require Import WfDefs WfLemmas WfViews WfEdges WfOps.
Import ListNotations.

Lemma NoDup_snoc : forall {X} (l : list X) x, NoDup l -> ~ In x l -> NoDup (l ++ [x]).
Proof.
  induction l as [|y r IH]; intros; simpl.
  - constructor; [intros []| constructor].
  - inversion H; subst. constructor.
    + intros Hin. apply in_app_or in Hin. destruct Hin as [Hin|[Hin|[]]]; auto. subst. apply H0. simpl; auto.
    + apply IH; auto. intros Hin. apply H0. simpl; auto.
Qed.

Lemma constr_ok_none : forall ti to c, (forall i, ti i = None) -> constr_ok ti to c = true.
Proof. intros. destruct c; simpl; rewrite ?H; auto. Qed.

Lemma node_ok_at_none : forall g n, (forall i, tin_at g n i = None) -> node_ok_at g n = true.
Proof.
  intros. unfold node_ok_at. destruct (getn g n) as [nd|] eqn:E; auto.
  unfold node_okb. apply forallb_forall. intros c _. apply constr_ok_none.
  intros i. rewrite (tin_tin_at g n nd i E). auto.
Qed.

Lemma node_ok_at_dead : forall g n, liveb g n = false -> node_ok_at g n = true.
Proof. unfold liveb, node_ok_at. intros. destruct (getn g n); auto. discriminate. Qed.

(* ------------------------------------------------------------------------------------------ *)
(* createNode                                                                                 *)
(* ------------------------------------------------------------------------------------------ *)
Section Create.
  Variables (g : graph) (nin nout nclk : nat) (req : list constr) (role : N).
  Hypothesis I : ids_ok g.
  Let n0 := g_next g.
  Let nd0 := mkNode (repeat None nin) (repeat (mkOut default_ctype []) nout) None (repeat None nclk) 0 req role.
  Let g' := createNodeR g nin nout nclk req role.

  Lemma create_fresh : getn g n0 = None.
  Proof.
    unfold getn. apply get_None_keys. intros Hin. destruct I as (_ & _ & _ & H & _).
    specialize (H n0 Hin). unfold n0 in H. lia.
  Qed.

  Lemma create_getn : forall k,
    getn g' k = match getn g k with Some x => Some x | None => if N.eq_dec k n0 then Some nd0 else None end.
  Proof. intros. unfold getn, g', createNodeR. simpl. apply get_snoc. Qed.

  Lemma create_live : liveb g' n0 = true.
  Proof. unfold liveb. rewrite create_getn, create_fresh. destruct (N.eq_dec n0 n0); congruence. Qed.

  Lemma create_drv : forall x, drv g' x = drv g x.
  Proof.
    intros [m i]. unfold drv. simpl. rewrite create_getn. destruct (getn g m) eqn:E; auto.
    destruct (N.eq_dec m n0); auto. simpl. apply nth_repeat_same.
  Qed.

  Lemma create_outp_old : forall y, fst y <> n0 -> outp g' y = outp g y.
  Proof.
    intros [m p] H. unfold outp. simpl in *. rewrite create_getn. destruct (getn g m); auto.
    destruct (N.eq_dec m n0); congruence.
  Qed.

  Lemma create_cons : forall y, cons g' y = cons g y.
  Proof.
    intros [m p]. unfold cons, outp. simpl. rewrite create_getn. destruct (getn g m) eqn:E; auto.
    destruct (N.eq_dec m n0); auto. simpl. rewrite nth_error_repeat. destruct (p <? nout); auto.
  Qed.

  Lemma create_grp_of : forall k, grp_of g' k = grp_of g k.
  Proof. intros. unfold grp_of. rewrite create_getn. destruct (getn g k); auto. destruct (N.eq_dec k n0); auto. Qed.

  Lemma create_clk_of : forall x, clk_of g' x = clk_of g x.
  Proof.
    intros [m i]. unfold clk_of. simpl. rewrite create_getn. destruct (getn g m) eqn:E; auto.
    destruct (N.eq_dec m n0); auto. simpl. apply nth_repeat_same.
  Qed.

  Lemma create_req_old : forall k, k <> n0 -> req_of g' k = req_of g k.
  Proof. intros. unfold req_of. rewrite create_getn. destruct (getn g k); auto. destruct (N.eq_dec k n0); congruence. Qed.

  Lemma create_ids : ids_ok g'.
  Proof.
    destruct I as (A & B & C & D & E & F). unfold ids_ok, g', createNodeR. simpl.
    rewrite keys_snoc. repeat split; auto.
    - apply NoDup_snoc; auto. intros Hin. specialize (D _ Hin). lia.
    - intros k Hin. apply in_app_or in Hin. destruct Hin as [Hin|[<-|[]]]; [specialize (D _ Hin)|]; lia.
  Qed.
End Create.

Lemma createNodeR_InvS : forall g nin nout nclk req role, InvS g -> InvS (createNodeR g nin nout nclk req role).
Proof.
  intros g nin nout nclk req role [I1 I3 I4 I5 I6]. constructor.
  - eapply consistent_ext; [exact I1 | apply create_drv; auto |]. intros. rewrite create_cons; auto.
  - eapply consistent_ext; [exact I3 | apply create_grp_of; auto | reflexivity].
  - exact I4.
  - eapply consistent_ext; [exact I5 | apply create_clk_of; auto | reflexivity].
  - apply create_ids; auto.
Qed.

Lemma createNodeR_types_except : forall g nin nout nclk req role,
  InvS g -> types_ok g -> types_ok_except [g_next g] (createNodeR g nin nout nclk req role).
Proof.
  intros g nin nout nclk req role I IT.
  assert (Id : ids_ok g) by apply I.
  apply (types_except_unused g); [apply I | | | | apply types_except_of_ok; auto].
  - intros x. right. apply create_drv; auto.
  - intros y Hy. apply otype_same_outp. apply create_outp_old; auto.
    intros Heq. apply cons_nonempty_valid in Hy. apply out_valid_live in Hy.
    unfold liveb in Hy. rewrite Heq, create_fresh in Hy; auto. discriminate.
  - intros m Hm. right. assert (m <> g_next g) by (intros ->; apply Hm; simpl; auto).
    split; [apply create_req_old; auto|]. intros. apply otype_same_outp. apply create_outp_old; auto.
Qed.

Lemma createNode_InvS : forall g nin nout nclk req, InvS g -> InvS (createNode g nin nout nclk req).
Proof. intros. apply createNodeR_InvS; auto. Qed.

Lemma createNode_types_except : forall g nin nout nclk req,
  InvS g -> types_ok g -> types_ok_except [g_next g] (createNode g nin nout nclk req).
Proof. intros. apply createNodeR_types_except; auto. Qed.

(* createNode, then moveToGroup *)
Lemma createIn_Inv : forall g nin nout nclk req role grp,
  Inv g -> ogroupb g grp = true -> Inv (moveToGroup (createNodeR g nin nout nclk req role) (g_next g) grp).
Proof.
  intros g nin nout nclk req role grp I P. apply Inv_split in I. destruct I as [IS IT].
  apply Inv_split.
  assert (Id : ids_ok g) by apply IS.
  assert (IS1 : InvS (createNodeR g nin nout nclk req role)) by (apply createNodeR_InvS; auto).
  split.
  - apply moveToGroup_InvS; auto. apply create_live; auto.
  - apply (types_except_finish [g_next g]).
    + apply moveToGroup_types_except. apply createNodeR_types_except; auto.
    + simpl. rewrite node_ok_at_none; auto. intros i. unfold tin_at.
      destruct (moveToGroup_frame (createNodeR g nin nout nclk req role) (g_next g) grp) as ((D & _) & _).
      rewrite D, create_drv; auto. unfold drv. simpl. rewrite create_fresh; auto.
Qed.

(* ------------------------------------------------------------------------------------------ *)
(* addChildNodeGroup / createClock                                                            *)
(* ------------------------------------------------------------------------------------------ *)
Lemma addGroup_members : forall g p k, ids_ok g -> members (addGroup g p) k = members g k.
Proof.
  intros g p k I. unfold members, addGroup. simpl. rewrite get_snoc.
  destruct (get k (g_groups g)); auto. destruct (N.eq_dec k (g_gnext g)); auto.
Qed.

Lemma addGroup_groupb_mono : forall g p k, groupb g k = true -> groupb (addGroup g p) k = true.
Proof. intros g p k. unfold groupb, addGroup. simpl. rewrite get_snoc. destruct (get k (g_groups g)); auto. discriminate. Qed.

Lemma addGroup_Inv : forall g p, Inv g -> ogroupb g p = true -> Inv (addGroup g p).
Proof.
  intros g p [I1 I2 I3 I4 I5 I6] Hp. constructor.
  - exact I1.
  - exact I2.
  - eapply consistent_ext; [exact I3 | reflexivity |]. intros. rewrite addGroup_members; auto.
  - intros gid gr q Hg Hq. unfold addGroup in Hg. simpl in Hg. rewrite get_snoc in Hg.
    apply addGroup_groupb_mono.
    destruct (get gid (g_groups g)) as [gr0|] eqn:E.
    + inversion Hg; subst. eapply I4; eauto.
    + destruct (N.eq_dec gid (g_gnext g)); [|discriminate]. inversion Hg; subst. simpl in Hq. subst p. exact Hp.
  - exact I5.
  - destruct I6 as (A & B & C & D & E & F). unfold ids_ok, addGroup. simpl. rewrite keys_snoc. repeat split; auto.
    + apply NoDup_snoc; auto. intros Hin. specialize (E _ Hin). lia.
    + intros k Hin. apply in_app_or in Hin. destruct Hin as [Hin|[<-|[]]]; [specialize (E _ Hin)|]; lia.
Qed.

Lemma createClock_clocked : forall g k, clocked (createClock g) k = clocked g k.
Proof.
  intros g k. unfold clocked, createClock. simpl. rewrite get_snoc.
  destruct (get k (g_clocks g)); auto. destruct (N.eq_dec k (g_cnext g)); auto.
Qed.

Lemma createClock_Inv : forall g, Inv g -> Inv (createClock g).
Proof.
  intros g [I1 I2 I3 I4 I5 I6]. constructor.
  - exact I1.
  - exact I2.
  - exact I3.
  - exact I4.
  - eapply consistent_ext; [exact I5 | reflexivity |]. intros. rewrite createClock_clocked; auto.
  - destruct I6 as (A & B & C & D & E & F). unfold ids_ok, createClock. simpl. rewrite keys_snoc. repeat split; auto.
    + apply NoDup_snoc; auto. intros Hin. specialize (F _ Hin). lia.
    + intros k Hin. apply in_app_or in Hin. destruct Hin as [Hin|[<-|[]]]; [specialize (F _ Hin)|]; lia.
Qed.

(* ------------------------------------------------------------------------------------------ *)
(* destruction                                                                                *)
(* ------------------------------------------------------------------------------------------ *)
Definition detach_range (g : graph) (n : N) (l : list nat) : graph :=
  fold_left (fun g cp => detachClock g (n, cp)) l g.

Lemma detach_range_props : forall l g n,
  InvS g ->
  let g1 := detach_range g n l in
  InvS g1 /\ nframe g g1 /\ same_groups g g1 /\ same_skel g g1 /\
  (forall cp, In cp l -> clk_of g1 (n, cp) = None) /\
  (forall x, clk_of g x = None -> clk_of g1 x = None).
Proof.
  induction l as [|cp r IH]; intros g n I; simpl.
  - split; auto. split; [apply nframe_refl|]. split; [split; auto|]. split; [reflexivity|]. split; [tauto|auto].
  - assert (I1 : InvS (detachClock g (n, cp))) by (apply detachClock_InvS; auto).
    destruct (detachClock_frame g (n, cp)) as (F0 & (G0 & G0') & S0 & _).
    destruct (IH (detachClock g (n, cp)) n I1) as (A & B & (C1 & C2) & D & E & F).
    split; auto. split; [eapply nframe_trans; eauto|].
    split; [split; intros; [rewrite C1 | rewrite C2]; auto|].
    split; [unfold same_skel in *; congruence|].
    assert (K : forall x, clk_of (detachClock g (n, cp)) x = if nport_eq_dec x (n, cp) then None else clk_of g x)
      by (intros; apply detach_clk_of_any; apply I).
    split.
    + intros j [<-|Hj]; auto. apply F. rewrite K. destruct (nport_eq_dec (n, cp) (n, cp)); congruence.
    + intros x Hx. apply F. rewrite K. destruct (nport_eq_dec x (n, cp)); auto.
Qed.

Lemma eframe_disc_range : forall l g n, eframe g (disc_range g n l).
Proof.
  unfold disc_range. induction l; intros; simpl; [apply eframe_refl|].
  eapply eframe_trans; [apply eframe_disconnect | apply IHl].
Qed.

Lemma eframe_drain_range : forall l g n, eframe g (drain_range g n l).
Proof.
  unfold drain_range. induction l; intros; simpl; [apply eframe_refl|].
  eapply eframe_trans; [apply eframe_drain | apply IHl].
Qed.

Lemma resizeInputs_gframe : forall g n k,
  same_groups g (resizeInputs g n k) /\ same_clocks g (resizeInputs g n k) /\ same_skel g (resizeInputs g n k) /\
  same_types g (resizeInputs g n k).
Proof.
  intros. unfold resizeInputs. destruct (getn g n) as [nd|].
  - fold (disc_range g n (seq k (length (n_ins nd) - k))).
    set (g1 := disc_range g n (seq k (length (n_ins nd) - k))).
    assert (F : eframe g g1) by apply eframe_disc_range.
    fold (resize_ins g1 n k).
    destruct F as ((T1 & T2) & (G1 & G2) & (K1 & K2 & K3) & S & _).
    destruct (resize_ins_frame g1 n k) as (O & R & (G1' & G2') & (K1' & K2' & K3') & S').
    split; [split; intros; [rewrite G1' | rewrite G2']; auto|].
    split; [repeat split; intros; [rewrite K1' | rewrite K2' | rewrite K3']; auto|].
    split; [unfold same_skel in *; congruence|].
    split; intros; [rewrite (otype_same_outp _ _ y (O y)) | rewrite R]; auto.
  - repeat split; auto.
Qed.

Lemma resizeOutputs_gframe : forall g n k,
  same_groups g (resizeOutputs g n k) /\ same_clocks g (resizeOutputs g n k) /\ same_skel g (resizeOutputs g n k).
Proof.
  intros. unfold resizeOutputs. destruct (getn g n) as [nd|].
  - fold (drain_range g n (seq k (length (n_outs nd) - k))).
    set (g1 := drain_range g n (seq k (length (n_outs nd) - k))).
    assert (F : eframe g g1) by apply eframe_drain_range.
    fold (resize_outs g1 n k).
    destruct F as (_ & (G1 & G2) & (K1 & K2 & K3) & S & _).
    destruct (resize_outs_frame g1 n k) as (_ & _ & (G1' & G2') & (K1' & K2' & K3') & S').
    split; [split; intros; [rewrite G1' | rewrite G2']; auto|].
    split; [repeat split; intros; [rewrite K1' | rewrite K2' | rewrite K3']; auto|].
    unfold same_skel in *; congruence.
  - repeat split; auto.
Qed.

(* the state in which the destructors have run but the memory is not yet released *)
Definition predestroy (g : graph) (n : N) (nclk : nat) : graph :=
  resizeOutputs (resizeInputs (detach_range (moveToGroup g n None) n (seq 0 nclk)) n 0) n 0.

Lemma predestroy_props : forall g n nd,
  InvS g -> getn g n = Some nd ->
  let g4 := predestroy g n (length (n_clks nd)) in
  InvS g4 /\ same_skel g g4 /\
  grp_of g4 n = None /\ (forall cp, clk_of g4 (n, cp) = None) /\
  (forall i, drv g4 (n, i) = None) /\ (forall p, cons g4 (n, p) = []) /\
  (forall T, In n T -> types_ok_except T g -> types_ok_except T g4) /\
  (forall k, k <> n -> grp_of g4 k = grp_of g k).
Proof.
  intros g n nd I Hn. unfold predestroy.
  assert (Ln : liveb g n = true) by (unfold liveb; rewrite Hn; auto).
  set (g1 := moveToGroup g n None).
  assert (I1 : InvS g1) by (apply moveToGroup_InvS; auto).
  assert (Gn1 : grp_of g1 n = None) by (apply moveToGroup_grp_of; auto; apply I).
  destruct (moveToGroup_frame g n None) as (F1 & (K1a & K1b & K1c) & S1). fold g1 in F1, K1a, K1b, K1c, S1.
  destruct (detach_range_props (seq 0 (length (n_clks nd))) g1 n I1) as (I2 & F2 & (G2a & G2b) & S2 & D2 & E2).
  set (g2 := detach_range g1 n (seq 0 (length (n_clks nd)))) in *.
  assert (C2 : forall cp, clk_of g2 (n, cp) = None).
  { intros cp. destruct (Nat.lt_ge_cases cp (length (n_clks nd))).
    - apply D2. apply in_seq. lia.
    - apply E2. rewrite K1a. unfold clk_of. simpl. rewrite Hn. apply nth_overflow; auto. }
  assert (I3 : InvS (resizeInputs g2 n 0)) by (apply resizeInputs_InvS; auto).
  destruct (resizeInputs_gframe g2 n 0) as ((G3a & G3b) & (K3a & K3b & K3c) & S3 & T3).
  set (g3 := resizeInputs g2 n 0) in *.
  assert (D3 : forall i, drv g3 (n, i) = None) by (intros; apply resizeInputs_0_drv; apply I2).
  assert (I4 : InvS (resizeOutputs g3 n 0)) by (apply resizeOutputs_InvS; auto).
  destruct (resizeOutputs_gframe g3 n 0) as ((G4a & G4b) & (K4a & K4b & K4c) & S4).
  set (g4 := resizeOutputs g3 n 0) in *.
  split; auto.
  split; [unfold same_skel in *; congruence|].
  split; [rewrite G4a, G3a, G2a; auto|].
  split; [intros; rewrite K4a, K3a; auto|].
  split.
  { intros i. destruct (resizeOutputs_drv_le g3 n 0 (s_edges _ I3) (n, i)) as [H|H]; auto. fold g4 in H. rewrite H. auto. }
  split; [intros; apply resizeOutputs_0_cons; apply I3|].
  split.
  - intros T Hin H.
    apply resizeOutputs_types_except; auto; [apply I3|].
    apply resizeInputs_types_except; [apply I2|].
    apply (types_except_nframe g1); auto.
    apply moveToGroup_types_except; auto.
  - intros k Hk. rewrite G4a, G3a, G2a. apply moveToGroup_grp_of_other; auto.
Qed.

Lemma destroyNode_unfold : forall g n nd, getn g n = Some nd ->
  destroyNode g n = let g4 := predestroy g n (length (n_clks nd)) in with_nodes g4 (del n (g_nodes g4)).
Proof. intros. unfold destroyNode, predestroy, detach_range. rewrite H. reflexivity. Qed.

Section Del.
  Variables (g : graph) (n : N).
  Hypothesis I : InvS g.
  Hypothesis Hg : grp_of g n = None.
  Hypothesis Hc : forall cp, clk_of g (n, cp) = None.
  Hypothesis Hd : forall i, drv g (n, i) = None.
  Hypothesis Ho : forall p, cons g (n, p) = [].
  Let g' := with_nodes g (del n (g_nodes g)).

  Lemma del_getn : forall k, getn g' k = if N.eq_dec k n then None else getn g k.
  Proof. intros. unfold getn, g'. simpl. apply get_del. apply I. Qed.

  Lemma del_drv : forall x, drv g' x = drv g x.
  Proof.
    intros [m i]. unfold drv at 1. simpl. rewrite del_getn.
    destruct (N.eq_dec m n) as [->|]; [symmetry; apply Hd | reflexivity].
  Qed.

  Lemma del_outp_other : forall y, fst y <> n -> outp g' y = outp g y.
  Proof. intros [m p] H. unfold outp. simpl in *. rewrite del_getn. destruct (N.eq_dec m n); congruence. Qed.

  Lemma del_cons : forall y, cons g' y = cons g y.
  Proof.
    intros [m p]. destruct (N.eq_dec m n) as [->|H].
    - rewrite Ho. unfold cons, outp. simpl. rewrite del_getn. destruct (N.eq_dec n n); congruence.
    - apply cons_same_outp. apply del_outp_other. auto.
  Qed.

  Lemma del_grp_of : forall k, grp_of g' k = grp_of g k.
  Proof. intros. unfold grp_of at 1. rewrite del_getn. destruct (N.eq_dec k n) as [->|]; auto. Qed.

  Lemma del_clk_of : forall x, clk_of g' x = clk_of g x.
  Proof.
    intros [m i]. unfold clk_of at 1. simpl. rewrite del_getn.
    destruct (N.eq_dec m n) as [->|]; [symmetry; apply Hc | reflexivity].
  Qed.

  Lemma del_req : forall k, req_of g' k = if N.eq_dec k n then None else req_of g k.
  Proof. intros. unfold req_of. rewrite del_getn. destruct (N.eq_dec k n); auto. Qed.

  Lemma del_InvS : InvS g'.
  Proof.
    destruct I as [I1 I3 I4 I5 I6]. constructor.
    - eapply consistent_ext; [exact I1 | apply del_drv |]. intros. rewrite del_cons. auto.
    - eapply consistent_ext; [exact I3 | apply del_grp_of | reflexivity].
    - exact I4.
    - eapply consistent_ext; [exact I5 | apply del_clk_of | reflexivity].
    - destruct I6 as (A & B & C & D & E & F). unfold ids_ok, g'. simpl. repeat split; auto.
      + apply NoDup_keys_del; auto.
      + intros k Hin. apply D. eapply keys_del_incl; eauto.
  Qed.

  Lemma del_types_except : forall T, types_ok_except T g -> types_ok_except T g'.
  Proof.
    intros T H. apply (types_except_unused g); auto; [apply I | | |].
    - intros x. right. apply del_drv.
    - intros y Hy. apply otype_same_outp. apply del_outp_other. intros Heq.
      destruct y as [m p]. simpl in Heq. subst m. rewrite Ho in Hy. congruence.
    - intros m _. rewrite del_req. destruct (N.eq_dec m n); auto. right. split; auto.
      intros. apply otype_same_outp. apply del_outp_other. auto.
  Qed.

  Lemma del_dead : liveb g' n = false.
  Proof. unfold liveb. rewrite del_getn. destruct (N.eq_dec n n); congruence. Qed.
End Del.

Theorem destroyNode_preserves_Inv : forall g n, Inv g -> Inv (destroyNode g n).
Proof.
  intros g n I. destruct (getn g n) as [nd|] eqn:Hn; [|unfold destroyNode; rewrite Hn; auto].
  apply Inv_split in I. destruct I as [IS IT].
  destruct (predestroy_props g n nd IS Hn) as (I4 & _ & Hg & Hc & Hd & Ho & Ty & _).
  rewrite (destroyNode_unfold g n nd Hn). simpl.
  apply Inv_split. split.
  - apply del_InvS; auto.
  - apply (types_except_finish [n]).
    + apply del_types_except; auto. apply Ty; simpl; auto. apply types_except_of_ok; auto.
    + simpl. rewrite node_ok_at_dead; auto. apply del_dead; auto.
Qed.

(* ------------------------------------------------------------------------------------------ *)
(* Clock::setLogicClockDriver / setLogicResetDriver: clauses (i)-(v)                           *)
(* ------------------------------------------------------------------------------------------ *)
Lemma Inv_with_drv : forall g m, Inv g -> Inv (with_drv g m).
Proof. intros g m [I1 I2 I3 I4 I5 I6]. constructor; auto. Qed.

Lemma attachClock_Inv : forall g a c, Inv g -> clk_validb g a = true -> oclockb g c = true -> Inv (attachClock g a c).
Proof.
  intros g a c I Va Vc. apply Inv_split in I. destruct I as [IS IT]. apply Inv_split. split.
  - apply attachClock_InvS; auto.
  - apply types_except_nil. apply (types_except_nframe g); [apply attachClock_frame | apply types_except_nil; auto].
Qed.

Lemma setLogicDriver_Inv : forall which g c n, Inv g ->
  op_struct_pre g (OSetDriver which c n) = true -> Inv (setLogicDriver which g c n).
Proof.
  intros which g c n I P. simpl in P.
  repeat (apply andb_true_iff in P; destruct P as [P ?]).
  rename H2 into Vn. rename H0 into Vold.
  unfold setLogicDriver.
  set (g1 := match drv_of which g c with Some old => attachClock g (old, 0) None | None => g end).
  assert (I1 : Inv g1 /\ same_skel g g1 /\ forall x, clk_validb g1 x = clk_validb g x).
  { unfold g1. destruct (drv_of which g c) as [old|].
    - destruct (attachClock_frame g (old, 0) None) as (_ & _ & S & V). split; [apply attachClock_Inv; auto | auto].
    - split; auto. split; [reflexivity | auto]. }
  destruct I1 as (I1 & S1 & V1).
  apply attachClock_Inv.
  - apply Inv_with_drv; auto.
  - change (clk_validb g1 (n, 0) = true). rewrite V1; auto.
  - simpl. change (clockb g1 c = true). rewrite (clockb_skel g g1 S1). auto.
Qed.

(* ------------------------------------------------------------------------------------------ *)
(* every operation                                                                            *)
(* ------------------------------------------------------------------------------------------ *)
Lemma andb3 : forall a b c, a && b && c = true -> a = true /\ b = true /\ c = true.
Proof. intros. repeat (apply andb_true_iff in H; destruct H as [H ?]). auto. Qed.

Theorem exec_preserves_Inv : forall g o, Inv g -> op_pre g o = true -> Inv (exec g o).
Proof.
  intros g o I P. unfold op_pre in P. apply andb_true_iff in P. destruct P as [P PT].
  apply andb_true_iff in P. destruct P as [P PR].
  pose proof I as I0. apply Inv_split in I0. destruct I0 as [IS IT].
  destruct o; simpl in *.
  - (* OCreate *) apply createIn_Inv; auto.
  - (* OAddGroup *) apply addGroup_Inv; auto.
  - (* OCreateClock *) apply createClock_Inv; auto.
  - (* OConnect *)
    apply andb_true_iff in P. destruct P as [Va Vo]. simpl in PT. rewrite andb_true_r in PT.
    apply connectInput_preserves_Inv; auto.
  - (* ODisconnect *) apply disconnectInput_preserves_Inv; auto.
  - (* OSignalConnect *)
    apply andb3 in P. destruct P as (P & Vo & _). apply andb_true_iff in P. destruct P as [Va _].
    simpl in PT. rewrite andb_true_r in PT.
    apply Inv_split. split.
    + apply signalConnect_InvS; auto.
    + apply (types_except_finish [n]); [|simpl; rewrite PT; auto].
      apply signalConnect_types_except; simpl; auto. apply IS. apply types_except_of_ok; auto.
  - (* OSetType *)
    simpl in PT. rewrite andb_true_r in PT. apply setOutputConnectionType_preserves_Inv; auto.
  - (* OResizeIn *)
    apply Inv_split. split; [apply resizeInputs_InvS; auto|].
    apply types_except_nil. apply resizeInputs_types_except; [apply IS | apply types_except_nil; auto].
  - (* OResizeOut *)
    simpl in PT. rewrite andb_true_r in PT.
    apply Inv_split. split; [apply resizeOutputs_InvS; auto|].
    apply (types_except_finish [n]); [|simpl; rewrite PT; auto].
    apply resizeOutputs_types_except; simpl; auto. apply IS. apply types_except_of_ok; auto.
  - (* OBypass *)
    apply andb3 in P. destruct P as (_ & _ & Hs).
    apply bypass_preserves_Inv; auto.
    destruct (onport_eq_dec (drv g (n, i)) (Some (n, o))); [discriminate|auto].
  - (* OMoveToGroup *)
    apply andb_true_iff in P. destruct P as [Ln Lg].
    apply Inv_split. split; [apply moveToGroup_InvS; auto|].
    apply types_except_nil. apply moveToGroup_types_except. apply types_except_nil; auto.
  - (* OAddClock *)
    apply andb_true_iff in P. destruct P as [Ln Lc].
    apply Inv_split. split; [apply addClock_InvS; auto|].
    apply types_except_nil. apply (types_except_nframe g); [apply addClock_nframe | apply types_except_nil; auto].
  - (* OAttachClock *)
    apply andb_true_iff in P. destruct P as [Va Lc].
    apply Inv_split. split; [apply attachClock_InvS; auto|].
    apply types_except_nil. apply (types_except_nframe g); [apply attachClock_frame | apply types_except_nil; auto].
  - (* ODetachClock *)
    apply Inv_split. split; [apply detachClock_InvS; auto|].
    apply types_except_nil. apply (types_except_nframe g); [apply detachClock_frame | apply types_except_nil; auto].
  - (* OAddRef *)
    destruct (addRef_InvS g n IS) as [A B]. apply Inv_split. split; auto.
    apply types_except_nil. apply (types_except_nframe g); [auto | apply types_except_nil; auto].
  - (* ORemoveRef *)
    destruct (removeRef_InvS g n IS) as [A B]. apply Inv_split. split; auto.
    apply types_except_nil. apply (types_except_nframe g); [auto | apply types_except_nil; auto].
  - (* ODestroy *) apply destroyNode_preserves_Inv; auto.
  - (* OCreateDriver *) apply createIn_Inv; auto.
  - (* OSetDriver *) apply setLogicDriver_Inv; auto.
Qed.

Theorem step_preserves_Inv : forall g o, Inv g -> Inv (step g o).
Proof. intros. unfold step. destruct (op_pre g o) eqn:P; auto. apply exec_preserves_Inv; auto. Qed.

(* arbitrary sequences, by induction over the fold *)
Theorem run_preserves_Inv : forall ops g, Inv g -> Inv (run g ops).
Proof.
  unfold run. induction ops as [|o r IH]; intros; simpl; auto.
  apply IH. apply step_preserves_Inv; auto.
Qed.

Lemma empty_graph_Inv : Inv empty_graph.
Proof.
  constructor.
  - intros a b. unfold drv, cons, outp, getn, empty_graph. simpl. split; [discriminate | auto].
  - intros n nd H. unfold getn, empty_graph in H. simpl in H. discriminate.
  - intros a b. unfold grp_of, members, getn, empty_graph. simpl. split; [discriminate|].
    intros _. destruct (N.eqb b 0); auto.
  - intros gid gr p H Hp. unfold empty_graph in H. simpl in H.
    destruct (N.eqb gid 0); inversion H; subst. simpl in Hp. discriminate.
  - intros a b. unfold clk_of, clocked, getn, empty_graph. simpl. split; [discriminate | auto].
  - unfold ids_ok, empty_graph. simpl. repeat split; try constructor; auto; try constructor.
    + intros k [].
    + intros k [<-|[]]. reflexivity.
    + intros k [].
Qed.

(* the graph built by ANY sequence of interface calls from the empty circuit is well formed *)
Corollary reachable_Inv : forall ops, Inv (run empty_graph ops).
Proof. intros. apply run_preserves_Inv. apply empty_graph_Inv. Qed.

(* ------------------------------------------------------------------------------------------ *)
(* consequences: nothing refers to a destroyed (absent) node / group / clock  (clause (vi))   *)
(* ------------------------------------------------------------------------------------------ *)
Theorem no_dangling : forall g, Inv g ->
  (forall a b, drv g a = Some b -> out_validb g b = true /\ liveb g (fst b) = true) /\
  (forall b a, In a (cons g b) -> in_validb g a = true /\ liveb g (fst a) = true /\ drv g a = Some b) /\
  (forall n gid, grp_of g n = Some gid -> groupb g gid = true) /\
  (forall gid n, In n (members g gid) -> liveb g n = true /\ grp_of g n = Some gid) /\
  (forall a c, clk_of g a = Some c -> clockb g c = true) /\
  (forall c a, In a (clocked g c) -> clk_validb g a = true /\ clk_of g a = Some c).
Proof.
  intros g [I1 I2 I3 I4 I5 I6]. repeat split.
  - eapply In_cons_valid. eapply drv_Some_cons; eauto.
  - apply out_valid_live. eapply In_cons_valid. eapply drv_Some_cons; eauto.
  - eapply drv_Some_valid. eapply (consistent_In nport_eq_dec nport_eq_dec); eauto.
  - apply in_valid_live. eapply drv_Some_valid. eapply (consistent_In nport_eq_dec nport_eq_dec); eauto.
  - eapply (consistent_In nport_eq_dec nport_eq_dec); eauto.
  - intros n gid H. eapply members_nonempty_group. apply (count_occ_In N.eq_dec).
    destruct (I3 n gid) as [H1 _]. rewrite H1; auto.
  - assert (G : grp_of g n = Some gid) by (eapply (consistent_In N.eq_dec N.eq_dec); eauto).
    unfold grp_of, liveb in *. destruct (getn g n); auto. discriminate.
  - eapply (consistent_In N.eq_dec N.eq_dec); eauto.
  - intros a c H. eapply clocked_nonempty_clock. apply (count_occ_In nport_eq_dec).
    destruct (I5 a c) as [H1 _]. rewrite H1; auto.
  - eapply clk_Some_valid. eapply (consistent_In nport_eq_dec N.eq_dec); eauto.
  - eapply (consistent_In nport_eq_dec N.eq_dec); eauto.
Qed.

(* "exactly once" in the wording of the property *)
Theorem edges_exactly_once : forall g, Inv g ->
  forall a b, drv g a = Some b <-> count_np a (cons g b) = 1.
Proof.
  intros g I a b. destruct (inv_edges g I a b) as [H1 H2]. split; auto.
  intros H. destruct (onport_eq_dec (drv g a) (Some b)); auto. unfold count_np in H. rewrite H2 in H; auto. discriminate.
Qed.

Theorem one_group : forall g, Inv g ->
  forall n gid, grp_of g n = Some gid <-> count_N n (members g gid) = 1.
Proof.
  intros g I a b. destruct (inv_groups g I a b) as [H1 H2]. split; auto.
  intros H. destruct (oN_eq_dec (grp_of g a) (Some b)); auto. unfold count_N in H. rewrite H2 in H; auto. discriminate.
Qed.

Theorem clock_registered : forall g, Inv g ->
  forall a c, clk_of g a = Some c <-> count_np a (clocked g c) = 1.
Proof.
  intros g I a b. destruct (inv_clocks g I a b) as [H1 H2]. split; auto.
  intros H. destruct (oN_eq_dec (clk_of g a) (Some b)); auto. unfold count_np in H. rewrite H2 in H; auto. discriminate.
Qed.

(* ------------------------------------------------------------------------------------------ *)
(* "every node belongs to a group": preserved by every operation that does not ask for the     *)
(* opposite (createNode without a following moveToGroup, moveToGroup(nullptr))                *)
(* ------------------------------------------------------------------------------------------ *)
Lemma AllGrouped_alt : forall g, AllGrouped g <-> (forall n, liveb g n = true -> grp_of g n <> None).
Proof.
  intros. unfold AllGrouped, liveb, grp_of. split; intros H n.
  - destruct (getn g n) as [nd|] eqn:E; [|discriminate]. intros _. eapply H; eauto.
  - intros nd E. specialize (H n). rewrite E in H. auto.
Qed.

Definition sgframe g g' := same_groups g g' /\ same_skel g g'.

Lemma sgframe_refl : forall g, sgframe g g. Proof. intros. split; [split; auto | reflexivity]. Qed.
Lemma sgframe_trans : forall g1 g2 g3, sgframe g1 g2 -> sgframe g2 g3 -> sgframe g1 g3.
Proof.
  intros g1 g2 g3 ((A & B) & S) ((A' & B') & S'). split; [split; intros; [rewrite A' | rewrite B']; auto|].
  unfold same_skel in *. congruence.
Qed.
Lemma sgframe_eframe : forall g g', eframe g g' -> sgframe g g'.
Proof. intros g g' (_ & G & _ & S & _). split; auto. Qed.

Lemma AllGrouped_frame : forall g g', sgframe g g' -> AllGrouped g -> AllGrouped g'.
Proof.
  intros g g' ((G & _) & S) H. apply AllGrouped_alt. intros n L. rewrite G.
  apply AllGrouped_alt; auto. rewrite <- (liveb_skel g g' S). auto.
Qed.

Definition keeps_grouped (o : op) : bool :=
  match o with
  | OCreate _ _ _ _ None => false
  | OMoveToGroup _ None => false
  | OCreateDriver _ None => false
  | _ => true
  end.

Lemma sgframe_setType : forall g b t, sgframe g (setOutputConnectionType g b t).
Proof. intros. destruct (setType_eframe_but_types g b t) as (_ & _ & _ & G & _ & S & _). split; auto. Qed.

Lemma sgframe_signalConnect : forall g n out, sgframe g (signalConnect g n out).
Proof.
  intros. unfold signalConnect. destruct out as [b|]; [|apply sgframe_eframe; apply eframe_connect].
  destruct (otype g b); [|apply sgframe_refl]. destruct (otype g (n, 0)); [|apply sgframe_refl].
  destruct (cons g (n, 0)).
  - eapply sgframe_trans; [apply sgframe_setType | apply sgframe_eframe; apply eframe_connect].
  - destruct (ctype_eq_dec c c0); [apply sgframe_eframe; apply eframe_connect | apply sgframe_refl].
Qed.

Lemma sgframe_upd_ref : forall g n (h : node -> node),
  (forall nd, n_grp (h nd) = n_grp nd) -> (forall nd, n_role (h nd) = n_role nd) -> sgframe g (upd_node g n h).
Proof.
  intros. split; [split; intros; [|reflexivity]|apply skeleton_upd_node; auto].
  unfold grp_of. apply node_view_upd_same. auto.
Qed.

Lemma sgframe_attach : forall g a c, sgframe g (attachClock g a c).
Proof. intros. destruct (attachClock_frame g a c) as (_ & G & S & _). split; auto. Qed.

(* setLogicDriver touches clock ports and the driver table only *)
Lemma setLogicDriver_frame : forall which g c n,
  let g' := setLogicDriver which g c n in
  nframe g g' /\ same_groups g g' /\ (forall k, liveb g' k = liveb g k) /\ (forall k, role_of g' k = role_of g k) /\
  (forall k, clockb g' k = clockb g k) /\ (forall x, clk_validb g' x = clk_validb g x).
Proof.
  intros. unfold g', setLogicDriver.
  set (g1 := match drv_of which g c with Some old => attachClock g (old, 0) None | None => g end).
  assert (F1 : nframe g g1 /\ same_groups g g1 /\ same_skel g g1 /\ (forall x, clk_validb g1 x = clk_validb g x)).
  { unfold g1. destruct (drv_of which g c); [apply attachClock_frame|].
    split; [apply nframe_refl|]. split; [split; auto|]. split; [reflexivity|auto]. }
  destruct F1 as (N1 & (G1a & G1b) & S1 & V1).
  set (g2 := set_drv g1 c which (Some n)).
  destruct (attachClock_frame g2 (n, 0) (Some c)) as (N3 & (G3a & G3b) & S3 & V3).
  split; [eapply nframe_trans; [exact N1|]; exact N3|].
  split; [split; intros; [rewrite G3a | rewrite G3b]; [apply G1a | apply G1b]|].
  split; [intros; rewrite (liveb_skel g2 _ S3); change (liveb g1 k = liveb g k); apply liveb_skel; auto|].
  split; [intros; rewrite (role_of_skel g2 _ k S3); change (role_of g1 k = role_of g k); apply role_of_skel; auto|].
  split; [intros; rewrite (clockb_skel g2 _ S3); change (clockb g1 k = clockb g k); apply clockb_skel; auto|].
  intros. rewrite V3. change (clk_validb g1 x = clk_validb g x). apply V1.
Qed.

Lemma createIn_AllGrouped : forall g nin nout nclk req role gid,
  InvS g -> AllGrouped g -> AllGrouped (moveToGroup (createNodeR g nin nout nclk req role) (g_next g) (Some gid)).
Proof.
  intros g nin nout nclk req role gid IS A.
  assert (Id : ids_ok g) by apply IS.
  set (g1 := createNodeR g nin nout nclk req role).
  assert (IS1 : InvS g1) by (apply createNodeR_InvS; auto).
  assert (L1 : liveb g1 (g_next g) = true) by (apply create_live; auto).
  apply AllGrouped_alt. intros k Lk.
  destruct (N.eq_dec k (g_next g)) as [->|Hk].
  - rewrite (moveToGroup_grp_of g1 (g_next g) (Some gid)); [discriminate | apply IS1 | exact L1].
  - rewrite moveToGroup_grp_of_other by auto. unfold g1. rewrite create_grp_of by auto.
    apply AllGrouped_alt; auto.
    rewrite (liveb_skel g1) in Lk by apply moveToGroup_frame.
    unfold liveb, g1 in Lk. rewrite create_getn in Lk by auto. unfold liveb.
    destruct (getn g k); auto. destruct (N.eq_dec k (g_next g)); [congruence | discriminate].
Qed.

Theorem exec_preserves_AllGrouped : forall g o,
  Inv g -> AllGrouped g -> op_pre g o = true -> keeps_grouped o = true -> AllGrouped (exec g o).
Proof.
  intros g o I A P K. unfold op_pre in P. apply andb_true_iff in P. destruct P as [P _].
  apply andb_true_iff in P. destruct P as [P _].
  apply Inv_split in I. destruct I as [IS _].
  destruct o; simpl in *.
  - (* OCreate *) destruct grp as [gid|]; [|discriminate]. apply createIn_AllGrouped; auto.
  - (* OAddGroup *) exact A.
  - (* OCreateClock *) exact A.
  - apply (AllGrouped_frame g); auto. apply sgframe_eframe. apply eframe_connect.
  - apply (AllGrouped_frame g); auto. apply sgframe_eframe. apply eframe_disconnect.
  - apply (AllGrouped_frame g); auto. apply sgframe_signalConnect.
  - apply (AllGrouped_frame g); auto. apply sgframe_setType.
  - apply (AllGrouped_frame g); auto. destruct (resizeInputs_gframe g n k) as (G & _ & S & _). split; auto.
  - apply (AllGrouped_frame g); auto. destruct (resizeOutputs_gframe g n k) as (G & _ & S). split; auto.
  - apply (AllGrouped_frame g); auto. apply sgframe_eframe. apply eframe_bypass_loop.
  - (* OMoveToGroup *) destruct grp as [gid|]; [|discriminate].
    apply andb_true_iff in P. destruct P as [Ln _].
    apply AllGrouped_alt. intros k Lk. destruct (N.eq_dec k n) as [->|Hk].
    + rewrite moveToGroup_grp_of; auto; [discriminate | apply IS].
    + rewrite moveToGroup_grp_of_other by auto. apply AllGrouped_alt; auto.
      rewrite (liveb_skel g) in Lk by apply moveToGroup_frame. auto.
  - (* OAddClock *) apply (AllGrouped_frame g); auto. unfold addClock. destruct (getn g n); [|apply sgframe_refl].
    fold (push_clk g n). eapply sgframe_trans.
    + destruct (push_clk_frame g n) as (_ & G & S). split; eauto.
    + destruct (attachClock_frame (push_clk g n) (n, length (n_clks n0)) c) as (_ & G & S & _). split; auto.
  - apply (AllGrouped_frame g); auto. destruct (attachClock_frame g a c) as (_ & G & S & _). split; auto.
  - apply (AllGrouped_frame g); auto. destruct (detachClock_frame g a) as (_ & G & S & _). split; auto.
  - apply (AllGrouped_frame g); auto. apply sgframe_upd_ref; auto.
  - apply (AllGrouped_frame g); auto. apply sgframe_upd_ref; intros nd; destruct (N.eqb (n_ref nd) 0); auto.
  - (* ODestroy *)
    destruct (getn g n) as [nd|] eqn:Hn; [|discriminate].
    destruct (predestroy_props g n nd IS Hn) as (I4 & S4 & Hg & Hc & Hd & Ho & _ & Go).
    rewrite (destroyNode_unfold g n nd Hn). simpl.
    apply AllGrouped_alt. intros k Lk.
    unfold liveb in Lk. rewrite del_getn in Lk by auto.
    destruct (N.eq_dec k n) as [|Hk]; [discriminate|].
    rewrite del_grp_of by auto. rewrite Go by auto. apply AllGrouped_alt; auto.
    rewrite <- (liveb_skel g _ S4). exact Lk.
  - (* OCreateDriver *) destruct grp as [gid|]; [|discriminate]. apply createIn_AllGrouped; auto.
  - (* OSetDriver *)
    destruct (setLogicDriver_frame which g c n) as (_ & (G & _) & L & _).
    apply AllGrouped_alt. intros k Lk. rewrite G. apply AllGrouped_alt; auto. rewrite <- L. exact Lk.
Qed.

Definition stepG (g : graph) (o : op) : graph := if keeps_grouped o then step g o else g.

Theorem run_preserves_wf : forall ops g,
  Inv g -> AllGrouped g ->
  Inv (fold_left stepG ops g) /\ AllGrouped (fold_left stepG ops g).
Proof.
  induction ops as [|o r IH]; intros g I A; simpl; auto.
  apply IH.
  - unfold stepG. destruct (keeps_grouped o); auto. apply step_preserves_Inv; auto.
  - unfold stepG. destruct (keeps_grouped o) eqn:K; auto. unfold step.
    destruct (op_pre g o) eqn:P; auto. apply exec_preserves_AllGrouped; auto.
Qed.

(* ------------------------------------------------------------------------------------------ *)
(* specifications used by Properties_C09                                                       *)
(* ------------------------------------------------------------------------------------------ *)
Lemma swap_remove_spec : forall (l : list nport) (a x : nport),
  In a l ->
  count_np x (swap_remove nport_eq_dec a l) = (if nport_eq_dec x a then count_np x l - 1 else count_np x l)
  /\ S (length (swap_remove nport_eq_dec a l)) = length l.
Proof.
  intros l a x H. split; [|apply length_swap_remove; auto]. unfold count_np.
  destruct (nport_eq_dec x a) as [->|Hne]; [apply count_swap_remove_eq | apply count_swap_remove_neq]; auto.
Qed.

Lemma bypass_drv_spec : forall g n o i x,
  Inv g -> drv g (n, i) <> Some (n, o) ->
  drv (bypassOutputToInput g n o i) x = if onport_eq_dec (drv g x) (Some (n, o)) then drv g (n, i) else drv g x.
Proof.
  intros g n o i x I Hs. unfold bypassOutputToInput.
  assert (E : consistent nport_eq_dec (drv g) (cons g)) by apply I.
  destruct (onport_eq_dec (drv g x) (Some (n, o))) as [D|D].
  - apply bypass_loop_drv_moved; auto. apply bypass_src_valid; auto.
  - apply bypass_loop_drv_other; auto. apply bypass_src_valid; auto.
Qed.
