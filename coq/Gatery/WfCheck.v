(* C09 -- the boolean checker run on every dump decides the invariant:
     inv_check g = true <-> Inv g          wf_check g = true <-> Inv g /\ AllGrouped g *)
From Coq Require Import List NArith Arith Bool Lia.
From Gatery Require Import WfDefs WfLemmas WfViews.
Import ListNotations.

Lemma nth_None_Some : forall {X} (l : list (option X)) i b,
  nth i l None = Some b <-> nth_error l i = Some (Some b).
Proof.
  induction l as [|x r IH]; intros; destruct i; simpl; split; intros; try discriminate; auto.
  - congruence. - congruence. - apply IH; auto. - apply IH; auto.
Qed.

Lemma drv_Some_iff : forall g n i b,
  drv g (n, i) = Some b <-> exists nd, getn g n = Some nd /\ nth_error (n_ins nd) i = Some (Some b).
Proof.
  intros. unfold drv. simpl. split.
  - destruct (getn g n) as [nd|]; [|discriminate]. intros H. exists nd. split; auto. apply nth_None_Some; auto.
  - intros (nd & -> & H). apply nth_None_Some; auto.
Qed.

Lemma clk_Some_iff : forall g n i c,
  clk_of g (n, i) = Some c <-> exists nd, getn g n = Some nd /\ nth_error (n_clks nd) i = Some (Some c).
Proof.
  intros. unfold clk_of. simpl. split.
  - destruct (getn g n) as [nd|]; [|discriminate]. intros H. exists nd. split; auto. apply nth_None_Some; auto.
  - intros (nd & -> & H). apply nth_None_Some; auto.
Qed.

Lemma In_cons_iff : forall g m p a,
  In a (cons g (m, p)) <-> exists md o, getn g m = Some md /\ nth_error (n_outs md) p = Some o /\ In a (o_cons o).
Proof.
  intros. unfold cons, outp. simpl. split.
  - destruct (getn g m) as [md|]; [|intros []]. destruct (nth_error (n_outs md) p) as [o|] eqn:E; [|intros []].
    intros H. exists md, o. auto.
  - intros (md & o & -> & -> & H). auto.
Qed.

Section Checks.
  Variable g : graph.
  Hypothesis ND : NoDup (keys (g_nodes g)).
  Hypothesis NDg : NoDup (keys (g_groups g)).
  Hypothesis NDc : NoDup (keys (g_clocks g)).

  Lemma edges_fwd_spec :
    edges_fwd_check g = true <-> (forall a b, drv g a = Some b -> count_np a (cons g b) = 1).
  Proof.
    unfold edges_fwd_check. rewrite forallb_amap by auto. split.
    - intros H [n i] b D. apply drv_Some_iff in D. destruct D as (nd & Hn & Hi).
      specialize (H n nd Hn). simpl in H. rewrite forallb_i_spec in H. specialize (H i _ Hi). simpl in H.
      apply Nat.eqb_eq in H. auto.
    - intros H n nd Hn. simpl. rewrite forallb_i_spec. intros i d Hi. simpl. destruct d as [b|]; auto.
      apply Nat.eqb_eq. apply H. apply drv_Some_iff. eauto.
  Qed.

  Lemma edges_bwd_spec :
    edges_bwd_check g = true <-> (forall b a, In a (cons g b) -> drv g a = Some b).
  Proof.
    unfold edges_bwd_check. rewrite forallb_amap by auto. split.
    - intros H [m p] a Hin. apply In_cons_iff in Hin. destruct Hin as (md & o & Hm & Hp & Ha).
      specialize (H m md Hm). simpl in H. rewrite forallb_i_spec in H. specialize (H p o Hp). simpl in H.
      rewrite forallb_forall in H. specialize (H a Ha).
      destruct (onport_eq_dec (drv g a) (Some (m, p))); [auto|discriminate].
    - intros H m md Hm. simpl. rewrite forallb_i_spec. intros p o Hp. simpl. rewrite forallb_forall. intros a Ha.
      destruct (onport_eq_dec (drv g a) (Some (m, p))) as [|Hne]; auto. exfalso. apply Hne. apply H.
      apply In_cons_iff. eauto.
  Qed.

  Lemma groups_fwd_spec :
    groups_fwd_check g = true <-> (forall n gid, grp_of g n = Some gid -> count_N n (members g gid) = 1).
  Proof.
    unfold groups_fwd_check. rewrite forallb_amap by auto. split.
    - intros H n gid G. unfold grp_of in G. destruct (getn g n) as [nd|] eqn:Hn; [|discriminate].
      specialize (H n nd Hn). simpl in H. rewrite G in H. apply Nat.eqb_eq in H. auto.
    - intros H n nd Hn. simpl. destruct (n_grp nd) as [gid|] eqn:G; auto.
      apply Nat.eqb_eq. apply H. unfold grp_of. unfold getn. rewrite Hn. auto.
  Qed.

  Lemma groups_bwd_spec :
    groups_bwd_check g = true <-> (forall gid n, In n (members g gid) -> grp_of g n = Some gid).
  Proof.
    unfold groups_bwd_check. rewrite forallb_amap by auto. split.
    - intros H gid n Hin. unfold members in Hin. destruct (get gid (g_groups g)) as [gr|] eqn:Hg; [|inversion Hin].
      specialize (H gid gr Hg). simpl in H. rewrite forallb_forall in H. specialize (H n Hin).
      destruct (oN_eq_dec (grp_of g n) (Some gid)); [auto|discriminate].
    - intros H gid gr Hg. simpl. rewrite forallb_forall. intros n Hn.
      destruct (oN_eq_dec (grp_of g n) (Some gid)) as [|Hne]; auto. exfalso. apply Hne. apply H.
      unfold members. rewrite Hg. auto.
  Qed.

  Lemma clocks_fwd_spec :
    clocks_fwd_check g = true <-> (forall a c, clk_of g a = Some c -> count_np a (clocked g c) = 1).
  Proof.
    unfold clocks_fwd_check. rewrite forallb_amap by auto. split.
    - intros H [n i] c D. apply clk_Some_iff in D. destruct D as (nd & Hn & Hi).
      specialize (H n nd Hn). simpl in H. rewrite forallb_i_spec in H. specialize (H i _ Hi). simpl in H.
      apply Nat.eqb_eq in H. auto.
    - intros H n nd Hn. simpl. rewrite forallb_i_spec. intros i d Hi. simpl. destruct d as [c|]; auto.
      apply Nat.eqb_eq. apply H. apply clk_Some_iff. eauto.
  Qed.

  Lemma clocks_bwd_spec :
    clocks_bwd_check g = true <-> (forall c a, In a (clocked g c) -> clk_of g a = Some c).
  Proof.
    unfold clocks_bwd_check. rewrite forallb_amap by auto. split.
    - intros H c a Hin. unfold clocked in Hin. destruct (get c (g_clocks g)) as [l|] eqn:Hc; [|inversion Hin].
      specialize (H c l Hc). simpl in H. rewrite forallb_forall in H. specialize (H a Hin).
      destruct (oN_eq_dec (clk_of g a) (Some c)); [auto|discriminate].
    - intros H c l Hc. simpl. rewrite forallb_forall. intros a Ha.
      destruct (oN_eq_dec (clk_of g a) (Some c)) as [|Hne]; auto. exfalso. apply Hne. apply H.
      unfold clocked. rewrite Hc. auto.
  Qed.

  Lemma parents_spec : parents_check g = true <-> parents_ok g.
  Proof.
    unfold parents_check, parents_ok. rewrite forallb_amap by auto. split.
    - intros H gid gr p Hg Hp. specialize (H gid gr Hg). simpl in H. rewrite Hp in H. auto.
    - intros H gid gr Hg. simpl. destruct (gr_parent gr) as [p|] eqn:Hp; simpl; auto. eapply H; eauto.
  Qed.

  Lemma types_spec : types_check g = true <-> types_ok g.
  Proof.
    unfold types_check, types_ok. rewrite forallb_amap by auto. split; intros H n nd Hn; apply (H n nd Hn).
  Qed.

  Lemma grouped_spec : grouped_check g = true <-> AllGrouped g.
  Proof.
    unfold grouped_check, AllGrouped. rewrite forallb_amap by auto. split.
    - intros H n nd Hn. specialize (H n nd Hn). simpl in H. destruct (n_grp nd); [discriminate|discriminate].
    - intros H n nd Hn. simpl. specialize (H n nd Hn). destruct (n_grp nd); [reflexivity | congruence].
  Qed.
End Checks.

(* the two one-directional checks together are the two-directional agreement *)
Lemma consistent_of_checks : forall {A B} (eqA : forall x y : A, {x = y} + {x <> y}) (eqB : forall x y : B, {x = y} + {x <> y})
  (f : A -> option B) (L : B -> list A),
  (forall a b, f a = Some b -> count_occ eqA (L b) a = 1) ->
  (forall b a, In a (L b) -> f a = Some b) ->
  consistent eqA f L.
Proof.
  intros A B eqA eqB f L H1 H2 a b. split; auto.
  intros Hne. destruct (count_occ eqA (L b) a) eqn:C; auto.
  exfalso. apply Hne. apply H2. apply (count_occ_In eqA). lia.
Qed.

Lemma checks_of_consistent : forall {A B} (eqA : forall x y : A, {x = y} + {x <> y}) (eqB : forall x y : B, {x = y} + {x <> y})
  (f : A -> option B) (L : B -> list A),
  consistent eqA f L ->
  (forall a b, f a = Some b -> count_occ eqA (L b) a = 1) /\ (forall b a, In a (L b) -> f a = Some b).
Proof.
  intros A B eqA eqB f L H. split.
  - intros a b. apply H.
  - intros b a Hin. eapply consistent_In; eauto.
Qed.

Lemma all_below_spec : forall bound l, all_below bound l = true <-> (forall k, In k l -> (k < bound)%N).
Proof.
  intros. unfold all_below. rewrite forallb_forall. split; intros H k Hk.
  - apply N.ltb_lt. auto.
  - apply N.ltb_lt. auto.
Qed.

Lemma ids_spec : forall g, ids_check g = true <-> ids_ok g.
Proof.
  intros. unfold ids_check, ids_ok.
  rewrite !andb_true_iff, !nodupb_true, !all_below_spec. tauto.
Qed.

Theorem inv_check_reflect : forall g, inv_check g = true <-> Inv g.
Proof.
  intros g. unfold inv_check. rewrite !andb_true_iff. split.
  - intros ((((((((Hid & Hef) & Heb) & Hgf) & Hgb) & Hp) & Hcf) & Hcb) & Ht).
    apply ids_spec in Hid. pose proof Hid as (ND & NDg & NDc & _).
    constructor; auto.
    + apply (consistent_of_checks nport_eq_dec nport_eq_dec); [apply edges_fwd_spec | apply edges_bwd_spec]; auto.
    + apply types_spec; auto.
    + apply (consistent_of_checks N.eq_dec N.eq_dec); [apply groups_fwd_spec | apply groups_bwd_spec]; auto.
    + apply parents_spec; auto.
    + apply (consistent_of_checks nport_eq_dec N.eq_dec); [apply clocks_fwd_spec | apply clocks_bwd_spec]; auto.
  - intros [I1 I2 I3 I4 I5 I6]. pose proof I6 as (ND & NDg & NDc & _).
    destruct (checks_of_consistent nport_eq_dec nport_eq_dec _ _ I1) as [E1 E2].
    destruct (checks_of_consistent N.eq_dec N.eq_dec _ _ I3) as [G1 G2].
    destruct (checks_of_consistent nport_eq_dec N.eq_dec _ _ I5) as [C1 C2].
    repeat split.
    + apply ids_spec; auto.
    + apply edges_fwd_spec; auto.
    + apply edges_bwd_spec; auto.
    + apply groups_fwd_spec; auto.
    + apply groups_bwd_spec; auto.
    + apply parents_spec; auto.
    + apply clocks_fwd_spec; auto.
    + apply clocks_bwd_spec; auto.
    + apply types_spec; auto.
Qed.

Theorem wf_check_reflect : forall g, wf_check g = true <-> Inv g /\ AllGrouped g.
Proof.
  intros g. unfold wf_check. rewrite andb_true_iff, inv_check_reflect. split.
  - intros [I G]. split; auto. apply grouped_spec; auto. apply I.
  - intros [I G]. split; auto. apply grouped_spec; auto. apply I.
Qed.

(* ------------------------------------------------------------------------------------------ *)
(* what clause (ii) says for a multiplexer and for a memory port, in terms of the views         *)
(* ------------------------------------------------------------------------------------------ *)
Lemma tin_drv : forall g n nd i b, getn g n = Some nd -> drv g (n, i) = Some b -> tin g nd i = otype g b.
Proof. intros. unfold tin. unfold drv in H0. simpl in H0. rewrite H in H0. rewrite H0. reflexivity. Qed.

Theorem mux_inputs_have_output_type : forall g n nd k i b t,
  getn g n = Some nd -> n_req nd = kind_req (KMux k) -> node_okb g nd = true ->
  1 <= i <= k -> drv g (n, i) = Some b -> otype g b = Some t -> otype g (n, 0) = Some t.
Proof.
  intros g n nd k i b t Hn Hr Hok Hi Hd Ht. unfold node_okb in Hok. rewrite Hr in Hok. simpl in Hok.
  rewrite forallb_forall in Hok.
  assert (Hin : In (CEqOut i 0) (map (fun k0 => CEqOut (S k0) 0) (seq 0 k))).
  { destruct i as [|i']; [lia|]. apply in_map_iff. exists i'. split; auto. apply in_seq. lia. }
  specialize (Hok _ Hin). simpl in Hok. rewrite (tin_drv g n nd i b Hn Hd), Ht in Hok.
  rewrite (tout_otype g n nd 0 Hn) in Hok.
  destruct (otype g (n, 0)) as [t'|]; [|discriminate]. destruct (ctype_eq_dec t t'); [congruence|discriminate].
Qed.

Theorem memport_widths : forall g n nd ab db,
  getn g n = Some nd -> n_req nd = kind_req (KMemPort ab db) -> node_okb g nd = true ->
  (forall b t, drv g (n, 2) = Some b -> otype g b = Some t -> ct_width t = ab) /\
  (forall b t, drv g (n, 3) = Some b -> otype g b = Some t -> ct_width t = db) /\
  (forall b t, drv g (n, 0) = Some b -> otype g b = Some t -> ct_width t = 1%N) /\
  (forall b t, drv g (n, 1) = Some b -> otype g b = Some t -> ct_width t = 1%N).
Proof.
  intros g n nd ab db Hn Hr Hok. unfold node_okb in Hok. rewrite Hr in Hok. simpl in Hok.
  repeat (apply andb_true_iff in Hok; destruct Hok as [? Hok]).
  repeat split; intros b t Hd Ht;
    match goal with
    | H : match tin g nd ?i with _ => _ end = true |- _ =>
        match type of Hd with drv g (n, i) = _ => rewrite (tin_drv g n nd i b Hn Hd), Ht in H; apply N.eqb_eq in H; exact H end
    end.
Qed.
