(* C03 layer (b), lemma library: single-node evaluation, rewire pieces, values of
   concatenations, the two's complement reading. *)
From Gatery Require Import Bits NodeSemDefs NodeSemBits NodeSemSpec NodeSemSpecArith NodeSemSpecShift FrontendOpsDefs.
Import ListNotations.

(* ------------------------------------------------------------------ *)
(* node1                                                                 *)

Lemma node1_eq k args y : eval k (map (@Some bv) args) = [y] -> node1 k args = y.
Proof. unfold node1. intros ->. reflexivity. Qed.

Lemma node1_rewire rs args :
  node1 (KRewire rs) args = concat (map (rewire_piece (map (@Some bv) args)) rs).
Proof. apply node1_eq. apply eval_rewire_spec. Qed.

Lemma node1_length k args : length (node1 k args) = nth 0 (out_widths k) 0.
Proof.
  unfold node1. pose proof (eval_length k (map (@Some bv) args)) as H.
  destruct (eval k (map (@Some bv) args)) as [|y r]; destruct (out_widths k) as [|w ws]; simpl in *; try discriminate; try reflexivity.
  injection H as H _. exact H.
Qed.

(* ------------------------------------------------------------------ *)
(* slices of a list                                                      *)

Lemma bv_slice_full x : bv_slice x 0 (length x) = x.
Proof. unfold bv_slice. cbn [Nat.add]. apply bv_resize_id. Qed.

Lemma bv_slice_one x i : bv_slice x i 1 = [bv_get x i].
Proof. unfold bv_slice, bv_build. cbn [seq map]. rewrite Nat.add_0_r. reflexivity. Qed.

Lemma bv_slice_zero x i : bv_slice x i 0 = [].
Proof. reflexivity. Qed.

Lemma bv_slice_firstn_skipn x off w :
  off + w <= length x -> bv_slice x off w = firstn w (skipn off x).
Proof.
  intro H. apply bv_ext.
  - rewrite bv_slice_length, firstn_length, skipn_length. lia.
  - intros i Hi. rewrite bv_slice_length in Hi. unfold bv_slice. rewrite bv_get_build.
    apply Nat.ltb_lt in Hi as Hi'. rewrite Hi'.
    rewrite (bv_get_firstn w (skipn off x) i), Hi'. rewrite (bv_get_skipn off x i). reflexivity.
Qed.

Lemma bv_get_slice x off w i : bv_get (bv_slice x off w) i = if i <? w then bv_get x (off + i) else BX.
Proof. unfold bv_slice. rewrite bv_get_build. reflexivity. Qed.

Lemma piece_input x y off w :
  rewire_piece (Some x :: y) (mk_range w (RW_INPUT 0 off)) = bv_slice x off w.
Proof. reflexivity. Qed.

Lemma repeat_concat_single (b : tbit) n : concat (repeat [b] n) = repeat b n.
Proof. induction n; simpl; congruence. Qed.

Lemma map_repeat {A B} (f : A -> B) a n : map f (repeat a n) = repeat (f a) n.
Proof. induction n; simpl; congruence. Qed.

(* ------------------------------------------------------------------ *)
(* values of concatenations                                              *)

Lemma bv_val_app x y :
  bv_val (x ++ y) = match bv_val x, bv_val y with
                    | Some a, Some b => Some (a + 2 ^ N.of_nat (length x) * b)%N
                    | _, _ => None
                    end.
Proof.
  induction x as [|c r IH]; cbn [app length].
  - simpl bv_val at 2. destruct (bv_val y); [f_equal; change (N.of_nat 0) with 0%N; rewrite N.pow_0_r; lia | reflexivity].
  - rewrite !bv_val_cons, IH.
    replace (N.of_nat (S (length r))) with (N.succ (N.of_nat (length r))) by lia.
    rewrite N.pow_succ_r'.
    destruct c; try reflexivity; destruct (bv_val r) as [a|]; try reflexivity; destruct (bv_val y) as [b|]; try reflexivity;
      f_equal; lia.
Qed.

Lemma bv_val_repeat0 n : bv_val (repeat B0 n) = Some 0%N.
Proof. induction n; simpl; [reflexivity | rewrite IHn; reflexivity]. Qed.

Lemma bv_val_repeat1 n : bv_val (repeat B1 n) = Some (2 ^ N.of_nat n - 1)%N.
Proof.
  induction n as [|n IH]; [reflexivity|].
  cbn [repeat]. rewrite bv_val_cons, IH. f_equal.
  replace (N.of_nat (S n)) with (N.succ (N.of_nat n)) by lia. rewrite N.pow_succ_r'.
  assert (0 < 2 ^ N.of_nat n)%N by (apply N.neq_0_lt_0, N.pow_nonzero; discriminate). lia.
Qed.

Lemma bv_val_length_bound x v : bv_val x = Some v -> (v < 2 ^ N.of_nat (length x))%N.
Proof. apply bv_val_lt. Qed.

Lemma bv_of_N_small_val w v : (v < 2 ^ N.of_nat w)%N -> bv_val (bv_of_N w v) = Some v.
Proof. intro H. rewrite bv_val_of_N. f_equal. apply N.mod_small. exact H. Qed.

Lemma bv_eq_of_val x v : bv_val x = Some v -> x = bv_of_N (length x) v.
Proof. intro H. symmetry. apply bv_of_N_val. exact H. Qed.

Lemma pow2_N_pos n : (0 < 2 ^ n)%N.
Proof. apply N.neq_0_lt_0, N.pow_nonzero. discriminate. Qed.

Lemma pow2_N_split a b : (a <= b)%nat -> (2 ^ N.of_nat b = 2 ^ N.of_nat a * 2 ^ N.of_nat (b - a))%N.
Proof. intro H. rewrite <- N.pow_add_r. f_equal. lia. Qed.

(* top bit of a value below 2^(S k) *)
Lemma testbit_top v k : (v < 2 ^ N.succ k)%N -> N.testbit v k = (2 ^ k <=? v)%N.
Proof.
  intro H. rewrite N.pow_succ_r' in H.
  pose proof (pow2_N_pos k) as P.
  rewrite N.testbit_eqb.
  assert (D := N.div_mod v (2 ^ k)%N ltac:(lia)).
  assert (M := N.mod_lt v (2 ^ k)%N ltac:(lia)).
  set (q := (v / 2 ^ k)%N) in *. set (m := (v mod 2 ^ k)%N) in *.
  assert (Hq : (q < 2)%N) by nia.
  destruct (N.leb_spec (2 ^ k) v) as [L|L].
  - assert (q = 1%N) by nia. subst q. rewrite H0. reflexivity.
  - assert (q = 0%N) by nia. rewrite H0. reflexivity.
Qed.

(* ------------------------------------------------------------------ *)
(* two's complement reading                                              *)

Local Open Scope Z_scope.

Lemma pow2_Z_pos n : 0 < 2 ^ Z.of_nat n.
Proof. apply Z.pow_pos_nonneg; lia. Qed.

Lemma of_N_pow2' n : Z.of_N (2 ^ N.of_nat n) = 2 ^ Z.of_nat n.
Proof. apply of_N_pow2. Qed.

Lemma pow2_Z_succ n : 2 ^ Z.of_nat (S n) = 2 * 2 ^ Z.of_nat n.
Proof. rewrite Nat2Z.inj_succ, Z.pow_succ_r by lia. reflexivity. Qed.

Lemma sint_unfold w v :
  sint (S w) v = if (v <? 2 ^ N.of_nat w)%N then Z.of_N v else Z.of_N v - 2 ^ Z.of_nat (S w).
Proof. unfold sint. cbn [Nat.eqb]. replace (S w - 1)%nat with w by lia. reflexivity. Qed.

Lemma sint_bounds w v :
  (0 < w)%nat -> (v < 2 ^ N.of_nat w)%N -> - 2 ^ Z.of_nat (w - 1) <= sint w v < 2 ^ Z.of_nat (w - 1).
Proof.
  intros Hw Hv. destruct w as [|w]; [lia|]. rewrite sint_unfold. cbn [Nat.sub]. rewrite Nat.sub_0_r.
  assert (E : Z.of_N (2 ^ N.of_nat (S w)) = 2 * 2 ^ Z.of_nat w) by (rewrite of_N_pow2; apply pow2_Z_succ).
  pose proof (pow2_Z_pos w) as P. pose proof (of_N_pow2 w) as E2.
  destruct (N.ltb_spec v (2 ^ N.of_nat w)) as [L|L]; rewrite ?pow2_Z_succ; lia.
Qed.

Lemma sint_mod w v : (v < 2 ^ N.of_nat w)%N -> sint w v mod 2 ^ Z.of_nat w = Z.of_N v.
Proof.
  intro Hv. destruct w as [|w].
  - simpl in *. assert (v = 0%N) by lia. subst. reflexivity.
  - rewrite sint_unfold. pose proof (pow2_Z_pos (S w)) as P.
    assert (B : 0 <= Z.of_N v < 2 ^ Z.of_nat (S w)) by (rewrite <- of_N_pow2; lia).
    destruct (v <? 2 ^ N.of_nat w)%N.
    + apply Z.mod_small. exact B.
    + replace (Z.of_N v - 2 ^ Z.of_nat (S w)) with (Z.of_N v + (-1) * 2 ^ Z.of_nat (S w)) by lia.
      rewrite Z.mod_add by lia. apply Z.mod_small. exact B.
Qed.

Lemma sint_neg_iff w v :
  (v < 2 ^ N.of_nat (S w))%N -> (sint (S w) v <? 0) = (2 ^ N.of_nat w <=? v)%N.
Proof.
  intro Hv. rewrite sint_unfold.
  assert (B : Z.of_N v < 2 ^ Z.of_nat (S w)) by (rewrite <- of_N_pow2; lia).
  destruct (N.ltb_spec v (2 ^ N.of_nat w)) as [L|L].
  - replace (2 ^ N.of_nat w <=? v)%N with false by (symmetry; apply N.leb_gt; exact L).
    apply Z.ltb_ge. lia.
  - replace (2 ^ N.of_nat w <=? v)%N with true by (symmetry; apply N.leb_le; exact L).
    apply Z.ltb_lt. lia.
Qed.

Lemma bv_of_Z_eqm w a b : a mod 2 ^ Z.of_nat w = b mod 2 ^ Z.of_nat w -> bv_of_Z w a = bv_of_Z w b.
Proof. unfold bv_of_Z. intros ->. reflexivity. Qed.

Lemma bv_of_Z_of_N w (n : N) : bv_of_Z w (Z.of_N n) = bv_of_N w n.
Proof. unfold bv_of_Z. symmetry. apply bv_of_N_Z. reflexivity. Qed.

Lemma bv_of_N_as_Z w (n : N) z :
  Z.of_N n mod 2 ^ Z.of_nat w = z mod 2 ^ Z.of_nat w -> bv_of_N w n = bv_of_Z w z.
Proof. apply bv_of_N_Z. Qed.

Lemma bv_of_Z_length w z : length (bv_of_Z w z) = w.
Proof. apply bv_of_N_length. Qed.

Lemma bv_val_of_Z w z : bv_val (bv_of_Z w z) = Some (Z.to_N (z mod 2 ^ Z.of_nat w)).
Proof.
  unfold bv_of_Z. rewrite bv_val_of_N. f_equal. apply N.mod_small.
  pose proof (Z.mod_pos_bound z (2 ^ Z.of_nat w) (pow2_Z_pos w)) as B.
  apply N2Z.inj_lt. rewrite Z2N.id, of_N_pow2 by lia. lia.
Qed.

Lemma bv_of_Z_sval x z : bv_sval x = Some z -> bv_of_Z (length x) z = x.
Proof.
  unfold bv_sval. destruct (bv_val x) as [v|] eqn:E; [|discriminate]. intro H. injection H as <-.
  unfold bv_of_Z. rewrite sint_mod by (apply bv_val_lt; exact E). rewrite N2Z.id. apply bv_of_N_val. exact E.
Qed.

Lemma bv_sval_of_Z w z :
  (0 < w)%nat -> - 2 ^ Z.of_nat (w - 1) <= z < 2 ^ Z.of_nat (w - 1) -> bv_sval (bv_of_Z w z) = Some z.
Proof.
  intros Hw Hz. unfold bv_sval. rewrite bv_val_of_Z, bv_of_Z_length. f_equal.
  destruct w as [|w]; [lia|]. cbn [Nat.sub] in Hz. rewrite Nat.sub_0_r in Hz.
  rewrite sint_unfold. pose proof (pow2_Z_pos w) as P. pose proof (pow2_Z_succ w) as S2.
  set (m := z mod 2 ^ Z.of_nat (S w)).
  assert (Bm : 0 <= m < 2 ^ Z.of_nat (S w)) by (apply Z.mod_pos_bound; lia).
  rewrite Z2N.id by lia.
  destruct (Z.ltb_spec z 0) as [Neg|Pos].
  - assert (Em : m = z + 2 ^ Z.of_nat (S w)).
    { subst m. symmetry. apply Z.mod_unique with (q := -1); lia. }
    replace (Z.to_N m <? 2 ^ N.of_nat w)%N with false; [lia|].
    symmetry. apply N.ltb_ge. apply N2Z.inj_le. rewrite Z2N.id, of_N_pow2 by lia. lia.
  - assert (Em : m = z) by (subst m; apply Z.mod_small; lia).
    replace (Z.to_N m <? 2 ^ N.of_nat w)%N with true; [lia|].
    symmetry. apply N.ltb_lt. apply N2Z.inj_lt. rewrite Z2N.id, of_N_pow2 by lia. lia.
Qed.

Lemma bv_sval_val x z : bv_sval x = Some z -> exists v, bv_val x = Some v /\ z = sint (length x) v.
Proof.
  unfold bv_sval. destruct (bv_val x) as [v|]; [|discriminate]. intro H. injection H as <-. exists v. split; reflexivity.
Qed.

(* congruence modulo 2^w *)
Definition eqm (w : nat) (a b : Z) : Prop := a mod 2 ^ Z.of_nat w = b mod 2 ^ Z.of_nat w.

Lemma eqm_refl w a : eqm w a a.  Proof. reflexivity. Qed.
Lemma eqm_sym w a b : eqm w a b -> eqm w b a.  Proof. unfold eqm; congruence. Qed.
Lemma eqm_trans w a b c : eqm w a b -> eqm w b c -> eqm w a c.  Proof. unfold eqm; congruence. Qed.
Lemma eqm_add w a b c d : eqm w a b -> eqm w c d -> eqm w (a + c) (b + d).
Proof. unfold eqm. intros H1 H2. rewrite Z.add_mod, H1, H2, <- Z.add_mod; try reflexivity; pose proof (pow2_Z_pos w); lia. Qed.
Lemma eqm_sub w a b c d : eqm w a b -> eqm w c d -> eqm w (a - c) (b - d).
Proof. unfold eqm. intros H1 H2. rewrite Zminus_mod, H1, H2, <- Zminus_mod. reflexivity. Qed.
Lemma eqm_mul w a b c d : eqm w a b -> eqm w c d -> eqm w (a * c) (b * d).
Proof. unfold eqm. intros H1 H2. rewrite Z.mul_mod, H1, H2, <- Z.mul_mod; try reflexivity; pose proof (pow2_Z_pos w); lia. Qed.
Lemma eqm_mod w a : eqm w (a mod 2 ^ Z.of_nat w) a.
Proof. unfold eqm. apply Z.mod_mod. pose proof (pow2_Z_pos w); lia. Qed.
Lemma eqm_sint w v : (v < 2 ^ N.of_nat w)%N -> eqm w (Z.of_N v) (sint w v).
Proof.
  intro H. unfold eqm. rewrite sint_mod by exact H. apply Z.mod_small.
  split; [lia|]. rewrite <- of_N_pow2. lia.
Qed.
Lemma eqm_plus_pow w a k : eqm w (a + k * 2 ^ Z.of_nat w) a.
Proof. unfold eqm. apply Z.mod_add. pose proof (pow2_Z_pos w); lia. Qed.
Lemma eqm_narrow w w' a b : (w <= w')%nat -> eqm w' a b -> eqm w a b.
Proof.
  unfold eqm. intros Hw H.
  assert (D : (2 ^ Z.of_nat w | 2 ^ Z.of_nat w')) by (apply pow2_divide; exact Hw).
  pose proof (pow2_Z_pos w) as P. pose proof (pow2_Z_pos w') as P'.
  rewrite (Znumtheory.Zmod_div_mod _ _ a P P' D), (Znumtheory.Zmod_div_mod _ _ b P P' D), H. reflexivity.
Qed.

Lemma bv_val_eqm_sval x v z : bv_val x = Some v -> bv_sval x = Some z -> eqm (length x) (Z.of_N v) z.
Proof.
  intros Hv Hs. unfold bv_sval in Hs. rewrite Hv in Hs. injection Hs as <-.
  apply eqm_sint. apply bv_val_lt. exact Hv.
Qed.
