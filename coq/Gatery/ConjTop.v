(* C14 — top-level statements combining parse soundness with the predicates. *)
From Coq Require Import List Bool Arith Lia.
From Gatery Require Import Bits ConjDefs ConjProofs ConjPreds ConjBuild.
Import ListNotations.

Section Top.
Variable g : graph.
Variable rho : nat -> bool.
Variable u : bool.
Variable vals : list bool.
Hypothesis Hwf : wf g = true.
Hypothesis Hcons : consistent g rho u vals.

Lemma parse_sound root c :
  parse g root = Some c -> c_undef c = false -> dval vals u root = conj_val vals u c.
Proof. intros H Hu. apply (parse_fuel_sound g rho u vals Hwf Hcons _ _ _ H Hu). Qed.

Lemma parse_nodup root c : parse g root = Some c -> c_undef c = false -> NoDup (keys (c_terms c)).
Proof. intros H Hu. apply (parse_fuel_sound g rho u vals Hwf Hcons _ _ _ H Hu). Qed.

Lemma parse_cdrv root c : parse g root = Some c -> c_undef c = false ->
  forall t, In t (c_terms c) -> dval vals u (t_cdrv t) = nth (t_driver t) vals u.
Proof. intros H Hu. apply (parse_fuel_sound g rho u vals Hwf Hcons _ _ _ H Hu). Qed.

Lemma isEqualTo_defined a b : isEqualTo a b = true -> c_undef a = false /\ c_undef b = false.
Proof. unfold isEqualTo. destruct (c_undef a), (c_undef b); simpl; auto; discriminate. Qed.
Lemma isNegationOf_defined a b : isNegationOf a b = true -> c_undef a = false /\ c_undef b = false.
Proof. unfold isNegationOf. destruct (c_undef a), (c_undef b); simpl; auto; discriminate. Qed.
Lemma isSubsetOf_defined a b : isSubsetOf a b = true -> c_undef a = false /\ c_undef b = false.
Proof. unfold isSubsetOf. destruct (c_undef a), (c_undef b); simpl; auto; discriminate. Qed.
Lemma cannotBothBeTrue_defined a b : cannotBothBeTrue a b = true -> c_undef a = false /\ c_undef b = false.
Proof. unfold cannotBothBeTrue. destruct (c_undef a), (c_undef b); simpl; auto; discriminate. Qed.

Lemma equal_sound ra rb ca cb :
  parse g ra = Some ca -> parse g rb = Some cb -> isEqualTo ca cb = true ->
  dval vals u ra = dval vals u rb.
Proof.
  intros Ha Hb He. destruct (isEqualTo_defined _ _ He) as [Ua Ub].
  rewrite (parse_sound _ _ Ha Ua), (parse_sound _ _ Hb Ub).
  apply isEqualTo_sound; auto; eapply parse_nodup; eauto.
Qed.

Lemma negation_sound ra rb ca cb :
  parse g ra = Some ca -> parse g rb = Some cb -> isNegationOf ca cb = true ->
  dval vals u ra = negb (dval vals u rb).
Proof.
  intros Ha Hb He. destruct (isNegationOf_defined _ _ He) as [Ua Ub].
  rewrite (parse_sound _ _ Ha Ua), (parse_sound _ _ Hb Ub). apply isNegationOf_sound; auto.
Qed.

Lemma subset_sound ra rb ca cb :
  parse g ra = Some ca -> parse g rb = Some cb -> isSubsetOf ca cb = true ->
  dval vals u rb = true -> dval vals u ra = true.
Proof.
  intros Ha Hb He. destruct (isSubsetOf_defined _ _ He) as [Ua Ub].
  rewrite (parse_sound _ _ Ha Ua), (parse_sound _ _ Hb Ub). apply isSubsetOf_sound; auto.
Qed.

Lemma cannot_both_sound ra rb ca cb :
  parse g ra = Some ca -> parse g rb = Some cb -> cannotBothBeTrue ca cb = true ->
  dval vals u ra && dval vals u rb = false.
Proof.
  intros Ha Hb He. destruct (cannotBothBeTrue_defined _ _ He) as [Ua Ub].
  rewrite (parse_sound _ _ Ha Ua), (parse_sound _ _ Hb Ub). apply cannotBothBeTrue_sound; auto.
Qed.

(* equal as std::map keys (defaulted operator== / <=>) implies isEqualTo for defined conjunctions, hence
   the analysed outputs agree in every valuation *)
Lemma conj_same_isEqualTo a b : conj_same a b = true -> c_undef a = false -> isEqualTo a b = true.
Proof.
  unfold conj_same, isEqualTo. intros H Ua.
  apply andb_prop in H as [H Hall]. apply andb_prop in H as [H Hlen]. apply andb_prop in H as [Hu Hc].
  apply Bool.eqb_prop in Hu. apply Bool.eqb_prop in Hc. rewrite <- Hu, Ua. cbn [orb].
  rewrite <- Hc. destruct (c_contra a); cbn [orb andb]; [reflexivity|].
  rewrite Hlen. cbn [negb].
  rewrite forallb_forall in Hall |- *. intros t Ht. specialize (Hall t Ht).
  unfold term_same in Hall. unfold same_in. destruct (term_find (c_terms b) (t_driver t)); [|discriminate].
  apply andb_prop in Hall as [Hn _]. exact Hn.
Qed.

Lemma same_key_sound ra rb ca cb :
  parse g ra = Some ca -> parse g rb = Some cb -> conj_same ca cb = true -> c_undef ca = false ->
  dval vals u ra = dval vals u rb.
Proof. intros Ha Hb Hs Ua. eapply equal_sound; eauto. apply conj_same_isEqualTo; assumption. Qed.

End Top.

(* a condition rebuilt from its analysed form is equivalent to the original *)
Lemma build_equiv g rho u root c g2 out vals :
  wf g = true ->
  parse g root = Some c -> c_undef c = false -> c_contra c = false ->
  build g c = (g2, out) -> consistent g2 rho u vals ->
  dval vals u out = dval vals u root.
Proof.
  intros Hwf Hp Hu Hc Hb Hcons.
  assert (Hex : exists ext, g2 = g ++ ext).
  { unfold build in Hb. destruct (sort_terms (c_terms c)) eqn:Es.
    - inversion Hb; subst. eexists; reflexivity.
    - destruct (build_lits g (t :: l)) as [g1 lits] eqn:El.
      destruct (build_lits_spec rho u _ _ _ _ El) as [[e1 He1] _].
      destruct lits as [|x r]; [inversion Hb; subst; exists e1; auto|].
      destruct (build_chain_spec rho u _ _ _ _ _ Hb) as [[e2 He2] _].
      exists (e1 ++ e2). rewrite He2, He1, app_assoc. reflexivity. }
  destruct Hex as [ext Hext].
  assert (Hcg : consistent g rho u vals) by (rewrite Hext in Hcons; eapply consistent_app; eauto).
  destruct (build_sound rho u g c g2 out vals Hb Hcons (parse_cdrv g rho u vals Hwf Hcg root c Hp Hu)) as [_ Hv].
  rewrite Hv. rewrite (parse_sound g rho u vals Hwf Hcg root c Hp Hu). unfold conj_val. rewrite Hc. reflexivity.
Qed.
