(* C15 -- control machine of scl::TransactionalFifo (source/gatery/scl/TransactionalFifo.h),
   single clock (the dual-clock variant crosses the checkpoints with a req/ack stream
   handshake, TransactionalFifo.cpp generateCDCReqAck, which is not modelled).

   Differences to Fifo.h: generatePush returns the put CHECKPOINT (only committed pushes
   become visible to the pop side), generatePop returns the get CHECKPOINT (only committed
   pops free space); rollback returns the working pointer to its checkpoint; commitPush
   may cut off the last `cutoff` pushes.  The delay chains of Fifo::generate() are kept. *)
From Coq Require Import NArith List Bool Arith.
From Gatery Require Import FifoDefs.
Import ListNotations.
Open Scope N_scope.

Record tst := mkTst {
  t_put    : N;          (* reg(put, 0) *)
  t_putCk  : N;          (* reg(putCheckpoint, 0) *)
  t_full   : bool;       (* m_pushFull = reg(..., '0') *)
  t_get    : N;          (* reg(get, 0) *)
  t_getCk  : N;          (* reg(getCheckpoint, 0) *)
  t_empty  : bool;       (* m_popEmpty = reg(..., '1') *)
  t_peek   : option N;
  t_mem    : memory;
  t_toPop  : list N;     (* putCheckpoint delayed by L-1 registers *)
  t_toPush : list N      (* getCheckpoint delayed by L-1 registers *)
}.

Definition tinit (c : cfg) : tst :=
  mkTst 0 0 false 0 0 true None mem_empty
        (repeat 0 (c_lat c - 1)%nat) (repeat 0 (c_lat c - 1)%nat).

Record tevent := mkTev {
  te_pushReq : bool; te_data : N;
  te_commit : bool;        (* m_pushCommit   *)
  te_cutoff : N;           (* m_pushCutoff (k+1 bits) *)
  te_rollback : bool;      (* m_pushRollack  *)
  te_popReq : bool;
  te_popCommit : bool;     (* m_popCommit    *)
  te_popRollback : bool    (* m_popRollback  *)
}.

(* put -= cutoff on k+1 bits *)
Definition csubw (k a b : N) : N := csub k a b.

Definition tstep (c : cfg) (s : tst) (e : tevent) : tst :=
  let k := c_k c in
  let pushValid := te_pushReq e && negb (t_full s) in
  let popValid := te_popReq e && negb (t_empty s) in
  (* generatePush *)
  let put1 := inc k (t_put s) pushValid in                      (* IF(valid) { mem[put] = data; put += 1 } *)
  let mem' := if pushValid then mem_write (t_mem s) (low k (t_put s)) (te_data e) else t_mem s in
  let put2 := if te_rollback e then t_putCk s else put1 in      (* IF(rollback) put = putCheckpoint *)
  let put3 := if te_commit e then csubw k put2 (te_cutoff e) else put2 in   (* IF(commit) put -= cutoff *)
  let putCk' := if te_commit e then put3 else t_putCk s in      (*            putCheckpoint = put *)
  (* generatePop *)
  let get1 := inc k (t_get s) popValid in
  let get2 := if te_popRollback e then t_getCk s else get1 in
  let getCk' := if te_popCommit e then get2 else t_getCk s in
  (* Fifo::generate(), single clock: the returned checkpoints through L-1 registers *)
  let popPut := last (t_toPop s) putCk' in
  let pushGet := last (t_toPush s) getCk' in
  let rdmem := if (c_lat c <=? 1)%nat then mem' else t_mem s in
  mkTst put3 putCk' (cmp_full k put3 pushGet)
        get2 getCk' (cmp_empty k popPut get2)
        (rdmem (low k get2)) mem'
        (shift_in putCk' (t_toPop s)) (shift_in getCk' (t_toPush s)).

Record tobs := mkTobs { to_full : bool; to_empty : bool; to_peek : option N }.
Definition tobserve (s : tst) : tobs := mkTobs (t_full s) (t_empty s) (t_peek s).

Fixpoint trun (c : cfg) (s : tst) (evs : list tevent) : list (tobs * tevent) * tst :=
  match evs with
  | [] => ([], s)
  | e :: r => let (tr, s') := trun c (tstep c s e) r in ((tobserve s, e) :: tr, s')
  end.

(* ---------------- specification: a queue with checkpoints ---------------- *)
Record cq := mkCq {
  cq_Q : list N;    (* committed items not yet released by a pop commit *)
  cq_r : nat;       (* of which the first r are popped, uncommitted *)
  cq_S : list N     (* pushed, uncommitted *)
}.

Definition cq_next (q : cq) (o : tobs) (e : tevent) : cq :=
  let acc := te_pushReq e && negb (to_full o) in
  let del := te_popReq e && negb (to_empty o) in
  let S1 := if acc then cq_S q ++ [te_data e] else cq_S q in
  let S2 := if te_rollback e then [] else S1 in
  let add := if te_commit e then firstn (length S2 - N.to_nat (te_cutoff e)) S2 else [] in
  let S' := if te_commit e then [] else S2 in
  let r1 := if del then S (cq_r q) else cq_r q in
  let r2 := if te_popRollback e then O else r1 in
  let drop := if te_popCommit e then r2 else O in
  let r' := if te_popCommit e then O else r2 in
  mkCq (skipn drop (cq_Q q) ++ add) r' S'.

(* the environment's obligations (the API cannot express other uses): never commit and
   roll back in the same cycle; a cutoff removes only pushes of the open transaction *)
Definition tev_ok (q : cq) (o : tobs) (e : tevent) : Prop :=
  (te_commit e && te_rollback e = false) /\
  (te_popCommit e && te_popRollback e = false) /\
  (te_commit e = true ->
     N.to_nat (te_cutoff e) <=
     length (if te_pushReq e && negb (to_full o) then cq_S q ++ [te_data e] else cq_S q))%nat.

Definition cq_step_ok (cap : N) (q : cq) (o : tobs) (e : tevent) : Prop :=
  N.of_nat (length (cq_Q q) + length (cq_S q)) <= cap /\
  (cq_r q <= length (cq_Q q))%nat /\
  (* an item is offered only if it is committed, and it is the next one in order *)
  (to_empty o = false -> exists h, nth_error (cq_Q q) (cq_r q) = Some h /\ to_peek o = Some h) /\
  (* a push is accepted only if there is room, counting uncommitted pops as occupied *)
  (te_pushReq e = true -> to_full o = false ->
     N.of_nat (length (cq_Q q) + length (cq_S q)) < cap).

(* the trace is legal as long as the environment keeps its obligations *)
Fixpoint cq_spec (cap : N) (q : cq) (tr : list (tobs * tevent)) : Prop :=
  match tr with
  | [] => True
  | (o, e) :: r => tev_ok q o e -> cq_step_ok cap q o e /\ cq_spec cap (cq_next q o e) r
  end.
