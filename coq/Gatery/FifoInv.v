(* C15 -- the invariant of the FIFO control machine and its preservation.

   Proof device: [gen_step] is one step function covering all four kinds of instants
   (single clock edge; push edge; pop edge; both) -- [step_gen] shows it equals the
   C++-shaped step functions of FifoDefs.v.  The ghost state carries the unbounded
   history: every payload ever accepted, the number of pops, and the unbounded values
   of the pointers travelling through the delay / synchroniser lines. *)
From Coq Require Import NArith List Bool Arith Lia.
From Gatery Require Import FifoDefs FifoGray FifoArith.
Import ListNotations.
Open Scope N_scope.

(* own: the source-side (inStage / newest) register is clocked; other: the destination
   stages are clocked; meta: the first destination stage captures the new source value *)
Definition line_upd (own other meta : bool) (x' : N) (l : list N) : list N :=
  match l with
  | [] => []
  | h :: t => (if own then x' else h) ::
              (if other then shift_in (if meta && own then x' else h) t else t)
  end.

Definition gen_step (c : cfg) (s : st) (pe po pushReq : bool) (d : N) (popReq metaP metaG : bool) : st :=
  let k := c_k c in
  let pushValid := pe && pushReq && negb (s_full s) in
  let popValid := po && popReq && negb (s_empty s) in
  let put' := inc k (s_put s) pushValid in
  let get' := inc k (s_get s) popValid in
  let mem' := if pushValid then mem_write (s_mem s) (low k (s_put s)) d else s_mem s in
  let popPut := dec c (last (s_toPop s) (enc c put')) in
  let pushGet := dec c (last (s_toPush s) (enc c get')) in
  let rdmem := if (c_lat c <=? 1)%nat then mem' else s_mem s in
  mkSt put'
       (if pe then cmp_full k put' pushGet else s_full s)
       (if pe then af_next c (csub k put' pushGet) else s_afull s)
       get'
       (if po then cmp_empty k popPut get' else s_empty s)
       (if po then ae_next c (csub k popPut get') else s_aempty s)
       (if po then rdmem (low k get') else s_peek s)
       mem'
       (line_upd pe po metaP (enc c put') (s_toPop s))
       (line_upd po pe metaG (enc c get') (s_toPush s)).

Definition ev_metaP (c : cfg) (e : event) := c_dual c && e_metaP e.
Definition ev_metaG (c : cfg) (e : event) := c_dual c && e_metaG e.

Lemma st_eta s : s = mkSt (s_put s) (s_full s) (s_afull s) (s_get s) (s_empty s) (s_aempty s)
                         (s_peek s) (s_mem s) (s_toPop s) (s_toPush s).
Proof. destruct s; reflexivity. Qed.

Lemma shift_in_cons x h t : shift_in x (h :: t) = x :: shift_in h t.
Proof. reflexivity. Qed.

Lemma step_gen c s e :
  (c_dual c = true -> (2 <= c_lat c)%nat /\ s_toPop s <> [] /\ s_toPush s <> []) ->
  step c s e = gen_step c s (has_push c e) (has_pop c e) (e_pushReq e) (e_data e) (e_popReq e)
                        (ev_metaP c e) (ev_metaG c e).
Proof.
  intros Hd. unfold step, has_push, has_pop, ev_metaP, ev_metaG.
  destruct (c_dual c) eqn:Ed.
  - destruct (Hd eq_refl) as [HL [Hp Hg]].
    assert (HL' : (c_lat c <=? 1)%nat = false) by (apply Nat.leb_gt; lia).
    destruct (s_toPop s) as [|hp tp] eqn:Ep; [congruence|].
    destruct (s_toPush s) as [|hg tg] eqn:Eg; [congruence|].
    assert (Lp : forall x, last (hp :: tp) x = last (hp :: tp) 0)
      by (intros; apply last_nonempty_default; discriminate).
    assert (Lg : forall x, last (hg :: tg) x = last (hg :: tg) 0)
      by (intros; apply last_nonempty_default; discriminate).
    destruct (e_push e), (e_pop e); unfold gen_step, step_both, step_push, step_pop, sampled;
      rewrite ?Ep, ?Eg, ?HL'; cbn [line_upd andb negb];
      rewrite ?(Lp (enc c _)), ?(Lg (enc c _));
      rewrite ?andb_true_r, ?andb_false_r; cbn [inc];
      try reflexivity.
    (* no edge *) rewrite <- Ep, <- Eg. apply st_eta.
  - unfold gen_step, step_single, enc, dec. rewrite Ed. cbn [andb].
    f_equal.
    + destruct (s_toPop s) as [|h t]; reflexivity.
    + destruct (s_toPush s) as [|h t]; reflexivity.
Qed.

(* ---------------- ghost state ---------------- *)
Record ghost := mkG {
  g_items : list N;   (* every payload ever accepted, in order *)
  g_G     : N;        (* number of items delivered so far *)
  g_lp    : list N;   (* unbounded values of the put pointer line *)
  g_lg    : list N    (* unbounded values of the get pointer line *)
}.
Definition gP (g : ghost) : N := N.of_nat (length (g_items g)).
Definition q_of (g : ghost) : list N := skipn (N.to_nat (g_G g)) (g_items g).

Definition gen_gstep (s : st) (g : ghost) (pe po pushReq : bool) (d : N) (popReq metaP metaG : bool) : ghost :=
  let pushValid := pe && pushReq && negb (s_full s) in
  let popValid := po && popReq && negb (s_empty s) in
  let items' := if pushValid then g_items g ++ [d] else g_items g in
  let G' := if popValid then g_G g + 1 else g_G g in
  mkG items' G'
      (line_upd pe po metaP (N.of_nat (length items')) (g_lp g))
      (line_upd po pe metaG G' (g_lg g)).

Definition cod (c : cfg) (x : N) : N := enc c (x mod cmod (c_k c)).

Record Inv (c : cfg) (g : ghost) (s : st) : Prop := mkInv {
  i_put   : s_put s = gP g mod cmod (c_k c);
  i_get   : s_get s = g_G g mod cmod (c_k c);
  i_lo    : g_G g <= gP g;
  i_hi    : gP g <= g_G g + 2 ^ c_k c;
  i_lp    : s_toPop s = map (cod c) (g_lp g);
  i_lg    : s_toPush s = map (cod c) (g_lg g);
  i_lenp  : length (g_lp g) = (c_lat c - 1)%nat;
  i_leng  : length (g_lg g) = (c_lat c - 1)%nat;
  i_descp : desc (gP g :: g_lp g);
  i_descg : desc (g_G g :: g_lg g);
  i_hdp   : hd (gP g) (g_lp g) = gP g;
  i_hdg   : hd (g_G g) (g_lg g) = g_G g;
  i_vis   : g_G g <= last (g_lp g) (gP g);
  i_empty : s_empty s = false -> g_G g < last (g_lp g) (gP g);
  i_room  : gP g <= last (g_lg g) (g_G g) + 2 ^ c_k c;
  i_full  : s_full s = false -> gP g < last (g_lg g) (g_G g) + 2 ^ c_k c;
  i_af    : c_lvlF c < 2 ^ c_k c -> s_afull s = false ->
            gP g + c_lvlF c < last (g_lg g) (g_G g) + 2 ^ c_k c;
  i_ae    : s_aempty s = false -> g_G g + c_lvlE c < last (g_lp g) (gP g);
  i_mem   : forall i, g_G g <= i -> i < gP g ->
            s_mem s (i mod 2 ^ c_k c) = Some (nth (N.to_nat i) (g_items g) 0);
  i_peek  : s_empty s = false -> s_peek s = Some (nth (N.to_nat (g_G g)) (g_items g) 0)
}.

(* ---------------- the line update on histories ---------------- *)
Lemma line_upd_map f own other meta x l :
  map f (line_upd own other meta x l) = line_upd own other meta (f x) (map f l).
Proof.
  destruct l as [|h t]; [reflexivity|]. unfold line_upd. cbn [map]. f_equal.
  - destruct own; reflexivity.
  - destruct other; [|reflexivity]. unfold shift_in. rewrite map_removelast. cbn [map].
    destruct (meta && own); reflexivity.
Qed.

Lemma line_upd_length own other meta x l : length (line_upd own other meta x l) = length l.
Proof.
  destruct l as [|h t]; [reflexivity|]. unfold line_upd. cbn [length]. f_equal.
  destruct other; [|reflexivity]. unfold shift_in. apply removelast_cons_length.
Qed.

Lemma line_upd_nil own other meta x : line_upd own other meta x [] = [].
Proof. reflexivity. Qed.

Lemma line_upd_inv own other meta X X' l :
  desc (X :: l) -> hd X l = X -> X <= X' -> (own = false -> X' = X) ->
  let l' := line_upd own other meta X' l in
  desc (X' :: l') /\ hd X' l' = X' /\ last l X <= last l' X' /\
  (other = true -> last l X' <= last l' X').
Proof.
  intros Hd Hh Hle Hown. destruct l as [|h t].
  - cbn. repeat split; try lia.
  - cbn [hd] in Hh. subst h.
    assert (Hhead : (if own then X' else X) = X') by (destruct own; [reflexivity | symmetry; auto]).
    cbn [line_upd]. rewrite Hhead.
    set (smp := if meta && own then X' else X).
    assert (Hsmp : X <= smp /\ smp <= X') by (unfold smp; destruct (meta && own); lia).
    assert (Hdt : desc (X :: t)) by (apply desc_tl in Hd; exact Hd).
    assert (Hds : desc (smp :: t)) by (apply (desc_raise X); [lia | exact Hdt]).
    destruct other.
    + (* destination stages shift *)
      assert (Hd' : desc (X' :: X' :: shift_in smp t)).
      { apply desc_cons_same. unfold shift_in.
        destruct t as [|b t']; [exact I|].
        change (removelast (smp :: b :: t')) with (smp :: removelast (b :: t')).
        split; [lia|].
        change (smp :: removelast (b :: t')) with (removelast (smp :: b :: t')).
        apply desc_removelast. exact Hds. }
      split; [exact Hd'|]. split; [reflexivity|].
      assert (Hobs : forall y, X <= y -> last (X :: t) y <= last (X' :: shift_in smp t) X').
      { intros y Hy. destruct t as [|b t'].
        - cbn. lia.
        - change (last (X :: b :: t') y) with (last (b :: t') y).
          rewrite (last_nonempty_default (b :: t') y smp) by discriminate.
          unfold shift_in.
          change (removelast (smp :: b :: t')) with (smp :: removelast (b :: t')).
          change (last (X' :: smp :: removelast (b :: t')) X') with (last (smp :: removelast (b :: t')) X').
          change (smp :: removelast (b :: t')) with (removelast (smp :: b :: t')).
          apply last_removelast_ge; [exact Hds | discriminate]. }
      split; [apply Hobs; lia | intros _; apply Hobs; exact Hle].
    + split; [apply desc_cons_same, (desc_raise X); [lia | exact Hdt]|].
      split; [reflexivity|]. split; [|discriminate].
      destruct t as [|b t']; [cbn; lia|].
      change (last (X :: b :: t') X) with (last (b :: t') X).
      change (last (X' :: b :: t') X') with (last (b :: t') X').
      apply last_mono_default. exact Hle.
Qed.

(* ---------------- coding of the line values ---------------- *)
Lemma cwidth_pow k : 2 ^ N.of_nat (cwidth k) = cmod k.
Proof. unfold cwidth, cmod. f_equal. lia. Qed.

Lemma dec_cod c x : dec c (cod c x) = x mod cmod (c_k c).
Proof.
  unfold dec, cod, enc. destruct (c_dual c); [|reflexivity].
  apply gray_roundtrip_w. rewrite cwidth_pow. apply N.mod_upper_bound.
  pose proof (cmod_pos (c_k c)). lia.
Qed.

Lemma cod_0 c : cod c 0 = 0.
Proof.
  unfold cod, enc. rewrite N.mod_0_l by (pose proof (cmod_pos (c_k c)); lia).
  destruct (c_dual c); reflexivity.
Qed.

(* ---------------- list / queue helpers ---------------- *)
Lemma skipn_nth_cons (l : list N) n : (n < length l)%nat ->
  skipn n l = nth n l 0 :: skipn (S n) l.
Proof.
  revert l. induction n as [|n IH]; intros [|a t] H; simpl in H; try lia; [reflexivity|].
  change (skipn n t = nth n t 0 :: skipn (S n) t). apply IH. lia.
Qed.

Lemma length_skipn_N (l : list N) n : n <= N.of_nat (length l) ->
  N.of_nat (length (skipn (N.to_nat n) l)) = N.of_nat (length l) - n.
Proof. intros H. rewrite skipn_length. lia. Qed.

Section Step.
  Variable c : cfg.
  Hypothesis Hc : cfg_ok c.
  Variables (g : ghost) (s : st).
  Hypothesis HI : Inv c g s.
  Variables (pe po pushReq : bool) (d : N) (popReq metaP metaG : bool).

  Let k := c_k c.
  Let K := 2 ^ k.
  Let M := cmod k.
  Let P := gP g.
  Let G := g_G g.
  Let pv := pe && pushReq && negb (s_full s).
  Let ov := po && popReq && negb (s_empty s).
  Let g' := gen_gstep s g pe po pushReq d popReq metaP metaG.
  Let s' := gen_step c s pe po pushReq d popReq metaP metaG.
  Let P' := gP g'.
  Let G' := g_G g'.
  Let lastp := last (g_lp g) P.
  Let lastg := last (g_lg g) G.
  Let obsP := last (g_lp g) P'.
  Let obsG := last (g_lg g) G'.

  Ltac ulia := unfold K, k in *; lia.
  Ltac case_b b E := assert (E : b = true \/ b = false) by (destruct b; auto); destruct E as [E|E]; rewrite ?E; cbv match.

  Lemma K_pos : 0 < K. Proof. apply pow2_pos. Qed.

  Lemma P'_eq : P' = P + (if pv then 1 else 0).
  Proof.
    unfold P', gP, g', gen_gstep. cbn [g_items]. fold pv. destruct pv.
    - rewrite app_length. cbn. unfold P, gP. ulia.
    - unfold P, gP. ulia.
  Qed.

  Lemma G'_eq : G' = G + (if ov then 1 else 0).
  Proof. unfold G', g', gen_gstep. cbn [g_G]. fold ov. destruct ov; unfold G; ulia. Qed.

  Lemma lastp_le : lastp <= P.
  Proof. apply desc_last_le, (i_descp c g s HI). Qed.
  Lemma lastg_le : lastg <= G.
  Proof. apply desc_last_le, (i_descg c g s HI). Qed.

  Lemma pv_room : pv = true -> P < lastg + K.
  Proof.
    unfold pv. intros H. apply andb_prop in H. destruct H as [_ H].
    apply negb_true_iff in H. apply (i_full c g s HI H).
  Qed.

  Lemma ov_vis : ov = true -> G < lastp.
  Proof.
    unfold ov. intros H. apply andb_prop in H. destruct H as [_ H].
    apply negb_true_iff in H. apply (i_empty c g s HI H).
  Qed.

  Lemma pe_false_P : pe = false -> P' = P.
  Proof. intros H. rewrite P'_eq. unfold pv. rewrite H. cbn. ulia. Qed.
  Lemma po_false_G : po = false -> G' = G.
  Proof. intros H. rewrite G'_eq. unfold ov. rewrite H. cbn. ulia. Qed.

  Lemma P_le_P' : P <= P'. Proof. rewrite P'_eq. destruct pv; ulia. Qed.
  Lemma G_le_G' : G <= G'. Proof. rewrite G'_eq. destruct ov; ulia. Qed.

  Lemma obsP_bounds : G' <= obsP /\ obsP <= P' /\ lastp <= obsP.
  Proof.
    pose proof P_le_P'. pose proof (i_vis c g s HI) as Hv. fold G lastp P in Hv.
    assert (lastp <= obsP) by (apply last_mono_default; assumption).
    assert (obsP <= P').
    { apply desc_last_le. apply (desc_raise P); [assumption | apply (i_descp c g s HI)]. }
    repeat split; try assumption.
    rewrite G'_eq. destruct ov eqn:E; [apply ov_vis in E|]; ulia.
  Qed.

  Lemma obsG_bounds : obsG <= G' /\ P' <= obsG + K /\ lastg <= obsG.
  Proof.
    pose proof G_le_G'. pose proof (i_room c g s HI) as Hr. fold G lastg P K in Hr.
    assert (lastg <= obsG) by (apply last_mono_default; assumption).
    assert (obsG <= G').
    { apply desc_last_le. apply (desc_raise G); [assumption | apply (i_descg c g s HI)]. }
    repeat split; try assumption.
    rewrite P'_eq. destruct pv eqn:E; [apply pv_room in E|]; ulia.
  Qed.

  Lemma GP'_bounds : G' <= P' /\ P' <= G' + K.
  Proof.
    destruct obsP_bounds as [A [B _]]. destruct obsG_bounds as [C [D _]]. ulia.
  Qed.

  (* concrete next pointers *)
  Lemma put'_eq : inc k (s_put s) pv = P' mod M.
  Proof. rewrite (i_put c g s HI), P'_eq. apply inc_mod. Qed.
  Lemma get'_eq : inc k (s_get s) ov = G' mod M.
  Proof. rewrite (i_get c g s HI), G'_eq. apply inc_mod. Qed.

  Lemma popPut_eq : dec c (last (s_toPop s) (enc c (inc k (s_put s) pv))) = obsP mod M.
  Proof.
    rewrite put'_eq, (i_lp c g s HI). change (enc c (P' mod M)) with (cod c P').
    rewrite last_map. apply dec_cod.
  Qed.
  Lemma pushGet_eq : dec c (last (s_toPush s) (enc c (inc k (s_get s) ov))) = obsG mod M.
  Proof.
    rewrite get'_eq, (i_lg c g s HI). change (enc c (G' mod M)) with (cod c G').
    rewrite last_map. apply dec_cod.
  Qed.

  Lemma empty'_eq : cmp_empty k (obsP mod M) (G' mod M) = (obsP =? G').
  Proof.
    destruct obsP_bounds as [A [B _]]. destruct GP'_bounds as [C D].
    apply cmp_empty_spec; fold K; ulia.
  Qed.
  Lemma full'_eq : cmp_full k (P' mod M) (obsG mod M) = (P' =? obsG + K).
  Proof.
    destruct obsG_bounds as [A [B _]]. destruct GP'_bounds as [C D].
    apply cmp_full_spec; fold K; ulia.
  Qed.
  Lemma pushSize_eq : csub k (P' mod M) (obsG mod M) = P' - obsG.
  Proof.
    destruct obsG_bounds as [A [B _]]. destruct GP'_bounds as [C D].
    apply csub_spec; fold K; ulia.
  Qed.
  Lemma popSize_eq : csub k (obsP mod M) (G' mod M) = obsP - G'.
  Proof.
    destruct obsP_bounds as [A [B _]]. destruct GP'_bounds as [C D].
    apply csub_spec; fold K; ulia.
  Qed.

  (* the two history lines after the step *)
  Lemma lp'_facts :
    desc (P' :: g_lp g') /\ hd P' (g_lp g') = P' /\ lastp <= last (g_lp g') P' /\
    (po = true -> obsP <= last (g_lp g') P').
  Proof.
    unfold g', gen_gstep. cbn [g_lp].
    change (N.of_nat (length (if pe && pushReq && negb (s_full s) then g_items g ++ [d] else g_items g))) with P'.
    apply line_upd_inv.
    - apply (i_descp c g s HI).
    - apply (i_hdp c g s HI).
    - apply P_le_P'.
    - apply pe_false_P.
  Qed.

  Lemma lg'_facts :
    desc (G' :: g_lg g') /\ hd G' (g_lg g') = G' /\ lastg <= last (g_lg g') G' /\
    (pe = true -> obsG <= last (g_lg g') G').
  Proof.
    unfold g', gen_gstep. cbn [g_lg].
    change (if po && popReq && negb (s_empty s) then g_G g + 1 else g_G g) with G'.
    apply line_upd_inv.
    - apply (i_descg c g s HI).
    - apply (i_hdg c g s HI).
    - apply G_le_G'.
    - apply po_false_G.
  Qed.

  Lemma items'_nth i : i < P -> nth (N.to_nat i) (g_items g') 0 = nth (N.to_nat i) (g_items g) 0.
  Proof.
    intros H. unfold g', gen_gstep. cbn [g_items]. destruct (pe && pushReq && negb (s_full s)); [|reflexivity].
    apply app_nth1. unfold P, gP in H. ulia.
  Qed.

  Lemma mem'_ok : forall i, G' <= i -> i < P' ->
    s_mem s' (i mod K) = Some (nth (N.to_nat i) (g_items g') 0).
  Proof.
    intros i Hlo Hhi. pose proof G_le_G'. pose proof K_pos.
    unfold s', gen_step. cbn [s_mem]. fold k pv.
    rewrite P'_eq in Hhi.
    destruct pv eqn:Epv.
    - pose proof (pv_room Epv) as Hr. pose proof lastg_le.
      rewrite (i_put c g s HI). fold k. rewrite low_mod. fold K P.
      unfold mem_write.
      destruct (N.eq_dec i P) as [->|Hne].
      + rewrite N.eqb_refl. f_equal. unfold g', gen_gstep. cbn [g_items]. fold pv. rewrite Epv.
        unfold P, gP. rewrite Nat2N.id. symmetry. apply nth_middle.
      + assert (Hd : i mod K <> P mod K) by (apply slot_distinct; ulia).
        apply N.eqb_neq in Hd. rewrite Hd.
        rewrite items'_nth by ulia. apply (i_mem c g s HI); fold G P; ulia.
    - rewrite items'_nth by ulia. apply (i_mem c g s HI); fold G P; ulia.
  Qed.

  Lemma s'_empty : s_empty s' = if po then (obsP =? G') else s_empty s.
  Proof. unfold s', gen_step. cbn [s_empty]. fold k pv ov. rewrite popPut_eq, get'_eq, empty'_eq. reflexivity. Qed.
  Lemma s'_full : s_full s' = if pe then (P' =? obsG + K) else s_full s.
  Proof. unfold s', gen_step. cbn [s_full]. fold k pv ov. rewrite pushGet_eq, put'_eq, full'_eq. reflexivity. Qed.
  Lemma g'_lp : g_lp g' = line_upd pe po metaP P' (g_lp g).
  Proof. reflexivity. Qed.
  Lemma g'_lg : g_lg g' = line_upd po pe metaG G' (g_lg g).
  Proof. reflexivity. Qed.

  Theorem inv_step : Inv c g' s'.
  Proof.
    pose proof K_pos as HK.
    destruct obsP_bounds as [OP1 [OP2 OP3]]. destruct obsG_bounds as [OG1 [OG2 OG3]].
    destruct GP'_bounds as [GP1 GP2].
    destruct lp'_facts as [LP1 [LP2 [LP3 LP4]]]. destruct lg'_facts as [LG1 [LG2 [LG3 LG4]]].
    assert (Es_put : s_put s' = P' mod M) by (unfold s', gen_step; cbn [s_put]; apply put'_eq).
    assert (Es_get : s_get s' = G' mod M) by (unfold s', gen_step; cbn [s_get]; apply get'_eq).
    assert (Es_full : s_full s' = if pe then (P' =? obsG + K) else s_full s).
    { unfold s', gen_step. cbn [s_full]. fold k pv ov. rewrite pushGet_eq, put'_eq, full'_eq. reflexivity. }
    assert (Es_empty : s_empty s' = if po then (obsP =? G') else s_empty s).
    { unfold s', gen_step. cbn [s_empty]. fold k pv ov. rewrite popPut_eq, get'_eq, empty'_eq. reflexivity. }
    assert (Es_af : s_afull s' = if pe then (2 ^ c_k c - c_lvlF c <=? P' - obsG) else s_afull s).
    { unfold s', gen_step. cbn [s_afull]. fold k pv ov. rewrite pushGet_eq, put'_eq, pushSize_eq. reflexivity. }
    assert (Es_ae : s_aempty s' = if po then (obsP - G' <=? c_lvlE c) else s_aempty s).
    { unfold s', gen_step. cbn [s_aempty]. fold k pv ov. rewrite popPut_eq, get'_eq, popSize_eq. reflexivity. }
    constructor.
    - exact Es_put.
    - exact Es_get.
    - exact GP1.
    - exact GP2.
    - (* put line *)
      unfold s', gen_step, g', gen_gstep. cbn [s_toPop g_lp]. fold k pv.
      rewrite line_upd_map, <- (i_lp c g s HI). f_equal.
      rewrite put'_eq. unfold cod. f_equal.
    - unfold s', gen_step, g', gen_gstep. cbn [s_toPush g_lg]. fold k ov.
      rewrite line_upd_map, <- (i_lg c g s HI). f_equal.
      rewrite get'_eq. unfold cod. f_equal.
    - unfold g', gen_gstep. cbn [g_lp]. rewrite line_upd_length. apply (i_lenp c g s HI).
    - unfold g', gen_gstep. cbn [g_lg]. rewrite line_upd_length. apply (i_leng c g s HI).
    - exact LP1.
    - exact LG1.
    - exact LP2.
    - exact LG2.
    - (* visible bound *)
      fold P' G'. case_b po Epo.
      + specialize (LP4 Epo). ulia.
      + rewrite (po_false_G Epo). pose proof (i_vis c g s HI) as Hv. fold G lastp P in Hv. ulia.
    - fold P' G'. rewrite Es_empty. case_b po Epo.
      + specialize (LP4 Epo). intros E. apply N.eqb_neq in E. ulia.
      + rewrite (po_false_G Epo). intros E. pose proof (i_empty c g s HI E) as Hv. fold G lastp P in Hv. ulia.
    - fold P' G' k K. case_b pe Epe.
      + specialize (LG4 Epe). ulia.
      + rewrite (pe_false_P Epe). pose proof (i_room c g s HI) as Hv. fold G lastg P k K in Hv. ulia.
    - fold P' G' k K. rewrite Es_full. case_b pe Epe.
      + specialize (LG4 Epe). intros E. apply N.eqb_neq in E. ulia.
      + rewrite (pe_false_P Epe). intros E. pose proof (i_full c g s HI E) as Hv. fold G lastg P k K in Hv. ulia.
    - fold P' G' k K. rewrite Es_af. intros Hl. case_b pe Epe.
      + specialize (LG4 Epe). intros E. apply N.leb_gt in E. fold k K in E. ulia.
      + rewrite (pe_false_P Epe). intros E. pose proof (i_af c g s HI Hl E) as Hv. fold G lastg P k K in Hv. ulia.
    - fold P' G'. rewrite Es_ae. case_b po Epo.
      + specialize (LP4 Epo). intros E. apply N.leb_gt in E. ulia.
      + rewrite (po_false_G Epo). intros E. pose proof (i_ae c g s HI E) as Hv. fold G lastp P in Hv. ulia.
    - fold P' G' k K. apply mem'_ok.
    - (* peek *)
      fold G'. rewrite Es_empty. case_b po Epo.
      + intros E. apply N.eqb_neq in E.
        unfold s', gen_step. cbn [s_peek]. fold k pv ov. rewrite Epo. rewrite get'_eq. fold k. rewrite low_mod. fold K.
        destruct (c_lat c <=? 1)%nat eqn:EL.
        * (* latency 1: the read port sees the word being written *)
          apply Nat.leb_le in EL.
          assert (Hnil : g_lp g = []).
          { pose proof (i_lenp c g s HI) as Hl. destruct (g_lp g); [reflexivity | cbn in Hl; ulia]. }
          assert (obsP = P') by (unfold obsP; rewrite Hnil; reflexivity).
          pose proof (mem'_ok G' ltac:(ulia) ltac:(ulia)) as Hm.
          unfold s', gen_step in Hm. cbn [s_mem] in Hm. fold k pv in Hm. exact Hm.
        * apply Nat.leb_gt in EL.
          assert (Hne : g_lp g <> []).
          { pose proof (i_lenp c g s HI) as Hl. destruct (g_lp g); [cbn in Hl; ulia | discriminate]. }
          assert (obsP = lastp) by (apply last_nonempty_default; exact Hne).
          pose proof lastp_le. pose proof G_le_G'.
          rewrite items'_nth by ulia. apply (i_mem c g s HI); fold G P; ulia.
      + intros E. unfold s', gen_step. cbn [s_peek]. fold k pv ov. rewrite Epo. rewrite (po_false_G Epo).
        pose proof (i_empty c g s HI E) as Hv. fold G lastp P in Hv. pose proof lastp_le.
        rewrite items'_nth by ulia. apply (i_peek c g s HI E).
  Qed.

  (* what the interface shows during the cycle, against the abstract queue *)
  Lemma obs_ok :
    let o := mkObs (s_full s) (s_afull s) (s_empty s) (s_aempty s) (s_peek s)
                   (if pe && pushReq && negb (s_full s) then Some d else None)
                   (po && popReq && negb (s_empty s)) in
    q_step_ok K (q_of g) o /\ q_next (q_of g) o = q_of g'.
  Proof.
    cbn zeta. fold pv ov.
    pose proof (i_lo c g s HI) as Hlo. pose proof (i_hi c g s HI) as Hhi. fold G P k K in Hlo, Hhi.
    assert (Hlen : N.of_nat (length (q_of g)) = P - G).
    { unfold q_of. apply length_skipn_N. exact Hlo. }
    assert (Hhead : s_empty s = false ->
                    q_of g = nth (N.to_nat G) (g_items g) 0 :: skipn (S (N.to_nat G)) (g_items g)).
    { intros E. pose proof (i_empty c g s HI E) as Hv. fold G lastp P in Hv. pose proof lastp_le.
      unfold q_of. apply skipn_nth_cons. unfold P, gP in *. ulia. }
    split.
    - unfold q_step_ok. cbn [o_empty o_peek o_del o_acc o_full]. rewrite Hlen.
      split; [ulia|]. split; [|split].
      + intros E. eexists; eexists. split; [apply (Hhead E)|]. apply (i_peek c g s HI E).
      + unfold ov. intros H. apply andb_prop in H. destruct H as [_ H]. apply negb_true_iff in H. exact H.
      + intros x Hx. destruct pv eqn:Epv; [|discriminate].
        pose proof (pv_room Epv). pose proof lastg_le.
        unfold pv in Epv. apply andb_prop in Epv. destruct Epv as [_ Hf]. apply negb_true_iff in Hf.
        split; [exact Hf | ulia].
    - unfold q_next. cbn [o_del o_acc]. unfold q_of at 3. unfold g', gen_gstep. cbn [g_items g_G]. fold pv ov G.
      assert (Hpop : (if ov then tl (q_of g) else q_of g)
                     = skipn (N.to_nat (if ov then G + 1 else G)) (g_items g)).
      { destruct ov eqn:Eov; [|reflexivity].
        unfold ov in Eov. apply andb_prop in Eov. destruct Eov as [_ He]. apply negb_true_iff in He.
        rewrite (Hhead He). cbn [tl]. f_equal. ulia. }
      rewrite Hpop. destruct pv.
      + rewrite skipn_app.
        assert (Hz : (N.to_nat (if ov then G + 1 else G) - length (g_items g) = 0)%nat).
        { destruct ov eqn:Eov.
          - pose proof (ov_vis Eov). pose proof lastp_le. unfold P, gP in *. ulia.
          - unfold P, gP in *. ulia. }
        rewrite Hz. reflexivity.
      + apply app_nil_r.
  Qed.
End Step.

(* ---------------- initial state ---------------- *)
Definition g_init (c : cfg) : ghost := mkG [] 0 (repeat 0 (c_lat c - 1)%nat) (repeat 0 (c_lat c - 1)%nat).

Lemma desc_repeat0 n : desc (0 :: repeat 0 n).
Proof.
  induction n as [|n IH]; [exact I|]. cbn [repeat]. apply desc_cons_same. exact IH.
Qed.
Lemma last_repeat0 n : last (repeat 0 n) 0 = 0.
Proof.
  induction n as [|[|n] IH]; try reflexivity. exact IH.
Qed.
Lemma hd_repeat0 n : hd 0 (repeat 0 n) = 0.
Proof. destruct n; reflexivity. Qed.
Lemma map_repeat0 c n : map (cod c) (repeat 0 n) = repeat 0 n.
Proof.
  induction n as [|n IH]; [reflexivity|]. cbn [repeat map]. rewrite cod_0, IH. reflexivity.
Qed.

Lemma inv_init c : Inv c (g_init c) (init c).
Proof.
  pose proof (pow2_pos (c_k c)) as HK. pose proof (cmod_pos (c_k c)) as HM.
  constructor; unfold g_init, init, gP; cbn [g_items g_G g_lp g_lg s_put s_get s_toPop s_toPush
    s_empty s_full s_afull s_aempty s_mem s_peek length N.of_nat];
    rewrite ?last_repeat0, ?hd_repeat0, ?map_repeat0, ?repeat_length;
    try reflexivity; try (symmetry; apply N.mod_0_l; lia); try lia;
    try apply desc_repeat0; try discriminate.
Qed.
