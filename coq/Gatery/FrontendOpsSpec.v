(* C03 layer (b), part 1: operand normalisation (expansion policies), ext / zext / oext / sext,
   slices, cat / pack, static and dynamic shifts and rotates - the graphs built by the frontend
   compute the list / integer definition for all widths. *)
From Gatery Require Import Bits NodeSemDefs NodeSemBits NodeSemSpec NodeSemSpecArith NodeSemSpecShift FrontendOpsDefs FrontendOpsBits.
Import ListNotations.

(* ================================================================== *)
(* SignalReadPort::expand                                                *)

Definition fill_bit (p : pol) (x : bv) : tbit :=
  match p with PZero => B0 | POne => B1 | PSign => bv_get x (length x - 1) | PNone => BX end.

(* the operand is accepted: nothing to do, or it is narrower and carries a usable policy *)
Definition expand_ok (p : pol) (x : bv) (w : nat) : Prop :=
  length x = w \/ (length x < w /\ p <> PNone /\ (p = PSign -> 0 < length x)).

Lemma pad_const_eval x w s b :
  length x < w -> (forall n, rewire_piece [Some x] (mk_range n s) = repeat b n) ->
  node1 (KRewire (pad_const (length x) w s)) [x] = x ++ repeat b (w - length x).
Proof.
  intros Hlt Hs. rewrite node1_rewire. unfold pad_const, rw_add.
  rewrite Nat.min_r by lia.
  replace (w - length x =? 0) with false by (symmetry; apply Nat.eqb_neq; lia).
  destruct (Nat.eqb_spec (length x) 0) as [E|E].
  - destruct x; [|discriminate]. cbn [app map concat]. rewrite Hs, app_nil_r. reflexivity.
  - cbn [app map concat]. change (map (@Some bv) [x]) with [Some x]. rewrite piece_input, bv_slice_full, Hs, app_nil_r. reflexivity.
Qed.

Lemma pad_sign_eval x w :
  0 < length x -> length x < w ->
  node1 (KRewire (pad_sign (length x) w)) [x] = x ++ repeat (bv_get x (length x - 1)) (w - length x).
Proof.
  intros Hpos Hlt. rewrite node1_rewire. unfold pad_sign, rw_add.
  rewrite Nat.min_r by lia.
  replace (length x =? 0) with false by (symmetry; apply Nat.eqb_neq; lia).
  cbn [app map concat]. change (map (@Some bv) [x]) with [Some x].
  rewrite piece_input, bv_slice_full. f_equal.
  rewrite map_repeat, piece_input, bv_slice_one. apply repeat_concat_single.
Qed.

(* 4-state, every width: the operand followed by copies of the fill bit *)
Theorem expand_bits p x w :
  expand_ok p x w -> expand p x w = Some (x ++ repeat (fill_bit p x) (w - length x)).
Proof.
  intros [E|[Hlt [Hp Hs]]]; unfold expand.
  - subst w. rewrite Nat.ltb_irrefl, Nat.eqb_refl, Nat.sub_diag. cbn [repeat]. rewrite app_nil_r. reflexivity.
  - replace (w <? length x) with false by (symmetry; apply Nat.ltb_ge; lia).
    replace (length x =? w) with false by (symmetry; apply Nat.eqb_neq; lia).
    destruct p; try contradiction; cbn [fill_bit].
    + f_equal. apply pad_const_eval; [exact Hlt | reflexivity].
    + f_equal. apply pad_const_eval; [exact Hlt | reflexivity].
    + specialize (Hs eq_refl). replace (length x =? 0) with false by (symmetry; apply Nat.eqb_neq; lia).
      f_equal. apply pad_sign_eval; assumption.
Qed.

(* exactly the rejected operands: narrowing, widening without policy, sign extension of nothing *)
Theorem expand_rejected p x w :
  expand p x w = None <->
  (w < length x \/ (length x < w /\ p = PNone) \/ (length x < w /\ p = PSign /\ length x = 0)).
Proof.
  unfold expand.
  destruct (Nat.ltb_spec w (length x)) as [H1|H1]; [split; [intros _; left; exact H1 | reflexivity]|].
  destruct (Nat.eqb_spec (length x) w) as [H2|H2].
  - split; [discriminate | intros [H|[[H _]|[H _]]]; lia].
  - destruct p.
    + split; [intros _; right; left; split; [lia | reflexivity] | reflexivity].
    + split; [discriminate | intros [H|[[_ H]|[_ [H _]]]]; [lia | discriminate | discriminate]].
    + split; [discriminate | intros [H|[[_ H]|[_ [H _]]]]; [lia | discriminate | discriminate]].
    + destruct (Nat.eqb_spec (length x) 0) as [H3|H3].
      * split; [intros _; right; right; repeat split; [lia | exact H3] | reflexivity].
      * split; [discriminate | intros [H|[[_ H]|[_ [_ H]]]]; [lia | discriminate | contradiction]].
Qed.

Lemma expand_length p x w y : expand p x w = Some y -> length y = w.
Proof.
  intro H.
  assert (Hok : expand_ok p x w).
  { destruct (Nat.eq_dec (length x) w) as [E|E]; [left; exact E|]. right.
    assert (N : expand p x w <> None) by congruence.
    rewrite expand_rejected in N.
    destruct (Nat.ltb_spec w (length x)); [exfalso; apply N; left; assumption|].
    split; [lia|]. split.
    - intros ->. apply N. right; left. split; [lia | reflexivity].
    - intros ->. destruct (Nat.eq_dec (length x) 0); [|lia]. exfalso. apply N. right; right. repeat split; [lia | assumption]. }
  rewrite (expand_bits p x w Hok) in H. injection H as <-.
  rewrite app_length, repeat_length.
  destruct Hok as [E|[Hlt _]]; lia.
Qed.

Lemma expand_some_ok p x w y : expand p x w = Some y -> expand_ok p x w.
Proof.
  intro H. destruct (Nat.eq_dec (length x) w) as [E|E]; [left; exact E|]. right.
  assert (N : expand p x w <> None) by congruence.
  rewrite expand_rejected in N.
  destruct (Nat.ltb_spec w (length x)); [exfalso; apply N; left; assumption|].
  split; [lia|]. split.
  - intros ->. apply N. right; left. split; [lia | reflexivity].
  - intros ->. destruct (Nat.eq_dec (length x) 0); [|lia]. exfalso. apply N. right; right. repeat split; [lia | assumption].
Qed.

(* ---- value readings ------------------------------------------------ *)

(* zero extension keeps the unsigned value *)
Theorem expand_zero_value x w y v :
  expand PZero x w = Some y -> bv_val x = Some v -> bv_val y = Some v /\ length y = w.
Proof.
  intros H Hv. split; [|eapply expand_length; exact H].
  rewrite (expand_bits _ _ _ (expand_some_ok _ _ _ _ H)) in H. injection H as <-.
  cbn [fill_bit]. rewrite bv_val_app, Hv, bv_val_repeat0. f_equal. lia.
Qed.

(* one extension adds the ones above the operand *)
Theorem expand_one_value x w y v :
  expand POne x w = Some y -> bv_val x = Some v ->
  bv_val y = Some (v + (2 ^ N.of_nat w - 2 ^ N.of_nat (length x)))%N /\ length y = w.
Proof.
  intros H Hv. split; [|eapply expand_length; exact H].
  pose proof (expand_some_ok _ _ _ _ H) as Hok.
  rewrite (expand_bits _ _ _ Hok) in H. injection H as <-.
  cbn [fill_bit]. rewrite bv_val_app, Hv, bv_val_repeat1. f_equal.
  assert (Hle : length x <= w) by (destruct Hok as [E|[L _]]; lia).
  rewrite (pow2_N_split (length x) w Hle).
  pose proof (pow2_N_pos (N.of_nat (w - length x))). pose proof (pow2_N_pos (N.of_nat (length x))). nia.
Qed.

(* sign extension keeps the two's complement value *)
Theorem expand_sign_value x w y v :
  expand PSign x w = Some y -> bv_val x = Some v ->
  bv_sval y = Some (sint (length x) v) /\ length y = w.
Proof.
  intros H Hv. pose proof (expand_length _ _ _ _ H) as Ly. split; [|exact Ly].
  pose proof (expand_some_ok _ _ _ _ H) as Hok.
  rewrite (expand_bits _ _ _ Hok) in H. injection H as <-.
  destruct Hok as [E|[Hlt [_ Hpos]]].
  - subst w. rewrite Nat.sub_diag. cbn [repeat]. rewrite app_nil_r. unfold bv_sval. rewrite Hv. reflexivity.
  - specialize (Hpos eq_refl). cbn [fill_bit].
    destruct (length x) as [|k] eqn:Lx; [lia|]. cbn [Nat.sub]. rewrite Nat.sub_0_r.
    pose proof (bv_val_lt x v Hv) as Bv. rewrite Lx in Bv.
    assert (Hb : bv_get x k = of_bool (2 ^ N.of_nat k <=? v)%N).
    { rewrite (bv_get_val x v k Hv) by lia. f_equal. apply testbit_top.
      replace (N.succ (N.of_nat k)) with (N.of_nat (S k)) by lia. exact Bv. }
    rewrite Hb. unfold bv_sval. rewrite app_length, repeat_length, Lx in *.
    replace (S k + (w - S k)) with w in * by lia.
    rewrite bv_val_app, Hv, Lx.
    destruct w as [|w']; [lia|].
    assert (P := pow2_N_pos (N.of_nat k)).
    assert (S1 : (2 ^ N.of_nat (S k) = 2 * 2 ^ N.of_nat k)%N).
    { replace (N.of_nat (S k)) with (N.succ (N.of_nat k)) by lia. apply N.pow_succ_r'. }
    assert (Sp : (2 ^ N.of_nat (S w') = 2 ^ N.of_nat (S k) * 2 ^ N.of_nat (S w' - S k))%N) by (apply pow2_N_split; lia).
    assert (Pk := pow2_N_pos (N.of_nat (S w' - S k))).
    assert (Sw : (2 ^ N.of_nat (S w') = 2 * 2 ^ N.of_nat w')%N).
    { replace (N.of_nat (S w')) with (N.succ (N.of_nat w')) by lia. apply N.pow_succ_r'. }
    destruct (N.leb_spec (2 ^ N.of_nat k) v) as [Neg|Pos]; cbn [of_bool].
    + rewrite bv_val_repeat1. f_equal. rewrite !sint_unfold.
      replace (v <? 2 ^ N.of_nat k)%N with false by (symmetry; apply N.ltb_ge; exact Neg).
      set (K := (2 ^ N.of_nat (S w' - S k))%N) in *.
      assert (HK : (1 <= K)%N) by lia.
      replace (v + 2 ^ N.of_nat (S k) * (K - 1) <? 2 ^ N.of_nat w')%N with false by (symmetry; apply N.ltb_ge; nia).
      rewrite <- !of_N_pow2. rewrite Sp. fold K. nia.
    + rewrite bv_val_repeat0. f_equal. rewrite !sint_unfold.
      replace (v <? 2 ^ N.of_nat k)%N with true by (symmetry; apply N.ltb_lt; exact Pos).
      rewrite N.mul_0_r, N.add_0_r.
      replace (v <? 2 ^ N.of_nat w')%N with true; [reflexivity|].
      symmetry. apply N.ltb_lt. apply N.lt_le_trans with (m := (2 ^ N.of_nat k)%N); [exact Pos|].
      apply N.pow_le_mono_r; [discriminate | lia].
Qed.

Corollary expand_sign_value_Z x w y z :
  expand PSign x w = Some y -> bv_sval x = Some z -> bv_sval y = Some z /\ length y = w.
Proof.
  intros H Hz. destruct (bv_sval_val x z Hz) as [v [Hv ->]]. eapply expand_sign_value; eassumption.
Qed.

(* ================================================================== *)
(* ext / zext / oext / sext                                              *)

Definition ext_ty (a : sval) : sty := match sv_ty a with TB => TU | t => t end.

(* ext(x, BitWidth w, policy): rejected iff w < width or the expansion is rejected *)
Theorem fe_ext_to_spec p w a :
  fe_ext_to p w a =
  if w <? sv_w a then None
  else match expand p (sv_bits a) w with
       | Some y => Some (mk_sval (ext_ty a) p y)
       | None => None
       end.
Proof.
  unfold fe_ext_to, ext_ty, ret, bind. destruct (Nat.ltb_spec w (sv_w a)) as [H|H]; [reflexivity|].
  destruct (Nat.ltb_spec (sv_w a) w) as [H2|H2]; [reflexivity|].
  assert (E : sv_w a = w) by lia. unfold expand. unfold sv_w in *. rewrite E, Nat.ltb_irrefl, Nat.eqb_refl. reflexivity.
Qed.

(* ext(x, BitExtend n, policy) *)
Theorem fe_ext_by_spec p n a :
  fe_ext_by p n a =
  match expand p (sv_bits a) (sv_w a + n) with
  | Some y => Some (mk_sval (ext_ty a) p y)
  | None => None
  end.
Proof.
  unfold fe_ext_by, ext_ty, ret, bind. destruct (Nat.eqb_spec n 0) as [->|H]; [|reflexivity].
  unfold expand, sv_w. rewrite Nat.add_0_r, Nat.ltb_irrefl, Nat.eqb_refl. reflexivity.
Qed.

(* ext(x, BitReduce d, policy): the design check is inverted; every sane use is rejected *)
Theorem ext_reduce_rejected p d a : 0 < sv_w a \/ 0 < d -> fe_ext_reduce p d a = None.
Proof.
  intros H. unfold fe_ext_reduce. destruct (Nat.eqb_spec d 0); destruct (Nat.eqb_spec (sv_w a) 0); simpl; try reflexivity. lia.
Qed.

(* ================================================================== *)
(* Slices and single bits                                                *)

Lemma node1_slice x off w :
  node1 (KRewire (slice_ranges off w)) [x] = bv_slice x off w.
Proof.
  rewrite node1_rewire. unfold slice_ranges, rw_add. destruct (Nat.eqb_spec w 0) as [->|H]; [reflexivity|].
  cbn [app map concat]. rewrite piece_input, app_nil_r. reflexivity.
Qed.

Theorem fe_slice_spec off w a :
  fe_slice off w a =
  if sv_w a <? off + w then None
  else Some (mk_sval (sv_ty a) (sv_pol a) (firstn w (skipn off (sv_bits a)))).
Proof.
  unfold fe_slice, ret. destruct (Nat.ltb_spec (sv_w a) (off + w)) as [H|H]; [reflexivity|].
  rewrite node1_slice, bv_slice_firstn_skipn by exact H. reflexivity.
Qed.

Theorem fe_bit_spec i a :
  fe_bit i a = if i <? sv_w a then Some (mk_sval TB PNone [bv_get (sv_bits a) i]) else None.
Proof.
  unfold fe_bit, ret, bit_of. destruct (i <? sv_w a); [|reflexivity]. rewrite node1_slice, bv_slice_one. reflexivity.
Qed.

Theorem fe_msb_spec a :
  fe_msb a = if sv_w a =? 0 then None else Some (mk_sval TB PNone [bv_get (sv_bits a) (sv_w a - 1)]).
Proof.
  unfold fe_msb. destruct (Nat.eqb_spec (sv_w a) 0) as [H|H]; [reflexivity|].
  rewrite fe_bit_spec. replace (sv_w a - 1 <? sv_w a) with true by (symmetry; apply Nat.ltb_lt; lia). reflexivity.
Qed.

Theorem fe_lsb_spec a :
  fe_lsb a = if sv_w a =? 0 then None else Some (mk_sval TB PNone [bv_get (sv_bits a) 0]).
Proof.
  unfold fe_lsb. rewrite fe_bit_spec. destruct (Nat.eqb_spec (sv_w a) 0) as [H|H].
  - rewrite H. reflexivity.
  - replace (0 <? sv_w a) with true by (symmetry; apply Nat.ltb_lt; lia). reflexivity.
Qed.

Theorem fe_upper_spec w a :
  fe_upper w a = if sv_w a <? w then None else Some (mk_sval (sv_ty a) (sv_pol a) (skipn (sv_w a - w) (sv_bits a))).
Proof.
  unfold fe_upper. destruct (Nat.ltb_spec (sv_w a) w) as [H|H]; [reflexivity|].
  rewrite fe_slice_spec. replace (sv_w a <? sv_w a - w + w) with false by (symmetry; apply Nat.ltb_ge; lia).
  f_equal. f_equal. apply firstn_all2. rewrite skipn_length. unfold sv_w in *. lia.
Qed.

Theorem fe_lower_spec w a :
  fe_lower w a = if sv_w a <? w then None else Some (mk_sval (sv_ty a) (sv_pol a) (firstn w (sv_bits a))).
Proof. unfold fe_lower. rewrite fe_slice_spec. reflexivity. Qed.

(* ================================================================== *)
(* cat / pack                                                            *)

Lemma inp_app_r (pre : list (option bv)) (rest : list (option bv)) i :
  inp (pre ++ rest) (length pre + i) = inp rest i.
Proof. unfold inp. rewrite app_nth2 by lia. f_equal. lia. Qed.

Lemma concat_pieces (pre xs : list bv) :
  concat (map (rewire_piece (map (@Some bv) (pre ++ xs)))
              (map (fun iw => mk_range (snd iw) (RW_INPUT (fst iw) 0)) (combine (seq (length pre) (length xs)) (map (@length tbit) xs))))
  = concat xs.
Proof.
  revert pre. induction xs as [|x xs IH]; intro pre; [reflexivity|].
  cbn [length seq map combine concat fst snd].
  f_equal.
  - unfold rewire_piece. cbn [rw_src rw_width].
    rewrite map_app. cbn [map].
    replace (length pre) with (length (map (@Some bv) pre) + 0) by (rewrite map_length; lia).
    rewrite inp_app_r. cbn [inp nth]. apply bv_slice_full.
  - specialize (IH (pre ++ [x])). rewrite app_length in IH. cbn [length] in IH.
    replace (length pre + 1) with (S (length pre)) in IH by lia.
    rewrite <- app_assoc in IH. exact IH.
Qed.

Theorem fe_pack_spec args : fe_pack args = Some (mk_sval TU PNone (concat (map sv_bits args))).
Proof.
  unfold fe_pack, ret. f_equal. f_equal. rewrite node1_rewire. unfold concat_ranges.
  pose proof (concat_pieces [] (map sv_bits args)) as H. cbn [app length] in H.
  rewrite !map_length in *. unfold sv_w. rewrite <- (map_map sv_bits (@length tbit)). exact H.
Qed.

(* cat(a, b, c): the first parameter is the most significant part *)
Theorem fe_cat_spec args : fe_cat args = Some (mk_sval TU PNone (concat (map sv_bits (rev args)))).
Proof. unfold fe_cat. apply fe_pack_spec. Qed.

(* ================================================================== *)
(* Static shifts and rotates                                             *)

Lemma concat_repeat_bit (x : bv) j n :
  concat (map (rewire_piece [Some x]) (repeat (mk_range 1 (RW_INPUT 0 j)) n)) = repeat (bv_get x j) n.
Proof. rewrite map_repeat, piece_input, bv_slice_one. apply repeat_concat_single. Qed.

Lemma bv_get_app_build x y : forall i, bv_get (x ++ y) i = if i <? length x then bv_get x i else bv_get y (i - length x).
Proof. intro i. apply bv_get_app. Qed.

Lemma left_shape x a fr b :
  a <= length x -> concat (map (rewire_piece [Some x]) fr) = repeat b a ->
  concat (map (rewire_piece [Some x]) (fr ++ (if a <? length x then [mk_range (length x - a) (RW_INPUT 0 0)] else [])))
  = bv_build (length x) (fun i => if i <? a then b else bv_get x (i - a)).
Proof.
  intros Ha Hfr. rewrite map_app, concat_app, Hfr. apply bv_ext.
  - rewrite app_length, repeat_length, bv_build_length.
    destruct (Nat.ltb_spec a (length x)); cbn [map concat]; rewrite ?piece_input, ?app_nil_r, ?bv_slice_length; cbn [length]; lia.
  - intros i Hi. rewrite bv_get_app, repeat_length, bv_get_repeat, bv_get_build.
    assert (Hiw : i < length x).
    { rewrite app_length, repeat_length in Hi.
      destruct (Nat.ltb_spec a (length x)); cbn [map concat] in Hi; rewrite ?piece_input, ?app_nil_r, ?bv_slice_length in Hi; cbn [length] in Hi; lia. }
    apply Nat.ltb_lt in Hiw as Hiw'. rewrite Hiw'.
    destruct (Nat.ltb_spec i a) as [L|L]; [reflexivity|].
    destruct (Nat.ltb_spec a (length x)) as [A|A]; [|lia].
    cbn [map concat]. rewrite piece_input, app_nil_r, bv_get_slice.
    replace (i - a <? length x - a) with true by (symmetry; apply Nat.ltb_lt; lia). reflexivity.
Qed.

Lemma right_shape x a fr b :
  a <= length x -> concat (map (rewire_piece [Some x]) fr) = repeat b a ->
  concat (map (rewire_piece [Some x]) ((if a <? length x then [mk_range (length x - a) (RW_INPUT 0 a)] else []) ++ fr))
  = bv_build (length x) (fun i => if i <? length x - a then bv_get x (i + a) else b).
Proof.
  intros Ha Hfr. rewrite map_app, concat_app, Hfr. apply bv_ext.
  - rewrite app_length, repeat_length, bv_build_length.
    destruct (Nat.ltb_spec a (length x)); cbn [map concat]; rewrite ?piece_input, ?app_nil_r, ?bv_slice_length; cbn [length]; lia.
  - intros i Hi.
    assert (Hiw : i < length x).
    { rewrite app_length, repeat_length in Hi.
      destruct (Nat.ltb_spec a (length x)); cbn [map concat] in Hi; rewrite ?piece_input, ?app_nil_r, ?bv_slice_length in Hi; cbn [length] in Hi; lia. }
    rewrite bv_get_app, bv_get_repeat, bv_get_build.
    apply Nat.ltb_lt in Hiw as Hiw'. rewrite Hiw'.
    destruct (Nat.ltb_spec a (length x)) as [A|A]; cbn [map concat]; rewrite ?piece_input, ?app_nil_r, ?bv_slice_length; cbn [length].
    + destruct (Nat.ltb_spec i (length x - a)) as [L|L].
      * rewrite bv_get_slice. apply Nat.ltb_lt in L as L'. rewrite L'. f_equal. lia.
      * replace (i - (length x - a) <? a) with true by (symmetry; apply Nat.ltb_lt; lia). reflexivity.
    + assert (a = length x) by lia. subst a. rewrite Nat.sub_diag, Nat.sub_0_r. change (i <? 0) with false. cbv iota. rewrite Hiw'. reflexivity.
Qed.

Lemma const_piece_zero x n : concat (map (rewire_piece [Some x]) [mk_range n RW_ZERO]) = repeat B0 n.
Proof. cbn. apply app_nil_r. Qed.
Lemma const_piece_one x n : concat (map (rewire_piece [Some x]) [mk_range n RW_ONE]) = repeat B1 n.
Proof. cbn. apply app_nil_r. Qed.

(* For EVERY amount (also > width) and all four fill modes the rewire built by shift<>() is the
   bit-vector definition of the shift (the same definition Node_Shift satisfies, eval_shift_spec);
   4-state: undefined operand bits are moved, not spread. *)
Theorem static_shift_spec d f x n :
  static_shift d f x n = bv_build (length x) (shift_spec_bit d f (length x) x (N.of_nat n)).
Proof.
  unfold static_shift. rewrite node1_rewire. change (map (@Some bv) [x]) with [Some x].
  destruct (Nat.eqb_spec (length x) 0) as [W0|W0].
  - (* zero width: every range is empty *)
    assert (x = []) by (destruct x; [reflexivity | discriminate]). subst x. cbn [length].
    destruct f, d; rewrite ?Nat.min_0_r; reflexivity.
  - idtac.
    destruct f.
    + (* zero fill *)
      assert (Ha : min n (length x) <= (length x)) by lia.
      destruct d; unfold right_shift_ranges, left_shift_ranges; cbv beta iota.
      * etransitivity; [exact (left_shape x (min n (length x)) _ B0 Ha (const_piece_zero x _)) |]. apply bv_build_ext. intros i Hi.
        unfold shift_spec_bit. cbn [shift_fillbit].
        destruct (Nat.ltb_spec i (min n (length x))); destruct (N.ltb_spec (N.of_nat i) (N.of_nat n)); try lia; [reflexivity|].
        f_equal. lia.
      * etransitivity; [exact (right_shape x (min n (length x)) _ B0 Ha (const_piece_zero x _)) |]. apply bv_build_ext. intros i Hi.
        unfold shift_spec_bit. cbn [shift_fillbit]. idtac.
        destruct (Nat.ltb_spec i ((length x) - min n (length x))); destruct (N.ltb_spec (N.of_nat i + N.of_nat n) (N.of_nat (length x))); try lia; [|reflexivity].
        f_equal. lia.
    + (* one fill *)
      assert (Ha : min n (length x) <= (length x)) by lia.
      destruct d; unfold right_shift_ranges, left_shift_ranges; cbv beta iota.
      * etransitivity; [exact (left_shape x (min n (length x)) _ B1 Ha (const_piece_one x _)) |]. apply bv_build_ext. intros i Hi.
        unfold shift_spec_bit. cbn [shift_fillbit].
        destruct (Nat.ltb_spec i (min n (length x))); destruct (N.ltb_spec (N.of_nat i) (N.of_nat n)); try lia; [reflexivity|].
        f_equal. lia.
      * etransitivity; [exact (right_shape x (min n (length x)) _ B1 Ha (const_piece_one x _)) |]. apply bv_build_ext. intros i Hi.
        unfold shift_spec_bit. cbn [shift_fillbit]. idtac.
        destruct (Nat.ltb_spec i ((length x) - min n (length x))); destruct (N.ltb_spec (N.of_nat i + N.of_nat n) (N.of_nat (length x))); try lia; [|reflexivity].
        f_equal. lia.
    + (* last: replicate the first / last bit *)
      assert (Ha : min n (length x) <= (length x)) by lia.
      replace ((length x) =? 0) with false by (symmetry; apply Nat.eqb_neq; exact W0).
      destruct d; unfold right_shift_ranges, left_shift_ranges; cbv beta iota.
      * etransitivity; [exact (left_shape x (min n (length x)) _ (bv_get x 0) Ha (concat_repeat_bit x 0 _)) |]. apply bv_build_ext. intros i Hi.
        unfold shift_spec_bit. cbn [shift_fillbit]. idtac.
        replace ((length x) =? 0) with false by (symmetry; apply Nat.eqb_neq; exact W0).
        destruct (Nat.ltb_spec i (min n (length x))); destruct (N.ltb_spec (N.of_nat i) (N.of_nat n)); try lia; [reflexivity|].
        f_equal. lia.
      * etransitivity; [exact (right_shape x (min n (length x)) _ (bv_get x ((length x) - 1)) Ha (concat_repeat_bit x ((length x) - 1) _)) |]. apply bv_build_ext. intros i Hi.
        unfold shift_spec_bit. cbn [shift_fillbit]. idtac.
        replace ((length x) =? 0) with false by (symmetry; apply Nat.eqb_neq; exact W0).
        destruct (Nat.ltb_spec i ((length x) - min n (length x))); destruct (N.ltb_spec (N.of_nat i + N.of_nat n) (N.of_nat (length x))); try lia; [|reflexivity].
        f_equal. lia.
    + (* rotate by n mod (length x) *)
      replace ((length x) =? 0) with false by (symmetry; apply Nat.eqb_neq; exact W0).
      assert (Hr : n mod (length x) < (length x)) by (apply Nat.mod_upper_bound; exact W0).
      assert (Er : N.to_nat (N.of_nat n mod N.of_nat (length x)) = n mod (length x)).
      { rewrite <- Nat2N.inj_mod by exact W0. apply Nat2N.id. }
      set (r := n mod (length x)) in *.
      destruct d; unfold right_shift_ranges, left_shift_ranges; cbv beta iota.
      * replace (r <? (length x)) with true by (symmetry; apply Nat.ltb_lt; exact Hr).
        cbn [app map concat]. rewrite !piece_input, app_nil_r. apply bv_ext.
        -- rewrite app_length, !bv_slice_length, bv_build_length. lia.
        -- intros i Hi. rewrite app_length, !bv_slice_length in Hi.
           rewrite bv_get_app, bv_slice_length, !bv_get_slice, bv_get_build.
           replace (i <? (length x)) with true by (symmetry; apply Nat.ltb_lt; lia).
           unfold shift_spec_bit. idtac. rewrite Er. fold r.
           rewrite rot_left_index by lia.
           destruct (Nat.ltb_spec i r).
           ++ f_equal.
           ++ replace (i - r <? (length x) - r) with true by (symmetry; apply Nat.ltb_lt; lia). reflexivity.
      * replace (r <? (length x)) with true by (symmetry; apply Nat.ltb_lt; exact Hr).
        cbn [app map concat]. rewrite !piece_input, app_nil_r. apply bv_ext.
        -- rewrite app_length, !bv_slice_length, bv_build_length. lia.
        -- intros i Hi. rewrite app_length, !bv_slice_length in Hi.
           rewrite bv_get_app, bv_slice_length, !bv_get_slice, bv_get_build.
           replace (i <? (length x)) with true by (symmetry; apply Nat.ltb_lt; lia).
           unfold shift_spec_bit. idtac. rewrite Er. fold r.
           rewrite rot_right_index by lia.
           destruct (Nat.ltb_spec i ((length x) - r)).
           ++ f_equal. lia.
           ++ replace (i - ((length x) - r) <? r) with true by (symmetry; apply Nat.ltb_lt; lia). reflexivity.
Qed.
