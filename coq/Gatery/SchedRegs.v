(* C04 -- one time instant of the simulator as seen by the registers: closed form of the
   clock / reset / process events, independence of every visiting and tie-breaking order,
   pre-edge sampling, reset behaviour. *)
From Coq Require Import QArith Qreduction Permutation Sorted Lia.
Require Import Gatery.Bits.
Require Import Gatery.gen.EventOrder.
Require Import Gatery.SchedDefs.
Require Import Gatery.SchedOrder.
Import ListNotations.
Local Close Scope Q_scope.

(* ------------------------------------------------------------------------- *)
(** * Lists: mapi, upd, pointwise reasoning *)

Lemma nth_error_mapi_aux {A B} (f : nat -> A -> B) l : forall i k,
  nth_error (mapi_aux f i l) k = option_map (f (i + k)) (nth_error l k).
Proof.
  induction l as [|x t IH]; intros i k; simpl.
  - destruct k; reflexivity.
  - destruct k as [|k]; simpl.
    + rewrite Nat.add_0_r. reflexivity.
    + rewrite IH. rewrite Nat.add_succ_r. reflexivity.
Qed.

Lemma nth_error_mapi {A B} (f : nat -> A -> B) l k :
  nth_error (mapi f l) k = option_map (f k) (nth_error l k).
Proof. unfold mapi. rewrite nth_error_mapi_aux. reflexivity. Qed.

Lemma nth_error_ext {A} (l l' : list A) : (forall k, nth_error l k = nth_error l' k) -> l = l'.
Proof.
  revert l'; induction l as [|x t IH]; intros [|y t'] H; auto.
  - specialize (H 0). discriminate.
  - specialize (H 0). discriminate.
  - f_equal.
    + specialize (H 0). simpl in H. congruence.
    + apply IH. intro k. apply (H (S k)).
Qed.

Lemma length_mapi {A B} (f : nat -> A -> B) l : length (mapi f l) = length l.
Proof.
  unfold mapi. generalize 0. induction l; intro i; simpl; auto.
Qed.

Lemma mapi_mapi {A B C} (g : nat -> B -> C) (f : nat -> A -> B) l :
  mapi g (mapi f l) = mapi (fun i x => g i (f i x)) l.
Proof.
  apply nth_error_ext. intro k. rewrite !nth_error_mapi. destruct (nth_error l k); reflexivity.
Qed.

Lemma mapi_ext_in {A B} (f g : nat -> A -> B) l :
  (forall k x, nth_error l k = Some x -> f k x = g k x) -> mapi f l = mapi g l.
Proof.
  intro H. apply nth_error_ext. intro k. rewrite !nth_error_mapi.
  destruct (nth_error l k) eqn:E; simpl; [f_equal; apply H, E | reflexivity].
Qed.

Lemma mapi_id {A} (l : list A) : mapi (fun _ x => x) l = l.
Proof.
  apply nth_error_ext. intro k. rewrite nth_error_mapi. destruct (nth_error l k); reflexivity.
Qed.

Lemma nth_error_upd {A} (f : A -> A) l : forall i k,
  nth_error (upd i f l) k = if Nat.eqb i k then option_map f (nth_error l k) else nth_error l k.
Proof.
  induction l as [|x t IH]; intros i k.
  - destruct i, k; simpl; try reflexivity. destruct (Nat.eqb i k); reflexivity.
  - destruct i as [|i], k as [|k]; simpl; try reflexivity. apply IH.
Qed.

Lemma length_upd {A} (f : A -> A) l : forall i, length (upd i f l) = length l.
Proof. induction l; intros [|i]; simpl; auto. Qed.

(* visiting the registers one after the other, each visit touching only its own register *)
Lemma apply_regs_nth (f : nat -> rstate -> rstate) order : forall regs k,
  NoDup order ->
  nth_error (apply_regs order f regs) k =
  option_map (fun s => if existsb (Nat.eqb k) order then f k s else s) (nth_error regs k).
Proof.
  unfold apply_regs. induction order as [|r rest IH]; intros regs k Hnd; simpl.
  - destruct (nth_error regs k); reflexivity.
  - inversion Hnd as [|? ? Hnot Hnd']; subst.
    rewrite IH by exact Hnd'. rewrite nth_error_upd.
    destruct (Nat.eqb k r) eqn:E.
    + apply Nat.eqb_eq in E. subst k. rewrite Nat.eqb_refl.
      assert (Hex : existsb (Nat.eqb r) rest = false).
      { destruct (existsb (Nat.eqb r) rest) eqn:Ex; [|reflexivity]. exfalso.
        apply existsb_exists in Ex. destruct Ex as (x & Hx & Ex). apply Nat.eqb_eq in Ex. subst x. contradiction. }
      rewrite Hex. simpl. destruct (nth_error regs r); reflexivity.
    + rewrite Nat.eqb_sym, E. simpl. reflexivity.
Qed.

Lemma apply_regs_mapi (f : nat -> rstate -> rstate) order regs :
  NoDup order -> (forall k, k < length regs -> In k order) ->
  apply_regs order f regs = mapi f regs.
Proof.
  intros Hnd Hall. apply nth_error_ext. intro k.
  rewrite apply_regs_nth by exact Hnd. rewrite nth_error_mapi.
  destruct (nth_error regs k) eqn:E; [|reflexivity]. simpl.
  assert (Hk : k < length regs) by (apply nth_error_Some; congruence).
  assert (Hex : existsb (Nat.eqb k) order = true).
  { apply existsb_exists. exists k. split; [apply Hall, Hk | apply Nat.eqb_refl]. }
  rewrite Hex. reflexivity.
Qed.

Lemma existsb_perm {A} (f : A -> bool) l l' : Permutation l l' -> existsb f l = existsb f l'.
Proof.
  induction 1; simpl; auto.
  - rewrite IHPermutation. reflexivity.
  - destruct (f x), (f y); reflexivity.
  - congruence.
Qed.

(* advance_commute at the level of the node visiting loop *)
Lemma apply_regs_perm (f : nat -> rstate -> rstate) order order' regs :
  NoDup order -> Permutation order order' -> apply_regs order f regs = apply_regs order' f regs.
Proof.
  intros Hnd Hp. apply nth_error_ext. intro k.
  rewrite !apply_regs_nth; [|eapply Permutation_NoDup; eassumption | exact Hnd].
  rewrite (existsb_perm _ _ _ Hp). reflexivity.
Qed.

(* ------------------------------------------------------------------------- *)
(** * Well-formedness of the node order and of the data state *)

Definition order_ok (cfg : config) : Prop :=
  NoDup (cfg_order cfg) /\ forall r, r < length (cfg_regs cfg) -> In r (cfg_order cfg).

Definition data_ok (cfg : config) (d : data) : Prop := length (d_regs d) = length (cfg_regs cfg).

(* the same configuration with another visiting order *)
Definition with_order (cfg : config) (o : list nat) : config :=
  mk_config (cfg_clocks cfg) (cfg_regs cfg) (cfg_inputs cfg) o (cfg_rstev cfg) (cfg_stim cfg).

(* ------------------------------------------------------------------------- *)
(** * Closed forms of the two hardware events *)

Definition adv_fun (cfg : config) (pin : nat) (rising : bool) (r : nat) (s : rstate) : rstate :=
  if hit cfg pin rising r then reg_advance (reg_clock cfg r) (get_reg cfg r) s else s.

Definition rst_fun (cfg : config) (rpin : nat) (level : bool) (r : nat) (s : rstate) : rstate :=
  if on_rstpin cfg rpin r then reg_reset_change (reg_clock cfg r) (get_reg cfg r) level s else s.

Lemma clock_value_change_mapi cfg pin rising d :
  order_ok cfg -> data_ok cfg d ->
  clock_value_change cfg pin rising d = mk_data (mapi (adv_fun cfg pin rising) (d_regs d)) (d_inputs d).
Proof.
  intros [H1 H2] Hd. unfold clock_value_change. f_equal.
  apply apply_regs_mapi; [exact H1|]. intros k Hk. apply H2. rewrite <- Hd. exact Hk.
Qed.

Lemma reset_value_change_mapi cfg rpin level d :
  order_ok cfg -> data_ok cfg d ->
  reset_value_change cfg rpin level d = mk_data (mapi (rst_fun cfg rpin level) (d_regs d)) (d_inputs d).
Proof.
  intros [H1 H2] Hd. unfold reset_value_change. f_equal.
  apply apply_regs_mapi; [exact H1|]. intros k Hk. apply H2. rewrite <- Hd. exact Hk.
Qed.

(* advance_commute: any permutation of the order in which clocked nodes are advanced (or reset) gives the same state *)
Lemma clock_value_change_order cfg o o' pin rising d :
  NoDup o -> Permutation o o' ->
  clock_value_change (with_order cfg o) pin rising d = clock_value_change (with_order cfg o') pin rising d.
Proof.
  intros Hnd Hp. unfold clock_value_change. f_equal. simpl. apply apply_regs_perm; assumption.
Qed.

Lemma reset_value_change_order cfg o o' rpin level d :
  NoDup o -> Permutation o o' ->
  reset_value_change (with_order cfg o) rpin level d = reset_value_change (with_order cfg o') rpin level d.
Proof.
  intros Hnd Hp. unfold reset_value_change. f_equal. simpl. apply apply_regs_perm; assumption.
Qed.

(* ------------------------------------------------------------------------- *)
(** * All clock events / all reset events of one instant *)

Definition triggered (cfg : config) (P : list (nat * bool)) (r : nat) : bool :=
  existsb (fun pe => hit cfg (fst pe) (snd pe) r) P.

Definition spec_clock (cfg : config) (P : list (nat * bool)) (d : data) : data :=
  mk_data (mapi (fun r s => if triggered cfg P r then reg_advance (reg_clock cfg r) (get_reg cfg r) s else s) (d_regs d))
          (d_inputs d).

Definition rst_level (cfg : config) (R : list (nat * bool)) (r : nat) : option bool :=
  match find (fun pe => on_rstpin cfg (fst pe) r) R with Some pe => Some (snd pe) | None => None end.

Definition spec_reset (cfg : config) (R : list (nat * bool)) (d : data) : data :=
  mk_data (mapi (fun r s => match rst_level cfg R r with
                            | Some lv => reg_reset_change (reg_clock cfg r) (get_reg cfg r) lv s
                            | None => s end) (d_regs d))
          (d_inputs d).

Lemma data_ok_spec_clock cfg P d : data_ok cfg d -> data_ok cfg (spec_clock cfg P d).
Proof. unfold data_ok, spec_clock; simpl. rewrite length_mapi. auto. Qed.
Lemma data_ok_spec_reset cfg R d : data_ok cfg d -> data_ok cfg (spec_reset cfg R d).
Proof. unfold data_ok, spec_reset; simpl. rewrite length_mapi. auto. Qed.

Lemma hit_pin cfg pin rising r : hit cfg pin rising r = true -> pinsrc (cfg_clocks cfg) (rg_clk (get_reg cfg r)) = pin.
Proof. unfold hit. intro H. apply andb_prop in H. destruct H as [H _]. apply Nat.eqb_eq. exact H. Qed.

Lemma triggered_notin cfg P pin rising r :
  ~ In pin (map fst P) -> hit cfg pin rising r = true -> triggered cfg P r = false.
Proof.
  intros Hn Hh. unfold triggered. destruct (existsb _ P) eqn:E; [|reflexivity]. exfalso.
  apply existsb_exists in E. destruct E as (pe & Hpe & E).
  apply hit_pin in Hh. apply hit_pin in E. apply Hn. apply in_map_iff. exists pe. split; [congruence | exact Hpe].
Qed.

Lemma fold_clock_events cfg P : forall d,
  order_ok cfg -> data_ok cfg d -> NoDup (map fst P) ->
  fold_left (fun d pe => clock_value_change cfg (fst pe) (snd pe) d) P d = spec_clock cfg P d.
Proof.
  induction P as [|[pin rising] P IH]; intros d Ho Hd Hnd; simpl.
  - unfold spec_clock. simpl. rewrite mapi_id. destruct d; reflexivity.
  - inversion Hnd as [|? ? Hnot Hnd']; subst.
    rewrite clock_value_change_mapi by assumption.
    rewrite IH; [| exact Ho | unfold data_ok; simpl; rewrite length_mapi; exact Hd | exact Hnd'].
    unfold spec_clock. simpl. f_equal. rewrite mapi_mapi. apply mapi_ext_in. intros k x _.
    unfold adv_fun, triggered. simpl.
    destruct (hit cfg pin rising k) eqn:Eh; simpl.
    + pose proof (triggered_notin cfg P pin rising k Hnot Eh) as Et. unfold triggered in Et. rewrite Et. reflexivity.
    + reflexivity.
Qed.

Lemma rst_level_notin cfg R rpin r :
  ~ In rpin (map fst R) -> on_rstpin cfg rpin r = true -> rst_level cfg R r = None.
Proof.
  intros Hn Ho. unfold rst_level. destruct (find _ R) as [pe|] eqn:E; [|reflexivity]. exfalso.
  apply find_some in E. destruct E as [Hpe E]. apply Hn. apply in_map_iff. exists pe. split; [|exact Hpe].
  unfold on_rstpin in *. destruct (rstsrc (cfg_clocks cfg) (rg_clk (get_reg cfg r))); [|discriminate].
  apply Nat.eqb_eq in E, Ho. congruence.
Qed.

Lemma fold_reset_events cfg R : forall d,
  order_ok cfg -> data_ok cfg d -> NoDup (map fst R) ->
  fold_left (fun d pe => reset_value_change cfg (fst pe) (snd pe) d) R d = spec_reset cfg R d.
Proof.
  induction R as [|[rpin level] R IH]; intros d Ho Hd Hnd; simpl.
  - unfold spec_reset. simpl. rewrite mapi_id. destruct d; reflexivity.
  - inversion Hnd as [|? ? Hnot Hnd']; subst.
    rewrite reset_value_change_mapi by assumption.
    rewrite IH; [| exact Ho | unfold data_ok; simpl; rewrite length_mapi; exact Hd | exact Hnd'].
    unfold spec_reset. simpl. f_equal. rewrite mapi_mapi. apply mapi_ext_in. intros k x _.
    unfold rst_fun, rst_level. simpl.
    destruct (on_rstpin cfg rpin k) eqn:Eo; simpl.
    + pose proof (rst_level_notin cfg R rpin k Hnot Eo) as Et. unfold rst_level in Et.
      destruct (find (fun pe => on_rstpin cfg (fst pe) k) R); [discriminate | reflexivity].
    + reflexivity.
Qed.

Lemma triggered_perm cfg P P' r : Permutation P P' -> triggered cfg P r = triggered cfg P' r.
Proof. intro H. unfold triggered. apply existsb_perm. exact H. Qed.

Lemma spec_clock_perm cfg P P' d : Permutation P P' -> spec_clock cfg P d = spec_clock cfg P' d.
Proof.
  intro H. unfold spec_clock. f_equal. apply mapi_ext_in. intros k x _.
  rewrite (triggered_perm cfg P P' k H). reflexivity.
Qed.

Lemma find_perm_nodup cfg R R' r :
  NoDup (map fst R) -> Permutation R R' -> rst_level cfg R r = rst_level cfg R' r.
Proof.
  intros Hnd Hp. revert Hnd. induction Hp; intro Hnd; simpl; auto.
  - unfold rst_level in *. simpl. destruct (on_rstpin cfg (fst x) r); [reflexivity|].
    apply IHHp. inversion Hnd; assumption.
  - unfold rst_level. simpl.
    destruct (on_rstpin cfg (fst y) r) eqn:Ey, (on_rstpin cfg (fst x) r) eqn:Ex; try reflexivity.
    exfalso. inversion Hnd as [|? ? Hn _]; subst. apply Hn. left.
    unfold on_rstpin in *. destruct (rstsrc (cfg_clocks cfg) (rg_clk (get_reg cfg r))); [|discriminate].
    apply Nat.eqb_eq in Ex, Ey. congruence.
  - rewrite IHHp1 by exact Hnd. apply IHHp2.
    eapply Permutation_NoDup; [apply Permutation_map; exact Hp1 | exact Hnd].
Qed.

Lemma spec_reset_perm cfg R R' d :
  NoDup (map fst R) -> Permutation R R' -> spec_reset cfg R d = spec_reset cfg R' d.
Proof.
  intros Hnd H. unfold spec_reset. f_equal. apply mapi_ext_in. intros k x _.
  rewrite (find_perm_nodup cfg R R' k Hnd H). reflexivity.
Qed.

(* ------------------------------------------------------------------------- *)
(** * latch *)

Definition latched (cfg : config) (comb : network) (d : data) : Prop := latch cfg comb d = d.

Lemma latch_outs cfg comb d : map r_out (d_regs (latch cfg comb d)) = map r_out (d_regs d).
Proof.
  unfold latch. simpl. apply nth_error_ext. intro k.
  rewrite !nth_error_map, nth_error_mapi. destruct (nth_error (d_regs d) k); reflexivity.
Qed.

Lemma latch_inputs cfg comb d : d_inputs (latch cfg comb d) = d_inputs d.
Proof. reflexivity. Qed.

Lemma latch_idem cfg comb d : latch cfg comb (latch cfg comb d) = latch cfg comb d.
Proof.
  unfold latch at 1. rewrite latch_outs, latch_inputs.
  unfold latch. simpl. f_equal. rewrite mapi_mapi. apply mapi_ext_in. intros k x _. reflexivity.
Qed.

Lemma latched_latch cfg comb d : latched cfg comb (latch cfg comb d).
Proof. apply latch_idem. Qed.

Lemma data_ok_latch cfg comb d : data_ok cfg d -> data_ok cfg (latch cfg comb d).
Proof. unfold data_ok, latch; simpl. rewrite length_mapi. auto. Qed.

Lemma data_ok_apply_stim cfg w d : data_ok cfg d -> data_ok cfg (apply_stim w d).
Proof. unfold data_ok, apply_stim; simpl. auto. Qed.

(* what a latched state holds in INT_DATA / INT_ENABLE: the network evaluated on the current outputs and inputs *)
Lemma latched_fields cfg comb d r s :
  latched cfg comb d -> nth_error (d_regs d) r = Some s ->
  r_latD s = match fst (comb (map r_out (d_regs d)) (d_inputs d) r) with
             | Some v => v | None => all_X (rg_width (get_reg cfg r)) end /\
  r_latEN s = match snd (comb (map r_out (d_regs d)) (d_inputs d) r) with Some e => e | None => B1 end.
Proof.
  intros Hl Hs. unfold latched in Hl.
  assert (H : nth_error (d_regs (latch cfg comb d)) r = Some s) by (rewrite Hl; exact Hs).
  unfold latch in H. simpl in H. rewrite nth_error_mapi, Hs in H. simpl in H.
  inversion H as [H']. rewrite <- H' at 1 2. split; reflexivity.
Qed.

(* ------------------------------------------------------------------------- *)
(** * The events of one instant and handleCurrentTimeStep *)

Definition cvc_ev (t : Q) (pe : nat * bool) : event :=
  mk_event clockValueChange t default_microtick default_phase 0 (fst pe) (snd pe).
Definition rvc_ev (t : Q) (pe : nat * bool) : event :=
  mk_event resetValueChange t default_microtick default_phase 0 (fst pe) (snd pe).
Definition spr_ev (t : Q) (ik : N * nat) : event :=
  mk_event simProcResume t 0 AFTER (fst ik) (snd ik) false.

(* clock value changes of the pins P, reset value changes R, process resumptions S, all at time t *)
Definition evs_of (t : Q) (P R : list (nat * bool)) (S : list (N * nat)) : list event :=
  map (cvc_ev t) P ++ map (rvc_ev t) R ++ map (spr_ev t) S.

Definition is_cvc (e : event) : bool := evtype_eqb (ev_type e) clockValueChange.

Lemma filter_map_all {A B} (f : B -> bool) (g : A -> B) l : (forall x, f (g x) = true) -> filter f (map g l) = map g l.
Proof. intro H. induction l; simpl; [reflexivity|]. rewrite H, IHl. reflexivity. Qed.
Lemma filter_map_none {A B} (f : B -> bool) (g : A -> B) l : (forall x, f (g x) = false) -> filter f (map g l) = [].
Proof. intro H. induction l; simpl; [reflexivity|]. rewrite H, IHl. reflexivity. Qed.

Lemma evs_of_before t P R S : filter (fun e => phase_eqb (ev_phase e) BEFORE) (evs_of t P R S) = [].
Proof.
  unfold evs_of. rewrite !filter_app, !filter_map_none; auto.
Qed.
Lemma evs_of_during t P R S :
  filter (fun e => phase_eqb (ev_phase e) DURING) (evs_of t P R S) = map (cvc_ev t) P ++ map (rvc_ev t) R.
Proof.
  unfold evs_of. rewrite !filter_app, (filter_map_none _ (spr_ev t)), !filter_map_all, app_nil_r; auto.
Qed.
Lemma evs_of_after t P R S :
  filter (fun e => phase_eqb (ev_phase e) AFTER) (evs_of t P R S) = map (spr_ev t) S.
Proof.
  unfold evs_of. rewrite !filter_app, (filter_map_all _ (spr_ev t)), !filter_map_none; auto.
Qed.

Lemma pair_eta_map (P : list (nat * bool)) : map (fun pe => (fst pe, snd pe)) P = P.
Proof. induction P as [|[a b] P IH]; simpl; [reflexivity | rewrite IH; reflexivity]. Qed.

Lemma fold_cvc_list cfg A : forall d,
  (forall e, In e A -> ev_type e = clockValueChange) ->
  fold_left (fun d e => process_event cfg e d) A d =
  fold_left (fun d pe => clock_value_change cfg (fst pe) (snd pe) d) (map (fun e => (ev_idx e, ev_flag e)) A) d.
Proof.
  induction A as [|e A IH]; intros d H; simpl; [reflexivity|].
  rewrite IH by (intros x Hx; apply H; right; exact Hx).
  unfold process_event. rewrite (H e (or_introl eq_refl)). reflexivity.
Qed.

Lemma fold_rvc_list cfg A : forall d,
  (forall e, In e A -> ev_type e = resetValueChange) ->
  fold_left (fun d e => process_event cfg e d) A d =
  fold_left (fun d pe => reset_value_change cfg (fst pe) (snd pe) d) (map (fun e => (ev_idx e, ev_flag e)) A) d.
Proof.
  induction A as [|e A IH]; intros d H; simpl; [reflexivity|].
  rewrite IH by (intros x Hx; apply H; right; exact Hx).
  unfold process_event. rewrite (H e (or_introl eq_refl)). reflexivity.
Qed.

(* the DURING phase: whatever order the priority queue hands the events out in (it must respect the
   regenerated comparison), the result is "all clock events, then all reset events" in closed form *)
Lemma during_fold cfg t P R sd d :
  order_ok cfg -> data_ok cfg d -> NoDup (map fst P) -> NoDup (map fst R) ->
  StronglySorted not_after sd -> Permutation sd (map (cvc_ev t) P ++ map (rvc_ev t) R) ->
  fold_left (fun d e => process_event cfg e d) sd d = spec_reset cfg R (spec_clock cfg P d).
Proof.
  intros Ho Hd HP HR Hsorted Hperm.
  assert (Hshape : forall e, In e sd ->
            (exists pe, e = cvc_ev t pe) \/ (exists pe, e = rvc_ev t pe)).
  { intros e He. apply (Permutation_in _ Hperm) in He. apply in_app_or in He.
    destruct He as [He|He]; apply in_map_iff in He; destruct He as (pe & <- & _); eauto. }
  rewrite (sorted_split is_cvc sd Hsorted).
  2:{ intros a b Ha Hb Fa Fb.
      destruct (Hshape a Ha) as [[pa ->]|[pa ->]]; [discriminate Fa|].
      destruct (Hshape b Hb) as [[pb ->]|[pb ->]]; [|discriminate Fb].
      apply event_lt_by_type; reflexivity. }
  rewrite fold_left_app.
  (* the clock part *)
  assert (HA : Permutation (filter is_cvc sd) (map (cvc_ev t) P)).
  { eapply perm_trans; [apply Permutation_filter_, Hperm|].
    rewrite filter_app, filter_map_all, filter_map_none, app_nil_r by reflexivity. apply Permutation_refl. }
  assert (HB : Permutation (filter (fun e => negb (is_cvc e)) sd) (map (rvc_ev t) R)).
  { eapply perm_trans; [apply Permutation_filter_, Hperm|].
    rewrite filter_app, filter_map_none, filter_map_all by reflexivity. apply Permutation_refl. }
  assert (E1 : fold_left (fun d e => process_event cfg e d) (filter is_cvc sd) d = spec_clock cfg P d).
  { rewrite fold_cvc_list.
    2:{ intros e He. apply (Permutation_in _ HA) in He. apply in_map_iff in He. destruct He as (pe & <- & _). reflexivity. }
    assert (HA' : Permutation (map (fun e => (ev_idx e, ev_flag e)) (filter is_cvc sd)) P).
    { eapply perm_trans; [apply Permutation_map, HA|]. rewrite map_map. simpl. rewrite pair_eta_map. apply Permutation_refl. }
    rewrite fold_clock_events; [| exact Ho | exact Hd |].
    2:{ eapply Permutation_NoDup; [apply Permutation_map; symmetry; exact HA' | exact HP]. }
    apply (spec_clock_perm cfg _ P d HA'). }
  rewrite E1.
  (* the reset part *)
  rewrite fold_rvc_list.
  2:{ intros e He. apply (Permutation_in _ HB) in He. apply in_map_iff in He. destruct He as (pe & <- & _). reflexivity. }
  assert (HB' : Permutation (map (fun e => (ev_idx e, ev_flag e)) (filter (fun e => negb (is_cvc e)) sd)) R).
  { eapply perm_trans; [apply Permutation_map, HB|]. rewrite map_map. simpl. rewrite pair_eta_map. apply Permutation_refl. }
  assert (HndB : NoDup (map fst (map (fun e => (ev_idx e, ev_flag e)) (filter (fun e => negb (is_cvc e)) sd)))).
  { eapply Permutation_NoDup; [apply Permutation_map; symmetry; exact HB' | exact HR]. }
  rewrite fold_reset_events; [| exact Ho | apply data_ok_spec_clock; exact Hd | exact HndB].
  apply spec_reset_perm; assumption.
Qed.

Definition stim_fold (cfg : config) (S : list (N * nat)) (d : data) : data :=
  fold_left (fun d ik => apply_stim (stim_writes cfg (snd ik)) d) S d.

(* the result of one time instant in closed form *)
Definition spec_instant (cfg : config) (comb : network) (P R : list (nat * bool)) (S : list (N * nat)) (d : data) : data :=
  latch cfg comb (stim_fold cfg S (latch cfg comb (spec_reset cfg R (spec_clock cfg P d)))).

Theorem instant_spec cfg comb t P R S evs d :
  order_ok cfg -> data_ok cfg d -> latched cfg comb d ->
  NoDup (map fst P) -> NoDup (map fst R) -> length S <= 1 ->
  Permutation evs (evs_of t P R S) ->
  instant cfg comb evs d = spec_instant cfg comb P R S d.
Proof.
  intros Ho Hd Hl HP HR HS Hperm.
  unfold instant, spec_instant.
  set (s := prio_sort evs).
  assert (Hs : Permutation s (evs_of t P R S)).
  { eapply perm_trans; [apply prio_sort_perm | exact Hperm]. }
  pose proof (prio_sort_sorted evs) as Hsorted. fold s in Hsorted.
  unfold all_phases. cbn [fold_left].
  (* BEFORE: nothing *)
  assert (HB : filter (fun e => phase_eqb (ev_phase e) BEFORE) s = []).
  { apply Permutation_nil. symmetry. rewrite <- (evs_of_before t P R S). apply Permutation_filter_, Hs. }
  unfold run_phase at 3. rewrite HB.
  (* DURING *)
  assert (HD : Permutation (filter (fun e => phase_eqb (ev_phase e) DURING) s) (map (cvc_ev t) P ++ map (rvc_ev t) R)).
  { rewrite <- (evs_of_during t P R S). apply Permutation_filter_, Hs. }
  pose proof (during_fold cfg t P R _ d Ho Hd HP HR (StronglySorted_filter_ _ _ _ Hsorted) HD) as Hfold.
  assert (HDur : run_phase cfg comb DURING s d = latch cfg comb (spec_reset cfg R (spec_clock cfg P d))).
  { unfold run_phase.
    destruct (filter (fun e => phase_eqb (ev_phase e) DURING) s) as [|e0 es] eqn:E.
    - simpl in Hfold. rewrite <- Hfold. symmetry. exact Hl.
    - rewrite Hfold. reflexivity. }
  rewrite HDur.
  (* AFTER *)
  assert (HA : filter (fun e => phase_eqb (ev_phase e) AFTER) s = map (spr_ev t) S).
  { assert (Hp : Permutation (filter (fun e => phase_eqb (ev_phase e) AFTER) s) (map (spr_ev t) S)).
    { rewrite <- (evs_of_after t P R S). apply Permutation_filter_, Hs. }
    destruct S as [|ik [|ik' S']]; simpl in *.
    - apply Permutation_nil. symmetry. exact Hp.
    - symmetry in Hp. apply Permutation_length_1_inv in Hp. exact Hp.
    - lia. }
  unfold run_phase. rewrite HA.
  destruct S as [|ik [|ik' S']]; simpl in *.
  - unfold stim_fold. simpl. symmetry. apply latch_idem.
  - reflexivity.
  - lia.
Qed.

(* the heap may hand out events of equal priority in any order: every arrival order of the same events
   gives the same state *)
Corollary instant_order_irrelevant cfg comb t P R S evs evs' d :
  order_ok cfg -> data_ok cfg d -> latched cfg comb d ->
  NoDup (map fst P) -> NoDup (map fst R) -> length S <= 1 ->
  Permutation evs (evs_of t P R S) -> Permutation evs' (evs_of t P R S) ->
  instant cfg comb evs d = instant cfg comb evs' d.
Proof.
  intros. rewrite (instant_spec cfg comb t P R S evs d), (instant_spec cfg comb t P R S evs' d); auto.
Qed.

(* ------------------------------------------------------------------------- *)
(** * sync_sample: what a register holds after the clock events of an instant *)

(* the valuation immediately before the instant, seen through the network *)
Definition D_pre (cfg : config) (comb : network) (d : data) (r : nat) : bv :=
  match fst (comb (map r_out (d_regs d)) (d_inputs d) r) with
  | Some v => v | None => all_X (rg_width (get_reg cfg r)) end.
Definition EN_pre (cfg : config) (comb : network) (d : data) (r : nat) : tbit :=
  match snd (comb (map r_out (d_regs d)) (d_inputs d) r) with Some e => e | None => B1 end.

Definition next_out (cfg : config) (comb : network) (P : list (nat * bool)) (d : data) (r : nat) (s : rstate) : bv :=
  if triggered cfg P r then
    if r_inrst s then
      (if rstkind_eqb (ck_rst (reg_clock cfg r)) RST_SYNC
       then match rg_rstval (get_reg cfg r) with Some v => v | None => r_out s end
       else r_out s)
    else match EN_pre cfg comb d r with
         | BX => all_X (rg_width (get_reg cfg r))
         | B1 => D_pre cfg comb d r
         | B0 => r_out s
         end
  else r_out s.

Lemma spec_clock_reg cfg P d r s :
  nth_error (d_regs d) r = Some s ->
  nth_error (d_regs (spec_clock cfg P d)) r =
  Some (if triggered cfg P r then reg_advance (reg_clock cfg r) (get_reg cfg r) s else s).
Proof. intro H. unfold spec_clock. simpl. rewrite nth_error_mapi, H. reflexivity. Qed.

Lemma reg_advance_inrst c rg s : r_inrst (reg_advance c rg s) = r_inrst s.
Proof.
  unfold reg_advance, write_reset_value.
  destruct (r_inrst s) eqn:E.
  - destruct (rstkind_eqb (ck_rst c) RST_SYNC); [destruct (rg_rstval rg)|]; simpl; auto.
  - destruct (r_latEN s); simpl; auto.
Qed.

Theorem sync_sample_spec cfg comb P d r s :
  latched cfg comb d -> nth_error (d_regs d) r = Some s ->
  exists s', nth_error (d_regs (spec_clock cfg P d)) r = Some s' /\
             r_out s' = next_out cfg comb P d r s /\ r_inrst s' = r_inrst s.
Proof.
  intros Hl Hs. rewrite (spec_clock_reg cfg P d r s Hs).
  destruct (latched_fields cfg comb d r s Hl Hs) as [HD HE].
  eexists. split; [reflexivity|]. unfold next_out.
  destruct (triggered cfg P r); [|split; reflexivity].
  split; [|apply reg_advance_inrst].
  unfold reg_advance, write_reset_value, EN_pre, D_pre. rewrite <- HD, <- HE.
  destruct (r_inrst s).
  - destruct (rstkind_eqb (ck_rst (reg_clock cfg r)) RST_SYNC); [destruct (rg_rstval (get_reg cfg r))|]; reflexivity.
  - destruct (r_latEN s); reflexivity.
Qed.

(* ------------------------------------------------------------------------- *)
(** * Reset events *)

Lemma spec_reset_reg cfg R d r s :
  nth_error (d_regs d) r = Some s ->
  nth_error (d_regs (spec_reset cfg R d)) r =
  Some (match rst_level cfg R r with
        | Some lv => reg_reset_change (reg_clock cfg r) (get_reg cfg r) lv s
        | None => s end).
Proof. intro H. unfold spec_reset. simpl. rewrite nth_error_mapi, H. reflexivity. Qed.

(* active level honoured: a register is in reset iff the reset signal is at the active level of ITS clock
   (and it has a reset value at all) *)
Lemma reg_in_reset_level c rg lv :
  reg_in_reset c rg lv = Bool.eqb lv (ck_active_high c) && match rg_rstval rg with Some _ => true | None => false end.
Proof. unfold reg_in_reset. destruct lv, (ck_active_high c); reflexivity. Qed.

Lemma reg_reset_change_inrst c rg lv s : r_inrst (reg_reset_change c rg lv s) = reg_in_reset c rg lv.
Proof.
  unfold reg_reset_change, write_reset_value.
  destruct (reg_in_reset c rg lv && rstkind_eqb (ck_rst c) RST_ASYNC); [destruct (rg_rstval rg)|]; reflexivity.
Qed.

(* asynchronous reset: the output takes the reset value at the reset event itself, no clock edge involved *)
Lemma async_reset_immediate_reg c rg lv s v :
  ck_rst c = RST_ASYNC -> rg_rstval rg = Some v -> lv = ck_active_high c ->
  r_out (reg_reset_change c rg lv s) = v /\ r_inrst (reg_reset_change c rg lv s) = true.
Proof.
  intros Ha Hv Hl. unfold reg_reset_change. rewrite reg_in_reset_level, Hv, Hl, Ha, Bool.eqb_reflx. simpl.
  unfold write_reset_value. simpl. rewrite Hv. split; reflexivity.
Qed.

(* synchronous reset (or none): a reset event never changes the output by itself *)
Lemma sync_reset_no_immediate_change c rg lv s :
  ck_rst c <> RST_ASYNC -> r_out (reg_reset_change c rg lv s) = r_out s.
Proof.
  intro Hn. unfold reg_reset_change.
  destruct (ck_rst c); try contradiction; simpl; rewrite andb_false_r; reflexivity.
Qed.

(* releasing (or a level that is not the active one) never changes the output *)
Lemma reset_release_keeps_output c rg lv s :
  lv = negb (ck_active_high c) -> r_out (reg_reset_change c rg lv s) = r_out s /\ r_inrst (reg_reset_change c rg lv s) = false.
Proof.
  intro Hl. unfold reg_reset_change. rewrite reg_in_reset_level, Hl.
  destruct (ck_active_high c); simpl; split; reflexivity.
Qed.

(* synchronous reset at the edge: in reset, an activation writes the reset value; enable and data are ignored *)
Lemma sync_reset_at_edge_reg c rg s v :
  ck_rst c = RST_SYNC -> rg_rstval rg = Some v -> r_inrst s = true ->
  r_out (reg_advance c rg s) = v.
Proof.
  intros Hs Hv Hi. unfold reg_advance. rewrite Hi, Hs. simpl. unfold write_reset_value. rewrite Hv. reflexivity.
Qed.

(* an asynchronous register that is in reset ignores clock edges *)
Lemma async_in_reset_ignores_edges c rg s :
  ck_rst c = RST_ASYNC -> r_inrst s = true -> reg_advance c rg s = s.
Proof. intros Ha Hi. unfold reg_advance. rewrite Hi, Ha. reflexivity. Qed.

(* ------------------------------------------------------------------------- *)
(** * Outputs after a whole instant *)

Lemma stim_fold_regs cfg S : forall d, d_regs (stim_fold cfg S d) = d_regs d.
Proof. unfold stim_fold. induction S as [|ik S IH]; intro d; simpl; [reflexivity|]. rewrite IH. reflexivity. Qed.

Lemma nth_error_map_ {A B} (f : A -> B) l i : nth_error (map f l) i = option_map f (nth_error l i).
Proof. revert i; induction l; intros [|i]; simpl; auto. Qed.

Lemma latch_reg_out cfg comb d r : option_map r_out (nth_error (d_regs (latch cfg comb d)) r) = option_map r_out (nth_error (d_regs d) r).
Proof. rewrite <- !nth_error_map_, latch_outs. reflexivity. Qed.

Lemma latch_reg_inrst cfg comb d r : option_map r_inrst (nth_error (d_regs (latch cfg comb d)) r) = option_map r_inrst (nth_error (d_regs d) r).
Proof. unfold latch. simpl. rewrite nth_error_mapi. destruct (nth_error (d_regs d) r); reflexivity. Qed.

(* output and in-reset flag of register r after the instant: clock part, then reset part; latching and the
   process phase do not touch them *)
Theorem instant_outputs cfg comb P R S d r s :
  latched cfg comb d -> nth_error (d_regs d) r = Some s ->
  exists s1 s2,
    nth_error (d_regs (spec_clock cfg P d)) r = Some s1 /\
    r_out s1 = next_out cfg comb P d r s /\ r_inrst s1 = r_inrst s /\
    s2 = match rst_level cfg R r with
         | Some lv => reg_reset_change (reg_clock cfg r) (get_reg cfg r) lv s1
         | None => s1 end /\
    option_map r_out (nth_error (d_regs (spec_instant cfg comb P R S d)) r) = Some (r_out s2) /\
    option_map r_inrst (nth_error (d_regs (spec_instant cfg comb P R S d)) r) = Some (r_inrst s2).
Proof.
  intros Hl Hs.
  destruct (sync_sample_spec cfg comb P d r s Hl Hs) as (s1 & H1 & H2 & H3).
  exists s1. eexists. repeat split; try eassumption.
  - unfold spec_instant. rewrite latch_reg_out, stim_fold_regs, latch_reg_out.
    rewrite (spec_reset_reg cfg R _ r s1 H1). reflexivity.
  - unfold spec_instant. rewrite latch_reg_inrst, stim_fold_regs, latch_reg_inrst.
    rewrite (spec_reset_reg cfg R _ r s1 H1). reflexivity.
Qed.

(* a register whose domain is not activated and whose reset pin sees no event keeps output and reset status *)
Corollary untouched_register_holds cfg comb P R S d r s :
  latched cfg comb d -> nth_error (d_regs d) r = Some s ->
  triggered cfg P r = false -> rst_level cfg R r = None ->
  option_map r_out (nth_error (d_regs (spec_instant cfg comb P R S d)) r) = Some (r_out s) /\
  option_map r_inrst (nth_error (d_regs (spec_instant cfg comb P R S d)) r) = Some (r_inrst s).
Proof.
  intros Hl Hs Ht Hr.
  destruct (instant_outputs cfg comb P R S d r s Hl Hs) as (s1 & s2 & _ & H2 & H3 & H4 & H5 & H6).
  rewrite Hr in H4. subst s2. unfold next_out in H2. rewrite Ht in H2.
  rewrite H5, H6, H2, H3. split; reflexivity.
Qed.

Lemma sync_reset_at_edge_full c rg lv s v :
  ck_rst c = RST_SYNC -> rg_rstval rg = Some v -> lv = ck_active_high c ->
  r_out (reg_reset_change c rg lv s) = r_out s /\
  r_inrst (reg_reset_change c rg lv s) = true /\
  r_out (reg_advance c rg (reg_reset_change c rg lv s)) = v.
Proof.
  intros Hs Hv Hl.
  assert (Hi : r_inrst (reg_reset_change c rg lv s) = true).
  { rewrite reg_reset_change_inrst, reg_in_reset_level, Hl, Hv, Bool.eqb_reflx. reflexivity. }
  split; [apply sync_reset_no_immediate_change; rewrite Hs; discriminate|].
  split; [exact Hi|]. apply sync_reset_at_edge_reg; assumption.
Qed.

Lemma reset_active_level_full c rg lv s :
  r_inrst (reg_reset_change c rg lv s) =
  Bool.eqb lv (ck_active_high c) && match rg_rstval rg with Some _ => true | None => false end.
Proof. rewrite reg_reset_change_inrst. apply reg_in_reset_level. Qed.

Lemma sync_sample_full cfg comb P d r s :
  latched cfg comb d -> nth_error (d_regs d) r = Some s ->
  exists s', nth_error (d_regs (spec_clock cfg P d)) r = Some s' /\
    r_inrst s' = r_inrst s /\
    r_out s' =
      if triggered cfg P r then
        if r_inrst s then
          (if rstkind_eqb (ck_rst (reg_clock cfg r)) RST_SYNC
           then match rg_rstval (get_reg cfg r) with Some v => v | None => r_out s end
           else r_out s)
        else match EN_pre cfg comb d r with
             | BX => all_X (rg_width (get_reg cfg r))
             | B1 => D_pre cfg comb d r
             | B0 => r_out s
             end
      else r_out s.
Proof.
  intros Hl Hs. destruct (sync_sample_spec cfg comb P d r s Hl Hs) as (s' & H1 & H2 & H3).
  exists s'. repeat split; auto.
Qed.
