(* C05: conditional scopes and assignments have sequential-program semantics.
   [run_prog] is the ordinary software interpreter of the program (FrontendDefs.v, (i));
   [elab_prog] is the elaboration the gatery frontend performs, with the bookkeeping state of
   ConditionalScope.cpp / BitVector.cpp / Bit.cpp / BitVectorSlice.cpp (FrontendDefs.v, (ii));
   [eval_all] evaluates the elaborated node table under an input valuation.
   Only statements, `exact`, and Print Assumptions in this file. *)
From Gatery Require Import Bits FrontendDefs FrontendSpec FrontendDefaultDefs FrontendDefaultProofs.
Import ListNotations.

(* For EVERY program -- any nesting depth, any ELSEIF chain length, repeated / partial (slice,
   bit, dynamic index, nested) assignments, variables declared inside scopes, shadowing --,
   every start value n0 >= 1 of the static scope id counter, every input valuation (defined or
   not) under which the software run only branches on defined single-bit conditions:
   the elaborated circuit's signals carry exactly the software run's final values (same variables,
   same order, same four-state value), and the Read snapshots whose enclosing full condition is
   true are exactly the values the software run saw at those program points, in program order.
   [no_bare_else_if]: the condition of an `ELSE IF (c)` written with a space (an IF nested in an
   ELSE by the macros) is not a bare variable reference; see elab_else_if_same_condition_refuted.
   IF / ELSEIF / ELSE programs satisfy it trivially. *)
Theorem elab_correct : forall (p : block) (n0 : nat) (inp : list bv) (E : env) (R : list rdval),
  1 <= n0 ->
  no_bare_else_if p = true ->
  run_prog inp p = Some (E, R) ->
  let st := elab_prog n0 p in
  let vs := eval_all inp (eG st) in
  sig_values vs (eSigs st) = E /\ live_reads vs (eReads st) = R.
Proof. exact FrontendSpec.elab_correct_main. Qed.
Print Assumptions elab_correct.

(* IF / ELSEIF / ELSEIF / ELSE with a nested IF, a slice, a bit and a dynamic slice assignment,
   a variable declared inside a scope, and reads before / inside / after: hypotheses satisfiable. *)
Definition ex_prog : block :=
  block_of [
    Decl 0 false (EIn 1);                                        (* UInt x = in1 (8 bit) *)
    Decl 1 false (EConst (bv_of_N 8 0));                         (* UInt y = 0 *)
    Read 0 0;
    mk_if (EEq (EIn 0) (EConst (bv_of_N 2 0)))
      (block_of [Assign 1 [] (EAdd (ESig 0) (EConst (bv_of_N 8 1)));
                 Read 1 1;
                 Decl 2 true (ESlice (ESig 0) 0 1);              (* Bit t = x[0], declared in the scope *)
                 mk_if (ESig 2) (block_of [Assign 1 [SStatic 4 4] (EConst (bv_of_N 4 9))]) [] None])
      [ (EEq (EIn 0) (EConst (bv_of_N 2 1)),
         block_of [Assign 1 [SDynSlice (ESlice (EIn 1) 0 2) 2 2] (EConst (bv_of_N 2 3))]);
        (EEq (EIn 0) (EConst (bv_of_N 2 2)),
         block_of [Assign 1 [SBit 7] (EConst [B1]); Assign 0 [] (ESig 1)]) ]
      (Some (block_of [Assign 1 [] (ENot (ESig 0)); Read 2 1]));
    Read 3 1 ].
Example elab_correct_ex :
  no_bare_else_if ex_prog = true /\
  (exists E R, run_prog [bv_of_N 2 0; bv_of_N 8 5] ex_prog = Some (E, R) /\ length R = 3) /\
  (exists E R, run_prog [bv_of_N 2 1; bv_of_N 8 6] ex_prog = Some (E, R) /\
               lookup 1 E = Some (bv_of_N 8 12)) /\
  (exists E R, run_prog [bv_of_N 2 3; bv_of_N 8 6] ex_prog = Some (E, R) /\
               lookup 1 E = Some (bv_of_N 8 249)).
Proof. split; [reflexivity|]. repeat split; eexists; eexists; split; vm_compute; reflexivity. Qed.

(* an `ELSE IF` (with a space) chain whose conditions are comparisons: covered by the theorem *)
Definition ex_prog_sp : block :=
  block_of [Decl 0 false (EConst (bv_of_N 4 0));
            If (EEq (EIn 0) (EConst (bv_of_N 2 0))) (block_of [Assign 0 [] (EConst (bv_of_N 4 1))])
              (CElseSp (EEq (EIn 0) (EConst (bv_of_N 2 1))) (block_of [Assign 0 [] (EConst (bv_of_N 4 2))])
                (CElseSp (EEq (EIn 0) (EConst (bv_of_N 2 2))) (block_of [Assign 0 [] (EConst (bv_of_N 4 3))])
                   (CElse (block_of [Assign 0 [] (EConst (bv_of_N 4 4))]))))].
Example elab_correct_ex_sp :
  no_bare_else_if ex_prog_sp = true /\
  run_prog [bv_of_N 2 2] ex_prog_sp = Some ([(0, bv_of_N 4 3)], []) /\
  run_prog [bv_of_N 2 3] ex_prog_sp = Some ([(0, bv_of_N 4 4)], []).
Proof. repeat split. Qed.

(* a mutable index variable: the dynamic accesses use the index value AT THEIR PROGRAM POINT, also
   when the index is re-assigned afterwards (from itself, and conditionally) *)
Definition ex_prog_idx : block :=
  block_of [Decl 0 false (EIn 0);                                                   (* UInt i = in0 (2 bit) *)
            Decl 1 false (EConst (bv_of_N 4 0));                                     (* UInt x = 0 *)
            Assign 1 [SDynBit (ESig 0) 2 4] (EConst [B1]);                           (* x[i] = '1' *)
            Decl 2 true (EDynBit (ESig 1) (ESig 0) 2 4);                             (* Bit r = x[i] *)
            Assign 0 [] (EAdd (ESig 0) (EConst (bv_of_N 2 1)));                      (* i = i + 1 *)
            If (EIn 1) (block_of [Assign 0 [] (EConst (bv_of_N 2 3))]) CEnd;         (* IF (in1) i = 3 *)
            Decl 3 false (EDynSlice (ESig 1) (ESig 0) 2 2)].                         (* UInt s = x(i, 2_b) *)
Example elab_correct_ex_idx :
  no_bare_else_if ex_prog_idx = true /\
  run_prog [bv_of_N 2 0; [B0]] ex_prog_idx =
    Some ([(3, bv_of_N 2 0); (2, [B1]); (1, bv_of_N 4 1); (0, bv_of_N 2 1)], []) /\
  sig_values (eval_all [bv_of_N 2 0; [B0]] (eG (elab_prog 1 ex_prog_idx))) (eSigs (elab_prog 1 ex_prog_idx)) =
    [(3, bv_of_N 2 0); (2, [B1]); (1, bv_of_N 4 1); (0, bv_of_N 2 1)].
Proof. repeat split; vm_compute; reflexivity. Qed.

(* the same, variable by variable: every variable in scope at the end *)
Theorem elab_correct_signal : forall p n0 inp E R x v,
  1 <= n0 -> no_bare_else_if p = true -> run_prog inp p = Some (E, R) -> lookup x E = Some v ->
  exists r, lookup x (eSigs (elab_prog n0 p)) = Some r /\
            getv (eval_all inp (eG (elab_prog n0 p))) (sr_drv r) = v.
Proof. exact FrontendSpec.elab_correct_signal_main. Qed.
Print Assumptions elab_correct_signal.
Example elab_correct_signal_ex :
  exists r, lookup 1 (eSigs (elab_prog 1 ex_prog)) = Some r /\
            getv (eval_all [bv_of_N 2 2; bv_of_N 8 6] (eG (elab_prog 1 ex_prog))) (sr_drv r) = bv_of_N 8 128.
Proof. eexists; split; vm_compute; reflexivity. Qed.

(* REFUTED without [no_bare_else_if] (a genuine deviation of the frontend from software semantics):
   `IF (b) x = 1; ELSE IF (b) x = 2; ELSE x = 3;` with the same Bit variable b twice.  The ELSE
   destructor compares ports to find out whether a nested scope was closed; with identical ports it
   takes the wrong branch and the final ELSE gets the condition b instead of NOT b. *)
Theorem elab_else_if_same_condition_refuted :
  no_bare_else_if same_cond_prog = false /\
  (forall b, exists E,
     run_prog [[of_bool b]] same_cond_prog = Some (E, []) /\
     lookup 1 E = Some (bv_of_N 2 (if b then 1 else 3)) /\
     lookup 1 (sig_values (eval_all [[of_bool b]] (eG (elab_prog 1 same_cond_prog))) (eSigs (elab_prog 1 same_cond_prog)))
       = Some (bv_of_N 2 (if b then 3 else 0))).
Proof. exact FrontendSpec.elab_else_if_same_condition_refuted_main. Qed.
Print Assumptions elab_else_if_same_condition_refuted.

(* the hypothesis 1 <= n0 cannot be dropped: with scope ids starting at 0 the assignment in a top
   level IF would be unconditional (the test is scope id > m_initialScopeId, and 0 > 0 fails) *)
Theorem elab_needs_positive_ids :
  exists E R, run_prog [[B0]] id0_prog = Some (E, R) /\
    sig_values (eval_all [[B0]] (eG (elab_prog 0 id0_prog))) (eSigs (elab_prog 0 id0_prog)) <> E.
Proof. exact FrontendSpec.elab_needs_positive_ids_main. Qed.
Print Assumptions elab_needs_positive_ids.

(* what the interpreter means by a dynamic slice write: a defined index within 0..maxIdx is the
   ordinary read-modify-write at offset idx*mul ... *)
Theorem dyn_write_in_range : forall cur iv k maxi mul w inner,
  all_def iv = true -> bv_val iv = Some (N.of_nat k) -> k <= maxi ->
  dyn_write cur iv (maxi, mul, w) inner =
  replace_sem cur (inner (extract_sem cur (k * mul) w)) (k * mul) w.
Proof. exact FrontendSpec.dyn_write_in_range_main. Qed.
Print Assumptions dyn_write_in_range.
Example dyn_write_in_range_ex :
  dyn_write (bv_of_N 8 0) (bv_of_N 3 5) (7, 1, 2) (fun _ => bv_of_N 2 3) = bv_of_N 8 96.
Proof. reflexivity. Qed.

(* the same for reads *)
Theorem dyn_read_in_range : forall av iv k maxi mul w,
  all_def iv = true -> bv_val iv = Some (N.of_nat k) -> k <= maxi ->
  dyn_read av iv (maxi, mul, w) = extract_sem av (k * mul) w.
Proof. exact FrontendSpec.dyn_read_in_range_main. Qed.
Print Assumptions dyn_read_in_range.
Example dyn_read_in_range_ex : dyn_read (bv_of_N 8 96) (bv_of_N 3 5) (7, 1, 2) = bv_of_N 2 3.
Proof. reflexivity. Qed.

(* ... and a defined index above maxIdx (the frontend's multiplexer has no such input) makes the
   whole value at that level undefined -- not an arbitrary value *)
Theorem dyn_write_out_of_range : forall cur iv k maxi mul w inner,
  all_def iv = true -> bv_val iv = Some (N.of_nat k) -> maxi < k ->
  dyn_write cur iv (maxi, mul, w) inner =
  all_X (length (replace_sem cur (inner (extract_sem cur 0 w)) 0 w)).
Proof. exact FrontendSpec.dyn_write_out_of_range_main. Qed.
Print Assumptions dyn_write_out_of_range.
Example dyn_write_out_of_range_ex :
  dyn_write (bv_of_N 8 0) (bv_of_N 3 5) (3, 2, 2) (fun _ => bv_of_N 2 3) = all_X 8.
Proof. reflexivity. Qed.

(* the model reads the BOOL ports of the scope bookkeeping (AND with the parent's full condition,
   NOT / OR / AND of ELSE / ELSEIF) as single bits; on width-1 values that is Node_Logic *)
Theorem scope_logic_is_node_logic : forall a b, length a = 1 -> length b = 1 ->
  cand a b = bv_and a b /\ cor a b = bv_or a b /\ cnot a = bv_not a.
Proof. exact FrontendSpec.scope_logic_is_node_logic_main. Qed.
Print Assumptions scope_logic_is_node_logic.
Example scope_logic_is_node_logic_ex : cand [BX] [B0] = [B0] /\ cor [B1] [BX] = [B1] /\ cnot [BX] = [BX].
Proof. repeat split. Qed.

(* ---------- declarations with a default value (Node_Default, resolved by postprocessing) ----------
   A defaulted declaration number k is  Decl x isbit (EIn (B + k))  (B = number of pins): the default
   node's output is an extra input, so elab_correct holds for every value of it.  [resolved_inputs]
   appends the values hlim/postprocessing/DefaultValueResolution.cpp gives the default nodes:
   the constant if the variable's final driver depends on the default node ("loopy"), otherwise the
   FINAL value of the variable (earlier reads then see the later assignment: gatery's forward
   reference semantics, tests/frontend/defaults.cpp NonLoopWithDefault). *)
Theorem elab_correct_resolved : forall p n0 pins dfl E R,
  1 <= n0 -> no_bare_else_if p = true ->
  run_prog (resolved_inputs n0 pins dfl p) p = Some (E, R) ->
  let st := elab_prog n0 p in
  let vs := eval_all (resolved_inputs n0 pins dfl p) (eG st) in
  sig_values vs (eSigs st) = E /\ live_reads vs (eReads st) = R.
Proof. exact FrontendDefaultProofs.elab_correct_resolved_main. Qed.
Print Assumptions elab_correct_resolved.

(* every default node loopy: the defaults are plain initial values of the sequential program *)
Theorem elab_correct_defaults : forall p n0 pins dfl E R,
  1 <= n0 -> no_bare_else_if p = true ->
  all_loopy (resolve_all (eG (elab_prog n0 p)) (fin_prog (length pins) n0 p)) = true ->
  run_prog (pins ++ dfl) p = Some (E, R) ->
  resolved_inputs n0 pins dfl p = pins ++ dfl /\
  let st := elab_prog n0 p in
  let vs := eval_all (resolved_inputs n0 pins dfl p) (eG st) in
  sig_values vs (eSigs st) = E /\ live_reads vs (eReads st) = R.
Proof. exact FrontendDefaultProofs.elab_correct_defaults_main. Qed.
Print Assumptions elab_correct_defaults.

(* two pins a, d;  Bit en = BitDefault('1'); IF (a) en = '0';            -- keeps its default: loopy
                   Bit v = BitDefault('0'); read v; UInt y = 0; IF (v) y = 1; v = d;   -- overwritten: v reads as d everywhere *)
Definition ex_prog_dflt : block :=
  block_of [Decl 0 true (EIn 2);
            If (EIn 0) (block_of [Assign 0 [] (EConst [B0])]) CEnd;
            Decl 1 true (EIn 3);
            Read 0 1;
            Decl 2 false (EConst (bv_of_N 2 0));
            If (ESig 1) (block_of [Assign 2 [] (EConst (bv_of_N 2 1))]) CEnd;
            Assign 1 [] (EIn 1)].
Example elab_correct_defaults_ex :
  map (fun d => (fst (fst d), snd d)) (resolve_all (eG (elab_prog 1 ex_prog_dflt)) (fin_prog 2 1 ex_prog_dflt))
    = [(0, true); (1, false)] /\
  resolved_inputs 1 [[B0]; [B1]] [[B1]; [B0]] ex_prog_dflt = [[B0]; [B1]; [B1]; [B1]] /\
  run_prog (resolved_inputs 1 [[B0]; [B1]] [[B1]; [B0]] ex_prog_dflt) ex_prog_dflt
    = Some ([(2, bv_of_N 2 1); (1, [B1]); (0, [B1])], [(0, [B1])]) /\
  all_loopy (resolve_all (eG (elab_prog 1 (block_of [Decl 0 true (EIn 2); If (EIn 0) (block_of [Assign 0 [] (EConst [B0])]) CEnd])))
                         (fin_prog 2 1 (block_of [Decl 0 true (EIn 2); If (EIn 0) (block_of [Assign 0 [] (EConst [B0])]) CEnd]))) = true.
Proof. repeat split; vm_compute; reflexivity. Qed.
