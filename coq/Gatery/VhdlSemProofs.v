(* C02, optional part: each node pattern the VHDL lifter emits (the lift_xxx functions of VhdlSemDefs) computes, under
   the circuit semantics used by the verified certificate checker (NodeSemDefs.eval), the
   two-valued numeric_std / array operator it stands for - for operands of EVERY length.
   These theorems connect "lifted netlist" and "VHDL expression" for fully defined values; they
   say nothing about metavalues (see Properties_C02.v for what is claimed there). *)
From Coq Require Import List NArith ZArith Arith Bool Lia.
From Gatery Require Import Bits NodeSemDefs NodeSemBits NodeSemSpec NodeSemSpecArith NodeSemSpecShift VhdlSemDefs.
Import ListNotations.


Lemma p2_pos w : (0 < p2 w)%N.
Proof. unfold p2. apply N.neq_0_lt_0. apply N.pow_nonzero. discriminate. Qed.
Lemma p2_nz w : p2 w <> 0%N.
Proof. pose proof (p2_pos w). lia. Qed.
Lemma p2_add a b : p2 (a + b) = (p2 a * p2 b)%N.
Proof. unfold p2. rewrite Nat2N.inj_add. apply N.pow_add_r. Qed.
Lemma p2_le a b : a <= b -> (p2 a <= p2 b)%N.
Proof. intro H. unfold p2. apply N.pow_le_mono_r; [discriminate | lia]. Qed.

Lemma vec_length w v : length (vec w v) = w.
Proof. apply bv_of_N_length. Qed.
Lemma vec_val w v : (v < p2 w)%N -> bv_val (vec w v) = Some v.
Proof. intro H. unfold vec. rewrite bv_val_of_N. f_equal. apply N.mod_small. exact H. Qed.
Lemma vec_get w v i : bv_get (vec w v) i = if i <? w then of_bool (N.testbit v (N.of_nat i)) else BX.
Proof. apply bv_get_of_N. Qed.

Lemma testbit_high v w i : (v < p2 w)%N -> w <= i -> N.testbit v (N.of_nat i) = false.
Proof.
  intros Hv Hi. destruct (N.eq_dec v 0) as [->|Hnz]; [apply N.bits_0|].
  apply N.bits_above_log2. apply N.lt_le_trans with (m := N.of_nat w); [|lia].
  apply N.log2_lt_pow2; [lia | exact Hv].
Qed.

(* ---- RESIZE (extension) / Lifter.zext ---- *)
Theorem lift_zext_sound wv w v : wv <= w -> (v < p2 wv)%N -> lift_zext wv w (vec wv v) = vec w v.
Proof.
  intros Hw Hv. unfold lift_zext. destruct (Nat.eqb_spec wv w) as [->|Hne]; [reflexivity|].
  unfold K_zext. rewrite eval_rewire_spec. cbn [map concat rewire_piece rw_src rw_width inp nth out1 hd].
  rewrite app_nil_r. apply bv_ext.
  - rewrite app_length, bv_slice_length, repeat_length, vec_length. lia.
  - intros i Hi. rewrite app_length, bv_slice_length, repeat_length in Hi.
    rewrite bv_get_app, bv_slice_length, vec_get.
    replace (i <? w) with true by (symmetry; apply Nat.ltb_lt; lia).
    destruct (Nat.ltb_spec i wv) as [H|H].
    + unfold bv_slice. rewrite bv_get_build. replace (i <? wv) with true by (symmetry; apply Nat.ltb_lt; lia).
      cbn [Nat.add]. rewrite vec_get. replace (i <? wv) with true by (symmetry; apply Nat.ltb_lt; lia). reflexivity.
    + rewrite bv_get_repeat. replace (i - wv <? w - wv) with true by (symmetry; apply Nat.ltb_lt; lia).
      rewrite (testbit_high v wv i Hv H). reflexivity.
Qed.

(* ---- x(hi downto lo), x(i), RESIZE (truncation) ---- *)
Lemma slice_vec w v lo n : lo + n <= w ->
  out1 (eval (K_slice lo n) [Some (vec w v)]) = vec n ((v / p2 lo) mod p2 n)%N.
Proof.
  intro H. unfold K_slice. rewrite eval_rewire_spec. cbn [map concat rewire_piece rw_src rw_width inp nth out1 hd].
  rewrite app_nil_r. apply bv_ext.
  - rewrite bv_slice_length, vec_length. reflexivity.
  - intros i Hi. rewrite bv_slice_length in Hi. unfold bv_slice. rewrite bv_get_build, !vec_get.
    apply Nat.ltb_lt in Hi as Hi'. rewrite Hi'.
    replace (lo + i <? w) with true by (symmetry; apply Nat.ltb_lt; lia).
    f_equal. unfold p2. symmetry. rewrite N.mod_pow2_bits_low; [|lia].
    rewrite <- N.shiftr_div_pow2. rewrite N.shiftr_spec by lia. f_equal. lia.
Qed.

Theorem lift_slice_sound w v hi lo : lo <= hi -> hi < w ->
  lift_slice hi lo (vec w v) = vecp (vh_slice hi lo v).
Proof. intros H1 H2. unfold lift_slice, vecp, vh_slice. cbn [fst snd]. apply slice_vec. lia. Qed.

Theorem lift_index_sound w v i : i < w -> lift_index i (vec w v) = [of_bool (vh_index i v)].
Proof.
  intro H. unfold lift_index. rewrite (slice_vec w v i 1) by lia. unfold vec, vh_index.
  cbn [bv_of_N]. f_equal. f_equal. unfold p2.
  rewrite <- N.bit0_odd. rewrite N.mod_pow2_bits_low by (cbn; lia).
  rewrite <- N.shiftr_div_pow2. rewrite N.shiftr_spec by lia. f_equal.
Qed.

Theorem lift_resize_sound w n v : (v < p2 w)%N -> lift_resize w n (vec w v) = vecp (ns_resize n v).
Proof.
  intro Hv. unfold lift_resize, vecp, ns_resize. cbn [fst snd].
  destruct (Nat.eqb_spec n w) as [->|Hne].
  - unfold vec. rewrite N.mod_small by exact Hv. reflexivity.
  - destruct (Nat.ltb_spec n w) as [H|H].
    + rewrite (slice_vec w v 0 n) by lia. unfold p2 at 1. cbn [N.of_nat]. rewrite N.pow_0_r, N.div_1_r. reflexivity.
    + rewrite lift_zext_sound by (try exact Hv; lia).
      rewrite N.mod_small; [reflexivity|]. apply N.lt_le_trans with (m := p2 w); [exact Hv | apply p2_le; lia].
Qed.

(* ---- "&" ---- *)
Lemma testbit_concat a b wb i : (b < 2 ^ N.of_nat wb)%N ->
  N.testbit (a * 2 ^ N.of_nat wb + b) (N.of_nat i) =
  if i <? wb then N.testbit b (N.of_nat i) else N.testbit a (N.of_nat (i - wb)).
Proof.
  intro Hb. assert (Hnz : (2 ^ N.of_nat wb)%N <> 0%N) by (apply N.pow_nonzero; discriminate).
  destruct (Nat.ltb_spec i wb) as [H|H].
  - rewrite <- (N.mod_pow2_bits_low (a * 2 ^ N.of_nat wb + b) (N.of_nat wb)) by lia.
    rewrite N.add_comm, N.mod_add by exact Hnz. rewrite N.mod_small by exact Hb. reflexivity.
  - replace (N.of_nat i) with (N.of_nat (i - wb) + N.of_nat wb)%N by lia.
    rewrite <- N.div_pow2_bits.
    rewrite N.div_add_l by exact Hnz. rewrite (N.div_small b) by exact Hb. rewrite N.add_0_r. reflexivity.
Qed.

Theorem lift_concat_sound wa wb a b : (b < p2 wb)%N ->
  lift_concat wa wb (vec wa a) (vec wb b) = vecp (vh_concat wa wb a b).
Proof.
  intro Hb. unfold lift_concat, K_concat, vecp, vh_concat. cbn [fst snd].
  rewrite eval_rewire_spec. cbn [map concat rewire_piece rw_src rw_width inp nth out1 hd]. rewrite app_nil_r.
  apply bv_ext.
  - rewrite app_length, !bv_slice_length, vec_length. lia.
  - intros i Hi. rewrite app_length, !bv_slice_length in Hi.
    rewrite bv_get_app, bv_slice_length, vec_get.
    replace (i <? wa + wb) with true by (symmetry; apply Nat.ltb_lt; lia).
    unfold bv_slice. rewrite !bv_get_build. cbn [Nat.add].
    unfold p2 in *. rewrite (testbit_concat a b wb i Hb).
    destruct (Nat.ltb_spec i wb) as [H|H].
    + rewrite vec_get. replace (i <? wb) with true by (symmetry; apply Nat.ltb_lt; lia). reflexivity.
    + replace (i - wb <? wa) with true by (symmetry; apply Nat.ltb_lt; lia).
      rewrite vec_get. replace (i - wb <? wa) with true by (symmetry; apply Nat.ltb_lt; lia). reflexivity.
Qed.

(* ---- "+" "-" "*" ---- *)
Lemma arith_two op w a b : (a < p2 w)%N -> (b < p2 w)%N ->
  is_divrem op = false ->
  out1 (eval (KArith op w) [Some (vec w a); Some (vec w b)]) =
  match arith_math op [a; b] with Some z => bv_of_N w (Z.to_N (z mod 2 ^ Z.of_nat w)) | None => all_X w end.
Proof.
  intros Ha Hb Hop.
  rewrite (eval_arith_spec op w _ [a; b]).
  - reflexivity.
  - cbn [arith_operands]. unfold arith_operands. cbn. rewrite (vec_val w a Ha), (vec_val w b Hb). reflexivity.
  - rewrite Hop. discriminate.
Qed.

Lemma p2_Z w : Z.of_N (p2 w) = (2 ^ Z.of_nat w)%Z.
Proof. unfold p2. apply of_N_pow2. Qed.

Theorem lift_add_sound wa wb a b : (a < p2 wa)%N -> (b < p2 wb)%N ->
  lift_add wa wb (vec wa a) (vec wb b) = vecp (ns_add wa wb a b).
Proof.
  intros Ha Hb. unfold lift_add, lift_arith, vecp, ns_add. cbn [fst snd]. set (w := Nat.max wa wb).
  rewrite !lift_zext_sound by (try assumption; unfold w; lia).
  assert (Ha' : (a < p2 w)%N) by (apply N.lt_le_trans with (m := p2 wa); [exact Ha | apply p2_le; unfold w; lia]).
  assert (Hb' : (b < p2 w)%N) by (apply N.lt_le_trans with (m := p2 wb); [exact Hb | apply p2_le; unfold w; lia]).
  rewrite (arith_two A_ADD w a b Ha' Hb' eq_refl). cbn [arith_math arith_math_from fold_left].
  unfold vec. apply bv_of_N_eq_mod.
  pose proof (p2_pos w) as P. fold (p2 w).
  rewrite N.mod_mod by lia. apply N2Z.inj. rewrite !N2Z.inj_mod.
  rewrite Z2N.id by (apply Z.mod_pos_bound; rewrite <- p2_Z; lia).
  rewrite p2_Z. rewrite Zmod_mod. f_equal. lia.
Qed.

Theorem lift_sub_sound wa wb a b : (a < p2 wa)%N -> (b < p2 wb)%N ->
  lift_sub wa wb (vec wa a) (vec wb b) = vecp (ns_sub wa wb a b).
Proof.
  intros Ha Hb. unfold lift_sub, lift_arith, vecp, ns_sub. cbn [fst snd]. set (w := Nat.max wa wb).
  rewrite !lift_zext_sound by (try assumption; unfold w; lia).
  assert (Ha' : (a < p2 w)%N) by (apply N.lt_le_trans with (m := p2 wa); [exact Ha | apply p2_le; unfold w; lia]).
  assert (Hb' : (b < p2 w)%N) by (apply N.lt_le_trans with (m := p2 wb); [exact Hb | apply p2_le; unfold w; lia]).
  rewrite (arith_two A_SUB w a b Ha' Hb' eq_refl). cbn [arith_math arith_math_from fold_left].
  unfold vec. apply bv_of_N_eq_mod.
  pose proof (p2_pos w) as P. fold (p2 w).
  rewrite N.mod_mod by lia. apply N2Z.inj. rewrite !N2Z.inj_mod.
  rewrite Z2N.id by (apply Z.mod_pos_bound; rewrite <- p2_Z; lia).
  rewrite N2Z.inj_sub by lia. rewrite N2Z.inj_add. rewrite p2_Z. rewrite Zmod_mod.
  replace (Z.of_N a + 2 ^ Z.of_nat w - Z.of_N b)%Z with (Z.of_N a - Z.of_N b + 1 * 2 ^ Z.of_nat w)%Z by lia.
  rewrite Z_mod_plus_full. reflexivity.
Qed.

Theorem lift_mul_sound wa wb a b : (a < p2 wa)%N -> (b < p2 wb)%N ->
  lift_mul wa wb (vec wa a) (vec wb b) = vecp (ns_mul wa wb a b).
Proof.
  intros Ha Hb. unfold lift_mul, lift_arith, vecp, ns_mul. cbn [fst snd]. set (w := wa + wb).
  rewrite !lift_zext_sound by (try assumption; unfold w; lia).
  assert (Ha' : (a < p2 w)%N) by (apply N.lt_le_trans with (m := p2 wa); [exact Ha | apply p2_le; unfold w; lia]).
  assert (Hb' : (b < p2 w)%N) by (apply N.lt_le_trans with (m := p2 wb); [exact Hb | apply p2_le; unfold w; lia]).
  rewrite (arith_two A_MUL w a b Ha' Hb' eq_refl). cbn [arith_math arith_math_from fold_left].
  unfold vec. apply bv_of_N_eq_mod.
  pose proof (p2_pos w) as P. fold (p2 w).
  apply N2Z.inj. rewrite !N2Z.inj_mod.
  rewrite Z2N.id by (apply Z.mod_pos_bound; rewrite <- p2_Z; lia).
  rewrite p2_Z. rewrite Zmod_mod. f_equal. lia.
Qed.

(* the full product fits: numeric_std "*" never wraps *)
Lemma mul_fits wa wb a b : (a < p2 wa)%N -> (b < p2 wb)%N -> (a * b < p2 (wa + wb))%N.
Proof. intros Ha Hb. rewrite p2_add. pose proof (p2_pos wa). pose proof (p2_pos wb). nia. Qed.

(* ---- relational operators ---- *)
Theorem lift_rel_sound op wa wb a b : (a < p2 wa)%N -> (b < p2 wb)%N ->
  lift_rel op wa wb (vec wa a) (vec wb b) = [of_bool (cmp_N op a b)].
Proof.
  intros Ha Hb. unfold lift_rel. set (w := Nat.max wa wb).
  rewrite !lift_zext_sound by (try assumption; unfold w; lia).
  assert (Ha' : (a < p2 w)%N) by (apply N.lt_le_trans with (m := p2 wa); [exact Ha | apply p2_le; unfold w; lia]).
  assert (Hb' : (b < p2 w)%N) by (apply N.lt_le_trans with (m := p2 wb); [exact Hb | apply p2_le; unfold w; lia]).
  rewrite (eval_compare_spec op _ _ a b (vec_val w a Ha') (vec_val w b Hb')). reflexivity.
Qed.

(* ---- SHIFT_LEFT / SHIFT_RIGHT with to_integer(amount) ---- *)
Theorem lift_shl_sound w wn a n : (a < p2 w)%N -> (n < p2 wn)%N -> wn <= 64 ->
  lift_shl w (vec w a) (vec wn n) = vecp (ns_shift_left w a n).
Proof.
  intros Ha Hn Hw. unfold lift_shl, vecp, ns_shift_left. cbn [fst snd].
  rewrite (eval_shl_num w _ _ a n); [reflexivity | apply vec_length | rewrite vec_length; exact Hw
                                    | apply vec_val; exact Ha | apply vec_val; exact Hn].
Qed.

Theorem lift_shr_sound w wn a n : (a < p2 w)%N -> (n < p2 wn)%N -> wn <= 64 ->
  lift_shr w (vec w a) (vec wn n) = vecp (ns_shift_right w a n).
Proof.
  intros Ha Hn Hw. unfold lift_shr, vecp, ns_shift_right. cbn [fst snd].
  rewrite (eval_shr_num w _ _ a n); [reflexivity | apply vec_length | rewrite vec_length; exact Hw
                                    | apply vec_val; exact Ha | apply vec_val; exact Hn].
Qed.

(* ---- IF / CASE ---- *)
Theorem lift_if_sound w c t e : length t = w -> length e = w ->
  lift_if w c t e = if c then t else e.
Proof.
  intros Lt Le. unfold lift_if.
  rewrite (eval_mux_spec 2 w [of_bool c] (if c then 1%N else 0%N)).
  - destruct c; cbn [N.leb N.of_nat N.to_nat nth out1 hd].
    + cbn. rewrite <- Lt. apply bv_resize_id.
    + cbn. rewrite <- Le. apply bv_resize_id.
  - destruct c; reflexivity.
Qed.

Theorem lift_case_sound n w ws s ds : (s < p2 ws)%N -> length ds = n -> Forall (fun d => length d = w) ds ->
  lift_case n w (vec ws s) ds =
  if (N.of_nat n <=? s)%N then all_X w else nth (N.to_nat s) ds (all_X w).
Proof.
  intros Hs Hn Hall. unfold lift_case.
  rewrite (eval_mux_spec n w (vec ws s) s _ (vec_val ws s Hs)). cbn [out1 hd].
  destruct (N.leb_spec (N.of_nat n) s) as [H|H]; [reflexivity|].
  assert (Hi : N.to_nat s < length ds) by lia.
  rewrite (nth_indep _ None (Some (all_X w))) by (rewrite map_length; exact Hi).
  rewrite map_nth.
  rewrite Forall_forall in Hall.
  assert (E : forall d : bv, length d = w -> bv_resize w d = d) by (intros d <-; apply bv_resize_id).
  apply E. apply Hall. apply nth_In. exact Hi.
Qed.

(* ---- std_logic_1164 logic on vectors ---- *)
Theorem lift_logic_sound op w a b : (a < p2 w)%N -> (b < p2 w)%N ->
  eval (KLogic op w) [Some (vec w a); Some (vec w b)] = [vec w (logic_N op w a b)].
Proof.
  intros Ha Hb. apply eval_logic_spec; [apply vec_length | apply vec_length | apply vec_val; exact Ha | apply vec_val; exact Hb].
Qed.
