(* C18 -- proofs, part 7: the read-only range queries
   (compareValues, equalOnDefinedValues, canBeReplacedWith, compareRange<Default/Extended>,
    allOne / allZero / anyDefined) and mergeUndefinedSelection. *)
From Coq Require Import List NArith ZArith Bool Lia.
From Gatery Require Import Bits BvsDefs BvsSpec BvsLeaf BvsWords BvsCopy BvsAbs BvsOps BvsEq.
Import ListNotations.
Ltac Zify.zify_post_hook ::= Z.to_euclidean_division_equations.
Local Open Scope N_scope.

(* ---- forallb / existsb over index ranges ---- *)
Lemma forallb_map {A B} (f : B -> bool) (g : A -> B) l : forallb f (map g l) = forallb (fun x => f (g x)) l.
Proof. induction l as [|x l IH]; simpl; [reflexivity | rewrite IH; reflexivity]. Qed.

Lemma forallb_ext_in {A} (f g : A -> bool) l : (forall x, In x l -> f x = g x) -> forallb f l = forallb g l.
Proof.
  induction l as [|x l IH]; intro H; simpl; [reflexivity|].
  rewrite H by (left; reflexivity). rewrite IH; [reflexivity|]. intros y Hy. apply H. right. exact Hy.
Qed.

Lemma forallb_nrange f a b :
  forallb f (nrange a b) = forallb (fun i => f (a + N.of_nat i)) (seq 0 (N.to_nat (b - a))).
Proof. unfold nrange. rewrite nrange_from_map, forallb_map. reflexivity. Qed.

Lemma forallb_true_iff_nrange f a b :
  forallb f (nrange a b) = true <-> forall i, a <= i < b -> f i = true.
Proof.
  rewrite forallb_forall. split; intros H i Hi; apply H; apply In_nrange; exact Hi.
Qed.

Lemma existsb_negb_forallb {A} (f : A -> bool) l : existsb f l = negb (forallb (fun x => negb (f x)) l).
Proof.
  induction l as [|x l IH]; simpl; [reflexivity|]. rewrite IH, negb_andb, negb_involutive. reflexivity.
Qed.

Lemma forallb_seq_shift f a n : forallb f (seq (S a) n) = forallb (fun i => f (S i)) (seq a n).
Proof. rewrite <- seq_shift, forallb_map. reflexivity. Qed.

Lemma list_eqb_nth {A} (e : A -> A -> bool) (d : A) l1 l2 n :
  length l1 = n -> length l2 = n ->
  list_eqb e l1 l2 = forallb (fun i => e (nth i l1 d) (nth i l2 d)) (seq 0 n).
Proof.
  revert l2 n; induction l1 as [|a l1 IH]; intros [|b l2] n H1 H2; simpl in *; subst n; try discriminate; [reflexivity|].
  cbn [seq forallb]. rewrite forallb_seq_shift. cbn [nth]. f_equal. apply IH; [reflexivity | lia].
Qed.

Lemma forallb2_nth {A B} (f : A -> B -> bool) (da : A) (db : B) l1 l2 n :
  length l1 = n -> length l2 = n ->
  forallb2 f l1 l2 = forallb (fun i => f (nth i l1 da) (nth i l2 db)) (seq 0 n).
Proof.
  unfold forallb2.
  revert l2 n; induction l1 as [|a l1 IH]; intros [|b l2] n H1 H2; simpl in *; subst n; try discriminate; [reflexivity|].
  cbn [seq forallb]. rewrite forallb_seq_shift. cbn [nth]. f_equal. apply IH; [reflexivity | lia].
Qed.

Lemma nth_map2 {A B C} (f : A -> B -> C) da db l1 l2 i :
  (i < length l1)%nat -> (i < length l2)%nat ->
  nth i (map2 f l1 l2) (f da db) = f (nth i l1 da) (nth i l2 db).
Proof.
  unfold map2. revert l2 i; induction l1 as [|a l1 IH]; intros [|b l2] [|i] H1 H2; simpl in *; try lia; auto.
  apply IH; lia.
Qed.

Lemma forallb_slice (f : bool -> bool) off n (l : list bool) :
  forallb f (slice off n l)
  = forallb (fun i => f (nth (off + i) l false)) (seq 0 (Nat.min n (length l - off))).
Proof.
  unfold slice. revert off l. induction n as [|n IH]; intros off l; [reflexivity|].
  destruct (skipn off l) as [|x r] eqn:E.
  - assert (length l <= off)%nat.
    { assert (L : length (skipn off l) = 0%nat) by (rewrite E; reflexivity). rewrite skipn_length in L. lia. }
    replace (length l - off)%nat with 0%nat by lia. rewrite Nat.min_0_r. reflexivity.
  - assert (L : length (skipn off l) = S (length r)) by (rewrite E; reflexivity). rewrite skipn_length in L.
    replace (Nat.min (S n) (length l - off)) with (S (Nat.min n (length l - S off))) by lia.
    cbn [firstn forallb seq]. rewrite forallb_seq_shift.
    assert (Hx : x = nth (off + 0) l false).
    { rewrite <- nth_skipn_add, E. reflexivity. }
    rewrite <- Hx. f_equal.
    assert (Er : r = skipn (S off) l).
    { change (S off) with (1 + off)%nat. rewrite <- (firstn_skipn off l) at 1.
      clear Hx IH. revert l E L. induction off as [|off IHo]; intros l E L.
      - simpl in *. subst l. reflexivity.
      - destruct l as [|y l]; [discriminate|]. simpl in *. apply IHo; [exact E | lia]. }
    rewrite Er, IH. apply forallb_ext_in. intros i _. f_equal. f_equal. lia.
Qed.

(* ---- reading spec bits through the model ---- *)
Definition sbit (a : sst) (p : nat) (i : nat) : bool := nth i (splane a p) false.

Lemma sbit_abs s p i :
  (p < length (planes s))%nat -> i < bsize s -> sbit (abs s) p (N.to_nat i) = wbit (plane s p) i.
Proof. intros Hp Hi. unfold sbit. rewrite splane_abs by exact Hp. apply nth_absP_N. exact Hi. Qed.

Lemma get_sbit s p i :
  (p < length (planes s))%nat -> i < bsize s -> get s p i = sbit (abs s) p (N.to_nat i).
Proof. intros. rewrite sbit_abs by assumption. apply bitExtract_wbit. Qed.

Lemma length_splane_abs s p : (p < length (planes s))%nat -> length (splane (abs s) p) = N.to_nat (bsize s).
Proof. intro Hp. rewrite splane_abs by exact Hp. apply length_absP. Qed.

Lemma length_tslice a off n :
  (N.to_nat off + N.to_nat n <= length (splane a VALUE))%nat ->
  (N.to_nat off + N.to_nat n <= length (splane a DEFINED))%nat ->
  length (tslice a off n) = N.to_nat n.
Proof.
  intros H1 H2. unfold tslice, tbits. rewrite length_map2, !length_slice by assumption. lia.
Qed.

Lemma nth_tslice a off n i :
  (N.to_nat off + N.to_nat n <= length (splane a VALUE))%nat ->
  (N.to_nat off + N.to_nat n <= length (splane a DEFINED))%nat ->
  (i < N.to_nat n)%nat ->
  nth i (tslice a off n) BX
  = of_planes (sbit a VALUE (N.to_nat off + i)) (sbit a DEFINED (N.to_nat off + i)).
Proof.
  intros H1 H2 Hi. unfold tslice, tbits.
  change BX with (of_planes false false).
  rewrite nth_map2 by (rewrite length_slice by assumption; exact Hi).
  rewrite !nth_slice. destruct (Nat.ltb_spec i (N.to_nat n)); [|lia]. reflexivity.
Qed.

(* ---- compareValues / equalOnDefinedValues / canBeReplacedWith ---- *)
Section BitLoops.
Variables (a b : bvs) (sa sb size : N).
Hypothesis Hpa : (DEFINED < length (planes a))%nat.
Hypothesis Hpb : (DEFINED < length (planes b))%nat.

Lemma loop_to_spec (f : bool -> bool -> bool -> bool -> bool) n :
  sa + n <= bsize a -> sb + n <= bsize b ->
  forallb (fun i => f (get a VALUE (sa + i)) (get a DEFINED (sa + i))
                      (get b VALUE (sb + i)) (get b DEFINED (sb + i))) (nrange 0 n)
  = forallb (fun i => f (sbit (abs a) VALUE (N.to_nat sa + i)) (sbit (abs a) DEFINED (N.to_nat sa + i))
                        (sbit (abs b) VALUE (N.to_nat sb + i)) (sbit (abs b) DEFINED (N.to_nat sb + i)))
            (seq 0 (N.to_nat n)).
Proof.
  intros Ha Hb. rewrite forallb_nrange. replace (n - 0) with n by lia.
  apply forallb_ext_in. intros i Hi. apply in_seq in Hi.
  unfold VALUE, DEFINED in *.
  rewrite !get_sbit by lia.
  replace (N.to_nat (sa + (0 + N.of_nat i))) with (N.to_nat sa + i)%nat by lia.
  replace (N.to_nat (sb + (0 + N.of_nat i))) with (N.to_nat sb + i)%nat by lia.
  reflexivity.
Qed.

Lemma lens n : sa + n <= bsize a -> sb + n <= bsize b ->
  (N.to_nat sa + N.to_nat n <= length (splane (abs a) VALUE))%nat /\
  (N.to_nat sa + N.to_nat n <= length (splane (abs a) DEFINED))%nat /\
  (N.to_nat sb + N.to_nat n <= length (splane (abs b) VALUE))%nat /\
  (N.to_nat sb + N.to_nat n <= length (splane (abs b) DEFINED))%nat.
Proof.
  intros. unfold VALUE, DEFINED in *. rewrite !length_splane_abs by lia. lia.
Qed.

Theorem compareValues_abs :
  sa + size <= bsize a -> sb + size <= bsize b ->
  compareValues a sa b sb size = compareValues_spec (abs a) sa (abs b) sb size.
Proof.
  intros Ha Hb. destruct (lens size Ha Hb) as (L1 & L2 & L3 & L4).
  unfold compareValues, compareValues_spec.
  rewrite (loop_to_spec (fun av _ bv _ => Bool.eqb av bv) size Ha Hb).
  rewrite (list_eqb_nth Bool.eqb false _ _ (N.to_nat size)) by (apply length_slice; assumption).
  apply forallb_ext_in. intros i Hi. apply in_seq in Hi.
  rewrite !nth_slice. destruct (Nat.ltb_spec i (N.to_nat size)); [|lia]. reflexivity.
Qed.

Theorem equalOnDefined_abs :
  sa + size <= bsize a -> sb + size <= bsize b ->
  equalOnDefinedValues a sa b sb size = equalOnDefined_spec (abs a) sa (abs b) sb size.
Proof.
  intros Ha Hb. destruct (lens size Ha Hb) as (L1 & L2 & L3 & L4).
  unfold equalOnDefinedValues, equalOnDefined_spec.
  rewrite (loop_to_spec (fun av ad bv bd => if negb (Bool.eqb ad bd) then false
                                             else if ad then Bool.eqb av bv else true) size Ha Hb).
  rewrite (list_eqb_nth tbit_eqb BX _ _ (N.to_nat size)) by (apply length_tslice; assumption).
  apply forallb_ext_in. intros i Hi. apply in_seq in Hi.
  rewrite !nth_tslice by (try assumption; lia).
  destruct (sbit (abs a) VALUE _), (sbit (abs a) DEFINED _), (sbit (abs b) VALUE _), (sbit (abs b) DEFINED _); reflexivity.
Qed.

Theorem canBeReplaced_abs :
  sa <= bsize a ->
  (let n := if size =? size_max then bsize a - sa else size in sa + n <= bsize a /\ sb + n <= bsize b) ->
  canBeReplacedWith a b sa sb size = canBeReplaced_spec (abs a) (abs b) sa sb size.
Proof.
  intros Hsa H. unfold canBeReplacedWith, canBeReplaced_spec.
  assert (El : slen (abs a) = N.to_nat (bsize a)).
  { unfold slen. change 0%nat with VALUE. unfold VALUE, DEFINED in *. apply length_splane_abs. lia. }
  set (n := if size =? size_max then bsize a - sa else size) in *.
  assert (En : N.of_nat (if size =? size_max then (slen (abs a) - N.to_nat sa)%nat else N.to_nat size) = n).
  { subst n. rewrite El. destruct (size =? size_max); lia. }
  rewrite En. destruct H as [Ha Hb]. destruct (lens n Ha Hb) as (L1 & L2 & L3 & L4).
  rewrite (loop_to_spec (fun av ad bv bd => if negb ad then true else if negb bd then false
                                             else Bool.eqb av bv) n Ha Hb).
  rewrite (forallb2_nth le_defb BX BX _ _ (N.to_nat n)) by (apply length_tslice; assumption).
  apply forallb_ext_in. intros i Hi. apply in_seq in Hi.
  rewrite !nth_tslice by (try assumption; lia).
  destruct (sbit (abs a) VALUE _), (sbit (abs a) DEFINED _), (sbit (abs b) VALUE _), (sbit (abs b) DEFINED _); reflexivity.
Qed.
End BitLoops.
