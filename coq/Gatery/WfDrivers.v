(* C09 -- clause (vii): a clock and its logic driver nodes (Clock::m_clockDriver / m_resetDriver vs the clock port
   of the Node_Signal2Clk / Node_Signal2Rst) name each other.  Preserved by every operation, in particular by
   Clock::setLogicClockDriver / setLogicResetDriver when a driver is REPLACED; decided by drivers_check. *)
From Coq Require Import List NArith Arith Bool Lia.
From Gatery Require Import WfDefs WfLemmas WfViews WfEdges WfOps WfMain WfCheck.
Import ListNotations.

Definition InvD (g : graph) : Prop := Inv g /\ drivers_ok g.

Lemma drvnode_of_ext : forall w g g' n,
  role_of g' n = role_of g n -> (role_of g n <> 0%N -> clk_of g' (n, 0) = clk_of g (n, 0)) ->
  drvnode_of w g' n = drvnode_of w g n.
Proof.
  intros w g g' n R C. unfold drvnode_of. rewrite R.
  destruct (N.eqb (role_of g n) (role_code w)) eqn:E; auto. apply C.
  apply N.eqb_eq in E. rewrite E. destruct w; discriminate.
Qed.

Lemma drivers_ok_ext : forall g g',
  drivers_ok g -> g_drv g' = g_drv g -> keys (g_clocks g') = keys (g_clocks g) ->
  (forall w n, drvnode_of w g' n = drvnode_of w g n) -> drivers_ok g'.
Proof.
  intros g g' (K & C & R) D KC F. unfold drivers_ok, clkdrv, rstdrv in *. rewrite D, KC. split; auto. split.
  - eapply consistent_ext; [exact C | apply (F true) | reflexivity].
  - eapply consistent_ext; [exact R | apply (F false) | reflexivity].
Qed.

(* operations that leave the skeleton (liveness, roles, driver table) and all clock ports alone *)
Lemma drivers_ok_frame : forall g g',
  drivers_ok g -> same_skel g g' -> (forall x, clk_of g' x = clk_of g x) -> drivers_ok g'.
Proof.
  intros g g' H S C. apply (drivers_ok_ext g); auto.
  - apply skel_drv; auto.
  - apply skel_clocks; auto.
  - intros. apply drvnode_of_ext; [apply role_of_skel; auto | intros; apply C].
Qed.

(* ... or change clock ports of ordinary nodes only *)
Lemma drivers_ok_frame0 : forall g g',
  drivers_ok g -> same_skel g g' -> (forall x, role_of g (fst x) <> 0%N -> clk_of g' x = clk_of g x) -> drivers_ok g'.
Proof.
  intros g g' H S C. apply (drivers_ok_ext g); auto.
  - apply skel_drv; auto.
  - apply skel_clocks; auto.
  - intros. apply drvnode_of_ext; [apply role_of_skel; auto | intros; apply (C (n, 0)); auto].
Qed.

(* ---- clock ports of attach / detach, without any invariant ---- *)
Lemma clk_of_detach_other : forall g a x, x <> a -> clk_of (detachClock g a) x = clk_of g x.
Proof.
  intros. unfold detachClock. destruct (clk_of g a); auto.
  rewrite clk_of_set_clk. destruct (nport_eq_dec x a); [congruence | reflexivity].
Qed.

Lemma clk_of_attach_other : forall g a c x, x <> a -> clk_of (attachClock g a c) x = clk_of g x.
Proof.
  intros. unfold attachClock. destruct (oN_eq_dec (clk_of g a) c); auto.
  destruct c as [cid|].
  - rewrite clk_of_set_clocked, clk_of_set_clk. destruct (nport_eq_dec x a); [congruence|]. apply clk_of_detach_other; auto.
  - rewrite clk_of_set_clk. destruct (nport_eq_dec x a); [congruence|]. apply clk_of_detach_other; auto.
Qed.

Lemma clk_of_attach : forall g a c x,
  consistent nport_eq_dec (clk_of g) (clocked g) -> clk_validb g a = true ->
  clk_of (attachClock g a c) x = if nport_eq_dec x a then c else clk_of g x.
Proof.
  intros g a c x E V. destruct (nport_eq_dec x a) as [->|Hx]; [|apply clk_of_attach_other; auto].
  unfold attachClock. destruct (oN_eq_dec (clk_of g a) c); auto.
  destruct (detachClock_frame g a) as (_ & _ & _ & V1).
  destruct c as [cid|].
  - rewrite clk_of_set_clocked, clk_of_set_clk, V1, V. destruct (nport_eq_dec a a); congruence.
  - rewrite clk_of_set_clk, V1, V. destruct (nport_eq_dec a a); congruence.
Qed.

Lemma ne_fst : forall (x a : nport), fst x <> fst a -> x <> a.
Proof. intros x a H E. apply H. rewrite E. auto. Qed.

Lemma role_ne : forall g (x a : nport), role_of g (fst a) = 0%N -> role_of g (fst x) <> 0%N -> x <> a.
Proof. intros g x a Ha Hx E. subst. auto. Qed.

(* ---- the old operations ---- *)
Lemma ckframe_eframe : forall g g', eframe g g' -> same_skel g g' /\ (forall x, clk_of g' x = clk_of g x).
Proof. intros g g' (_ & _ & (C & _) & S & _). auto. Qed.

Lemma signalConnect_ckframe : forall g n out,
  same_skel g (signalConnect g n out) /\ (forall x, clk_of (signalConnect g n out) x = clk_of g x).
Proof.
  intros. assert (R : same_skel g g /\ forall x, clk_of g x = clk_of g x) by (split; [reflexivity | auto]).
  unfold signalConnect. destruct out as [b|]; [|apply ckframe_eframe; apply eframe_connect].
  destruct (otype g b); auto. destruct (otype g (n, 0)); auto.
  destruct (cons g (n, 0)).
  - destruct (setType_eframe_but_types g (n, 0) c) as (_ & _ & _ & _ & (K & _) & S & _).
    destruct (ckframe_eframe _ _ (eframe_connect (setOutputConnectionType g (n, 0) c) (n, 0) (Some b))) as (S2 & K2).
    split; [unfold same_skel in *; congruence | intros; rewrite K2; apply K].
  - destruct (ctype_eq_dec c c0); auto. apply ckframe_eframe; apply eframe_connect.
Qed.

Lemma upd_ref_ckframe : forall g n (h : node -> node),
  (forall nd, n_clks (h nd) = n_clks nd) -> (forall nd, n_role (h nd) = n_role nd) ->
  same_skel g (upd_node g n h) /\ (forall x, clk_of (upd_node g n h) x = clk_of g x).
Proof.
  intros. split; [apply skeleton_upd_node; auto|]. intros. unfold clk_of. apply node_view_upd_same. intros; rewrite H; auto.
Qed.

Lemma addRef_ckframe : forall g n, same_skel g (addRef g n) /\ (forall x, clk_of (addRef g n) x = clk_of g x).
Proof. intros. unfold addRef. apply upd_ref_ckframe; reflexivity. Qed.

Lemma removeRef_ckframe : forall g n, same_skel g (removeRef g n) /\ (forall x, clk_of (removeRef g n) x = clk_of g x).
Proof. intros. unfold removeRef. apply upd_ref_ckframe; intros nd; destruct (N.eqb (n_ref nd) 0); reflexivity. Qed.

Lemma detach_range_clk_other : forall l g n x, fst x <> n -> clk_of (detach_range g n l) x = clk_of g x.
Proof.
  unfold detach_range. induction l as [|cp r IH]; intros; simpl; auto.
  rewrite IH; auto. apply clk_of_detach_other. intros ->. auto.
Qed.

Lemma predestroy_clk_other : forall g n k x, fst x <> n -> clk_of (predestroy g n k) x = clk_of g x.
Proof.
  intros. unfold predestroy.
  destruct (resizeOutputs_gframe (resizeInputs (detach_range (moveToGroup g n None) n (seq 0 k)) n 0) n 0) as (_ & (K4 & _) & _).
  destruct (resizeInputs_gframe (detach_range (moveToGroup g n None) n (seq 0 k)) n 0) as (_ & (K3 & _) & _).
  destruct (moveToGroup_frame g n None) as (_ & (K1 & _) & _).
  rewrite K4, K3, detach_range_clk_other, K1; auto.
Qed.

Lemma create_role : forall g nin nout nclk req role k, ids_ok g ->
  role_of (createNodeR g nin nout nclk req role) k = if N.eq_dec k (g_next g) then role else role_of g k.
Proof.
  intros. unfold role_of. rewrite create_getn by auto.
  destruct (N.eq_dec k (g_next g)) as [->|].
  - rewrite create_fresh by auto. reflexivity.
  - destruct (getn g k); auto.
Qed.

Lemma createIn_drivers : forall g nin nout nclk req role grp,
  Inv g -> drivers_ok g -> drivers_ok (moveToGroup (createNodeR g nin nout nclk req role) (g_next g) grp).
Proof.
  intros g nin nout nclk req role grp I H.
  assert (Id : ids_ok g) by apply I.
  set (g1 := createNodeR g nin nout nclk req role).
  destruct (moveToGroup_frame g1 (g_next g) grp) as (_ & (K & _) & S).
  apply (drivers_ok_ext g); auto.
  - rewrite (skel_drv g1 _ S). reflexivity.
  - rewrite (skel_clocks g1 _ S). reflexivity.
  - intros w n. unfold drvnode_of. rewrite (role_of_skel g1 _ n S), K. unfold g1. rewrite create_role, create_clk_of by auto.
    destruct (N.eq_dec n (g_next g)) as [->|]; auto.
    assert (C0 : clk_of g (g_next g, 0) = None) by (unfold clk_of; simpl; rewrite create_fresh; auto).
    rewrite C0. destruct (N.eqb role (role_code w)); destruct (N.eqb (role_of g (g_next g)) (role_code w)); auto.
Qed.

Lemma createClock_drivers : forall g, Inv g -> drivers_ok g -> drivers_ok (createClock g).
Proof.
  intros g I (K & C & R).
  assert (F : forall c, get c (g_drv g ++ [(g_cnext g, (@None N, @None N))]) = match get c (g_drv g) with Some d => Some d | None => if N.eq_dec c (g_cnext g) then Some (None, None) else None end)
    by (intros; apply get_snoc).
  split; [|split].
  - unfold createClock. simpl. rewrite !keys_snoc, K. reflexivity.
  - eapply consistent_ext; [exact C | reflexivity |]. intros a b. unfold clkdrv, createClock. simpl. rewrite F.
    destruct (get b (g_drv g)); auto. destruct (N.eq_dec b (g_cnext g)); auto.
  - eapply consistent_ext; [exact R | reflexivity |]. intros a b. unfold rstdrv, createClock. simpl. rewrite F.
    destruct (get b (g_drv g)); auto. destruct (N.eq_dec b (g_cnext g)); auto.
Qed.

Lemma del_role : forall g n k, InvS g -> role_of (with_nodes g (del n (g_nodes g))) k = if N.eq_dec k n then 0%N else role_of g k.
Proof. intros. unfold role_of. rewrite del_getn by auto. destruct (N.eq_dec k n); auto. Qed.

Lemma destroy_drivers : forall g n,
  Inv g -> drivers_ok g -> op_role_pre g (ODestroy n) = true -> drivers_ok (destroyNode g n).
Proof.
  intros g n I H P. destruct (getn g n) as [nd|] eqn:Hn; [|unfold destroyNode; rewrite Hn; auto].
  apply Inv_split in I. destruct I as [IS _].
  destruct (predestroy_props g n nd IS Hn) as (I4 & S4 & Hg & Hc & Hd & Ho & _ & _).
  rewrite (destroyNode_unfold g n nd Hn). simpl.
  set (g4 := predestroy g n (length (n_clks nd))) in *.
  apply (drivers_ok_ext g); auto.
  - simpl. apply skel_drv; auto.
  - simpl. apply skel_clocks; auto.
  - intros w k. unfold drvnode_of. rewrite del_role by auto. rewrite del_clk_of by auto.
    destruct (N.eq_dec k n) as [->|Hk].
    + rewrite Hc. simpl in P. apply orb_true_iff in P. destruct P as [P|P].
      * apply N.eqb_eq in P. rewrite P. destruct w; reflexivity.
      * destruct (clk_of g (n, 0)); [discriminate|]. destruct w; simpl; destruct (N.eqb (role_of g n) _); reflexivity.
    + rewrite (role_of_skel g g4 k S4). unfold g4. rewrite predestroy_clk_other by auto. reflexivity.
Qed.

(* ---- Clock::setLogicClockDriver / setLogicResetDriver ---- *)
Lemma clockb_drv_keys : forall g c, drivers_ok g -> clockb g c = true -> exists d, get c (g_drv g) = Some d.
Proof.
  intros g c (K & _) H. rewrite clockb_keys in H. apply memb_true in H. rewrite <- K in H.
  destruct (get c (g_drv g)) as [d|] eqn:E; [eauto|]. apply get_None_keys in E. contradiction.
Qed.

Lemma olist_count : forall (o : option N) x, count_occ N.eq_dec (olist o) x = if oN_eq_dec o (Some x) then 1 else 0.
Proof.
  intros. destruct o as [y|]; simpl.
  - destruct (N.eq_dec y x); destruct (oN_eq_dec (Some y) (Some x)); congruence.
  - destruct (oN_eq_dec None (Some x)); congruence.
Qed.

Lemma consistent_olist : forall (f : N -> option N) (D : N -> option N),
  consistent N.eq_dec f (fun c => olist (D c)) <-> (forall n c, f n = Some c <-> D c = Some n).
Proof.
  intros. split.
  - intros H n c. destruct (H n c) as [H1 H2]. rewrite olist_count in *. split; intros E.
    + specialize (H1 E). destruct (oN_eq_dec (D c) (Some n)); [auto|discriminate].
    + destruct (oN_eq_dec (f n) (Some c)); auto. specialize (H2 n0). rewrite E in H2.
      destruct (oN_eq_dec (Some n) (Some n)); [discriminate|congruence].
  - intros H n c. rewrite olist_count. split; intros E.
    + apply H in E. destruct (oN_eq_dec (D c) (Some n)); congruence.
    + destruct (oN_eq_dec (D c) (Some n)); auto. apply H in e. congruence.
Qed.

Theorem setLogicDriver_drivers : forall which g c n,
  Inv g -> drivers_ok g -> op_struct_pre g (OSetDriver which c n) = true ->
  drivers_ok (setLogicDriver which g c n).
Proof.
  intros which g c n I H P. pose proof H as (K & C & R). simpl in P.
  repeat (apply andb_true_iff in P; destruct P as [P ?]).
  rename H0 into Pfresh, H1 into Vold, H2 into Prole, H3 into Vn, H4 into Ln. rename P into Pc.
  apply N.eqb_eq in Prole.
  destruct (clockb_drv_keys g c H Pc) as (d0 & Hd0).
  assert (EC : consistent nport_eq_dec (clk_of g) (clocked g)) by apply I.
  (* the two tables as functions *)
  assert (CW : forall m k, drvnode_of which g m = Some k <-> drv_of which g k = Some m).
  { destruct which; [apply (proj1 (consistent_olist _ _) C) | apply (proj1 (consistent_olist _ _) R)]. }
  assert (CN : forall m k, drvnode_of (negb which) g m = Some k <-> drv_of (negb which) g k = Some m).
  { destruct which; [apply (proj1 (consistent_olist _ _) R) | apply (proj1 (consistent_olist _ _) C)]. }
  (* state after un-binding the old driver *)
  set (old := drv_of which g c) in *.
  set (g1 := match old with Some o => attachClock g (o, 0) None | None => g end).
  assert (F1 : same_skel g g1 /\ consistent nport_eq_dec (clk_of g1) (clocked g1) /\
               (forall x, clk_validb g1 x = clk_validb g x) /\
               (forall x, clk_of g1 x = match old with Some o => if nport_eq_dec x (o, 0) then None else clk_of g x | None => clk_of g x end)).
  { unfold g1. destruct old as [o|].
    - destruct (attachClock_frame g (o, 0) None) as (_ & _ & S & V).
      split; auto. split; [apply attachClock_consistent; auto|]. split; auto.
      intros. apply clk_of_attach; auto.
    - split; [reflexivity|]. split; auto. }
  destruct F1 as (S1 & E1 & V1 & K1).
  set (g2 := set_drv g1 c which (Some n)).
  destruct (attachClock_frame g2 (n, 0) (Some c)) as (_ & _ & S3 & _).
  assert (K3 : forall x, clk_of (attachClock g2 (n, 0) (Some c)) x = if nport_eq_dec x (n, 0) then Some c else clk_of g1 x).
  { intros. rewrite clk_of_attach; auto. change (clk_validb g1 (n, 0) = true). rewrite V1; auto. }
  assert (D1 : g_drv g1 = g_drv g) by (apply skel_drv; auto).
  assert (D3 : g_drv (attachClock g2 (n, 0) (Some c)) = g_drv g2) by (apply skel_drv; auto).
  assert (DV : forall w k, drv_of w (attachClock g2 (n, 0) (Some c)) k =
               if Bool.eqb w which then (if N.eq_dec k c then Some n else drv_of w g k) else drv_of w g k).
  { intros. unfold drv_of, clkdrv, rstdrv. rewrite D3. unfold g2, set_drv. simpl. rewrite get_upd, D1.
    destruct w, which; simpl; destruct (N.eq_dec k c) as [->|]; auto; rewrite Hd0; reflexivity. }
  assert (RL : forall k, role_of (attachClock g2 (n, 0) (Some c)) k = role_of g k).
  { intros. rewrite (role_of_skel g2 _ k S3). change (role_of g1 k = role_of g k). apply role_of_skel; auto. }
  (* the old driver, if any, is a node of this role bound to c *)
  assert (OLD : forall o, old = Some o -> role_of g o = role_code which /\ clk_of g (o, 0) = Some c).
  { intros o Ho. apply CW in Ho. unfold drvnode_of in Ho.
    destruct (N.eqb (role_of g o) (role_code which)) eqn:E; [|discriminate]. apply N.eqb_eq in E. auto. }
  (* the new driver is unbound, or is the old driver *)
  assert (NEW : drvnode_of which g n = None \/ old = Some n).
  { apply orb_true_iff in Pfresh. destruct Pfresh as [Pf|Pf].
    - left. unfold drvnode_of. destruct (clk_of g (n, 0)); [discriminate|]. destruct (N.eqb _ _); auto.
    - right. destruct (oN_eq_dec old (Some n)); [auto|discriminate]. }
  (* new node-side function *)
  assert (FW : forall m, drvnode_of which (attachClock g2 (n, 0) (Some c)) m =
               if N.eq_dec m n then Some c else if oN_eq_dec old (Some m) then None else drvnode_of which g m).
  { intros m. unfold drvnode_of. rewrite RL, K3, K1.
    destruct (N.eq_dec m n) as [->|Hm].
    - rewrite Prole, N.eqb_refl. destruct (nport_eq_dec (n, 0) (n, 0)); congruence.
    - destruct (nport_eq_dec (m, 0) (n, 0)); [congruence|].
      destruct (oN_eq_dec old (Some m)) as [Eo|Eo].
      + rewrite Eo. destruct (nport_eq_dec (m, 0) (m, 0)); [|congruence]. destruct (N.eqb _ _); auto.
      + destruct old as [o|]; auto. destruct (nport_eq_dec (m, 0) (o, 0)); [congruence|auto]. }
  assert (FN : forall m, drvnode_of (negb which) (attachClock g2 (n, 0) (Some c)) m = drvnode_of (negb which) g m).
  { intros m. unfold drvnode_of. rewrite RL.
    destruct (N.eqb (role_of g m) (role_code (negb which))) eqn:E; auto. apply N.eqb_eq in E.
    rewrite K3, K1.
    assert (Hm : m <> n) by (intros ->; rewrite Prole in E; destruct which; discriminate).
    destruct (nport_eq_dec (m, 0) (n, 0)); [congruence|].
    destruct old as [o|] eqn:Eo; auto. destruct (nport_eq_dec (m, 0) (o, 0)) as [Em|]; auto.
    inversion Em; subst o. destruct (OLD m eq_refl) as [Ro _]. rewrite Ro in E. destruct which; discriminate. }
  (* assemble *)
  assert (GW : forall m k, drvnode_of which (attachClock g2 (n, 0) (Some c)) m = Some k <->
                           drv_of which (attachClock g2 (n, 0) (Some c)) k = Some m).
  { intros m k. rewrite FW, DV, Bool.eqb_reflx.
    destruct (N.eq_dec m n) as [->|Hm].
    - destruct (N.eq_dec k c) as [->|Hk]; [tauto|]. split; intros E; [congruence|].
      (* some other clock names n: then n was bound to it *)
      apply CW in E. destruct NEW as [Nn|Nn]; [congruence|].
      apply CW in Nn. congruence.
    - destruct (N.eq_dec k c) as [->|Hk].
      + split; intros E; [|congruence].
        destruct (oN_eq_dec old (Some m)); [discriminate|]. apply CW in E. fold old in E. congruence.
      + destruct (oN_eq_dec old (Some m)) as [Eo|Eo]; [|apply CW].
        split; intros E; [discriminate|]. apply CW in E. apply CW in Eo. congruence. }
  assert (GN : forall m k, drvnode_of (negb which) (attachClock g2 (n, 0) (Some c)) m = Some k <->
                           drv_of (negb which) (attachClock g2 (n, 0) (Some c)) k = Some m).
  { intros m k. rewrite FN, DV. replace (Bool.eqb (negb which) which) with false by (destruct which; reflexivity). apply CN. }
  unfold setLogicDriver. fold old. fold g1. fold g2.
  split; [|split].
  - rewrite (skel_clocks g2 _ S3), D3. change (keys (g_clocks g2)) with (keys (g_clocks g1)).
    rewrite (skel_clocks g g1 S1). unfold g2, set_drv. simpl. rewrite keys_upd, D1. exact K.
  - apply consistent_olist. destruct which; [apply GW | apply GN].
  - apply consistent_olist. destruct which; [apply GN | apply GW].
Qed.

(* ---- every operation ---- *)
Theorem exec_preserves_drivers : forall g o, Inv g -> drivers_ok g -> op_pre g o = true -> drivers_ok (exec g o).
Proof.
  intros g o I H P. unfold op_pre in P. apply andb_true_iff in P. destruct P as [P _].
  apply andb_true_iff in P. destruct P as [P PR].
  assert (EF : forall g', eframe g g' -> drivers_ok g').
  { intros g' F. destruct (ckframe_eframe _ _ F). apply (drivers_ok_frame g); auto. }
  destruct o; simpl in *.
  - apply createIn_drivers; auto.
  - (* OAddGroup *) exact H.
  - apply createClock_drivers; auto.
  - apply EF. apply eframe_connect.
  - apply EF. apply eframe_disconnect.
  - destruct (signalConnect_ckframe g n src). apply (drivers_ok_frame g); auto.
  - destruct (setType_eframe_but_types g b t) as (_ & _ & _ & _ & (K & _) & S & _). apply (drivers_ok_frame g); auto.
  - destruct (resizeInputs_gframe g n k) as (_ & (K & _) & S & _). apply (drivers_ok_frame g); auto.
  - destruct (resizeOutputs_gframe g n k) as (_ & (K & _) & S). apply (drivers_ok_frame g); auto.
  - apply EF. apply eframe_bypass_loop.
  - destruct (moveToGroup_frame g n grp) as (_ & (K & _) & S). apply (drivers_ok_frame g); auto.
  - (* OAddClock: an ordinary node *)
    apply N.eqb_eq in PR. unfold addClock. destruct (getn g n) as [nd|] eqn:Hn; auto. fold (push_clk g n).
    destruct (push_clk_frame g n) as (_ & _ & S1).
    destruct (attachClock_frame (push_clk g n) (n, length (n_clks nd)) c) as (_ & _ & S2 & _).
    apply (drivers_ok_frame0 g); auto; [unfold same_skel in *; congruence|].
    intros x Hx. rewrite clk_of_attach_other; [apply push_clk_clk_of|]. intros ->. simpl in Hx. auto.
  - (* OAttachClock *)
    apply N.eqb_eq in PR. destruct (attachClock_frame g a c) as (_ & _ & S & _).
    apply (drivers_ok_frame0 g); auto. intros x Hx. apply clk_of_attach_other. eapply role_ne; eauto.
  - (* ODetachClock *)
    apply N.eqb_eq in PR. destruct (detachClock_frame g a) as (_ & _ & S & _).
    apply (drivers_ok_frame0 g); auto. intros x Hx. apply clk_of_detach_other. eapply role_ne; eauto.
  - destruct (addRef_ckframe g n) as (S & K). apply (drivers_ok_frame g); auto.
  - destruct (removeRef_ckframe g n) as (S & K). apply (drivers_ok_frame g); auto.
  - apply destroy_drivers; auto.
  - apply createIn_drivers; auto.
  - apply setLogicDriver_drivers; auto.
Qed.

Theorem exec_preserves_InvD : forall g o, InvD g -> op_pre g o = true -> InvD (exec g o).
Proof. intros g o [I H] P. split; [apply exec_preserves_Inv | apply exec_preserves_drivers]; auto. Qed.

Theorem step_preserves_InvD : forall g o, InvD g -> InvD (step g o).
Proof. intros. unfold step. destruct (op_pre g o) eqn:P; auto. apply exec_preserves_InvD; auto. Qed.

Theorem run_preserves_InvD : forall ops g, InvD g -> InvD (run g ops).
Proof.
  unfold run. induction ops as [|o r IH]; intros; simpl; auto. apply IH. apply step_preserves_InvD; auto.
Qed.

Lemma empty_graph_InvD : InvD empty_graph.
Proof.
  split; [apply empty_graph_Inv|]. split; [reflexivity|].
  split; (intros a b; unfold drvnode_of, role_of, clk_of, getn, clkdrv, rstdrv, empty_graph; simpl; split; [intros E; discriminate E | auto]).
Qed.

Corollary reachable_InvD : forall ops, InvD (run empty_graph ops).
Proof. intros. apply run_preserves_InvD. apply empty_graph_InvD. Qed.

(* ---- the checker ---- *)
Lemma keys_eqb_eq : forall a b, keys_eqb a b = true <-> a = b.
Proof.
  induction a as [|x r IH]; destruct b as [|y r']; simpl; split; intros; try discriminate; auto.
  - apply andb_true_iff in H. destruct H as [H1 H2]. apply N.eqb_eq in H1. apply IH in H2. congruence.
  - inversion H; subst. rewrite N.eqb_refl. apply IH. auto.
Qed.

Lemma drvnode_Some : forall w g n c,
  drvnode_of w g n = Some c <-> exists nd, getn g n = Some nd /\ n_role nd = role_code w /\ nth 0 (n_clks nd) None = Some c.
Proof.
  intros. unfold drvnode_of, role_of, clk_of. simpl. split.
  - destruct (getn g n) as [nd|] eqn:E.
    + destruct (N.eqb (n_role nd) (role_code w)) eqn:R; [|discriminate]. apply N.eqb_eq in R. eauto.
    + destruct (N.eqb 0 (role_code w)); discriminate.
  - intros (nd & -> & R & C). rewrite R, N.eqb_refl. auto.
Qed.

Theorem drivers_check_reflect : forall g, NoDup (keys (g_nodes g)) -> NoDup (keys (g_clocks g)) ->
  (drivers_check g = true <-> drivers_ok g).
Proof.
  intros g ND NDc. unfold drivers_check, drivers_ok.
  rewrite !andb_true_iff, keys_eqb_eq. rewrite !consistent_olist.
  split.
  - intros ((K & F) & B). split; auto.
    assert (NDd : NoDup (keys (g_drv g))) by (rewrite K; auto).
    unfold drivers_fwd_check in F. rewrite forallb_amap in F by auto.
    unfold drivers_bwd_check in B. rewrite forallb_amap in B by auto.
    split; intros n c; split; intros E.
    + apply drvnode_Some in E. destruct E as (nd & Hn & R & C). specialize (F n nd Hn). simpl in F, R. rewrite R in F. simpl in F.
      rewrite C in F. destruct (oN_eq_dec (clkdrv g c) (Some n)); [auto|discriminate].
    + unfold clkdrv in E. destruct (get c (g_drv g)) as [d|] eqn:Hd; [|discriminate].
      specialize (B c d Hd). simpl in B. apply andb_true_iff in B. destruct B as [B _]. rewrite E in B.
      destruct (oN_eq_dec (drvnode_of true g n) (Some c)); [auto|discriminate].
    + apply drvnode_Some in E. destruct E as (nd & Hn & R & C). specialize (F n nd Hn). simpl in F, R. rewrite R in F. simpl in F.
      rewrite C in F. destruct (oN_eq_dec (rstdrv g c) (Some n)); [auto|discriminate].
    + unfold rstdrv in E. destruct (get c (g_drv g)) as [d|] eqn:Hd; [|discriminate].
      specialize (B c d Hd). simpl in B. apply andb_true_iff in B. destruct B as [_ B]. rewrite E in B.
      destruct (oN_eq_dec (drvnode_of false g n) (Some c)); [auto|discriminate].
  - intros (K & C & R). assert (NDd : NoDup (keys (g_drv g))) by (rewrite K; auto).
    split; [split; auto|].
    + unfold drivers_fwd_check. rewrite forallb_amap by auto. intros n nd Hn. simpl.
      destruct (N.eqb (n_role nd) 1) eqn:R1.
      * apply N.eqb_eq in R1. destruct (nth 0 (n_clks nd) None) as [c|] eqn:E; auto.
        destruct (oN_eq_dec (clkdrv g c) (Some n)) as [|Hne]; auto. exfalso. apply Hne. apply C. apply drvnode_Some. eauto.
      * destruct (N.eqb (n_role nd) 2) eqn:R2; auto.
        apply N.eqb_eq in R2. destruct (nth 0 (n_clks nd) None) as [c|] eqn:E; auto.
        destruct (oN_eq_dec (rstdrv g c) (Some n)) as [|Hne]; auto. exfalso. apply Hne. apply R. apply drvnode_Some. eauto.
    + unfold drivers_bwd_check. rewrite forallb_amap by auto. intros c d Hd. simpl. apply andb_true_iff. split.
      * destruct (fst d) as [n|] eqn:E; auto. destruct (oN_eq_dec (drvnode_of true g n) (Some c)) as [|Hne]; auto.
        exfalso. apply Hne. apply C. unfold clkdrv. rewrite Hd. auto.
      * destruct (snd d) as [n|] eqn:E; auto. destruct (oN_eq_dec (drvnode_of false g n) (Some c)) as [|Hne]; auto.
        exfalso. apply Hne. apply R. unfold rstdrv. rewrite Hd. auto.
Qed.

Theorem invd_check_reflect : forall g, invd_check g = true <-> InvD g.
Proof.
  intros. unfold invd_check, InvD. rewrite andb_true_iff, inv_check_reflect. split; intros [I D]; split; auto.
  - apply drivers_check_reflect; auto; apply I.
  - apply drivers_check_reflect; auto; apply I.
Qed.

Theorem wfd_check_reflect : forall g, wfd_check g = true <-> Inv g /\ AllGrouped g /\ drivers_ok g.
Proof.
  intros. unfold wfd_check. rewrite andb_true_iff, wf_check_reflect. split.
  - intros [[I G] D]. split; auto. split; auto. apply drivers_check_reflect; auto; apply I.
  - intros (I & G & D). split; auto. apply drivers_check_reflect; auto; apply I.
Qed.

(* in the wording of the property *)
Theorem clock_driver_agree : forall g, drivers_ok g ->
  (forall c n, clkdrv g c = Some n <-> (liveb g n = true /\ role_of g n = 1%N /\ clk_of g (n, 0) = Some c)) /\
  (forall c n, rstdrv g c = Some n <-> (liveb g n = true /\ role_of g n = 2%N /\ clk_of g (n, 0) = Some c)).
Proof.
  intros g (_ & C & R). rewrite consistent_olist in C, R.
  assert (A : forall w n c, drvnode_of w g n = Some c <-> (liveb g n = true /\ role_of g n = role_code w /\ clk_of g (n, 0) = Some c)).
  { intros. rewrite drvnode_Some. unfold liveb, role_of, clk_of. simpl. split.
    - intros (nd & -> & Rr & Cc). auto.
    - destruct (getn g n) as [nd|]; [|intros (? & _); discriminate]. intros (_ & Rr & Cc). eauto. }
  split; intros c n; [rewrite <- (A true) | rewrite <- (A false)]; [rewrite C | rewrite R]; tauto.
Qed.
